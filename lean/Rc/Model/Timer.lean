/-
C20 model: the session timer (src/bgp/fsm/timers.rs, after fix F17) under a controlled clock.

Two layers.

1. A SMALL-STEP model of the `Timer` struct together with the task `Timer::start` spawns:

   * `interval`        `Timer.interval` (ms)
   * `task`            the spawned `timer_inner` loop: `dead` (never started / stopped / panicked at
                       `tokio::time::interval(0)`), `waiting next` (suspended in the `select!` of
                       `timer_inner`; `next` = the deadline of its `tokio::time::Interval`), or
                       `sending v next` (suspended in `tick_send.send(v).await` because the tick channel
                       is full; the Interval's next deadline is already `next = v + interval`)
   * `queue`           the capacity-1 tick channel `tick_send`/`tick_recv`
   * `resetPending`    the capacity-1 reset channel `reset_send`/`reset_recv` of the live task holds a message
   * `everStarted`     `reset_send.is_some()` (set by the first `start`, never cleared)
   * `now`             the paused tokio clock (ms since the timer was created)
   * ghost fields      `lastStart`, `lastReset` (time of the last `start` / `reset` call),
                       `stopped` (= `!Timer.started`)

   The primitive steps are the synchronous calls `callStart` / `callStop` / `callReset` (what the
   method does before it returns; the task is NOT polled), `clock d` (the paused clock moves, nothing is
   polled) and `settle` (the spawned task is polled until it suspends: `select! { biased; reset, tick }`,
   `Interval::tick` with `MissedTickBehavior::Burst`, `tick_send.send(..).await`).

2. The OPERATIONS of a history are compositions of primitive steps, exactly as the harness executes
   them (it yields after every operation so that the task settles):
   `start` = callStart; settle   `advance d` = clock d; settle   `advThen d c` = clock d; call c; settle
   (the Interval has fired but its task has not run when the call is made), `await d` =
   `timeout(d, timer.tick())` + settle, `probe` = read `is_running()`, `!tick_recv.is_empty()` and
   the number of live tasks, `burst2 c1 c2` / `burst3 c1 c2 c3` = the calls back to back (the task
   `start` spawned has not been polled once when the next call is made), then settle.

The model is TOTAL: it also says what happens when the property's precondition "each tick is awaited
before the next one falls due" is broken (the sender blocks on the full channel, the Interval catches up
in a burst, `reset()` drains the channel while a sender is blocked: the blocked tick is delivered after
the reset).  `breaks s op` says whether `op` breaks the precondition; `step`/`run` are the total
functions restricted to histories that keep it.

`drain := false` gives the code before fix F17 (queued ticks survive stop/reset/start); it is only
meaningful inside the precondition and for settled calls (the unrepaired `select!`s were not biased).

Idealisations (also in tools/props/C20.json `assumptions`): the spawned task is first polled at the clock
instant of `start()` and a reset message is consumed at the instant of `reset()` (no time passes between a
call and the settle that follows it); `stop`/`start` end the old task at once (its outer `select!` is
biased towards `stop_recv`, so whenever it is polled next it ends without sending).

Core Lean only (the driver links this file).
-/
import Rc.Base

namespace Rc.Timer

/-- state of the task spawned by `Timer::start` (`timer_inner` inside the stop `select!`) -/
inductive Task where
  | dead
  | waiting (next : Nat)
  | sending (v next : Nat)
  deriving Repr, DecidableEq

/-- the three synchronous methods -/
inductive Call where
  | start | reset | stop
  deriving Repr, DecidableEq

inductive Op where
  | start
  | reset
  | stop
  | advance (d : Nat)              -- tokio::time::advance(d ms), then the task settles
  | await (d : Nat)                -- tokio::time::timeout(d ms, timer.tick()), then the task settles
  | advThen (d : Nat) (c : Call)   -- advance(d ms) and the call BEFORE the task has run, then settle
  | probe                          -- is_running(), tick pending?, live tasks
  | burst2 (c1 c2 : Call)          -- two calls back to back: nothing is polled in between, then settle
  | burst3 (c1 c2 c3 : Call)       -- three calls back to back
  deriving Repr, DecidableEq

structure State where
  interval : Nat
  now : Nat
  task : Task
  queue : Option Nat
  resetPending : Bool
  everStarted : Bool
  lastStart : Option Nat
  lastReset : Option Nat
  stopped : Bool
  deriving Repr, DecidableEq

def init (interval : Nat) : State :=
  { interval, now := 0, task := .dead, queue := none, resetPending := false, everStarted := false,
    lastStart := none, lastReset := none, stopped := true }

/-- what an operation lets the caller see -/
inductive Obs where
  | tick (value : Nat) (at_ : Nat)     -- `Ok(instant)`: the Instant carried, the clock when it was received
  | timeout (at_ : Nat)                -- `Err(Elapsed)`
  | probe (running pending : Bool) (alive : Nat)
  deriving Repr, DecidableEq

/-! ### primitive steps -/

/-- mirrors `Timer::start` (timers.rs:101): `drain_ticks` (F17), `started = true`, new stop and reset
channels (dropping the old stop sender ends the previous task: its `stop_recv` resolves and the biased
outer `select!` takes that arm), `tokio::spawn` of `timer_inner`: `interval(i)` starts now, its immediate
first tick is swallowed, next deadline `now + i`.  `interval(0)` panics inside the new task: it is gone. -/
def callStart (drain : Bool) (s : State) : State :=
  { s with
    queue := if drain then none else s.queue,
    task := if s.interval = 0 then .dead else .waiting (s.now + s.interval),
    resetPending := false,
    everStarted := true,
    lastStart := some s.now,
    stopped := false }

/-- mirrors `Timer::stop_and_reset` (timers.rs:147): the stop message ends the task (biased `select!`),
`drain_ticks` (F17), `started = false`.  Without a `stop_send` (never started / already stopped) only a
warning is logged; there is no task then. -/
def callStop (drain : Bool) (s : State) : State :=
  { s with
    task := .dead,
    queue := if drain then none else s.queue,
    resetPending := false,
    stopped := true }

/-- mirrors `Timer::reset` (timers.rs:162): with a `reset_send` (ever started): `try_send(())` into the
capacity-1 reset channel (`Full` when a message is already there, `Closed` when the task is gone: both
ignored), `drain_ticks` (F17).  Never started: a warning. -/
def callReset (drain : Bool) (s : State) : State :=
  if s.everStarted then
    { s with
      resetPending := (match s.task with | .dead => false | _ => true),
      queue := if drain then none else s.queue,
      lastReset := some s.now }
  else { s with lastReset := some s.now }

def call (drain : Bool) (s : State) : Call → State
  | .start => callStart drain s
  | .reset => callReset drain s
  | .stop => callStop drain s

/-- the paused clock moves; nothing is polled -/
def clock (s : State) (d : Nat) : State := { s with now := s.now + d }

/-- the loop of `timer_inner` (timers.rs:133) from its `select!` until it suspends:
`biased; reset_recv.recv() => interval.reset()` (next deadline one period from now) wins over
`interval.tick()`; a due tick is sent; `Interval` (Burst) is then due again one period after the
deadline it returned, so a second overdue tick follows at once and finds the channel full. -/
def pollLoop (s : State) (next : Nat) : State :=
  if s.resetPending then { s with task := .waiting (s.now + s.interval), resetPending := false }
  else if next ≤ s.now then
    match s.queue with
    | some _ => { s with task := .sending next (next + s.interval) }
    | none =>
      if next + s.interval ≤ s.now then
        { s with queue := some next, task := .sending (next + s.interval) (next + s.interval + s.interval) }
      else { s with queue := some next, task := .waiting (next + s.interval) }
  else s

/-- the spawned task runs until it suspends -/
def settle (s : State) : State :=
  match s.task with
  | .dead => s
  | .waiting next => pollLoop s next
  | .sending v next =>
    if s.queue.isSome then s                                  -- still no room
    else pollLoop { s with queue := some v, task := .waiting next } next

/-! ### operations -/

/-- `timeout(d, timer.tick())` in a settled state, then settle: a queued tick is received at once
(which frees the slot a blocked sender waits for); otherwise the paused clock auto-advances to the
earlier of the task's deadline and the timeout.  When both coincide the `Timeout` future is polled
before the interval task runs: `Elapsed`, and the tick is in the queue afterwards. -/
def await (s : State) (d : Nat) : State × Obs :=
  match s.queue with
  | some v => (settle { s with queue := none }, .tick v s.now)
  | none =>
    match s.task with
    | .waiting next =>
      if next < s.now + d then
        ({ s with now := next, task := .waiting (next + s.interval) }, .tick next next)
      else if next = s.now + d then
        ({ s with now := next, queue := some next, task := .waiting (next + s.interval) }, .timeout next)
      else ({ s with now := s.now + d }, .timeout (s.now + d))
    | _ => ({ s with now := s.now + d }, .timeout (s.now + d))

def alive (s : State) : Nat := match s.task with | .dead => 0 | _ => 1

/-- one operation (total); the observation of an `await` / `probe` -/
def stepT (drain : Bool) (s : State) : Op → State × Option Obs
  | .start => (settle (callStart drain s), none)
  | .stop => (settle (callStop drain s), none)
  | .reset => (settle (callReset drain s), none)
  | .advance d => (settle (clock s d), none)
  | .advThen d c => (settle (call drain (clock s d) c), none)
  | .await d => let r := await s d; (r.1, some r.2)
  | .probe => (s, some (.probe (!s.stopped) s.queue.isSome (alive s)))
  | .burst2 c1 c2 => (settle (call drain (call drain s c1) c2), none)
  | .burst3 c1 c2 c3 => (settle (call drain (call drain (call drain s c1) c2) c3), none)

/-- `op` breaks the property's precondition in `s`: the clock moves so far that a tick falls due while
the previous one is still un-awaited (or two fall due in one step). -/
def breaksAt (s : State) (d : Nat) : Bool :=
  match s.task with
  | .dead => false
  | .waiting next => decide (next ≤ s.now + d) && (s.queue.isSome || decide (next + s.interval ≤ s.now + d))
  | .sending _ _ => true

def breaks (s : State) : Op → Bool
  | .advance d => breaksAt s d
  | .advThen d _ => breaksAt s d
  | _ => false

/-- one operation inside the precondition -/
def step (drain : Bool) (s : State) (op : Op) : Option (State × Option Obs) :=
  if breaks s op then none else some (stepT drain s op)

/-- An observation together with the ghost variables at the moment it was made. -/
structure Event where
  obs : Obs
  lastStart : Option Nat
  lastReset : Option Nat
  stopped : Bool
  interval : Nat
  deriving Repr, DecidableEq

def eventsOf (s : State) : Option Obs → List Event
  | some ob => [{ obs := ob, lastStart := s.lastStart, lastReset := s.lastReset,
                  stopped := s.stopped, interval := s.interval : Event }]
  | none => []

/-- A whole history. `none` = the history breaks the precondition somewhere. -/
def run (drain : Bool) : State → List Op → Option (State × List Event)
  | s, [] => some (s, [])
  | s, op :: ops =>
    match step drain s op with
    | none => none
    | some (s', o) =>
      match run drain s' ops with
      | none => none
      | some (s'', evs) => some (s'', eventsOf s o ++ evs)

/-- A whole history, precondition or not. -/
def runT (drain : Bool) : State → List Op → State × List Event
  | s, [] => (s, [])
  | s, op :: ops =>
    let r := stepT drain s op
    let q := runT drain r.1 ops
    (q.1, eventsOf s r.2 ++ q.2)

/-- driver: every observation of the history; `none` marks the first operation that breaks the
precondition (`broken` = a marker was already emitted) -/
def runMarked (drain : Bool) : State → Bool → List Op → List (Option Obs)
  | _, _, [] => []
  | s, broken, op :: ops =>
    let b := !broken && breaks s op
    let r := stepT drain s op
    (if b then [none] else []) ++ (match r.2 with | some ob => [some ob] | none => []) ++
      runMarked drain r.1 (broken || b) ops

/-! ### the abstract specification

A running timer is a stream of due times `due, due + i, due + 2i, ..`; ticks are handed out in
order, never before they are due, none is lost or merged (tokio's `Interval` bursts) until a call
discards them.  `stop` and `start` discard everything that is outstanding.  `reset` re-arms at
`now + i` and discards what is outstanding EXCEPT the second-oldest outstanding tick when there are
two or more (that one sits in a blocked `send`, which completes when `reset` drains the channel);
inside the property's precondition there never are two. -/

structure Spec where
  i : Nat
  now : Nat
  due : Option Nat        -- running: the due time of the oldest tick not yet handed out or discarded
  stale : Option Nat      -- a tick from before the last reset that is still to be handed out
  lastStart : Option Nat
  lastReset : Option Nat
  stopped : Bool
  deriving Repr, DecidableEq

def Spec.init (i : Nat) : Spec :=
  { i, now := 0, due := none, stale := none, lastStart := none, lastReset := none, stopped := true }

/-- the two oldest outstanding ticks at the clock `a.now` -/
def Spec.out2 (a : Spec) : Option Nat × Option Nat :=
  match a.stale, a.due with
  | some v, some t => (some v, if t ≤ a.now then some t else none)
  | some v, none => (some v, none)
  | none, some t =>
    if t ≤ a.now then (some t, if t + a.i ≤ a.now then some (t + a.i) else none) else (none, none)
  | none, none => (none, none)

/-- a call made `d` ms after the interval task last ran (`d = 0`: the settled operations) -/
def Spec.call (a : Spec) (d : Nat) : Call → Spec
  | .start =>
    { a with now := a.now + d, due := if a.i = 0 then none else some (a.now + d + a.i), stale := none,
             lastStart := some (a.now + d), stopped := false }
  | .stop => { a with now := a.now + d, due := none, stale := none, stopped := true }
  | .reset =>
    match a.due with
    | some _ =>
      { a with now := a.now + d, due := some (a.now + d + a.i), stale := a.out2.2, lastReset := some (a.now + d) }
    | none => { a with now := a.now + d, lastReset := some (a.now + d) }

/-- calls back to back: the interval task does not run in between, so a `reset` right after a `reset`
changes nothing (the second message finds the reset channel full, there is nothing new to drain) -/
def Spec.calls (a : Spec) : List Call → Spec
  | [] => a
  | .reset :: .reset :: rest => Spec.calls a (.reset :: rest)
  | c :: rest => Spec.calls (a.call 0 c) rest

def Spec.await (a : Spec) (d : Nat) : Spec × Obs :=
  match a.stale with
  | some v => ({ a with stale := none }, .tick v a.now)
  | none =>
    match a.due with
    | some t =>
      if t ≤ a.now then ({ a with due := some (t + a.i) }, .tick t a.now)
      else if t < a.now + d then ({ a with now := t, due := some (t + a.i) }, .tick t t)
      else ({ a with now := a.now + d }, .timeout (a.now + d))
    | none => ({ a with now := a.now + d }, .timeout (a.now + d))

def Spec.step (a : Spec) : Op → Spec × Option Obs
  | .start => (a.call 0 .start, none)
  | .stop => (a.call 0 .stop, none)
  | .reset => (a.call 0 .reset, none)
  | .advance d => ({ a with now := a.now + d }, none)
  | .advThen d c => (a.call d c, none)
  | .await d => let r := a.await d; (r.1, some r.2)
  | .probe => (a, some (.probe (!a.stopped) a.out2.1.isSome (if a.due.isSome then 1 else 0)))
  | .burst2 c1 c2 => (a.calls [c1, c2], none)
  | .burst3 c1 c2 c3 => (a.calls [c1, c2, c3], none)

def Spec.eventsOf (a : Spec) : Option Obs → List Event
  | some ob => [{ obs := ob, lastStart := a.lastStart, lastReset := a.lastReset,
                  stopped := a.stopped, interval := a.i : Event }]
  | none => []

/-- the specification of a whole history: what every await / probe observes -/
def Spec.run : Spec → List Op → Spec × List Event
  | a, [] => (a, [])
  | a, op :: ops =>
    let r := a.step op
    let q := Spec.run r.1 ops
    (q.1, a.eventsOf r.2 ++ q.2)

/-- `spec i ops`: the observations of the history `ops` on a timer with interval `i` -/
def spec (i : Nat) (ops : List Op) : List Obs := ((Spec.init i).run ops).2.map (·.obs)

/-- the precondition on the specification: moving the clock by `d` lets a tick fall due while an
older one is outstanding -/
def Spec.breaksAt (a : Spec) (d : Nat) : Bool :=
  match a.due with
  | none => false
  | some t => if a.stale.isSome then decide (t ≤ a.now + d) else decide (t + a.i ≤ a.now + d)

def Spec.breaks (a : Spec) : Op → Bool
  | .advance d => a.breaksAt d
  | .advThen d _ => a.breaksAt d
  | _ => false

end Rc.Timer
