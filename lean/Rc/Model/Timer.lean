/-
C20 model: the session timer (src/bgp/fsm/timers.rs, after fix F17) under a controlled clock.

Logical state of a `Timer` plus its spawned interval task, observed at the points where the
task has settled (the harness yields after every operation):

* `interval`        `Timer.interval` (ms)
* `task`            the spawned `timer_inner` loop, if any, with the deadline of its
                    `tokio::time::Interval` (`None` before the first `start` and after a stop)
* `queue`           the capacity-1 tick channel `tick_send`/`tick_recv`
* `everStarted`     `reset_send.is_some()` (set by the first `start`, never cleared)
* `now`             the paused tokio clock (ms since the timer was created)
* ghost fields      `lastStart`, `lastReset` (time of the last `start` / `reset` call),
                    `stopped` (the last of {start, stop_and_reset} was a stop, or never started;
                    equals `!Timer.started`)

A pending reset message (`reset_send`, capacity 1) is consumed by the task at the settle right
after `reset()`, so it never persists between operations and is not a state component here.

`drain := false` gives the code before fix F17: queued ticks survive stop/reset/start.

Fix F17 also makes both `select!`s of the interval task `biased` (stop before tick, reset before
tick). That does not show in this model: it only matters when stop/reset/start is called after
the interval has fired but before its task has run, and then the repaired code ends in exactly
the state the model reaches by `advance` followed by the call (no tick is sent, the queue is
empty, the interval is re-armed from the time of the call); the unrepaired code picks one of
two outcomes at random there. The correspondence run exercises that schedule (`Ar/Ax/As`).

`step` answers `none` when the operation would break the property's precondition
"each tick is awaited before the next one falls due" (then the task would block in
`tick_send.send(..).await`, the Interval would burst, and `select!` would have to choose
between a pending reset and a due tick at random – none of which is modelled).

Core Lean only (the driver links this file).
-/
import Rc.Base

namespace Rc.Timer

inductive Op where
  | start
  | reset
  | stop
  | advance (d : Nat)     -- tokio::time::advance(d ms)
  | await (d : Nat)       -- tokio::time::timeout(d ms, timer.tick())
  deriving Repr, DecidableEq

structure State where
  interval : Nat
  now : Nat
  task : Option Nat
  queue : Option Nat
  everStarted : Bool
  lastStart : Option Nat
  lastReset : Option Nat
  stopped : Bool
  deriving Repr, DecidableEq

def init (interval : Nat) : State :=
  { interval, now := 0, task := none, queue := none, everStarted := false,
    lastStart := none, lastReset := none, stopped := true }

/-- what an `await` saw -/
inductive Obs where
  | tick (value : Nat) (at_ : Nat)     -- `Ok(instant)`: the Instant carried, the clock when it was received
  | timeout (at_ : Nat)                -- `Err(Elapsed)`
  deriving Repr, DecidableEq

/-- mirrors `Timer::start`: drain (F17), new stop/reset channels (dropping the old stop sender
ends a previous task), spawn `timer_inner`: `interval(i)` created now, its immediate first tick
swallowed, next deadline `now + i`. -/
def start (drain : Bool) (s : State) : State :=
  { s with
    queue := if drain then none else s.queue,
    task := some (s.now + s.interval),
    everStarted := true,
    lastStart := some s.now,
    stopped := false }

/-- mirrors `Timer::stop_and_reset`: the stop message ends the task; drain (F17). -/
def stop (drain : Bool) (s : State) : State :=
  { s with
    task := none,
    queue := if drain then none else s.queue,
    stopped := true }

/-- mirrors `Timer::reset` + the `reset_recv` arm of `timer_inner` (`interval.reset()`: next
deadline one period from now). Without a `reset_send` (never started) only a warning is logged. -/
def reset (drain : Bool) (s : State) : State :=
  if s.everStarted then
    { s with
      task := s.task.map (fun _ => s.now + s.interval),
      queue := if drain then none else s.queue,
      lastReset := some s.now }
  else { s with lastReset := some s.now }

/-- `tokio::time::advance(d)` followed by the settle: the `interval.tick()` arm of `timer_inner`
fires if the deadline is reached and sends the deadline Instant into the queue.
`none`: a tick falls due while the queue is full, or two fall due in one step. -/
def advance (s : State) (d : Nat) : Option State :=
  match s.task with
  | none => some { s with now := s.now + d }
  | some next =>
    if s.now + d < next then some { s with now := s.now + d }
    else if s.queue.isSome then none                       -- the task would block in send()
    else if next + s.interval ≤ s.now + d then none        -- a second tick falls due un-awaited
    else some { s with now := s.now + d, queue := some next, task := some (next + s.interval) }

/-- `timeout(d, timer.tick())`: a queued tick is received at once; otherwise the paused clock
auto-advances to the earlier of the task's deadline and the timeout. When both coincide the
`Timeout` future is polled before the interval task runs: `Elapsed`, and the tick is in the
queue afterwards. -/
def await (s : State) (d : Nat) : State × Obs :=
  match s.queue with
  | some v => ({ s with queue := none }, .tick v s.now)
  | none =>
    match s.task with
    | some next =>
      if next < s.now + d then
        ({ s with now := next, task := some (next + s.interval) }, .tick next next)
      else if next = s.now + d then
        ({ s with now := next, queue := some next, task := some (next + s.interval) }, .timeout next)
      else ({ s with now := s.now + d }, .timeout (s.now + d))
    | none => ({ s with now := s.now + d }, .timeout (s.now + d))

/-- one operation; the observation of an `await` -/
def step (drain : Bool) (s : State) : Op → Option (State × Option Obs)
  | .start => some (start drain s, none)
  | .stop => some (stop drain s, none)
  | .reset => some (reset drain s, none)
  | .advance d => (advance s d).map (·, none)
  | .await d => let r := await s d; some (r.1, some r.2)

/-- An observation together with the ghost variables at the moment it was made. -/
structure Event where
  obs : Obs
  lastStart : Option Nat
  lastReset : Option Nat
  stopped : Bool
  interval : Nat
  deriving Repr, DecidableEq

/-- A whole history. `none` = the history breaks the precondition somewhere. -/
def run (drain : Bool) : State → List Op → Option (State × List Event)
  | s, [] => some (s, [])
  | s, op :: ops =>
    match step drain s op with
    | none => none
    | some (s', o) =>
      match run drain s' ops with
      | none => none
      | some (s'', evs) =>
        let here := match o with
          | some ob => [{ obs := ob, lastStart := s.lastStart, lastReset := s.lastReset,
                          stopped := s.stopped, interval := s.interval : Event }]
          | none => []
        some (s'', here ++ evs)

/-- driver: replies up to the first precondition violation -/
def runPrefix (drain : Bool) : State → List Op → List Obs × Bool
  | _, [] => ([], false)
  | s, op :: ops =>
    match step drain s op with
    | none => ([], true)
    | some (s', o) =>
      let r := runPrefix drain s' ops
      ((match o with | some ob => [ob] | none => []) ++ r.1, r.2)

end Rc.Timer
