/-
Model of `inetnum::addr::Prefix` as routecore uses it, and of the prefix
helpers of `src/bgp/nlri/common.rs`.  Core Lean only (the driver links this).

A prefix is (family, length, address bytes).  The address is kept as the 4 / 16
octets `Prefix::addr().octets()` returns, which is what `compose_prefix` slices.
`Pfx.new` is `Prefix::new_v4` / `Prefix::new_v6`: the length must fit the
family and the host bits must be zero.  inetnum itself is trusted base
("modelled, not verified", DESIGN section 6); the correspondence check runs
every model function below against the real crate.
-/
import Rc.Base

namespace Rc

/-- `inetnum::addr::Prefix`: family, prefix length, address octets (4 or 16). -/
structure Pfx where
  v6 : Bool
  len : Nat
  addr : Bytes
  deriving DecidableEq, Repr

namespace Pfx

/-- number of address octets of a family -/
def addrLen (v6 : Bool) : Nat := if v6 then 16 else 4

/-- mirrors src/bgp/nlri/common.rs:116 `prefix_bits_to_bytes` -/
def bitsToBytes (bits : Nat) : Nat := (bits + 7) / 8

/-- `Bits::is_host_zero(len)`, octet-wise: every bit after the first `len`
bits of `addr` is zero. -/
def hostZero : Nat → Bytes → Bool
  | _, [] => true
  | len, b :: bs =>
    if 8 ≤ len then hostZero (len - 8) bs
    else (b.toNat % 2 ^ (8 - len) == 0) && hostZero 0 bs

/-- right-pad with zero octets up to `n` (`let mut b = [0u8; 4]; parse_buf(&mut b[..k])`). -/
def pad (n : Nat) (bs : Bytes) : Bytes := bs ++ List.replicate (n - bs.length) 0

/-- mirrors `Prefix::new_v4` / `Prefix::new_v6` (inetnum addr.rs:253, 271):
`LenOverflow` if the length exceeds the family's width, `NonZeroHost` if a
host bit is set.  `addr` must already be the full 4/16 octets. -/
def new (v6 : Bool) (addr : Bytes) (len : Nat) : Option Pfx :=
  if 8 * addrLen v6 < len then none
  else if hostZero len addr then some ⟨v6, len, addr⟩
  else none

/-- the invariant every `inetnum::Prefix` value satisfies -/
def wf (p : Pfx) : Bool :=
  p.addr.length == addrLen p.v6 && decide (p.len ≤ 8 * addrLen p.v6) && hostZero p.len p.addr

/-- mirrors common.rs:146 `compose_prefix_without_len`: the first
`prefix_bits_to_bytes(len)` octets of the address -/
def composeNoLen (p : Pfx) : Bytes := p.addr.take (bitsToBytes p.len)

/-- mirrors common.rs:128 `compose_prefix`: length octet, then the address octets -/
def compose (p : Pfx) : Bytes := UInt8.ofNat p.len :: composeNoLen p

/-- mirrors common.rs:124 `compose_len_prefix` (without the length octet) -/
def composeLen (p : Pfx) : Nat := bitsToBytes p.len

/-- DESIGN section 9, F2: `parse_prefix_for_len` slices `b[..prefix_bytes]`
without a bound check and panics for more than 4 / 16 octets.  Set this to
`true` once that defect is repaired (the branch then returns `Err`). -/
def f2Fixed : Bool := true

/-- shared tail of the prefix parsers: read `nb` octets, pad, `Prefix::new_v4/6` -/
def parseBody (v6 : Bool) (bits : Nat) (bs : Bytes) : Outcome (Pfx × Bytes) :=
  match takeN (bitsToBytes bits) bs with
  | none => .err
  | some (a, r) =>
    match Pfx.new v6 (pad (addrLen v6) a) bits with
    | none => .err
    | some p => .ok (p, r)

/-- mirrors common.rs:73 / 99 `parse_v4_prefix_for_len` / `parse_v6_prefix_for_len`
(the bound on the octet count is checked: `Err`) -/
def parseForLenChecked (v6 : Bool) (bits : Nat) (bs : Bytes) : Outcome (Pfx × Bytes) :=
  if addrLen v6 < bitsToBytes bits then .err else parseBody v6 bits bs

/-- mirrors common.rs:38 `parse_prefix_for_len` (used by the MPLS and MPLS-VPN
parsers): no bound check before `&mut b[..prefix_bytes]`, hence a panic (F2) -/
def parseForLen (v6 : Bool) (bits : Nat) (bs : Bytes) : Outcome (Pfx × Bytes) :=
  if addrLen v6 < bitsToBytes bits then (if f2Fixed then .err else .panic)
  else parseBody v6 bits bs

/-- mirrors common.rs:66 / 92 `parse_v4_prefix` / `parse_v6_prefix`: length octet first -/
def parse (v6 : Bool) (bs : Bytes) : Outcome (Pfx × Bytes) :=
  match bs with
  | [] => .err
  | b :: r => parseForLenChecked v6 b.toNat r

/-- big-endian value of an octet string (the `u128`/`u32` behind `Bits`) -/
def beVal : Bytes → Nat
  | [] => 0
  | b :: bs => b.toNat * 256 ^ bs.length + beVal bs

end Pfx
end Rc
