/-
Model of the selection helpers of src/bgp/path_selection.rs, generic in the
element type and in the comparison (Rust: `T: Ord`), so that the C11 theorems
can be stated for *every* comparison that is a strict weak order.

Core Lean only.
-/
import Rc.Base

namespace Rc.Select

variable {α : Type} {κ : Type}

/-- mirrors `core::cmp::min_by(v1, v2, compare)`: `v2` only when it is strictly
smaller (`Ordering::Greater` for `compare(&v1, &v2)`), i.e. the FIRST minimum
wins. -/
def minBy (cmp : α → α → Ordering) (v1 v2 : α) : α :=
  match cmp v1 v2 with
  | .gt => v2
  | _ => v1

/-- mirrors src/bgp/path_selection.rs:512 `best` = `it.min()` =
`it.reduce(|x, y| min_by(x, y, Ord::cmp))`. -/
def best (cmp : α → α → Ordering) : List α → Option α
  | [] => none
  | x :: xs => some (xs.foldl (minBy cmp) x)

/-- The two slots of `_best_backup` / `best_backup_generic`. -/
structure St (α : Type) where
  best : Option α
  backup : Option α
  deriving Repr

/-- One iteration of the `for` loop of `_best_backup`
(src/bgp/path_selection.rs:599-651), after the repair of F15: both duplicate
tests compare *content* (`inner()`).  `c < x` on a `T: Ord` is
`cmp c x == Less`. -/
def step (cmp : α → α → Ordering) (content : α → κ) [DecidableEq κ] (st : St α) (c : α) : St α :=
  match st.best with
  | none => { st with best := some c }                       -- `best = Some(c); continue`
  | some cb =>
    if cmp c cb = .lt then
      { best := some c, backup := some cb }                  -- c preferred over current best
    else
      match st.backup with
      | none =>
        if content cb ≠ content c then { st with backup := some c } else st
      | some ck =>
        if cmp c ck = .lt then
          if content cb ≠ content c then { st with backup := some c } else st
        else st

/-- `_best_backup` on the items themselves. -/
def run (cmp : α → α → Ordering) (content : α → κ) [DecidableEq κ] (l : List α) : St α :=
  l.foldl (step cmp content) ⟨none, none⟩

/-- mirrors `_best_backup`: the iterator is `enumerate`d, the comparison and the
content test look at the item only. -/
def bestBackupIdx (cmp : α → α → Ordering) (content : α → κ) [DecidableEq κ] (l : List α) : St (α × Nat) :=
  run (fun x y => cmp x.1 y.1) (fun x => content x.1) l.zipIdx

/-- mirrors `best_backup` (drops the indices). -/
def bestBackup (cmp : α → α → Ordering) (content : α → κ) [DecidableEq κ] (l : List α) : Option α × Option α :=
  let r := bestBackupIdx cmp content l
  (r.best.map (·.1), r.backup.map (·.1))

/-- mirrors `best_backup_position` (drops the items). -/
def bestBackupPosition (cmp : α → α → Ordering) (content : α → κ) [DecidableEq κ] (l : List α) : Option Nat × Option Nat :=
  let r := bestBackupIdx cmp content l
  (r.best.map (·.2), r.backup.map (·.2))

/-- One iteration of `best_backup_generic` (src/bgp/path_selection.rs:548-577):
no content test at all. -/
def stepG (cmp : α → α → Ordering) (st : St α) (c : α) : St α :=
  match st.best with
  | none => { st with best := some c }
  | some cb =>
    if cmp c cb = .lt then { best := some c, backup := some cb }
    else
      match st.backup with
      | none => { st with backup := some c }
      | some ck => if cmp c ck = .lt then { st with backup := some c } else st

/-- mirrors `best_backup_generic`. -/
def generic (cmp : α → α → Ordering) (l : List α) : St α :=
  l.foldl (stepG cmp) ⟨none, none⟩

end Rc.Select
