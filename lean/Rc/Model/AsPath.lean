/-
Executable model of src/bgp/aspath.rs (AS path representations), as coded.

A `Segment<Octs>` of routecore is `(stype, four_byte_asns, octets)`.  Every
segment that can be obtained through the public API holds a whole number of
ASNs (`Segment::new_set/new_confed_set/new_confed_sequence` write 4 bytes per
ASN; segments cut out of a checked wire path hold exactly `count * asn_size`
bytes), so the model keeps the decoded ASN list together with the width flag.

Core Lean only (the driver links this file).
-/
import Rc.Base

namespace Rc.AsPath
open Rc

/-- mirrors aspath.rs:918 `Segment { stype, four_byte_asns, octets }`;
`ty` is the wire code of `SegmentType` (1 Set, 2 Sequence, 3 ConfedSequence,
4 ConfedSet – aspath.rs:1067-1090). -/
structure Seg where
  ty : Nat
  four : Bool
  asns : List Nat
  deriving Repr, DecidableEq

/-- mirrors aspath.rs:1122 `enum Hop { Asn(Asn), Segment(Segment) }` -/
inductive Hop where
  | asn (n : Nat)
  | seg (s : Seg)
  deriving Repr, DecidableEq

/-- mirrors aspath.rs:67 `HopPath { hops: Vec<OwnedHop> }` -/
abbrev HopPath := List Hop

/-- mirrors aspath.rs:1263 `asn_size` -/
def asnSize (four : Bool) : Nat := if four then 4 else 2

/-- `u8::try_from(n).expect(..)` (aspath.rs:293, 309, 900) -/
def u8Expect (n : Nat) : Outcome UInt8 :=
  if n ≤ 255 then .ok (UInt8.ofNat n) else .panic

/-- four-octet ASNs on the wire (`Asn::to_raw`) -/
def enc32 (as : List Nat) : Bytes := as.flatMap be32
/-- two-octet ASNs on the wire (`u16::to_be_bytes`) -/
def enc16 (as : List Nat) : Bytes := as.flatMap be16

/-- `asn.try_into_u16()?` for each ASN, in order (aspath.rs:345, 363, 945):
`LargeAsnError` at the first ASN above 65535. -/
def try16 : List Nat → Outcome Bytes
  | [] => .ok []
  | a :: r =>
    if a ≤ 65535 then
      match try16 r with
      | .ok t => .ok (be16 a ++ t)
      | .err => .err
      | .panic => .panic
    else .err

/-- the ASNs of one emitted segment in the width being composed:
`wide = true` is `compose_as_path`/`Segment::compose` (always 4 octets),
`wide = false` is `compose_as16_path`/`Segment::compose_16`. -/
def encAsns (wide : Bool) (as : List Nat) : Outcome Bytes :=
  if wide then .ok (enc32 as) else try16 as

/-- mirrors aspath.rs:898 `Segment::asn_count` (a checked `u8`),
aspath.rs:906 `Segment::compose` and aspath.rs:929 `Segment::compose_16`.
For `compose_16` of a two-octet segment the octets are copied verbatim, which
is `enc16` of its ASNs. -/
def Seg.compose (wide : Bool) (s : Seg) : Outcome Bytes :=
  match u8Expect s.asns.length with
  | .ok c =>
    match (if !wide && !s.four then .ok (enc16 s.asns) else encAsns wide s.asns) with
    | .ok b => .ok (UInt8.ofNat s.ty :: c :: b)
    | .err => .err
    | .panic => .panic
  | _ => .panic

/-- one AS_SEQUENCE segment written by the loop body (aspath.rs:289-303 /
305-320): type 2, checked `u8` count, the ASNs. -/
def seqChunk (wide : Bool) (c : List Nat) : Outcome Bytes :=
  match u8Expect c.length with
  | .ok n =>
    match encAsns wide c with
    | .ok b => .ok (2 :: n :: b)
    | .err => .err
    | .panic => .panic
  | _ => .panic

/-- `slice.chunks(255)`; the fuel is the slice length. -/
def chunksF : Nat → List Nat → List (List Nat)
  | 0, _ => []
  | f + 1, l => if l.isEmpty then [] else l.take 255 :: chunksF f (l.drop 255)

def emitChunks (wide : Bool) : List (List Nat) → Outcome Bytes
  | [] => .ok []
  | c :: r =>
    match seqChunk wide c with
    | .ok a =>
      match emitChunks wide r with
      | .ok b => .ok (a ++ b)
      | .err => .err
      | .panic => .panic
    | .err => .err
    | .panic => .panic

/-- the `if !head.is_empty() { .. }` block of the loop (aspath.rs:285-322):
`head.split_at(head.len() % 255)`, the short first segment if non-empty, then
`tail.chunks(255)`. -/
def emitRun (wide : Bool) (run : List Nat) : Outcome Bytes :=
  if run.isEmpty then .ok [] else
    let k := run.length % 255
    let head := run.take k
    let tail := run.drop k
    match (if head.isEmpty then .ok [] else seqChunk wide head) with
    | .ok a =>
      match emitChunks wide (chunksF tail.length tail) with
      | .ok b => .ok (a ++ b)
      | .err => .err
      | .panic => .panic
    | .err => .err
    | .panic => .panic

/-- `hops.iter().position(|h| !matches!(h, Hop::Asn(_)))` + `split_at`
(aspath.rs:281-283): the leading run of `Hop::Asn` and the rest. -/
def spanAsns : List Hop → List Nat × List Hop
  | .asn n :: r => (n :: (spanAsns r).1, (spanAsns r).2)
  | l => ([], l)

/-- mirrors aspath.rs:277 `compose_as_path` (`wide = true`) and aspath.rs:328
`compose_as16_path` (`wide = false`): the `while !hops.is_empty()` loop; every
iteration consumes at least one hop, the fuel is the number of hops. -/
def composeLoop (wide : Bool) : Nat → List Hop → Outcome Bytes
  | 0, _ => .ok []
  | f + 1, hops =>
    if hops.isEmpty then .ok [] else
      match emitRun wide (spanAsns hops).1 with
      | .ok a =>
        match (spanAsns hops).2 with
        | [] => .ok a
        | .asn _ :: _ => .panic            -- `unreachable!()`
        | .seg s :: rest =>
          match s.compose wide with
          | .ok b =>
            match composeLoop wide f rest with
            | .ok c => .ok (a ++ (b ++ c))
            | .err => .err
            | .panic => .panic
          | .err => .err
          | .panic => .panic
      | .err => .err
      | .panic => .panic

/-- mirrors aspath.rs:224 `HopPath::to_as_path` (`wide = true`, infallible on a
`Vec`) and aspath.rs:246 `try_to_asn16_path` (`wide = false`). -/
def compose (wide : Bool) (hops : HopPath) : Outcome Bytes :=
  composeLoop wide hops.length hops

/-! ### wire side -/

def segTypeOk (t : UInt8) : Bool := 1 ≤ t.toNat && t.toNat ≤ 4

/-- mirrors aspath.rs:584 `AsPath::check` (and the two `validate` loops
path_attributes.rs:1103, 1862).  `.err` = `Err(ParseError)`. The fuel is the
number of bytes (every iteration consumes at least two). -/
def checkF (four : Bool) : Nat → Bytes → Outcome Unit
  | 0, bs => if bs.isEmpty then .ok () else .err
  | _ + 1, [] => .ok ()
  | f + 1, t :: bs =>
    if !segTypeOk t then .err else
      match bs with
      | [] => .err
      | n :: bs =>
        match takeN (n.toNat * asnSize four) bs with
        | none => .err
        | some (_, r) => checkF four f r

def check (four : Bool) (bs : Bytes) : Outcome Unit := checkF four bs.length bs

/-- mirrors aspath.rs:1240 `Asns::next`: whole ASNs while bytes remain. -/
def dec32 : Bytes → List Nat
  | a :: b :: c :: d :: r =>
    (a.toNat * 16777216 + b.toNat * 65536 + c.toNat * 256 + d.toNat) :: dec32 r
  | _ => []

def dec16 : Bytes → List Nat
  | a :: b :: r => (a.toNat * 256 + b.toNat) :: dec16 r
  | _ => []

def decAsns (four : Bool) (bs : Bytes) : List Nat := if four then dec32 bs else dec16 bs

/-- mirrors aspath.rs:803 `PathSegments::next_asns` / `next`: every `expect`
is a panic. -/
def segmentsF (four : Bool) : Nat → Bytes → Outcome (List Seg)
  | 0, bs => if bs.isEmpty then .ok [] else .panic
  | _ + 1, [] => .ok []
  | f + 1, t :: bs =>
    if !segTypeOk t then .panic else
      match bs with
      | [] => .panic
      | n :: bs =>
        match takeN (n.toNat * asnSize four) bs with
        | none => .panic
        | some (v, r) =>
          match segmentsF four f r with
          | .ok ss => .ok (⟨t.toNat, four, decAsns four v⟩ :: ss)
          | .err => .err
          | .panic => .panic

/-- mirrors aspath.rs:608 `AsPath::segments` (collected) -/
def segments (four : Bool) (bs : Bytes) : Outcome (List Seg) := segmentsF four bs.length bs

/-- mirrors aspath.rs:768 `PathHops::next`: a non-empty AS_SEQUENCE yields its
ASNs one by one, everything else (including an empty AS_SEQUENCE) is one
`Hop::Segment`. -/
def hopsOfSeg (s : Seg) : List Hop :=
  if s.ty = 2 ∧ s.asns ≠ [] then s.asns.map Hop.asn else [Hop.seg s]

def hopsOfSegs (ss : List Seg) : List Hop := ss.flatMap hopsOfSeg

/-- mirrors aspath.rs:603 `AsPath::hops` / aspath.rs:650 `to_hop_path` -/
def hops (four : Bool) (bs : Bytes) : Outcome HopPath :=
  match segments four bs with
  | .ok ss => .ok (hopsOfSegs ss)
  | .err => .err
  | .panic => .panic

/-- mirrors aspath.rs:525 `AsPath::new` followed by `to_hop_path`. -/
def toHopPath (four : Bool) (bs : Bytes) : Outcome HopPath :=
  match check four bs with
  | .ok _ => hops four bs
  | _ => .err

/-- mirrors aspath.rs:615 `AsPath::prepend(asn, n)`: `to_hop_path`,
`prepend_n` (n times `insert(0, ..)`), `to_as_path`. -/
def prepend (four : Bool) (bs : Bytes) (a n : Nat) : Outcome Bytes :=
  match hops four bs with
  | .ok h => compose true (List.replicate n (Hop.asn a) ++ h)
  | .err => .err
  | .panic => .panic

/-- mirrors aspath.rs:963 `PartialEq for Segment` (the element-wise loop over
both `asns()` iterators is list equality). -/
def segEq (s t : Seg) : Bool :=
  if s.ty != t.ty then false
  else if s.four == t.four && s.asns == t.asns then true
  else s.asns == t.asns

def segsEq : List Seg → List Seg → Bool
  | [], [] => true
  | [], _ :: _ => false
  | _ :: _, [] => false
  | s :: ss, t :: ts => if segEq s t then segsEq ss ts else false

/-- mirrors aspath.rs:673 `PartialEq for AsPath` across widths. -/
def pathEq (f1 : Bool) (b1 : Bytes) (f2 : Bool) (b2 : Bytes) : Outcome Bool :=
  if f1 == f2 && b1 == b2 then .ok true else
    match segments f1 b1, segments f2 b2 with
    | .ok s1, .ok s2 => .ok (segsEq s1 s2)
    | _, _ => .panic

/-- one call on the `Hasher` -/
inductive HW where
  | u8 (n : Nat)
  | u32 (n : Nat)
  | len (n : Nat)        -- `write_length_prefix` of a `Vec` (a `write_usize`)
  deriving Repr, DecidableEq

/-- mirrors aspath.rs:996 `Hash for Segment` -/
def Seg.hashKey (s : Seg) : Outcome (List HW) :=
  match u8Expect s.asns.length with
  | .ok c => .ok (HW.u8 s.ty :: HW.u8 c.toNat :: s.asns.map HW.u32)
  | _ => .panic

def segsHashKey : List Seg → Outcome (List HW)
  | [] => .ok []
  | s :: r =>
    match s.hashKey with
    | .ok a =>
      match segsHashKey r with
      | .ok b => .ok (a ++ b)
      | .err => .err
      | .panic => .panic
    | _ => .panic

/-- mirrors aspath.rs:708 `Hash for AsPath`: the exact sequence of hasher
writes. -/
def hashKey (four : Bool) (bs : Bytes) : Outcome (List HW) :=
  match segments four bs with
  | .ok ss => segsHashKey ss
  | .err => .err
  | .panic => .panic

/-- mirrors aspath.rs:1135 `Hash for Hop`: `write_u8(0)` + the `Asn` (a `u32`
newtype deriving `Hash`: one `write_u32`) | `write_u8(1)` + `Segment::hash`. -/
def Hop.hashKey : Hop → Outcome (List HW)
  | .asn n => .ok [HW.u8 0, HW.u32 n]
  | .seg s =>
    match s.hashKey with
    | .ok k => .ok (HW.u8 1 :: k)
    | _ => .panic

def hopsHashKey : List Hop → Outcome (List HW)
  | [] => .ok []
  | x :: r =>
    match x.hashKey with
    | .ok a =>
      match hopsHashKey r with
      | .ok b => .ok (a ++ b)
      | .err => .err
      | .panic => .panic
    | _ => .panic

/-- the derived `Hash for HopPath` (aspath.rs:65): the `Vec<Hop>`'s length
prefix, then every hop. -/
def hopPathHashKey (h : HopPath) : Outcome (List HW) :=
  match hopsHashKey h with
  | .ok k => .ok (HW.len h.length :: k)
  | .err => .err
  | .panic => .panic

/-- mirrors aspath.rs:106 `hop_count` -/
def hopCount (h : HopPath) : Nat := h.length

/-- the closure folded by `hop_count_path_selection` (aspath.rs:119-131, as
repaired by F26): a `Hop::Asn` and an AS_SET segment hop count 1, an
AS_SEQUENCE held as one segment hop counts `seg.asns().count()` (every ASN it
contains), confederation segments count 0. -/
def selStep (sum : Nat) (hop : Hop) : Nat :=
  match hop with
  | .asn _ => sum + 1
  | .seg s => if s.ty = 1 then sum + 1 else if s.ty = 2 then sum + s.asns.length else sum

/-- mirrors aspath.rs:118 `hop_count_path_selection` (a left fold) -/
def hopCountSel (h : HopPath) : Nat := h.foldl selStep 0

/-- mirrors aspath.rs:1160 `PartialEq for Hop`: `Asn` against `Asn`, `Segment`
against `Segment` (`Segment::eq`, width-blind), anything else differs. -/
def hopEq : Hop → Hop → Bool
  | .asn a, .asn b => a == b
  | .seg s, .seg t => segEq s t
  | _, _ => false

/-- the derived `PartialEq for HopPath` (aspath.rs:65): `Vec<Hop>` equality,
element by element with `Hop::eq`. -/
def hopPathEq : HopPath → HopPath → Bool
  | [], [] => true
  | x :: xs, y :: ys => hopEq x y && hopPathEq xs ys
  | _, _ => false

/-- mirrors aspath.rs:551 `is_single_sequence` -/
def isSingleSequence (four : Bool) (bs : Bytes) : Bool :=
  match bs with
  | t :: n :: _ => t.toNat == 2 && bs.length == 2 + n.toNat * asnSize four
  | _ => false

end Rc.AsPath
