/-
Model of src/bgp/path_selection.rs (`OrdRoute`: `try_new`/`eligible`, `Ord::cmp`
with both `OrdStrat`egies, `PartialEq`) and of the two `HopPath` functions it
reads (src/bgp/aspath.rs `hop_count_path_selection`, `neighbor_path_selection`).

A route is the record of exactly what `eligible` and `cmp` read from
`(TiebreakerInfo, PaMap)`, plus `extra` standing for all content that is never
read (NEXT_HOP, communities ...), so that "same preference, different content"
is representable.  Integers are `Nat` (u32/u128 in the code, no arithmetic is
done on them; the derived orders are the numeric ones).

Core Lean only.
-/
import Rc.Base

namespace Rc.PathSel

/-- mirrors `Hop<Vec<u8>>` (src/bgp/aspath.rs:1118).  Segment types as on the
wire: 1 = AS_SET, 2 = AS_SEQUENCE, 3 = AS_CONFED_SEQUENCE, 4 = AS_CONFED_SET. -/
inductive Hop where
  | asn (a : Nat)
  | seg (ty : Nat) (asns : List Nat)
  deriving DecidableEq, Repr

/-- What a `PaMap` can hold under one type code: nothing, something that is not
the typed attribute (`PathAttribute::Invalid`, which `PaMap::from_update_pdu`
stores for a malformed attribute), or the attribute. -/
inductive Slot (α : Type) where
  | absent
  | bogus
  | val (a : α)
  deriving DecidableEq, Repr

/-- mirrors `PaMap::get::<A>()`. -/
def Slot.get {α : Type} : Slot α → Option α
  | .val a => some a
  | _ => none

structure Route where
  /-- `tiebreakers.source == RouteSource::Ibgp` -/
  ibgp : Bool
  /-- `tiebreakers.degree_of_preference` -/
  dop : Option Nat
  /-- LOCAL_PREF attribute -/
  localPref : Option Nat
  /-- AS_PATH attribute (a `HopPath`) -/
  path : Slot (List Hop)
  /-- ORIGIN attribute: its origin number `u8::from(OriginType)`, the only thing `eligible` / `cmp`
  read of it (step b compares these numbers, path_selection.rs fix F37; before the fix the derived
  order of the enum was compared, which is the numeric order on `OriginType::from(n)` but ranks a
  directly written `OriginType::Unimplemented(n)`, n <= 2, above `Incomplete`) -/
  origin : Slot Nat
  med : Option Nat
  localAsn : Nat
  originatorId : Option Nat
  bgpId : Nat
  /-- CLUSTER_LIST attribute: its `len()` -/
  clusterLen : Option Nat
  /-- `tiebreakers.peer_addr`: `IpAddr` orders V4 before V6, then by address -/
  peerV6 : Bool
  peerAddr : Nat
  /-- content that neither `eligible` nor `cmp` reads -/
  extra : Nat
  deriving DecidableEq, Repr

inductive Strat where
  | skipMed
  | rfc4271
  deriving DecidableEq, Repr

/-! ### HopPath -/

def hopWeight : Hop → Nat
  | .asn _ => 1
  | .seg 1 _ => 1
  | .seg 2 asns => asns.length
  | .seg _ _ => 0

/-- mirrors src/bgp/aspath.rs `HopPath::hop_count_path_selection` (a fold). -/
def hopCount (p : List Hop) : Nat := p.foldl (fun sum h => sum + hopWeight h) 0

/-- mirrors src/bgp/aspath.rs `HopPath::neighbor_path_selection`. -/
def neighbor : List Hop → Option Nat
  | .asn a :: _ => some a
  | .seg 2 asns :: _ => asns.head?
  | _ => none

/-! ### construction -/

inductive Refusal where
  | noOrigin
  | noPath
  | noNeighbour
  deriving DecidableEq, Repr

/-- mirrors `OrdRoute::try_new` = `eligible` (src/bgp/path_selection.rs:35-61),
in the order the checks are made.  `none` = `Ok(self)`. -/
def tryNew (r : Route) : Option Refusal :=
  if r.origin.get.isNone then some .noOrigin
  else if r.path.get.isNone then some .noPath
  else if !r.ibgp && (r.path.get.bind neighbor).isNone then some .noNeighbour
  else none

/-! ### comparison -/

/-- `a_dop` of `cmp` (path_selection.rs:229-239). -/
def effDop (r : Route) : Nat :=
  (r.dop.orElse fun _ => if r.ibgp then r.localPref else none).getD 0

/-- step a (path_selection.rs:289-300): panics when an AS_PATH is lacking. -/
def stepA (a b : Route) : Outcome Ordering :=
  match a.path.get, b.path.get with
  | some p, some q => .ok (compare (hopCount p) (hopCount q))
  | _, _ => .panic

/-- step b (path_selection.rs:305-318): `u8::from(a.0).cmp(&u8::from(b.0))`. -/
def stepB (a b : Route) : Ordering :=
  match a.origin.get, b.origin.get with
  | some x, some y => compare x y
  | _, _ => .eq

/-- neighbour AS of `Rfc4271::step_c` (path_selection.rs:172-179). -/
def nbrOrLocal (r : Route) : Nat := (r.path.get.bind neighbor).getD r.localAsn

/-- `OS::step_c` (path_selection.rs:163-191, 199-201). -/
def stepC : Strat → Route → Route → Ordering
  | .skipMed, _, _ => .eq
  | .rfc4271, a, b =>
    if nbrOrLocal a = nbrOrLocal b then compare (a.med.getD 0) (b.med.getD 0) else .eq

/-- step d: `RouteSource` derives `Ord` with `Ebgp < Ibgp`. -/
def stepD (a b : Route) : Ordering := compare a.ibgp.toNat b.ibgp.toNat

/-- `OS::step_e`: the default, `Equal`, for both strategies. -/
def stepE (_a _b : Route) : Ordering := .eq

/-- step f with the RFC 4456 substitution. -/
def stepF (a b : Route) : Ordering :=
  compare (a.originatorId.getD a.bgpId) (b.originatorId.getD b.bgpId)

/-- RFC 4456 CLUSTER_LIST length. -/
def stepF2 (a b : Route) : Ordering :=
  compare (a.clusterLen.getD 0) (b.clusterLen.getD 0)

/-- step g: derived `Ord` of `IpAddr`. -/
def stepG (a b : Route) : Ordering :=
  (compare a.peerV6.toNat b.peerV6.toNat).then (compare a.peerAddr b.peerAddr)

/-- the `then_with` chain after step a, as coded (left-nested). -/
def chainFrom (s : Strat) (a b : Route) (o : Ordering) : Ordering :=
  ((((((((o.then (stepB a b)).then (stepC s a b)).then (stepD a b)).then (stepE a b)).then
    (stepF a b)).then (stepF2 a b)).then (stepG a b)).then .eq)

/-- mirrors `impl Ord for OrdRoute` (path_selection.rs:219-388).  `then_with`
runs its closure only when everything before it is `Equal`, so the panic of
step a is reached only on a degree-of-preference tie. -/
def cmp (s : Strat) (a b : Route) : Outcome Ordering :=
  match compare (effDop b) (effDop a) with
  | .eq =>
    match stepA a b with
    | .ok oa => .ok (chainFrom s a b oa)
    | .err => .err
    | .panic => .panic
  | o => .ok (chainFrom s a b o)

/-- mirrors `PartialEq for OrdRoute` (path_selection.rs:392-396). -/
def eq (s : Strat) (a b : Route) : Outcome Bool :=
  match cmp s a b with
  | .ok o => .ok (o == .eq)
  | .err => .err
  | .panic => .panic

/-- path length of a constructed route (0 is never used: `tryNew` guarantees
the path). -/
def pathLen (r : Route) : Nat := (r.path.get.map hopCount).getD 0

/-- The comparison as a pure function; equals `cmp` on constructed routes
(`cmp_constructed` in Thm/C10). -/
def cmpP (s : Strat) (a b : Route) : Ordering :=
  chainFrom s a b ((compare (effDop b) (effDop a)).then (compare (pathLen a) (pathLen b)))

/-! ### the reference: RFC 4271 section 9.1.2.2 as an elimination procedure

Written from the text of the RFC (and RFC 4456 section 9, RFC 5065 section 5.3)
independently of the shape of `cmp`: a candidate set, each step removes
candidates from consideration; the route that is left alone is preferred. -/

/-- a candidate: `true` tags the left route, `false` the right one -/
abbrev Cand := Bool × Route

def rfcOrigin (r : Route) : Nat := (r.origin.get).getD 0

/-- 9.1.1: a locally configured degree of preference; otherwise LOCAL_PREF for
routes learned from an internal peer; otherwise no information (0). -/
def rfcDop (r : Route) : Nat :=
  match r.dop, r.ibgp, r.localPref with
  | some d, _, _ => d
  | none, true, some l => l
  | _, _, _ => 0

/-- (a) with RFC 5065: each AS of an AS_SEQUENCE counts 1, an AS_SET counts 1
whatever its size, confederation segments count 0. -/
def rfcPathLen (r : Route) : Nat :=
  match r.path.get with
  | none => 0
  | some p => (p.map fun h => match h with
      | .asn _ => 1
      | .seg ty asns => if ty = 1 then 1 else if ty = 2 then asns.length else 0).sum

/-- (c) neighborAS: the leftmost AS of an AS_PATH that starts with an
AS_SEQUENCE; the local AS for a path that is empty or starts otherwise. -/
def rfcNeighbourAs (r : Route) : Nat :=
  match r.path.get with
  | some (.asn a :: _) => a
  | some (.seg ty (a :: _) :: _) => if ty = 2 then a else r.localAsn
  | _ => r.localAsn

def rfcMed (r : Route) : Nat := r.med.getD 0
/-- (f) + RFC 4456: ORIGINATOR_ID is treated as the BGP identifier. -/
def rfcId (r : Route) : Nat := match r.originatorId with | some o => o | none => r.bgpId
def rfcClusterLen (r : Route) : Nat := r.clusterLen.getD 0

/-- keep the candidates whose key is the least among those still considered -/
def keepMin (key : Route → Nat) (cs : List Cand) : List Cand :=
  cs.filter fun c => cs.all fun d => key c.2 ≤ key d.2

/-- keep the candidates whose key is the greatest -/
def keepMax (key : Route → Nat) (cs : List Cand) : List Cand :=
  cs.filter fun c => cs.all fun d => key d.2 ≤ key c.2

/-- (c): "for m = all routes still under consideration, for n = all routes
still under consideration: if neighborAS(m) == neighborAS(n) and MED(n) <
MED(m) remove route m from consideration" -/
def medStep (cs : List Cand) : List Cand :=
  cs.filter fun m => !(cs.any fun n => rfcNeighbourAs n.2 = rfcNeighbourAs m.2 ∧ rfcMed n.2 < rfcMed m.2)

/-- (d): "if at least one of the candidate routes was received via EBGP, remove
from consideration all routes that were received via IBGP" -/
def ebgpStep (cs : List Cand) : List Cand :=
  if cs.any (fun c => !c.2.ibgp) then cs.filter (fun c => !c.2.ibgp) else cs

/-- (g): lowest peer address (IPv4 peers before IPv6 peers, then numerically) -/
def peerStep (cs : List Cand) : List Cand :=
  keepMin (fun r => r.peerAddr) (keepMin (fun r => r.peerV6.toNat) cs)

def rfcSteps (med : Bool) : List (List Cand → List Cand) :=
  [ keepMax rfcDop,                 -- phase 2: highest degree of preference
    keepMin rfcPathLen,             -- a
    keepMin rfcOrigin,              -- b
    if med then medStep else id,    -- c
    ebgpStep,                       -- d   (e: interior cost is not available: no elimination)
    keepMin rfcId,                  -- f
    keepMin rfcClusterLen,          -- RFC 4456
    peerStep ]                      -- g

def verdict (cs : List Cand) : Ordering :=
  match cs.any (·.1), cs.any (!·.1) with
  | true, false => .lt
  | false, true => .gt
  | _, _ => .eq

/-- which of two routes the RFC prefers: `.lt` = the left one -/
def rfcPrefer (s : Strat) (a b : Route) : Ordering :=
  verdict ((rfcSteps (s == .rfc4271)).foldl (fun cs st => st cs) [(true, a), (false, b)])

end Rc.PathSel
