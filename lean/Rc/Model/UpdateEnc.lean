/-
Reference encoder of BGP UPDATE messages (RFC 4271 4.3, RFC 4760 3/4, RFC 7911
3) – the specification side of property C01.  It is written from the RFCs,
not from routecore's composers; the only routecore-derived parts are the NLRI
composers of Rc/Model/Nlri.lean, whose round trips are C05's theorems.
Core Lean only.
-/
import Rc.Model.Update

namespace Rc.Upd
open Rc Rc.Nlri Rc.Attr

/-- one path attribute as it goes on the wire: flags octet (its EXTENDED_LEN
bit decides the width of the length field), type code, value -/
structure RawAttr where
  fl : UInt8
  tc : UInt8
  v : Bytes
  deriving DecidableEq, Repr

/-- RFC 4271 4.3: flags, type, one- or two-octet length, value -/
def encRaw (a : RawAttr) : Bytes :=
  if extBit a.fl then a.fl :: a.tc :: (be16 a.v.length ++ a.v)
  else a.fl :: a.tc :: UInt8.ofNat a.v.length :: a.v

/-- the length fits the length field -/
def RawAttr.wf (a : RawAttr) : Bool :=
  if extBit a.fl then decide (a.v.length < 65536) else decide (a.v.length < 256)

def encRaws (l : List RawAttr) : Bytes := (l.map encRaw).flatten

/-- NLRI of one family with their path ids; RFC 7911: the four-octet path
identifier precedes each NLRI exactly when ADD-PATH is on for the family -/
def encNlris (f : Fam) (ap : Bool) (l : List (Nat × f.Val)) : Outcome Bytes :=
  if ap then encAll (codecAp f) l else encAll (codec f) (l.map (·.2))

/-- the items a faithful decoder reports for such a list -/
def reportNlris (f : Fam) (ap : Bool) (l : List (Nat × f.Val)) : List (Outcome AnyNlri) :=
  if ap then l.map (fun x => .ok (.ap f x.1 x.2)) else l.map (fun x => .ok (.plain f x.2))

/-- the list is encodable: every NLRI well-formed, every path id a `u32` -/
def NlrisWf (f : Fam) (ap : Bool) (l : List (Nat × f.Val)) : Prop :=
  if ap then ∀ x ∈ l, (codecAp f).wf x = true else ∀ x ∈ l, (codec f).wf x.2 = true

/-- RFC 4760 3: AFI, SAFI, next-hop length, next hop, one reserved octet, NLRI -/
def reachValue (f : Fam) (nh nlri : Bytes) : Bytes :=
  be16 (famCode f).1 ++ (UInt8.ofNat (famCode f).2 :: UInt8.ofNat nh.length :: (nh ++ (0 :: nlri)))

/-- RFC 4760 4: AFI, SAFI, withdrawn NLRI -/
def unreachValue (f : Fam) (nlri : Bytes) : Bytes :=
  be16 (famCode f).1 ++ (UInt8.ofNat (famCode f).2 :: nlri)

/-- RFC 4760 3 for ANY (AFI, SAFI) code points and ANY value of the reserved
octet ("MUST be set to 0, and SHOULD be ignored upon receipt"): AFI, SAFI,
next-hop length, next hop, reserved octet, the rest as it is.
`reachValue f nh b = mpReachValue (famCode f) nh 0 b` by `rfl`. -/
def mpReachValue (k : Nat × Nat) (nh : Bytes) (rsv : UInt8) (body : Bytes) : Bytes :=
  be16 k.1 ++ (UInt8.ofNat k.2 :: UInt8.ofNat nh.length :: (nh ++ (rsv :: body)))

/-- RFC 4760 4 for any (AFI, SAFI): AFI, SAFI, the withdrawn-routes octets as they are -/
def mpUnreachValue (k : Nat × Nat) (body : Bytes) : Bytes :=
  be16 k.1 ++ (UInt8.ofNat k.2 :: body)

def marker : Bytes := List.replicate 16 0xff

/-- RFC 4271 4.1 / 4.3: marker, length, type 2, withdrawn routes length and
routes, total path attribute length and attributes, NLRI -/
def frame (wd attrs ann : Bytes) : Bytes :=
  marker ++ (be16 (19 + 2 + wd.length + 2 + attrs.length + ann.length) ++
    (2 :: (be16 wd.length ++ (wd ++ (be16 attrs.length ++ (attrs ++ ann))))))


/-- abstract UPDATE content on the level of raw attributes: conventional
withdrawals and announcements with their path ids (on the wire only in an
ADD-PATH session), and the attribute sequence – any attributes in any order,
each with its own flags octet and length encoding.  (The typed content of
Rc/Model/UpdateObs.lean is lowered to this.) -/
structure Content where
  wd : List (Nat × Pfx)
  attrs : List RawAttr
  ann : List (Nat × Pfx)

/-- the reference encoder: RFC 4271 framing of the three encoded sections -/
def encUpdate (cfg : Cfg) (c : Content) : Outcome Bytes :=
  match encNlris .v4u (cfg.rx (1, 1)) c.wd, encNlris .v4u (cfg.rx (1, 1)) c.ann with
  | .ok w, .ok a => .ok (frame w (encRaws c.attrs) a)
  | _, _ => .err

end Rc.Upd
