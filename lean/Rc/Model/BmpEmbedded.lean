/-
C15, the BGP messages embedded in BMP seen through the models that own them:

* `rmUpdate`      mirrors src/bmp/message.rs:603 `RouteMonitoring::bgp_update(config)`:
  a parser over the whole BMP message, `advance(6+42).expect("parsed before")`,
  `UpdateMessage::parse(&mut parser, config)` – the C01/C02 model `Rc.Upd.parseUpdate`.
  `UpdateMessage::parse` computes every offset relative to `parser.pos()` after the header
  (`start_pos`), so it is a function of the bytes from the parser's position on; that is how
  `parseUpdate` is written (it takes the remaining bytes).
* `updFromOctets` mirrors update.rs:872 `UpdateMessage::from_octets(octets, config)`: the same
  `parse` on a parser over `octets`; the value keeps ALL of `octets` and the three section
  ranges shifted by 19, where `parse` keeps the `length − 19` octets after the header.
* `openCfg` / `peerUpConfig` mirror what `PeerUpNotification::{session_config,
  pph_session_config, supported_protocols}` (message.rs:894-985) and the harness read off the two
  embedded OPENs (`bgp_open_sent_rcvd`): `my_asn`, `four_octet_capable`,
  `addpath_families_vec` (through `addpath_intersection`), the MultiProtocol capability values
  (`value()[0]`, `[1]`, `[3]`), `capabilities()`, `parameters()`, `get_software_version`,
  `holdtime`, `identifier`, `version` – the C03 accessor models of `Rc/Model/Open.lean`, applied
  to the bytes `OpenMessage::parse` returned.

Core Lean only (the driver links this file).
-/
import Rc.Model.Bmp
import Rc.Model.Open
import Rc.Model.Update

namespace Rc.Bmp
open Rc

/-- mirrors message.rs:603 `RouteMonitoring::bgp_update` -/
def rmUpdate (cfg : Upd.Cfg) (bs : Bytes) : Outcome Upd.Msg :=
  match rmUpdateBytes bs with                      -- `parser.advance(6+42).expect("parsed before")`
  | .ok u => Upd.parseUpdate cfg u                 -- `BgpUpdate::parse(&mut parser, config)`
  | .err => .err
  | .panic => .panic

/-- what `UpdateMessage::from_octets` returns: the octets it was given (kept whole) and the
decoded sections; `parse` on a parser over the same octets returns `msg` with
`as_ref() = msg.body`, i.e. `octets[19 .. length]` -/
structure UpdFromOctets where
  octets : Bytes
  msg : Upd.Msg

/-- mirrors update.rs:872 `UpdateMessage::from_octets` -/
def updFromOctets (cfg : Upd.Cfg) (bs : Bytes) : Outcome UpdFromOctets :=
  match Upd.parseUpdate cfg bs with                -- `UpdateMessage::<_>::parse(&mut Parser::from_ref(&octets), config)?`
  | .ok m => .ok ⟨bs, m⟩                           -- ranges `+19` into the octets kept whole
  | .err => .err
  | .panic => .panic

/-- what is read off one embedded OPEN -/
structure OpenCfg where
  asn : Nat
  four : Bool
  /-- `addpath_families_vec()`: `none` = `Err(_)` (then `addpath_intersection` is empty) -/
  addpath : Option (List (Nat × Nat × Nat))
  mp : List (Nat × Nat)
  caps : Nat
  params : Nat
  sw : Option Bytes
  hold : Nat
  id : Bytes
  ver : UInt8
  deriving DecidableEq, Repr

/-- the accessors of one OPEN, in a fixed order; none of them but `addpath_families_vec`
returns a `Result` (the `.err` branches only propagate) -/
def openCfg (m : Bytes) : Outcome OpenCfg :=
  match Open.myAsn m with
  | .err => .err | .panic => .panic
  | .ok asn =>
  match Open.fourOctetCapable m with
  | .err => .err | .panic => .panic
  | .ok four =>
  match (match Open.addpathFamiliesVec m with
         | .ok l => Outcome.ok (some l) | .err => .ok none | .panic => .panic) with
  | .err => .err | .panic => .panic
  | .ok ap =>
  match Open.multiprotocolIds m with
  | .err => .err | .panic => .panic
  | .ok mp =>
  match Open.capabilities m >>= Open.collect with
  | .err => .err | .panic => .panic
  | .ok cs =>
  match Open.parameters m >>= Open.collect with
  | .err => .err | .panic => .panic
  | .ok ps =>
  match Open.softwareVersion m with
  | .err => .err | .panic => .panic
  | .ok sw =>
  match Open.holdtime m with
  | .err => .err | .panic => .panic
  | .ok hold =>
  match Open.identifier m with
  | .err => .err | .panic => .panic
  | .ok id =>
  match Open.version m with
  | .err => .err | .panic => .panic
  | .ok ver => .ok ⟨asn, four, ap, mp, cs.length, ps.length, sw, hold, id, ver⟩

/-- `bgp_open_sent_rcvd()` followed by the configuration accessors on both OPENs -/
def peerUpConfig (d : Deps) (bs : Bytes) : Outcome (OpenCfg × OpenCfg) :=
  match openSent d bs, openRcvd d bs with          -- two `BgpOpen::parse(&mut parser).unwrap()`
  | .ok s, .ok r =>
    match openCfg s, openCfg r with
    | .ok a, .ok b => .ok (a, b)
    | .panic, _ => .panic
    | _, .panic => .panic
    | _, _ => .err
  | _, _ => .panic

end Rc.Bmp
