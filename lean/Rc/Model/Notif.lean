/-
Executable model of NOTIFICATION / KEEPALIVE / ROUTE-REFRESH decoding, the
NOTIFICATION and KEEPALIVE builders and the `Message::from_octets` dispatch
(C03).  Follows the code after the C03 `fix:` commits
(`NotificationMessage::from_octets` checks header + 2 bytes; the builder uses
a checked addition).
-/
import Rc.Base
import Rc.Model.Open

namespace Rc.Notif
open Rc Rc.Open

/-! ### NOTIFICATION (notification.rs) -/

/-- mirrors notification.rs `NotificationMessage::check` (added by the fix):
`Header::check`, then `advance(2)` -/
def notifCheck (bs : Bytes) : Outcome Unit :=
  match headerCheck bs with
  | none => .err
  | some r => if 2 ≤ r.length then .ok () else .err

def fromOctets (bs : Bytes) : Outcome Bytes :=
  match notifCheck bs with
  | .ok () => .ok bs
  | .err => .err
  | .panic => .panic

/-! `const COFF: usize = 19` of notification.rs and `COFF+1`; `data()` is written with the literal 21 in the source
(`> 21`, `[21..]`).  Scoped notations for numerals, tied by `Rc.Thm.C03.model_constants_agree`. -/
scoped notation "NCOFF" => (19 : Nat)
scoped notation "NCOFF_1" => (20 : Nat)

/-- `code()`: `octets[COFF].into()`; ErrorCode <-> u8 is the identity (C18) -/
def code (m : Bytes) : Outcome UInt8 := idx m NCOFF

/-- `Details::raw` after `details()`: the subcode is read first (`octets[COFF+1]`),
then the code; `Reserved` (0) and `HoldTimerExpired` (4) carry no subcode
(finding K1 of C18), every other variant re-encodes (code, subcode) unchanged. -/
def rawOf (c s : UInt8) : UInt8 × UInt8 :=
  if c.toNat = 0 ∨ c.toNat = 4 then (c, 0) else (c, s)

def detailsRaw (m : Bytes) : Outcome (UInt8 × UInt8) := do
  let s ← idx m NCOFF_1
  let c ← idx m NCOFF
  pure (rawOf c s)

/-- `data()`: `Some(&self.as_ref()[21..])` if longer than 21 bytes -/
def data (m : Bytes) : Outcome (Option Bytes) :=
  if m.length > 21 then .ok (some (m.drop 21)) else .ok none

def length (m : Bytes) : Outcome Nat := Open.length m

/-- mirrors notification.rs `NotificationBuilder::from_target` (Vec target) for
`Details` given as (code, subcode) -/
def build (c s : UInt8) (d : Option Bytes) : Outcome Bytes :=
  if (d.getD []).length > 65535 then .err
  else if (d.getD []).length + 21 > 65535 then .err
  else .ok (header (21 + (d.getD []).length) 3 ++ [(rawOf c s).1, (rawOf c s).2] ++ d.getD [])

/-! ### KEEPALIVE (keepalive.rs) -/

/-- mirrors keepalive.rs:17 `KeepaliveMessage::check` -/
def kaFromOctets (bs : Bytes) : Outcome Bytes :=
  match headerCheck bs with
  | none => .err
  | some r => if r.length > 0 then .err else .ok bs

/-- `KeepaliveBuilder::new_vec().finish()` -/
def kaBuild : Bytes := header 19 4

/-! ### ROUTE-REFRESH (routerefresh.rs) -/

structure RouteRefresh where
  afi : Nat
  safi : Nat
  subtype : Nat
  deriving DecidableEq, Repr

/-- mirrors routerefresh.rs:15 `RouteRefreshMessage::from_octets` -/
def rrFromOctets (bs : Bytes) : Outcome RouteRefresh :=
  match headerParse bs with
  | none => .err
  | some (len, _, r) =>
    if len ≠ 23 ∨ r.length ≠ 4 then .err else
    match r with
    | [a, b, st, s] => .ok ⟨a.toNat * 256 + b.toNat, s.toNat, st.toNat⟩
    | _ => .err

def rrEncode (x : RouteRefresh) : Bytes :=
  header 23 5 ++ be16 x.afi ++ [UInt8.ofNat x.subtype, UInt8.ofNat x.safi]

/-! ### `Message::from_octets(octets, None)` (mod.rs:95) -/

inductive Kind where
  | open | notification | keepalive | routeRefresh
  deriving DecidableEq, Repr

def msgFromOctets (bs : Bytes) : Outcome (Kind × Bytes) :=
  match headerParse bs with
  | none => .err
  | some (_, t, _) =>
    match t.toNat with
    | 1 => match Open.fromOctets bs with
           | .ok m => .ok (.open, m) | .err => .err | .panic => .panic
    | 2 => .err            -- no SessionConfig: ParseError::StateRequired
    | 3 => match fromOctets bs with
           | .ok m => .ok (.notification, m) | .err => .err | .panic => .panic
    | 4 => match kaFromOctets bs with
           | .ok m => .ok (.keepalive, m) | .err => .err | .panic => .panic
    | 5 => match rrFromOctets bs with     -- `RouteRefreshMessage::from_octets(octets)?` (since the repair of K13)
           | .ok _ => .ok (.routeRefresh, bs) | .err => .err | .panic => .panic
    | _ => .err            -- unknown types: Unsupported

/-- `Message::msg_type()`: `range(..19)` then byte 18 -/
def msgType (m : Bytes) : Outcome UInt8 := do
  let h ← slice m 0 19
  idx h 18

end Rc.Notif
