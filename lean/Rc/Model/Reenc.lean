/-
C07 model: re-encoding a received UPDATE.

* the owned `PathAttribute::{Unimplemented, Invalid}` arms of `compose` /
  `compose_len` (src/bgp/path_attributes.rs:413-450, 846-853, 2272-2300) as
  coded after the two repairs of C07 (F7: `UnimplementedPathAttribute::compose`
  sizes the length field by the value; F8: the `Invalid` arm sets EXTENDED_LEN
  when it writes a two-octet length);
* the three re-encoding routes: every attribute of `pdu.path_attributes()`
  converted with `to_owned()` and composed; `PaMap::from_update_pdu` (:186) and
  the map composed in key order; `UpdateBuilder::from_update_message`
  (update_builder.rs:80) + `into_message` (:286) + `finish` (:625);
* `UpdateMessage::parse` (update.rs:894) as far as the builder's re-parse of its
  own output needs it;
* `add_announcements_from_pdu` / `add_withdrawals_from_pdu`
  (update_builder.rs:237-286, 827-853, 1204-1226) after the repair of K7: the
  NLRI up to the first one that does not parse; the builder state with its two
  MP builders, `is_valid`, `calculate_pdu_length`, `finish` and `into_message`
  for a builder that holds NLRI (`NlBuilder` ... `readdPdu`), on top of the
  UPDATE decoder model of C01 / C02 (`Rc.Upd.parseUpdate` and the accessors
  `announcements()` / `withdrawals()` / `mp_attr`).

The typed attributes, `WireformatPathAttribute::parse` and `to_owned` are those
of Rc/Model/Attr.lean (C04); the NLRI codecs those of Rc/Model/Nlri.lean (C05).
The definitions `ownedList` … `viaBuilder` are those of a four-octet session
(`SessionConfig::modern()`); `ownedListW` … `viaBuilderW` take the AS number
width of the session (`false` = `SessionConfig::legacy()`) and agree with them
at `true` by `rfl` (`ownedListW_true` …).  `PathAttribute::compose` has no
session argument: whatever the width of the session, AS_PATH and AGGREGATOR are
written with four-octet AS numbers (`Rc.Attr.composeValue`).
Core Lean only (the driver links this file).
-/
import Rc.Model.Attr
import Rc.Model.Nlri
import Rc.Model.Update

namespace Rc.Reenc
open Rc Rc.Attr

/-! ### the `Unimplemented` and `Invalid` arms -/

/-- the flags octet both arms write: the flags carried, `| Flags::PARTIAL`,
and `EXTENDED_LEN` set exactly when the value is longer than 255 octets
(path_attributes.rs:419-424 and :2284-2288 after the repairs) -/
def rawFlags (f n : Nat) : Nat :=
  if n > 255 then f ||| 0x20 ||| 0x10 else (f ||| 0x20) &&& 0xEF

/-- flags, type code, length in two resp. one octets
(`u16::try_from(len).unwrap_or(u16::MAX)` / `u8::try_from(len).unwrap_or(u8::MAX)`) -/
def rawHeader (f c n : Nat) : Bytes :=
  if n > 255 then [UInt8.ofNat (rawFlags f n), UInt8.ofNat c] ++ be16 (min n 65535)
  else [UInt8.ofNat (rawFlags f n), UInt8.ofNat c, UInt8.ofNat (min n 255)]

/-- mirrors path_attributes.rs:402 `PathAttribute::compose` -/
def encOwned : Decoded → Outcome Bytes
  | .typed a => encAttr a
  | .unimplemented f c v => .ok (rawHeader f c v.length ++ v)
  | .invalid f c v => .ok (rawHeader f c v.length ++ v)

/-- mirrors path_attributes.rs:429 `PathAttribute::compose_len`
(`UnimplementedPathAttribute::compose_len` :846: `4 + n` above 255, else `3 + n`;
the `Invalid` arm: `2 + 2 + n` / `2 + 1 + n`) -/
def lenOwned : Decoded → Outcome Nat
  | .typed a => composeLen a
  | .unimplemented _ _ v => .ok (headerLen v.length + v.length)
  | .invalid _ _ v => .ok (headerLen v.length + v.length)

/-- `PathAttribute::type_code` (:444) -/
def codeOf : Decoded → Nat
  | .typed a => a.code
  | .unimplemented _ c _ => c
  | .invalid _ c _ => c

/-- `for pa in .. { pa.compose(&mut target)? }` -/
def encList : List Decoded → Outcome Bytes
  | [] => .ok []
  | d :: r =>
    match encOwned d with
    | .ok x =>
      match encList r with
      | .ok y => .ok (x ++ y)
      | .err => .err
      | .panic => .panic
    | .err => .err
    | .panic => .panic

/-- `fold(0, |sum, a| sum + a.compose_len())` (`PaMap::bytes_len` :339) -/
def lenList : List Decoded → Outcome Nat
  | [] => .ok 0
  | d :: r =>
    match lenOwned d with
    | .ok x =>
      match lenList r with
      | .ok y => .ok (x + y)
      | .err => .err
      | .panic => .panic
    | .err => .err
    | .panic => .panic

/-! ### route 1: `path_attributes()` → `to_owned()` → `compose` -/

/-- every `to_owned()` must succeed -/
def allOk : List (Outcome Decoded) → Outcome (List Decoded)
  | [] => .ok []
  | .ok d :: r =>
    match allOk r with
    | .ok l => .ok (d :: l)
    | .err => .err
    | .panic => .panic
  | .err :: _ => .err
  | .panic :: _ => .panic

/-- `pdu.path_attributes()?` iterated with `to_owned()?` on every item -/
def ownedList (sec : Bytes) : Outcome (List Decoded) :=
  match decAll true sec.length sec with
  | .ok ds => allOk ds
  | .err => .err
  | .panic => .panic

def direct (sec : Bytes) : Outcome Bytes :=
  match ownedList sec with
  | .ok ds => encList ds
  | .err => .err
  | .panic => .panic

/-! ### route 2: `PaMap::from_update_pdu` -/

/-- `attributes_mut().entry(code).or_insert(owned)` on a `BTreeMap` kept as a
list in ascending key order: an existing entry stays -/
def insFirst (d : Decoded) : List Decoded → List Decoded
  | [] => [d]
  | b :: m =>
    if codeOf d < codeOf b then d :: b :: m
    else if codeOf d = codeOf b then b :: m
    else b :: insFirst d m

/-- mirrors path_attributes.rs:186 `PaMap::from_update_pdu`: MP_REACH_NLRI (14)
and MP_UNREACH_NLRI (15) are skipped (they are always `Unimplemented`, whose
`to_owned` cannot fail); a failing `to_owned()` of any other attribute is
`Err(ComposeError::InvalidAttribute)`; of repeated attributes the first stays -/
def fromPdu : List (Outcome Decoded) → List Decoded → Outcome (List Decoded)
  | [], m => .ok m
  | .ok d :: r, m =>
    if codeOf d = 14 ∨ codeOf d = 15 then fromPdu r m else fromPdu r (insFirst d m)
  | .err :: _, _ => .err
  | .panic :: _, _ => .panic

def mapOf (sec : Bytes) : Outcome (List Decoded) :=
  match decAll true sec.length sec with
  | .ok ds => fromPdu ds []
  | .err => .err
  | .panic => .panic

/-- the map's attributes composed in key order -/
def viaMap (sec : Bytes) : Outcome Bytes :=
  match mapOf sec with
  | .ok m => encList m
  | .err => .err
  | .panic => .panic

/-! ### `UpdateMessage::parse` -/

/-- `NlriIter::ipv4_unicast(parser).validate()` (afisafi.rs:1639): every NLRI of
a conventional section parses and nothing is left over -/
def convOk (bs : Bytes) : Outcome Unit :=
  match Rc.Nlri.decAll (Rc.Nlri.pfxCodec false) bs with
  | .ok (_, true) => .ok ()
  | .ok (_, false) => .err
  | .err => .err
  | .panic => .panic

structure Pdu where
  wd : Bytes
  attrs : Bytes
  nlri : Bytes
  deriving Repr

/-- mirrors update.rs:866 `from_octets` / :894 `parse` for `SessionConfig::modern()` -/
def parsePdu (pdu : Bytes) : Outcome Pdu :=
  match takeN 19 pdu with
  | none => .err
  | some (hdr, body) =>
    if hdr.take 16 ≠ List.replicate 16 (255 : UInt8) then .err else
    match rd16 (hdr.drop 16) with
    | none => .err
    | some (hlen, ty) =>
      if hlen < 19 then .err else
      if ty ≠ [2] then .err else
      match rd16 body with
      | none => .err
      | some (wlen, r1) =>
        match takeN wlen r1 with
        | none => .err
        | some (wd, r2) =>
          match (if wlen > 0 then convOk wd else .ok ()) with
          | .err => .err
          | .panic => .panic
          | .ok () =>
            match rd16 r2 with
            | none => .err
            | some (alen, r3) =>
              match takeN alen r3 with
              | none => .err
              | some (ab, r4) =>
                match (if alen > 0 then attrSection ab else .ok ()) with
                | .err => .err
                | .panic => .panic
                | .ok () =>
                  let annStart := 2 + wlen + 2 + alen
                  if hlen - 19 < annStart then .err else
                  match takeN (hlen - 19 - annStart) r4 with
                  | none => .err
                  | some (ann, _) =>
                    match convOk ann with
                    | .err => .err
                    | .panic => .panic
                    | .ok () => .ok ⟨wd, ab, ann⟩

/-- the PDU the harness builds around the sections of a request -/
def mkPdu (wd attrs nlri : Bytes) : Bytes :=
  List.replicate 16 (0xff : UInt8) ++ be16 (19 + 2 + wd.length + 2 + attrs.length + nlri.length) ++ [2] ++
    be16 wd.length ++ wd ++ be16 attrs.length ++ attrs ++ nlri

/-! ### route 3: `UpdateBuilder::from_update_message` + `into_message` -/

/-- `UpdateBuilder::MAX_PDU` (update_builder.rs:28) -/
def MAX_PDU : Nat := 4096

/-- mirrors `into_message` (:286) and `finish` (:625) for a builder that holds
attributes only: `calculate_pdu_length` from `bytes_len()`, `PduTooLarge` above
`MAX_PDU`, the header, an empty withdrawn-routes section, the attribute length
(`bytes_len()` again), the attributes in key order, and finally
`UpdateMessage::from_octets` on the result. -/
def finishAttrs (m : List Decoded) : Outcome Bytes :=
  match lenList m with
  | .ok n =>
    let pduLen := 16 + 2 + 1 + 2 + (2 + n)
    if pduLen > MAX_PDU then .err
    else
      match encList m with
      | .ok bs =>
        let pdu := List.replicate 16 (0xff : UInt8) ++ be16 pduLen ++ [2] ++ be16 0 ++ be16 n ++ bs
        match parsePdu pdu with
        | .ok _ => .ok pdu
        | .err => .err
        | .panic => .panic
      | .err => .err
      | .panic => .panic
  | .err => .err
  | .panic => .panic

def viaBuilder (sec : Bytes) : Outcome Bytes :=
  match mapOf sec with
  | .ok m => finishAttrs m
  | .err => .err
  | .panic => .panic

/-! ### the three routes in a session of either AS number width

`pdu.path_attributes()` hands the session's `PduParseInfo` to `validate` and
`parse` (path_attributes.rs:1111, 1293: AS_PATH and AGGREGATOR are read two
octets wide in a two-octet session; AS4_PATH is four octets wide in both, after
the repair F30).  Composing does not depend on the session. -/

def ownedListW (four : Bool) (sec : Bytes) : Outcome (List Decoded) :=
  match decAll four sec.length sec with
  | .ok ds => allOk ds
  | .err => .err
  | .panic => .panic

def directW (four : Bool) (sec : Bytes) : Outcome Bytes :=
  match ownedListW four sec with
  | .ok ds => encList ds
  | .err => .err
  | .panic => .panic

def mapOfW (four : Bool) (sec : Bytes) : Outcome (List Decoded) :=
  match decAll four sec.length sec with
  | .ok ds => fromPdu ds []
  | .err => .err
  | .panic => .panic

def viaMapW (four : Bool) (sec : Bytes) : Outcome Bytes :=
  match mapOfW four sec with
  | .ok m => encList m
  | .err => .err
  | .panic => .panic

/-- `into_message(&session_config)` re-parses what `finish` wrote with
`UpdateMessage::from_octets`, which validates the attributes with
`PduParseInfo::default()` whatever the session (update.rs:945): `finishAttrs`
serves both widths -/
def viaBuilderW (four : Bool) (sec : Bytes) : Outcome Bytes :=
  match mapOfW four sec with
  | .ok m => finishAttrs m
  | .err => .err
  | .panic => .panic

theorem ownedListW_true (sec : Bytes) : ownedListW true sec = ownedList sec := rfl
theorem directW_true (sec : Bytes) : directW true sec = direct sec := rfl
theorem mapOfW_true (sec : Bytes) : mapOfW true sec = mapOf sec := rfl
theorem viaMapW_true (sec : Bytes) : viaMapW true sec = viaMap sec := rfl
theorem viaBuilderW_true (sec : Bytes) : viaBuilderW true sec = viaBuilder sec := rfl

/-- does an attribute's encoding depend on the AS number width of the session?
An AS_PATH that is well formed two octets wide and holds an AS number, or a
six-octet AGGREGATOR (the request lines `re2w` of the C07 correspondence hold
one, the lines `re2` none) -/
def hasAsn2 : Nat → Bytes → Bool
  | 0, _ => false
  | f + 1, bs =>
    match bs with
    | _ :: n :: r => n.toNat > 0 || hasAsn2 f (r.drop (2 * n.toNat))
    | _ => false

def widthDependent (tc : Nat) (v : Bytes) : Bool :=
  (tc == 2 && pathValid false v && hasAsn2 v.length v) || (tc == 7 && v.length == 6)

/-- over the header walk that stops at the first framing error -/
def hasWidthDependent : Nat → Bytes → Bool
  | 0, _ => false
  | f + 1, bs =>
    match splitAttr bs with
    | none => false
    | some (_, tc, v, r) => widthDependent tc.toNat v || hasWidthDependent f r

/-! ### NLRI re-added -/

/-- mirrors `MpReachNlriBuilder::add_announcements_from_pdu` /
`MpUnreachNlriBuilder::add_withdrawals_from_pdu` after the repair of K7: the
typed NLRI iterator is consumed up to the first item that does not parse. -/
def readd {α} (c : Rc.Nlri.Codec α) (bs : Bytes) : Outcome (List α) :=
  match Rc.Nlri.decAll c bs with
  | .ok (ns, _) => .ok ns
  | .err => .err
  | .panic => .panic

/-- what the builder then writes for them (`compose` of every item) -/
def recompose {α} (c : Rc.Nlri.Codec α) (bs : Bytes) : Outcome Bytes :=
  match readd c bs with
  | .ok ns => Rc.Nlri.encAll c ns
  | .err => .err
  | .panic => .panic

/-- `compose_len()` summed -/
def clenSum {α} (c : Rc.Nlri.Codec α) (ns : List α) : Nat := (ns.map c.clen).sum

/-- `Attribute::compose_len` of an MP attribute with `n` value octets -/
def mpAttrLen (n : Nat) : Nat := headerLen n + n

/-- `calculate_pdu_length` (:338) of a builder holding the attribute map `m`,
`na` octets of re-added announcements behind a default next hop of `nh` octets
(`NextHop::new`, nexthop.rs:25) and `nw` octets of re-added withdrawals; an MP
attribute is present only when NLRI were added -/
def nlPduLen (mlen nh na nw : Nat) : Nat :=
  16 + 2 + 1 + 2 + (2 + mlen) + (if na > 0 then mpAttrLen (2 + 1 + 1 + (1 + nh) + na) else 0) +
    (if nw > 0 then mpAttrLen (3 + nw) else 0)

/-! ### NLRI re-added: the builder with its two MP builders

`UpdateBuilder<Vec<u8>, A>` where `A` is the NLRI type of family `f`, with
(`ap = true`: `XAddpathNlri`) or without path identifiers.  An NLRI the builder
holds is a pair (path id, value); the path id of a non-ADD-PATH type is never
read nor written (0 by convention, as in `Rc.Upd.encNlris`).  The source is a
decoded message `Rc.Upd.Msg` (C01 / C02 model). -/

open Rc.Nlri (Fam codec codecAp)

/-- the address octets `NextHop::compose` (update_builder.rs:1150) writes for
`NextHop::new(A::afi_safi())` (nexthop.rs:25): all-zero addresses / route
distinguisher; FlowSpec has `NextHop::Empty` -/
def defaultNextHop : Fam → Bytes
  | .v4u | .v4m | .v4mpls | .v4rt | .vpls | .evpn => List.replicate 4 0
  | .v6u | .v6m | .v6mpls => List.replicate 16 0
  | .v4vpn => List.replicate 12 0
  | .v6vpn => List.replicate 24 0
  | .v4fs | .v6fs => []

/-- the octets `typed_announcements::<_, A>()` (update.rs:439) hands to
`NlriIter::<_, _, A>::new`: the conventional section for IPv4 unicast when it is
not empty, otherwise the NLRI of the FIRST MP_REACH_NLRI when it is of `A`'s
family (`Ok(None)` for another family, `Err` when AFI/SAFI, next hop or the
reserved octet are cut short).  `Rc.Upd.Msg.typedAnn` is the item list over these
octets (`Rc.Thm.C07.typedAnn_bytes`). -/
def typedAnnBytes (m : Rc.Upd.Msg) (f : Fam) : Outcome (Option Bytes) :=
  if f = .v4u ∧ m.ann ≠ [] then .ok (some m.ann)
  else
    match m.mpAttr 14 with
    | .ok none => .ok none
    | .ok (some (k, r)) =>
      if Rc.Upd.famOf k = some f then
        match Rc.Upd.skipNextHop r with
        | some r' => .ok (some r')
        | none => .err
      else .ok none
    | .err => .err
    | .panic => .panic

/-- the same for `typed_withdrawals::<_, A>()` (update.rs:281) -/
def typedWdBytes (m : Rc.Upd.Msg) (f : Fam) : Outcome (Option Bytes) :=
  if f = .v4u ∧ m.wd ≠ [] then .ok (some m.wd)
  else
    match m.mpAttr 15 with
    | .ok none => .ok none
    | .ok (some (k, r)) => if Rc.Upd.famOf k = some f then .ok (some r) else .ok none
    | .err => .err
    | .panic => .panic

/-- the loop `for a in iter { match a { Ok(a) => self.add_..(a), Err(_) => break } }`
(update_builder.rs:838-851, 1215-1224, after the repair of K7) over
`NlriIter::<_, _, A>`: `readd` with the codec of `A` -/
def takeNlri (f : Fam) (ap : Bool) (bs : Bytes) : Outcome (List (Nat × f.Val)) :=
  if ap then readd (codecAp f) bs
  else Rc.Upd.mapO (List.map fun v => ((0 : Nat), v)) (readd (codec f) bs)

/-- mirrors update_builder.rs:827 `MpReachNlriBuilder::add_announcements_from_pdu`
(`if let Ok(Some(iter)) = source.typed_announcements::<_, A>()`: nothing is added
on `Ok(None)` and on `Err`) -/
def mpReachAddFromPdu (m : Rc.Upd.Msg) (f : Fam) (ap : Bool) (l : List (Nat × f.Val)) :
    Outcome (List (Nat × f.Val)) :=
  match typedAnnBytes m f with
  | .ok (some bs) =>
    match takeNlri f ap bs with
    | .ok ns => .ok (l ++ ns)
    | .err => .err
    | .panic => .panic
  | .ok none => .ok l
  | .err => .ok l
  | .panic => .panic

/-- mirrors update_builder.rs:1204 `MpUnreachNlriBuilder::add_withdrawals_from_pdu` -/
def mpUnreachAddFromPdu (m : Rc.Upd.Msg) (f : Fam) (ap : Bool) (l : List (Nat × f.Val)) :
    Outcome (List (Nat × f.Val)) :=
  match typedWdBytes m f with
  | .ok (some bs) =>
    match takeNlri f ap bs with
    | .ok ns => .ok (l ++ ns)
    | .err => .err
    | .panic => .panic
  | .ok none => .ok l
  | .err => .ok l
  | .panic => .panic

/-- `UpdateBuilder { announcements, withdrawals, attributes }` (update_builder.rs:20);
the next hop of the MP_REACH_NLRI builder is `NextHop::new(A::afi_safi())` on every
path modelled here -/
structure NlBuilder (f : Fam) where
  attrs : List Decoded
  ann : Option (List (Nat × f.Val))
  wd : Option (List (Nat × f.Val))

def isPanicItem {α : Type} : Outcome α → Bool
  | .panic => true
  | _ => false

/-- `x.is_ok_and(|i| i.count() == 0)` on the combined iterator of
`announcements()` / `withdrawals()` (update.rs:418 / 266): `count` walks every
item, `Err` items included -/
def countIsZero (x : Outcome (List (Outcome Rc.Upd.AnyNlri) × Bool)) : Outcome Bool :=
  match x with
  | .ok (items, _) =>
    if items.any isPanicItem then .panic else .ok items.isEmpty
  | .err => .ok false
  | .panic => .panic

/-- mirrors update_builder.rs:91 `UpdateBuilder::from_update_message`: the attribute map
of the message (`PaMap::from_update_pdu`, read with the session's AS number width), no
NLRI -/
def fromUpdateMessage (m : Rc.Upd.Msg) (f : Fam) : Outcome (NlBuilder f) :=
  match mapOfW m.ppi.four m.attrs with
  | .ok mp => .ok { attrs := mp, ann := none, wd := none }
  | .err => .err
  | .panic => .panic

/-- mirrors update_builder.rs:237 `UpdateBuilder::add_announcements_from_pdu`: the
early-out when the message announces nothing at all, then the MP_REACH_NLRI builder
(an existing one is extended; a new one is kept only when something was added) -/
def addAnnouncementsFromPdu (m : Rc.Upd.Msg) (f : Fam) (ap : Bool) (b : NlBuilder f) : Outcome (NlBuilder f) :=
  match countIsZero m.announcements with
  | .ok true => .ok b
  | .ok false =>
    match b.ann with
    | some l =>
      match mpReachAddFromPdu m f ap l with
      | .ok l' => .ok { b with ann := some l' }
      | .err => .err
      | .panic => .panic
    | none =>
      match mpReachAddFromPdu m f ap [] with
      | .ok l' => if l'.isEmpty then .ok b else .ok { b with ann := some l' }
      | .err => .err
      | .panic => .panic
  | .err => .err
  | .panic => .panic

/-- mirrors update_builder.rs:264 `UpdateBuilder::add_withdrawals_from_pdu` -/
def addWithdrawalsFromPdu (m : Rc.Upd.Msg) (f : Fam) (ap : Bool) (b : NlBuilder f) : Outcome (NlBuilder f) :=
  match countIsZero m.withdrawals with
  | .ok true => .ok b
  | .ok false =>
    match b.wd with
    | some l =>
      match mpUnreachAddFromPdu m f ap l with
      | .ok l' => .ok { b with wd := some l' }
      | .err => .err
      | .panic => .panic
    | none =>
      match mpUnreachAddFromPdu m f ap [] with
      | .ok l' => if l'.isEmpty then .ok b else .ok { b with wd := some l' }
      | .err => .err
      | .panic => .panic
  | .err => .err
  | .panic => .panic

/-- `iter().fold(0, |sum, w| sum + w.compose_len())` over NLRI of type `A` -/
def nlriLen (f : Fam) (ap : Bool) (l : List (Nat × f.Val)) : Nat :=
  if ap then clenSum (codecAp f) l else clenSum (codec f) (l.map (·.2))

/-- `for a in &self.announcements { a.compose(target)? }` -/
def nlriBytes (f : Fam) (ap : Bool) (l : List (Nat × f.Val)) : Outcome Bytes :=
  if ap then Rc.Nlri.encAll (codecAp f) l else Rc.Nlri.encAll (codec f) (l.map (·.2))

/-- mirrors update_builder.rs:938 `MpReachNlriBuilder::value_len` -/
def reachValueLen (f : Fam) (ap : Bool) (l : List (Nat × f.Val)) : Nat :=
  2 + 1 + 1 + (1 + (defaultNextHop f).length) + nlriLen f ap l

/-- mirrors update_builder.rs:1249 `MpUnreachNlriBuilder::value_len` -/
def unreachValueLen (f : Fam) (ap : Bool) (l : List (Nat × f.Val)) : Nat := 3 + nlriLen f ap l

def optReachLen (f : Fam) (ap : Bool) : Option (List (Nat × f.Val)) → Nat
  | some l => mpAttrLen (reachValueLen f ap l)
  | none => 0

def optUnreachLen (f : Fam) (ap : Bool) : Option (List (Nat × f.Val)) → Nat
  | some l => mpAttrLen (unreachValueLen f ap l)
  | none => 0

/-- mirrors update_builder.rs:363 `calculate_pdu_length` (`mlen` = `attributes.bytes_len()`) -/
def calcPduLen (f : Fam) (ap : Bool) (b : NlBuilder f) (mlen : Nat) : Nat :=
  16 + 2 + 1 + 2 + (2 + mlen) + optReachLen f ap b.ann + optUnreachLen f ap b.wd

/-- mirrors update_builder.rs:341 `is_valid`; `true` is `Ok(())` -/
def nlIsValid {f : Fam} (b : NlBuilder f) : Bool :=
  if (match b.ann with | some l => l.isEmpty | none => false) then false
  else if (match b.wd with | some l => l.isEmpty | none => false) &&
      ((match b.ann with | some l => !l.isEmpty | none => false) || !b.attrs.isEmpty) then false
  else true

/-- mirrors path_attributes.rs:933 `Attribute::compose_header` for the two MP builders
(`FLAGS` = optional, non-transitive; extended length when `value_len() > 255`) -/
def mpHeader (code : UInt8) (n : Nat) : Bytes :=
  if n > 255 then [0x90, code] ++ be16 (min n 65535) else [0x80, code, UInt8.ofNat (min n 255)]

/-- `A::afi_safi().as_bytes()` (afisafi.rs:210) -/
def afiSafiBytes (f : Fam) : Bytes := be16 (Rc.Upd.famCode f).1 ++ [UInt8.ofNat (Rc.Upd.famCode f).2]

/-- mirrors `Attribute::compose` of `MpReachNlriBuilder` (compose_value: update_builder.rs:944) -/
def reachAttr (f : Fam) (ap : Bool) (l : List (Nat × f.Val)) : Outcome Bytes :=
  match nlriBytes f ap l with
  | .ok nb =>
    .ok (mpHeader 14 (reachValueLen f ap l) ++ (afiSafiBytes f ++
      (UInt8.ofNat (defaultNextHop f).length :: (defaultNextHop f ++ (0 :: nb)))))
  | .err => .err
  | .panic => .panic

/-- mirrors `Attribute::compose` of `MpUnreachNlriBuilder` (compose_value: update_builder.rs:1261) -/
def unreachAttr (f : Fam) (ap : Bool) (l : List (Nat × f.Val)) : Outcome Bytes :=
  match nlriBytes f ap l with
  | .ok nb => .ok (mpHeader 15 (unreachValueLen f ap l) ++ (afiSafiBytes f ++ nb))
  | .err => .err
  | .panic => .panic

def optAttr {f : Fam} (g : List (Nat × f.Val) → Outcome Bytes) : Option (List (Nat × f.Val)) → Outcome Bytes
  | some l => g l
  | none => .ok []

/-- mirrors update_builder.rs:650 `finish`: header with `calculate_pdu_length` (the
`u16::try_from(..).unwrap()` are the panics), an empty withdrawn-routes section, the
attribute length from `bytes_len()` and the two `compose_len()`, then MP_REACH_NLRI,
MP_UNREACH_NLRI and the attribute map in key order; no conventional NLRI -/
def nlFinish (f : Fam) (ap : Bool) (b : NlBuilder f) : Outcome Bytes :=
  match lenList b.attrs with
  | .ok ml =>
    let total := calcPduLen f ap b ml
    if total > 65535 then .panic else
    let alen := ml + optReachLen f ap b.ann + optUnreachLen f ap b.wd
    if alen > 65535 then .panic else
    match optAttr (reachAttr f ap) b.ann, optAttr (unreachAttr f ap) b.wd, encList b.attrs with
    | .ok r, .ok u, .ok o =>
      .ok (List.replicate 16 (0xff : UInt8) ++ (be16 total ++ (2 :: (be16 0 ++ ([] ++ (be16 alen ++ ((r ++ (u ++ o)) ++ [])))))))
    | .panic, _, _ => .panic
    | _, .panic, _ => .panic
    | _, _, .panic => .panic
    | _, _, _ => .err
  | .err => .err
  | .panic => .panic

/-- mirrors update_builder.rs:311 `into_message`: `is_valid`, the `MAX_PDU` test, `finish`,
and `UpdateMessage::from_octets(.., session_config)` on the octets written -/
def nlIntoMessage (cfg : Rc.Upd.Cfg) (f : Fam) (ap : Bool) (b : NlBuilder f) : Outcome Bytes :=
  if !nlIsValid b then .err else
  match lenList b.attrs with
  | .ok ml =>
    if calcPduLen f ap b ml > MAX_PDU then .err else
    match nlFinish f ap b with
    | .ok pdu =>
      match Rc.Upd.parseUpdate cfg pdu with
      | .ok _ => .ok pdu
      | .err => .err
      | .panic => .panic
    | .err => .err
    | .panic => .panic
  | .err => .err
  | .panic => .panic

/-- the builder after `from_update_message` + `add_announcements_from_pdu` +
`add_withdrawals_from_pdu` on the same message -/
def readdBuilder (m : Rc.Upd.Msg) (f : Fam) (ap : Bool) : Outcome (NlBuilder f) :=
  match fromUpdateMessage m f with
  | .ok b0 =>
    match addAnnouncementsFromPdu m f ap b0 with
    | .ok b1 => addWithdrawalsFromPdu m f ap b1
    | .err => .err
    | .panic => .panic
  | .err => .err
  | .panic => .panic

/-- the builder of `readdBuilder` after `add_announcements_from_pdu` + `add_withdrawals_from_pdu`
of the same message a SECOND time (request `nlt`): the calls find the MP builders of the first
round and extend them (update_builder.rs:250, :277) -/
def readdTwiceBuilder (m : Rc.Upd.Msg) (f : Fam) (ap : Bool) : Outcome (NlBuilder f) :=
  match readdBuilder m f ap with
  | .ok b1 =>
    match addAnnouncementsFromPdu m f ap b1 with
    | .ok b2 => addWithdrawalsFromPdu m f ap b2
    | .err => .err
    | .panic => .panic
  | .err => .err
  | .panic => .panic

def readdTwicePdu (cfg : Rc.Upd.Cfg) (m : Rc.Upd.Msg) (f : Fam) (ap : Bool) : Outcome Bytes :=
  match readdTwiceBuilder m f ap with
  | .ok b => nlIntoMessage cfg f ap b
  | .err => .err
  | .panic => .panic

/-- ... and `into_message(&session_config)`: the PDU that carries the message's attributes
and its NLRI of family `f` again -/
def readdPdu (cfg : Rc.Upd.Cfg) (m : Rc.Upd.Msg) (f : Fam) (ap : Bool) : Outcome Bytes :=
  match readdBuilder m f ap with
  | .ok b => nlIntoMessage cfg f ap b
  | .err => .err
  | .panic => .panic

end Rc.Reenc
