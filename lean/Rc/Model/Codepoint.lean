/-
Generic semantics of routecore's code-point enumerations (C18).

mirrors src/util/macros.rs `typeenum!`:
    enum Name { $y.., $y1($ty).., Unimplemented($ty) }
    From<$ty>:  match f { $x => $y, ..  $x1 => $y1(f), ..  u => Unimplemented(u) }
    From<Name>: match s { $y => $x, ..  $y1(u) => u, ..    Unimplemented(u) => u }
Variants are identified by their *position* in the macro's argument list (the
macro generates both directions from the same list); names are carried for
printing only.
-/
import Rc.Base

namespace Rc.Codepoint

structure TypeEnum where
  name : String
  width : Nat
  codes : List Nat               -- $x of the i-th named arm
  variants : List String         -- $y of the i-th named arm (printing only)
  ranges : List (Nat × Nat)      -- inclusive bounds of the j-th range arm
  rangeNames : List String       -- $y1 of the j-th range arm (printing only)

inductive Variant where
  | named (i : Nat)              -- i-th named variant
  | range (j : Nat) (v : Nat)    -- j-th range variant, carrying the number
  | unimpl (v : Nat)             -- catch-all, carrying the number
  deriving DecidableEq, Repr

/-- index of the first element equal to `n` (Rust `match`: first matching arm wins) -/
def findIdx : List Nat → Nat → Option Nat
  | [], _ => none
  | c :: cs, n => if c = n then some 0 else (findIdx cs n).map (· + 1)

def findRange : List (Nat × Nat) → Nat → Option Nat
  | [], _ => none
  | (lo, hi) :: rs, n => if lo ≤ n ∧ n ≤ hi then some 0 else (findRange rs n).map (· + 1)

def fromInt (t : TypeEnum) (n : Nat) : Variant :=
  match findIdx t.codes n with
  | some i => .named i
  | none =>
    match findRange t.ranges n with
    | some j => .range j n
    | none => .unimpl n

def toInt (t : TypeEnum) : Variant → Option Nat
  | .named i => t.codes[i]?
  | .range _ v => some v
  | .unimpl v => some v

def showVariant (t : TypeEnum) : Variant → String
  | .named i => t.variants.getD i "?"
  | .range j v => s!"{t.rangeNames.getD j "?"}({v})"
  | .unimpl v => s!"Unimplemented({v})"

/-! ### AFI/SAFI pairs (mirrors the `afisafi!` macro in src/bgp/nlri/afisafi.rs) -/

inductive AfiSafi where
  | known (i : Nat)                 -- i-th (afi, safi) row
  | unsupported (a s : Nat)
  deriving DecidableEq, Repr

def findPair : List (Nat × Nat) → Nat × Nat → Option Nat
  | [], _ => none
  | p :: ps, q => if p = q then some 0 else (findPair ps q).map (· + 1)

def afisafiFrom (tbl : List (Nat × Nat)) (a s : Nat) : AfiSafi :=
  match findPair tbl (a, s) with
  | some i => .known i
  | none => .unsupported a s

def afisafiTo (tbl : List (Nat × Nat)) : AfiSafi → Option (Nat × Nat)
  | .known i => tbl[i]?
  | .unsupported a s => some (a, s)

/-- `AfiSafiType::as_bytes` -/
def afisafiBytes (tbl : List (Nat × Nat)) (x : AfiSafi) : Option Bytes :=
  (afisafiTo tbl x).map fun (a, s) => be16 a ++ [UInt8.ofNat s]

/-- NlriType: variant `2*i` is the plain, `2*i+1` the ADD-PATH variant of row i -/
inductive NlriType where
  | known (i : Nat) (addpath : Bool)
  | unsupported (a s : Nat)
  deriving DecidableEq, Repr

def nlriTypeFrom : AfiSafi → Bool → NlriType
  | .known i, b => .known i b
  | .unsupported a s, _ => .unsupported a s

def nlriTypeAfiSafi : NlriType → AfiSafi
  | .known i _ => .known i
  | .unsupported a s => .unsupported a s

/-! ### hand-written tables -/

/-- lookup in an association list written as match arms (first arm wins) -/
def assoc : List (Nat × Nat) → Nat → Option Nat
  | [], _ => none
  | (k, v) :: r, n => if k = n then some v else assoc r n

/-- `Header::msg_type`: arms `(byte, variant index)`, default `Unimplemented(u)` -/
def msgTypeOf (arms : List (Nat × Nat)) (n : Nat) : Variant :=
  match assoc arms n with
  | some i => .named i
  | none => .unimpl n

/-! ### notification details -/

inductive CodeSrc where
  | ofVariant (i : Nat)   -- `E::X.into()`
  | lit (n : Nat)         -- a literal
  | carried               -- the value stored in the Details variant
  deriving DecidableEq, Repr

/-- value of `Details`: variant index, the code it carries (only
`Unimplemented`), the subcode it carries (if any) -/
structure Details where
  variant : Nat
  code : Option Nat
  sub : Option Nat
  deriving DecidableEq, Repr

structure Shape where
  dv : Nat
  keepsCode : Bool
  keepsSub : Bool
  deriving DecidableEq, Repr

def findArm : List (Nat × Nat × Bool × Bool) → Nat → Option Shape
  | [], _ => none
  | (k, dv, kc, ks) :: r, n => if k = n then some ⟨dv, kc, ks⟩ else findArm r n

/-- which arm of `NotificationMessage::details` a code selects: named error
codes select the arm with their variant index, everything else the arm 255. -/
def detailsShape (ec : TypeEnum) (arms : List (Nat × Nat × Bool × Bool)) (code : Nat) : Option Shape :=
  let key := match fromInt ec code with
    | .named i => i
    | _ => 255
  findArm arms key

/-- `NotificationMessage::details` -/
def details (ec : TypeEnum) (arms : List (Nat × Nat × Bool × Bool)) (code sub : Nat) : Option Details :=
  (detailsShape ec arms code).map fun sh =>
    { variant := sh.dv, code := if sh.keepsCode then some code else none,
      sub := if sh.keepsSub then some sub else none }

def findRaw : List (Nat × CodeSrc × CodeSrc) → Nat → Option (CodeSrc × CodeSrc)
  | [], _ => none
  | (k, v) :: r, n => if k = n then some v else findRaw r n

def evalSrc (ec : TypeEnum) (carried : Option Nat) : CodeSrc → Option Nat
  | .ofVariant i => ec.codes[i]?
  | .lit n => some n
  | .carried => carried

/-- `Details::raw` -/
def detailsRaw (ec : TypeEnum) (arms : List (Nat × CodeSrc × CodeSrc)) (d : Details) : Option (Nat × Nat) :=
  match findRaw arms d.variant with
  | none => none
  | some (c, s) =>
    match evalSrc ec d.code c, evalSrc ec d.sub s with
    | some c', some s' => some (c', s')
    | _, _ => none

end Rc.Codepoint
