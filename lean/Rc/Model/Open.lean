/-
Executable model of routecore's BGP OPEN decoding, its accessors and
`OpenBuilder` (C03; reused by C12 and by the BMP PeerUp model of C15).

The model follows the code as it is after the C03 `fix:` commits
(`Parameter::check` skips non-capability values; `Capability::check` runs
`Capability::parse`; MultiProtocol/FourOctetAsn need length 4, Multisession a
non-zero length).

Conventions: a parser limited to some region is represented by the bytes that
remain inside the region.  `Capability::parse` compares `parser.pos()` with
`pos + len` where `pos` is the start of the capability *header*, so its loops
are written with an explicit count `c` of bytes consumed since that start (the
two header bytes included) – exactly the off-by-two of the Rust code.
Every index / slice / `unwrap` / `expect` is an operation that can yield
`.panic`; lazy iterators are `Lazy` streams: the items produced, then either
a clean end or a panic.
-/
import Rc.Base

namespace Rc.Open
open Rc

/-! ### small helpers -/

/-- `bs[i]` (Rust index expression: out of range panics) -/
def idx (bs : Bytes) (i : Nat) : Outcome UInt8 :=
  match bs[i]? with
  | some b => .ok b
  | none => .panic

/-- `&bs[a..b]` (panics unless `a ≤ b ≤ len`) -/
def slice (bs : Bytes) (a b : Nat) : Outcome Bytes :=
  if a ≤ b ∧ b ≤ bs.length then .ok ((bs.drop a).take (b - a)) else .panic

/-- a lazy Rust iterator whose `next` may panic: the items it yields before
it either ends (`false`) or panics (`true`) -/
abbrev Lazy (α : Type) := List α × Bool

def marker : Bytes := List.replicate 16 (0xff : UInt8)

/-- mirrors mod.rs:298 `Header::check` on a parser over the whole input:
marker, `length == parser.len()`, skip the type byte.  Result: the bytes after
the 19-byte header. -/
def headerCheck (bs : Bytes) : Option Bytes :=
  match takeN 16 bs with
  | none => none
  | some (m, r) =>
    if m ≠ marker then none else
    match rd16 r with
    | none => none
    | some (len, r2) =>
      if len ≠ bs.length then none else
      match r2 with
      | _ :: r3 => some r3
      | [] => none

/-- mirrors mod.rs:282 `Header::parse`: marker, u16, u8, then 19 octets (no
length comparison).  Result: (length field, type byte, bytes after the header). -/
def headerParse (bs : Bytes) : Option (Nat × UInt8 × Bytes) :=
  match takeN 16 bs with
  | none => none
  | some (m, r) =>
    if m ≠ marker then none else
    match rd16 r with
    | none => none
    | some (len, r2) =>
      match r2 with
      | t :: r3 => some (len, t, r3)
      | [] => none

/-! ### capabilities -/

structure Cap where
  code : UInt8
  value : Bytes
  deriving DecidableEq, Repr

/-- `while parser.pos() < pos + len { read k bytes }` of `Capability::parse`
(ExtendedNextHop k=6, MultipleLabels/GracefulRestart k=4, LLGR k=7).
`c` = bytes consumed since the capability header started. -/
def readLoop (k : Nat) : Nat → Nat → Nat → Bytes → Bool
  | 0, _, _, _ => true
  | fuel + 1, c, len, body =>
    if c < len then
      if k ≤ body.length then readLoop k fuel (c + k) len (body.drop k) else false
    else true

/-- mirrors open.rs:386-542, the per-type content rules of `Capability::parse`.
`body` = the bytes after the capability's two header bytes **up to the limit of
the parser it is called with** (for `from_octets` and for the `capabilities()`
iterator: the end of the optional parameter).  `.err` = any `Err(_)`. -/
def capContent (code len : Nat) (body : Bytes) : Outcome Unit :=
  let req (b : Bool) : Outcome Unit := if b then .ok () else .err
  match code with
  | 1 => req (len == 4 && decide (4 ≤ body.length))
  | 2 => req (len == 0)
  | 3 | 130 =>
    match body with
    | _ :: _ :: _ :: _ :: n :: r => req (decide (2 * n.toNat ≤ r.length))
    | _ => .err
  | 5 => req (readLoop 6 len 2 len body)
  | 6 => req (len == 0)
  | 8 => req (readLoop 4 len 2 len body)
  | 9 => req (len == 1 && decide (1 ≤ body.length))
  | 64 => req (decide (2 ≤ body.length) && readLoop 4 len 4 len (body.drop 2))
  | 65 => req (len == 4 && decide (4 ≤ body.length))
  | 66 | 67 => req (decide (len ≤ body.length))
  | 68 | 131 => req (len != 0 && decide (len ≤ body.length))
  | 69 =>
    match body with
    | _ :: _ :: _ :: d :: _ => req (decide (d.toNat ≤ 3))
    | _ => .err
  | 70 => req (len == 0)
  | 71 => req (readLoop 7 len 2 len body)
  | 73 =>
    match body with
    | hl :: r =>
      match takeN hl.toNat r with
      | some (_, dl :: r2) => req (decide (dl.toNat ≤ r2.length))
      | _ => .err
    | [] => .err
  | 75 =>
    match body with
    | n :: r => req (decide (n.toNat ≤ r.length))
    | [] => .err
  | 76 => req (decide (len ≤ body.length))   -- PathsLimit: `advance(len)` (after the fix)
  | 128 => req (len == 0)
  | _ => .ok ()

/-- mirrors open.rs:378 `Capability::parse` on a parser whose remaining bytes
are `rest`: header, content rules, `seek(pos)`, `parse_octets(2+len)`. -/
def parseCap (rest : Bytes) : Outcome (Cap × Bytes) :=
  match rest with
  | code :: len :: body =>
    match capContent code.toNat len.toNat body with
    | .ok () =>
      match takeN len.toNat body with
      | some (v, r) => .ok (⟨code, v⟩, r)
      | none => .err
    | .err => .err
    | .panic => .panic
  | _ => .err

/-- mirrors `while caps_parser.remaining() > 0 { Capability::check(..)? }`
(open.rs:356; `Capability::check` = `Capability::parse` since the fix). -/
def capsCheck : Nat → Bytes → Outcome Unit
  | _, [] => .ok ()
  | 0, _ => .err
  | fuel + 1, rest =>
    match parseCap rest with
    | .ok (_, r) => capsCheck fuel r
    | .err => .err
    | .panic => .panic

/-- mirrors open.rs:609 `CapabilitiesIter::next`:
`Some(Capability::parse(&mut self.parser).unwrap())` until nothing remains. -/
def capsIter : Nat → Bytes → Lazy Cap
  | _, [] => ([], false)
  | 0, _ => ([], true)
  | fuel + 1, rest =>
    match parseCap rest with
    | .ok (c, r) => let (cs, p) := capsIter fuel r; (c :: cs, p)
    | _ => ([], true)

/-! ### optional parameters -/

/-- mirrors open.rs:349 `Parameter::check`; result: bytes after the parameter -/
def paramCheck (rest : Bytes) : Outcome Bytes :=
  match rest with
  | typ :: len :: r =>
    match takeN len.toNat r with
    | none => .err
    | some (v, r') =>
      if typ.toNat = 2 then
        match capsCheck v.length v with
        | .ok () => .ok r'
        | .err => .err
        | .panic => .panic
      else .ok r'
  | _ => .err

/-- `while param_parser.remaining() > 0 { Parameter::check(..)? }` -/
def paramsCheck : Nat → Bytes → Outcome Unit
  | _, [] => .ok ()
  | 0, _ => .err
  | fuel + 1, rest =>
    match paramCheck rest with
    | .ok r => paramsCheck fuel r
    | .err => .err
    | .panic => .panic

/-- mirrors open.rs:258 `OpenMessage::check` -/
def openCheck (bs : Bytes) : Outcome Unit :=
  match headerCheck bs with
  | none => .err
  | some r =>
    match takeN 9 r with
    | none => .err
    | some (_, r1) =>
      match r1 with
      | [] => .err
      | opl :: r2 =>
        match takeN opl.toNat r2 with
        | none => .err
        | some (ps, trailing) =>
          match paramsCheck ps.length ps with
          | .ok () => if trailing.length > 0 then .err else .ok ()
          | .err => .err
          | .panic => .panic

/-- mirrors open.rs:251 `OpenMessage::from_octets`; an accepted message is its bytes -/
def fromOctets (bs : Bytes) : Outcome Bytes :=
  match openCheck bs with
  | .ok () => .ok bs
  | .err => .err
  | .panic => .panic

/-! ### accessors (open.rs:85-246) on the bytes of a message, checked or not -/

/-! The fixed offsets of the accessors, as open.rs writes them: `const COFF: usize = 19` and `COFF+k`.  Scoped
notations for numerals (not `abbrev`s: `omega` / `simp` in the proofs see the numeral itself), one per expression of
the source; `Rc.Thm.C03.model_constants_agree` ties each to `Rc.Gen.openCoff + k` (regenerated from the source). -/
scoped notation "COFF" => (19 : Nat)
scoped notation "COFF_1" => (20 : Nat)
scoped notation "COFF_2" => (21 : Nat)
scoped notation "COFF_3" => (22 : Nat)
scoped notation "COFF_4" => (23 : Nat)
scoped notation "COFF_5" => (24 : Nat)
scoped notation "COFF_9" => (28 : Nat)
scoped notation "COFF_10" => (29 : Nat)

/-- header().length(): `range(..19)` then bytes 16, 17 -/
def length (m : Bytes) : Outcome Nat := do
  let h ← slice m 0 19
  let a ← idx h 16
  let b ← idx h 17
  pure (a.toNat * 256 + b.toNat)

def version (m : Bytes) : Outcome UInt8 := idx m COFF

def asn2 (m : Bytes) : Outcome Nat := do
  let a ← idx m COFF_1
  let b ← idx m COFF_2
  pure (a.toNat * 256 + b.toNat)

def holdtime (m : Bytes) : Outcome Nat := do
  let a ← idx m COFF_3
  let b ← idx m COFF_4
  pure (a.toNat * 256 + b.toNat)

def identifier (m : Bytes) : Outcome Bytes := slice m COFF_5 COFF_9

def optParmLen (m : Bytes) : Outcome UInt8 := idx m COFF_9

structure Param where
  typ : UInt8
  value : Bytes
  deriving DecidableEq, Repr

/-- mirrors open.rs:680 `ParametersParser::next` (three `unwrap`s) -/
def paramsIter : Nat → Bytes → Lazy Param
  | _, [] => ([], false)
  | 0, _ => ([], true)
  | fuel + 1, rest =>
    match rest with
    | typ :: len :: r =>
      match takeN len.toNat r with
      | some (v, r') => let (ps, p) := paramsIter fuel r'; (⟨typ, v⟩ :: ps, p)
      | none => ([], true)
    | _ => ([], true)

/-- mirrors open.rs:131 `parameters_iter`: `advance(COFF+10).unwrap()`,
`parse_parser(opt_parm_len).unwrap()` -/
def parameters (m : Bytes) : Outcome (Lazy Param) :=
  match takeN COFF_10 m with
  | none => .panic
  | some (_, r) =>
    match idx m COFF_9 with
    | .ok opl =>
      match takeN opl.toNat r with
      | some (ps, _) => .ok (paramsIter ps.length ps)
      | none => .panic
    | _ => .panic

/-- `flat_map(into_capability_iter)` over the Capabilities parameters: stops at the first panic -/
def flatCaps : List Param → Bool → Lazy Cap
  | [], p => ([], p)
  | q :: qs, p =>
    if q.typ.toNat = 2 then
      let (cs, pc) := capsIter q.value.length q.value
      if pc then (cs, true)
      else let (cs', p') := flatCaps qs p; (cs ++ cs', p')
    else flatCaps qs p

/-- mirrors open.rs:144 `capabilities()` -/
def capabilities (m : Bytes) : Outcome (Lazy Cap) :=
  match parameters m with
  | .ok (ps, p) => .ok (flatCaps ps p)
  | .err => .err
  | .panic => .panic

/-- consume a lazy iterator completely (`collect`, `for`) -/
def collect {α} (l : Lazy α) : Outcome (List α) := if l.2 then .panic else .ok l.1

/-- `Iterator::find`: stops at the first hit, so a later panic is not reached -/
def lazyFind {α} (p : α → Bool) (l : Lazy α) : Outcome (Option α) :=
  match l.1.find? p with
  | some a => .ok (some a)
  | none => if l.2 then .panic else .ok none

def be32val (v : Bytes) : Outcome Nat :=
  match v with
  | [a, b, c, d] => .ok (a.toNat * 16777216 + b.toNat * 65536 + c.toNat * 256 + d.toNat)
  | _ => .panic

/-- mirrors open.rs:93 `my_asn`: first FourOctetAsn capability
(`value().try_into().expect(..)`), else the two-octet field -/
def myAsn (m : Bytes) : Outcome Nat := do
  let cs ← capabilities m
  match ← lazyFind (fun c => c.code.toNat == 65) cs with
  | some c => be32val c.value
  | none => asn2 m

/-- mirrors open.rs:170 `four_octet_capable` (`any`) -/
def fourOctetCapable (m : Bytes) : Outcome Bool := do
  let cs ← capabilities m
  match ← lazyFind (fun c => c.code.toNat == 65) cs with
  | some _ => pure true
  | none => pure false

/-- one `chunks(4)` item of an ADD-PATH capability value: (afi, safi, direction) or `Err` -/
def apChunk (c : Bytes) : Option (Nat × Nat × Nat) :=
  match c with
  | [a, b, s, d] => if 1 ≤ d.toNat ∧ d.toNat ≤ 3 then some (a.toNat * 256 + b.toNat, s.toNat, d.toNat) else none
  | _ => none

def chunks4 : Nat → Bytes → List Bytes
  | _, [] => []
  | 0, _ => []
  | fuel + 1, bs => bs.take 4 :: chunks4 fuel (bs.drop 4)

def apValue (v : Bytes) : Option (List (Nat × Nat × Nat)) :=
  (chunks4 v.length v).mapM apChunk

/-- the loop of `addpath_families_vec` over the (lazy, filtered) capabilities:
an `Err` returns at once, a panic of the iterator is reached only after all
earlier items were processed -/
def apLoop : List Cap → Bool → Outcome (List (Nat × Nat × Nat))
  | [], p => if p then .panic else .ok []
  | c :: cs, p =>
    if c.code.toNat == 69 then
      match apValue c.value with
      | none => .err
      | some l =>
        match apLoop cs p with
        | .ok l' => .ok (l ++ l')
        | .err => .err
        | .panic => .panic
    else apLoop cs p

/-- mirrors open.rs:176 `addpath_families_vec` -/
def addpathFamiliesVec (m : Bytes) : Outcome (List (Nat × Nat × Nat)) :=
  match capabilities m with
  | .ok (cs, p) => apLoop cs p
  | .err => .err
  | .panic => .panic

def mpOne (v : Bytes) : Outcome (Nat × Nat) := do
  let a ← idx v 0
  let b ← idx v 1
  let s ← idx v 3
  pure (a.toNat * 256 + b.toNat, s.toNat)

def mpLoop : List Cap → Bool → Outcome (List (Nat × Nat))
  | [], p => if p then .panic else .ok []
  | c :: cs, p =>
    if c.code.toNat == 1 then
      match mpOne c.value with
      | .ok x =>
        match mpLoop cs p with
        | .ok l => .ok (x :: l)
        | .err => .err
        | .panic => .panic
      | _ => .panic
    else mpLoop cs p

/-- mirrors open.rs:225 `multiprotocol_ids`, collected -/
def multiprotocolIds (m : Bytes) : Outcome (List (Nat × Nat)) :=
  match capabilities m with
  | .ok (cs, p) => mpLoop cs p
  | .err => .err
  | .panic => .panic

/-- mirrors open.rs:239 `get_software_version` (the raw value; the lossy UTF-8
conversion is not modelled) -/
def softwareVersion (m : Bytes) : Outcome (Option Bytes) := do
  let cs ← capabilities m
  match ← lazyFind (fun c => c.code.toNat == 75) cs with
  | some c => pure (some c.value)
  | none => pure none

/-! ### encoder (the wire format, RFC 4271 4.2 / RFC 5492) -/

def encCap (c : Cap) : Bytes := c.code :: UInt8.ofNat c.value.length :: c.value

def encCaps (cs : List Cap) : Bytes := cs.flatMap encCap

def encParam (p : Param) : Bytes := p.typ :: UInt8.ofNat p.value.length :: p.value

def encParams (ps : List Param) : Bytes := ps.flatMap encParam

/-- the fixed fields of an OPEN -/
structure Fields where
  ver : UInt8
  asn2 : Nat
  ht : Nat
  id : Bytes
  deriving DecidableEq, Repr

def header (len : Nat) (typ : UInt8) : Bytes := marker ++ be16 len ++ [typ]

/-- an OPEN with the given fields and optional-parameter bytes -/
def encOpenRaw (f : Fields) (params : Bytes) : Bytes :=
  header (29 + params.length) 1 ++ [f.ver] ++ be16 f.asn2 ++ be16 f.ht ++ f.id ++
    [UInt8.ofNat params.length] ++ params

def encOpen (f : Fields) (ps : List Param) : Bytes := encOpenRaw f (encParams ps)

/-! ### OpenBuilder (open.rs:749-891) -/

structure Builder where
  asn : Nat                              -- set_asn (a u32)
  ht : Nat
  id : Bytes
  caps : List Bytes                      -- add_capability / four_octet_capable / add_mp, raw TLV bytes in call order
  addpath : List (Nat × Nat × Nat)       -- add_addpath (afi, safi, direction)
  deriving DecidableEq, Repr

def fourOctetCapBytes (asn : Nat) : Bytes := [0x41, 0x04] ++ be32 asn
def mpCapBytes (afi safi : Nat) : Bytes := [0x01, 0x04] ++ be16 afi ++ [0x00, UInt8.ofNat safi]

def addpathCapBytes (l : List (Nat × Nat × Nat)) : Bytes :=
  [69, UInt8.ofNat (if 4 * l.length ≤ 255 then 4 * l.length else 255)] ++
    l.flatMap (fun (a, s, d) => be16 a ++ [UInt8.ofNat s, UInt8.ofNat d])

/-- `cap_len += c.as_ref().len() as u8` with overflow checks on -/
def sumU8 : List Bytes → Nat → Outcome Nat
  | [], acc => .ok acc
  | c :: cs, acc =>
    let n := acc + c.length % 256
    if n ≤ 255 then sumU8 cs n else .panic

/-- mirrors open.rs:841 `OpenBuilder::finish` -/
def finish (b : Builder) : Outcome Bytes :=
  let caps := if b.addpath.isEmpty then b.caps else b.caps ++ [addpathCapBytes b.addpath]
  match sumU8 caps 0 with
  | .ok capLen =>
    if capLen > 0 ∧ capLen + 2 > 255 then .panic else
    let opl := if capLen > 0 then capLen + 2 else 0
    let asn2 := if b.asn < 65536 then b.asn else 23456
    .ok (header (29 + opl) 1 ++ [4] ++ be16 asn2 ++ be16 b.ht ++ b.id ++ [UInt8.ofNat opl] ++
      (if opl > 0 then [0x02, UInt8.ofNat capLen] ++ caps.flatMap id else []))
  | _ => .panic

end Rc.Open
