/-
Model of routecore's MRT reader (src/mrt.rs): `CommonHeader::parse`, the
TABLE_DUMP_V2 peer index table, RIB entry header / entries, the three RIB
iterators (`RibEntryIterator`, `TableDumpIterator`, `SingleEntryIterator`),
the denotation of the parallel iterator `rib_entries_mt`, and the BGP4MP
message iterator (`UpdateIterator`).  Path attributes and embedded BGP
messages are opaque byte strings.

All parsing in src/mrt.rs is linear (no `seek`, no `pos()` arithmetic), so the
`octseq::Parser` cursor is modelled by "the bytes that remain"; a sub-parser
made by `parse_parser(n)` is the next `n` bytes.

Line numbers refer to src/mrt.rs after fixes/0001 (UpdateIterator fuses).

The second half of the file is the *reference encoder* (`encFile`, `encRecs`)
the C16 theorems speak about.  Core Lean only (the driver links this file).
-/
import Rc.Base

namespace Rc.Mrt
open Rc

/-! ### small helpers -/

/-- the `?` operator on a `Result<_, ShortInput>`: `None` becomes `Err` -/
def lift {α} : Option α → Outcome α
  | some a => .ok a
  | none => .err

@[simp] theorem lift_some {α} (a : α) : lift (some a) = .ok a := rfl
@[simp] theorem lift_none {α} : lift (none : Option α) = .err := rfl

/-- `Parser::parse_u8` -/
def rd8 : Bytes → Option (Nat × Bytes)
  | a :: r => some (a.toNat, r)
  | [] => none

/-- Drive a Rust iterator to exhaustion, as `for x in it` / `.collect()` /
`.count()` do: call `next` until it returns `None`; a panic inside `next`
unwinds out of the loop.  `fuel` bounds the number of calls (every caller
passes more fuel than there are bytes left, and every `Some` consumes a byte).
`next` never returns `err` (its Rust type is `Option`). -/
def drain {σ α} (next : σ → Outcome (Option (α × σ))) : Nat → σ → Outcome (List α)
  | 0, _ => .panic
  | n + 1, s =>
    match next s with
    | .ok none => .ok []
    | .ok (some (a, s')) =>
      match drain next n s' with
      | .ok as => .ok (a :: as)
      | .err => .err
      | .panic => .panic
    | .err => .err
    | .panic => .panic

/-! ### CommonHeader -/

/-- mirrors src/mrt.rs:35 `CommonHeader`.  `msgType` is 13 (TABLE_DUMP_V2),
16 (BGP4MP) or 17 (BGP4MP_ET) – every other type is rejected by `parse`;
`subtype` is the raw u16 (a `TableDumpv2SubType` for 13, a `Bgp4MpSubType`
for 16/17); `length` is the value *after* the ET adjustment. -/
structure CommonHeader where
  timestamp : Nat
  msgType : Nat
  subtype : Nat
  length : Nat
  timestampMus : Nat
  message : Bytes
  deriving Repr, DecidableEq

/-- mirrors src/mrt.rs:56 `CommonHeader::parse`.  For BGP4MP_ET (17) the
microsecond field is read first (`?` → err when short) and then `length - 4`
is evaluated: a checked subtraction under overflow checks, i.e. a panic for
`length < 4`.  (`IsisEt`/`Ospfv3Et` never reach that arm: they are rejected as
`Unsupported` by the first `match`.) -/
def CommonHeader.parse (bs : Bytes) : Outcome (CommonHeader × Bytes) :=
  match rd32 bs with
  | none => .err
  | some (ts, r1) =>
    match rd16 r1 with
    | none => .err
    | some (ty, r2) =>
      if ty = 13 ∨ ty = 16 ∨ ty = 17 then
        match rd16 r2 with
        | none => .err
        | some (sub, r3) =>
          match rd32 r3 with
          | none => .err
          | some (len, r4) =>
            if ty = 17 then
              match rd32 r4 with
              | none => .err
              | some (mus, r5) =>
                if len < 4 then .panic
                else
                  match takeN (len - 4) r5 with
                  | none => .err
                  | some (msg, rest) => .ok (⟨ts, ty, sub, len - 4, mus, msg⟩, rest)
            else
              match takeN len r4 with
              | none => .err
              | some (msg, rest) => .ok (⟨ts, ty, sub, len, 0, msg⟩, rest)
      else .err

/-! ### peer index table -/

/-- mirrors src/mrt.rs:232 `PeerEntry`; `addr` is the 4 (IPv4) or 16 (IPv6)
address octets. -/
structure PeerEntry where
  bgpId : Nat
  addr : Bytes
  asn : Nat
  deriving Repr, DecidableEq

/-- mirrors src/mrt.rs:239 `PeerEntry::parse`: bit 0 of the type octet selects
the address family, bit 1 the AS width. -/
def PeerEntry.parse (bs : Bytes) : Outcome (PeerEntry × Bytes) :=
  match rd8 bs with
  | none => .err
  | some (pt, r1) =>
    match rd32 r1 with
    | none => .err
    | some (id, r2) =>
      match takeN (if pt % 2 = 0 then 4 else 16) r2 with
      | none => .err
      | some (addr, r3) =>
        if pt / 2 % 2 = 1 then
          match rd32 r3 with
          | none => .err
          | some (asn, r4) => .ok (⟨id, addr, asn⟩, r4)
        else
          match rd16 r3 with
          | none => .err
          | some (asn, r4) => .ok (⟨id, addr, asn⟩, r4)

/-- mirrors src/mrt.rs:174 `PeerIndexTable` -/
structure PeerIndexTable where
  collector : Nat
  view : Bytes
  peerCount : Nat
  peerEntries : Bytes
  deriving Repr, DecidableEq

/-- mirrors src/mrt.rs:182 `PeerIndexTable::parse` -/
def PeerIndexTable.parse (bs : Bytes) : Outcome PeerIndexTable :=
  match rd32 bs with
  | none => .err
  | some (coll, r1) =>
    match rd16 r1 with
    | none => .err
    | some (vlen, r2) =>
      match (if vlen > 0 then takeN vlen r2 else some ([], r2)) with
      | none => .err
      | some (view, r3) =>
        match rd16 r3 with
        | none => .err
        | some (cnt, r4) => .ok ⟨coll, view, cnt, r4⟩

/-- one turn of `while pes.remaining() > 0 { PeerEntry::parse(&mut pes).unwrap() … }`
(src/mrt.rs:501) -/
def peerNext (bs : Bytes) : Outcome (Option (PeerEntry × Bytes)) :=
  if bs.isEmpty then .ok none
  else
    match PeerEntry.parse bs with
    | .ok (p, r) => .ok (some (p, r))
    | _ => .panic

/-- mirrors src/mrt.rs:487 `MrtFile::extract_peer_index_table`; returns the
index and the bytes after the first record.  `assert_eq!(len, peer_count)` is
a panic when the count field disagrees with the entries present. -/
def extractPeerIndexTable (bs : Bytes) : Outcome (List PeerEntry × Bytes) :=
  match CommonHeader.parse bs with
  | .err => .err
  | .panic => .panic
  | .ok (m, rest) =>
    if m.msgType = 13 then
      if m.subtype = 1 then
        match PeerIndexTable.parse m.message with
        | .err => .err
        | .panic => .panic
        | .ok pit =>
          match drain peerNext (pit.peerEntries.length + 1) pit.peerEntries with
          | .ok peers => if peers.length = pit.peerCount then .ok (peers, rest) else .panic
          | .err => .err
          | .panic => .panic
      else .err
    else .err

/-- mirrors src/mrt.rs:457 `MrtFile::pi` -/
def peerIndex (bs : Bytes) : Outcome (List PeerEntry) :=
  match extractPeerIndexTable bs with
  | .ok (ps, _) => .ok ps
  | .err => .err
  | .panic => .panic

/-! ### RIB entry header, RIB entries -/

/-- `inetnum::addr::Prefix` as produced by `parse_v4_prefix`/`parse_v6_prefix`:
family, length, and the ⌈len/8⌉ octets read from the wire (all further octets
of the address are zero). -/
structure Prefix where
  v6 : Bool
  len : Nat
  bytes : Bytes
  deriving Repr, DecidableEq

/-- `Bits::is_host_zero(len)` for an address whose octets beyond `b` are
zero: the bits of the last octet read beyond the prefix length must be zero. -/
def hostZero (bits : Nat) (b : Bytes) : Bool :=
  bits % 8 == 0 ||
    (match b.getLast? with
     | some x => x.toNat % 2 ^ (8 - bits % 8) == 0
     | none => true)

/-- mirrors src/mrt.rs:378 `parse_prefix` → src/bgp/nlri/common.rs:69-118
`parse_v4_prefix` / `parse_v6_prefix` (+ `Prefix::new_v4/new_v6`). -/
def parsePrefix (v6 : Bool) (bs : Bytes) : Outcome (Prefix × Bytes) :=
  match rd8 bs with
  | none => .err
  | some (bits, r1) =>
    let nb := (bits + 7) / 8
    if nb > (if v6 then 16 else 4) then .err
    else
      match takeN nb r1 with
      | none => .err
      | some (b, r2) =>
        if bits > (if v6 then 128 else 32) then .err
        else if hostZero bits b then .ok (⟨v6, bits, b⟩, r2)
        else .err

/-- mirrors src/mrt.rs:281 `RibEntryHeader` -/
structure RibEntryHeader where
  seq : Nat
  pfx : Prefix
  entryCount : Nat
  entries : Bytes
  deriving Repr, DecidableEq

/-- mirrors src/mrt.rs:289 `RibEntryHeader::parse`; the rest of the record is
the `entries` sub-parser (`entry_count` is read but never used). -/
def RibEntryHeader.parse (v6 : Bool) (bs : Bytes) : Outcome RibEntryHeader :=
  match rd32 bs with
  | none => .err
  | some (seq, r1) =>
    match parsePrefix v6 r1 with
    | .err => .err
    | .panic => .panic
    | .ok (p, r2) =>
      match rd16 r2 with
      | none => .err
      | some (cnt, r3) => .ok ⟨seq, p, cnt, r3⟩

/-- mirrors src/mrt.rs:339 `RibEntry` -/
structure RibEntry where
  peerIdx : Nat
  origTime : Nat
  attrs : Bytes
  deriving Repr, DecidableEq

/-- mirrors src/mrt.rs:346 `RibEntry::parse` -/
def RibEntry.parse (bs : Bytes) : Outcome (RibEntry × Bytes) :=
  match rd16 bs with
  | none => .err
  | some (idx, r1) =>
    match rd32 r1 with
    | none => .err
    | some (ot, r2) =>
      match rd16 r2 with
      | none => .err
      | some (alen, r3) =>
        match takeN alen r3 with
        | none => .err
        | some (attrs, r4) => .ok (⟨idx, ot, attrs⟩, r4)

/-! ### TableDumpIterator / SingleEntryIterator -/

/-- mirrors src/mrt.rs:922 `TableDumpIterator::next`.  State: the bytes left.
Item: (is-IPv6, header).  `unwrap` on the header and on the RIB entry header,
`todo!()` for every TABLE_DUMP_V2 subtype other than 2 and 4, `None` for a
BGP4MP record. -/
def tableNext (bs : Bytes) : Outcome (Option ((Bool × RibEntryHeader) × Bytes)) :=
  if bs.isEmpty then .ok none
  else
    match CommonHeader.parse bs with
    | .ok (m, rest) =>
      if m.msgType = 13 then
        if m.subtype = 2 then
          match RibEntryHeader.parse false m.message with
          | .ok reh => .ok (some ((false, reh), rest))
          | _ => .panic
        else if m.subtype = 4 then
          match RibEntryHeader.parse true m.message with
          | .ok reh => .ok (some ((true, reh), rest))
          | _ => .panic
        else .panic
      else .ok none
    | _ => .panic

/-- mirrors src/mrt.rs:479 `MrtFile::tables` (+ exhausting the iterator):
the peer index and the (family, header) items. -/
def tables (bs : Bytes) : Outcome (List PeerEntry × List (Bool × RibEntryHeader)) :=
  match extractPeerIndexTable bs with
  | .err => .err
  | .panic => .panic
  | .ok (peers, rest) =>
    match drain tableNext (rest.length + 1) rest with
    | .ok ts => .ok (peers, ts)
    | .err => .err
    | .panic => .panic

/-- item of `SingleEntryIterator`: (prefix, peer index, raw attributes) -/
abbrev SingleItem := Prefix × Nat × Bytes

/-- mirrors src/mrt.rs:971 `SingleEntryIterator::next`; state = entries left -/
def singleNext (p : Prefix) (bs : Bytes) : Outcome (Option (SingleItem × Bytes)) :=
  if bs.isEmpty then .ok none
  else
    match RibEntry.parse bs with
    | .ok (re, r) => .ok (some ((p, re.peerIdx, re.attrs), r))
    | _ => .panic

/-- `SingleEntryIterator::new(reh)` driven to exhaustion -/
def single (reh : RibEntryHeader) : Outcome (List SingleItem) :=
  drain (singleNext reh.pfx) (reh.entries.length + 1) reh.entries

/-- `.map(SingleEntryIterator::new).flat_map_iter(..)` over a list of tables
taken in the given order: what one schedule of `rib_entries_mt` delivers when
the tables reach the workers in the order `ts`. -/
def mtRun : List (Bool × RibEntryHeader) → Outcome (List SingleItem)
  | [] => .ok []
  | t :: ts =>
    match single t.2 with
    | .ok es =>
      match mtRun ts with
      | .ok r => .ok (es ++ r)
      | .err => .err
      | .panic => .panic
    | .err => .err
    | .panic => .panic

/-- mirrors src/mrt.rs:462 `MrtFile::rib_entries_mt` for the schedule that
takes the tables in file order (the peer index table is `unwrap`ped).  rayon's
`par_bridge` hands the tables of `TableDumpIterator` (fused) to the workers in
*some* order; see `Rc.Thm.C16.mt_multiset` for the schedule-independent
statement. -/
def ribEntriesMtSeq (bs : Bytes) : Outcome (List SingleItem) :=
  match tables bs with
  | .ok (_, ts) => mtRun ts
  | _ => .panic

/-! ### RibEntryIterator (sequential, with the table hand-over) -/

/-- item of `RibEntryIterator`: (is-IPv6, peer index, peer, prefix, attributes) -/
abbrev RibItem := Bool × Nat × PeerEntry × Prefix × Bytes

/-- mirrors src/mrt.rs:988 `RibEntryIterator` (the peer index is a parameter) -/
structure RibIt where
  rest : Bytes
  cur : Option RibEntryHeader
  fam : Option Bool
  deriving Repr, DecidableEq

/-- first half of src/mrt.rs:1012 `RibEntryIterator::next`: when no table is
current, read the next record.  `.ok none` = `return None`. -/
def ribLoad (s : RibIt) : Outcome (Option RibIt) :=
  match s.cur with
  | some _ => .ok (some s)
  | none =>
    if s.rest.isEmpty then .ok none
    else
      match CommonHeader.parse s.rest with
      | .ok (m, rest) =>
        if m.msgType = 13 then
          if m.subtype = 2 then
            match RibEntryHeader.parse false m.message with
            | .ok reh => .ok (some ⟨rest, some reh, some false⟩)
            | _ => .panic
          else if m.subtype = 4 then
            match RibEntryHeader.parse true m.message with
            | .ok reh => .ok (some ⟨rest, some reh, some true⟩)
            | _ => .panic
          else .panic
        else .ok (some ⟨rest, s.cur, s.fam⟩)
      | _ => .panic

/-- second half of `RibEntryIterator::next`: `current_table.take().unwrap()`,
`RibEntry::parse(..).unwrap()`, `peer_index.get(..).unwrap()`, put the table
back iff entries remain, `current_afisafi.unwrap()`. -/
def ribTake (peers : List PeerEntry) (s : RibIt) : Outcome (Option (RibItem × RibIt)) :=
  match s.cur with
  | none => .panic
  | some table =>
    match RibEntry.parse table.entries with
    | .ok (re, r) =>
      match peers[re.peerIdx]? with
      | none => .panic
      | some peer =>
        match s.fam with
        | none => .panic
        | some fam =>
          let cur' := if r.isEmpty then none else some { table with entries := r }
          .ok (some ((fam, re.peerIdx, peer, table.pfx, re.attrs), ⟨s.rest, cur', s.fam⟩))
    | _ => .panic

/-- `RibEntryIterator::next` (after the repair of F34: a table without
entries is passed over): `loop { load the next record unless a table is
current; table = current_table.take().unwrap(); if it has entries, break }`,
then the second half.  Every turn of the loop after the first reads a record
header (at least 12 octets), so `rest.length + 2` turns suffice; `fuel`
exhausted = `.panic` (unreachable with that fuel). -/
def ribNextF (peers : List PeerEntry) : Nat → RibIt → Outcome (Option (RibItem × RibIt))
  | 0, _ => .panic
  | f + 1, s =>
    match ribLoad s with
    | .ok none => .ok none
    | .ok (some s') =>
      match s'.cur with
      | none => .panic
      | some table =>
        if table.entries.isEmpty then ribNextF peers f ⟨s'.rest, none, s'.fam⟩
        else ribTake peers s'
    | .err => .err
    | .panic => .panic

def ribNext (peers : List PeerEntry) (s : RibIt) : Outcome (Option (RibItem × RibIt)) :=
  ribNextF peers (s.rest.length + 2) s

/-- mirrors src/mrt.rs:444 `MrtFile::rib_entries` driven to exhaustion -/
def ribEntries (bs : Bytes) : Outcome (List RibItem) :=
  match extractPeerIndexTable bs with
  | .err => .err
  | .panic => .panic
  | .ok (peers, rest) => drain (ribNext peers) (rest.length + 1) ⟨rest, none, none⟩

/-! ### BGP4MP: UpdateIterator -/

/-- mirrors src/mrt.rs:527 `Bgp4Mp`: `StateChange`/`StateChangeAs4`
(`as4 = false/true`) and `Message`/`MessageAs4`. -/
inductive Bgp4Mp where
  | stateChange (as4 : Bool) (peerAs localAs ifc : Nat) (v6 : Bool) (peer loc : Bytes)
      (oldState newState : Nat)
  | message (as4 : Bool) (peerAs localAs ifc : Nat) (v6 : Bool) (peer loc : Bytes) (bgp : Bytes)
  deriving Repr, DecidableEq

/-- the part the four `parse` functions (src/mrt.rs:572, 635, 712, 762) have in
common: two AS numbers (2 or 4 octets), interface index, AFI, two addresses.
An AFI other than 1/2 is a form error. -/
def parsePeering (as4 : Bool) (bs : Bytes) :
    Outcome ((Nat × Nat × Nat × Bool × Bytes × Bytes) × Bytes) :=
  match (if as4 then rd32 bs else rd16 bs) with
  | none => .err
  | some (pa, r1) =>
    match (if as4 then rd32 r1 else rd16 r1) with
    | none => .err
    | some (la, r2) =>
      match rd16 r2 with
      | none => .err
      | some (ifc, r3) =>
        match rd16 r3 with
        | none => .err
        | some (afi, r4) =>
          if afi = 1 ∨ afi = 2 then
            let n := if afi = 1 then 4 else 16
            match takeN n r4 with
            | none => .err
            | some (pa', r5) =>
              match takeN n r5 with
              | none => .err
              | some (la', r6) => .ok ((pa, la, ifc, decide (afi = 2), pa', la'), r6)
          else .err

/-- `StateChange::parse` / `StateChangeAs4::parse` -/
def parseStateChange (as4 : Bool) (bs : Bytes) : Outcome Bgp4Mp :=
  match parsePeering as4 bs with
  | .err => .err
  | .panic => .panic
  | .ok ((pa, la, ifc, v6, p, l), r) =>
    match rd16 r with
    | none => .err
    | some (o, r') =>
      match rd16 r' with
      | none => .err
      | some (n, _) => .ok (.stateChange as4 pa la ifc v6 p l o n)

/-- `Message::parse` / `MessageAs4::parse`: the rest of the record is the BGP
message. -/
def parseMessage (as4 : Bool) (bs : Bytes) : Outcome Bgp4Mp :=
  match parsePeering as4 bs with
  | .err => .err
  | .panic => .panic
  | .ok ((pa, la, ifc, v6, p, l), r) => .ok (.message as4 pa la ifc v6 p l r)

/-- the `match subtype` of src/mrt.rs:867: subtypes 0, 1, 4, 5 are parsed,
everything else (`MessageLocal`, `MessageAs4Local`, `Unimplemented`) is
`todo!()`. -/
def parseBody (subtype : Nat) (msg : Bytes) : Outcome Bgp4Mp :=
  if subtype = 0 then parseStateChange false msg
  else if subtype = 1 then parseMessage false msg
  else if subtype = 4 then parseMessage true msg
  else if subtype = 5 then parseStateChange true msg
  else .panic

/-- mirrors src/mrt.rs:836 `UpdateIterator::next`: the item (if any) **and the
parser state afterwards**.  State: the bytes left; the fuel bounds the `loop`
(one turn per record skipped).  A header error ends the iteration and – since
the repair `fix: UpdateIterator really fuses` – moves the parser to its end
(`advance_to_end`), so that the iterator stays ended; a TABLE_DUMP_V2 record
and a record whose body does not parse are skipped (`continue`). -/
def msgPoll : Nat → Bytes → Outcome (Option Bgp4Mp × Bytes)
  | 0, _ => .panic
  | fuel + 1, bs =>
    if bs.isEmpty then .ok (none, bs)
    else
      match CommonHeader.parse bs with
      | .panic => .panic
      | .err => .ok (none, [])
      | .ok (m, rest) =>
        if m.msgType = 16 ∨ m.msgType = 17 then
          match parseBody m.subtype m.message with
          | .panic => .panic
          | .err => msgPoll fuel rest
          | .ok item => .ok (some item, rest)
        else msgPoll fuel rest

/-- call `next` until the first `None` (what `for m in file.messages()` does):
the items, and the parser state at that point -/
def msgsRun : Nat → Bytes → Outcome (List Bgp4Mp × Bytes)
  | 0, _ => .panic
  | n + 1, s =>
    match msgPoll (s.length + 1) s with
    | .ok (none, s') => .ok ([], s')
    | .ok (some a, s') =>
      match msgsRun n s' with
      | .ok (as, e) => .ok (a :: as, e)
      | .err => .err
      | .panic => .panic
    | .err => .err
    | .panic => .panic

/-- mirrors src/mrt.rs:518 `MrtFile::messages` driven to exhaustion -/
def messages (bs : Bytes) : Outcome (List Bgp4Mp) :=
  match msgsRun (bs.length + 1) bs with
  | .ok (l, _) => .ok l
  | .err => .err
  | .panic => .panic

/-! ## Reference encoder (RFC 6396) -/

/-- MRT common header + body, non-ET types -/
def encRecord (ts ty sub : Nat) (body : Bytes) : Bytes :=
  be32 ts ++ (be16 ty ++ (be16 sub ++ (be32 body.length ++ body)))

/-- BGP4MP_ET: the length field covers the microsecond field -/
def encRecordEt (ts sub mus : Nat) (body : Bytes) : Bytes :=
  be32 ts ++ (be16 17 ++ (be16 sub ++ (be32 (body.length + 4) ++ (be32 mus ++ body))))

structure PeerSpec where
  bgpId : Nat
  addr : Bytes
  asn : Nat
  as4 : Bool
  deriving Repr, DecidableEq

def PeerSpec.entry (p : PeerSpec) : PeerEntry := ⟨p.bgpId, p.addr, p.asn⟩

def encPeer (p : PeerSpec) : Bytes :=
  UInt8.ofNat ((if p.addr.length = 16 then 1 else 0) + (if p.as4 then 2 else 0)) ::
    (be32 p.bgpId ++ (p.addr ++ (if p.as4 then be32 p.asn else be16 p.asn)))

structure EntrySpec where
  peerIdx : Nat
  origTime : Nat
  attrs : Bytes
  deriving Repr, DecidableEq

def encEntry (e : EntrySpec) : Bytes :=
  be16 e.peerIdx ++ (be32 e.origTime ++ (be16 e.attrs.length ++ e.attrs))

structure TableSpec where
  ts : Nat
  seq : Nat
  v6 : Bool
  plen : Nat
  pbytes : Bytes
  entries : List EntrySpec
  deriving Repr, DecidableEq

def TableSpec.pfx (t : TableSpec) : Prefix := ⟨t.v6, t.plen, t.pbytes⟩

def encEntries (es : List EntrySpec) : Bytes := es.flatMap encEntry

def encTableBody (t : TableSpec) : Bytes :=
  be32 t.seq ++ (UInt8.ofNat t.plen :: (t.pbytes ++ (be16 t.entries.length ++ encEntries t.entries)))

def encTable (t : TableSpec) : Bytes :=
  encRecord t.ts 13 (if t.v6 then 4 else 2) (encTableBody t)

structure FileSpec where
  ts : Nat
  collector : Nat
  view : Bytes
  peers : List PeerSpec
  tables : List TableSpec
  deriving Repr, DecidableEq

def encPeerTableBody (f : FileSpec) : Bytes :=
  be32 f.collector ++ (be16 f.view.length ++ (f.view ++ (be16 f.peers.length ++ f.peers.flatMap encPeer)))

def encTables (ts : List TableSpec) : Bytes := ts.flatMap encTable

/-- a TABLE_DUMP_V2 file: PEER_INDEX_TABLE, then one record per RIB table -/
def encFile (f : FileSpec) : Bytes :=
  encRecord f.ts 13 1 (encPeerTableBody f) ++ encTables f.tables

/-- a BGP4MP / BGP4MP_ET record -/
structure RecSpec where
  ts : Nat
  et : Bool
  mus : Nat
  body : Bgp4Mp
  deriving Repr, DecidableEq

def encAs (as4 : Bool) (n : Nat) : Bytes := if as4 then be32 n else be16 n

def encPeering (as4 : Bool) (pa la ifc : Nat) (v6 : Bool) (p l : Bytes) : Bytes :=
  encAs as4 pa ++ (encAs as4 la ++ (be16 ifc ++ (be16 (if v6 then 2 else 1) ++ (p ++ l))))

def encBody : Bgp4Mp → Bytes
  | .stateChange as4 pa la ifc v6 p l o n => encPeering as4 pa la ifc v6 p l ++ (be16 o ++ be16 n)
  | .message as4 pa la ifc v6 p l bgp => encPeering as4 pa la ifc v6 p l ++ bgp

def subtypeOf : Bgp4Mp → Nat
  | .stateChange false .. => 0
  | .message false .. => 1
  | .message true .. => 4
  | .stateChange true .. => 5

def encRec (r : RecSpec) : Bytes :=
  if r.et then encRecordEt r.ts (subtypeOf r.body) r.mus (encBody r.body)
  else encRecord r.ts 16 (subtypeOf r.body) (encBody r.body)

def encRecs (rs : List RecSpec) : Bytes := rs.flatMap encRec

end Rc.Mrt
