/-
C09, concrete instantiation of the per-type decoders.

`Rc/Model/Framing.lean` treats "the four per-type decoders and the accessors the FSM calls on
what they return" as ONE abstract function `body : Bytes → Outcome WireMsg`.  This file defines
the real one, composed from the models the other properties own:

* `msgFromOctets`  mirrors src/bgp/message/mod.rs:96 `Message::from_octets(octets, Some(config))`
  as `Connection::parse_frame` calls it (`BgpMsg::from_octets(b, Some(&self.session_config))`):
  `Header::parse` (= `Rc.Open.headerParse`), dispatch on the type octet to
    - `OpenMessage::from_octets`          = `Rc.Open.fromOctets`        (C03)
    - `UpdateMessage::from_octets(_, cfg)` = `Rc.Upd.parseUpdate cfg`    (C01 / C02)
    - `NotificationMessage::from_octets`  = `Rc.Notif.fromOctets`       (C03)
    - `KeepaliveMessage::from_octets`     = `Rc.Notif.kaFromOctets`     (C03)
    - `RouteRefreshMessage::from_octets`  = `Rc.Notif.rrFromOctets`     (C03; since the repair of K13)
  unknown types are `Err(ParseError::Unsupported)`.
* `toWire`  mirrors what `Session::handle_msg` (src/bgp/fsm/session.rs:485) and the
  `handle_event` arms `(Connect | Active, BgpOpenWithDelayOpenTimerRunning)` /
  `(OpenSent, BgpOpen)` (session.rs:930, 1245) read off the decoded message before they act:
  `my_asn`, `remote_asn_allowed`, `addpath_families_vec`, `holdtime`,
  `identifier()[0..4].try_into().unwrap()`, `my_asn` again, `four_octet_capable`; for a
  NOTIFICATION `details()`.  The result is the `WireMsg` the framing / FSM model consumes.
  Arms that read nothing of the OPEN (Idle, OpenConfirm, Established …) call fewer accessors;
  modelling all of them for every state only makes "never panics" a stronger statement.
* `sessionBody`  is their composition: the concrete `body`.

Core Lean only (the driver links this file).
-/
import Rc.Model.Framing
import Rc.Model.Open
import Rc.Model.Notif
import Rc.Model.Update

namespace Rc.SessionDecode
open Rc Rc.Framing

/-- `bgp::message::Message<Bytes>` as `from_octets` returns it -/
inductive BgpMsg where
  | open (m : Bytes)
  | update (m : Upd.Msg)
  | notification (m : Bytes)
  | keepalive (m : Bytes)
  | routeRefresh (m : Notif.RouteRefresh)

/-- mirrors src/bgp/message/mod.rs:96 `Message::from_octets(octets, Some(config))` -/
def msgFromOctets (cfg : Upd.Cfg) (bs : Bytes) : Outcome BgpMsg :=
  match Open.headerParse bs with                   -- `Header::parse(&mut parser)?; parser.seek(0)?`
  | none => .err
  | some (_, t, _) =>
    match t.toNat with
    | 1 => match Open.fromOctets bs with
           | .ok m => .ok (.open m) | .err => .err | .panic => .panic
    | 2 => match Upd.parseUpdate cfg bs with        -- `config` is `Some(..)` on this path
           | .ok m => .ok (.update m) | .err => .err | .panic => .panic
    | 3 => match Notif.fromOctets bs with
           | .ok m => .ok (.notification m) | .err => .err | .panic => .panic
    | 4 => match Notif.kaFromOctets bs with
           | .ok m => .ok (.keepalive m) | .err => .err | .panic => .panic
    | 5 => match Notif.rrFromOctets bs with
           | .ok m => .ok (.routeRefresh m) | .err => .err | .panic => .panic
    | _ => .err                                    -- Unimplemented(t): Unsupported

/-- what the session has been configured with, as far as decoding is concerned -/
structure SessCfg where
  /-- `Connection::session_config` -/
  cfg : Upd.Cfg
  /-- `BgpConfig::remote_asn_allowed` (`BasicConfig`: equality with the configured remote AS) -/
  asnAllowed : Nat → Bool

/-- the values the OPEN-accepting arms copy into `NegotiatedConfig` / `SessionConfig` -/
structure OpenFacts where
  asn : Nat
  addpath : List (Nat × Nat × Nat)
  hold : Nat
  id : Bytes
  four : Bool
  deriving DecidableEq, Repr

/-- `open_msg.identifier()[0..4].try_into().unwrap()` -/
def idArray (m : Bytes) : Outcome Bytes :=
  match Open.identifier m with
  | .ok i =>
    match Open.slice i 0 4 with
    | .ok a => if a.length = 4 then .ok a else .panic
    | .err => .err
    | .panic => .panic
  | .err => .err
  | .panic => .panic

/-- the accessor calls of session.rs:943-995 (and 1259-1319) in source order, after the AS check
passed.  `.err` = `addpath_families_vec()` returned `Err` (the other four accessors return plain
values: their models have no `.err` result, the `.err` branches below are unreachable and only
keep the definition a plain propagation). -/
def openFacts (m : Bytes) (asn : Nat) : Outcome OpenFacts :=
  match Open.addpathFamiliesVec m with             -- `let Ok(received_addpaths) = … else { … }`
  | .err => .err
  | .panic => .panic
  | .ok ap =>
    match Open.holdtime m with                     -- `min(open_msg.holdtime(), self.hold_time())`
    | .err => .err
    | .panic => .panic
    | .ok h =>
      match idArray m with                         -- `remote_bgp_id: open_msg.identifier()[0..4]…`
      | .err => .err
      | .panic => .panic
      | .ok i =>
        match Open.myAsn m with                    -- `remote_asn: open_msg.my_asn()`
        | .err => .err
        | .panic => .panic
        | .ok _ =>
          match Open.fourOctetCapable m with       -- `FourOctetAsns(open_msg.four_octet_capable())`
          | .err => .err
          | .panic => .panic
          | .ok f => .ok ⟨asn, ap, h, i, f⟩

/-- mirrors `Session::handle_msg` + the accessor calls of the arms it reaches: the decoded
message as the FSM model sees it -/
def toWire (allowed : Nat → Bool) : BgpMsg → Outcome WireMsg
  | .open m =>
    match Open.myAsn m with                        -- `debug!("got OPEN from {}", m.my_asn())`, `remote_asn_allowed(open_msg.my_asn())`
    | .ok asn =>
      if !allowed asn then .ok (.open false true)  -- BadPeerAs: returns before the ADD-PATH capability is read
      else
        match openFacts m asn with
        | .ok _ => .ok (.open true true)
        | .err => .ok (.open true false)           -- "malformed ADD-PATH capability in OPEN"
        | .panic => .panic
    | .err => .err
    | .panic => .panic
  | .update _ => .ok .update                       -- forwarded (or not) as it is; nothing is read
  | .notification m =>
    match Notif.detailsRaw m with                  -- `m.details()`: `octets[COFF+1]`, `code()`
    | .ok (c, s) => .ok (.notification (c.toNat == 2 && s.toNat == 1))   -- OpenMessageError(UnsupportedVersionNumber)
    | .err => .err
    | .panic => .panic
  | .keepalive _ => .ok .keepalive
  | .routeRefresh _ => .ok .routeRefresh           -- "got ROUTEREFRESH, not doing anything": nothing is read

/-- the concrete `body` of `Rc.Framing.decodeMsg` / `tickMsg` / `sessionRun` -/
def sessionBody (sc : SessCfg) (f : Bytes) : Outcome WireMsg :=
  match msgFromOctets sc.cfg f with
  | .ok m => toWire sc.asnAllowed m
  | .err => .err
  | .panic => .panic

/-- `SessionConfig::modern()`: four-octet ASNs, no ADD-PATH -/
def modern : Upd.Cfg := ⟨true, []⟩

/-! ### a session whose configuration changes between frames

`Connection::session_config` is rewritten by the OPEN-accepting arms (`set_four_octet_asns`,
`add_famdir`), so the decoder of a later frame is not the decoder of an earlier one.
`sessionRunV` is `Rc.Framing.sessionRun` with the decoder a function of the number of ticks
still to go – an arbitrary schedule of decoders. -/

def sessionRunV (bodyAt : Nat → Bytes → Outcome WireMsg) : Nat → Sess → Bytes → List Tick × Sess
  | 0, s, _ => ([], s)
  | n + 1, s, buf =>
    match tickMsg (bodyAt n) s buf with
    | .handled true s' outs rest =>
      if s'.conn then
        let r := sessionRunV bodyAt n s' rest
        (.handled true s' outs rest :: r.1, r.2)
      else ([.handled true s' outs rest], s')
    | .handled false s' outs rest => ([.handled false s' outs rest], s')
    | .readErr => ([.readErr], { s with st := .connect, conn := false })
    | .eof => ([.eof], { s with st := .connect, conn := false })
    | .panic => ([.panic], s)

end Rc.SessionDecode
