/-
The builder model of Rc/Model/Builder.lean with its abstract parts made
concrete: the NLRI type parameter `A` of `UpdateBuilder<Target, A>` is one of
the 26 NLRI types of afisafi.rs (a family of Rc/Model/Nlri.lean, with or
without path ids: the codecs property C05 is about), the next hop has address
octets, the other path attributes are a sequence of TLVs (flags, type, value:
`Rc.Upd.RawAttr`, what C04's composers write).  With these `wireImage` is a
function into octets that the driver runs (Rc/Drv/C06.lean) and that
Rc/Lemmas/BuilderWire.lean proves to be the reference encoder of C01
(`Rc.Upd.frame` / `encUpdate`) on the content `contentOf`.

Core Lean only (the driver links this file).
-/
import Rc.Model.Builder
import Rc.Model.UpdateEnc

namespace Rc.Builder
open Rc Rc.Nlri

/-- a value of the NLRI type `A`: the NLRI of family `f`, with its path id for
the `...AddpathNlri` types (`ap = true`; the plain types have no path id, the
first component is not looked at) -/
abbrev NV (f : Fam) := Nat × f.Val

/-- `NlriCompose::compose_len` of the NLRI type (`f`, `ap`) -/
def nlriSz (f : Fam) (ap : Bool) (x : NV f) : Nat :=
  if ap then (codecAp f).clen x else (codec f).clen x.2

/-- the octets written, nothing for a composer that failed -/
def okOr (o : Outcome Bytes) : Bytes :=
  match o with
  | .ok b => b
  | _ => []

/-- `NlriCompose::compose` of the NLRI type (`f`, `ap`).  A composer that fails
writes nothing here; for well-formed values (`Rc.Upd.NlrisWf`, C05's `wf`) it
does not fail. -/
def nlriEnc (f : Fam) (ap : Bool) (x : NV f) : Bytes :=
  okOr (if ap then (codecAp f).enc x else (codec f).enc x.2)

/-- `A::afi_safi().as_bytes()`: AFI (two octets), SAFI -/
def afiSafiBytes (f : Fam) : Bytes := be16 (Upd.famCode f).1 ++ [UInt8.ofNat (Upd.famCode f).2]

/-- the `Wire` of NLRI type (`f`, `ap`); `nhb nh` = the address octets
`NextHop::compose` writes after the length octet (update_builder.rs:1078) -/
def wireOf (f : Fam) (ap : Bool) (nhb : NextHop → Bytes) : Wire (NV f) where
  enc := nlriEnc f ap
  encNh nh := UInt8.ofNat (nhb nh).length :: nhb nh
  afisafi := afiSafiBytes f

/-- flags octet `Attribute::compose_header` writes for the MP attributes
(optional, non-transitive; EXTENDED_LEN when the value is longer than 255) -/
def mpFlags (valueLen : Nat) : UInt8 := if valueLen > 255 then 0x80 ||| 0x10 else 0x80

/-- the MP_REACH_NLRI attribute of a message as a TLV -/
def reachAttr (f : Fam) (ap : Bool) (nhb : NextHop → Bytes) (l : List (NV f)) (nh : NextHop) : Upd.RawAttr :=
  { fl := mpFlags (reachValue (wireOf f ap nhb) l nh).length, tc := 14, v := reachValue (wireOf f ap nhb) l nh }

/-- the MP_UNREACH_NLRI attribute of a message as a TLV -/
def unreachAttr (f : Fam) (ap : Bool) (nhb : NextHop → Bytes) (l : List (NV f)) : Upd.RawAttr :=
  { fl := mpFlags (unreachValue (wireOf f ap nhb) l).length, tc := 15, v := unreachValue (wireOf f ap nhb) l }

/-- the attribute sequence of a message in the order `finish` writes it
(update_builder.rs:705-716): MP_REACH_NLRI, MP_UNREACH_NLRI, the attribute map -/
def rawAttrs (f : Fam) (ap : Bool) (nhb : NextHop → Bytes) (others : List Upd.RawAttr) (m : Msg (NV f)) :
    List Upd.RawAttr :=
  (match m.ann with
   | some (l, nh) => [reachAttr f ap nhb l nh]
   | none => [])
  ++ (match m.wd with
      | some l => [unreachAttr f ap nhb l]
      | none => [])
  ++ others

/-- what a message says, as the abstract UPDATE content of C01's reference
encoder: no conventional withdrawals, the attribute sequence, no conventional
announcements -/
def contentOf (f : Fam) (ap : Bool) (nhb : NextHop → Bytes) (others : List Upd.RawAttr) (m : Msg (NV f)) :
    Upd.Content :=
  { wd := [], attrs := rawAttrs f ap nhb others m, ann := [] }

/-- the octets of a message of a builder for NLRI type (`f`, `ap`) whose
attribute map composes to the TLVs `others` -/
def wireBytes (f : Fam) (ap : Bool) (nhb : NextHop → Bytes) (others : List Upd.RawAttr) (m : Msg (NV f)) : Bytes :=
  wireImage (nlriSz f ap) (wireOf f ap nhb) (Upd.encRaws others) m

/-- the attribute TLVs a produced message carries: the builder's, or none
(withdrawals that were split off are sent without attributes: `take_message`,
scenario 2, builds that PDU from an empty attribute map) -/
def msgOthers {f : Fam} (others : List Upd.RawAttr) (m : Msg (NV f)) : List Upd.RawAttr :=
  if m.attrs.isEmpty then [] else others

end Rc.Builder
