/-
Executable model of src/bgp/message/update.rs as coded (after the repairs F1,
F2, F3, F22, F22b and the `length()` repair listed in known_findings.jsonl):
`Header::parse`, `UpdateMessage::parse` / `from_octets`, `SessionConfig`,
`PduParseInfo::from_session_config`, and every accessor named in the
`observe_at` list of properties C01 / C02.

Reused, not re-modelled: the NLRI codecs (`Rc.Nlri.codec` / `codecAp`), the
attribute TLV walk and per-type `validate` / `to_owned` (`Rc.Attr`), the AS
path reader (`Rc.AsPath`).

Style: decoders over "remaining bytes".  Every Rust `[]` index, slice,
`unwrap`, `expect` in the modelled path is an operation that can return
`.panic`; `.err` is any `Err(ParseError)`.  Core Lean only (the driver links
this file).
-/
import Rc.Model.Nlri
import Rc.Model.Attr

namespace Rc.Upd
open Rc Rc.Nlri Rc.Attr

/-! ### session configuration (update.rs:1053-1298) -/

/-- `AddpathDirection` -/
inductive Dir where
  | receive | send | both
  deriving DecidableEq, Repr

/-- mirrors update.rs:1053 `SessionConfig`: the ASN width and the map
`AfiSafiType → AddpathDirection` as the list of `add_addpath` calls in the
order they were made (a `HashMap::insert`: the last call for a key wins).
Keys are (AFI, SAFI) pairs; `AfiSafiType::from((u16, u8))` is injective. -/
structure Cfg where
  four : Bool
  addpath : List ((Nat × Nat) × Dir)
  deriving Repr

/-- mirrors update.rs:1269 `get_addpath` -/
def Cfg.get (c : Cfg) (k : Nat × Nat) : Option Dir :=
  (c.addpath.reverse.find? (fun e => e.1 == k)).map (·.2)

/-- mirrors update.rs:1274 `rx_addpath` -/
def Cfg.rx (c : Cfg) (k : Nat × Nat) : Bool :=
  match c.get k with
  | some .receive => true
  | some .both => true
  | _ => false

/-- the (AFI, SAFI) code points of the 13 families (afisafi.rs:609-632) -/
def famCode : Fam → Nat × Nat
  | .v4u => (1, 1) | .v4m => (1, 2) | .v4mpls => (1, 4) | .v4vpn => (1, 128)
  | .v4rt => (1, 132) | .v4fs => (1, 133)
  | .v6u => (2, 1) | .v6m => (2, 2) | .v6mpls => (2, 4) | .v6vpn => (2, 128) | .v6fs => (2, 133)
  | .vpls => (25, 65) | .evpn => (25, 70)

/-- `AfiSafiType::from((afi, safi))`: `none` = `Unsupported(afi, safi)` -/
def famOf (k : Nat × Nat) : Option Fam :=
  if k = (1, 1) then some .v4u else if k = (1, 2) then some .v4m else if k = (1, 4) then some .v4mpls
  else if k = (1, 128) then some .v4vpn else if k = (1, 132) then some .v4rt
  else if k = (1, 133) then some .v4fs
  else if k = (2, 1) then some .v6u else if k = (2, 2) then some .v6m else if k = (2, 4) then some .v6mpls
  else if k = (2, 128) then some .v6vpn else if k = (2, 133) then some .v6fs
  else if k = (25, 65) then some .vpls else if k = (25, 70) then some .evpn
  else none

/-- mirrors update.rs:1067 `PduParseInfo` -/
structure Ppi where
  four : Bool
  conv : Bool
  mpReach : Bool
  mpUnreach : Bool
  deriving DecidableEq, Repr

/-- mirrors update.rs:1090 `PduParseInfo::from_session_config` -/
def Ppi.ofCfg (c : Cfg) (reach unreach : Option (Nat × Nat)) : Ppi where
  four := c.four
  conv := c.rx (1, 1)
  mpReach := match reach with | some k => c.rx k | none => false
  mpUnreach := match unreach with | some k => c.rx k | none => false

/-! ### iterators: `next` plus bounded collection -/

/-- Run an iterator `next` at most `fuel` times.  The flag is `true` when the
iterator ended (`None`) within the fuel, `false` = it would still go on (a
hang as far as the observer is concerned). -/
def collect {σ ι : Type} (next : σ → Option (ι × σ)) : Nat → σ → List ι × Bool
  | 0, s => ([], (next s).isNone)
  | f + 1, s =>
    match next s with
    | none => ([], true)
    | some (i, s') => (i :: (collect next f s').1, (collect next f s').2)

/-- mirrors afisafi.rs:1657 `NlriIter::next` (and `NlriEnumIter::next` for one
supported type) after the repair of F3: the state is the unread part of the
section; an `Err` item exhausts the parser. -/
def nlriNext {α : Type} (c : Codec α) (bs : Bytes) : Option (Outcome α × Bytes) :=
  match bs with
  | [] => none
  | _ :: _ =>
    match c.dec bs with
    | .ok (n, r) => some (.ok n, r)
    | .err => some (.err, [])
    | .panic => some (.panic, [])

/-- all items of an NLRI iterator over `bs` -/
def nlriItems {α : Type} (c : Codec α) (bs : Bytes) : List (Outcome α) × Bool :=
  collect (nlriNext c) (bs.length + 1) bs

/-- one NLRI of any family, as the `Nlri` enum holds it -/
inductive AnyNlri where
  | plain (f : Fam) (v : f.Val)
  | ap (f : Fam) (pid : Nat) (v : f.Val)

/-- `NlriType`: a family with or without ADD-PATH, or `Unsupported(afi, safi)` -/
inductive NlriTy where
  | known (f : Fam) (ap : Bool)
  | unsupported (afi safi : Nat)
  deriving DecidableEq, Repr

/-- `NlriType::from((AfiSafiType::from(k), ap))` (afisafi.rs:355) -/
def nlriTy (k : Nat × Nat) (ap : Bool) : NlriTy :=
  match famOf k with
  | some f => .known f ap
  | none => .unsupported k.1 k.2

/-- `NlriType::afi_safi` as its code points -/
def NlriTy.afiSafi : NlriTy → Nat × Nat
  | .known f _ => famCode f
  | .unsupported a s => (a, s)

def mapO {α β : Type} (f : α → β) : Outcome α → Outcome β
  | .ok a => .ok (f a)
  | .err => .err
  | .panic => .panic

/-- the items of an iterator over family `f`, wrapped into the `Nlri` enum -/
def famItems (f : Fam) (ap : Bool) (bs : Bytes) : List (Outcome AnyNlri) × Bool :=
  if ap then
    let r := nlriItems (codecAp f) bs
    (r.1.map (mapO fun x => AnyNlri.ap f x.1 x.2), r.2)
  else
    let r := nlriItems (codec f) bs
    (r.1.map (mapO (AnyNlri.plain f)), r.2)

/-- mirrors afisafi.rs:1693 `NlriEnumIter::next`, collected: an unsupported type
yields nothing -/
def enumItems (ty : NlriTy) (bs : Bytes) : List (Outcome AnyNlri) × Bool :=
  match ty with
  | .known f ap => famItems f ap bs
  | .unsupported _ _ => ([], true)

/-- mirrors afisafi.rs:1640 `NlriIter::validate` -/
def nlriValidate {α : Type} (c : Codec α) (bs : Bytes) : Outcome Unit :=
  match decAll c bs with
  | .ok (_, true) => .ok ()
  | .ok (_, false) => .err
  | .err => .err
  | .panic => .panic

/-- the conventional sections are IPv4 unicast, with or without path ids -/
def convValidate (ap : Bool) (bs : Bytes) : Outcome Unit :=
  if ap then nlriValidate (codecAp .v4u) bs else nlriValidate (codec .v4u) bs

/-! ### `UncheckedPathAttributes` and `EncodedPathAttribute` (path_attributes.rs:487-530, 1026-1054) -/

/-- mirrors path_attributes.rs:1038 `UncheckedPathAttributes::next`: the raw
attribute (header and value, what the `EncodedPathAttribute`'s parser spans)
and the rest; `none` = the iterator ends (also on a malformed header). -/
def uncheckedNext (bs : Bytes) : Option (Bytes × Bytes) :=
  match bs with
  | fl :: tc :: rest =>
    -- `seek(pos)`, `parse_parser(header_len + len)`: the header octets and `len` more
    if extBit fl then
      match rest with
      | a :: b :: r =>
        match takeN (a.toNat * 256 + b.toNat) r with
        | some (v, r') => some (fl :: tc :: a :: b :: v, r')
        | none => none
      | _ => none
    else
      match rest with
      | a :: r =>
        match takeN a.toNat r with
        | some (v, r') => some (fl :: tc :: a :: v, r')
        | none => none
      | [] => none
  | _ => none

/-- mirrors path_attributes.rs:503 `flags`: `peek_all()[0]` -/
def epaFlags (e : Bytes) : Outcome UInt8 :=
  match e with
  | f :: _ => .ok f
  | [] => .panic

/-- mirrors path_attributes.rs:507 `type_code`: `peek_all()[1]` -/
def epaCode (e : Bytes) : Outcome UInt8 :=
  match e with
  | _ :: c :: _ => .ok c
  | _ => .panic

/-- mirrors path_attributes.rs:511 `length`: `peek(4).unwrap()` / `peek_all()[2]` -/
def epaLength (e : Bytes) : Outcome Nat :=
  match epaFlags e with
  | .ok f =>
    if extBit f then
      match e with
      | _ :: _ :: a :: b :: _ => .ok (a.toNat * 256 + b.toNat)
      | _ => .panic
    else
      match e with
      | _ :: _ :: a :: _ => .ok a.toNat
      | _ => .panic
  | _ => .panic

/-- mirrors path_attributes.rs:520 `value_into_parser`: `advance(4).unwrap()` /
`advance(3).unwrap()` -/
def epaValue (e : Bytes) : Outcome Bytes :=
  match epaFlags e with
  | .ok f =>
    if extBit f then (if 4 ≤ e.length then .ok (e.drop 4) else .panic)
    else (if 3 ≤ e.length then .ok (e.drop 3) else .panic)
  | _ => .panic

/-- `unchecked_path_attributes().find(|pa| pa.type_code() == code)`; every
iteration consumes at least three bytes, the fuel is the section length. -/
def findUnchecked (code : Nat) : Nat → Bytes → Outcome (Option Bytes)
  | 0, _ => .ok none
  | f + 1, bs =>
    match uncheckedNext bs with
    | none => .ok none
    | some (e, r) =>
      match epaCode e with
      | .ok c => if c.toNat = code then .ok (some e) else findUnchecked code f r
      | _ => .panic

/-- AFI and SAFI at the head of an MP attribute value: `parse_u16_be()?`, `parse_u8()?` -/
def afiSafi (v : Bytes) : Option ((Nat × Nat) × Bytes) :=
  match rd16 v with
  | some (afi, r) =>
    match rd8 r with
    | some (safi, r') => some ((afi, safi), r')
    | none => none
  | none => none

/-- the second attribute loop of `UpdateMessage::parse` (update.rs:945-976):
the AFI/SAFI of MP_REACH_NLRI / MP_UNREACH_NLRI; each later attribute of the
same type overwrites what an earlier one set. -/
def mpScan : Nat → Bytes → Option (Nat × Nat) → Option (Nat × Nat) →
    Outcome (Option (Nat × Nat) × Option (Nat × Nat))
  | 0, _, r, u => .ok (r, u)
  | f + 1, bs, r, u =>
    match uncheckedNext bs with
    | none => .ok (r, u)
    | some (e, rest) =>
      match epaCode e with
      | .ok c =>
        if c.toNat = 14 then
          match epaLength e with
          | .ok n =>
            if n < 5 then .err else
              match epaValue e with
              | .ok v =>
                match afiSafi v with
                | some (k, _) => mpScan f rest (some k) u
                | none => .err
              | _ => .panic
          | _ => .panic
        else if c.toNat = 15 then
          match epaValue e with
          | .ok v =>
            match afiSafi v with
            | some (k, _) => mpScan f rest r (some k)
            | none => .err
          | _ => .panic
        else mpScan f rest r u
      | _ => .panic

/-! ### `Header::parse`, `UpdateMessage::parse` / `from_octets` -/

/-- mirrors message/mod.rs:284 `Header::parse` (with `Marker::check`): the
length field, the type octet and what follows the 19 header octets. -/
def headerParse (bs : Bytes) : Outcome (Nat × UInt8 × Bytes) :=
  match takeN 16 bs with
  | none => .err
  | some (m, r0) =>
    if m.any (fun b => b != 0xff) then .err else
      match rd16 r0 with
      | none => .err
      | some (len, r1) =>
        match r1 with
        | [] => .err
        | ty :: body => .ok (len, ty, body)

/-- mirrors update.rs:37 `UpdateMessage`: the three section ranges as the
bytes they span, `body` = the `length − 19` octets after the header (what
`parse` returns as `octets`; `from_octets` keeps the whole input and shifts the
ranges by 19, which no accessor can tell apart). -/
structure Msg where
  body : Bytes
  wd : Bytes
  attrs : Bytes
  ann : Bytes
  ppi : Ppi
  deriving Repr

/-- mirrors update.rs:894 `UpdateMessage::parse` (= `from_octets`) -/
def parseUpdate (cfg : Cfg) (bs : Bytes) : Outcome Msg :=
  match headerParse bs with
  | .err => .err
  | .panic => .panic
  | .ok (hl, ty, body) =>
    if hl < 19 then .err
    else if ty.toNat ≠ 2 then .err
    else
      match rd16 body with
      | none => .err
      | some (wl, r2) =>
        match takeN wl r2 with
        | none => .err
        | some (wd, r3) =>
          match convValidate (cfg.rx (1, 1)) wd with
          | .err => .err
          | .panic => .panic
          | .ok _ =>
            match rd16 r3 with
            | none => .err
            | some (al, r4) =>
              match takeN al r4 with
              | none => .err
              | some (attrs, r5) =>
                match attrsWalk attrs.length attrs with
                | .err => .err
                | .panic => .panic
                | .ok _ =>
                  match mpScan attrs.length attrs none none with
                  | .err => .err
                  | .panic => .panic
                  | .ok (reach, unreach) =>
                    -- `attributes.len() == attributes_len` always holds here;
                    -- `announcements_start` = 2 + wl + 2 + al
                    if hl - 19 < 2 + wl + 2 + al then .err
                    else
                      match takeN (hl - 19 - (2 + wl + 2 + al)) r5 with
                      | none => .err
                      | some (ann, _) =>
                        match convValidate (cfg.rx (1, 1)) ann with
                        | .err => .err
                        | .panic => .panic
                        | .ok _ =>
                          -- `end_pos == length − 19` by construction; `seek(start_pos)`
                          -- and `parse_octets(length − 19)` succeed
                          .ok { body := body.take (hl - 19), wd := wd, attrs := attrs, ann := ann,
                                ppi := Ppi.ofCfg cfg reach unreach }

/-! ### accessors -/

/-- mirrors update.rs:62 `length` -/
def Msg.length (m : Msg) : Nat := 16 + 2 + 1 + 2 + m.wd.length + 2 + m.attrs.length + m.ann.length
/-- mirrors update.rs:165 `withdrawn_routes_len` -/
def Msg.wdLen (m : Msg) : Nat := m.wd.length
/-- mirrors update.rs:332 `total_path_attribute_len` -/
def Msg.attrLen (m : Msg) : Nat := m.attrs.length

/-- mirrors update.rs:139 `fmt_pcap_string`, as the octets it prints after the
marker: saturated length, type 2, `octets[withdrawals.start − 2 .. announcements.end]`;
the slice panics if the ranges do not lie inside `octets`. -/
def Msg.pcap (m : Msg) : Outcome Bytes :=
  let n := 2 + m.wd.length + 2 + m.attrs.length + m.ann.length
  if n ≤ m.body.length then .ok (be16 (min m.length 65535) ++ [2] ++ m.body.take n) else .panic

/-- the classification step of `WireformatPathAttribute::parse` -/
def classify (four : Bool) (fl tc : UInt8) (v : Bytes) : Wire :=
  match validate tc.toNat four v with
  | some true => .typed fl.toNat tc.toNat v
  | some false => .invalid ((canonicalFlags tc.toNat).getD 0) tc.toNat v
  | none => .unimplemented fl.toNat tc.toNat v

/-- mirrors path_attributes.rs:1001 `PathAttributes::next`.  The iterator is not
fused: after an `Err` it goes on from wherever `WireformatPathAttribute::parse`
had got to. -/
def paNext (four : Bool) (bs : Bytes) : Option (Outcome Wire × Bytes) :=
  match bs with
  | [] => none
  | [_] => some (.err, [])
  | fl :: tc :: rest =>
    if extBit fl then
      match rd16 rest with
      | none => some (.err, rest)
      | some (n, r) =>
        match takeN n r with
        | none => some (.err, r)
        | some (v, r') => some (.ok (classify four fl tc v), r')
    else
      match rest with
      | [] => some (.err, [])
      | l :: r =>
        match takeN l.toNat r with
        | none => some (.err, r)
        | some (v, r') => some (.ok (classify four fl tc v), r')

/-- mirrors update.rs:336 `path_attributes()`, collected -/
def Msg.pathAttributes (m : Msg) : List (Outcome Wire) × Bool :=
  collect (paNext m.ppi.four) (m.attrs.length + 1) m.attrs

def _root_.Rc.Attr.Wire.flags : Wire → Nat
  | .typed f _ _ => f | .unimplemented f _ _ => f | .invalid f _ _ => f
def _root_.Rc.Attr.Wire.code : Wire → Nat
  | .typed _ c _ => c | .unimplemented _ c _ => c | .invalid _ c _ => c
def _root_.Rc.Attr.Wire.value : Wire → Bytes
  | .typed _ _ v => v | .unimplemented _ _ v => v | .invalid _ _ v => v
/-- mirrors path_attributes.rs:663 `WireformatPathAttribute::length` (after the
repair: the value length also for `Unimplemented`) -/
def _root_.Rc.Attr.Wire.len (w : Wire) : Nat := w.value.length

/-- mirrors path_attributes.rs:989 `PathAttributes::get`: the first `Ok` item
with this type code (an `Invalid` item has the code of its type) -/
def getAttr (items : List (Outcome Wire)) (code : Nat) : Option Wire :=
  match items with
  | [] => none
  | .ok w :: r => if w.code = code then some w else getAttr r code
  | _ :: r => getAttr r code

def Msg.get (m : Msg) (code : Nat) : Option Wire := getAttr m.pathAttributes.1 code

/-- the value of the attribute `get(code)` returns when it is the typed variant -/
def Msg.typedValue (m : Msg) (code : Nat) : Option Bytes :=
  match m.get code with
  | some (.typed _ _ v) => some v
  | _ => none

/-- mirrors update.rs:217 / 350 `conventional_withdrawals` / `conventional_announcements` -/
def Msg.convWd (m : Msg) : List (Outcome AnyNlri) × Bool := famItems .v4u m.ppi.conv m.wd
def Msg.convAnn (m : Msg) : List (Outcome AnyNlri) × Bool := famItems .v4u m.ppi.conv m.ann

/-- the first attribute of type `code`, its value split into AFI/SAFI and the rest -/
def Msg.mpAttr (m : Msg) (code : Nat) : Outcome (Option ((Nat × Nat) × Bytes)) :=
  match findUnchecked code m.attrs.length m.attrs with
  | .ok none => .ok none
  | .ok (some e) =>
    match epaValue e with
    | .ok v =>
      match afiSafi v with
      | some x => .ok (some x)
      | none => .err
    | _ => .panic
  | .err => .err
  | .panic => .panic

/-- mirrors nexthop.rs:147 `NextHop::skip` followed by `parser.advance(1)` -/
def skipNextHop (bs : Bytes) : Option Bytes :=
  match bs with
  | [] => none
  | l :: r =>
    match takeN l.toNat r with
    | none => none
    | some (_, r') =>
      match r' with
      | [] => none
      | _ :: r'' => some r''

/-- mirrors update.rs:240 `mp_withdrawals`: the iterator's type and its bytes -/
def Msg.mpWd (m : Msg) : Outcome (Option (NlriTy × Bytes)) :=
  match m.mpAttr 15 with
  | .ok none => .ok none
  | .ok (some (k, r)) => .ok (some (nlriTy k m.ppi.mpUnreach, r))
  | .err => .err
  | .panic => .panic

/-- mirrors update.rs:373 `mp_announcements` -/
def Msg.mpAnn (m : Msg) : Outcome (Option (NlriTy × Bytes)) :=
  match m.mpAttr 14 with
  | .ok none => .ok none
  | .ok (some (k, r)) =>
    match skipNextHop r with
    | some r' => .ok (some (nlriTy k m.ppi.mpReach, r'))
    | none => .err
  | .err => .err
  | .panic => .panic

def itemsOfOpt (x : Option (NlriTy × Bytes)) : List (Outcome AnyNlri) × Bool :=
  match x with
  | some (ty, bs) => enumItems ty bs
  | none => ([], true)

/-- mirrors update.rs:266 `withdrawals()` / 418 `announcements()`: the MP items, then the
conventional ones -/
def Msg.withdrawals (m : Msg) : Outcome (List (Outcome AnyNlri) × Bool) :=
  match m.mpWd with
  | .ok x => .ok ((itemsOfOpt x).1 ++ m.convWd.1, (itemsOfOpt x).2 && m.convWd.2)
  | .err => .err
  | .panic => .panic
def Msg.announcements (m : Msg) : Outcome (List (Outcome AnyNlri) × Bool) :=
  match m.mpAnn with
  | .ok x => .ok ((itemsOfOpt x).1 ++ m.convAnn.1, (itemsOfOpt x).2 && m.convAnn.2)
  | .err => .err
  | .panic => .panic

/-- `Iterator<Item = Result<T, E>>::collect::<Result<Vec<T>, E>>()`: stops at the first `Err` -/
def collectResult {α : Type} : List (Outcome α) → Outcome (List α)
  | [] => .ok []
  | .ok a :: r =>
    match collectResult r with
    | .ok l => .ok (a :: l)
    | .err => .err
    | .panic => .panic
  | .err :: _ => .err
  | .panic :: _ => .panic

/-- mirrors update.rs:320 `withdrawals_vec` / 485 `announcements_vec`: conventional
first, then MP -/
def Msg.wdVec (m : Msg) : Outcome (List AnyNlri) :=
  match m.mpWd with
  | .ok x => collectResult (m.convWd.1 ++ (itemsOfOpt x).1)
  | .err => .err
  | .panic => .panic
def Msg.annVec (m : Msg) : Outcome (List AnyNlri) :=
  match m.mpAnn with
  | .ok x => collectResult (m.convAnn.1 ++ (itemsOfOpt x).1)
  | .err => .err
  | .panic => .panic

/-- mirrors update.rs:281 `typed_withdrawals::<ASP>` for the ASP of family `f`
with (`ap`) or without path ids -/
def Msg.typedWd (m : Msg) (f : Fam) (ap : Bool) : Outcome (Option (List (Outcome AnyNlri) × Bool)) :=
  if f = .v4u ∧ m.wd ≠ [] then .ok (some (famItems f ap m.wd))
  else
    match m.mpAttr 15 with
    | .ok none => .ok none
    | .ok (some (k, r)) => if famOf k = some f then .ok (some (famItems f ap r)) else .ok none
    | .err => .err
    | .panic => .panic

/-- mirrors update.rs:439 `typed_announcements::<ASP>` -/
def Msg.typedAnn (m : Msg) (f : Fam) (ap : Bool) : Outcome (Option (List (Outcome AnyNlri) × Bool)) :=
  if f = .v4u ∧ m.ann ≠ [] then .ok (some (famItems f ap m.ann))
  else
    match m.mpAttr 14 with
    | .ok none => .ok none
    | .ok (some (k, r)) =>
      if famOf k = some f then
        match skipNextHop r with
        | some r' => .ok (some (famItems f ap r'))
        | none => .err
      else .ok none
    | .err => .err
    | .panic => .panic

/-- `Result::ok().flatten()` -/
def okFlatten {α : Type} : Outcome (Option α) → Outcome (Option α)
  | .ok x => .ok x
  | .err => .ok none
  | .panic => .panic

/-- mirrors update.rs:183 `afi_safis` -/
def Msg.afiSafis (m : Msg) : Outcome (Option NlriTy × Option NlriTy × Option NlriTy × Option NlriTy) :=
  match okFlatten m.mpWd, okFlatten m.mpAnn with
  | .ok w, .ok a =>
    .ok (if m.wd ≠ [] then some (.known .v4u m.ppi.conv) else none,
         if m.ann ≠ [] then some (.known .v4u m.ppi.conv) else none,
         w.map (·.1), a.map (·.1))
  | _, _ => .panic

/-- mirrors update.rs:498 `has_mp_nlri` -/
def Msg.hasMpNlri (m : Msg) : Outcome Bool :=
  match findUnchecked 14 m.attrs.length m.attrs with
  | .ok x => .ok x.isSome
  | .err => .err
  | .panic => .panic

/-- mirrors update.rs:506 `is_eor` (after the repair of F22: the MP_UNREACH_NLRI
form is an End-of-RIB only when the message holds nothing else that carries
NLRI: no conventional section and no MP_REACH_NLRI; and after the repair of
F22b: "no withdrawn routes" is `NlriEnumIter::is_empty`, i.e. no octets after
AFI/SAFI, not "the iterator yields nothing", which an iterator of an
unsupported family does whatever the attribute holds) -/
def Msg.isEor (m : Msg) : Outcome (Option (Nat × Nat)) :=
  if m.length = 23 then .ok (some (1, 1))
  else
    match m.mpWd with
    | .ok (some (ty, bs)) =>
      if bs.isEmpty && m.wd.isEmpty && m.ann.isEmpty then
        match m.hasMpNlri with
        | .ok false => .ok (some ty.afiSafi)
        | .ok true => .ok none
        | .err => .err
        | .panic => .panic
      else .ok none
    | .panic => .panic
    | _ => .ok none

/-- mirrors update.rs:532 `origin` -/
def Msg.origin (m : Msg) : Outcome (Option Nat) :=
  match m.typedValue 1 with
  | some v =>
    match rd8 v with
    | some (b, _) => .ok (some b)
    | none => .err
  | none => .ok none

/-- `AsPath::new(octets, four)?` and then what the caller can do with it: the hops -/
def asPathOf (four : Bool) (v : Bytes) : Outcome (Bytes × AsPath.HopPath) :=
  match AsPath.check four v with
  | .ok _ =>
    match AsPath.hops four v with
    | .ok h => .ok (v, h)
    | .err => .err
    | .panic => .panic
  | _ => .err

/-- mirrors update.rs:557 `aspath` -/
def Msg.aspath (m : Msg) : Outcome (Option (Bytes × AsPath.HopPath)) :=
  match m.typedValue 2 with
  | some v => mapO some (asPathOf m.ppi.four v)
  | none => .ok none

/-- mirrors update.rs:541 `as4path` -/
def Msg.as4path (m : Msg) : Outcome (Option (Bytes × AsPath.HopPath)) :=
  match m.typedValue 17 with
  | some v => mapO some (asPathOf true v)
  | none => .ok none

/-- `NextHop` (nexthop.rs:13); `Multicast` and `Unimplemented` are never produced by a decoder -/
inductive NextHop where
  | unicast (a : Bytes)
  | ll (a b : Bytes)
  | vpn (rd a : Bytes)
  | empty
  deriving DecidableEq, Repr

def u32Value (v : Bytes) : Outcome Nat :=
  match rd32 v with
  | some (n, _) => .ok n
  | none => .err

/-- mirrors update.rs:572 `conventional_next_hop` -/
def Msg.convNextHop (m : Msg) : Outcome (Option NextHop) :=
  match m.typedValue 3 with
  | some v =>
    match takeN 4 v with
    | some (a, _) => .ok (some (.unicast a))
    | none => .err
  | none => .ok none

/-- mirrors nexthop.rs:72 `NextHop::parse`; `fam = none` is `AfiSafiType::Unsupported` -/
def nhParse (fam : Option Fam) (bs : Bytes) : Outcome NextHop :=
  match bs with
  | [] => .err
  | l :: r =>
    let ip (k : Nat) : Outcome NextHop :=
      match takeN k r with
      | some (a, _) => .ok (.unicast a)
      | none => .err
    let vpn (k : Nat) : Outcome NextHop :=
      match takeN 8 r with
      | some (rd, r') =>
        match takeN k r' with
        | some (a, _) => .ok (.vpn rd a)
        | none => .err
      | none => .err
    match fam with
    | none => .err
    | some .v4u | some .v4m | some .v4rt | some .vpls | some .evpn =>
      if l.toNat = 4 then ip 4 else .err
    | some .v6u =>
      if l.toNat = 16 then ip 16
      else if l.toNat = 32 then
        match takeN 16 r with
        | some (a, r') =>
          match takeN 16 r' with
          | some (b, _) => .ok (.ll a b)
          | none => .err
        | none => .err
      else .err
    | some .v6m => if l.toNat = 16 then ip 16 else .err
    | some .v4mpls | some .v6mpls =>
      if l.toNat = 4 then ip 4 else if l.toNat = 16 then ip 16 else .err
    | some .v4vpn => if l.toNat = 12 then vpn 4 else .err
    | some .v6vpn => if l.toNat = 24 then vpn 16 else .err
    | some .v4fs | some .v6fs => .ok .empty

/-- mirrors update.rs:597 `mp_next_hop_tuple` -/
def Msg.mpNextHopTuple (m : Msg) : Outcome (Option ((Nat × Nat) × NextHop)) :=
  match m.mpAttr 14 with
  | .ok none => .ok none
  | .ok (some (k, r)) =>
    match nhParse (famOf k) r with
    | .ok nh => .ok (some (k, nh))
    | .err => .err
    | .panic => .panic
  | .err => .err
  | .panic => .panic

/-- mirrors update.rs:583 `mp_next_hop` -/
def Msg.mpNextHop (m : Msg) : Outcome (Option NextHop) := mapO (Option.map (·.2)) m.mpNextHopTuple

/-- mirrors update.rs:612 `find_next_hop(afi_safi)` -/
def Msg.findNextHop (m : Msg) (k : Nat × Nat) : Outcome NextHop :=
  if k = (1, 1) then
    match m.mpNextHopTuple with
    | .panic => .panic
    | .ok (some (k', nh)) => if k' = (1, 1) then .ok nh else convOr m.convNextHop
    | _ => convOr m.convNextHop
  else
    match m.mpNextHopTuple with
    | .ok (some (k', nh)) => if k' ≠ k then .err else .ok nh
    | .panic => .panic
    | _ => .err
where
  convOr : Outcome (Option NextHop) → Outcome NextHop
    | .ok (some nh) => .ok nh
    | .panic => .panic
    | _ => .err

/-- mirrors update.rs:669 `multi_exit_disc` / 683 `local_pref` -/
def Msg.med (m : Msg) : Outcome (Option Nat) :=
  match m.typedValue 4 with
  | some v => mapO some (u32Value v)
  | none => .ok none
def Msg.localPref (m : Msg) : Outcome (Option Nat) :=
  match m.typedValue 5 with
  | some v => mapO some (u32Value v)
  | none => .ok none

/-- mirrors update.rs:695 `is_atomic_aggregate`: `get(..).is_some()` -/
def Msg.isAtomicAggregate (m : Msg) : Bool := (m.get 6).isSome

/-- the ASN in the session's width, then `parse_ipv4addr` -/
def aggrOf (four : Bool) (v : Bytes) : Outcome (Option (Nat × Bytes)) :=
  match (if four then rd32 v else rd16 v) with
  | some (a, r) =>
    match takeN 4 r with
    | some (ip, _) => .ok (some (a, ip))
    | none => .err
  | none => .err

/-- mirrors update.rs:711 `aggregator` -/
def Msg.aggregator (m : Msg) : Outcome (Option (Nat × Bytes)) :=
  match m.typedValue 7 with
  | some v => aggrOf m.ppi.four v
  | none => .ok none

/-- mirrors update.rs:1346 `CommunityIter::next` (k = 4) and its three siblings
(k = 8, 20 after the repair of F1, 12): `if pos == len { None }`, then the slice
`[pos..pos + k]`, which panics when fewer than `k` octets are left. -/
def commNext (k : Nat) (bs : Bytes) : Option (Outcome Bytes × Bytes) :=
  match bs with
  | [] => none
  | _ :: _ =>
    match takeN k bs with
    | some (c, r) => some (.ok c, r)
    | none => some (.panic, [])

def commItems (k : Nat) (bs : Bytes) : List (Outcome Bytes) × Bool :=
  collect (commNext k) (bs.length + 1) bs

/-- mirrors update.rs:738 `_communities`, 770 `ext_communities`, 783
`ipv6_ext_communities`, 796 `large_communities` -/
def Msg.comms (m : Msg) (code k : Nat) : Option (List (Outcome Bytes) × Bool) :=
  match m.typedValue code with
  | some v => some (commItems k v)
  | none => none

def Msg.communities (m : Msg) := m.comms 8 4
def Msg.extCommunities (m : Msg) := m.comms 16 8
def Msg.ipv6ExtCommunities (m : Msg) := m.comms 25 20
def Msg.largeCommunities (m : Msg) := m.comms 32 12

def commPart (x : Option (List (Outcome Bytes) × Bool)) : List (Outcome Bytes) :=
  match x with
  | some r => r.1
  | none => []

/-- the items `_all_communities` appends: standard, extended, IPv6 extended, large -/
def Msg.allItems (m : Msg) : List (Outcome Bytes) :=
  commPart m.communities ++ commPart m.extCommunities ++ commPart m.ipv6ExtCommunities ++
    commPart m.largeCommunities

/-- mirrors update.rs:809 `_all_communities`; `None` when there is none at all -/
def Msg.allCommunities (m : Msg) : Outcome (Option (List Bytes)) :=
  match collectResult m.allItems with
  | .ok [] => .ok none
  | .ok l => .ok (some l)
  | .err => .err
  | .panic => .panic

end Rc.Upd
