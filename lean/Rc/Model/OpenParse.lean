/-
Model of `OpenMessage::parse`, `Parameter::parse`, `Capability::parse`
(src/bgp/message/open.rs) – the parse path used by the BMP PeerUp decoder –
and of `NotificationMessage::parse` (src/bgp/message/notification.rs).

These functions do `pos()`/`seek` arithmetic, so the model uses a cursor
`(data, pos)` mirroring `octseq::Parser` over the rest of the buffer: `data`
is everything from the start of the embedded message to the end of the
enclosing buffer, `pos` the number of bytes consumed.
-/
import Rc.Base

namespace Rc.OpenParse
open Rc

structure Cur where
  data : Bytes
  pos : Nat
  deriving Repr

def Cur.remaining (c : Cur) : Nat := c.data.length - c.pos

/-- `a - b` on `usize` as the harness builds it (overflow checks on): `none` = the subtraction panics -/
def usub (a b : Nat) : Option Nat := if b ≤ a then some (a - b) else none

/-- `parse_u8` -/
def Cur.u8 (c : Cur) : Outcome (Nat × Cur) :=
  match c.data[c.pos]? with
  | some b => .ok (b.toNat, { c with pos := c.pos + 1 })
  | none => .err

/-- `advance n` / `parse_octets n` / `parse_buf` of n bytes (only the cursor movement) -/
def Cur.advance (c : Cur) (n : Nat) : Outcome Cur :=
  if c.pos + n ≤ c.data.length then .ok { c with pos := c.pos + n } else .err

def Cur.u16 (c : Cur) : Outcome (Nat × Cur) :=
  match c.data[c.pos]?, c.data[c.pos + 1]? with
  | some a, some b => .ok (a.toNat * 256 + b.toNat, { c with pos := c.pos + 2 })
  | _, _ => .err

/-- `seek p`: error only when beyond the end -/
def Cur.seek (c : Cur) (p : Nat) : Outcome Cur :=
  if p ≤ c.data.length then .ok { c with pos := p } else .err

/-- a `while parser.pos() < limit { read k bytes }` loop; fuel = bytes remaining + 1 -/
def loopRead (k : Nat) (limit : Nat) : Nat → Cur → Outcome Cur
  | 0, c => .ok c
  | f + 1, c =>
    if c.pos < limit then
      match c.advance k with
      | .ok c' => loopRead k limit f c'
      | .err => .err
      | .panic => .panic
    else .ok c

/-- the type-specific part of `Capability::parse`; `start` = position of the
capability's type octet, `len` = its length octet. Returns the cursor after
the content was read (the caller seeks back). -/
def capContent (typ len start : Nat) (c : Cur) : Outcome Cur :=
  let fuel := c.remaining + 1
  match typ with
  | 1 => if len ≠ 4 then .err else c.advance 4         -- MultiProtocol: len 4; u16 u8 u8
  | 2 => if len ≠ 0 then .err else .ok c               -- RouteRefresh
  | 3 | 130 =>                                         -- (Prestandard)OutboundRouteFiltering
    match c.advance 4 with
    | .ok c =>
      match c.u8 with
      | .ok (n, c) => c.advance (2 * n)
      | .err => .err
      | .panic => .panic
    | .err => .err
    | .panic => .panic
  | 5 => loopRead 6 (start + len) fuel c               -- ExtendedNextHop
  | 6 => if len ≠ 0 then .err else .ok c               -- ExtendedMessage
  | 8 => loopRead 4 (start + len) fuel c               -- MultipleLabels
  | 9 => if len ≠ 1 then .err else c.advance 1         -- BgpRole
  | 64 =>                                              -- GracefulRestart
    match c.advance 2 with
    | .ok c => loopRead 4 (start + len) fuel c
    | .err => .err
    | .panic => .panic
  | 65 => if len ≠ 4 then .err else c.advance 4        -- FourOctetAsn: len 4
  | 66 | 67 => c.advance len                           -- (Deprecated)DynamicCapability: len x u8
  | 68 | 131 =>                                        -- (Prestandard)Multisession: len ≠ 0; u8, then `0..len-1` x u8
    if len = 0 then .err else
    match c.advance 1 with
    | .ok c =>
      match usub len 1 with                            -- `len-1` on usize (overflow checks on)
      | some k => c.advance k
      | none => .panic
    | .err => .err
    | .panic => .panic
  | 69 =>                                              -- AddPath
    match c.advance 3 with
    | .ok c =>
      match c.u8 with
      | .ok (sr, c) => if sr > 3 then .err else .ok c
      | .err => .err
      | .panic => .panic
    | .err => .err
    | .panic => .panic
  | 70 => if len ≠ 0 then .err else .ok c              -- EnhancedRouteRefresh
  | 71 => loopRead 7 (start + len) fuel c              -- LongLivedGracefulRestart
  | 73 =>                                              -- FQDN
    match c.u8 with
    | .ok (h, c) =>
      match c.advance h with
      | .ok c =>
        match c.u8 with
        | .ok (dl, c) => c.advance dl
        | .err => .err
        | .panic => .panic
      | .err => .err
      | .panic => .panic
    | .err => .err
    | .panic => .panic
  | 75 =>                                              -- SoftwareVersion
    match c.u8 with
    | .ok (l, c) => c.advance l
    | .err => .err
    | .panic => .panic
  | 76 => c.advance len                                -- PathsLimit: advance(len) (after the fix)
  | 128 => if len > 0 then .err else .ok c             -- PrestandardRouteRefresh
  | _ => .ok c                                         -- Reserved (0), Unimplemented

/-- `Capability::parse`: returns the cursor after the capability (start + 2 + len) -/
def capParse (c : Cur) : Outcome Cur :=
  let start := c.pos
  match c.u8 with
  | .ok (typ, c) =>
    match c.u8 with
    | .ok (len, c) =>
      match capContent typ len start c with
      | .ok c =>
        match c.seek start with
        | .ok c => c.advance (2 + len)
        | .err => .err
        | .panic => .panic
      | .err => .err
      | .panic => .panic
    | .err => .err
    | .panic => .panic
  | .err => .err
  | .panic => .panic

/-- `while caps_parser.remaining() > 0 { Capability::parse(&mut caps_parser)? }`
on a parser limited to the parameter value -/
def capLoop : Nat → Cur → Outcome Unit
  | 0, _ => .ok ()
  | f + 1, c =>
    if c.pos < c.data.length then
      match capParse c with
      | .ok c' => capLoop f c'
      | .err => .err
      | .panic => .panic
    else .ok ()

/-- `Parameter::parse`: for a Capabilities parameter the capabilities are
validated inside a sub-parser limited to the parameter value (`parse_parser(len)`),
exactly as the `capabilities()` iterator reads them later. Returns (cursor
after the parameter, its length octet). -/
def paramParse (c : Cur) : Outcome (Cur × Nat) :=
  let start := c.pos
  match c.u8 with
  | .ok (typ, c) =>
    match c.u8 with
    | .ok (len, c) =>
      let r : Outcome Unit :=
        if typ = 2 then
          match c.advance len with            -- parse_parser(len)?
          | .ok _ => capLoop (len + 1) ⟨(c.data.drop c.pos).take len, 0⟩
          | .err => .err
          | .panic => .panic
        else .ok ()
      match r with
      | .ok () =>
        match c.seek start with
        | .ok c =>
          match c.advance (2 + len) with
          | .ok c => .ok (c, len)
          | .err => .err
          | .panic => .panic
        | .err => .err
        | .panic => .panic
      | .err => .err
      | .panic => .panic
    | .err => .err
    | .panic => .panic
  | .err => .err
  | .panic => .panic

/-- the `while opt_param_len > 0` loop of `OpenMessage::parse` (after the
repair of the `opt_param_len -= 2 + len` underflow: a parameter longer than
what is left of the optional-parameters field is a parse error) -/
def paramLoop : Nat → Nat → Cur → Outcome Cur
  | 0, _, c => .ok c
  | f + 1, left, c =>
    if left = 0 then .ok c else
    match paramParse c with
    | .ok (c', len) =>
      if 2 + len ≤ left then paramLoop f (left - (2 + len)) c' else .err
    | .err => .err
    | .panic => .panic

def allFF : Bytes → Bool
  | [] => true
  | b :: r => b == 255 && allFF r

/-- `Header::parse`: marker check, u16, u8, seek back, take 19 octets. Returns (length field, cursor after the header) -/
def headerParse (c : Cur) : Outcome (Nat × Cur) :=
  if c.pos + 16 ≤ c.data.length then
    if allFF ((c.data.drop c.pos).take 16) then
      match ({ c with pos := c.pos + 16 } : Cur).u16 with
      | .ok (len, c1) =>
        match c1.u8 with
        | .ok (_, c2) => .ok (len, c2)
        | .err => .err
        | .panic => .panic
      | .err => .err
      | .panic => .panic
    else .err
  else .err

/-- `OpenMessage::parse` on a cursor: returns the cursor after the message.
The final `parser.seek(pos)?; parser.parse_octets(hdr.length())` acts on the
same parser (same buffer) the function was given. -/
def openParseCur (c0 : Cur) : Outcome Cur :=
  let start := c0.pos
  match headerParse c0 with
  | .ok (hlen, c) =>
    match c.advance 9 with                    -- version, my_as, hold time, bgp id
    | .ok c =>
      match c.u8 with
      | .ok (opl, c) =>
        if opl > c.remaining then .err else
        match paramLoop (opl + 1) opl c with
        | .ok c =>
          match usub c.pos start with                  -- `end - pos` on usize (overflow checks on)
          | none => .panic
          | some consumed =>
          if consumed ≠ hlen then .err else
          match c0.seek start with
          | .ok c => c.advance hlen
          | .err => .err
          | .panic => .panic
        | .err => .err
        | .panic => .panic
      | .err => .err
      | .panic => .panic
    | .err => .err
    | .panic => .panic
  | .err => .err
  | .panic => .panic

/-- `OpenMessage::parse` at the start of `bs`: number of bytes consumed -/
def openParse (bs : Bytes) : Outcome Nat :=
  match openParseCur ⟨bs, 0⟩ with
  | .ok c => .ok c.pos
  | .err => .err
  | .panic => .panic

/-- `NotificationMessage::parse` at the start of `bs`: header (length field
at least 21), code, subcode, seek back, take `hdr.length()` octets -/
def notifParse (bs : Bytes) : Outcome Nat :=
  match headerParse ⟨bs, 0⟩ with
  | .ok (hlen, c) =>
    if hlen < 21 then .err else
    match c.advance 2 with
    | .ok _ => if hlen ≤ bs.length then .ok hlen else .err
    | .err => .err
    | .panic => .panic
  | .err => .err
  | .panic => .panic

end Rc.OpenParse
