/-
Model of routecore's BGP session FSM (`src/bgp/fsm/session.rs`,
`src/bgp/fsm/state_machine.rs`), the code as it is (with its `todo!()` arms
and its one `unwrap` on a missing connection), after the `fix:` commits of C08.

Layering, so that every table property is a finite check:

  * `arm : Ctx → State → Kind → Arm` is the `match (self.state(), &event)` of
    `Session::handle_event`, arm by arm, over *finite* data: the five booleans
    an arm reads (`Ctx`), the state, and the event kind (an OPEN is reduced to
    the two things the arms test: AS allowed, ADD-PATH capability parses).  An
    arm is `todo` (`todo!()`), `panic` (`self.connection.as_ref().unwrap()` on
    `None`) or a list of actions – one action per statement of the Rust arm –
    plus whether `handle_event` returns `Ok` or `Err`.
  * `exec` interprets the actions on the full session state (timers' running
    flags, connect-retry counter, connection, negotiated configuration) and
    collects what leaves the session (PDUs on `pdu_out`, messages on the
    application channel).
  * `step` = `arm` + `exec`; `handleInput` adds `Session::handle_msg`,
    `manual_start` and `connection_established`.

Core Lean only (imported by the driver).
-/
import Rc.Base

namespace Rc.Fsm

/-- mirrors src/bgp/fsm/state_machine.rs:182 `State` (the six RFC states; the
`Unimplemented(u16)` catch-all of `typeenum!` is never constructed by the
session code). -/
inductive State where
  | idle | connect | active | openSent | openConfirm | established
  deriving DecidableEq, Repr, Inhabited

/-- What the arms read from a received OPEN (`my_asn()`, `holdtime()`,
`addpath_families_vec()`): AS number, hold time, ADD-PATH capability entries
`(family, direction)` with family 4 = Ipv4Unicast, 6 = Ipv6Unicast and
direction 1 = Receive, 2 = Send, 3 = SendReceive (anything else does not
convert: `AddpathDirection::try_from` fails). -/
structure OpenInfo where
  asn : Nat
  hold : Nat
  ap : List (Nat × Nat)
  deriving DecidableEq, Repr

/-- mirrors src/bgp/fsm/state_machine.rs:194 `Event` (21 kinds). -/
inductive Event where
  | manualStart | manualStop | automaticStart
  | manualStartPassive | automaticStartPassive
  | connectRetryTimerExpires | holdTimerExpires | keepaliveTimerExpires | delayOpenTimerExpires
  | tcpCrAcked | tcpConnectionConfirmed | tcpConnectionFails
  | bgpOpen (o : OpenInfo)
  | bgpHeaderErr | bgpOpenMsgErr
  | notifMsgVerErr | notifMsg | keepaliveMsg | updateMsg | updateMsgErr
  | bgpOpenDelay (o : OpenInfo)
  deriving DecidableEq, Repr

/-- Event kinds over finite data: an OPEN is reduced to (AS allowed, ADD-PATH parses). -/
inductive Kind where
  | manualStart | manualStop | automaticStart
  | manualStartPassive | automaticStartPassive
  | connectRetryTimerExpires | holdTimerExpires | keepaliveTimerExpires | delayOpenTimerExpires
  | tcpCrAcked | tcpConnectionConfirmed | tcpConnectionFails
  | bgpOpen (asAllowed apOk : Bool)
  | bgpHeaderErr | bgpOpenMsgErr
  | notifMsgVerErr | notifMsg | keepaliveMsg | updateMsg | updateMsgErr
  | bgpOpenDelay (asAllowed apOk : Bool)
  deriving DecidableEq, Repr

/-- Local configuration (`BgpConfig` + the optional session attributes). -/
structure Cfg where
  delayOpen : Bool          -- SessionAttributes.delay_open
  notifWithoutOpen : Bool   -- SessionAttributes.send_notification_without_open
  passive : Bool            -- SessionAttributes.passive_tcp_establishment
  isExact : Bool            -- BgpConfig::is_exact
  addpath : List Nat        -- BgpConfig::addpath (families)
  localHold : Nat           -- SessionAttributes.hold_time
  allowedAsns : List Nat    -- BgpConfig::remote_asn_allowed
  deriving Repr

/-- The booleans an arm of `handle_event` reads. -/
structure Ctx where
  delayOpen : Bool
  notifWithoutOpen : Bool
  isExact : Bool
  dopRunning : Bool   -- self.delay_open_timer.is_running()
  conn : Bool         -- self.connection.is_some()
  deriving DecidableEq, Repr

/-- `NegotiatedConfig` (hold time, remote AS, ADD-PATH intersection). -/
structure Neg where
  hold : Nat
  asn : Nat
  ap : List (Nat × Nat)
  deriving DecidableEq, Repr

/-- Session state the FSM acts on (`VerifSnapshot` + state + negotiated). -/
structure St where
  state : State
  crt : Bool      -- connect_retry_timer running
  hold : Bool     -- hold_timer running
  ka : Bool       -- keepalive_timer running
  dop : Bool      -- delay_open_timer running
  counter : Nat   -- connect_retry_counter
  conn : Bool     -- connection attached
  neg : Option Neg
  deriving DecidableEq, Repr

/-- `Session::new`: Idle, no timer running, connection attached. -/
def St.fresh : St := ⟨.idle, false, false, false, false, 0, true, none⟩

/-- What leaves the session in one step. -/
inductive Out where
  | pduOpen (hold : Nat)             -- OPEN on pdu_out (our hold time)
  | pduKeepalive
  | pduNotification (code sub : Nat)
  | appNegotiated (n : Neg)          -- Message::SessionNegotiated
  | appUpdate (n : Nat)              -- Message::UpdateMessage (n identifies the PDU)
  | appNotification (code sub : Nat) -- Message::NotificationMessage
  | appConnectionLost                -- Message::ConnectionLost (sent by `tick`)
  deriving DecidableEq, Repr

/-- `DisconnectReason` as used by the arms, with the NOTIFICATION `disconnect` sends. -/
inductive Reason where
  | shutdown          -- Cease / AdministrativeShutdown  (6, 2)
  | holdTimerExpired  -- Hold Timer Expired               (4, 0)
  | fsm (sub : Nat)   -- FSM error, subcode 1/2/3         (5, sub)
  | badPeerAs         -- OPEN Message Error / Bad Peer AS (2, 2)
  | openUnspecific    -- OPEN Message Error / Unspecific  (2, 0)
  -- the reasons only `Command::Disconnect(reason)` brings in (session.rs `Session::disconnect`)
  | rejected          -- Cease / ConnectionRejected        (6, 5)
  | reconfiguration   -- Cease / OtherConfigurationChange  (6, 6)
  | deconfigured      -- Cease / PeerDeconfigured          (6, 3)
  deriving DecidableEq, Repr

def Reason.notif : Reason → Nat × Nat
  | .shutdown => (6, 2)
  | .holdTimerExpired => (4, 0)
  | .fsm s => (5, s)
  | .badPeerAs => (2, 2)
  | .openUnspecific => (2, 0)
  | .rejected => (6, 5)
  | .reconfiguration => (6, 6)
  | .deconfigured => (6, 3)

/-- One statement of an arm. -/
inductive Act where
  | resetCounter | incCounter
  | startCrt | stopCrt | resetCrt
  | startDop | stopDop
  | startKa | startHold | resetHold
  | sendOpen | sendKeepalive
  | disconnect (r : Reason)   -- Session::disconnect: NOTIFICATION, stop keepalive + hold timers, drop_connection
  | dropConn                  -- Session::drop_connection
  | negotiate                 -- set_negotiated_config + Message::SessionNegotiated
  | setState (s : State)
  deriving DecidableEq, Repr

inductive Arm where
  | todo
  | panic
  | run (acts : List Act) (ok : Bool)
  deriving DecidableEq, Repr

/-- The common tail of the two arms that accept an OPEN
(session.rs (S::Active, BgpOpenWithDelayOpenTimerRunning) and (S::OpenSent, BgpOpen)):
AS check, ADD-PATH parse, `connection.unwrap()`, then `accept`. -/
def openTail (c : Ctx) (asAllowed apOk : Bool) (pre accept : List Act) : Arm :=
  if !asAllowed then .run (pre ++ [.disconnect .badPeerAs, .setState .idle]) false
  else if !apOk then .run (pre ++ [.disconnect .openUnspecific, .setState .idle]) false
  else if !c.conn then .panic
  else .run (pre ++ accept) true

open State Kind in
/-- mirrors src/bgp/fsm/session.rs `Session::handle_event`, arm by arm. -/
def arm (c : Ctx) : State → Kind → Arm
  --- Idle
  | idle, manualStart | idle, automaticStart => .todo
  | idle, manualStartPassive | idle, automaticStartPassive =>
      .run [.resetCounter, .startCrt, .setState active] true
  | idle, _ => .run [] true
  --- Connect
  | connect, manualStart | connect, automaticStart
  | connect, manualStartPassive | connect, automaticStartPassive => .run [] true
  | connect, manualStop => .run [.resetCounter, .stopCrt, .setState idle] true
  | connect, connectRetryTimerExpires => .todo
  | connect, delayOpenTimerExpires => .run [.sendOpen, .setState openSent] true
  | connect, tcpCrAcked | connect, tcpConnectionConfirmed =>
      if c.delayOpen then .run [.stopCrt, .startDop] true
      else .run [.stopCrt, .sendOpen, .setState openSent] true
  | connect, tcpConnectionFails =>
      if c.dopRunning then .todo else .run [.stopCrt, .setState idle] true
  | connect, bgpOpenDelay asAllowed apOk =>      -- same arm as Active (after the repair of F23b)
      openTail c asAllowed apOk [.stopCrt, .stopDop]
        [.sendOpen, .negotiate, .sendKeepalive, .startKa, .startHold, .setState openConfirm]
  | connect, bgpHeaderErr | connect, bgpOpenMsgErr => .todo
  | connect, notifMsgVerErr =>                   -- same arm as Active
      if c.dopRunning then .run [.stopCrt, .stopDop, .setState idle] true
      else .run [.stopCrt, .incCounter, .setState idle] true
  | connect, holdTimerExpires | connect, keepaliveTimerExpires | connect, bgpOpen _ _
  | connect, notifMsg | connect, keepaliveMsg | connect, updateMsg | connect, updateMsgErr =>
      .run [.stopCrt, .stopDop, .incCounter, .setState idle] true
  --- Active
  | active, manualStart | active, automaticStart
  | active, manualStartPassive | active, automaticStartPassive => .run [] true
  | active, manualStop =>
      .run ((if c.dopRunning && c.notifWithoutOpen then [.disconnect .shutdown] else [])
            ++ [.stopDop, .resetCounter, .stopCrt, .setState idle]) true
  | active, connectRetryTimerExpires => if c.isExact then .todo else .run [] true
  | active, delayOpenTimerExpires => .run [.stopCrt, .stopDop, .sendOpen, .setState openSent] true
  | active, tcpCrAcked | active, tcpConnectionConfirmed =>
      if c.delayOpen then .run [.stopCrt, .startDop] true
      else .run [.startCrt, .sendOpen, .setState openSent] true
  | active, tcpConnectionFails => .run [.startCrt, .stopDop, .incCounter, .setState idle] true
  | active, bgpOpenDelay asAllowed apOk =>
      openTail c asAllowed apOk [.stopCrt, .stopDop]
        [.sendOpen, .negotiate, .sendKeepalive, .startKa, .startHold, .setState openConfirm]
  | active, bgpHeaderErr | active, bgpOpenMsgErr =>
      if c.notifWithoutOpen then .todo else .run [.stopCrt, .incCounter, .setState idle] true
  | active, notifMsgVerErr =>
      if c.dopRunning then .run [.stopCrt, .stopDop, .setState idle] true
      else .run [.stopCrt, .incCounter, .setState idle] true
  | active, holdTimerExpires | active, keepaliveTimerExpires | active, bgpOpen _ _
  | active, notifMsg | active, keepaliveMsg | active, updateMsg | active, updateMsgErr =>
      .run [.stopCrt, .incCounter, .setState idle] true
  --- OpenSent
  | openSent, manualStart | openSent, automaticStart
  | openSent, manualStartPassive | openSent, automaticStartPassive => .run [] true
  | openSent, manualStop =>
      .run [.disconnect .shutdown, .stopCrt, .resetCounter, .setState idle] true
  | openSent, holdTimerExpires =>
      .run [.disconnect .holdTimerExpired, .stopCrt, .incCounter, .setState idle] true
  | openSent, tcpCrAcked | openSent, tcpConnectionConfirmed => .todo
  | openSent, tcpConnectionFails => .run [.resetCrt, .setState active] true
  | openSent, bgpOpen asAllowed apOk =>
      openTail c asAllowed apOk [.stopDop, .stopCrt]
        [.negotiate, .sendKeepalive, .startKa, .startHold, .setState openConfirm]
  | openSent, bgpHeaderErr | openSent, bgpOpenMsgErr =>
      .run [.stopCrt, .dropConn, .incCounter, .setState idle] true
  | openSent, notifMsgVerErr => .run [.stopCrt, .dropConn, .setState idle] true
  | openSent, connectRetryTimerExpires | openSent, keepaliveTimerExpires
  | openSent, delayOpenTimerExpires | openSent, bgpOpenDelay _ _ | openSent, notifMsg
  | openSent, keepaliveMsg | openSent, updateMsg | openSent, updateMsgErr =>
      .run [.disconnect (.fsm 1), .stopCrt, .incCounter, .setState idle] true
  --- OpenConfirm
  | openConfirm, manualStart | openConfirm, automaticStart
  | openConfirm, manualStartPassive | openConfirm, automaticStartPassive => .run [] true
  | openConfirm, manualStop =>
      .run [.disconnect .shutdown, .resetCounter, .stopCrt, .setState idle] true
  | openConfirm, holdTimerExpires =>
      .run [.disconnect .holdTimerExpired, .stopCrt, .incCounter, .setState idle] true
  | openConfirm, keepaliveTimerExpires => .run [.sendKeepalive] true
  | openConfirm, tcpCrAcked | openConfirm, tcpConnectionConfirmed => .todo
  | openConfirm, tcpConnectionFails | openConfirm, notifMsg =>
      .run [.stopCrt, .dropConn, .incCounter, .setState idle] true
  | openConfirm, notifMsgVerErr => .run [.stopCrt, .dropConn, .setState idle] true
  | openConfirm, bgpOpen _ _ =>                  -- joins the FSM-error arm (after the repair of F23)
      .run [.disconnect (.fsm 2), .stopCrt, .incCounter, .setState idle] true
  | openConfirm, bgpHeaderErr | openConfirm, bgpOpenMsgErr =>
      .run [.stopCrt, .incCounter, .setState idle] true
  | openConfirm, keepaliveMsg => .run [.resetHold, .setState established] true
  | openConfirm, connectRetryTimerExpires | openConfirm, delayOpenTimerExpires
  | openConfirm, bgpOpenDelay _ _ | openConfirm, updateMsg | openConfirm, updateMsgErr =>
      .run [.disconnect (.fsm 2), .stopCrt, .incCounter, .setState idle] true
  --- Established
  | established, manualStart | established, automaticStart
  | established, manualStartPassive | established, automaticStartPassive => .run [] true
  | established, manualStop =>
      .run [.disconnect .shutdown, .stopCrt, .resetCounter, .setState idle] true
  | established, holdTimerExpires =>
      .run [.disconnect .holdTimerExpired, .stopCrt, .incCounter, .setState idle] true
  | established, keepaliveTimerExpires => .run [.sendKeepalive] true
  | established, tcpCrAcked | established, tcpConnectionConfirmed => .todo
  | established, bgpOpen _ _ =>                  -- joins the FSM-error arm (after the repair of F23)
      .run [.disconnect (.fsm 3), .stopCrt, .incCounter, .setState idle] true
  | established, notifMsgVerErr | established, notifMsg | established, tcpConnectionFails =>
      .run [.stopCrt, .dropConn, .incCounter, .setState idle] true
  | established, keepaliveMsg => .run [.resetHold] true
  | established, updateMsg => .run [.resetHold] true
  | established, updateMsgErr => .run [.stopCrt, .incCounter, .setState idle] true
  | established, connectRetryTimerExpires | established, delayOpenTimerExpires
  | established, bgpOpenDelay _ _ | established, bgpHeaderErr | established, bgpOpenMsgErr =>
      .run [.disconnect (.fsm 3), .stopCrt, .incCounter, .setState idle] true

/-! ### interpreting the actions -/

/-- `AddpathDirection::try_from` succeeds. -/
def dirOk (d : Nat) : Bool := d == 1 || d == 2 || d == 3

/-- `OpenMessage::addpath_families_vec` succeeds. -/
def apOk (ap : List (Nat × Nat)) : Bool := ap.all fun p => dirOk p.2

/-- `AddpathDirection::SendReceive.merge(dir)`: what is stored for a family the
peer advertised with direction `dir` (1 = Receive, 2 = Send, 3 = SendReceive),
the local OPEN always advertising SendReceive (after the repair of F19a). -/
def mergeWithBoth : Nat → Option Nat
  | 1 => some 2
  | 2 => some 1
  | 3 => some 3
  | _ => none

/-- The NegotiatedConfig built in the two accepting arms: `min` of the hold times; for
every configured ADD-PATH family (in configuration order) the peer's FIRST entry for it, merged
with SendReceive (`config.addpath().iter().filter_map(|fam| received.iter().find(..)…)`, as
`OpenMessage::addpath_intersection` does; after the first-match fix). -/
def negotiate (cfg : Cfg) (o : OpenInfo) : Neg :=
  { hold := min o.hold cfg.localHold, asn := o.asn,
    ap := cfg.addpath.filterMap fun f =>
      ((o.ap.find? fun p => p.1 == f).bind fun p => mergeWithBoth p.2).map fun d => (f, d) }

def defaultOpen : OpenInfo := ⟨0, 0, []⟩

/-- One action on the session state; returns the new state and what was sent. -/
def execAct (cfg : Cfg) (o : OpenInfo) (s : St) : Act → St × List Out
  | .resetCounter => ({ s with counter := 0 }, [])
  | .incCounter => ({ s with counter := s.counter + 1 }, [])
  | .startCrt => ({ s with crt := true }, [])
  | .stopCrt => ({ s with crt := false }, [])
  | .resetCrt => (s, [])
  | .startDop => ({ s with dop := true }, [])
  | .stopDop => ({ s with dop := false }, [])
  | .startKa => ({ s with ka := true }, [])
  | .startHold => ({ s with hold := true }, [])
  | .resetHold => (s, [])
  | .sendOpen => (s, [.pduOpen cfg.localHold])
  | .sendKeepalive => (s, [.pduKeepalive])
  | .disconnect r =>
      ({ s with ka := false, hold := false, conn := false }, [.pduNotification r.notif.1 r.notif.2])
  | .dropConn => ({ s with conn := false }, [])
  | .negotiate => ({ s with neg := some (negotiate cfg o) }, [.appNegotiated (negotiate cfg o)])
  | .setState st => ({ s with state := st }, [])

def exec (cfg : Cfg) (o : OpenInfo) : St → List Act → St × List Out
  | s, [] => (s, [])
  | s, a :: rest =>
    let r1 := execAct cfg o s a
    let r2 := exec cfg o r1.1 rest
    (r2.1, r1.2 ++ r2.2)

/-- Result of feeding one input to the session. -/
inductive StepResult where
  | todo                                         -- the arm is `todo!()`
  | panic                                        -- `connection.as_ref().unwrap()` on `None`
  | next (s : St) (ok : Bool) (outs : List Out)  -- new state, `Ok`/`Err`, what was sent
  deriving DecidableEq, Repr

def ctxOf (cfg : Cfg) (s : St) : Ctx :=
  ⟨cfg.delayOpen, cfg.notifWithoutOpen, cfg.isExact, s.dop, s.conn⟩

def asAllowed (cfg : Cfg) (o : OpenInfo) : Bool := cfg.allowedAsns.contains o.asn

def kindOf (cfg : Cfg) : Event → Kind
  | .manualStart => .manualStart | .manualStop => .manualStop | .automaticStart => .automaticStart
  | .manualStartPassive => .manualStartPassive | .automaticStartPassive => .automaticStartPassive
  | .connectRetryTimerExpires => .connectRetryTimerExpires | .holdTimerExpires => .holdTimerExpires
  | .keepaliveTimerExpires => .keepaliveTimerExpires | .delayOpenTimerExpires => .delayOpenTimerExpires
  | .tcpCrAcked => .tcpCrAcked | .tcpConnectionConfirmed => .tcpConnectionConfirmed
  | .tcpConnectionFails => .tcpConnectionFails
  | .bgpOpen o => .bgpOpen (asAllowed cfg o) (apOk o.ap)
  | .bgpHeaderErr => .bgpHeaderErr | .bgpOpenMsgErr => .bgpOpenMsgErr
  | .notifMsgVerErr => .notifMsgVerErr | .notifMsg => .notifMsg | .keepaliveMsg => .keepaliveMsg
  | .updateMsg => .updateMsg | .updateMsgErr => .updateMsgErr
  | .bgpOpenDelay o => .bgpOpenDelay (asAllowed cfg o) (apOk o.ap)

def openOf : Event → OpenInfo
  | .bgpOpen o => o
  | .bgpOpenDelay o => o
  | _ => defaultOpen

/-- `Session::handle_event`. -/
def step (cfg : Cfg) (s : St) (e : Event) : StepResult :=
  match arm (ctxOf cfg s) s.state (kindOf cfg e) with
  | .todo => .todo
  | .panic => .panic
  | .run acts ok =>
    let r := exec cfg (openOf e) s acts
    .next r.1 ok r.2

/-- What can be fed to a session: an event (through the injection hook), a received
message (`handle_msg`), or one of the two public event functions. -/
inductive Input where
  | ev (e : Event)
  | msgOpen (o : OpenInfo)
  | msgKeepalive
  | msgUpdate (n : Nat)
  | msgNotification (code sub : Nat)
  | msgRouteRefresh
  | apiStart   -- Session::manual_start
  | apiConn    -- Session::connection_established
  | attach     -- a TCP stream is attached (`self.connection = Some(..)`, the first statement of
               -- `attach_stream`); no FSM event by itself
  deriving DecidableEq, Repr

/-- `handle_msg`, OPEN: `if self.delay_open_timer.is_running()` Event 20 else Event 19 -/
def openEvent (s : St) (o : OpenInfo) : Event := if s.dop then .bgpOpenDelay o else .bgpOpen o

/-- `handle_msg`, NOTIFICATION: OPEN Message Error / Unsupported Version Number is
NotifMsgVerErr, anything else NotifMsg -/
def notifEvent (code sub : Nat) : Event := if code == 2 && sub == 1 then .notifMsgVerErr else .notifMsg

/-- `manual_start`: chooses by `passive_tcp_establishment` -/
def startEvent (cfg : Cfg) : Event := if cfg.passive then .manualStartPassive else .manualStart

/-- mirrors `Session::handle_msg` (session.rs:476), `manual_start` (:461) and
`connection_established` (:472). -/
def handleInput (cfg : Cfg) (s : St) : Input → StepResult
  | .ev e => step cfg s e
  | .msgOpen o => step cfg s (openEvent s o)
  | .msgKeepalive => step cfg s .keepaliveMsg
  | .msgUpdate n =>
    -- `let established = self.state() == State::Established;` then the event, then the forward
    match step cfg s .updateMsg with
    | .next s' true outs => .next s' true (outs ++ (if s.state = .established then [.appUpdate n] else []))
    | r => r
  | .msgNotification code sub =>
    -- forwarded first, then NotifMsgVerErr (version error) or NotifMsg
    match step cfg s (notifEvent code sub) with
    | .next s' ok outs => .next s' ok (.appNotification code sub :: outs)
    | r => r
  | .msgRouteRefresh => .next s true []
  | .apiStart =>
    -- `let _ = self.handle_event(..)`: the result is dropped
    match step cfg s (startEvent cfg) with
    | .next s' _ outs => .next s' true outs
    | r => r
  | .apiConn =>
    match step cfg s .tcpConnectionConfirmed with
    | .next s' _ outs => .next s' true outs
    | r => r
  | .attach => .next { s with conn := true } true []

/-! ### the outgoing PDU queue (`send_pdu`, session.rs:373)

`send_pdu` is `self.pdu_out_tx.try_send(pdu)`: `pdu_out` is a bounded queue whose other end the
application drains (it writes the PDUs to the socket).  A PDU that finds the queue full is dropped
with a `warn!`; the arm goes on (timers stopped, connection released, state changed).  `step`,
`handleInput` and `tickStep` list what the arms *send*; `accepted room` is what of it reaches the
queue when `room` slots are free at the start of the step. -/

def Out.isPdu : Out → Bool
  | .pduOpen _ | .pduKeepalive | .pduNotification _ _ => true
  | _ => false

/-- `try_send` in order: the first `room` PDUs are queued, later ones are dropped; what goes to the
application channel (`send().await`) is not affected. -/
def accepted : Nat → List Out → List Out
  | _, [] => []
  | room, o :: rest =>
    if o.isPdu then
      match room with
      | 0 => accepted 0 rest
      | r + 1 => o :: accepted r rest
    else o :: accepted room rest

def pduCount (outs : List Out) : Nat := (outs.filter Out.isPdu).length

/-- A history: results of the inputs in order; it ends at the first `todo`/`panic`
(the session task is gone). -/
def runHist (cfg : Cfg) : St → List Input → List StepResult
  | _, [] => []
  | s, i :: rest =>
    match handleInput cfg s i with
    | .next s' ok outs => .next s' ok outs :: runHist cfg s' rest
    | r => [r]

/-! ### `Session::tick`, frame branch and connection loss (session.rs:253-315)

Only the part of `tick` that is a function of the session state: a complete frame is read
and handled, or the peer has closed the connection.  The `select!` between this branch,
the command channel and the timers is not modelled. -/

inductive TickInput where
  | frame (m : Input)   -- a PDU has arrived; `tick()` reads and handles it
  | closed              -- the peer closed the connection; `tick()` sees end of stream
  | readErr             -- `read_frame` fails: a malformed frame (`parse_frame` Err), or the peer closes in the
                        -- middle of a frame ("connection reset by peer")
  | cmdDisconnect       -- Command::Disconnect(DisconnectReason::Shutdown)
  | cmdKeepalive        -- Command::ForcedKeepalive
  | cmdDisconnectWith (r : Option Reason)
                        -- Command::Disconnect(reason) for the other reasons the application can give:
                        -- ConnectionRejected / Reconfiguration / Deconfigured / HoldTimerExpired (`some r`) and
                        -- DisconnectReason::Other (`none`: `disconnect` sends no NOTIFICATION)
  | direct (i : Input)  -- not through `tick`
  deriving DecidableEq, Repr

inductive TickResult where
  | noConn                 -- no connection attached: `tick` has nothing to read
  | res (r : StepResult)
  deriving DecidableEq, Repr

/-- what `tick` does for `Command::Disconnect(Shutdown)` (session.rs:265) -/
def cmdDisconnectActs : List Act :=
  [.disconnect .shutdown, .resetCounter, .stopCrt, .stopDop, .setState .idle]

/-- what follows `self.disconnect(reason)` in the `Command::Disconnect` arm of `tick` -/
def cmdDisconnectTail : List Act := [.resetCounter, .stopCrt, .stopDop, .setState .idle]

def tickStep (cfg : Cfg) (s : St) : TickInput → TickResult
  | .direct i => .res (handleInput cfg s i)
  | .frame m =>
    if !s.conn then .noConn else
    match handleInput cfg s m with
    -- `if let Err(..) = self.handle_msg(m).await { self.set_state(State::Connect); return Err(..) }`
    | .next s' false outs => .res (.next { s' with state := .connect } false outs)
    | r => .res r
  | .closed =>
    if !s.conn then .noConn else
    -- `Ok(None)`: Message::ConnectionLost, `self.connection = None`, `set_state(State::Connect)`
    .res (.next { s with conn := false, state := .connect } true [.appConnectionLost])
  | .readErr =>
    if !s.conn then .noConn else
    -- `Err(e)`: `self.connection = None; self.set_state(State::Connect); return Err(..)` - no event is raised,
    -- no NOTIFICATION is sent, the application is not told (session.rs:317-322)
    .res (.next { s with conn := false, state := .connect } false [])
  | .cmdDisconnect =>
    let r := exec cfg defaultOpen s cmdDisconnectActs
    .res (.next r.1 true r.2)
  | .cmdKeepalive => .res (.next s true [.pduKeepalive])
  | .cmdDisconnectWith r =>
    -- `self.disconnect(reason)`: the NOTIFICATION of the reason (none for Other), keepalive and hold timers
    -- stopped, connection dropped; then the same tail as for Shutdown (session.rs:266-275)
    let d : St × List Out := match r with
      | some r => execAct cfg defaultOpen s (.disconnect r)
      | none => ({ s with ka := false, hold := false, conn := false }, [])
    let r2 := exec cfg defaultOpen d.1 cmdDisconnectTail
    .res (.next r2.1 true (d.2 ++ r2.2))

def runTick (cfg : Cfg) : St → List TickInput → List TickResult
  | _, [] => []
  | s, i :: rest =>
    match tickStep cfg s i with
    | .res (.next s' ok outs) => .res (.next s' ok outs) :: runTick cfg s' rest
    | r => [r]

/-! ### the timer branches of `Session::tick` (session.rs:326-334)

`tick` polls three of the four timers: `keepalive_timer.tick()` raises KeepaliveTimerExpires,
`hold_timer.tick()` HoldTimerExpires, `delay_open_timer.tick()` DelayOpenTimerExpires (the
ConnectRetryTimer is polled by nothing).  A `Timer` (timers.rs) started at time `t` with interval
`i` ticks at `t + i, t + 2i, ..`; `reset()` moves the next tick to `now + i`; an interval of 0
panics inside the spawned timer task (`tokio::time::interval(0)`), which tokio swallows: such a
timer "runs" but never ticks.  Intervals are fixed in `Session::new`: hold = the LOCAL hold time
(not the negotiated one), keepalive = hold / 3, delay-open = 10 s.

`Clock` is kept next to `St` (not inside: the transition theorems do not depend on time).  It is
exact when time passes only inside `tick()` – the harness runs these lines on a paused tokio clock,
which advances exactly to the next timer when `tick()` has nothing else to do. -/

structure Clock where
  now : Nat
  ka : Option Nat     -- instant of the keepalive timer's next tick (none: stopped, or interval 0)
  hold : Option Nat
  dop : Option Nat
  deriving DecidableEq, Repr

def kaInterval (cfg : Cfg) : Nat := cfg.localHold / 3
def holdInterval (cfg : Cfg) : Nat := cfg.localHold
def dopInterval : Nat := 10

/-- next tick of a timer (re)started or reset at `now` -/
def dueAt (now interval : Nat) : Option Nat := if interval = 0 then none else some (now + interval)

/-- the clock of a session whose timers were (force-)started at time 0 -/
def Clock.ofSt (cfg : Cfg) (s : St) : Clock :=
  { now := 0,
    ka := if s.ka then dueAt 0 (kaInterval cfg) else none,
    hold := if s.hold then dueAt 0 (holdInterval cfg) else none,
    dop := if s.dop then dueAt 0 dopInterval else none }

/-- what one statement of an arm does to the timers' next ticks; `s` is the session state before it -/
def clockAct (cfg : Cfg) (s : St) (c : Clock) : Act → Clock
  | .startKa => { c with ka := dueAt c.now (kaInterval cfg) }
  | .startHold => { c with hold := dueAt c.now (holdInterval cfg) }
  | .resetHold => if s.hold then { c with hold := dueAt c.now (holdInterval cfg) } else c   -- reset() of a stopped timer only warns
  | .startDop => { c with dop := dueAt c.now dopInterval }
  | .stopDop => { c with dop := none }
  | .disconnect _ => { c with ka := none, hold := none }
  | _ => c

def clockExec (cfg : Cfg) (o : OpenInfo) : St → Clock → List Act → Clock
  | _, c, [] => c
  | s, c, a :: rest => clockExec cfg o (execAct cfg o s a).1 (clockAct cfg s c a) rest

/-- the event an input feeds to `handle_event` (none: ROUTE-REFRESH, attach) -/
def inputEvent (cfg : Cfg) (s : St) : Input → Option Event
  | .ev e => some e
  | .msgOpen o => some (openEvent s o)
  | .msgKeepalive => some .keepaliveMsg
  | .msgUpdate _ => some .updateMsg
  | .msgNotification code sub => some (notifEvent code sub)
  | .msgRouteRefresh => none
  | .apiStart => some (startEvent cfg)
  | .apiConn => some .tcpConnectionConfirmed
  | .attach => none

/-- the statements `handle_event` runs for an event (none for `todo!()` / panic arms) -/
def actsOfEvent (cfg : Cfg) (s : St) (e : Event) : List Act :=
  match arm (ctxOf cfg s) s.state (kindOf cfg e) with
  | .run acts _ => acts
  | _ => []

/-- the clock after an input was handled in state `s` -/
def clockInput (cfg : Cfg) (s : St) (c : Clock) (i : Input) : Clock :=
  match inputEvent cfg s i with
  | some e => clockExec cfg (openOf e) s c (actsOfEvent cfg s e)
  | none => c

inductive TimerTick where
  | idle                                   -- none of the three timers will ever tick: `tick()` does not return
  | tie                                    -- two timers are due at the same instant: `select!` picks at random
  | fired (e : Event) (r : StepResult) (c : Clock)
  deriving DecidableEq, Repr

/-- time passes (`d` seconds) without the session being polled: the timers' tasks go on (a tick that falls
due is queued in the timer's channel, `Rc/Model/Timer.lean`), nothing else happens.  Exact as long as no
timer collects two un-awaited ticks of which the older one is then discarded by a `reset()` (the hold
timer is the only one the session resets): see `staleInput`. -/
def clockWait (c : Clock) (d : Nat) : Clock := { c with now := c.now + d }

/-- two ticks of the hold timer are outstanding at the clock `c.now`: the one due at `t` sits in the timer's
channel (capacity 1), the one due at `t + hold` in the timer task's blocked `send` (timers.rs `timer_inner`) -/
def holdTwoDue (cfg : Cfg) (c : Clock) : Bool :=
  match c.hold with
  | some t => decide (t + holdInterval cfg ≤ c.now)
  | none => false

/-- one of the statements `acts` is a `hold_timer.reset()` of a running hold timer with two ticks outstanding.
`Timer::reset` drains the channel, which lets the blocked `send` complete: that second tick SURVIVES the reset
(the `stale` field of `Rc.Timer.Spec`, `Spec.call .reset`: `stale := out2.2`) and the next `tick()` hands it
out at once.  `Clock` has no counterpart of it: this is where `Clock` stops being exact. -/
def staleExec (cfg : Cfg) (o : OpenInfo) : St → Clock → List Act → Bool
  | _, _, [] => false
  | s, c, a :: rest =>
    (match a with | .resetHold => s.hold && holdTwoDue cfg c | _ => false) ||
      staleExec cfg o (execAct cfg o s a).1 (clockAct cfg s c a) rest

/-- handling the input `i` in state `s` at clock `c` resets the hold timer while two of its ticks are
outstanding (the driver and `Rc.Thm.C08.timedStep` end the history there; c08.rs refuses the same lines from
its own bookkeeping of the instants the hold timer was armed) -/
def staleInput (cfg : Cfg) (s : St) (c : Clock) (i : Input) : Bool :=
  match inputEvent cfg s i with
  | some e => staleExec cfg (openOf e) s c (actsOfEvent cfg s e)
  | none => false

/-- mirrors the three timer branches of `Session::tick` when nothing else is pending: the timer
whose tick comes first fires, `tick` raises ITS event (`self.handle_event(..).await?`).  The paused
clock moves to that tick unless it is already past it (the tick was queued while the session was not
polled); every timer that has a tick queued by then is a ready branch of the `select!`: with two of them
the choice is random (`tie`).  The interval goes on from the deadline it returned (tokio `Interval`,
Burst), not from the instant the tick was taken. -/
def tickTimer (cfg : Cfg) (s : St) (c : Clock) : TimerTick :=
  let cands : List (Nat × Event) :=
    (match c.ka with | some t => [(t, Event.keepaliveTimerExpires)] | none => []) ++
    (match c.hold with | some t => [(t, Event.holdTimerExpires)] | none => []) ++
    (match c.dop with | some t => [(t, Event.delayOpenTimerExpires)] | none => [])
  match cands with
  | [] => .idle
  | (t0, e0) :: rest =>
    let best := rest.foldl (fun (b : Nat × Event) x => if x.1 < b.1 then x else b) (t0, e0)
    let horizon := max c.now best.1
    if (cands.filter fun x => decide (x.1 ≤ horizon)).length > 1 then .tie
    else
      let m := best.1
      let c1 : Clock := match best.2 with
        | .keepaliveTimerExpires => { c with now := horizon, ka := dueAt m (kaInterval cfg) }
        | .holdTimerExpires => { c with now := horizon, hold := dueAt m (holdInterval cfg) }
        | _ => { c with now := horizon, dop := dueAt m dopInterval }
      .fired best.2 (step cfg s best.2) (clockExec cfg defaultOpen s c1 (actsOfEvent cfg s best.2))

end Rc.Fsm
