/-
Executable model of ADD-PATH / four-octet negotiation (C12):
`AddpathDirection::merge` (types.rs:54), `OpenMessage::addpath_intersection`
(open.rs:206), `SessionConfig::{add_famdir, get_addpath, rx_addpath,
four_octet_enabled}` (update.rs:1207-1290), and the three derivations of a
SessionConfig: the helper, `PeerUpNotification::{session_config,
pph_session_config}` (bmp/message.rs:888-954) and the live session
(fsm/session.rs, after the F19 fixes).

`HashMap<AfiSafiType, AddpathDirection>` is modelled as a finite map
(`Fam → Option Dir` with point update); `AfiSafiType` as the (AFI, SAFI) pair
(C18 proves the conversion injective).
-/
import Rc.Base

namespace Rc.Negotiate

inductive Dir where
  | recv | send | both
  deriving DecidableEq, Repr

def Dir.code : Dir → Nat
  | .recv => 1 | .send => 2 | .both => 3

def Dir.ofCode : Nat → Option Dir
  | 1 => some .recv | 2 => some .send | 3 => some .both | _ => none

/-- mirrors types.rs:54 `AddpathDirection::merge` (`self` = ours, `other` = the peer's) -/
def merge : Dir → Dir → Option Dir
  | .recv, .recv => none
  | .send, .send => none
  | .both, .both => some .both
  | .send, .recv => some .send
  | .send, .both => some .send
  | .recv, .send => some .recv
  | .recv, .both => some .recv
  | .both, .send => some .recv
  | .both, .recv => some .send

abbrev Fam := Nat × Nat
abbrev FamList := List (Fam × Dir)

/-- mirrors types.rs:30 `AddpathFamDir::merge`: nothing for different families, else the merged
direction for the family (not used by the three derivations, which merge directions directly) -/
def famDirMerge (x y : Fam × Dir) : Option (Fam × Dir) :=
  if x.1 ≠ y.1 then none else (merge x.2 y.2).map fun d => (x.1, d)

/-- `iter().find(|(f, _)| my_fam == f)`: first entry for the family -/
def lookup : FamList → Fam → Option Dir
  | [], _ => none
  | (g, d) :: r, f => if g = f then some d else lookup r f

/-- mirrors open.rs:214 the `filter_map` of `addpath_intersection`:
for each of my entries, the first entry of the peer for that family, merged -/
def intersection : FamList → FamList → FamList
  | [], _ => []
  | (g, d) :: r, other =>
    match (lookup other g).bind (merge d) with
    | some m => (g, m) :: intersection r other
    | none => intersection r other

/-- SessionConfig as far as C12 is concerned -/
structure Config where
  four : Bool
  fams : Fam → Option Dir

/-- `SessionConfig::modern()` with the four-octet flag set as given -/
def Config.new (four : Bool) : Config := ⟨four, fun _ => none⟩

/-- `add_famdir`: `HashMap::insert` (a later insert for the same family wins) -/
def Config.insert (c : Config) (f : Fam) (d : Dir) : Config :=
  ⟨c.four, fun g => if g = f then some d else c.fams g⟩

def Config.addAll (c : Config) : FamList → Config
  | [] => c
  | (f, d) :: r => (c.insert f d).addAll r

/-- `get_addpath` -/
def Config.get (c : Config) (f : Fam) : Option Dir := c.fams f

/-- mirrors update.rs:1264 `rx_addpath` -/
def Config.rx (c : Config) (f : Fam) : Bool :=
  match c.get f with
  | some .recv | some .both => true
  | _ => false

/-- the sending counterpart (read off `get_addpath`) -/
def Config.tx (c : Config) (f : Fam) : Bool :=
  match c.get f with
  | some .send | some .both => true
  | _ => false

/-- what C12 needs of an OPEN: the four-octet capability and the ADD-PATH entries in wire order -/
structure OpenInfo where
  four : Bool
  ap : FamList

/-- the helper: `a.addpath_intersection(b)` into a config whose four-octet flag
is `a.four_octet_capable() && b.four_octet_capable()` -/
def helper (loc peer : OpenInfo) : Config :=
  (Config.new (loc.four && peer.four)).addAll (intersection loc.ap peer.ap)

/-- mirrors bmp/message.rs:936 `PeerUpNotification::session_config` (sent = local, rcvd = peer) -/
def bmpConfig (sent rcvd : OpenInfo) : Config :=
  (Config.new (sent.four && rcvd.four)).addAll (intersection sent.ap rcvd.ap)

/-- mirrors bmp/message.rs:888 `pph_session_config`: four-octet from the per-peer header's A flag;
second component: the flags disagree -/
def pphConfig (sent rcvd : OpenInfo) (legacy : Bool) : Config × Bool :=
  ((Config.new (!legacy)).addAll (intersection sent.ap rcvd.ap),
   (!legacy) != (sent.four && rcvd.four))

/-- the OPEN a live session sends (session.rs:370 `send_open`): four-octet
always, SendReceive for every configured family -/
def liveLocal (cfgFams : List Fam) : OpenInfo := ⟨true, cfgFams.map (·, Dir.both)⟩

/-- mirrors session.rs (OpenSent/Active + BgpOpen, after the F19 fixes and the first-match fix):
`config.addpath().iter().filter_map(|fam| received.iter().find(|(f, _)| f == fam)
   .and_then(|(_, dir)| SendReceive.merge(*dir)).map(|m| AddpathFamDir::new(*fam, m)))` –
for every configured family the peer's FIRST entry for it, merged with SendReceive -/
def liveList (cfgFams : List Fam) (peerAp : FamList) : FamList :=
  cfgFams.filterMap fun g => ((lookup peerAp g).bind (merge .both)).map fun m => (g, m)

/-- Connection starts `modern()`; `set_negotiated_config` adds the list; the
four-octet flag follows the peer's OPEN -/
def liveConfig (cfgFams : List Fam) (peer : OpenInfo) : Config :=
  (Config.new peer.four).addAll (liveList cfgFams peer.ap)

/-! ### OPENs whose ADD-PATH capabilities do not all read

`OpenMessage::from_octets` validates only the first tuple of an ADD-PATH capability
(open.rs:490) and lets direction 0 through; `addpath_families_vec` (open.rs:176) fails on a
direction outside 1..3 in any tuple and on a value that is not a multiple of four octets.  `none`
below is that `Err`. -/

/-- what the derivations read from an accepted OPEN: `four_octet_capable()` and
`addpath_families_vec()` (`none` = `Err`) -/
structure OpenRd where
  four : Bool
  ap : Option FamList

/-- mirrors open.rs:209 `let (Ok(mine), Ok(other)) = … else { return vec![] }` + the filter_map -/
def intersectionE (mine other : Option FamList) : FamList :=
  match mine, other with
  | some a, some b => intersection a b
  | _, _ => []

def helperE (loc peer : OpenRd) : Config :=
  (Config.new (loc.four && peer.four)).addAll (intersectionE loc.ap peer.ap)

/-- bmp/message.rs:936 `session_config` on OPENs as read -/
def bmpConfigE (sent rcvd : OpenRd) : Config :=
  (Config.new (sent.four && rcvd.four)).addAll (intersectionE sent.ap rcvd.ap)

/-- bmp/message.rs:888 `pph_session_config` on OPENs as read -/
def pphConfigE (sent rcvd : OpenRd) (legacy : Bool) : Config × Bool :=
  ((Config.new (!legacy)).addAll (intersectionE sent.ap rcvd.ap),
   (!legacy) != (sent.four && rcvd.four))

/-- the live session (session.rs, both accepting arms): `let Ok(received_addpaths) =
open_msg.addpath_families_vec() else { disconnect; Idle; return Err }`; `none` = the OPEN is
refused (NOTIFICATION, Idle), nothing is negotiated -/
def liveConfigE (cfgFams : List Fam) (peer : OpenRd) : Option Config :=
  match peer.ap with
  | some ap => some (liveConfig cfgFams ⟨peer.four, ap⟩)
  | none => none

/-- ONE Session used for two connections (OPEN exchange #1, connection lost, a new stream through
`attach_stream`, OPEN exchange #2).  `attach_stream` (session.rs:137) makes a fresh
`Connection::for_read_half` whose SessionConfig is `modern()` with an empty ADD-PATH table, and the
second `set_negotiated_config` replaces `Session.negotiated`; so nothing of the first exchange
reaches the configuration of the second connection – the first only decides whether the session
gets that far (`none` = it refused the first OPEN). -/
def liveSecond (cfgFams : List Fam) (peer1 peer2 : OpenRd) : Option Config :=
  match liveConfigE cfgFams peer1 with
  | none => none
  | some _ => liveConfigE cfgFams peer2

end Rc.Negotiate
