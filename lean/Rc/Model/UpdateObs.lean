/-
Property C01, specification side on the level of TYPED attributes:

* `AttrC` / `TContent`: an abstract UPDATE content whose attributes are typed
  values (the 20 kinds of `path_attributes!`, AS paths also as wire segment
  lists), attributes of unrecognised type, MP_REACH_NLRI / MP_UNREACH_NLRI
  given as (family, next hop, reserved octet, NLRI list with path ids), and
  MP_REACH_NLRI / MP_UNREACH_NLRI of an UNSUPPORTED (AFI, SAFI) given as the
  opaque octets they carry;
* `encUpdateT`: the reference encoder of such a content for a session
  configuration (ASN width, ADD-PATH per family) – RFC 4271 4.3 / 4760 / 6793 /
  7911 framing over the typed value composers of C04 (`Rc.Attr.composeValue`),
  the AS path composers of C13 (`Rc.AsPath.compose`, both widths) and the NLRI
  composers of C05.  The driver's `enc` op prints its output, the harness prints
  the output of its own Rust reference encoder for the same content: the
  encoder the theorems speak about is tied to the encoder the oracle uses;
* `Observation` / `observeMsg` / `decObserve`: one record with a field for
  every accessor of the property's `observe_at` list, read off the decoder model
  of Rc/Model/Update.lean.

Core Lean only (the driver links this file).
-/
import Rc.Model.UpdateEnc

namespace Rc.Upd
open Rc Rc.Nlri Rc.Attr

/-! ### typed values on the wire, for a session's ASN width -/

/-- RFC 4271 4.3 / 5065: a path segment list on the wire – type, count, the AS
numbers two or four octets wide (RFC 6793) -/
def encSegsW (four : Bool) (ss : List AsPath.Seg) : Bytes :=
  ss.flatMap fun s =>
    UInt8.ofNat s.ty :: UInt8.ofNat s.asns.length :: (if four then AsPath.enc32 s.asns else AsPath.enc16 s.asns)

/-- the value octets of a typed attribute in a session of the given ASN width:
AS_PATH is composed in the session's width (`to_as_path` / `try_to_asn16_path`,
C13), the AGGREGATOR's AS number is two octets wide on a two-octet session
(RFC 6793 4.2.2); everything else – AS4_PATH and AS4_AGGREGATOR included – is
C04's `compose_value` -/
def typedValue (four : Bool) : TypedAttr → Outcome Bytes
  | .asPath h => AsPath.compose four h
  | .as4Path h => AsPath.compose true h
  | .aggregator asn addr => .ok ((if four then be32 asn else be16 asn) ++ be32 addr)
  | a => composeValue a

/-- one attribute of an abstract content.  `fl` is the flags octet as sent: its
EXTENDED_LEN bit selects the one- or two-octet length field, the other bits are
arbitrary (a decoder reports them as received). -/
inductive AttrC where
  /-- one of the 20 typed kinds -/
  | typed (fl : UInt8) (a : TypedAttr)
  /-- AS_PATH (`as4 = false`) / AS4_PATH given as the segments on the wire -/
  | path (fl : UInt8) (as4 : Bool) (ss : List AsPath.Seg)
  /-- an attribute of a type code routecore has no type for -/
  | raw (fl tc : UInt8) (v : Bytes)
  /-- MP_REACH_NLRI: family, next-hop field, the reserved octet as sent (RFC 4760
  3: "MUST be set to 0, and SHOULD be ignored upon receipt"), NLRI with their path ids -/
  | reach (fl : UInt8) (f : Fam) (nh : Bytes) (rsv : UInt8) (nlri : List (Nat × f.Val))
  /-- MP_UNREACH_NLRI -/
  | unreach (fl : UInt8) (f : Fam) (nlri : List (Nat × f.Val))
  /-- MP_REACH_NLRI of an (AFI, SAFI) `k` routecore has no NLRI type for
  (`AfiSafiType::Unsupported`): next-hop field, reserved octet, and the octets
  after it as they are (opaque: there is no rule to read them by) -/
  | reachU (fl : UInt8) (k : Nat × Nat) (nh : Bytes) (rsv : UInt8) (body : Bytes)
  /-- MP_UNREACH_NLRI of an unsupported (AFI, SAFI): the octets after AFI/SAFI as they are -/
  | unreachU (fl : UInt8) (k : Nat × Nat) (body : Bytes)

namespace AttrC

def fl : AttrC → UInt8
  | typed fl _ => fl | path fl _ _ => fl | raw fl _ _ => fl | reach fl _ _ _ _ => fl | unreach fl _ _ => fl
  | reachU fl _ _ _ _ => fl | unreachU fl _ _ => fl

def code : AttrC → Nat
  | typed _ a => a.code
  | path _ as4 _ => if as4 then 17 else 2
  | raw _ tc _ => tc.toNat
  | reach .. => 14
  | unreach .. => 15
  | reachU .. => 14
  | unreachU .. => 15

/-- the value octets under a session configuration -/
def value (cfg : Cfg) : AttrC → Outcome Bytes
  | typed _ a => typedValue cfg.four a
  | path _ as4 ss => .ok (encSegsW (as4 || cfg.four) ss)
  | raw _ _ v => .ok v
  | reach _ f nh rsv nlri =>
    match encNlris f (cfg.rx (famCode f)) nlri with
    | .ok b => .ok (mpReachValue (famCode f) nh rsv b)
    | .err => .err
    | .panic => .panic
  | unreach _ f nlri =>
    match encNlris f (cfg.rx (famCode f)) nlri with
    | .ok b => .ok (unreachValue f b)
    | .err => .err
    | .panic => .panic
  | reachU _ k nh rsv body => .ok (mpReachValue k nh rsv body)
  | unreachU _ k body => .ok (mpUnreachValue k body)

/-- flags, type code, value: what goes on the wire -/
def lower (cfg : Cfg) (a : AttrC) : Outcome RawAttr :=
  match a.value cfg with
  | .ok v => .ok ⟨a.fl, UInt8.ofNat a.code, v⟩
  | .err => .err
  | .panic => .panic

end AttrC

def lowerAll (cfg : Cfg) : List AttrC → Outcome (List RawAttr)
  | [] => .ok []
  | a :: r =>
    match a.lower cfg, lowerAll cfg r with
    | .ok x, .ok y => .ok (x :: y)
    | .panic, _ => .panic
    | _, .panic => .panic
    | _, _ => .err

/-- abstract UPDATE content with typed attributes -/
structure TContent where
  wd : List (Nat × Pfx)
  attrs : List AttrC
  ann : List (Nat × Pfx)

def TContent.lower (cfg : Cfg) (c : TContent) : Outcome Content :=
  match lowerAll cfg c.attrs with
  | .ok rs => .ok ⟨c.wd, rs, c.ann⟩
  | .err => .err
  | .panic => .panic

/-- **the reference encoder** of a typed content under a session configuration -/
def encUpdateT (cfg : Cfg) (c : TContent) : Outcome Bytes :=
  match c.lower cfg with
  | .ok rc => encUpdate cfg rc
  | .err => .err
  | .panic => .panic

/-! ### everything routecore reports about a message, as one record -/

abbrev Items := List (Outcome AnyNlri) × Bool

/-- One field per accessor of the property's `observe_at` list.  Iterators are
the collected items plus the "ended" flag; `Result` is `Outcome`. -/
@[ext] structure Observation where
  /-- `length()`, `withdrawn_routes_len()`, `total_path_attribute_len()` -/
  length : Nat
  wdLen : Nat
  attrLen : Nat
  /-- `path_attributes()`: each `WireformatPathAttribute` with its `flags()`,
  `type_code()`, `length()` (= value length) and value octets -/
  attrs : List (Outcome Wire) × Bool
  /-- `to_owned()` of each of them -/
  owned : List (Outcome Decoded)
  /-- `conventional_withdrawals()` / `conventional_announcements()` -/
  convWd : Items
  convAnn : Items
  /-- `mp_withdrawals()` / `mp_announcements()`: the iterator's NLRI type and items -/
  mpWd : Outcome (Option (NlriTy × Items))
  mpAnn : Outcome (Option (NlriTy × Items))
  /-- `withdrawals()` / `announcements()` -/
  withdrawals : Outcome Items
  announcements : Outcome Items
  /-- `withdrawals_vec()` / `announcements_vec()` -/
  wdVec : Outcome (List AnyNlri)
  annVec : Outcome (List AnyNlri)
  /-- `typed_withdrawals::<T>()` / `typed_announcements::<T>()` for the NLRI type `T`
  of family `f` that the message's own parse info selects (with or without
  ADD-PATH) -/
  typedWd : Fam → Outcome (Option Items)
  typedAnn : Fam → Outcome (Option Items)
  /-- `afi_safis()` -/
  afiSafis : Outcome (Option NlriTy × Option NlriTy × Option NlriTy × Option NlriTy)
  /-- `is_eor()` -/
  isEor : Outcome (Option (Nat × Nat))
  origin : Outcome (Option Nat)
  /-- `aspath()` / `as4path()`: the octets and the hops -/
  aspath : Outcome (Option (Bytes × AsPath.HopPath))
  as4path : Outcome (Option (Bytes × AsPath.HopPath))
  convNextHop : Outcome (Option NextHop)
  mpNextHop : Outcome (Option NextHop)
  /-- `find_next_hop(afi_safi)` -/
  findNextHop : Nat × Nat → Outcome NextHop
  med : Outcome (Option Nat)
  localPref : Outcome (Option Nat)
  isAtomicAggregate : Bool
  /-- `aggregator()`: AS number and address octets -/
  aggregator : Outcome (Option (Nat × Bytes))
  communities : Option (List (Outcome Bytes) × Bool)
  extCommunities : Option (List (Outcome Bytes) × Bool)
  ipv6ExtCommunities : Option (List (Outcome Bytes) × Bool)
  largeCommunities : Option (List (Outcome Bytes) × Bool)
  /-- `all_communities()` -/
  allCommunities : Outcome (Option (List Bytes))

def withItems (x : Outcome (Option (NlriTy × Bytes))) : Outcome (Option (NlriTy × Items)) :=
  mapO (Option.map fun p => (p.1, enumItems p.1 p.2)) x

/-- `WireformatPathAttribute::to_owned` on every item of `path_attributes()` -/
def ownedOf (four : Bool) : Outcome Wire → Outcome Decoded
  | .ok w => toOwned four w
  | .err => .err
  | .panic => .panic

/-- the ADD-PATH flag of the NLRI type the message itself reports for family
`f` in its withdrawn (`reach = false`) / announced part -/
def Msg.typeAp (m : Msg) (reach : Bool) (f : Fam) : Bool :=
  if f = .v4u ∧ (if reach then m.ann else m.wd) ≠ [] then m.ppi.conv
  else if reach then m.ppi.mpReach else m.ppi.mpUnreach

/-- every accessor of an accepted message -/
def observeMsg (m : Msg) : Observation where
  length := m.length
  wdLen := m.wdLen
  attrLen := m.attrLen
  attrs := m.pathAttributes
  owned := m.pathAttributes.1.map (ownedOf m.ppi.four)
  convWd := m.convWd
  convAnn := m.convAnn
  mpWd := withItems m.mpWd
  mpAnn := withItems m.mpAnn
  withdrawals := m.withdrawals
  announcements := m.announcements
  wdVec := m.wdVec
  annVec := m.annVec
  typedWd := fun f => m.typedWd f (m.typeAp false f)
  typedAnn := fun f => m.typedAnn f (m.typeAp true f)
  afiSafis := m.afiSafis
  isEor := m.isEor
  origin := m.origin
  aspath := m.aspath
  as4path := m.as4path
  convNextHop := m.convNextHop
  mpNextHop := m.mpNextHop
  findNextHop := m.findNextHop
  med := m.med
  localPref := m.localPref
  isAtomicAggregate := m.isAtomicAggregate
  aggregator := m.aggregator
  communities := m.communities
  extCommunities := m.extCommunities
  ipv6ExtCommunities := m.ipv6ExtCommunities
  largeCommunities := m.largeCommunities
  allCommunities := m.allCommunities

/-- `UpdateMessage::from_octets(bytes, cfg)` followed by every accessor -/
def decObserve (cfg : Cfg) (bs : Bytes) : Outcome Observation :=
  match parseUpdate cfg bs with
  | .ok m => .ok (observeMsg m)
  | .err => .err
  | .panic => .panic

end Rc.Upd
