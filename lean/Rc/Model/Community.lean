/-
Executable model of src/bgp/communities.rs (C19): the four community flavours
as raw byte arrays, the `wellknown!` table (generated: Rc/Gen/Wellknown.lean),
classification predicates, accessors, `Display` and `FromStr` of every flavour
and of the `Community` enum.

Texts are `List Char` (Unicode scalar values; the driver decodes the UTF-8 of
the request).  The numeral printers/parsers are written here from scratch and
mirror what the *code uses* of `core::num::from_str_radix`, `u16/u32::from_str`,
`Ipv4Addr::from_str`, `str::strip_prefix`, `str::split_once`, `str::splitn`,
`str::to_lowercase`, `{}` / `{:02X}` / `{:02x}` / `{:x}` / `{:04X}`; the
correspondence run validates them (malformed and odd texts included).

Raw values are `Bytes`; a flavour's functions are meant for lists of that
flavour's length (4 / 8 / 12 / 20) – in Rust the length is in the type.  The
driver rejects other lengths as `bad-op`.  Core Lean only.
-/
import Rc.Base
import Rc.Gen.Wellknown

namespace Rc.Community
open Rc

abbrev Text := List Char

/-! ## numerals -/

/-- `char::to_digit(10)` -/
def decVal (c : Char) : Option Nat :=
  if 48 ≤ c.toNat ∧ c.toNat ≤ 57 then some (c.toNat - 48) else none

/-- `char::to_digit(16)`: both cases -/
def hexValC (c : Char) : Option Nat :=
  if 48 ≤ c.toNat ∧ c.toNat ≤ 57 then some (c.toNat - 48)
  else if 97 ≤ c.toNat ∧ c.toNat ≤ 102 then some (c.toNat - 87)
  else if 65 ≤ c.toNat ∧ c.toNat ≤ 70 then some (c.toNat - 55)
  else none

/-- digits, most significant first, accumulated without a bound -/
def parseDigits (val : Char → Option Nat) (radix : Nat) : Text → Nat → Option Nat
  | [], acc => some acc
  | c :: r, acc =>
    match val c with
    | some d => parseDigits val radix r (acc * radix + d)
    | none => none

/-- mirrors `core::num::<impl uN>::from_str_radix` for an unsigned type with
`bound = 2^N`: one optional leading `+` (never `-`), then at least one digit;
overflow is an error (the running value only grows, so "some prefix overflows"
is "the whole value is ≥ bound"). -/
def stripPlus : Text → Text
  | '+' :: r => r
  | s => s

def parseUnsignedBody (val : Char → Option Nat) (radix bound : Nat) : Text → Option Nat
  | [] => none
  | c :: r =>
    match parseDigits val radix (c :: r) 0 with
    | some v => if v < bound then some v else none
    | none => none

def parseUnsigned (val : Char → Option Nat) (radix bound : Nat) (s : Text) : Option Nat :=
  parseUnsignedBody val radix bound (stripPlus s)

def parseDecU16 (s : Text) : Option Nat := parseUnsigned decVal 10 65536 s
def parseDecU32 (s : Text) : Option Nat := parseUnsigned decVal 10 4294967296 s
def parseHexU32 (s : Text) : Option Nat := parseUnsigned hexValC 16 4294967296 s
def parseHexU64 (s : Text) : Option Nat := parseUnsigned hexValC 16 18446744073709551616 s

def digitChar (d : Nat) : Char := Char.ofNat (48 + d)

/-- `{}` of an unsigned integer: decimal, no sign, no padding (`0` for zero).
Fuel `n + 1` always suffices (one digit per step). -/
def showDecAux : Nat → Nat → Text → Text
  | 0, _, acc => acc
  | fuel + 1, n, acc =>
    let acc' := digitChar (n % 10) :: acc
    if n < 10 then acc' else showDecAux fuel (n / 10) acc'

def showDec (n : Nat) : Text := showDecAux (n + 1) n []

def hexDigitU (d : Nat) : Char := if d < 10 then Char.ofNat (48 + d) else Char.ofNat (55 + d)
def hexDigitL (d : Nat) : Char := if d < 10 then Char.ofNat (48 + d) else Char.ofNat (87 + d)

/-- `{:02X}` of a `u8` -/
def hex2U (b : UInt8) : Text := [hexDigitU (b.toNat / 16), hexDigitU (b.toNat % 16)]
/-- `{:02x}` of a `u8` -/
def hex2L (b : UInt8) : Text := [hexDigitL (b.toNat / 16), hexDigitL (b.toNat % 16)]
/-- `{:x}` of a `u8` (no padding) -/
def hexL (b : UInt8) : Text :=
  if b.toNat < 16 then [hexDigitL b.toNat] else [hexDigitL (b.toNat / 16), hexDigitL (b.toNat % 16)]

/-- big-endian value of a byte string (`uN::from_be_bytes`) -/
def beVal (bs : Bytes) : Nat := bs.foldl (fun acc b => acc * 256 + b.toNat) 0

/-- `uN::to_be_bytes` for `N = 8k` -/
def beBytes : Nat → Nat → Bytes
  | 0, _ => []
  | k + 1, v => beBytes k (v / 256) ++ [UInt8.ofNat (v % 256)]

/-! ## str helpers -/

/-- `str::strip_prefix(&str)` -/
def stripPrefix : Text → Text → Option Text
  | [], s => some s
  | _ :: _, [] => none
  | a :: p, b :: s => if a = b then stripPrefix p s else none

/-- `str::split_once(char)` -/
def splitOnce (sep : Char) : Text → Option (Text × Text)
  | [] => none
  | c :: r =>
    if c = sep then some ([], r)
    else match splitOnce sep r with
      | some (a, b) => some (c :: a, b)
      | none => none

/-- mirrors communities.rs:1577 `strip_as` (and the identical private function of inetnum::asn) -/
def stripAs (s : Text) : Text :=
  match stripPrefix ['A', 'S'] s with
  | some r => r
  | none =>
    match stripPrefix ['a', 's'] s with
    | some r => r
    | none =>
      match stripPrefix ['A', 's'] s with
      | some r => r
      | none =>
        match stripPrefix ['a', 'S'] s with
        | some r => r
        | none => s

/-- what `str::to_lowercase` does to a character *as far as comparing the result
with an ASCII key is concerned*: ASCII upper case → lower case; U+212A KELVIN
SIGN → `k` (the only non-ASCII scalar value whose lower-case mapping is pure
ASCII – validated by the harness op `lowercheck` over all scalar values); every
other non-ASCII character keeps the string non-ASCII, so it is left alone. -/
def lowerChar (c : Char) : Char :=
  if 65 ≤ c.toNat ∧ c.toNat ≤ 90 then Char.ofNat (c.toNat + 32)
  else if c.toNat = 0x212A then 'k'
  else c

def lower (s : Text) : Text := s.map lowerChar

/-- `str::len()`: length in UTF-8 bytes -/
def byteLen (s : Text) : Nat := (s.map Char.utf8Size).sum

/-- `&s[..n]` / `&s[n..]` at byte offset `n`: `none` = Rust panics (offset past
the end or not on a character boundary). -/
def splitAtByte : Text → Nat → Option (Text × Text)
  | s, 0 => some ([], s)
  | [], _ + 1 => none
  | c :: r, n + 1 =>
    if c.utf8Size ≤ n + 1 then
      match splitAtByte r (n + 1 - c.utf8Size) with
      | some (a, b) => some (c :: a, b)
      | none => none
    else none

/-! ## Wellknown (the `wellknown!` macro body; table generated from source) -/

structure WkRow where
  value : Nat
  var : Text
  names : List Text
  deriving Repr

def wkRows : List WkRow := Gen.wellknownRows.map fun (v, var, names) => ⟨v, var, names⟩

inductive Wk where
  | named (i : Nat)          -- index into `wkRows`
  | unrecognized (n : Nat)   -- `Unrecognized(u16)`
  deriving Repr, DecidableEq

def findRowIdx (p : WkRow → Bool) : List WkRow → Nat → Option Nat
  | [], _ => none
  | r :: rs, i => if p r then some i else findRowIdx p rs (i + 1)

/-- mirrors `Wellknown::from_u16` / `From<u16>`: first arm whose literal equals `0xffff0000 | n` -/
def Wk.fromU16 (n : Nat) : Wk :=
  match findRowIdx (fun r => r.value == 0xFFFF0000 + n % 65536) wkRows 0 with
  | some i => .named i
  | none => .unrecognized (n % 65536)

/-- mirrors `Wellknown::to_u32` -/
def Wk.toU32 : Wk → Nat
  | .named i => match wkRows[i]? with
    | some r => r.value
    | none => 0
  | .unrecognized n => 0xFFFF0000 + n

/-- mirrors `TryFrom<u32> for Wellknown` (`None` = `Err`) -/
def Wk.tryFromU32 (v : Nat) : Option Wk :=
  if v / 65536 % 65536 ≠ 0xFFFF then none else some (Wk.fromU16 (v % 65536))

/-- the keys one row of `Wellknown::from_str` accepts: the lower-cased names, then the lower-cased identifier -/
def WkRow.keys (r : WkRow) : List Text := r.names.map lower ++ [lower r.var]

/-- mirrors `Wellknown::from_str`: lower-case the input, first row with a matching key -/
def Wk.parse (s : Text) : Option Wk :=
  let l := lower s
  match findRowIdx (fun r => r.keys.contains l) wkRows 0 with
  | some i => some (.named i)
  | none => none

/-- mirrors `Display for Wellknown` -/
def Wk.display : Wk → Text
  | .named i => match wkRows[i]? with
    | some r => r.names.headD []
    | none => []
  | .unrecognized n =>
    ['0', 'x', 'F', 'F', 'F', 'F'] ++ hex2U (UInt8.ofNat (n / 256)) ++ hex2U (UInt8.ofNat (n % 256))

/-! ## StandardCommunity -/

def byteAt (raw : Bytes) (i : Nat) : UInt8 := raw.getD i 0

/-- `StandardCommunity::to_u32` -/
def stdU32 (raw : Bytes) : Nat := beVal (raw.take 4)

def isWellknown (raw : Bytes) : Bool := byteAt raw 0 == 0xFF && byteAt raw 1 == 0xFF
def isReserved (raw : Bytes) : Bool := byteAt raw 0 == 0x00 && byteAt raw 1 == 0x00
def isPrivate (raw : Bytes) : Bool :=
  !((byteAt raw 0 == 0xFF && byteAt raw 1 == 0xFF) || (byteAt raw 0 == 0x00 && byteAt raw 1 == 0x00))

/-- `StandardCommunity::asn` (the `Asn`'s number) -/
def stdAsn (raw : Bytes) : Option Nat :=
  if !isWellknown raw then some ((byteAt raw 0).toNat * 256 + (byteAt raw 1).toNat) else none

/-- `StandardCommunity::tag` -/
def stdTag (raw : Bytes) : Option Nat :=
  if !isWellknown raw then some ((byteAt raw 2).toNat * 256 + (byteAt raw 3).toNat) else none

def toWellknown (raw : Bytes) : Option Wk := Wk.tryFromU32 (stdU32 raw)

/-- mirrors `Display for StandardCommunity` (the two `unwrap`s are explicit) -/
def displayStd (raw : Bytes) : Outcome Text :=
  match toWellknown raw with
  | some wk => .ok (Wk.display wk)
  | none =>
    match stdAsn raw, stdTag raw with
    | some a, some t => .ok (['A', 'S'] ++ showDec a ++ [':'] ++ showDec t)
    | _, _ => .panic

/-- mirrors `FromStr for StandardCommunity` (after fix F21b: at most 8 hex digits).
`hex.len()` is a byte length; a text with fewer characters than bytes contains a
non-ASCII character and is rejected by the digit parser anyway, so the character
count decides the same. -/
def parseStd (s : Text) : Outcome Bytes :=
  match Wk.parse s with
  | some wk => .ok (beBytes 4 (Wk.toU32 wk))
  | none =>
    match splitOnce ':' s with
    | some (a, t) =>
      match parseDecU16 (stripAs a) with
      | none => .err
      | some asn =>
        match parseDecU16 t with
        | none => .err
        | some tag => .ok (beBytes 2 asn ++ beBytes 2 tag)
    | none =>
      match stripPrefix ['0', 'x'] s with
      | some hex =>
        if hex.length > 8 then .err else
        match parseHexU32 hex with
        | some v => .ok (beBytes 4 v)
        | none => .err
      | none => .err

/-! ## ExtendedCommunity -/

inductive ExtType where
  | transitiveTwoOctetSpecific | transitiveIp4Specific | transitiveFourOctetSpecific | transitiveOpaque
  | nonTransitiveTwoOctetSpecific | nonTransitiveIp4Specific | nonTransitiveFourOctetSpecific
  | nonTransitiveOpaque
  | otherType (t : Nat)
  deriving Repr, DecidableEq

inductive ExtSub where
  | routeTarget | routeOrigin | otherSubType (s : Nat)
  deriving Repr, DecidableEq

open ExtType ExtSub in
/-- mirrors `ExtendedCommunity::types` arm by arm (after fix F21a: the catch-all reports octet 1) -/
def extTypes (raw : Bytes) : ExtType × ExtSub :=
  let t := (byteAt raw 0).toNat
  let s := (byteAt raw 1).toNat
  if t = 0x00 then
    if s = 0x02 then (transitiveTwoOctetSpecific, routeTarget)
    else if s = 0x03 then (transitiveTwoOctetSpecific, routeOrigin)
    else (transitiveTwoOctetSpecific, otherSubType s)
  else if t = 0x01 then
    if s = 0x02 then (transitiveIp4Specific, routeTarget)
    else if s = 0x03 then (transitiveIp4Specific, routeOrigin)
    else (transitiveIp4Specific, otherSubType s)
  else if t = 0x02 then
    if s = 0x02 then (transitiveFourOctetSpecific, routeTarget)
    else if s = 0x03 then (transitiveFourOctetSpecific, routeOrigin)
    else (transitiveFourOctetSpecific, otherSubType s)
  else if t = 0x03 then (transitiveOpaque, otherSubType s)
  else if t = 0x40 then (nonTransitiveTwoOctetSpecific, otherSubType s)
  else if t = 0x41 then (nonTransitiveIp4Specific, otherSubType s)
  else if t = 0x42 then (nonTransitiveFourOctetSpecific, otherSubType s)
  else if t = 0x43 then
    if s = 0x02 then (nonTransitiveOpaque, routeTarget)
    else (nonTransitiveOpaque, otherSubType s)
  else (otherType t, otherSubType s)

/-- `is_transitive`: bit 0x40 of the type octet clear -/
def extIsTransitive (raw : Bytes) : Bool := (byteAt raw 0).toNat / 64 % 2 == 0

def slice (raw : Bytes) (lo hi : Nat) : Bytes := (raw.drop lo).take (hi - lo)

def extAs2 (raw : Bytes) : Option Nat :=
  match (extTypes raw).1 with
  | .transitiveTwoOctetSpecific | .nonTransitiveTwoOctetSpecific => some (beVal (slice raw 2 4))
  | _ => none

def extAs4 (raw : Bytes) : Option Nat :=
  match (extTypes raw).1 with
  | .transitiveFourOctetSpecific | .nonTransitiveFourOctetSpecific => some (beVal (slice raw 2 6))
  | _ => none

def extIp4 (raw : Bytes) : Option Bytes :=
  match (extTypes raw).1 with
  | .transitiveIp4Specific | .nonTransitiveIp4Specific => some (slice raw 2 6)
  | _ => none

def extAn2 (raw : Bytes) : Option Nat :=
  match (extTypes raw).1 with
  | .transitiveIp4Specific | .nonTransitiveIp4Specific
  | .transitiveFourOctetSpecific | .nonTransitiveFourOctetSpecific => some (beVal (slice raw 6 8))
  | _ => none

def extAn4 (raw : Bytes) : Option Nat :=
  match (extTypes raw).1 with
  | .transitiveTwoOctetSpecific | .nonTransitiveTwoOctetSpecific => some (beVal (slice raw 4 8))
  | _ => none

/-- `Display for Ipv4Addr` -/
def showIp4 (ip : Bytes) : Text :=
  showDec (byteAt ip 0).toNat ++ ['.'] ++ showDec (byteAt ip 1).toNat ++ ['.'] ++
  showDec (byteAt ip 2).toNat ++ ['.'] ++ showDec (byteAt ip 3).toNat

/-- one group of `Ipv4Addr::from_str`: 1..3 decimal digits, no leading zero
unless the group is `0`, value ≤ 255 -/
def parseOctet (s : Text) : Option Nat :=
  if s.length = 0 ∨ s.length > 3 then none else
  match parseDigits decVal 10 s 0 with
  | none => none
  | some v =>
    if s.length > 1 ∧ s.head? = some '0' then none
    else if v > 255 then none else some v

/-- mirrors `Ipv4Addr::from_str`: exactly four groups separated by `.` -/
def parseIp4 (s : Text) : Option Bytes :=
  match splitOnce '.' s with
  | none => none
  | some (p0, r0) =>
    match splitOnce '.' r0 with
    | none => none
    | some (p1, r1) =>
      match splitOnce '.' r1 with
      | none => none
      | some (p2, p3) =>
        match parseOctet p0, parseOctet p1, parseOctet p2, parseOctet p3 with
        | some a, some b, some c, some d => some [UInt8.ofNat a, UInt8.ofNat b, UInt8.ofNat c, UInt8.ofNat d]
        | _, _, _, _ => none

def asText (n : Nat) : Text := ['A', 'S'] ++ showDec n

/-- mirrors `Display for ExtendedCommunity` (each `unwrap` explicit) -/
def displayExt (raw : Bytes) : Outcome Text :=
  let pre (sub : ExtSub) : Text := if sub = .routeTarget then ['r', 't', ':'] else ['r', 'o', ':']
  match extTypes raw with
  | (.transitiveTwoOctetSpecific, .routeTarget) | (.transitiveTwoOctetSpecific, .routeOrigin) =>
    match extAs2 raw, extAn4 raw with
    | some a, some n => .ok (pre (extTypes raw).2 ++ asText a ++ [':'] ++ showDec n)
    | _, _ => .panic
  | (.transitiveIp4Specific, .routeTarget) | (.transitiveIp4Specific, .routeOrigin) =>
    match extIp4 raw, extAn2 raw with
    | some ip, some n => .ok (pre (extTypes raw).2 ++ showIp4 ip ++ [':'] ++ showDec n)
    | _, _ => .panic
  | (.transitiveFourOctetSpecific, .routeTarget) | (.transitiveFourOctetSpecific, .routeOrigin) =>
    match extAs4 raw, extAn2 raw with
    | some a, some n => .ok (pre (extTypes raw).2 ++ asText a ++ [':'] ++ showDec n)
    | _, _ => .panic
  | (.nonTransitiveOpaque, .routeTarget) =>
    .ok (['r', 't', ':'] ++ (slice raw 2 8).flatMap hexL)
  | _ => .ok (['0', 'x'] ++ (raw.take 8).flatMap hex2U)

/-- the `rt` / `ro` arm of `FromStr for ExtendedCommunity`; `sub` is 2 or 3 -/
def parseExtTagged (sub : Nat) (tail : Text) : Outcome Bytes :=
  match splitOnce ':' tail with
  | none => .err
  | some (ga, an) =>
    let ga := stripAs ga
    match parseDecU16 ga with
    | some as2 =>
      match parseDecU32 an with
      | some n => .ok ([0x00, UInt8.ofNat sub] ++ beBytes 2 as2 ++ beBytes 4 n)
      | none => .err
    | none =>
      match parseDecU32 ga with
      | some as4 =>
        match parseDecU16 an with
        | some n => .ok ([0x02, UInt8.ofNat sub] ++ beBytes 4 as4 ++ beBytes 2 n)
        | none => .err
      | none =>
        match parseIp4 ga with
        | some ip =>
          match parseDecU16 an with
          | some n => .ok ([0x01, UInt8.ofNat sub] ++ ip ++ beBytes 2 n)
          | none => .err
        | none => .err

/-- mirrors `FromStr for ExtendedCommunity` (after fix F21b: at most 16 hex digits) -/
def parseExt (s : Text) : Outcome Bytes :=
  match splitOnce ':' s with
  | some (tag, tail) =>
    if tag = ['r', 't'] then parseExtTagged 2 tail
    else if tag = ['r', 'o'] then parseExtTagged 3 tail
    else .err
  | none =>
    match stripPrefix ['0', 'x'] s with
    | some hex =>
      if hex.length > 16 then .err else
      match parseHexU64 hex with
      | some v => .ok (beBytes 8 v)
      | none => .err
    | none => .err

/-! ## Ipv6ExtendedCommunity -/

def v6IsTransitive (raw : Bytes) : Bool := (byteAt raw 0).toNat / 64 % 2 == 0
def v6An2 (raw : Bytes) : Nat := beVal (slice raw 18 20)

/-- mirrors `Display for Ipv6ExtendedCommunity`; `none` = the `rt:<ipv6>:<an2>`
form of type 0x00/0x02, which is not modelled (`Display for Ipv6Addr`) and is
outside the property (it does not parse back; the code says so itself). -/
def displayV6 (raw : Bytes) : Option Text :=
  if (byteAt raw 0).toNat = 0x00 ∧ (byteAt raw 1).toNat = 0x02 then none
  else some (['0', 'x'] ++ (raw.take 20).flatMap hex2L)

/-- mirrors `FromStr for Ipv6ExtendedCommunity`: `hex.len()` is a *byte* length
and the three slices panic when they do not fall on character boundaries. -/
def parseV6 (s : Text) : Outcome Bytes :=
  match stripPrefix ['0', 'x'] s with
  | none => .err
  | some hex =>
    if byteLen hex ≠ 40 then .err else
    match splitAtByte hex 16 with
    | none => .panic
    | some (h1, rest) =>
      match parseHexU64 h1 with
      | none => .err
      | some v1 =>
        -- `&hex[16..32]`, `&hex[32..40]`: offsets 16 (already known to be a boundary) and 32
        match splitAtByte rest 16 with
        | none => .panic
        | some (h2, h3) =>
          match parseHexU64 h2 with
          | none => .err
          | some v2 =>
            match parseHexU32 h3 with
            | none => .err
            | some v3 => .ok (beBytes 8 v1 ++ beBytes 8 v2 ++ beBytes 4 v3)

/-! ## LargeCommunity -/

def lrgGlobal (raw : Bytes) : Nat := beVal (slice raw 0 4)
def lrgLocal1 (raw : Bytes) : Nat := beVal (slice raw 4 8)
def lrgLocal2 (raw : Bytes) : Nat := beVal (slice raw 8 12)

/-- mirrors `Display for LargeCommunity` -/
def displayLarge (raw : Bytes) : Text :=
  showDec (lrgGlobal raw) ++ [':'] ++ showDec (lrgLocal1 raw) ++ [':'] ++ showDec (lrgLocal2 raw)

/-- mirrors `FromStr for LargeCommunity` (`splitn(3, ':')`: the third part is the whole remainder) -/
def parseLarge (s : Text) : Outcome Bytes :=
  let (ga, rest) := match splitOnce ':' s with
    | some (a, r) => (a, some r)
    | none => (s, none)
  match parseDecU32 (stripAs ga) with
  | none => .err
  | some g =>
    match rest with
    | none => .err
    | some rest =>
      let (l1, rest2) := match splitOnce ':' rest with
        | some (a, r) => (a, some r)
        | none => (rest, none)
      match parseDecU32 l1 with
      | none => .err
      | some v1 =>
        match rest2 with
        | none => .err
        | some l2 =>
          match parseDecU32 l2 with
          | none => .err
          | some v2 => .ok (beBytes 4 g ++ beBytes 4 v1 ++ beBytes 4 v2)

/-! ## the `Community` enum -/

inductive Comm where
  | standard (raw : Bytes)
  | extended (raw : Bytes)
  | ipv6Extended (raw : Bytes)
  | large (raw : Bytes)
  deriving Repr, DecidableEq

/-- `From<[u8; N]> for Community`: the flavour is the length -/
def Comm.ofRaw (raw : Bytes) : Option Comm :=
  if raw.length = 4 then some (.standard raw)
  else if raw.length = 8 then some (.extended raw)
  else if raw.length = 12 then some (.large raw)
  else if raw.length = 20 then some (.ipv6Extended raw)
  else none

/-- `AsRef<[u8]> for Community` / `to_raw` of the flavour -/
def Comm.raw : Comm → Bytes
  | .standard r | .extended r | .ipv6Extended r | .large r => r

/-- mirrors `FromStr for Community`: Standard, then Large, then Extended, then
IPv6 Extended; `if let Ok(..)` swallows errors, a panic propagates. -/
def parseAny (s : Text) : Outcome Comm :=
  match parseStd s with
  | .ok r => .ok (.standard r)
  | .panic => .panic
  | .err =>
    match parseLarge s with
    | .ok r => .ok (.large r)
    | .panic => .panic
    | .err =>
      match parseExt s with
      | .ok r => .ok (.extended r)
      | .panic => .panic
      | .err =>
        match parseV6 s with
        | .ok r => .ok (.ipv6Extended r)
        | .panic => .panic
        | .err => .err

/-- `Display for Community` (`none`: the unmodelled `rt:<ipv6>:..` text) -/
def displayAny : Comm → Option (Outcome Text)
  | .standard r => some (displayStd r)
  | .extended r => some (displayExt r)
  | .large r => some (.ok (displayLarge r))
  | .ipv6Extended r => (displayV6 r).map .ok

end Rc.Community
