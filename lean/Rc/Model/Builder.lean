/-
Model of `UpdateBuilder` (src/bgp/message/update_builder.rs) as far as property
C06 needs it: validity, PDU length calculation, the splitter `take_message`,
`into_message`, `into_messages`, `PduIterator`.

An NLRI is abstract except for its encoded length `sz n` (= `compose_len()`,
what drives the splitter); the non-MP path attributes are the list of their
`compose_len()`s (`PaMap::bytes_len` is the sum, `PaMap::is_empty` is `[]`).
The model follows the code after the `fix:` commits of C06
(`into_message` → `PduTooLarge` above `MAX_PDU`; split point never 0 and no
remainder without NLRI; saturating `limit`; `set_nexthop` refuses
`NextHop::Unimplemented`; `set_nexthop_ll_addr` refuses a held next hop that is
not `Unicast(V6)` / `Ipv6LL`; `from_attributes_builder` drops raw copies of
MP_REACH_NLRI / MP_UNREACH_NLRI from the attribute map).

Core Lean only (the driver links this file).
-/
import Rc.Base

namespace Rc.Builder

/-- `bgp::nlri::nexthop::NextHop`, the variants with an encoding: `Unicast(V4)`,
`Unicast(V6)`, `Multicast(V4)`, `Multicast(V6)`, `Ipv6LL`, `MplsVpnUnicast(_, V4)`,
`MplsVpnUnicast(_, V6)`, `Empty`.  Unicast and Multicast are written alike but
`set_nexthop_ll_addr` tells them apart. -/
inductive NextHop where
  | v4 | v6 | m4 | m6 | ll | vpn4 | vpn6 | empty
  deriving DecidableEq, Repr

/-- mirrors update_builder.rs `NextHop::compose_len` (length octet included) -/
def NextHop.composeLen : NextHop → Nat
  | .v4 => 1 + 4
  | .v6 => 1 + 16
  | .m4 => 1 + 4
  | .m6 => 1 + 16
  | .ll => 1 + 32
  | .vpn4 => 1 + (8 + 4)
  | .vpn6 => 1 + (8 + 16)
  | .empty => 1 + 0

/-- the `ComposeError` kinds the modelled paths can return -/
inductive Err where
  | tooLarge | emptyReach | emptyUnreach
  deriving DecidableEq, Repr

/-- `Result<_, ComposeError>` plus an unwinding outcome -/
inductive Res (α : Type) where
  | ok (a : α)
  | err (e : Err)
  | panic
  deriving Repr

/-- `UpdateBuilder::MAX_PDU` (update_builder.rs:28) -/
def MAX_PDU : Nat := 4096

/-- the literal of `if compose_len > 4000 {` in `take_message` (update_builder.rs:475): the size of a
batch of MP withdrawals (tied to the source by `Rc.Gen.batchThreshold`, `Rc.Thm.C06.model_constants_agree`) -/
abbrev BATCH : Nat := 4000

/-- `UpdateBuilder { announcements, withdrawals, attributes }` -/
structure B (N : Type) where
  wd : Option (List N)
  ann : Option (List N × NextHop)
  attrs : List Nat

/-- What `finish` writes: the two length fields and the sections. -/
structure Msg (N : Type) where
  /-- the header length field -/
  lenField : Nat
  /-- the total path attribute length field -/
  attrLenField : Nat
  /-- content of the MP_UNREACH_NLRI attribute, if written -/
  wd : Option (List N)
  /-- content of the MP_REACH_NLRI attribute, if written -/
  ann : Option (List N × NextHop)
  /-- the other attributes written -/
  attrs : List Nat

section
variable {N : Type} (sz : N → Nat)

/-- `iter().fold(0, |sum, w| sum + w.compose_len())` -/
def sumSz (l : List N) : Nat := (l.map sz).sum

/-- mirrors path_attributes.rs:333 `PaMap::bytes_len` -/
def attrsLen (as : List Nat) : Nat := as.sum

/-- mirrors path_attributes.rs:903 `Attribute::header_len` (`is_extended` = value_len > 255) -/
def hdrLen (valueLen : Nat) : Nat := if valueLen > 255 then 4 else 3

/-- mirrors update_builder.rs `MpReachNlriBuilder::value_len` -/
def reachValueLen (l : List N) (nh : NextHop) : Nat := 2 + 1 + 1 + nh.composeLen + sumSz sz l

/-- `Attribute::compose_len` of the MP_REACH_NLRI builder -/
def reachLen (l : List N) (nh : NextHop) : Nat :=
  hdrLen (reachValueLen sz l nh) + reachValueLen sz l nh

/-- mirrors `MpUnreachNlriBuilder::value_len` -/
def unreachValueLen (l : List N) : Nat := 3 + sumSz sz l

def unreachLen (l : List N) : Nat := hdrLen (unreachValueLen sz l) + unreachValueLen sz l

def optReachLen : Option (List N × NextHop) → Nat
  | some (l, nh) => reachLen sz l nh
  | none => 0

def optUnreachLen : Option (List N) → Nat
  | some l => unreachLen sz l
  | none => 0

/-- mirrors update_builder.rs `calculate_pdu_length` -/
def calcPduLen (b : B N) : Nat :=
  (16 + 2 + 1) + 2 + (2 + attrsLen b.attrs) + optReachLen sz b.ann + optUnreachLen sz b.wd

/-- mirrors `larger_than`, including the `len * 2 > max` shortcut -/
def largerThan (b : B N) (max : Nat) : Bool :=
  (match b.ann with
   | some (l, _) => decide (l.length * 2 > max)
   | none => false)
  || decide (calcPduLen sz b > max)

def annIsEmpty : Option (List N × NextHop) → Bool
  | some (l, _) => l.isEmpty
  | none => false

def annNonEmpty : Option (List N × NextHop) → Bool
  | some (l, _) => !l.isEmpty
  | none => false

def wdIsEmpty : Option (List N) → Bool
  | some l => l.isEmpty
  | none => false

def wdNonEmpty : Option (List N) → Bool
  | some l => !l.isEmpty
  | none => false

/-- mirrors `is_valid`; `none` is `Ok(())` -/
def isValid (b : B N) : Option Err :=
  if annIsEmpty b.ann then some .emptyReach
  else if wdIsEmpty b.wd && (annNonEmpty b.ann || !b.attrs.isEmpty) then some .emptyUnreach
  else none

/-- mirrors `finish`: the two `u16::try_from(..).unwrap()` are the panics -/
def finish (b : B N) : Res (Msg N) :=
  let total := calcPduLen sz b
  if total ≥ 65536 then .panic
  else
    let al := attrsLen b.attrs + optReachLen sz b.ann + optUnreachLen sz b.wd
    if al ≥ 65536 then .panic
    else .ok { lenField := total, attrLenField := al, wd := b.wd, ann := b.ann, attrs := b.attrs }

/-- mirrors `into_message` (after the fix: `PduTooLarge` above `MAX_PDU`).
`UpdateMessage::from_octets` on the builder's own output is taken to succeed;
the correspondence run is what checks that. -/
def intoMessage (b : B N) : Res (Msg N) :=
  match isValid b with
  | some e => .err e
  | none => if calcPduLen sz b > MAX_PDU then .err .tooLarge else finish sz b

/-- the `for (idx, w) in ….iter().enumerate()` loop of `take_message`:
index of the first NLRI at which the running sum exceeds `thr` -/
def splitLoop (thr : Nat) : List N → Nat → Nat → Option Nat
  | [], _, _ => none
  | x :: xs, idx, acc =>
    let acc' := acc + sz x
    if acc' > thr then some idx else splitLoop thr xs (idx + 1) acc'

/-- `split_at` after the fix: everything if the loop never breaks, otherwise
`max(idx, 1)` -/
def splitPoint (thr : Nat) (l : List N) : Nat :=
  match splitLoop sz thr l 0 0 with
  | some i => max i 1
  | none => l.length

/-- mirrors `into_remainder` (added by the fix) -/
def intoRemainder (b : B N) : Option (B N) :=
  if wdNonEmpty b.wd || annNonEmpty b.ann then some b else none

/-- mirrors `take_message` -/
def takeMessage (b : B N) : Res (Msg N) × Option (B N) :=
  if !largerThan sz b MAX_PDU then (intoMessage sz b, none)
  else
    match b.wd with
    | some (w :: ws) =>
      -- scenario 2: withdrawals in MP_UNREACH_NLRI, batches of 4000 bytes
      let l := w :: ws
      let k := splitPoint sz BATCH l
      let pdu := intoMessage sz { wd := some (l.take k), ann := none, attrs := [] }
      let rest := l.drop k
      let b' : B N := { b with wd := if rest.isEmpty then none else some rest }
      (pdu, intoRemainder b')
    | _ =>
      match b.ann with
      | some (a :: as, nh) =>
        -- scenario 4: announcements in MP_REACH_NLRI, with all other attributes
        let l := a :: as
        let limit := MAX_PDU - ((16 + 2 + 1 + 2 + 2) + 8 + nh.composeLen + attrsLen b.attrs)
        let k := splitPoint sz limit l
        let pdu := intoMessage sz { wd := none, ann := some (l.take k, nh), attrs := b.attrs }
        let b' : B N := { b with ann := some (l.drop k, nh) }
        (pdu, intoRemainder b')
      | _ => (.err .tooLarge, none)

/-- result of the `into_messages` loop, run with fuel -/
inductive Out (α : Type) where
  | ok (a : α)
  | err (e : Err)
  | panic
  | outOfFuel
  deriving Repr

/-- mirrors `into_messages`: one `take_message` per unit of fuel -/
def intoMessages : Nat → B N → Out (List (Msg N))
  | 0, _ => .outOfFuel
  | f + 1, b =>
    match takeMessage sz b with
    | (.ok m, none) => .ok [m]
    | (.ok m, some b') =>
      match intoMessages f b' with
      | .ok ms => .ok (m :: ms)
      | .err e => .err e
      | .panic => .panic
      | .outOfFuel => .outOfFuel
    | (.err e, _) => .err e
    | (.panic, _) => .panic

/-- mirrors `PduIterator::next` called until `None`; `none` = out of fuel -/
def pduIter : Nat → Option (B N) → Option (List (Res (Msg N)))
  | _, none => some []
  | 0, some _ => none
  | f + 1, some b =>
    match pduIter f (takeMessage sz b).2 with
    | some rs => some ((takeMessage sz b).1 :: rs)
    | none => none

/-- a `NextHop` as a caller can pass it: an encodable variant, or
`NextHop::Unimplemented` (next hop of an unsupported AFI/SAFI, no wire form) -/
inductive NextHopArg where
  | known (nh : NextHop)
  | unimplemented

/-- mirrors `set_mp_nexthop` / `set_nexthop` (after the fix: `Unimplemented` is
refused with `IllegalCombination`, so a builder only ever holds encodable next
hops – which is why `B` needs no such variant); `none` is the `Err` -/
def setMpNexthop (b : B N) : NextHopArg → Option (B N)
  | .unimplemented => none
  | .known nh =>
    some { b with ann := match b.ann with
                         | some (l, _) => some (l, nh)
                         | none => some ([], nh) }

/-- mirrors `set_nexthop_ll_addr` (update_builder.rs:180, 900) after the fix: without
an MP_REACH_NLRI builder one is made with the next hop `Ipv6LL(::, addr)`; a
held `Unicast(V6)` (or `Ipv6LL`) next hop becomes `Ipv6LL`; any other held next
hop - `Multicast(V6)` included, update_builder.rs:185-188 - is refused with
`IllegalCombination` (before the fix: `unreachable!()`); `none` is the `Err` -/
def setNexthopLl (b : B N) : Option (B N) :=
  match b.ann with
  | none => some { b with ann := some ([], .ll) }
  | some (l, .v6) => some { b with ann := some (l, .ll) }
  | some (l, .ll) => some { b with ann := some (l, .ll) }
  | some _ => none

/-- number of NLRI held: the termination measure -/
def nlriCount (b : B N) : Nat :=
  (match b.wd with | some l => l.length | none => 0) +
  (match b.ann with | some (l, _) => l.length | none => 0)

end

/-! ### what an independent decoder sees in a message -/

section
variable {N : Type} (sz : N → Nat)

def Msg.wdList (m : Msg N) : List N := m.wd.getD []

def Msg.annList (m : Msg N) : List N :=
  match m.ann with
  | some (l, _) => l
  | none => []

/-- bytes `Attribute::compose` writes for an MP attribute with this value:
flags, type, one or two length octets, value -/
def composedAttr (valueLen : Nat) : Nat := (if valueLen > 255 then 2 + 2 else 2 + 1) + valueLen

/-- bytes of the path attribute section actually written by `finish` -/
def Msg.actualAttrLen (m : Msg N) : Nat :=
  (match m.ann with
   | some (l, nh) => composedAttr (3 + nh.composeLen + 1 + sumSz sz l)
   | none => 0)
  + (match m.wd with
     | some l => composedAttr (3 + sumSz sz l)
     | none => 0)
  + attrsLen m.attrs

/-- bytes of the whole PDU: header, empty withdrawn-routes section, attribute
length, attributes, no conventional NLRI -/
def Msg.actualLen (m : Msg N) : Nat := 16 + 2 + 1 + 2 + 2 + m.actualAttrLen sz

end

/-! ### the bytes of a message -/

/-- how the parts the model keeps abstract are written -/
structure Wire (N : Type) where
  /-- `NlriCompose::compose` -/
  enc : N → Bytes
  /-- `NextHop::compose`: length octet and address bytes -/
  encNh : NextHop → Bytes
  /-- `A::afi_safi().as_bytes()` -/
  afisafi : Bytes

section
variable {N : Type} (sz : N → Nat) (W : Wire N)

/-- mirrors path_attributes.rs:920 `Attribute::compose_header` for the MP
attributes (FLAGS = optional, non-transitive; the length comes from `value_len()`) -/
def attrHeader (typ : UInt8) (valueLen : Nat) : Bytes :=
  if valueLen > 255 then [0x80 ||| 0x10, typ] ++ be16 valueLen
  else [0x80, typ, UInt8.ofNat valueLen]

/-- mirrors `MpReachNlriBuilder::compose_value` -/
def reachValue (l : List N) (nh : NextHop) : Bytes :=
  W.afisafi ++ W.encNh nh ++ [0] ++ l.flatMap W.enc

/-- mirrors `MpUnreachNlriBuilder::compose_value` -/
def unreachValue (l : List N) : Bytes := W.afisafi ++ l.flatMap W.enc

/-- the path attribute section as `finish` writes it: MP_REACH_NLRI,
MP_UNREACH_NLRI, then the other attributes (`others`, their bytes) -/
def attrSection (others : Bytes) (m : Msg N) : Bytes :=
  (match m.ann with
   | some (l, nh) => attrHeader 14 (reachValueLen sz l nh) ++ reachValue W l nh
   | none => [])
  ++ (match m.wd with
      | some l => attrHeader 15 (unreachValueLen sz l) ++ unreachValue W l
      | none => [])
  ++ others

/-- mirrors `finish` at the level of bytes: marker, the length field, type 2, an
empty withdrawn-routes section, the attribute length, the attributes; no
conventional NLRI -/
def wireImage (others : Bytes) (m : Msg N) : Bytes :=
  List.replicate 16 (0xff : UInt8) ++ be16 m.lenField ++ [2] ++ be16 0 ++ be16 m.attrLenField
    ++ attrSection sz W others m

end

def B.wdList {N : Type} (b : B N) : List N := b.wd.getD []

def B.annList {N : Type} (b : B N) : List N :=
  match b.ann with
  | some (l, _) => l
  | none => []

end Rc.Builder
