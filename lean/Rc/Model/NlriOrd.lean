/-
Model of `==`, `cmp` and `Hash` of the 26 NLRI variants and of the `Nlri`
enum, as coded in `src/bgp/nlri/*.rs` (after the repairs F4: the hand-written
`PartialEq` of the eight generic ADD-PATH types compares path id *and* NLRI, and
F31: `FlowSpecNlri::cmp` compares the `afi` too).
Core Lean only.

* derive(PartialEq, Ord, Hash) is field-wise / lexicographic in declaration
  order (trusted base, DESIGN section 6);
* `[u8]::cmp` is lexicographic with the shorter slice first (`cmpBytes`);
* `inetnum::Prefix::cmp` (trusted base): IPv4 before IPv6, then by the largest
  address covered, then more-specific first – this is the order inetnum
  documents ("more-specifics before less-specifics, otherwise numerically")
  and the correspondence check compares it with the real `Prefix::cmp` on
  every run.
-/
import Rc.Model.Nlri

namespace Rc.NlriOrd
open Rc Rc.Nlri

/-- one Rust type's `==`, `cmp` and what `Hash::hash` feeds to the hasher -/
structure OrdImpl (α : Type) where
  eq : α → α → Bool
  cmp : α → α → Ordering
  hashKey : α → List Nat
  /-- representation invariant: which model values stand for a value of the Rust
  type at all (a `Prefix` is a valid `inetnum::Prefix`, an EVPN route type is one of the
  values of `EvpnRouteType`).  It excludes no value of the Rust types. -/
  wf : α → Bool

/-- `<[u8] as Ord>::cmp` -/
def cmpBytes : Bytes → Bytes → Ordering
  | [], [] => .eq
  | [], _ :: _ => .lt
  | _ :: _, [] => .gt
  | a :: as, b :: bs => (compare a.toNat b.toNat).then (cmpBytes as bs)

def bytesKey (bs : Bytes) : List Nat := bs.length :: bs.map (·.toNat)

/-! ### Prefix -/

/-- one past the largest address the prefix covers, as a number -/
def pfxMax (p : Pfx) : Nat := Pfx.beVal p.addr + 2 ^ (8 * p.addr.length - p.len)

/-- `inetnum::Prefix::cmp` (addr.rs:409) -/
def pfxCmp (p q : Pfx) : Ordering :=
  ((compare p.v6.toNat q.v6.toNat).then (compare (pfxMax p) (pfxMax q))).then (compare q.len p.len)

/-- derive(PartialEq, Hash) on `Prefix { family_and_len, bits }` -/
def pfxImpl : OrdImpl Pfx where
  eq p q := p == q
  cmp := pfxCmp
  hashKey p := p.v6.toNat :: p.len :: bytesKey p.addr
  wf p := p.wf

/-! ### the NLRI proper, per shape -/

/-- mpls.rs:98-119 -/
def mplsImpl : OrdImpl Mpls where
  eq a b := (a.pfx == b.pfx) && (a.labels == b.labels)
  cmp a b := (pfxCmp a.pfx b.pfx).then (cmpBytes a.labels b.labels)
  hashKey a := pfxImpl.hashKey a.pfx ++ bytesKey a.labels
  wf a := a.pfx.wf

/-- mpls_vpn.rs:108-137; `RouteDistinguisher` derives its order from `[u8; 8]` -/
def vpnImpl : OrdImpl Vpn where
  eq a b := ((a.pfx == b.pfx) && (a.labels == b.labels)) && (a.rd == b.rd)
  cmp a b := ((pfxCmp a.pfx b.pfx).then (cmpBytes a.labels b.labels)).then (cmpBytes a.rd b.rd)
  hashKey a := pfxImpl.hashKey a.pfx ++ bytesKey a.labels ++ a.rd.map (·.toNat)
  wf a := a.pfx.wf

/-- routetarget.rs:73-98 -/
def rtImpl : OrdImpl Rt where
  eq a b := a.raw == b.raw
  cmp a b := cmpBytes a.raw b.raw
  hashKey a := bytesKey a.raw
  wf _ := true

/-- derive(Ord) on `Afi` (typeenum!, afisafi.rs:161): the named variants `Ipv4` (1),
`Ipv6` (2), `L2Vpn` (25) in declaration order, then `Unimplemented(u16)` by its
payload.  `Fs.afi` is the u16 code of a *normalised* `Afi` (what `From<u16>`, the
parsers and serde's `from = "u16"` produce); `Afi::Unimplemented(1 | 2 | 25)` exists
only under the `arbitrary` feature and is not represented. -/
def afiKey (c : Nat) : Nat := if c = 1 then 0 else if c = 2 then 1 else if c = 25 then 2 else 3 + c

/-- flowspec.rs:102-132: `==` looks at `afi` and `raw`; `cmp` at `afi`, then `raw`
(after the repair F31; before it `cmp` read `raw` only, so an `Ipv4FlowSpecNlri`
holding `afi = Ipv6` – constructible through serde – compared `Equal` to, but was
`!=`, the one holding `afi = Ipv4`).  No hypothesis on `afi`. -/
def fsImpl : OrdImpl Fs where
  eq a b := (a.afi == b.afi) && (a.raw == b.raw)
  cmp a b := (compare (afiKey a.afi) (afiKey b.afi)).then (cmpBytes a.raw b.raw)
  hashKey a := a.afi :: bytesKey a.raw
  wf _ := true

/-- derive(PartialEq, Ord, Hash) on `VplsNlri` (vpls.rs:9) in field order -/
def vplsImpl : OrdImpl Vpls where
  eq a b := ((((a.rd == b.rd) && (a.veId == b.veId)) && (a.veOff == b.veOff)) && (a.veSize == b.veSize)) &&
    (a.labelBase == b.labelBase)
  cmp a b := ((((cmpBytes a.rd b.rd).then (compare a.veId b.veId)).then (compare a.veOff b.veOff)).then
    (compare a.veSize b.veSize)).then (compare a.labelBase b.labelBase)
  hashKey a := a.rd.map (·.toNat) ++ [a.veId, a.veOff, a.veSize, a.labelBase]
  wf _ := true

/-- derive(Ord) on `EvpnRouteType` (typeenum!): the five named variants in
declaration order, then `Unimplemented(u8)` by its payload -/
def rtypeKey (r : Nat) : Nat := if 1 ≤ r ∧ r ≤ 5 then r else if r < 256 then 256 + r else r

/-- evpn.rs:74-104 -/
def evpnImpl : OrdImpl Evpn where
  eq a b := (a.rtype == b.rtype) && (a.raw == b.raw)
  cmp a b := (compare (rtypeKey a.rtype) (rtypeKey b.rtype)).then (cmpBytes a.raw b.raw)
  hashKey a := a.rtype :: bytesKey a.raw
  wf a := rtypeValid a.rtype

/-- does the family's ADD-PATH type derive its traits (non-generic struct,
afisafi.rs:46-50) or use the hand-written generic impls (afisafi.rs:62-84)? -/
def Fam.derived : Fam → Bool
  | .v4u | .v4m | .v6u | .v6m | .vpls => true
  | _ => false

/-- `==`, `cmp`, `Hash` of `XNlri` -/
def famImpl : (f : Fam) → OrdImpl f.Val
  | .v4u => pfxImpl
  | .v4m => pfxImpl
  | .v6u => pfxImpl
  | .v6m => pfxImpl
  | .v4mpls => mplsImpl
  | .v6mpls => mplsImpl
  | .v4vpn => vpnImpl
  | .v6vpn => vpnImpl
  | .v4rt => rtImpl
  | .v4fs => fsImpl
  | .v6fs => fsImpl
  | .vpls => vplsImpl
  | .evpn => evpnImpl

/-- `struct XAddpathNlri(PathId, XNlri)` with derive(PartialEq, Ord, Hash):
path id first (afisafi.rs:47) -/
def OrdImpl.addpathDerived {α} (o : OrdImpl α) : OrdImpl (Nat × α) where
  eq a b := (a.1 == b.1) && o.eq a.2 b.2
  cmp a b := (compare a.1 b.1).then (o.cmp a.2 b.2)
  hashKey a := a.1 :: o.hashKey a.2
  wf a := o.wf a.2

/-- the generic ADD-PATH types: `cmp` = NLRI then path id (afisafi.rs:75-79),
hand-written `==` (afisafi.rs:825-832 etc., after F4: both fields), derived
`Hash` (path id, NLRI) -/
def OrdImpl.addpathGeneric {α} (o : OrdImpl α) : OrdImpl (Nat × α) where
  eq a b := (a.1 == b.1) && o.eq a.2 b.2
  cmp a b := (o.cmp a.2 b.2).then (compare a.1 b.1)
  hashKey a := a.1 :: o.hashKey a.2
  wf a := o.wf a.2

/-- `==`, `cmp`, `Hash` of `XAddpathNlri` -/
def famImplAp (f : Fam) : OrdImpl (Nat × f.Val) :=
  if Fam.derived f then (famImpl f).addpathDerived else (famImpl f).addpathGeneric

/-! ### the `Nlri` enum (afisafi.rs:246-316) -/

/-- position of the family in the `afisafi!` invocation -/
def Fam.idx : Fam → Nat
  | .v4u => 0 | .v4m => 1 | .v4mpls => 2 | .v4vpn => 3 | .v4rt => 4 | .v4fs => 5
  | .v6u => 6 | .v6m => 7 | .v6mpls => 8 | .v6vpn => 9 | .v6fs => 10
  | .vpls => 11 | .evpn => 12

/-- a value of `Nlri<Octs>`: family, path id if it is the ADD-PATH variant, NLRI -/
structure AnyNlri where
  fam : Fam
  pid : Option Nat
  val : fam.Val

/-- discriminant order of `NlriType` (derive(Ord)): `X`, `XAddpath`, next family, ... -/
def AnyNlri.typeIdx (n : AnyNlri) : Nat := 2 * Fam.idx n.fam + (if n.pid.isSome then 1 else 0)

/-- `impl PartialEq for Nlri` (afisafi.rs:289): same variant and the payloads are `==` -/
def anyEq (a b : AnyNlri) : Bool :=
  if h : a.fam = b.fam then
    match a.pid, b.pid with
    | none, none => (famImpl b.fam).eq (h ▸ a.val) b.val
    | some p, some q => (famImplAp b.fam).eq (p, h ▸ a.val) (q, b.val)
    | _, _ => false
  else false

/-- `impl Ord for Nlri` (afisafi.rs:304): payload order within a variant,
otherwise the order of `NlriType` -/
def anyCmp (a b : AnyNlri) : Ordering :=
  if h : a.fam = b.fam then
    match a.pid, b.pid with
    | none, none => (famImpl b.fam).cmp (h ▸ a.val) b.val
    | some p, some q => (famImplAp b.fam).cmp (p, h ▸ a.val) (q, b.val)
    | _, _ => compare a.typeIdx b.typeIdx
  else compare a.typeIdx b.typeIdx

/-- derive(Hash) on the enum: discriminant, then the payload -/
def anyHashKey (a : AnyNlri) : List Nat :=
  a.typeIdx :: (match a.pid with
    | none => (famImpl a.fam).hashKey a.val
    | some p => (famImplAp a.fam).hashKey (p, a.val))

def anyWf (a : AnyNlri) : Bool := (famImpl a.fam).wf a.val

end Rc.NlriOrd
