/-
Model of src/bmp/message.rs (C15): BMP message decoding and every public
accessor, over `List UInt8`, with every slice / index / unwrap / checked
arithmetic of the Rust code an explicit, possibly panicking operation.

The two decoders this file does not own are parameters:
  * `openParse : Bytes → Outcome Nat` – `bgp::message::OpenMessage::parse` on a
    parser positioned at the start of the given bytes: `.ok n` = accepted and
    consumed n bytes (n = the OPEN's header length), `.err`, or `.panic`
    (instantiated with the C03 model `Rc.Open.openParse` in the driver);
  * `notifParse : Bytes → Outcome Nat` – `NotificationMessage::parse`.
-/
import Rc.Base

namespace Rc.Bmp
open Rc

/-! ### slices and indices (Rust `[]`), by absolute position -/

def beNat (bs : Bytes) : Nat := bs.foldl (fun acc b => acc * 256 + b.toNat) 0

/-- big-endian value of the `n` bytes at offset `off` -/
def beAt (bs : Bytes) (off n : Nat) : Nat := beNat ((bs.drop off).take n)

/-- `bs[i]` -/
def idx (bs : Bytes) (i : Nat) : Outcome Nat :=
  if i + 1 ≤ bs.length then .ok (beAt bs i 1) else .panic

/-- `&bs[a..b]` -/
def slice (bs : Bytes) (a b : Nat) : Outcome Bytes :=
  if a ≤ b ∧ b ≤ bs.length then .ok ((bs.drop a).take (b - a)) else .panic

/-- `&bs[a..]` -/
def sliceFrom (bs : Bytes) (a : Nat) : Outcome Bytes :=
  if a ≤ bs.length then .ok (bs.drop a) else .panic

/-- `uN::from_be_bytes(bs[a..a+n].try_into().unwrap())` -/
def rdBE (bs : Bytes) (a n : Nat) : Outcome Nat :=
  if a + n ≤ bs.length then .ok (beAt bs a n) else .panic

/-! ### octseq::Parser as (buffer, position) -/

def cU8 (bs : Bytes) (pos : Nat) : Outcome (Nat × Nat) :=
  if pos + 1 ≤ bs.length then .ok (beAt bs pos 1, pos + 1) else .err

def cU16 (bs : Bytes) (pos : Nat) : Outcome (Nat × Nat) :=
  if pos + 2 ≤ bs.length then .ok (beAt bs pos 2, pos + 2) else .err

def cU32 (bs : Bytes) (pos : Nat) : Outcome (Nat × Nat) :=
  if pos + 4 ≤ bs.length then .ok (beAt bs pos 4, pos + 4) else .err

def cAdvance (n : Nat) (bs : Bytes) (pos : Nat) : Outcome Nat :=
  if pos + n ≤ bs.length then .ok (pos + n) else .err

/-! ### headers -/

def COFF : Nat := 48

/-- `CommonHeader::check` at position 0 – returns the new position (6) -/
def commonCheck (bs : Bytes) : Outcome Nat :=
  match cU8 bs 0 with
  | .ok (v, p) =>
    if v ≠ 3 then .err else
    match cAdvance 4 bs p with
    | .ok p =>
      match cU8 bs p with
      | .ok (t, p) => if t > 6 then .err else .ok p
      | .err => .err
      | .panic => .panic
    | .err => .err
    | .panic => .panic
  | .err => .err
  | .panic => .panic

/-- `PerPeerHeader::check` -/
def pphCheck (bs : Bytes) (pos : Nat) : Outcome Nat :=
  match cU8 bs pos with
  | .ok (t, p) => if t > 3 then .err else cAdvance 41 bs p
  | .err => .err
  | .panic => .panic

def bothCheck (bs : Bytes) : Outcome Nat :=
  match commonCheck bs with
  | .ok p => pphCheck bs p
  | .err => .err
  | .panic => .panic

/-! ### per-type `check` -/

/-- `StatisticsReport::check` stat loop: `count` times advance 2, u16 len, advance len -/
def statsLoop (bs : Bytes) : Nat → Nat → Outcome Unit
  | 0, _ => .ok ()
  | n + 1, pos =>
    match cAdvance 2 bs pos with
    | .ok p =>
      match cU16 bs p with
      | .ok (len, p) =>
        match cAdvance len bs p with
        | .ok p => statsLoop bs n p
        | .err => .err
        | .panic => .panic
      | .err => .err
      | .panic => .panic
    | .err => .err
    | .panic => .panic

def statsCheck (bs : Bytes) : Outcome Unit :=
  match bothCheck bs with
  | .ok p =>
    match cU32 bs p with
    | .ok (count, p) => statsLoop bs count p
    | .err => .err
    | .panic => .panic
  | .err => .err
  | .panic => .panic

/-- the TLV loop of `InitiationMessage::check` / `TerminationMessage::check`
(and, after the repair of F20b, `PeerUpNotification::check`):
`while remaining > 0 { advance 2; len = u16; advance len }`.  Every
iteration consumes at least 4 bytes, so fuel = length + 1 suffices. -/
def tlvLoop (bs : Bytes) : Nat → Nat → Outcome Unit
  | 0, pos => if pos ≥ bs.length then .ok () else .err   -- unreachable with fuel = length + 1
  | f + 1, pos =>
    if pos ≥ bs.length then .ok () else
    match cAdvance 2 bs pos with
    | .ok p =>
      match cU16 bs p with
      | .ok (len, p) =>
        match cAdvance len bs p with
        | .ok p => tlvLoop bs f p
        | .err => .err
        | .panic => .panic
      | .err => .err
      | .panic => .panic
    | .err => .err
    | .panic => .panic

def tlvCheck (bs : Bytes) (pos : Nat) : Outcome Unit := tlvLoop bs (bs.length + 1) pos

def initiationCheck (bs : Bytes) : Outcome Unit :=
  match commonCheck bs with
  | .ok p => tlvCheck bs p
  | .err => .err
  | .panic => .panic

def terminationCheck (bs : Bytes) : Outcome Unit := initiationCheck bs

def routeMonitoringCheck (bs : Bytes) : Outcome Unit :=
  match bothCheck bs with
  | .ok _ => .ok ()
  | .err => .err
  | .panic => .panic

def routeMirroringCheck (bs : Bytes) : Outcome Unit := routeMonitoringCheck bs

structure Deps where
  /-- `OpenMessage::parse` on the bytes from the parser's position on: bytes consumed -/
  openParse : Bytes → Outcome Nat
  /-- `NotificationMessage::parse`: bytes consumed -/
  notifParse : Bytes → Outcome Nat

/-- `PeerDownNotification::check` -/
def peerDownCheck (d : Deps) (bs : Bytes) : Outcome Unit :=
  match bothCheck bs with
  | .ok p =>
    match cU8 bs p with
    | .ok (reason, p) =>
      if reason = 1 ∨ reason = 3 then
        if p ≥ bs.length then .ok () else
          match d.notifParse (bs.drop p) with
          | .ok _ => .ok ()
          | .err => .err
          | .panic => .panic
      else if reason = 2 then
        match cAdvance 2 bs p with
        | .ok _ => .ok ()
        | .err => .err
        | .panic => .panic
      else .ok ()
    | .err => .err
    | .panic => .panic
  | .err => .err
  | .panic => .panic

/-- `PeerUpNotification::check` (after the repair of F20b: all trailing
Information TLVs are validated, not just the first) -/
def peerUpCheck (d : Deps) (bs : Bytes) : Outcome Unit :=
  match bothCheck bs with
  | .ok p =>
    match cAdvance 20 bs p with
    | .ok p =>
      match d.openParse (bs.drop p) with
      | .ok n1 =>
        match d.openParse (bs.drop (p + n1)) with
        | .ok n2 => tlvCheck bs (p + n1 + n2)
        | .err => .err
        | .panic => .panic
      | .err => .err
      | .panic => .panic
    | .err => .err
    | .panic => .panic
  | .err => .err
  | .panic => .panic

/-! ### `Message::from_octets` -/

inductive MsgKind where
  | routeMonitoring | statisticsReport | peerDown | peerUp | initiation | termination | routeMirroring
  deriving DecidableEq, Repr

def kindOf : Nat → Option MsgKind
  | 0 => some .routeMonitoring
  | 1 => some .statisticsReport
  | 2 => some .peerDown
  | 3 => some .peerUp
  | 4 => some .initiation
  | 5 => some .termination
  | 6 => some .routeMirroring
  | _ => none

def checkKind (d : Deps) : MsgKind → Bytes → Outcome Unit
  | .routeMonitoring => routeMonitoringCheck
  | .statisticsReport => statsCheck
  | .peerDown => peerDownCheck d
  | .peerUp => peerUpCheck d
  | .initiation => initiationCheck
  | .termination => terminationCheck
  | .routeMirroring => routeMirroringCheck

/-- `bmp::Message::from_octets`: `CommonHeader::parse` takes 6 octets (no
validation), the type byte (index 5) selects the variant, whose `check` runs. -/
def fromOctets (d : Deps) (bs : Bytes) : Outcome MsgKind :=
  if bs.length < 6 then .err else
  match idx bs 5 with
  | .ok t =>
    match kindOf t with
    | none => .err
    | some k =>
      match checkKind d k bs with
      | .ok () => .ok k
      | .err => .err
      | .panic => .panic
  | .err => .err
  | .panic => .panic

/-! ### `Message::check` (stream framing on a `bytes::Buf` cursor) -/

/-- `a - b` on `usize` as the harness builds it (overflow checks on): `none` = the subtraction panics -/
def usub (a b : Nat) : Option Nat := if b ≤ a then some (a - b) else none

/-- what `Message::check` answers: `Ok(len)`, `Err(Incomplete)`, `Err(IllegalSize)` -/
inductive FrameCheck where
  | complete (len : Nat) | incomplete | illegalSize
  deriving DecidableEq, Repr

/-- mirrors message.rs:171 `Message::check(src: &mut Cursor<Octs>)` on a cursor at position 0 over
`bs`: `remaining() >= 5`, `get_u8` (version, not looked at), `get_u32` (both `Buf` reads panic when
fewer octets remain; here 5 are present), `len <= 6` is `IllegalSize`, and `(len as usize) - 5` is a
`usize` subtraction (`usub`: panics on underflow with overflow checks on) compared with what
remains after the five octets read. -/
def msgCheck (bs : Bytes) : Outcome FrameCheck :=
  if bs.length ≥ 5 then
    match rdBE bs 0 1, rdBE bs 1 4 with          -- `src.get_u8()`, `src.get_u32()`
    | .ok _, .ok len =>
      if len ≤ 6 then .ok .illegalSize else
      match usub len 5 with                       -- `(len as usize) - 5`
      | none => .panic
      | some need => if bs.length - 5 ≥ need then .ok (.complete len) else .ok .incomplete
    | _, _ => .panic
  else .ok .incomplete

/-! ### accessors: common header -/

def chVersion (bs : Bytes) : Outcome Nat := idx bs 0
def chLength (bs : Bytes) : Outcome Nat := rdBE bs 1 4
def chMsgType (bs : Bytes) : Outcome Nat := idx bs 5

/-- `impl Debug for Message` after the repair of F20e: the slice is clamped
to the bytes held. Returns the number of bytes printed. -/
def debugLen (bs : Bytes) : Outcome Nat :=
  match chLength bs with
  | .ok l => match slice bs 0 (min l bs.length) with
    | .ok s => .ok s.length
    | .err => .err
    | .panic => .panic
  | .err => .err
  | .panic => .panic

/-! ### accessors: per-peer header (`octets.range(6..48)`, then fixed offsets) -/

structure Pph where
  peerType : Nat
  flags : Nat
  distinguisher : Bytes
  v6 : Bool
  address : Bytes        -- 4 or 16 bytes
  asn : Nat
  bgpId : Bytes
  tsSec : Nat
  tsMicro : Nat
  deriving DecidableEq, Repr

def pph (bs : Bytes) : Outcome Pph :=
  match slice bs 6 48 with
  | .ok h =>
    match idx h 0, idx h 1, slice h 2 10, rdBE h 26 4, slice h 30 34, rdBE h 34 4, rdBE h 38 4 with
    | .ok pt, .ok fl, .ok dist, .ok asn, .ok bid, .ok s, .ok us =>
      let v6 := fl / 128 % 2 == 1
      match (if v6 then slice h 10 26 else slice h 22 26) with
      | .ok addr => .ok ⟨pt, fl, dist, v6, addr, asn, bid, s, us⟩
      | _ => .panic
    | _, _, _, _, _, _, _ => .panic
  | _ => .panic

/-- `PerPeerHeader::timestamp` as (unix seconds, sub-second microseconds).
After the repair of the `us*1000` overflow: nanoseconds saturate at u32::MAX;
chrono's `timestamp_opt` accepts nsecs < 1e9, or < 2e9 when secs % 60 = 59 (a
leap second); anything else makes the accessor return `DateTime::MIN_UTC`
(printed as `min`). -/
def timestamp (p : Pph) : Option (Nat × Nat) :=
  let ns := min (p.tsMicro * 1000) 4294967295
  if ns < 1000000000 then some (p.tsSec, p.tsMicro)
  else if ns < 2000000000 ∧ p.tsSec % 60 = 59 then some (p.tsSec, ns / 1000)
  else none

/-! ### statistics report -/

inductive Stat where
  | u32 (typ : Nat) (v : Nat)           -- Type0..6, 11..13
  | u64 (typ : Nat) (v : Nat)           -- Type7, 8, 14, 15
  | afiSafi (typ : Nat) (afi safi : Nat) (v : Nat)  -- Type9, 10, 16, 17
  | unimplemented (typ len : Nat)
  deriving DecidableEq, Repr

def statsCount (bs : Bytes) : Outcome Nat := rdBE bs COFF 4

def isU32Stat (t : Nat) : Bool := t ≤ 6 || (11 ≤ t && t ≤ 13)
def isU64Stat (t : Nat) : Bool := t = 7 || t = 8 || t = 14 || t = 15
def isAfiSafiStat (t : Nat) : Bool := t = 9 || t = 10 || t = 16 || t = 17

/-- `StatIter::get_stat`: the iterator's slice is `octets[52..]`, so its
position `pos` is absolute position `52 + pos`; here positions are absolute. -/
def getStat (bs : Bytes) (pos : Nat) : Outcome (Stat × Nat) :=
  match rdBE bs pos 2, rdBE bs (pos + 2) 2 with
  | .ok typ, .ok len =>
    if isU32Stat typ ∧ len = 4 then
      match rdBE bs (pos + 4) 4 with
      | .ok v => .ok (.u32 typ v, pos + 8)
      | _ => .panic
    else if isU64Stat typ ∧ len = 8 then
      match rdBE bs (pos + 4) 8 with
      | .ok v => .ok (.u64 typ v, pos + 12)
      | _ => .panic
    else if isAfiSafiStat typ ∧ len = 11 then
      match rdBE bs (pos + 4) 2, idx bs (pos + 6), rdBE bs (pos + 7) 8 with
      | .ok a, .ok s, .ok v => .ok (.afiSafi typ a s v, pos + 15)
      | _, _, _ => .panic
    else .ok (.unimplemented typ len, pos + 4 + len)
  | _, _ => .panic

/-- `StatIter` collected: `left` items -/
def statIter (bs : Bytes) : Nat → Nat → Outcome (List Stat)
  | 0, _ => .ok []
  | left + 1, pos =>
    match getStat bs pos with
    | .ok (s, pos') =>
      match statIter bs left pos' with
      | .ok l => .ok (s :: l)
      | .err => .err
      | .panic => .panic
    | .err => .err
    | .panic => .panic

def stats (bs : Bytes) : Outcome (List Stat) :=
  match statsCount bs, sliceFrom bs (COFF + 4) with
  | .ok n, .ok _ => statIter bs n (COFF + 4)
  | _, _ => .panic

/-! ### information TLVs (Initiation, PeerUp) -/

/-- `InformationTlvIter` collected: (type, length field, value); positions absolute.
mirrors message.rs:1239 `get_tlv` line by line: `s` = the u16 at `pos+2..=pos+3` of the iterator's
slice, the TLV = `slice[pos .. pos+4+s]`, then the position advances by `res.length() as usize + 4`
where `res.length()` is read AGAIN from octets 2..=3 of the TLV just cut (message.rs:1182; usize
addition since the repair a2c6fb4 – in `Nat` here, a usize cannot overflow on a slice that exists);
each item is observed through `typ()` (octets 0..=1), `length()` and `value()` (`[4..]`). -/
def infoTlvIter (bs : Bytes) : Nat → Nat → Outcome (List (Nat × Nat × Bytes))
  | 0, pos => if pos = bs.length then .ok [] else .panic   -- unreachable with fuel = length + 1
  | f + 1, pos =>
    if pos = bs.length then .ok [] else
    match rdBE bs (pos + 2) 2 with
    | .ok s =>
      match slice bs pos (pos + 4 + s) with
      | .ok tlv =>
        match rdBE tlv 0 2, rdBE tlv 2 2, sliceFrom tlv 4 with
        | .ok typ, .ok len, .ok v =>
          match infoTlvIter bs f (pos + (len + 4)) with
          | .ok l => .ok ((typ, len, v) :: l)
          | .err => .err
          | .panic => .panic
        | _, _, _ => .panic
      | _ => .panic
    | _ => .panic

def initiationTlvs (bs : Bytes) : Outcome (List (Nat × Nat × Bytes)) :=
  match sliceFrom bs 6 with
  | .ok _ => infoTlvIter bs (bs.length + 1) 6
  | _ => .panic

/-! ### termination information -/

inductive TermInfo where
  | customString (raw : Bytes)   -- the bytes handed to from_utf8_lossy
  | reason (v : Nat)             -- AdminClose .. PermAdminClose, Undefined(v)
  | undefinedTlv (typ : Nat)     -- non-string TLV whose length is not 2 (after the repair of F20a)
  deriving DecidableEq, Repr

/-- `InformationIter` after the repair of F20a: `end` = bytes held, string
TLVs advance by 4 + len, a non-string TLV is read as a two-byte reason only
when its length is 2. Positions absolute. -/
def termIter (bs : Bytes) : Nat → Nat → Outcome (List TermInfo)
  | 0, pos => if pos = bs.length then .ok [] else .panic
  | f + 1, pos =>
    if pos = bs.length then .ok [] else
    match rdBE bs pos 2, rdBE bs (pos + 2) 2 with
    | .ok typ, .ok len =>
      match slice bs (pos + 4) (pos + 4 + len) with
      | .ok v =>
        let item := if typ = 0 then TermInfo.customString v
          else if len = 2 then TermInfo.reason (beNat v) else TermInfo.undefinedTlv typ
        match termIter bs f (pos + 4 + len) with
        | .ok l => .ok (item :: l)
        | .err => .err
        | .panic => .panic
      | _ => .panic
    | _, _ => .panic

def terminationInfo (bs : Bytes) : Outcome (List TermInfo) :=
  match sliceFrom bs 6 with
  | .ok _ => termIter bs (bs.length + 1) 6
  | _ => .panic

/-! ### peer down -/

def peerDownReason (bs : Bytes) : Outcome Nat :=
  match idx bs COFF with
  | .ok r => .ok (if r ≤ 5 then r else 6)   -- 6 = Unknown
  | _ => .panic

/-- `PeerDownNotification::fsm` after the repair of F20c: the two bytes after the reason -/
def peerDownFsm (bs : Bytes) : Outcome (Option Nat) :=
  match peerDownReason bs with
  | .ok r =>
    if r = 2 then
      match rdBE bs (COFF + 1) 2 with
      | .ok v => .ok (some v)
      | _ => .panic
    else .ok none
  | _ => .panic

/-- `PeerDownNotification::notification`: the embedded NOTIFICATION exactly as
`check` validated it (`NotificationMessage::parse` at offset 49, unwrapped):
the bytes its own length field covers. "No data" is decided by the bytes held. -/
def peerDownNotification (d : Deps) (bs : Bytes) : Outcome (Option Bytes) :=
  match peerDownReason bs with
  | .ok r =>
    if r = 1 ∨ r = 3 then
      if COFF + 1 = bs.length then .ok none else
      match sliceFrom bs (COFF + 1) with
      | .ok n =>
        match d.notifParse n with
        | .ok k => .ok (some (n.take k))
        | _ => .panic
      | _ => .panic
    else .ok none
  | _ => .panic

/-! ### peer up -/

structure PeerUp where
  localV6 : Bool
  localAddr : Bytes
  localPort : Nat
  remotePort : Nat
  openSent : Bytes
  openRcvd : Bytes
  tlvs : List (Nat × Nat × Bytes)
  deriving DecidableEq, Repr

/-- `bgp_open_sent`: `OpenMessage::parse(..).unwrap()` at offset COFF+20; (offset, length) -/
def openSentLen (d : Deps) (bs : Bytes) : Outcome Nat :=
  if COFF + 20 ≤ bs.length then
    match d.openParse (bs.drop (COFF + 20)) with
    | .ok n => .ok n
    | _ => .panic
  else .panic

def openSent (d : Deps) (bs : Bytes) : Outcome Bytes :=
  match openSentLen d bs with
  | .ok n => .ok ((bs.drop (COFF + 20)).take n)
  | _ => .panic

/-- `bgp_open_rcvd`: advance by COFF + 20 + len(sent), parse -/
def openRcvdLen (d : Deps) (bs : Bytes) : Outcome (Nat × Nat) :=
  match openSent d bs with
  | .ok s =>
    let off := COFF + 20 + s.length
    if off ≤ bs.length then
      match d.openParse (bs.drop off) with
      | .ok n => .ok (off, n)
      | _ => .panic
    else .panic
  | _ => .panic

def openRcvd (d : Deps) (bs : Bytes) : Outcome Bytes :=
  match openRcvdLen d bs with
  | .ok (off, n) => .ok ((bs.drop off).take n)
  | _ => .panic

/-- `PeerUpNotification::information_tlvs` after the repair of F20b -/
def peerUpTlvs (d : Deps) (bs : Bytes) : Outcome (List (Nat × Nat × Bytes)) :=
  match openSentLen d bs with
  | .ok n1 =>
    match d.openParse (bs.drop (COFF + 20 + n1)) with
    | .ok n2 =>
      match sliceFrom bs (COFF + 20 + n1 + n2) with
      | .ok _ => infoTlvIter bs (bs.length + 1) (COFF + 20 + n1 + n2)
      | _ => .panic
    | _ => .panic
  | _ => .panic

def peerUp (d : Deps) (bs : Bytes) : Outcome PeerUp :=
  match slice bs COFF (COFF + 12), rdBE bs (COFF + 16) 2, rdBE bs (COFF + 18) 2 with
  | .ok z, .ok lp, .ok rp =>
    let v4 := z.all (· == 0)
    match (if v4 then slice bs (COFF + 12) (COFF + 16) else slice bs COFF (COFF + 16)),
          openSent d bs, openRcvd d bs, peerUpTlvs d bs with
    | .ok a, .ok s, .ok r, .ok t => .ok ⟨!v4, a, lp, rp, s, r, t⟩
    | _, _, _, _ => .panic
  | _, _, _ => .panic

/-! ### route monitoring -/

/-- the bytes handed to `UpdateMessage::parse` by `RouteMonitoring::bgp_update` -/
def rmUpdateBytes (bs : Bytes) : Outcome Bytes :=
  if COFF ≤ bs.length then .ok (bs.drop COFF) else .panic

/-! ### reference encoders (used by the round-trip theorems and by the harness's generator) -/

def be64 (n : Nat) : Bytes := be32 (n / 4294967296) ++ be32 n

def encCommon (len typ : Nat) : Bytes := [3] ++ be32 len ++ [UInt8.ofNat typ]

def encPph (p : Pph) : Bytes :=
  [UInt8.ofNat p.peerType, UInt8.ofNat p.flags] ++ p.distinguisher
    ++ (if p.v6 then p.address else List.replicate 12 0 ++ p.address)
    ++ be32 p.asn ++ p.bgpId ++ be32 p.tsSec ++ be32 p.tsMicro

def encStat : Stat → Bytes
  | .u32 t v => be16 t ++ be16 4 ++ be32 v
  | .u64 t v => be16 t ++ be16 8 ++ be64 v
  | .afiSafi t a s v => be16 t ++ be16 11 ++ be16 a ++ [UInt8.ofNat s] ++ be64 v
  | .unimplemented t l => be16 t ++ be16 l ++ List.replicate l 0

def encTlv (t : Nat × Nat × Bytes) : Bytes := be16 t.1 ++ be16 t.2.2.length ++ t.2.2

/-- a whole message (RFC 7854 section 4.1): common header with the message's own length, then the body -/
def encMsg (typ : Nat) (body : Bytes) : Bytes := encCommon (6 + body.length) typ ++ body

/-- the body of a Peer Up Notification after the per-peer header (RFC 7854 section 4.10): the
16-octet local address field (`z` = its first 12 octets, `a4` = its last 4), the two ports, the
sent and the received OPEN, Information TLVs -/
def encPeerUpBody (z a4 : Bytes) (lp rp : Nat) (sent rcvd : Bytes) (tlvs : List (Nat × Nat × Bytes)) : Bytes :=
  z ++ (a4 ++ (be16 lp ++ (be16 rp ++ (sent ++ (rcvd ++ tlvs.flatMap encTlv)))))

end Rc.Bmp
