/-
The glue between a received UPDATE (or any `PaMap`) and the route record of
Rc/Model/PathSel.lean: which typed attribute `OrdRoute::try_new` / `eligible` /
`cmp` (src/bgp/path_selection.rs) find under each type code of a `PaMap`
(src/bgp/path_attributes.rs `PaMap::get::<A>()`), and how LOCAL_PREF / MED /
ORIGIN / ORIGINATOR_ID / the CLUSTER_LIST length / the AS_PATH are read out of
the stored attributes.

The map is C17's model (Rc/Model/PaMap.lean): one `Attr` per type code, a typed
attribute holding the value octets `compose_value` writes (AS numbers four
octets wide whatever the session was).  A typed value is turned back into the
Rust value with C04's `Attr.parseValue` (Rc/Model/Attr.lean, the model of each
type's `parse`), an AS_PATH thereby with C13's `AsPath.hops`.

`routeOfPaMap m tb` = `OrdRoute::try_new(&m, tb)` followed by every read `cmp`
makes: `.err` = `try_new` refused, `.ok r` = the record `PathSel.cmp` works on.
The Rust reads cannot panic (`get` clones, `neighbor_path_selection` /
`hop_count_path_selection` / `ClusterIds::len` are total).  The one `.panic`
here is the MODEL's own representation check, not a panic site of routecore: a
typed `Attr` whose value octets are not an image of its type's `compose_value`
has no Rust counterpart (`try_new_total` in Rc/Thm/C10.lean: the check never
fires on a map `from_update_pdu` builds nor on a map built by API calls whose
typed arguments are parse images, `OpOk`).  `cmp` reads lazily (LOCAL_PREF only
for an iBGP route without a configured degree of preference ...); the record is
filled eagerly - unobservable, the reads have no effect and no failure.

Which Rust values a typed `Attr` stands for: the value octets are what
`compose_value` writes, so Rust values that compose alike are ONE model value.
For the six attributes read here that identifies `Origin(OriginType::
Unimplemented(n))`, n <= 2 (only the API builds it; `u8::from` = n) with
`Origin(OriginType::from(n))`, and a `HopPath` that holds an AS_SEQUENCE as
`Hop::Segment` with the path that holds its ASes as `Hop::Asn`s.  `try_new` /
`cmp` read the ORIGIN through `u8::from` (fix F37; before it the derived order of
the enum was read and the identification was wrong for `Unimplemented(0..=2)`),
the path through `hop_count_path_selection` / `neighbor_path_selection`, which
give both forms the same count and neighbour (fix F26): the identification is
invisible to them.  It IS visible to `PaMap ==` (C17's subject, not used here).

Second half: the DIRECT reading of the attribute section of an UPDATE
(`wireRoute`): the same fields read off the list of received attributes without
the map and without the stored representation - first occurrence of each type
code, the length rule of each fixed-shape attribute, the AS_PATH in the width of
the session (C13's `toHopPath`).  It is the refinement target of
`route_of_update_spec` ("the detour through `PaMap` and the four-octet stored
form changes nothing"), NOT an independent reading of the RFCs: its case split is
routecore's, and where RFC 7606 prescribes something else it follows routecore
(`Rfc7606Departure` below names the four places).

Core Lean only (the driver links this file).
-/
import Rc.Model.PaMap
import Rc.Model.PathSel
import Rc.Model.AsPath
import Rc.Model.Attr

namespace Rc.PathSelGlue
open Rc

/-- mirrors `TiebreakerInfo` (src/bgp/path_selection.rs:407): `source`,
`degree_of_preference`, `local_asn`, `bgp_identifier` (as its big-endian
number), `peer_addr` (family + address). -/
structure Tb where
  ibgp : Bool
  dop : Option Nat
  localAsn : Nat
  bgpId : Nat
  peerV6 : Bool
  peerAddr : Nat
  deriving DecidableEq, Repr

/-- a hop as `hop_count_path_selection` / `neighbor_path_selection` see it: the
storage width of a segment (`four_byte_asns`) is not read (`seg.asns()` yields
`Asn`s) -/
def selHop : AsPath.Hop → PathSel.Hop
  | .asn n => .asn n
  | .seg s => .seg s.ty s.asns

/-- mirrors `PaMap::get::<A>()` (path_attributes.rs:249) for the attribute type
with code `c`: the entry under `c` if it is that type's variant
(`A::from_attribute`), as the Rust value (C04's `parse` of the held octets, four
octets wide).  `.panic`: the representation check described in the header. -/
def getTyped (c : Nat) (m : PaMap.Map) : Outcome (Option Attr.TypedAttr) :=
  match PaMap.get c m with
  | none => .ok none
  | some a =>
    match Attr.parseValue c true a.value with
    | .ok t => .ok (some t)
    | _ => .panic

/-- `pa_map.get::<Origin>()`: the number the `OriginType` was made from -/
def getOrigin (m : PaMap.Map) : Outcome (Option Nat) :=
  match getTyped 1 m with
  | .ok none => .ok none
  | .ok (some (.origin o)) => .ok (some o)
  | .ok (some _) => .panic
  | .err => .err
  | .panic => .panic

/-- `pa_map.get::<HopPath>()` (the AS_PATH; an AS4_PATH is another type, code
17, and is never looked at) -/
def getPath (m : PaMap.Map) : Outcome (Option (List PathSel.Hop)) :=
  match getTyped 2 m with
  | .ok none => .ok none
  | .ok (some (.asPath h)) => .ok (some (h.map selHop))
  | .ok (some _) => .panic
  | .err => .err
  | .panic => .panic

/-- `pa_map.get::<LocalPref>()` / `get::<MultiExitDisc>()` / `get::<OriginatorId>()`
(codes 5 / 4 / 9): the `u32` / the address as a number -/
def getU32 (c : Nat) (m : PaMap.Map) : Outcome (Option Nat) :=
  match getTyped c m with
  | .ok none => .ok none
  | .ok (some (.localPref n)) => .ok (some n)
  | .ok (some (.med n)) => .ok (some n)
  | .ok (some (.originatorId n)) => .ok (some n)
  | .ok (some _) => .panic
  | .err => .err
  | .panic => .panic

/-- `pa_map.get::<ClusterIds>().map(|l| l.len())`: the number of cluster ids -/
def getClusterLen (m : PaMap.Map) : Outcome (Option Nat) :=
  match getTyped 10 m with
  | .ok none => .ok none
  | .ok (some (.clusterList ids)) => .ok (some ids.length)
  | .ok (some _) => .panic
  | .err => .err
  | .panic => .panic

/-- what the map holds under a mandatory type code, given what `get` found:
nothing, something that is not the typed attribute (`PathAttribute::Invalid`
after a malformed UPDATE, an `Unimplemented` put there by `add_attribute`), or
the attribute -/
def slotOf {α : Type} (c : Nat) (m : PaMap.Map) (v : Option α) : PathSel.Slot α :=
  match v with
  | some a => .val a
  | none => if (PaMap.lookup c m).isSome then .bogus else .absent

/-- every read `eligible` and `cmp` make of `(tiebreakers, pa_map)`
(path_selection.rs:35-61, 219-388) -/
def readRoute (m : PaMap.Map) (tb : Tb) : Outcome PathSel.Route :=
  match getOrigin m, getPath m, getU32 5 m, getU32 4 m, getU32 9 m, getClusterLen m with
  | .ok origin, .ok path, .ok lp, .ok med, .ok oid, .ok cl =>
    .ok { ibgp := tb.ibgp, dop := tb.dop, localPref := lp, path := slotOf 2 m path,
          origin := slotOf 1 m origin, med := med, localAsn := tb.localAsn, originatorId := oid,
          bgpId := tb.bgpId, clusterLen := cl, peerV6 := tb.peerV6, peerAddr := tb.peerAddr,
          extra := 0 }
  | _, _, _, _, _, _ => .panic

/-- mirrors `OrdRoute::try_new(pa_map, tiebreakers)` (path_selection.rs:90):
`.err` = `Err(DecisionError)`, `.ok r` = the route as `cmp` reads it. -/
def routeOfPaMap (m : PaMap.Map) (tb : Tb) : Outcome PathSel.Route :=
  match readRoute m tb with
  | .ok r => if (PathSel.tryNew r).isNone then .ok r else .err
  | .err => .err
  | .panic => .panic

/-- `PaMap::from_update_pdu` + `OrdRoute::try_new` on the octets of a received
UPDATE in a session of the given AS number width / ADD-PATH mode
(`UpdateMessage::from_octets`, C17's `parseUpdate`).  `none` = the UPDATE is not
accepted. -/
def routeOfPdu (four ap : Bool) (pdu : Bytes) (tb : Tb) : Option (Outcome PathSel.Route) :=
  match PaMap.parseUpdate four ap pdu with
  | .ok u => some (routeOfPaMap (PaMap.fromUpdate u) tb)
  | .err => none
  | .panic => some .panic

/-! ### the direct reading of the wire list (refinement target, routecore's policy)

Of several attributes with one type code the first counts (as RFC 7606 3.g).
ORIGIN is one octet, MULTI_EXIT_DISC / LOCAL_PREF / ORIGINATOR_ID four,
CLUSTER_LIST a sequence of four-octet cluster ids (the lengths of RFC 4271 5 /
RFC 4456 8).  A mandatory attribute of another shape is there but unusable (the
route is not eligible); an optional one is treated as absent and the route stays
eligible.  The AS_PATH is read in the AS number width of the session, an AS4_PATH
is not consulted (routecore does not merge it: `get::<HopPath>()` is code 2 only).

Where this is routecore's policy and NOT RFC 7606 (which would treat the route as
withdrawn or discard the attribute) - nothing in model, theorems or oracle judges
routecore against the RFC on these four points:
* 7.1: an ORIGIN of one octet with an undefined value (> 2) is a value, ordered by number;
* 7.2: an AS_PATH with a zero-length segment is accepted (an empty AS_SEQUENCE adds no
  hop and names no neighbour, an empty AS_SET counts one);
* 7.4 / 7.5 / 7.9 / 7.10: a MULTI_EXIT_DISC, LOCAL_PREF, ORIGINATOR_ID or CLUSTER_LIST of a
  wrong length counts as absent and the route stays eligible;
* 7.9 / 7.10: ORIGINATOR_ID and CLUSTER_LIST received over eBGP are used (steps f, f2). -/

/-- the value of the first attribute with code `c` if it has exactly four octets -/
def wireU32 (c : Nat) (ws : List PaMap.Wire) : Option Nat :=
  match PaMap.firstWire c ws with
  | some w =>
    match w.value with
    | [a, b, c', d] => some (a.toNat * 16777216 + b.toNat * 65536 + c'.toNat * 256 + d.toNat)
    | _ => none
  | none => none

def wireOriginSlot (ws : List PaMap.Wire) : PathSel.Slot Nat :=
  match PaMap.firstWire 1 ws with
  | none => .absent
  | some w =>
    match w.value with
    | [o] => .val o.toNat
    | _ => .bogus

/-- the first AS_PATH attribute, read in the width it was received in: C13's
`toHopPath` (`AsPath::new(octets, four)?.to_hop_path()`) -/
def wirePathSlot (ws : List PaMap.Wire) : PathSel.Slot (List PathSel.Hop) :=
  match PaMap.firstWire 2 ws with
  | none => .absent
  | some w =>
    match AsPath.toHopPath w.four w.value with
    | .ok h => .val (h.map selHop)
    | _ => .bogus

/-- number of cluster ids of the first CLUSTER_LIST (a whole number of them) -/
def wireClusterLen (ws : List PaMap.Wire) : Option Nat :=
  match PaMap.firstWire 10 ws with
  | some w => if w.value.length % 4 = 0 then some (w.value.length / 4) else none
  | none => none

/-- the route record read directly off the received attribute list (routecore's policy, see above) -/
def wireRoute (ws : List PaMap.Wire) (tb : Tb) : PathSel.Route :=
  { ibgp := tb.ibgp, dop := tb.dop, localPref := wireU32 5 ws, path := wirePathSlot ws,
    origin := wireOriginSlot ws, med := wireU32 4 ws, localAsn := tb.localAsn,
    originatorId := wireU32 9 ws, bgpId := tb.bgpId, clusterLen := wireClusterLen ws,
    peerV6 := tb.peerV6, peerAddr := tb.peerAddr, extra := 0 }

/-! ### where the direct reading departs from RFC 7606 -/

def segHasEmpty (four : Bool) (v : Bytes) : Bool :=
  match AsPath.segments four v with
  | .ok ss => ss.any fun s => s.asns.isEmpty
  | _ => false

/-- one of the four places (listed above) where RFC 7606 would have the route treated as withdrawn /
the attribute discarded while `wireRoute` - and `routeOfPaMap`, by `route_of_update_spec` - goes on
with routecore's reading.  (For a route learned over eBGP a malformed LOCAL_PREF is merely discarded
by 7.5: not counted.) -/
def Rfc7606Departure (ws : List PaMap.Wire) (tb : Tb) : Bool :=
  (match PaMap.firstWire 1 ws with
   | some w => match w.value with | [o] => decide (o.toNat > 2) | _ => false
   | none => false) ||
  (match PaMap.firstWire 2 ws with
   | some w => segHasEmpty w.four w.value
   | none => false) ||
  (match PaMap.firstWire 4 ws with | some w => w.value.length != 4 | none => false) ||
  (tb.ibgp && match PaMap.firstWire 5 ws with | some w => w.value.length != 4 | none => false) ||
  (tb.ibgp && match PaMap.firstWire 9 ws with | some w => w.value.length != 4 | none => false) ||
  (tb.ibgp && match PaMap.firstWire 10 ws with | some w => w.value.length % 4 != 0 | none => false) ||
  (!tb.ibgp && ((PaMap.firstWire 9 ws).isSome || (PaMap.firstWire 10 ws).isSome))

end Rc.PathSelGlue
