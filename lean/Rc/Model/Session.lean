/-
The whole receive path of a session, octets in -> FSM transitions / PDUs / application messages out:
the frame branch of `Session::tick` (src/bgp/fsm/session.rs:287-324) over the FULL C08 session state.

* `pump`      mirrors what successive `tick()` calls do while octets are buffered: `read_frame` =
              `parse_frame` on the buffer (`Rc.Framing.parseFrame`, decoder = `BgpMsg::from_octets(b,
              Some(&self.session_config))`), `Ok(Some(m))` => `handle_msg(m)` (= `Rc.Fsm.tickStep` on
              `.frame`), `Err(e)` => connection dropped, Connect, `Err` (= `Rc.Fsm.tickStep` on `.readErr`);
              it goes on while `tick` returned `Ok` and the connection is still there, and stops (waits
              for the next socket read) when `parse_frame` answers `None`.
* `feed` / `feedAll`  one socket read appends a chunk, then `pump`.
* `Wire`      how octets become FSM inputs: the decoder depends on the connection's `SessionConfig`
              (`κ`), which the OPEN-accepting arms rewrite (`set_four_octet_asns`, `add_famdir`): `upd`.
* `liveTicks` `Rc.Fsm.runTick` until the first tick that returns `Err` / loses the connection (what a
              caller that stops ticking then - `Session::process`, or nothing left to read - observes).
* `sessionWire`  the concrete `Wire`: `Rc.SessionDecode.msgFromOctets` (C01/C02 UPDATE model, C03 OPEN /
              NOTIFICATION / KEEPALIVE models) + the accessors `handle_msg` / the arms call.

Core Lean only (the driver links this file).
-/
import Rc.Model.Fsm
import Rc.Model.Framing
import Rc.Model.SessionDecode

namespace Rc.Session
open Rc Rc.Framing

/-- how octets become inputs of the FSM -/
structure Wire (μ κ : Type) where
  /-- `BgpMsg::from_octets(frame, Some(&self.session_config))` + what `handle_msg` reads off the result -/
  dec : κ → Bytes → Outcome μ
  /-- the input `handle_msg` is given -/
  inp : Frame μ → Fsm.Input
  /-- the connection's `SessionConfig` after the frame was handled (state before, frame, state after) -/
  upd : κ → Fsm.St → Frame μ → Fsm.St → κ

/-- a run: the frames handed to `handle_msg`, what `tick` processed (a frame each, possibly a failed
read at the end), what each `tick` call that returned did, the session afterwards, and the receive buffer
(`some buf`: `read_frame` waits for more octets with `buf` buffered; `none`: no more reading - `tick`
returned `Err`, the connection is gone, or the task panicked) -/
structure Res (μ κ : Type) where
  frames : List (Frame μ)
  inputs : List Fsm.TickInput
  trace : List Fsm.TickResult
  s : Fsm.St
  k : κ
  live : Option Bytes

variable {μ κ : Type}

/-- the session after a `tick` -/
def after (r : Fsm.TickResult) (s : Fsm.St) : Fsm.St :=
  match r with
  | .res (.next s' _ _) => s'
  | _ => s

/-- `tick` returned `Ok` and there is still a connection to read from -/
def goesOn : Fsm.TickResult → Bool
  | .res (.next s' true _) => s'.conn
  | _ => false

def Res.pre (f : Frame μ) (t : Fsm.TickInput) (r : Fsm.TickResult) (x : Res μ κ) : Res μ κ :=
  { x with frames := f :: x.frames, inputs := t :: x.inputs, trace := r :: x.trace }

/-- mirrors the frame branch of `Session::tick`, called again and again while octets are buffered -/
def pump (w : Wire μ κ) (cfg : Fsm.Cfg) (s : Fsm.St) (k : κ) (buf : Bytes) : Res μ κ :=
  match h : parseFrame (w.dec k) buf with
  | .ok none => ⟨[], [], [], s, k, some buf⟩         -- `read_frame` goes to `tcp_in.read_buf(..).await`
  | .err =>                                           -- `Err(e)`: `self.connection = None; set_state(Connect); return Err`
    ⟨[], [.readErr], [Fsm.tickStep cfg s .readErr], after (Fsm.tickStep cfg s .readErr) s, k, none⟩
  | .panic => ⟨[], [], [.res .panic], s, k, none⟩    -- the decoder panicked: the session task is gone
  | .ok (some ((m, frame), rest)) =>
    have : rest.length < buf.length := parseFrame_rest_lt h
    let t := Fsm.TickInput.frame (w.inp (m, frame))
    let r := Fsm.tickStep cfg s t                     -- `Ok(Some(m))`: `handle_msg(m)`, Connect + `Err` if it failed
    let s' := after r s
    let k' := w.upd k s (m, frame) s'
    if goesOn r then (pump w cfg s' k' rest).pre (m, frame) t r
    else ⟨[(m, frame)], [t], [r], s', k', none⟩
termination_by buf.length

def Res.app (x y : Res μ κ) : Res μ κ :=
  { y with frames := x.frames ++ y.frames, inputs := x.inputs ++ y.inputs, trace := x.trace ++ y.trace }

/-- one socket read of `chunk` (`tcp_in.read_buf(&mut self.buffer)`), then the ticks it makes possible -/
def feed (w : Wire μ κ) (cfg : Fsm.Cfg) (x : Res μ κ) (chunk : Bytes) : Res μ κ :=
  match x.live with
  | some buf => x.app (pump w cfg x.s x.k (buf ++ chunk))
  | none => x

def start (s : Fsm.St) (k : κ) : Res μ κ := ⟨[], [], [], s, k, some []⟩

/-- the session on a given sequence of socket reads, from an empty receive buffer -/
def feedAll (w : Wire μ κ) (cfg : Fsm.Cfg) (s : Fsm.St) (k : κ) (chunks : List Bytes) : Res μ κ :=
  chunks.foldl (feed w cfg) (start s k)

/-- `Rc.Fsm.runTick` until the first `tick` that returns `Err`, loses the connection or panics -/
def liveTicks (cfg : Fsm.Cfg) : Fsm.St → List Fsm.TickInput → List Fsm.TickResult
  | _, [] => []
  | s, t :: rest =>
    Fsm.tickStep cfg s t ::
      (if goesOn (Fsm.tickStep cfg s t) then liveTicks cfg (after (Fsm.tickStep cfg s t) s) rest else [])

/-- what `tick` gets to process when the frames of `run` arrive: a frame each, then the failed read if
the stream ended in an error -/
def tickInputs (inp : Frame μ → Fsm.Input) (run : Run μ) : List Fsm.TickInput :=
  run.1.map (fun f => Fsm.TickInput.frame (inp f)) ++ (match run.2 with | .err => [.readErr] | _ => [])

/-- the session after `liveTicks` -/
def liveFinal (cfg : Fsm.Cfg) : Fsm.St → List Fsm.TickInput → Fsm.St
  | s, [] => s
  | s, t :: rest =>
    if goesOn (Fsm.tickStep cfg s t) then liveFinal cfg (after (Fsm.tickStep cfg s t) s) rest
    else after (Fsm.tickStep cfg s t) s

/-- what the frame branch of `tick` processes: a frame, or a read that failed -/
def isWireInput : Fsm.TickInput → Bool
  | .frame _ | .readErr => true
  | _ => false

/-- the transitions made on frames `handle_msg` answered `Ok`, along `liveTicks`:
(state before, input, state after, what was sent) -/
def okSteps (cfg : Fsm.Cfg) : Fsm.St → List Fsm.TickInput → List (Fsm.St × Fsm.Input × Fsm.St × List Fsm.Out)
  | _, [] => []
  | s, t :: rest =>
    match t, Fsm.tickStep cfg s t with
    | .frame i, .res (.next s' true outs) => (s, i, s', outs) :: (if s'.conn then okSteps cfg s' rest else [])
    | _, _ => []

/-! ### the concrete wire -/

open Rc.SessionDecode

/-- family numbers as `Rc.Fsm.OpenInfo.ap` / `Rc.Fsm.Cfg.addpath` use them: 4 = Ipv4Unicast, 6 = Ipv6Unicast;
any other (AFI, SAFI) gets a number of its own -/
def famCode (afi safi : Nat) : Nat :=
  if afi = 1 ∧ safi = 1 then 4 else if afi = 2 ∧ safi = 1 then 6 else 1000 + afi * 256 + safi

/-- an injective name for the octets of a PDU (`Rc.Fsm.Out.appUpdate n`: "n identifies the PDU") -/
def pduId (b : Bytes) : Nat := b.foldl (fun acc x => acc * 256 + x.toNat) 1

/-- what `Session::handle_msg` (session.rs:485) and the OPEN-reading arms take from a decoded message, as
the input of the C08 model: an OPEN gives `my_asn()`, `holdtime()` and `addpath_families_vec()` (an `Err`
of the latter is an entry whose direction does not convert: `Rc.Fsm.apOk` is false for it), a NOTIFICATION
its `details()`, an UPDATE is named by its octets. -/
def toInput (raw : Bytes) : BgpMsg → Outcome Fsm.Input
  | .open m =>
    match Open.myAsn m with
    | .ok asn =>
      match Open.holdtime m with
      | .ok h =>
        match Open.addpathFamiliesVec m with
        | .ok ap => .ok (.msgOpen ⟨asn, h, ap.map fun x => (famCode x.1 x.2.1, x.2.2)⟩)
        | .err => .ok (.msgOpen ⟨asn, h, [(0, 0)]⟩)
        | .panic => .panic
      | .err => .err
      | .panic => .panic
    | .err => .err
    | .panic => .panic
  | .update _ => .ok (.msgUpdate (pduId raw))
  | .notification m =>
    -- `m.details()` decides NotifMsgVerErr / NotifMsg; what is forwarded is the PDU, so the input carries the
    -- two octets as they are (`Notif.rawOf` changes the subcode of codes 0 and 4 only: it gives (2, 1) exactly
    -- for the octets 2, 1, which is the test `Rc.Fsm.notifEvent` makes)
    match Notif.detailsRaw m with
    | .ok _ => .ok (.msgNotification (m.getD 19 0).toNat (m.getD 20 0).toNat)
    | .err => .err
    | .panic => .panic
  | .keepalive _ => .ok .msgKeepalive
  | .routeRefresh _ => .ok .msgRouteRefresh

/-- `FourOctetAsns(open_msg.four_octet_capable())` of an OPEN frame (`true` when it cannot be read: not
reached, the arm runs on an OPEN that decoded) -/
def fourOf (raw : Bytes) : Bool :=
  match Open.fromOctets raw with
  | .ok m => (match Open.fourOctetCapable m with | .ok b => b | _ => true)
  | _ => true

def dirOfCode : Nat → Option Upd.Dir
  | 1 => some .receive | 2 => some .send | 3 => some .both | _ => none

def famOfCode : Nat → Option (Nat × Nat)
  | 4 => some (1, 1) | 6 => some (2, 1) | _ => none

/-- the concrete `Wire`: decoder state = the connection's `SessionConfig`.
`upd`: the two OPEN-accepting arms (the only ones that enter OpenConfirm) call
`set_negotiated_config` (`add_famdir` for every negotiated ADD-PATH family, session.rs:155) and
`set_four_octet_asns(FourOctetAsns(open_msg.four_octet_capable()))` (session.rs:997, 1324). -/
def sessionWire : Wire Fsm.Input Upd.Cfg where
  dec := fun k f =>
    match msgFromOctets k f with
    | .ok m => toInput f m
    | .err => .err
    | .panic => .panic
  inp := fun f => f.1
  upd := fun k s f s' =>
    match f.1 with
    | .msgOpen _ =>
      if s'.state = .openConfirm ∧ s.state ≠ .openConfirm then
        { four := fourOf f.2,
          addpath := k.addpath ++ (match s'.neg with
            | some n => n.ap.filterMap fun p =>
                match famOfCode p.1, dirOfCode p.2 with
                | some fam, some d => some (fam, d)
                | _, _ => none
            | none => []) }
      else k
    | _ => k

end Rc.Session
