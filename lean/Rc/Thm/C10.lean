/-
C10 – Route preference is a weak order that implements the RFC 4271 tie-breakers.

Property theorems only (helpers are private).  Model: Rc/Model/PathSel.lean.
-/
import Rc.Model.PathSel
import Rc.Lemmas.Order

namespace Rc.Thm.C10
open Rc Rc.PathSel Rc.Order

/-! ## construction (`try_new` / `eligible`) -/

/-- the route carries a valid ORIGIN attribute -/
def HasOrigin (r : Route) : Prop := ∃ o, r.origin = .val o
/-- the route carries a valid AS_PATH attribute (possibly empty) -/
def HasPath (r : Route) : Prop := ∃ p, r.path = .val p
/-- the AS_PATH names a neighbour AS (it starts with an AS of an AS_SEQUENCE) -/
def HasNeighbour (r : Route) : Prop := ∃ p n, r.path = .val p ∧ neighbor p = some n

/-- routes accepted by `OrdRoute::try_new`: the only routes that ever reach `cmp` -/
abbrev CRoute := { r : Route // tryNew r = none }

private theorem slot_get_some {α : Type} {s : Slot α} {a : α} : s.get = some a ↔ s = .val a := by
  cases s <;> simp [Slot.get]

private theorem slot_get_none {α : Type} {s : Slot α} : s.get = none ↔ ¬ ∃ a, s = .val a := by
  cases s <;> simp [Slot.get]

/-- Clause "routes lacking ORIGIN or AS_PATH, and eBGP routes without a
neighbour AS, are refused at construction": `try_new` succeeds exactly on the
others. -/
theorem try_new_ok_iff (r : Route) :
    tryNew r = none ↔ HasOrigin r ∧ HasPath r ∧ (r.ibgp = false → HasNeighbour r) := by
  unfold tryNew HasOrigin HasPath HasNeighbour
  cases ho : r.origin <;> cases hp : r.path <;> cases hi : r.ibgp <;> simp [Slot.get]
  all_goals (cases hn : neighbor _ <;> simp)

/-- ... and each refusal names the first requirement that fails, in the order
ORIGIN, AS_PATH, neighbour.  (About the MODEL's order of checks only: the
property says "refused", not why, and the reason - a private enum of routecore -
is not observed by the correspondence run.) -/
theorem try_new_refusal (r : Route) :
    (tryNew r = some .noOrigin ↔ ¬ HasOrigin r) ∧
    (tryNew r = some .noPath ↔ HasOrigin r ∧ ¬ HasPath r) ∧
    (tryNew r = some .noNeighbour ↔ HasOrigin r ∧ HasPath r ∧ r.ibgp = false ∧ ¬ HasNeighbour r) := by
  unfold tryNew HasOrigin HasPath HasNeighbour
  cases ho : r.origin <;> cases hp : r.path <;> cases hi : r.ibgp <;> simp [Slot.get]
  all_goals (cases hn : neighbor _ <;> simp)

example : tryNew {
    ibgp := false, dop := none, localPref := none, path := Slot.val [Hop.asn 10, Hop.seg 1 [20, 30]],
    origin := Slot.val 0, med := some 5, localAsn := 65000, originatorId := none, bgpId := 1, clusterLen := none,
    peerV6 := false, peerAddr := 1, extra := 0 } = none := by decide

private theorem constructed_path {r : Route} (h : tryNew r = none) : ∃ p, r.path.get = some p := by
  obtain ⟨_, ⟨p, hp⟩, _⟩ := (try_new_ok_iff r).1 h
  exact ⟨p, by simp [hp, Slot.get]⟩

private theorem constructed_origin {r : Route} (h : tryNew r = none) : ∃ o, r.origin.get = some o := by
  obtain ⟨⟨o, ho⟩, _, _⟩ := (try_new_ok_iff r).1 h
  exact ⟨o, by simp [ho, Slot.get]⟩

/-- On constructed routes `cmp` is the pure chain `cmpP` ... -/
theorem cmp_constructed (s : Strat) {a b : Route} (ha : tryNew a = none) (hb : tryNew b = none) :
    cmp s a b = .ok (cmpP s a b) := by
  obtain ⟨p, hp⟩ := constructed_path ha
  obtain ⟨q, hq⟩ := constructed_path hb
  unfold cmp cmpP stepA pathLen
  simp only [hp, hq, Option.map, Option.getD]
  cases compare (effDop b) (effDop a) <;> simp [Ordering.then]

/-- ... in particular the `panic!("can not compare routes lacking AS_PATH")`
and every other panic is unreachable from routes that `try_new` returned. -/
theorem cmp_never_panics_on_constructed (s : Strat) (a b : CRoute) : cmp s a.1 b.1 ≠ .panic := by
  rw [cmp_constructed s a.2 b.2]; simp

/-- `==` is `cmp == Equal`. -/
theorem eq_iff_cmp_eq (s : Strat) (a b : CRoute) : eq s a.1 b.1 = .ok (cmpP s a.1 b.1 == .eq) := by
  unfold PathSel.eq; rw [cmp_constructed s a.2 b.2]

/-! ## the order laws -/

/-- the SkipMed chain written over numeric keys -/
local infixl:60 " ⊳ " => Ordering.then

private def keyCmp (a b : Route) : Ordering :=
  compare (effDop b) (effDop a) ⊳ compare (pathLen a) (pathLen b) ⊳ compare (rfcOrigin a) (rfcOrigin b) ⊳ .eq ⊳
    compare a.ibgp.toNat b.ibgp.toNat ⊳ .eq ⊳
    compare (a.originatorId.getD a.bgpId) (b.originatorId.getD b.bgpId) ⊳
    compare (a.clusterLen.getD 0) (b.clusterLen.getD 0) ⊳
    (compare a.peerV6.toNat b.peerV6.toNat ⊳ compare a.peerAddr b.peerAddr) ⊳ .eq

private theorem stepB_constructed {a b : Route} (ha : tryNew a = none) (hb : tryNew b = none) :
    stepB a b = compare (rfcOrigin a) (rfcOrigin b) := by
  obtain ⟨x, hx⟩ := constructed_origin ha
  obtain ⟨y, hy⟩ := constructed_origin hb
  simp [stepB, rfcOrigin, hx, hy]

private theorem cmpP_skipMed_key {a b : Route} (ha : tryNew a = none) (hb : tryNew b = none) :
    cmpP .skipMed a b = keyCmp a b := by
  simp only [cmpP, chainFrom, keyCmp, stepB_constructed ha hb, stepC, stepD, stepE, stepF, stepF2, stepG]

private theorem keyCmp_weak : WeakOrd keyCmp := by
  unfold keyCmp
  exact (WeakOrd.ofNat effDop).rev
    |>.andThen (WeakOrd.ofNat pathLen)
    |>.andThen (WeakOrd.ofNat rfcOrigin)
    |>.andThen WeakOrd.const
    |>.andThen (WeakOrd.ofNat fun r => r.ibgp.toNat)
    |>.andThen WeakOrd.const
    |>.andThen (WeakOrd.ofNat fun r => r.originatorId.getD r.bgpId)
    |>.andThen (WeakOrd.ofNat fun r => r.clusterLen.getD 0)
    |>.andThen ((WeakOrd.ofNat fun r => r.peerV6.toNat).andThen (WeakOrd.ofNat fun r => r.peerAddr))
    |>.andThen WeakOrd.const

/-- Clause "with MED comparison disabled the comparison is a strict weak order
whose equality is an equivalence consistent with it": for ALL constructed
routes, `cmp` under SkipMed is antisymmetric (`cmp b a` mirrors `cmp a b`, hence
reflexive), `<` is transitive and "equally preferred" is transitive; the
compatibility of the equivalence with `<` is `WeakOrd.lt_eq` / `WeakOrd.eq_lt`. -/
theorem skipMed_weak_order : WeakOrd (fun (a b : CRoute) => cmpP .skipMed a.1 b.1) := by
  have h : (fun (a b : CRoute) => cmpP .skipMed a.1 b.1) = (fun (a b : CRoute) => keyCmp a.1 b.1) := by
    funext a b; exact cmpP_skipMed_key a.2 b.2
  rw [h]; exact keyCmp_weak.pullback Subtype.val

/-- reflexivity, spelled out -/
theorem skipMed_refl (a : CRoute) : cmp .skipMed a.1 a.1 = .ok .eq := by
  rw [cmp_constructed _ a.2 a.2]; exact congrArg _ (skipMed_weak_order.refl a)

/-- antisymmetry, spelled out on `cmp` itself -/
theorem skipMed_antisymm (a b : CRoute) :
    cmp .skipMed b.1 a.1 = .ok (cmpP .skipMed a.1 b.1).swap := by
  rw [cmp_constructed _ b.2 a.2]; exact congrArg _ (skipMed_weak_order.swap a b)

/-- transitivity of `<`, of `==`, and compatibility, spelled out -/
theorem skipMed_trans (a b c : CRoute) :
    (cmpP .skipMed a.1 b.1 = .lt → cmpP .skipMed b.1 c.1 = .lt → cmpP .skipMed a.1 c.1 = .lt) ∧
    (cmpP .skipMed a.1 b.1 = .eq → cmpP .skipMed b.1 c.1 = .eq → cmpP .skipMed a.1 c.1 = .eq) ∧
    (cmpP .skipMed a.1 b.1 = .lt → cmpP .skipMed b.1 c.1 = .eq → cmpP .skipMed a.1 c.1 = .lt) ∧
    (cmpP .skipMed a.1 b.1 = .eq → cmpP .skipMed b.1 c.1 = .lt → cmpP .skipMed a.1 c.1 = .lt) :=
  ⟨skipMed_weak_order.lt_trans a b c, skipMed_weak_order.eq_trans a b c,
   fun h1 h2 => skipMed_weak_order.lt_eq h1 h2, fun h1 h2 => skipMed_weak_order.eq_lt h1 h2⟩

/-- the Rfc4271 chain over numeric keys -/
private def keyCmpMed (a b : Route) : Ordering :=
  compare (effDop b) (effDop a) ⊳ compare (pathLen a) (pathLen b) ⊳ compare (rfcOrigin a) (rfcOrigin b) ⊳
    stepC .rfc4271 a b ⊳ compare a.ibgp.toNat b.ibgp.toNat ⊳ .eq ⊳
    compare (a.originatorId.getD a.bgpId) (b.originatorId.getD b.bgpId) ⊳
    compare (a.clusterLen.getD 0) (b.clusterLen.getD 0) ⊳
    (compare a.peerV6.toNat b.peerV6.toNat ⊳ compare a.peerAddr b.peerAddr) ⊳ .eq

private theorem stepC_antisym : Antisym (stepC .rfc4271) := by
  intro a b
  unfold stepC
  by_cases h : nbrOrLocal a = nbrOrLocal b
  · simp [h, Nat.compare_swap]
  · have h' : ¬ nbrOrLocal b = nbrOrLocal a := fun e => h e.symm
    simp [h, h', Ordering.swap]

private theorem keyCmpMed_antisym : Antisym keyCmpMed := by
  unfold keyCmpMed
  exact (Antisym.ofNat effDop).rev
    |>.andThen (Antisym.ofNat pathLen)
    |>.andThen (Antisym.ofNat rfcOrigin)
    |>.andThen stepC_antisym
    |>.andThen (Antisym.ofNat fun r => r.ibgp.toNat)
    |>.andThen Antisym.const
    |>.andThen (Antisym.ofNat fun r => r.originatorId.getD r.bgpId)
    |>.andThen (Antisym.ofNat fun r => r.clusterLen.getD 0)
    |>.andThen ((Antisym.ofNat fun r => r.peerV6.toNat).andThen (Antisym.ofNat fun r => r.peerAddr))
    |>.andThen Antisym.const

private theorem cmpP_rfc_key {a b : Route} (ha : tryNew a = none) (hb : tryNew b = none) :
    cmpP .rfc4271 a b = keyCmpMed a b := by
  simp only [cmpP, chainFrom, keyCmpMed, stepB_constructed ha hb, stepD, stepE, stepF, stepF2, stepG]

/-- Clause "with MED enabled antisymmetry still holds": for all constructed
routes `cmp b a` is the mirror image of `cmp a b` (so `cmp a a = Equal`). -/
theorem rfc4271_antisymm (a b : CRoute) :
    cmp .rfc4271 b.1 a.1 = .ok (cmpP .rfc4271 a.1 b.1).swap := by
  rw [cmp_constructed _ b.2 a.2, cmpP_rfc_key b.2 a.2, cmpP_rfc_key a.2 b.2]
  exact congrArg _ (keyCmpMed_antisym a.1 b.1)

/-- witnesses: three eBGP routes, equal in everything up to MED -/
private def wit (nbr med id : Nat) : Route :=
  { ibgp := false, dop := none, localPref := none, path := Slot.val [Hop.asn nbr, Hop.asn 20], origin := Slot.val 0,
    med := some med, localAsn := 65000, originatorId := none, bgpId := id, clusterLen := none, peerV6 := false,
    peerAddr := 1, extra := 0 }

/-- With MED enabled the comparison is NOT transitive – a theorem, not
folklore: A < C < B < A for A = (neighbour 10, MED 20, id 1), B = (neighbour 10,
MED 10, id 3), C = (neighbour 30, MED 0, id 2).  All three are constructed
routes. -/
theorem rfc4271_not_transitive :
    ∃ a b c : CRoute, cmpP .rfc4271 a.1 b.1 = .lt ∧ cmpP .rfc4271 b.1 c.1 = .lt ∧ cmpP .rfc4271 a.1 c.1 ≠ .lt :=
  ⟨⟨wit 10 20 1, by decide⟩, ⟨wit 30 0 2, by decide⟩, ⟨wit 10 10 3, by decide⟩, by decide, by decide, by decide⟩

/-! ## agreement with the RFC 4271 section 9.1.2.2 procedure -/

/-- what an elimination step does to a one- and to a two-candidate set, in
terms of a pairwise comparison -/
private def StepSpec (st : List Cand → List Cand) (c : Route → Route → Ordering) : Prop :=
  (∀ x, st [x] = [x]) ∧
  ∀ a b, st [(true, a), (false, b)] =
    match c a b with
    | .lt => [(true, a)]
    | .eq => [(true, a), (false, b)]
    | .gt => [(false, b)]

private theorem keepMin_spec (key : Route → Nat) :
    StepSpec (keepMin key) (fun a b => compare (key a) (key b)) := by
  refine ⟨fun x => by simp [keepMin], fun a b => ?_⟩
  rcases Nat.lt_trichotomy (key a) (key b) with h | h | h
  · have h1 : key a ≤ key b := by omega
    have h2 : ¬ key b ≤ key a := by omega
    simp [Nat.compare_eq_lt.2 h, keepMin, h1, h2]
  · simp [keepMin, h]
  · have h1 : key b ≤ key a := by omega
    have h2 : ¬ key a ≤ key b := by omega
    simp [Nat.compare_eq_gt.2 h, keepMin, h1, h2]

private theorem keepMax_spec (key : Route → Nat) :
    StepSpec (keepMax key) (fun a b => compare (key b) (key a)) := by
  refine ⟨fun x => by simp [keepMax], fun a b => ?_⟩
  rcases Nat.lt_trichotomy (key b) (key a) with h | h | h
  · have h1 : key b ≤ key a := by omega
    have h2 : ¬ key a ≤ key b := by omega
    simp [Nat.compare_eq_lt.2 h, keepMax, h1, h2]
  · simp [keepMax, h]
  · have h1 : key a ≤ key b := by omega
    have h2 : ¬ key b ≤ key a := by omega
    simp [Nat.compare_eq_gt.2 h, keepMax, h1, h2]

private theorem medStep_spec :
    StepSpec medStep (fun a b => if rfcNeighbourAs a = rfcNeighbourAs b then compare (rfcMed a) (rfcMed b) else .eq) := by
  refine ⟨fun x => by simp [medStep], fun a b => ?_⟩
  by_cases hn : rfcNeighbourAs a = rfcNeighbourAs b
  · rcases Nat.lt_trichotomy (rfcMed a) (rfcMed b) with h | h | h
    · have h2 : ¬ rfcMed b < rfcMed a := by omega
      simp [Nat.compare_eq_lt.2 h, medStep, hn, h, h2]
    · simp [medStep, hn, h]
    · have h2 : ¬ rfcMed a < rfcMed b := by omega
      simp [Nat.compare_eq_gt.2 h, medStep, hn, h, h2]
  · have hn' : ¬ rfcNeighbourAs b = rfcNeighbourAs a := fun e => hn e.symm
    simp [medStep, hn, hn']

private theorem ebgpStep_spec : StepSpec ebgpStep (fun a b => compare a.ibgp.toNat b.ibgp.toNat) := by
  refine ⟨fun x => by cases h : x.2.ibgp <;> simp [ebgpStep, h], fun a b => ?_⟩
  cases ha : a.ibgp <;> cases hb : b.ibgp <;> simp [ebgpStep, ha, hb] <;> rfl

private theorem id_spec : StepSpec id (fun _ _ => .eq) := ⟨fun _ => rfl, fun _ _ => rfl⟩

private theorem comp_spec {st1 st2 : List Cand → List Cand} {c1 c2 : Route → Route → Ordering}
    (h1 : StepSpec st1 c1) (h2 : StepSpec st2 c2) :
    StepSpec (fun cs => st2 (st1 cs)) (fun a b => (c1 a b).then (c2 a b)) := by
  refine ⟨fun x => by simp [h1.1, h2.1], fun a b => ?_⟩
  have e1 := h1.2 a b
  have e2 := h2.2 a b
  simp only [e1]
  cases c1 a b <;> simp [Ordering.then, h2.1, e2]

private theorem peerStep_spec :
    StepSpec peerStep (fun a b => (compare a.peerV6.toNat b.peerV6.toNat).then (compare a.peerAddr b.peerAddr)) :=
  @comp_spec (keepMin fun r => r.peerV6.toNat) (keepMin fun r => r.peerAddr) _ _
    (keepMin_spec fun r => r.peerV6.toNat) (keepMin_spec fun r => r.peerAddr)

/-- the state of the elimination after some steps, against the ordering accumulated so far -/
private def Rel (a b : Route) (o : Ordering) (cs : List Cand) : Prop :=
  (o = .lt ∧ cs = [(true, a)]) ∨ (o = .gt ∧ cs = [(false, b)]) ∨ (o = .eq ∧ cs = [(true, a), (false, b)])

private theorem run_steps_rel (a b : Route)
    (steps : List ((List Cand → List Cand) × (Route → Route → Ordering)))
    (hs : ∀ p ∈ steps, StepSpec p.1 p.2) :
    ∀ o cs, Rel a b o cs →
      Rel a b (steps.foldl (fun o p => o.then (p.2 a b)) o) ((steps.map Prod.fst).foldl (fun cs st => st cs) cs) := by
  induction steps with
  | nil => intro o cs h; simpa using h
  | cons p ps ih =>
    intro o cs h
    simp only [List.foldl_cons, List.map_cons]
    apply ih (fun q hq => hs q (List.mem_cons_of_mem _ hq))
    have sp := hs p List.mem_cons_self
    rcases h with ⟨ho, hc⟩ | ⟨ho, hc⟩ | ⟨ho, hc⟩
    · subst ho hc; exact .inl ⟨rfl, sp.1 _⟩
    · subst ho hc; exact .inr (.inl ⟨rfl, sp.1 _⟩)
    · subst ho hc
      have e := sp.2 a b
      unfold Rel
      cases hc : p.2 a b <;> simp [hc] at e <;> simp [Ordering.then, e]

private theorem verdict_of_rel {a b : Route} {o : Ordering} {cs : List Cand} (h : Rel a b o cs) : verdict cs = o := by
  rcases h with ⟨ho, hc⟩ | ⟨ho, hc⟩ | ⟨ho, hc⟩ <;> subst ho hc <;> rfl

/-- every RFC step with the pairwise comparison it induces -/
private def specList (med : Bool) : List ((List Cand → List Cand) × (Route → Route → Ordering)) :=
  [ (keepMax rfcDop, fun a b => compare (rfcDop b) (rfcDop a)),
    (keepMin rfcPathLen, fun a b => compare (rfcPathLen a) (rfcPathLen b)),
    (keepMin rfcOrigin, fun a b => compare (rfcOrigin a) (rfcOrigin b)),
    (if med then medStep else id,
      if med then (fun a b => if rfcNeighbourAs a = rfcNeighbourAs b then compare (rfcMed a) (rfcMed b) else .eq)
      else fun _ _ => .eq),
    (ebgpStep, fun a b => compare a.ibgp.toNat b.ibgp.toNat),
    (keepMin rfcId, fun a b => compare (rfcId a) (rfcId b)),
    (keepMin rfcClusterLen, fun a b => compare (rfcClusterLen a) (rfcClusterLen b)),
    (peerStep, fun a b => (compare a.peerV6.toNat b.peerV6.toNat).then (compare a.peerAddr b.peerAddr)) ]

private theorem specList_ok (med : Bool) : ∀ p ∈ specList med, StepSpec p.1 p.2 := by
  intro p hp
  simp only [specList, List.mem_cons, List.mem_nil_iff, or_false] at hp
  rcases hp with rfl | rfl | rfl | rfl | rfl | rfl | rfl | rfl
  · exact keepMax_spec _
  · exact keepMin_spec _
  · exact keepMin_spec _
  · cases med
    · exact id_spec
    · exact medStep_spec
  · exact ebgpStep_spec
  · exact keepMin_spec _
  · exact keepMin_spec _
  · exact peerStep_spec

private theorem rfcDop_eq (r : Route) : rfcDop r = effDop r := by
  unfold rfcDop effDop
  cases r.dop <;> cases r.ibgp <;> cases r.localPref <;> rfl

private theorem foldl_add_sum (f : Hop → Nat) (p : List Hop) (n : Nat) :
    p.foldl (fun s h => s + f h) n = n + (p.map f).sum := by
  induction p generalizing n with
  | nil => simp
  | cons h t ih => simp [List.foldl_cons, ih]; omega

private theorem hopWeight_eq (h : Hop) :
    hopWeight h = (match h with
      | .asn _ => 1
      | .seg ty asns => if ty = 1 then 1 else if ty = 2 then asns.length else 0) := by
  cases h with
  | asn a => rfl
  | seg ty asns =>
    rcases ty with _ | _ | _ | n <;> simp [hopWeight]

private theorem rfcPathLen_eq (r : Route) : rfcPathLen r = pathLen r := by
  unfold rfcPathLen pathLen hopCount
  cases r.path.get with
  | none => rfl
  | some p =>
    simp only [Option.map, Option.getD, foldl_add_sum, Nat.zero_add]
    congr 1
    apply List.map_congr_left
    intro h _
    exact (hopWeight_eq h).symm

private theorem rfcNeighbourAs_eq (r : Route) : rfcNeighbourAs r = nbrOrLocal r := by
  unfold rfcNeighbourAs nbrOrLocal
  cases r.path.get with
  | none => rfl
  | some p =>
    match p with
    | [] => rfl
    | .asn a :: _ => rfl
    | .seg ty [] :: _ => rcases ty with _ | _ | _ | n <;> simp [neighbor]
    | .seg ty (x :: _) :: _ => rcases ty with _ | _ | _ | n <;> simp [neighbor]

private theorem rfcId_eq (r : Route) : rfcId r = r.originatorId.getD r.bgpId := by
  unfold rfcId; cases r.originatorId <;> rfl

/-- Clause "comparing any two eligible routes yields the result of the RFC 4271
section 9.1 decision steps applied in order ... as computed by an independent
reference": for ALL pairs of constructed routes and both strategies, the
`then_with` chain equals the RFC's elimination procedure run on the candidate
set {a, b} (`rfcPrefer`, Rc/Model/PathSel.lean). -/
theorem cmp_is_rfc (s : Strat) (a b : CRoute) : cmp s a.1 b.1 = .ok (rfcPrefer s a.1 b.1) := by
  rw [cmp_constructed s a.2 b.2]
  congr 1
  have hl : rfcSteps (s == .rfc4271) = (specList (s == .rfc4271)).map Prod.fst := by
    cases (s == Strat.rfc4271) <;> rfl
  have hv := verdict_of_rel (run_steps_rel a.1 b.1 (specList (s == .rfc4271)) (specList_ok _) .eq _ (.inr (.inr ⟨rfl, rfl⟩)))
  unfold rfcPrefer
  rw [hl, hv]
  cases s <;>
    simp [specList, cmpP, chainFrom, stepB_constructed a.2 b.2, stepC, stepD, stepE, stepF, stepF2, stepG,
      rfcDop_eq, rfcPathLen_eq, rfcNeighbourAs_eq, rfcId_eq, rfcMed, rfcClusterLen, Ordering.then_eq]

end Rc.Thm.C10
