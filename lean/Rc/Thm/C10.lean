/-
C10 – Route preference is a weak order that implements the RFC 4271 tie-breakers.

Property theorems only (helpers are private).  Model: Rc/Model/PathSel.lean.
-/
import Rc.Model.PathSel
import Rc.Model.PathSelGlue
import Rc.Lemmas.Order
import Rc.Lemmas.PathSelGlue

namespace Rc.Thm.C10
open Rc Rc.PathSel Rc.Order

/-! ## construction (`try_new` / `eligible`) -/

/-- the route carries a valid ORIGIN attribute -/
def HasOrigin (r : Route) : Prop := ∃ o, r.origin = .val o
/-- the route carries a valid AS_PATH attribute (possibly empty) -/
def HasPath (r : Route) : Prop := ∃ p, r.path = .val p
/-- the AS_PATH names a neighbour AS (it starts with an AS of an AS_SEQUENCE) -/
def HasNeighbour (r : Route) : Prop := ∃ p n, r.path = .val p ∧ neighbor p = some n

/-- routes accepted by `OrdRoute::try_new`: the only routes that ever reach `cmp` -/
abbrev CRoute := { r : Route // tryNew r = none }

private theorem slot_get_some {α : Type} {s : Slot α} {a : α} : s.get = some a ↔ s = .val a := by
  cases s <;> simp [Slot.get]

private theorem slot_get_none {α : Type} {s : Slot α} : s.get = none ↔ ¬ ∃ a, s = .val a := by
  cases s <;> simp [Slot.get]

/-- Clause "routes lacking ORIGIN or AS_PATH, and eBGP routes without a
neighbour AS, are refused at construction": `try_new` succeeds exactly on the
others. -/
theorem try_new_ok_iff (r : Route) :
    tryNew r = none ↔ HasOrigin r ∧ HasPath r ∧ (r.ibgp = false → HasNeighbour r) := by
  unfold tryNew HasOrigin HasPath HasNeighbour
  cases ho : r.origin <;> cases hp : r.path <;> cases hi : r.ibgp <;> simp [Slot.get]
  all_goals (cases hn : neighbor _ <;> simp)

/-- ... and each refusal names the first requirement that fails, in the order
ORIGIN, AS_PATH, neighbour.  (About the MODEL's order of checks only: the
property says "refused", not why, and the reason - a private enum of routecore -
is not observed by the correspondence run.) -/
theorem try_new_refusal (r : Route) :
    (tryNew r = some .noOrigin ↔ ¬ HasOrigin r) ∧
    (tryNew r = some .noPath ↔ HasOrigin r ∧ ¬ HasPath r) ∧
    (tryNew r = some .noNeighbour ↔ HasOrigin r ∧ HasPath r ∧ r.ibgp = false ∧ ¬ HasNeighbour r) := by
  unfold tryNew HasOrigin HasPath HasNeighbour
  cases ho : r.origin <;> cases hp : r.path <;> cases hi : r.ibgp <;> simp [Slot.get]
  all_goals (cases hn : neighbor _ <;> simp)

example : tryNew {
    ibgp := false, dop := none, localPref := none, path := Slot.val [Hop.asn 10, Hop.seg 1 [20, 30]],
    origin := Slot.val 0, med := some 5, localAsn := 65000, originatorId := none, bgpId := 1, clusterLen := none,
    peerV6 := false, peerAddr := 1, extra := 0 } = none := by decide

private theorem constructed_path {r : Route} (h : tryNew r = none) : ∃ p, r.path.get = some p := by
  obtain ⟨_, ⟨p, hp⟩, _⟩ := (try_new_ok_iff r).1 h
  exact ⟨p, by simp [hp, Slot.get]⟩

private theorem constructed_origin {r : Route} (h : tryNew r = none) : ∃ o, r.origin.get = some o := by
  obtain ⟨⟨o, ho⟩, _, _⟩ := (try_new_ok_iff r).1 h
  exact ⟨o, by simp [ho, Slot.get]⟩

/-- On constructed routes `cmp` is the pure chain `cmpP` ... -/
theorem cmp_constructed (s : Strat) {a b : Route} (ha : tryNew a = none) (hb : tryNew b = none) :
    cmp s a b = .ok (cmpP s a b) := by
  obtain ⟨p, hp⟩ := constructed_path ha
  obtain ⟨q, hq⟩ := constructed_path hb
  unfold cmp cmpP stepA pathLen
  simp only [hp, hq, Option.map, Option.getD]
  cases compare (effDop b) (effDop a) <;> simp [Ordering.then]

/-- ... in particular the `panic!("can not compare routes lacking AS_PATH")`
and every other panic is unreachable from routes that `try_new` returned. -/
theorem cmp_never_panics_on_constructed (s : Strat) (a b : CRoute) : cmp s a.1 b.1 ≠ .panic := by
  rw [cmp_constructed s a.2 b.2]; simp

/-- `==` is `cmp == Equal`. -/
theorem eq_iff_cmp_eq (s : Strat) (a b : CRoute) : eq s a.1 b.1 = .ok (cmpP s a.1 b.1 == .eq) := by
  unfold PathSel.eq; rw [cmp_constructed s a.2 b.2]

/-! ## the order laws -/

/-- the SkipMed chain written over numeric keys -/
local infixl:60 " ⊳ " => Ordering.then

private def keyCmp (a b : Route) : Ordering :=
  compare (effDop b) (effDop a) ⊳ compare (pathLen a) (pathLen b) ⊳ compare (rfcOrigin a) (rfcOrigin b) ⊳ .eq ⊳
    compare a.ibgp.toNat b.ibgp.toNat ⊳ .eq ⊳
    compare (a.originatorId.getD a.bgpId) (b.originatorId.getD b.bgpId) ⊳
    compare (a.clusterLen.getD 0) (b.clusterLen.getD 0) ⊳
    (compare a.peerV6.toNat b.peerV6.toNat ⊳ compare a.peerAddr b.peerAddr) ⊳ .eq

private theorem stepB_constructed {a b : Route} (ha : tryNew a = none) (hb : tryNew b = none) :
    stepB a b = compare (rfcOrigin a) (rfcOrigin b) := by
  obtain ⟨x, hx⟩ := constructed_origin ha
  obtain ⟨y, hy⟩ := constructed_origin hb
  simp [stepB, rfcOrigin, hx, hy]

private theorem cmpP_skipMed_key {a b : Route} (ha : tryNew a = none) (hb : tryNew b = none) :
    cmpP .skipMed a b = keyCmp a b := by
  simp only [cmpP, chainFrom, keyCmp, stepB_constructed ha hb, stepC, stepD, stepE, stepF, stepF2, stepG]

private theorem keyCmp_weak : WeakOrd keyCmp := by
  unfold keyCmp
  exact (WeakOrd.ofNat effDop).rev
    |>.andThen (WeakOrd.ofNat pathLen)
    |>.andThen (WeakOrd.ofNat rfcOrigin)
    |>.andThen WeakOrd.const
    |>.andThen (WeakOrd.ofNat fun r => r.ibgp.toNat)
    |>.andThen WeakOrd.const
    |>.andThen (WeakOrd.ofNat fun r => r.originatorId.getD r.bgpId)
    |>.andThen (WeakOrd.ofNat fun r => r.clusterLen.getD 0)
    |>.andThen ((WeakOrd.ofNat fun r => r.peerV6.toNat).andThen (WeakOrd.ofNat fun r => r.peerAddr))
    |>.andThen WeakOrd.const

/-- Clause "with MED comparison disabled the comparison is a strict weak order
whose equality is an equivalence consistent with it": for ALL constructed
routes, `cmp` under SkipMed is antisymmetric (`cmp b a` mirrors `cmp a b`, hence
reflexive), `<` is transitive and "equally preferred" is transitive; the
compatibility of the equivalence with `<` is `WeakOrd.lt_eq` / `WeakOrd.eq_lt`. -/
theorem skipMed_weak_order : WeakOrd (fun (a b : CRoute) => cmpP .skipMed a.1 b.1) := by
  have h : (fun (a b : CRoute) => cmpP .skipMed a.1 b.1) = (fun (a b : CRoute) => keyCmp a.1 b.1) := by
    funext a b; exact cmpP_skipMed_key a.2 b.2
  rw [h]; exact keyCmp_weak.pullback Subtype.val

/-- reflexivity, spelled out -/
theorem skipMed_refl (a : CRoute) : cmp .skipMed a.1 a.1 = .ok .eq := by
  rw [cmp_constructed _ a.2 a.2]; exact congrArg _ (skipMed_weak_order.refl a)

/-- antisymmetry, spelled out on `cmp` itself -/
theorem skipMed_antisymm (a b : CRoute) :
    cmp .skipMed b.1 a.1 = .ok (cmpP .skipMed a.1 b.1).swap := by
  rw [cmp_constructed _ b.2 a.2]; exact congrArg _ (skipMed_weak_order.swap a b)

/-- transitivity of `<`, of `==`, and compatibility, spelled out -/
theorem skipMed_trans (a b c : CRoute) :
    (cmpP .skipMed a.1 b.1 = .lt → cmpP .skipMed b.1 c.1 = .lt → cmpP .skipMed a.1 c.1 = .lt) ∧
    (cmpP .skipMed a.1 b.1 = .eq → cmpP .skipMed b.1 c.1 = .eq → cmpP .skipMed a.1 c.1 = .eq) ∧
    (cmpP .skipMed a.1 b.1 = .lt → cmpP .skipMed b.1 c.1 = .eq → cmpP .skipMed a.1 c.1 = .lt) ∧
    (cmpP .skipMed a.1 b.1 = .eq → cmpP .skipMed b.1 c.1 = .lt → cmpP .skipMed a.1 c.1 = .lt) :=
  ⟨skipMed_weak_order.lt_trans a b c, skipMed_weak_order.eq_trans a b c,
   fun h1 h2 => skipMed_weak_order.lt_eq h1 h2, fun h1 h2 => skipMed_weak_order.eq_lt h1 h2⟩

/-- the Rfc4271 chain over numeric keys -/
private def keyCmpMed (a b : Route) : Ordering :=
  compare (effDop b) (effDop a) ⊳ compare (pathLen a) (pathLen b) ⊳ compare (rfcOrigin a) (rfcOrigin b) ⊳
    stepC .rfc4271 a b ⊳ compare a.ibgp.toNat b.ibgp.toNat ⊳ .eq ⊳
    compare (a.originatorId.getD a.bgpId) (b.originatorId.getD b.bgpId) ⊳
    compare (a.clusterLen.getD 0) (b.clusterLen.getD 0) ⊳
    (compare a.peerV6.toNat b.peerV6.toNat ⊳ compare a.peerAddr b.peerAddr) ⊳ .eq

private theorem stepC_antisym : Antisym (stepC .rfc4271) := by
  intro a b
  unfold stepC
  by_cases h : nbrOrLocal a = nbrOrLocal b
  · simp [h, Nat.compare_swap]
  · have h' : ¬ nbrOrLocal b = nbrOrLocal a := fun e => h e.symm
    simp [h, h', Ordering.swap]

private theorem keyCmpMed_antisym : Antisym keyCmpMed := by
  unfold keyCmpMed
  exact (Antisym.ofNat effDop).rev
    |>.andThen (Antisym.ofNat pathLen)
    |>.andThen (Antisym.ofNat rfcOrigin)
    |>.andThen stepC_antisym
    |>.andThen (Antisym.ofNat fun r => r.ibgp.toNat)
    |>.andThen Antisym.const
    |>.andThen (Antisym.ofNat fun r => r.originatorId.getD r.bgpId)
    |>.andThen (Antisym.ofNat fun r => r.clusterLen.getD 0)
    |>.andThen ((Antisym.ofNat fun r => r.peerV6.toNat).andThen (Antisym.ofNat fun r => r.peerAddr))
    |>.andThen Antisym.const

private theorem cmpP_rfc_key {a b : Route} (ha : tryNew a = none) (hb : tryNew b = none) :
    cmpP .rfc4271 a b = keyCmpMed a b := by
  simp only [cmpP, chainFrom, keyCmpMed, stepB_constructed ha hb, stepD, stepE, stepF, stepF2, stepG]

/-- Clause "with MED enabled antisymmetry still holds": for all constructed
routes `cmp b a` is the mirror image of `cmp a b` (so `cmp a a = Equal`). -/
theorem rfc4271_antisymm (a b : CRoute) :
    cmp .rfc4271 b.1 a.1 = .ok (cmpP .rfc4271 a.1 b.1).swap := by
  rw [cmp_constructed _ b.2 a.2, cmpP_rfc_key b.2 a.2, cmpP_rfc_key a.2 b.2]
  exact congrArg _ (keyCmpMed_antisym a.1 b.1)

/-- witnesses: three eBGP routes, equal in everything up to MED -/
private def wit (nbr med id : Nat) : Route :=
  { ibgp := false, dop := none, localPref := none, path := Slot.val [Hop.asn nbr, Hop.asn 20], origin := Slot.val 0,
    med := some med, localAsn := 65000, originatorId := none, bgpId := id, clusterLen := none, peerV6 := false,
    peerAddr := 1, extra := 0 }

/-- With MED enabled the comparison is NOT transitive – a theorem, not
folklore: A < C < B < A for A = (neighbour 10, MED 20, id 1), B = (neighbour 10,
MED 10, id 3), C = (neighbour 30, MED 0, id 2).  All three are constructed
routes. -/
theorem rfc4271_not_transitive :
    ∃ a b c : CRoute, cmpP .rfc4271 a.1 b.1 = .lt ∧ cmpP .rfc4271 b.1 c.1 = .lt ∧ cmpP .rfc4271 a.1 c.1 ≠ .lt :=
  ⟨⟨wit 10 20 1, by decide⟩, ⟨wit 30 0 2, by decide⟩, ⟨wit 10 10 3, by decide⟩, by decide, by decide, by decide⟩

/-! ## agreement with the RFC 4271 section 9.1.2.2 procedure -/

/-- what an elimination step does to a one- and to a two-candidate set, in
terms of a pairwise comparison -/
private def StepSpec (st : List Cand → List Cand) (c : Route → Route → Ordering) : Prop :=
  (∀ x, st [x] = [x]) ∧
  ∀ a b, st [(true, a), (false, b)] =
    match c a b with
    | .lt => [(true, a)]
    | .eq => [(true, a), (false, b)]
    | .gt => [(false, b)]

private theorem keepMin_spec (key : Route → Nat) :
    StepSpec (keepMin key) (fun a b => compare (key a) (key b)) := by
  refine ⟨fun x => by simp [keepMin], fun a b => ?_⟩
  rcases Nat.lt_trichotomy (key a) (key b) with h | h | h
  · have h1 : key a ≤ key b := by omega
    have h2 : ¬ key b ≤ key a := by omega
    simp [Nat.compare_eq_lt.2 h, keepMin, h1, h2]
  · simp [keepMin, h]
  · have h1 : key b ≤ key a := by omega
    have h2 : ¬ key a ≤ key b := by omega
    simp [Nat.compare_eq_gt.2 h, keepMin, h1, h2]

private theorem keepMax_spec (key : Route → Nat) :
    StepSpec (keepMax key) (fun a b => compare (key b) (key a)) := by
  refine ⟨fun x => by simp [keepMax], fun a b => ?_⟩
  rcases Nat.lt_trichotomy (key b) (key a) with h | h | h
  · have h1 : key b ≤ key a := by omega
    have h2 : ¬ key a ≤ key b := by omega
    simp [Nat.compare_eq_lt.2 h, keepMax, h1, h2]
  · simp [keepMax, h]
  · have h1 : key a ≤ key b := by omega
    have h2 : ¬ key b ≤ key a := by omega
    simp [Nat.compare_eq_gt.2 h, keepMax, h1, h2]

private theorem medStep_spec :
    StepSpec medStep (fun a b => if rfcNeighbourAs a = rfcNeighbourAs b then compare (rfcMed a) (rfcMed b) else .eq) := by
  refine ⟨fun x => by simp [medStep], fun a b => ?_⟩
  by_cases hn : rfcNeighbourAs a = rfcNeighbourAs b
  · rcases Nat.lt_trichotomy (rfcMed a) (rfcMed b) with h | h | h
    · have h2 : ¬ rfcMed b < rfcMed a := by omega
      simp [Nat.compare_eq_lt.2 h, medStep, hn, h, h2]
    · simp [medStep, hn, h]
    · have h2 : ¬ rfcMed a < rfcMed b := by omega
      simp [Nat.compare_eq_gt.2 h, medStep, hn, h, h2]
  · have hn' : ¬ rfcNeighbourAs b = rfcNeighbourAs a := fun e => hn e.symm
    simp [medStep, hn, hn']

private theorem ebgpStep_spec : StepSpec ebgpStep (fun a b => compare a.ibgp.toNat b.ibgp.toNat) := by
  refine ⟨fun x => by cases h : x.2.ibgp <;> simp [ebgpStep, h], fun a b => ?_⟩
  cases ha : a.ibgp <;> cases hb : b.ibgp <;> simp [ebgpStep, ha, hb] <;> rfl

private theorem id_spec : StepSpec id (fun _ _ => .eq) := ⟨fun _ => rfl, fun _ _ => rfl⟩

private theorem comp_spec {st1 st2 : List Cand → List Cand} {c1 c2 : Route → Route → Ordering}
    (h1 : StepSpec st1 c1) (h2 : StepSpec st2 c2) :
    StepSpec (fun cs => st2 (st1 cs)) (fun a b => (c1 a b).then (c2 a b)) := by
  refine ⟨fun x => by simp [h1.1, h2.1], fun a b => ?_⟩
  have e1 := h1.2 a b
  have e2 := h2.2 a b
  simp only [e1]
  cases c1 a b <;> simp [Ordering.then, h2.1, e2]

private theorem peerStep_spec :
    StepSpec peerStep (fun a b => (compare a.peerV6.toNat b.peerV6.toNat).then (compare a.peerAddr b.peerAddr)) :=
  @comp_spec (keepMin fun r => r.peerV6.toNat) (keepMin fun r => r.peerAddr) _ _
    (keepMin_spec fun r => r.peerV6.toNat) (keepMin_spec fun r => r.peerAddr)

/-- the state of the elimination after some steps, against the ordering accumulated so far -/
private def Rel (a b : Route) (o : Ordering) (cs : List Cand) : Prop :=
  (o = .lt ∧ cs = [(true, a)]) ∨ (o = .gt ∧ cs = [(false, b)]) ∨ (o = .eq ∧ cs = [(true, a), (false, b)])

private theorem run_steps_rel (a b : Route)
    (steps : List ((List Cand → List Cand) × (Route → Route → Ordering)))
    (hs : ∀ p ∈ steps, StepSpec p.1 p.2) :
    ∀ o cs, Rel a b o cs →
      Rel a b (steps.foldl (fun o p => o.then (p.2 a b)) o) ((steps.map Prod.fst).foldl (fun cs st => st cs) cs) := by
  induction steps with
  | nil => intro o cs h; simpa using h
  | cons p ps ih =>
    intro o cs h
    simp only [List.foldl_cons, List.map_cons]
    apply ih (fun q hq => hs q (List.mem_cons_of_mem _ hq))
    have sp := hs p List.mem_cons_self
    rcases h with ⟨ho, hc⟩ | ⟨ho, hc⟩ | ⟨ho, hc⟩
    · subst ho hc; exact .inl ⟨rfl, sp.1 _⟩
    · subst ho hc; exact .inr (.inl ⟨rfl, sp.1 _⟩)
    · subst ho hc
      have e := sp.2 a b
      unfold Rel
      cases hc : p.2 a b <;> simp [hc] at e <;> simp [Ordering.then, e]

private theorem verdict_of_rel {a b : Route} {o : Ordering} {cs : List Cand} (h : Rel a b o cs) : verdict cs = o := by
  rcases h with ⟨ho, hc⟩ | ⟨ho, hc⟩ | ⟨ho, hc⟩ <;> subst ho hc <;> rfl

/-- every RFC step with the pairwise comparison it induces -/
private def specList (med : Bool) : List ((List Cand → List Cand) × (Route → Route → Ordering)) :=
  [ (keepMax rfcDop, fun a b => compare (rfcDop b) (rfcDop a)),
    (keepMin rfcPathLen, fun a b => compare (rfcPathLen a) (rfcPathLen b)),
    (keepMin rfcOrigin, fun a b => compare (rfcOrigin a) (rfcOrigin b)),
    (if med then medStep else id,
      if med then (fun a b => if rfcNeighbourAs a = rfcNeighbourAs b then compare (rfcMed a) (rfcMed b) else .eq)
      else fun _ _ => .eq),
    (ebgpStep, fun a b => compare a.ibgp.toNat b.ibgp.toNat),
    (keepMin rfcId, fun a b => compare (rfcId a) (rfcId b)),
    (keepMin rfcClusterLen, fun a b => compare (rfcClusterLen a) (rfcClusterLen b)),
    (peerStep, fun a b => (compare a.peerV6.toNat b.peerV6.toNat).then (compare a.peerAddr b.peerAddr)) ]

private theorem specList_ok (med : Bool) : ∀ p ∈ specList med, StepSpec p.1 p.2 := by
  intro p hp
  simp only [specList, List.mem_cons, List.mem_nil_iff, or_false] at hp
  rcases hp with rfl | rfl | rfl | rfl | rfl | rfl | rfl | rfl
  · exact keepMax_spec _
  · exact keepMin_spec _
  · exact keepMin_spec _
  · cases med
    · exact id_spec
    · exact medStep_spec
  · exact ebgpStep_spec
  · exact keepMin_spec _
  · exact keepMin_spec _
  · exact peerStep_spec

private theorem rfcDop_eq (r : Route) : rfcDop r = effDop r := by
  unfold rfcDop effDop
  cases r.dop <;> cases r.ibgp <;> cases r.localPref <;> rfl

private theorem foldl_add_sum (f : Hop → Nat) (p : List Hop) (n : Nat) :
    p.foldl (fun s h => s + f h) n = n + (p.map f).sum := by
  induction p generalizing n with
  | nil => simp
  | cons h t ih => simp [List.foldl_cons, ih]; omega

private theorem hopWeight_eq (h : Hop) :
    hopWeight h = (match h with
      | .asn _ => 1
      | .seg ty asns => if ty = 1 then 1 else if ty = 2 then asns.length else 0) := by
  cases h with
  | asn a => rfl
  | seg ty asns =>
    rcases ty with _ | _ | _ | n <;> simp [hopWeight]

private theorem rfcPathLen_eq (r : Route) : rfcPathLen r = pathLen r := by
  unfold rfcPathLen pathLen hopCount
  cases r.path.get with
  | none => rfl
  | some p =>
    simp only [Option.map, Option.getD, foldl_add_sum, Nat.zero_add]
    congr 1
    apply List.map_congr_left
    intro h _
    exact (hopWeight_eq h).symm

private theorem rfcNeighbourAs_eq (r : Route) : rfcNeighbourAs r = nbrOrLocal r := by
  unfold rfcNeighbourAs nbrOrLocal
  cases r.path.get with
  | none => rfl
  | some p =>
    match p with
    | [] => rfl
    | .asn a :: _ => rfl
    | .seg ty [] :: _ => rcases ty with _ | _ | _ | n <;> simp [neighbor]
    | .seg ty (x :: _) :: _ => rcases ty with _ | _ | _ | n <;> simp [neighbor]

private theorem rfcId_eq (r : Route) : rfcId r = r.originatorId.getD r.bgpId := by
  unfold rfcId; cases r.originatorId <;> rfl

/-- Clause "comparing any two eligible routes yields the result of the RFC 4271
section 9.1 decision steps applied in order ... as computed by an independent
reference": for ALL pairs of constructed routes and both strategies, the
`then_with` chain equals the RFC's elimination procedure run on the candidate
set {a, b} (`rfcPrefer`, Rc/Model/PathSel.lean). -/
theorem cmp_is_rfc (s : Strat) (a b : CRoute) : cmp s a.1 b.1 = .ok (rfcPrefer s a.1 b.1) := by
  rw [cmp_constructed s a.2 b.2]
  congr 1
  have hl : rfcSteps (s == .rfc4271) = (specList (s == .rfc4271)).map Prod.fst := by
    cases (s == Strat.rfc4271) <;> rfl
  have hv := verdict_of_rel (run_steps_rel a.1 b.1 (specList (s == .rfc4271)) (specList_ok _) .eq _ (.inr (.inr ⟨rfl, rfl⟩)))
  unfold rfcPrefer
  rw [hl, hv]
  cases s <;>
    simp [specList, cmpP, chainFrom, stepB_constructed a.2 b.2, stepC, stepD, stepE, stepF, stepF2, stepG,
      rfcDop_eq, rfcPathLen_eq, rfcNeighbourAs_eq, rfcId_eq, rfcMed, rfcClusterLen, Ordering.then_eq]

/-! ## the glue: from a received UPDATE (or any attribute map) to the route `cmp` reads

Model: Rc/Model/PathSelGlue.lean (`routeOfPaMap` = `OrdRoute::try_new` + every read of `cmp`, on
C17's model of `PaMap` / `PaMap::from_update_pdu`; `wireRoute` = the same fields read directly off the
list of received attributes: a simpler implementation with routecore's policy, the refinement target
of (a), NOT an independent reading of the RFCs - see `Rfc7606Departure`).  An accepted UPDATE is one C17's model of `UpdateMessage::from_octets`
(`PaMap.parseUpdate four ap`) accepts, in a session of either AS number width, with or without
ADD-PATH. -/

section Glue
open Rc.PaMap Rc.PathSelGlue

/-- **(a) route_of_update_spec** - a REFINEMENT ("implementation = simpler implementation"), not a
conformance statement: for EVERY accepted UPDATE and every tie-breaker record, the route
`PaMap::from_update_pdu` + `OrdRoute::try_new` build - through the map (first-wins insertion into
the sorted list, `lookup`, `from_attribute`) and through the stored representation (AS_PATH widened
to four octets, re-chunked by `compose_hops`, read back by C04's `parseValue`) - is the route read
DIRECTLY off the list of received attributes (`wireRoute`): each field from the FIRST attribute with
its type code (F27); ORIGIN must be one octet and the AS_PATH must parse in the AS number width of
the session, else the route is refused (F25: an `Invalid` attribute in the slot does not count);
LOCAL_PREF / MED / ORIGINATOR_ID of another length than four octets and a CLUSTER_LIST that is not
a whole number of ids count as absent; the AS_PATH hops are C13's `toHopPath` of the octets in
the session's width (an AS4_PATH is not consulted); and `try_new` accepts exactly when that route
has an ORIGIN, an AS_PATH and - learned over eBGP - a neighbour AS.  What is eliminated is the map
and the representation (map laws + `path_glue`: C17's octet model and C13's number model of an AS
path accept the same octets and give the same hops).  `wireRoute`'s case split is routecore's own;
where RFC 7606 prescribes something else (`Rfc7606Departure`: undefined ORIGIN value, zero-length
segment, malformed optional attribute, ORIGINATOR_ID / CLUSTER_LIST over eBGP) it follows routecore,
see `rfc7606_departures_accepted`.  The first conjunct holds for every attribute list `u` (the
hypothesis is used for the second only): every attribute carries the session's width, i.e. the
AS_PATH is read `four` octets wide. -/
theorem route_of_update_spec (four ap : Bool) (pdu : Bytes) (u : Update)
    (h : parseUpdate four ap pdu = .ok u) (tb : Tb) :
    routeOfPaMap (fromUpdate u) tb =
        (if tryNew (wireRoute u.attrs tb) = none then .ok (wireRoute u.attrs tb) else .err) ∧
      (∀ w ∈ u.attrs, w.four = four) := by
  refine ⟨?_, parseUpdate_width four ap pdu u h⟩
  simp only [routeOfPaMap, readRoute_fromUpdate]
  cases tryNew (wireRoute u.attrs tb) <;> simp

/-- the hypothesis is satisfiable: an UPDATE of a two-octet session with ORIGIN, AS_PATH (10 20) and one prefix -/
example : (parseUpdate false false (List.replicate 16 255 ++ [0, 39, 2, 0, 0, 0, 13, 0x40, 1, 1, 0,
    0x40, 2, 6, 2, 2, 0, 10, 0, 20, 16, 10, 1])).isOk = true := by decide +kernel

private theorem hopCount_selHop (h : AsPath.HopPath) : hopCount (h.map selHop) = AsPath.hopCountSel h := by
  unfold hopCount AsPath.hopCountSel
  generalize (0 : Nat) = acc
  induction h generalizing acc with
  | nil => rfl
  | cons x r ih =>
    simp only [List.map_cons, List.foldl_cons]
    rw [ih]
    congr 1
    cases x with
    | asn n => rfl
    | seg s =>
      simp only [selHop, AsPath.selStep, hopWeight_eq]
      by_cases h1 : s.ty = 1
      · simp [h1]
      · by_cases h2 : s.ty = 2
        · simp [h2]
        · simp [h1, h2]

private theorem neighbor_hopsOfSegs (ss : List AsPath.Seg) :
    neighbor ((AsPath.hopsOfSegs ss).map selHop) =
      (match ss with
       | [] => none
       | s :: _ => if s.ty = 2 then s.asns.head? else none) := by
  cases ss with
  | nil => rfl
  | cons s r =>
    have e : AsPath.hopsOfSegs (s :: r) = AsPath.hopsOfSeg s ++ AsPath.hopsOfSegs r := by simp [AsPath.hopsOfSegs]
    rw [e]
    unfold AsPath.hopsOfSeg
    by_cases h2 : s.ty = 2
    · cases ha : s.asns with
      | nil => simp [h2, ha, selHop, neighbor]
      | cons a t => simp [h2, ha, selHop, neighbor]
    · simp only [h2, false_and, if_false, List.cons_append, List.nil_append, List.map_cons, selHop]
      obtain ⟨ty, fo, asns⟩ := s
      simp only at h2 ⊢
      rcases ty with _ | _ | _ | n <;> simp_all [neighbor]

/-- A corollary about the direct reading `wireRoute` ONLY (neither `routeOfPaMap` nor `fromUpdate`
occurs; the link to the code path is (a) alone; `h` is used for `w.four = four` only): when the first
AS_PATH attribute of an accepted UPDATE is a valid wire path in the session's width, `wireRoute`'s
path length is C13's path-selection count of those octets (`hopCountSel_wire`: the AS numbers in
AS_SEQUENCE segments plus the number of AS_SETs, confederation segments nothing) and its neighbour AS
is the first AS of the first segment if that is an AS_SEQUENCE (none otherwise: the MED step then
takes the local AS).  `wirePathSlot` is `toHopPath` by definition; this unfolds it with C13's
`wire_view` / `hopCountSel_hopsOfSegs`. -/
theorem update_path_reading (four ap : Bool) (pdu : Bytes) (u : Update)
    (h : parseUpdate four ap pdu = .ok u) (tb : Tb) (w : Wire) (hw : firstWire 2 u.attrs = some w)
    (hc : AsPath.check four w.value = .ok ()) :
    ∃ ss, AsPath.segments four w.value = .ok ss ∧
      (wireRoute u.attrs tb).path = .val ((AsPath.hopsOfSegs ss).map selHop) ∧
      pathLen (wireRoute u.attrs tb) = (ss.map AsPath.segSel).sum ∧
      (wireRoute u.attrs tb).path.get.bind neighbor =
        (match ss with
         | [] => none
         | s :: _ => if s.ty = 2 then s.asns.head? else none) := by
  have hfour : w.four = four := by
    have hm : w ∈ u.attrs := by
      clear hc h
      generalize u.attrs = ws at hw
      induction ws with
      | nil => simp [firstWire] at hw
      | cons x xs ih =>
        simp only [firstWire] at hw
        split at hw
        · cases hw; simp
        · exact List.mem_cons_of_mem _ (ih hw)
    exact parseUpdate_width four ap pdu u h w hm
  obtain ⟨ss, _, _, hseg, _, hh⟩ := AsPath.wire_view four w.value hc
  have hp : (wireRoute u.attrs tb).path = .val ((AsPath.hopsOfSegs ss).map selHop) := by
    simp [wireRoute, wirePathSlot, hw, hfour, hh]
  refine ⟨ss, hseg, hp, ?_, ?_⟩
  · simp [pathLen, hp, Slot.get, hopCount_selHop, AsPath.hopCountSel_hopsOfSegs]
  · simp [hp, Slot.get, neighbor_hopsOfSegs]

/-- ORIGIN 0, AS_PATH = AS_SEQUENCE(10, 20) then AS_SET(30, 40) in two-octet form, a second (ignored)
AS_PATH, MED 5 and a malformed LOCAL_PREF, received in a two-octet session: accepted, path length 3,
neighbour 10, MED 5, LOCAL_PREF absent. -/
example :
    (routeOfPaMap (fromUpdate ⟨[⟨0x40, 1, [0], false⟩, ⟨0x40, 2, [2, 2, 0, 10, 0, 20, 1, 2, 0, 30, 0, 40], false⟩,
      ⟨0x40, 2, [2, 1, 0, 99], false⟩, ⟨0x80, 4, [0, 0, 0, 5], false⟩, ⟨0x40, 5, [1, 2], false⟩], [16, 10, 1]⟩)
      ⟨false, none, 65000, 1, false, 1⟩).toOption.map
        (fun r => (pathLen r, r.path.get.bind neighbor, r.med, r.localPref)) = some (3, some 10, some 5, none) := by
  decide +kernel

/-- **(b) cmp_of_updates_is_rfc** - comparing the routes of two accepted UPDATEs (received in sessions of
any kind, with any tie-breaker records) that `try_new` accepted yields the RFC 4271 9.1.2.2
elimination procedure `rfcPrefer` applied to the direct readings (`wireRoute`) of the two attribute
sections: (a) composed with `cmp_is_rfc`.  The independent side is `rfcPrefer` (the decision steps);
the reading of the attributes is routecore's (see (a)). -/
theorem cmp_of_updates_is_rfc (s : Strat) (f1 a1 f2 a2 : Bool) (p1 p2 : Bytes) (u1 u2 : Update)
    (h1 : parseUpdate f1 a1 p1 = .ok u1) (h2 : parseUpdate f2 a2 p2 = .ok u2) (t1 t2 : Tb) (r1 r2 : Route)
    (e1 : routeOfPaMap (fromUpdate u1) t1 = .ok r1) (e2 : routeOfPaMap (fromUpdate u2) t2 = .ok r2) :
    cmp s r1 r2 = .ok (rfcPrefer s (wireRoute u1.attrs t1) (wireRoute u2.attrs t2)) := by
  have k : ∀ (f a : Bool) (p : Bytes) (u : Update) (t : Tb) (r : Route), parseUpdate f a p = .ok u →
      routeOfPaMap (fromUpdate u) t = .ok r → r = wireRoute u.attrs t ∧ tryNew r = none := by
    intro f a p u t r h e
    rw [(route_of_update_spec f a p u h t).1] at e
    split at e
    · rename_i hn; cases e; exact ⟨rfl, hn⟩
    · cases e
  obtain ⟨rfl, n1⟩ := k f1 a1 p1 u1 t1 r1 h1 e1
  obtain ⟨rfl, n2⟩ := k f2 a2 p2 u2 t2 r2 h2 e2
  exact cmp_is_rfc s ⟨_, n1⟩ ⟨_, n2⟩

/-- what `routeOfPaMap` returns is a constructed route -/
theorem route_of_pa_map_constructed {m : PaMap.Map} {tb : Tb} {r : Route}
    (h : routeOfPaMap m tb = .ok r) : tryNew r = none := by
  unfold routeOfPaMap at h
  split at h
  · split at h
    · rename_i hn; cases h; simpa using hn
    · cases h
  · cases h
  · cases h

/-- **(c) try_new_total** - parts 1 and 2 are MODEL WELL-DEFINEDNESS, not a robustness result about
routecore (`try_new` and the reads of `cmp` have no panic site: `PaMap::get` clones, `from_attribute`
pattern-matches): the `.panic` of `routeOfPaMap` is the model's representation check (`getTyped`:
the stored octets of a typed `Attr` must parse as its type), and it never fires (so the driver never
prints a `panic` of its own) on the map `from_update_pdu` builds from ANY attribute list -
malformed, repeated, unknown attributes in any slot -, nor on any map reachable from the empty map
by any sequence of API calls (`set` / `set_from_enum` / `add_attribute` of `Invalid` and
`Unimplemented` attributes under any type code / `remove` / `remove_non_transitives` /
`merge_upsert` / `from_update_pdu`) whose typed arguments satisfy `OpOk`.  `OpOk` = the value octets
of a typed argument are a PARSE IMAGE: they parse as the type and re-compose to themselves
(`typedValue c v = some v`).  That covers every value a received UPDATE yields and every attribute a
C17 request line denotes (`spec_valok`); it does NOT cover every Rust value the public API can
build: a directly written `OriginType::Unimplemented(n)`, n <= 2, and a `HopPath` holding a non-empty
AS_SEQUENCE as `Hop::Segment` next to `Hop::Asn`s have no `Attr` of their own (they compose to the
octets of another value and the model identifies them with it - harmless for `try_new` / `cmp` after
F37 / F26, see the header of Rc/Model/PathSelGlue.lean).  Routes holding such values are covered at
the level of the route record (`cmp_is_rfc`, the order laws: ALL `Route`s) and tied by the 12-field
request lines (`U<n>` origins, `Q..` hops), not by the glue.  Part 3 is about the one real panic
site (`cmp` step a): `cmp` never panics on two routes `try_new` accepted, whatever the maps hold
(`cmp_never_panics_on_constructed` + `route_of_pa_map_constructed`). -/
theorem try_new_total :
    (∀ (u : Update) (tb : Tb), routeOfPaMap (fromUpdate u) tb ≠ .panic) ∧
    (∀ (ops : List Op), (∀ o ∈ ops, OpOk o) → ∀ tb : Tb, routeOfPaMap (run ⟨[], []⟩ ops).a tb ≠ .panic) ∧
    (∀ (s : Strat) (m1 m2 : PaMap.Map) (t1 t2 : Tb) (r1 r2 : Route),
      routeOfPaMap m1 t1 = .ok r1 → routeOfPaMap m2 t2 = .ok r2 → cmp s r1 r2 ≠ .panic) := by
  have np : ∀ (m : PaMap.Map), ValOk m → ∀ tb : Tb, routeOfPaMap m tb ≠ .panic := by
    intro m hm tb
    obtain ⟨r, hr⟩ := readRoute_ok m hm tb
    simp only [routeOfPaMap, hr]
    split <;> simp
  refine ⟨fun u tb => np _ (valok_fromUpdate u) tb, fun ops h tb => np _ (valok_run ops h ⟨[], []⟩ valok_empty valok_empty).1 tb, ?_⟩
  intro s m1 m2 t1 t2 r1 r2 e1 e2
  exact cmp_never_panics_on_constructed s ⟨r1, route_of_pa_map_constructed e1⟩ ⟨r2, route_of_pa_map_constructed e2⟩

/-- The four places where the direct reading - hence, by (a), `from_update_pdu` + `try_new` - departs
from RFC 7606 are real: attribute lists on which RFC 7606 has the route treated as withdrawn (7.1
undefined ORIGIN value 200; 7.2 AS_PATH with a zero-length segment; 7.4 MULTI_EXIT_DISC of two
octets) or the attribute discarded (7.9 ORIGINATOR_ID received over eBGP), each accepted by `try_new`
with the stated reading.  A record of routecore's policy (the property is silent on these routes),
not a property clause. -/
theorem rfc7606_departures_accepted :
    let tb : Tb := ⟨false, none, 65000, 5, false, 1⟩
    let o : Wire := ⟨0x40, 1, [0], true⟩
    let p : Wire := ⟨0x40, 2, [2, 1, 0, 0, 0, 10], true⟩
    (Rfc7606Departure [⟨0x40, 1, [200], true⟩, p] tb = true ∧
      (routeOfPaMap (fromUpdate ⟨[⟨0x40, 1, [200], true⟩, p], []⟩) tb).toOption.map (·.origin) = some (.val 200)) ∧
    (Rfc7606Departure [o, ⟨0x40, 2, [2, 1, 0, 0, 0, 10, 1, 0], true⟩] tb = true ∧
      (routeOfPaMap (fromUpdate ⟨[o, ⟨0x40, 2, [2, 1, 0, 0, 0, 10, 1, 0], true⟩], []⟩) tb).toOption.map (·.path) =
        some (.val [.asn 10, .seg 1 []])) ∧
    (Rfc7606Departure [o, p, ⟨0x80, 4, [0, 5], true⟩] tb = true ∧
      (routeOfPaMap (fromUpdate ⟨[o, p, ⟨0x80, 4, [0, 5], true⟩], []⟩) tb).toOption.map (·.med) = some none) ∧
    (Rfc7606Departure [o, p, ⟨0x80, 9, [0, 0, 0, 9], true⟩] tb = true ∧
      (routeOfPaMap (fromUpdate ⟨[o, p, ⟨0x80, 9, [0, 0, 0, 9], true⟩], []⟩) tb).toOption.map (·.originatorId) =
        some (some 9)) := by
  decide +kernel

/-- an API call sequence that leaves an `Invalid` attribute under the MED code and an
`Unimplemented` one under the ORIGINATOR_ID code next to a valid ORIGIN / AS_PATH satisfies `OpOk` -/
example : ∀ o ∈ [Op.add ⟨.invalid, 4, 0x80, [0, 0]⟩, Op.add ⟨.unimpl, 9, 0xC0, [1]⟩,
    Op.set ⟨.typed, 1, 0x40, [0]⟩, Op.set ⟨.typed, 2, 0x40, [2, 1, 0, 0, 0, 10]⟩], OpOk o := by
  intro o ho
  simp only [List.mem_cons, List.mem_nil_iff, or_false] at ho
  rcases ho with rfl | rfl | rfl | rfl
  · intro hk; cases hk
  · intro hk; cases hk
  · intro _; decide
  · intro _; decide +kernel

end Glue

end Rc.Thm.C10
