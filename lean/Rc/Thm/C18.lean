/-
C18 – Protocol code points map losslessly to enums and back.

Property theorems only.  The generic theorems hold for *every* table that can
be written with `typeenum!`; the instantiated ones are about the tables
regenerated from /repo's sources on every run (Rc/Gen/Codepoints.lean).
-/
import Rc.Model.Codepoint
import Rc.Gen.Codepoints

namespace Rc.Thm.C18
open Rc Rc.Codepoint

/-! ## helper facts (local; nothing here weakens a statement) -/

private theorem findIdx_get {cs : List Nat} {n i : Nat} (h : findIdx cs n = some i) :
    cs[i]? = some n := by
  induction cs generalizing i with
  | nil => simp [findIdx] at h
  | cons c cs ih =>
    unfold findIdx at h
    split at h
    · simp at h; subst h; simp [*]
    · cases hj : findIdx cs n with
      | none => simp [hj] at h
      | some j => simp [hj] at h; subst h; simpa using ih hj

private theorem findRange_in {rs : List (Nat × Nat)} {n j : Nat} (h : findRange rs n = some j) :
    ∃ lo hi, rs[j]? = some (lo, hi) ∧ lo ≤ n ∧ n ≤ hi := by
  induction rs generalizing j with
  | nil => simp [findRange] at h
  | cons r rs ih =>
    obtain ⟨lo, hi⟩ := r
    unfold findRange at h
    split at h
    · simp at h; subst h; exact ⟨lo, hi, by simp, by omega, by omega⟩
    · cases hj : findRange rs n with
      | none => simp [hj] at h
      | some k => simp [hj] at h; subst h; simpa using ih hj

private theorem findPair_get {ps : List (Nat × Nat)} {q : Nat × Nat} {i : Nat}
    (h : findPair ps q = some i) : ps[i]? = some q := by
  induction ps generalizing i with
  | nil => simp [findPair] at h
  | cons c cs ih =>
    unfold findPair at h
    split at h
    · simp at h; subst h; simp [*]
    · cases hj : findPair cs q with
      | none => simp [hj] at h
      | some j => simp [hj] at h; subst h; simpa using ih hj

/-! ## generic theorems: every `typeenum!` table -/

/-- number -> enum -> number is the identity, for every table and every number
(no width bound is even needed). -/
theorem toInt_fromInt (t : TypeEnum) (n : Nat) : toInt t (fromInt t n) = some n := by
  unfold fromInt
  cases h : findIdx t.codes n with
  | some i => simpa [toInt] using findIdx_get h
  | none =>
    cases h2 : findRange t.ranges n with
    | some j => simp [toInt]
    | none => simp [toInt]

/-- distinct numbers never map to the same variant (named or not). -/
theorem fromInt_injective (t : TypeEnum) (n m : Nat) (h : fromInt t n = fromInt t m) : n = m := by
  have h1 := toInt_fromInt t n
  have h2 := toInt_fromInt t m
  rw [h] at h1
  rw [h1] at h2
  exact Option.some.inj h2

/-- in particular: two numbers mapping to the same *named* variant are equal. -/
theorem named_injective (t : TypeEnum) (n m i : Nat)
    (hn : fromInt t n = .named i) (hm : fromInt t m = .named i) : n = m :=
  fromInt_injective t n m (hn.trans hm.symm)

/-- unknown numbers are preserved in the catch-all rather than dropped. -/
theorem unknown_preserved (t : TypeEnum) (n v : Nat) (h : fromInt t n = .unimpl v) : v = n := by
  have := toInt_fromInt t n
  rw [h] at this
  simpa [toInt] using this

/-- a range variant carries the number, and the number lies in that range. -/
theorem range_preserved (t : TypeEnum) (n j v : Nat) (h : fromInt t n = .range j v) :
    v = n ∧ ∃ lo hi, t.ranges[j]? = some (lo, hi) ∧ lo ≤ n ∧ n ≤ hi := by
  unfold fromInt at h
  cases h1 : findIdx t.codes n with
  | some i => simp [h1] at h
  | none =>
    cases h2 : findRange t.ranges n with
    | some k =>
      simp [h1, h2] at h
      obtain ⟨rfl, rfl⟩ := h
      exact ⟨rfl, findRange_in h2⟩
    | none => simp [h1, h2] at h

/-- enum -> number -> enum is the identity on every variant reachable from a
number. -/
theorem fromInt_toInt (t : TypeEnum) (n k : Nat) (h : toInt t (fromInt t n) = some k) :
    fromInt t k = fromInt t n := by
  rw [toInt_fromInt] at h
  cases h; rfl

/-! ## AFI/SAFI pairs and NLRI types -/

theorem afisafi_roundtrip (tbl : List (Nat × Nat)) (a s : Nat) :
    afisafiTo tbl (afisafiFrom tbl a s) = some (a, s) := by
  unfold afisafiFrom
  cases h : findPair tbl (a, s) with
  | some i => simpa [afisafiTo] using findPair_get h
  | none => simp [afisafiTo]

theorem afisafi_injective (tbl : List (Nat × Nat)) (a s a' s' : Nat)
    (h : afisafiFrom tbl a s = afisafiFrom tbl a' s') : (a, s) = (a', s') := by
  have h1 := afisafi_roundtrip tbl a s
  rw [h, afisafi_roundtrip] at h1
  exact (Option.some.inj h1).symm

/-- the 3-byte encoding is the big-endian AFI followed by the SAFI – for all
2^24 pairs (indeed all naturals), without enumeration. -/
theorem afisafi_bytes (tbl : List (Nat × Nat)) (a s : Nat) :
    afisafiBytes tbl (afisafiFrom tbl a s) = some (be16 a ++ [UInt8.ofNat s]) := by
  simp [afisafiBytes, afisafi_roundtrip]

theorem nlritype_roundtrip (x : AfiSafi) (b : Bool) : nlriTypeAfiSafi (nlriTypeFrom x b) = x := by
  cases x <;> rfl

/-- plain and ADD-PATH variants of a family are distinct, and families stay distinct -/
theorem nlritype_injective (x y : AfiSafi) (b c : Bool) (h : nlriTypeFrom x b = nlriTypeFrom y c) :
    x = y ∧ (∀ i, x = .known i → b = c) := by
  cases x <;> cases y <;> simp_all [nlriTypeFrom]

/-! ## the tables of the current source (regenerated on every run) -/

/-- every generated table's named codes fit the declared width (so that the
Rust literals are the numbers the model uses) -/
theorem generated_codes_fit :
    ∀ t ∈ Gen.typeenums, ∀ c ∈ t.codes, c < 2 ^ t.width := by decide +kernel

/-- `Header::msg_type` (hand-written match) agrees with `MsgType::from` for all 256 bytes -/
theorem header_msg_type_agrees :
    ∀ n : Fin 256, msgTypeOf Gen.msgTypeArms n.val
      = fromInt (Gen.typeenums.getD Gen.msgTypeTable ⟨"", 0, [], [], [], []⟩) n.val := by
  decide +kernel

theorem header_msg_type_default : Gen.msgTypeDefaultCarries = true := by decide

/-- AddpathDirection / SegmentType: the two hand-written directions are inverse -/
theorem apdir_roundtrip : ∀ p ∈ Gen.apdirFrom, assoc Gen.apdirTo p.2 = some p.1 := by decide
theorem apdir_back : ∀ p ∈ Gen.apdirTo, assoc Gen.apdirFrom p.2 = some p.1 := by decide
theorem segtype_roundtrip : ∀ p ∈ Gen.segtypeFrom, assoc Gen.segtypeTo p.2 = some p.1 := by decide
theorem segtype_back : ∀ p ∈ Gen.segtypeTo, assoc Gen.segtypeFrom p.2 = some p.1 := by decide

/-! ## notification details -/

def ecTable : TypeEnum := Gen.typeenums.getD Gen.errorCodeTable ⟨"", 0, [], [], [], []⟩

/-- decidable per-code condition on the *shapes* of the two match tables that
makes raw ∘ details the identity (for every subcode when the variant keeps
it, for subcode 0 otherwise) -/
def shapeCond (ec : TypeEnum) (da : List (Nat × Nat × Bool × Bool)) (ra : List (Nat × CodeSrc × CodeSrc))
    (code : Nat) : Bool :=
  match detailsShape ec da code with
  | none => false
  | some sh =>
    match findRaw ra sh.dv with
    | none => false
    | some (c, s) =>
      (evalSrc ec (if sh.keepsCode then some code else none) c == some code)
      && (if sh.keepsSub then s == .carried else s == .lit 0)

/-- generic lifting lemma: the shape condition implies the round trip for ALL subcodes -/
private theorem shape_lift (ec da ra) (code sub : Nat) (h : shapeCond ec da ra code = true)
    (hs : (∀ sh, detailsShape ec da code = some sh → sh.keepsSub = true) ∨ sub = 0) :
    (details ec da code sub).bind (detailsRaw ec ra) = some (code, sub) := by
  unfold shapeCond at h
  unfold details
  cases hsh : detailsShape ec da code with
  | none => simp [hsh] at h
  | some sh =>
    simp only [hsh] at h
    cases hr : findRaw ra sh.dv with
    | none => simp [hr] at h
    | some cs =>
      obtain ⟨c, s⟩ := cs
      simp only [hr, Bool.and_eq_true, beq_iff_eq] at h
      obtain ⟨hc, hsub⟩ := h
      simp only [Option.map_some, Option.bind_some, detailsRaw, hr, hc]
      cases hk : sh.keepsSub with
      | true =>
        simp [hk] at hsub
        subst hsub
        simp [evalSrc]
      | false =>
        simp [hk] at hsub
        subst hsub
        rcases hs with hs | hs
        · have := hs sh hsh; simp [hk] at this
        · subst hs; simp [evalSrc]

/-- The full statement of the property's last clause.  It is FALSE of the code
as it stands (finding K1), see `details_roundtrip_fails`. -/
def DetailsRoundtripStatement : Prop :=
  ∀ code sub : Nat, code < 256 → sub < 256 →
    (details ecTable Gen.detailsArms code sub).bind (detailsRaw ecTable Gen.rawArms)
      = some (code, sub)

/-- codes whose `Details` variant has no field for the subcode -/
def dropsSub (code : Nat) : Bool :=
  match detailsShape ecTable Gen.detailsArms code with
  | some sh => !sh.keepsSub
  | none => true

theorem generated_shapes_ok : ∀ code : Fin 256, shapeCond ecTable Gen.detailsArms Gen.rawArms code.val = true := by
  decide +kernel

/-- proved part: details re-encode to the code/subcode they were decoded from
whenever the code's variant keeps the subcode, or the subcode is 0. -/
theorem details_roundtrip_partial (code sub : Nat) (hc : code < 256)
    (h : dropsSub code = false ∨ sub = 0) :
    (details ecTable Gen.detailsArms code sub).bind (detailsRaw ecTable Gen.rawArms)
      = some (code, sub) := by
  apply shape_lift _ _ _ _ _ (generated_shapes_ok ⟨code, hc⟩)
  rcases h with h | h
  · left; intro sh hsh; simp [dropsSub, hsh] at h; exact h
  · right; exact h

/-- exactly which codes drop the subcode in the current source: 0 (Reserved) and 4 (Hold Timer Expired) -/
theorem dropsSub_iff : ∀ code : Fin 256, dropsSub code.val = true ↔ (code.val = 0 ∨ code.val = 4) := by
  decide +kernel

/-- K1 witness: NOTIFICATION (4,7) re-encodes as (4,0); the full statement is false of the model. -/
theorem details_roundtrip_fails : ¬ DetailsRoundtripStatement := by
  intro h
  have := h 4 7 (by decide) (by decide)
  revert this
  decide +kernel

/-! ## non-vacuity -/

example : fromInt (Gen.typeenums.getD 1 ⟨"", 0, [], [], [], []⟩) 2 = .named 1 := by decide +kernel
example : fromInt (Gen.typeenums.getD 10 ⟨"", 0, [], [], [], []⟩) 77 = .range 0 77 := by decide +kernel
example : dropsSub 6 = false ∧ dropsSub 4 = true := by decide +kernel

end Rc.Thm.C18
