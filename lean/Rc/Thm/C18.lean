/-
C18 – Protocol code points map losslessly to enums and back.

Property theorems only.  The generic theorems hold for *every* positional table (they mention no
generated constant and cannot fail when the source changes); the theorems named `generated_*`,
`header_msg_type_*`, `apdir_*`, `segtype_*` and the details theorems are about the tables
regenerated from /repo's sources on every run (Rc/Gen/Codepoints.lean) and are re-decided then.
-/
import Rc.Model.Codepoint
import Rc.Gen.Codepoints

namespace Rc.Thm.C18
open Rc Rc.Codepoint

/-! ## helper facts (local; nothing here weakens a statement) -/

private theorem findIdx_get {cs : List Nat} {n i : Nat} (h : findIdx cs n = some i) :
    cs[i]? = some n := by
  induction cs generalizing i with
  | nil => simp [findIdx] at h
  | cons c cs ih =>
    unfold findIdx at h
    split at h
    · simp at h; subst h; simp [*]
    · cases hj : findIdx cs n with
      | none => simp [hj] at h
      | some j => simp [hj] at h; subst h; simpa using ih hj

private theorem findRange_in {rs : List (Nat × Nat)} {n j : Nat} (h : findRange rs n = some j) :
    ∃ lo hi, rs[j]? = some (lo, hi) ∧ lo ≤ n ∧ n ≤ hi := by
  induction rs generalizing j with
  | nil => simp [findRange] at h
  | cons r rs ih =>
    obtain ⟨lo, hi⟩ := r
    unfold findRange at h
    split at h
    · simp at h; subst h; exact ⟨lo, hi, by simp, by omega, by omega⟩
    · cases hj : findRange rs n with
      | none => simp [hj] at h
      | some k => simp [hj] at h; subst h; simpa using ih hj

private theorem findPair_get {ps : List (Nat × Nat)} {q : Nat × Nat} {i : Nat}
    (h : findPair ps q = some i) : ps[i]? = some q := by
  induction ps generalizing i with
  | nil => simp [findPair] at h
  | cons c cs ih =>
    unfold findPair at h
    split at h
    · simp at h; subst h; simp [*]
    · cases hj : findPair cs q with
      | none => simp [hj] at h
      | some j => simp [hj] at h; subst h; simpa using ih hj

/-! ## generic theorems: every `typeenum!` table -/

/-- number -> enum -> number is the identity, for every table and every number
(no width bound is even needed). -/
theorem toInt_fromInt (t : TypeEnum) (n : Nat) : toInt t (fromInt t n) = some n := by
  unfold fromInt
  cases h : findIdx t.codes n with
  | some i => simpa [toInt] using findIdx_get h
  | none =>
    cases h2 : findRange t.ranges n with
    | some j => simp [toInt]
    | none => simp [toInt]

/-- distinct numbers never map to the same variant (named or not). -/
theorem fromInt_injective (t : TypeEnum) (n m : Nat) (h : fromInt t n = fromInt t m) : n = m := by
  have h1 := toInt_fromInt t n
  have h2 := toInt_fromInt t m
  rw [h] at h1
  rw [h1] at h2
  exact Option.some.inj h2

/-- in particular: two numbers mapping to the same *named* variant are equal. -/
theorem named_injective (t : TypeEnum) (n m i : Nat)
    (hn : fromInt t n = .named i) (hm : fromInt t m = .named i) : n = m :=
  fromInt_injective t n m (hn.trans hm.symm)

/-- unknown numbers are preserved in the catch-all rather than dropped. -/
theorem unknown_preserved (t : TypeEnum) (n v : Nat) (h : fromInt t n = .unimpl v) : v = n := by
  have := toInt_fromInt t n
  rw [h] at this
  simpa [toInt] using this

/-- a range variant carries the number, and the number lies in that range. -/
theorem range_preserved (t : TypeEnum) (n j v : Nat) (h : fromInt t n = .range j v) :
    v = n ∧ ∃ lo hi, t.ranges[j]? = some (lo, hi) ∧ lo ≤ n ∧ n ≤ hi := by
  unfold fromInt at h
  cases h1 : findIdx t.codes n with
  | some i => simp [h1] at h
  | none =>
    cases h2 : findRange t.ranges n with
    | some k =>
      simp [h1, h2] at h
      obtain ⟨rfl, rfl⟩ := h
      exact ⟨rfl, findRange_in h2⟩
    | none => simp [h1, h2] at h

/-- enum -> number -> enum is the identity on every variant reachable from a
number. -/
theorem fromInt_toInt (t : TypeEnum) (n k : Nat) (h : toInt t (fromInt t n) = some k) :
    fromInt t k = fromInt t n := by
  rw [toInt_fromInt] at h
  cases h; rfl

/-! ## AFI/SAFI pairs and NLRI types -/

theorem afisafi_roundtrip (tbl : List (Nat × Nat)) (a s : Nat) :
    afisafiTo tbl (afisafiFrom tbl a s) = some (a, s) := by
  unfold afisafiFrom
  cases h : findPair tbl (a, s) with
  | some i => simpa [afisafiTo] using findPair_get h
  | none => simp [afisafiTo]

theorem afisafi_injective (tbl : List (Nat × Nat)) (a s a' s' : Nat)
    (h : afisafiFrom tbl a s = afisafiFrom tbl a' s') : (a, s) = (a', s') := by
  have h1 := afisafi_roundtrip tbl a s
  rw [h, afisafi_roundtrip] at h1
  exact (Option.some.inj h1).symm

/-- the 3-byte encoding AS MODELLED is the big-endian AFI followed by the SAFI.  NOTE: this restates a
definition (`afisafiBytes` is defined as `be16 afi ++ [safi]` of the round-tripped pair) and says
nothing about the Rust function `AfiSafiType::as_bytes`, which is a separate 13-arm `match`
(src/bgp/nlri/afisafi.rs): that clause is decided by the ORACLE of the harness, which compares
`as_bytes()` with an independently computed `afi.to_be_bytes() ++ [safi]` for every pair it runs
(all 2^24 pairs in the thorough tier; see tools/props/C18.json for the quick tier's coverage). -/
theorem afisafi_bytes (tbl : List (Nat × Nat)) (a s : Nat) :
    afisafiBytes tbl (afisafiFrom tbl a s) = some (be16 a ++ [UInt8.ofNat s]) := by
  simp [afisafiBytes, afisafi_roundtrip]

theorem nlritype_roundtrip (x : AfiSafi) (b : Bool) : nlriTypeAfiSafi (nlriTypeFrom x b) = x := by
  cases x <;> rfl

/-- plain and ADD-PATH variants of a family are distinct, and families stay distinct -/
theorem nlritype_injective (x y : AfiSafi) (b c : Bool) (h : nlriTypeFrom x b = nlriTypeFrom y c) :
    x = y ∧ (∀ i, x = .known i → b = c) := by
  cases x <;> cases y <;> simp_all [nlriTypeFrom]

/-! ## the tables of the current source (regenerated on every run) -/

/-- every generated table's named codes fit the declared width (so that the
Rust literals are the numbers the model uses) -/
theorem generated_codes_fit :
    ∀ t ∈ Gen.typeenums, ∀ c ∈ t.codes, c < 2 ^ t.width := by decide +kernel

/-- `Header::msg_type` (hand-written match) agrees with `MsgType::from` for all 256 bytes -/
theorem header_msg_type_agrees :
    ∀ n : Fin 256, msgTypeOf Gen.msgTypeArms n.val
      = fromInt (Gen.typeenums.getD Gen.msgTypeTable ⟨"", 0, [], [], [], []⟩) n.val := by
  decide +kernel

theorem header_msg_type_default : Gen.msgTypeDefaultCarries = true := by decide

/-- AddpathDirection / SegmentType: the two hand-written directions are inverse -/
theorem apdir_roundtrip : ∀ p ∈ Gen.apdirFrom, assoc Gen.apdirTo p.2 = some p.1 := by decide
theorem apdir_back : ∀ p ∈ Gen.apdirTo, assoc Gen.apdirFrom p.2 = some p.1 := by decide
theorem segtype_roundtrip : ∀ p ∈ Gen.segtypeFrom, assoc Gen.segtypeTo p.2 = some p.1 := by decide
theorem segtype_back : ∀ p ∈ Gen.segtypeTo, assoc Gen.segtypeFrom p.2 = some p.1 := by decide

/-! ## table-level well-formedness, decided for every table of the current source

The generic theorems above hold for ANY positional table (even one with a repeated code, where a
later arm would silently be dead).  What makes a table denote the enumeration its source declares is
decided here, by the kernel, for every table the translator regenerates from the current source: a
change of a `typeenum!` invocation (a duplicated or out-of-width code, a range that swallows a named
code or overlaps another range, a lost arm) re-checks - and can fail - these theorems, not only the
exhaustive harness run. -/

/-- named codes are pairwise distinct and fit the width; every named arm has its variant name and
every range arm its name; ranges are non-empty, fit the width, contain no named code and are
pairwise disjoint (so no arm of the `match` is shadowed by an earlier one) -/
def wfB (t : TypeEnum) : Bool :=
  decide t.codes.Nodup && t.variants.length == t.codes.length && t.rangeNames.length == t.ranges.length
    && t.codes.all (fun c => c < 2 ^ t.width)
    && t.ranges.all (fun r => r.1 ≤ r.2 && r.2 < 2 ^ t.width)
    && t.ranges.all (fun r => t.codes.all (fun c => c < r.1 || r.2 < c))
    && decide (t.ranges.Pairwise (fun r q => r.2 < q.1 ∨ q.2 < r.1))

/-- **every generated table is well-formed** (kernel-decided on the regenerated tables) -/
theorem generated_tables_wf : ∀ t ∈ Gen.typeenums, wfB t = true := by decide +kernel

/-- the (AFI, SAFI) rows are pairwise distinct and fit u16 / u8 -/
theorem generated_afisafi_wf :
    Gen.afisafiPairs.Nodup ∧ ∀ p ∈ Gen.afisafiPairs, p.1 < 65536 ∧ p.2 < 256 := by decide +kernel

private theorem findIdx_nodup {cs : List Nat} (hn : cs.Nodup) {i : Nat} (hi : i < cs.length) :
    findIdx cs cs[i] = some i := by
  induction cs generalizing i with
  | nil => simp at hi
  | cons c cs ih =>
    rw [List.nodup_cons] at hn
    cases i with
    | zero => simp [findIdx]
    | succ j =>
      have hj : j < cs.length := by simpa using hi
      have hne : ¬ c = cs[j] := fun h => hn.1 (h ▸ List.getElem_mem hj)
      simp only [List.getElem_cons_succ, findIdx, hne, if_false, ih hn.2 hj, Option.map_some]

private theorem findIdx_none {cs : List Nat} {n : Nat} (h : ∀ c ∈ cs, c ≠ n) : findIdx cs n = none := by
  induction cs with
  | nil => rfl
  | cons c cs ih =>
    have hc : ¬ c = n := h c (by simp)
    simp only [findIdx, hc, if_false, ih (fun d hd => h d (by simp [hd])), Option.map_none]

private theorem findPair_nodup {ps : List (Nat × Nat)} (hn : ps.Nodup) {i : Nat} (hi : i < ps.length) :
    findPair ps ps[i] = some i := by
  induction ps generalizing i with
  | nil => simp at hi
  | cons c cs ih =>
    rw [List.nodup_cons] at hn
    cases i with
    | zero => simp [findPair]
    | succ j =>
      have hj : j < cs.length := by simpa using hi
      have hne : ¬ c = cs[j] := fun h => hn.1 (h ▸ List.getElem_mem hj)
      simp only [List.getElem_cons_succ, findPair, hne, if_false, ih hn.2 hj, Option.map_some]

private theorem findRange_pairwise {rs : List (Nat × Nat)}
    (hp : rs.Pairwise (fun r q => r.2 < q.1 ∨ q.2 < r.1)) {j : Nat} (hj : j < rs.length) {n : Nat}
    (hlo : rs[j].1 ≤ n) (hhi : n ≤ rs[j].2) : findRange rs n = some j := by
  induction rs generalizing j with
  | nil => simp at hj
  | cons r rs ih =>
    obtain ⟨lo, hi⟩ := r
    rw [List.pairwise_cons] at hp
    cases j with
    | zero =>
      simp only [List.getElem_cons_zero] at hlo hhi
      simp [findRange, hlo, hhi]
    | succ k =>
      have hk : k < rs.length := by simpa using hj
      simp only [List.getElem_cons_succ] at hlo hhi
      have hd := hp.1 rs[k] (List.getElem_mem hk)
      have hout : ¬ (lo ≤ n ∧ n ≤ hi) := by
        simp only at hd
        omega
      simp only [findRange, hout, if_false, ih hp.2 hk hlo hhi, Option.map_some]

/-- **no named arm is dead**: in a well-formed table the number written on the `i`-th named arm
decodes to exactly that variant (and, by `toInt_fromInt`, back to that number) -/
theorem named_reachable (t : TypeEnum) (h : wfB t = true) (i : Nat) (hi : i < t.codes.length) :
    fromInt t t.codes[i] = .named i := by
  simp only [wfB, Bool.and_eq_true, decide_eq_true_eq] at h
  unfold fromInt
  rw [findIdx_nodup h.1.1.1.1.1.1 hi]

/-- **no range arm is dead or shadowed**: in a well-formed table every number inside the bounds of the
`j`-th range arm decodes to that range variant carrying the number -/
theorem range_reachable (t : TypeEnum) (h : wfB t = true) (j : Nat) (hj : j < t.ranges.length) (n : Nat)
    (hlo : t.ranges[j].1 ≤ n) (hhi : n ≤ t.ranges[j].2) : fromInt t n = .range j n := by
  simp only [wfB, Bool.and_eq_true, decide_eq_true_eq, List.all_eq_true, Bool.or_eq_true] at h
  obtain ⟨⟨_, hout⟩, hpw⟩ := h
  have hnone : findIdx t.codes n = none := by
    apply findIdx_none
    intro c hc hcn
    have := hout t.ranges[j] (List.getElem_mem hj) c hc
    subst hcn
    omega
  unfold fromInt
  rw [hnone, findRange_pairwise hpw hj hlo hhi]

/-- the property's clauses (a)-(c) **for the tables of the current source**: every number maps to a
variant that maps back to it; every declared named arm and every number of every declared range is
reached (nothing is shadowed); a number that is on no arm is kept in the catch-all.  The first and
last conjunct are the generic theorems instantiated; the two in the middle rest on
`generated_tables_wf`, i.e. they are re-decided against the regenerated tables. -/
theorem generated_tables_lossless : ∀ t ∈ Gen.typeenums,
    (∀ n, toInt t (fromInt t n) = some n) ∧
    (∀ i (hi : i < t.codes.length), fromInt t t.codes[i] = .named i) ∧
    (∀ j (hj : j < t.ranges.length) n, t.ranges[j].1 ≤ n → n ≤ t.ranges[j].2 → fromInt t n = .range j n) ∧
    (∀ n v, fromInt t n = .unimpl v → v = n) := fun t ht =>
  ⟨toInt_fromInt t, named_reachable t (generated_tables_wf t ht), range_reachable t (generated_tables_wf t ht),
    unknown_preserved t⟩

/-- … and for the (AFI, SAFI) rows of the current source: every pair round-trips, every declared
row is reached by its own pair, an undeclared pair is kept in `Unsupported(afi, safi)` -/
theorem generated_afisafi_lossless :
    (∀ a s, afisafiTo Gen.afisafiPairs (afisafiFrom Gen.afisafiPairs a s) = some (a, s)) ∧
    (∀ i (hi : i < Gen.afisafiPairs.length),
      afisafiFrom Gen.afisafiPairs Gen.afisafiPairs[i].1 Gen.afisafiPairs[i].2 = .known i) ∧
    (∀ a s a' s', afisafiFrom Gen.afisafiPairs a s = .unsupported a' s' → (a', s') = (a, s)) := by
  refine ⟨afisafi_roundtrip _, ?_, ?_⟩
  · intro i hi
    unfold afisafiFrom
    rw [findPair_nodup generated_afisafi_wf.1 hi]
  · intro a s a' s' h
    have := afisafi_roundtrip Gen.afisafiPairs a s
    rw [h] at this
    simpa [afisafiTo] using this

/-! ## notification details -/

def ecTable : TypeEnum := Gen.typeenums.getD Gen.errorCodeTable ⟨"", 0, [], [], [], []⟩

/-- decidable per-code condition on the *shapes* of the two match tables that
makes raw ∘ details the identity (for every subcode when the variant keeps
it, for subcode 0 otherwise) -/
def shapeCond (ec : TypeEnum) (da : List (Nat × Nat × Bool × Bool)) (ra : List (Nat × CodeSrc × CodeSrc))
    (code : Nat) : Bool :=
  match detailsShape ec da code with
  | none => false
  | some sh =>
    match findRaw ra sh.dv with
    | none => false
    | some (c, s) =>
      (evalSrc ec (if sh.keepsCode then some code else none) c == some code)
      && (if sh.keepsSub then s == .carried else s == .lit 0)

/-- generic lifting lemma: the shape condition implies the round trip for ALL subcodes -/
private theorem shape_lift (ec da ra) (code sub : Nat) (h : shapeCond ec da ra code = true)
    (hs : (∀ sh, detailsShape ec da code = some sh → sh.keepsSub = true) ∨ sub = 0) :
    (details ec da code sub).bind (detailsRaw ec ra) = some (code, sub) := by
  unfold shapeCond at h
  unfold details
  cases hsh : detailsShape ec da code with
  | none => simp [hsh] at h
  | some sh =>
    simp only [hsh] at h
    cases hr : findRaw ra sh.dv with
    | none => simp [hr] at h
    | some cs =>
      obtain ⟨c, s⟩ := cs
      simp only [hr, Bool.and_eq_true, beq_iff_eq] at h
      obtain ⟨hc, hsub⟩ := h
      simp only [Option.map_some, Option.bind_some, detailsRaw, hr, hc]
      cases hk : sh.keepsSub with
      | true =>
        simp [hk] at hsub
        subst hsub
        simp [evalSrc]
      | false =>
        simp [hk] at hsub
        subst hsub
        rcases hs with hs | hs
        · have := hs sh hsh; simp [hk] at this
        · subst hs; simp [evalSrc]

/-- The full statement of the property's last clause.  It is FALSE of the code
as it stands (finding K1), see `details_roundtrip_fails`. -/
def DetailsRoundtripStatement : Prop :=
  ∀ code sub : Nat, code < 256 → sub < 256 →
    (details ecTable Gen.detailsArms code sub).bind (detailsRaw ecTable Gen.rawArms)
      = some (code, sub)

/-- codes whose `Details` variant has no field for the subcode -/
def dropsSub (code : Nat) : Bool :=
  match detailsShape ecTable Gen.detailsArms code with
  | some sh => !sh.keepsSub
  | none => true

theorem generated_shapes_ok : ∀ code : Fin 256, shapeCond ecTable Gen.detailsArms Gen.rawArms code.val = true := by
  decide +kernel

/-- proved part: details re-encode to the code/subcode they were decoded from
whenever the code's variant keeps the subcode, or the subcode is 0. -/
theorem details_roundtrip_partial (code sub : Nat) (hc : code < 256)
    (h : dropsSub code = false ∨ sub = 0) :
    (details ecTable Gen.detailsArms code sub).bind (detailsRaw ecTable Gen.rawArms)
      = some (code, sub) := by
  apply shape_lift _ _ _ _ _ (generated_shapes_ok ⟨code, hc⟩)
  rcases h with h | h
  · left; intro sh hsh; simp [dropsSub, hsh] at h; exact h
  · right; exact h

/-- exactly which codes drop the subcode in the current source: 0 (Reserved) and 4 (Hold Timer Expired) -/
theorem dropsSub_iff : ∀ code : Fin 256, dropsSub code.val = true ↔ (code.val = 0 ∨ code.val = 4) := by
  decide +kernel

/-- K1 witness: NOTIFICATION (4,7) re-encodes as (4,0); the full statement is false of the model. -/
theorem details_roundtrip_fails : ¬ DetailsRoundtripStatement := by
  intro h
  have := h 4 7 (by decide) (by decide)
  revert this
  decide +kernel

/-! ## non-vacuity -/

example : fromInt (Gen.typeenums.getD 1 ⟨"", 0, [], [], [], []⟩) 2 = .named 1 := by decide +kernel
example : fromInt (Gen.typeenums.getD 10 ⟨"", 0, [], [], [], []⟩) 77 = .range 0 77 := by decide +kernel
example : dropsSub 6 = false ∧ dropsSub 4 = true := by decide +kernel

end Rc.Thm.C18
