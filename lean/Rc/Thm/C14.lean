/-
C14 – Equality, ordering and hashing of NLRI agree with one another.

Property theorems only; lemmas in `Rc/Lemmas/NlriOrd.lean`, model in
`Rc/Model/NlriOrd.lean`.  `famImpl f` is `==`/`cmp`/`Hash` of the plain NLRI
type of family `f`, `famImplAp f` of its ADD-PATH type (26 variants),
`anyEq`/`anyCmp`/`anyHashKey` those of the `Nlri` enum.

The hypothesis `wf` is a *representation* invariant only: it says which model
values stand for a value of the Rust type (a `Pfx` is a valid `inetnum::Prefix`:
4/16 address octets, length within the family, host bits zero; an EVPN route
type is a value of `EvpnRouteType`, the non-normalised `Unimplemented(1..=5)`
included).  It excludes no value of the Rust types that the harness can build:
label stacks of any length, an `afi` that is not the family's inside
`IpvNFlowSpecNlri` (serde), route targets of any length are all covered, and the
harness runs them (`vcmp` / `vtri`).  Not represented: `Afi::Unimplemented(1|2|25)`,
which only the `arbitrary` feature constructs.

What is NOT a theorem here: "values decoded from different buffer types holding
the same bytes are ==".  The model has no buffer types (every `Octs` is a byte
list); that clause is decided by the harness alone (reply field `xbuf`).
-/
import Rc.Lemmas.NlriOrd

namespace Rc.Thm.C14
open Rc Rc.Nlri Rc.NlriOrd

/-! ### the 13 plain NLRI types -/

/-- two values compare `Equal` exactly when they are `==` -/
theorem cmp_eq_iff (f : Fam) (a b : f.Val) (ha : (famImpl f).wf a = true) (hb : (famImpl f).wf b = true) :
    (famImpl f).cmp a b = .eq ↔ (famImpl f).eq a b = true := (famLaws f).cmp_eq_iff a b ha hb

/-- `b.cmp(a)` is the reverse of `a.cmp(b)` -/
theorem cmp_swap (f : Fam) (a b : f.Val) (ha : (famImpl f).wf a = true) (hb : (famImpl f).wf b = true) :
    (famImpl f).cmp b a = ((famImpl f).cmp a b).swap := (famLaws f).swap a b ha hb

/-- antisymmetric: `a ≤ b` and `b ≤ a` only for `Equal` values -/
theorem cmp_antisymm (f : Fam) (a b : f.Val) (ha : (famImpl f).wf a = true) (hb : (famImpl f).wf b = true)
    (h1 : (famImpl f).cmp a b ≠ .gt) (h2 : (famImpl f).cmp b a ≠ .gt) : (famImpl f).cmp a b = .eq :=
  (famLaws f).antisymm a b ha hb h1 h2

/-- transitive -/
theorem cmp_trans (f : Fam) (a b c : f.Val) (ha : (famImpl f).wf a = true) (hb : (famImpl f).wf b = true)
    (hc : (famImpl f).wf c = true) (h1 : (famImpl f).cmp a b ≠ .gt) (h2 : (famImpl f).cmp b c ≠ .gt) :
    (famImpl f).cmp a c ≠ .gt := (famLaws f).trans_le a b c ha hb hc h1 h2

/-- connex: any two values are comparable -/
theorem cmp_connex (f : Fam) (a b : f.Val) (ha : (famImpl f).wf a = true) (hb : (famImpl f).wf b = true) :
    (famImpl f).cmp a b ≠ .gt ∨ (famImpl f).cmp b a ≠ .gt := (famLaws f).connex a b ha hb

/-- `==` is identity of the modelled values: no two different values of an NLRI type
are `==` (the buffer type apart, see the header). -/
theorem eq_iff_identical (f : Fam) (a b : f.Val) (ha : (famImpl f).wf a = true) (hb : (famImpl f).wf b = true) :
    (famImpl f).eq a b = true ↔ a = b := (famLaws f).beq_iff a b ha hb

/-- `==` values feed the same data to the hasher.  NOTE: because `==` is identity
(`eq_iff_identical`) this holds of any function of the value, so the statement carries
no information about `hashKey` itself; the content of the clause "== values hash
identically" is `eq_iff_identical` plus the fact, established by the correspondence run
and not by proof, that the real `Hash` impls feed the hasher a function of the fields
`==` reads (`hashKey`), whatever the buffer type. -/
theorem eq_hash (f : Fam) (a b : f.Val) (ha : (famImpl f).wf a = true) (hb : (famImpl f).wf b = true)
    (h : (famImpl f).eq a b = true) : (famImpl f).hashKey a = (famImpl f).hashKey b := by
  rw [((famLaws f).beq_iff a b ha hb).mp h]

/-! ### the 13 ADD-PATH types -/

/-- Two ADD-PATH NLRI are `==` exactly when the path ids are equal and the NLRI are `==`
(the clause F4 violated: the hand-written impls compared the path id only). -/
theorem addpath_eq_iff (f : Fam) (p q : Nat) (v w : f.Val) :
    (famImplAp f).eq (p, v) (q, w) = true ↔ p = q ∧ (famImpl f).eq v w = true := by
  unfold famImplAp
  split <;> simp [OrdImpl.addpathDerived, OrdImpl.addpathGeneric]

theorem addpath_cmp_eq_iff (f : Fam) (a b : Nat × f.Val) (ha : (famImplAp f).wf a = true)
    (hb : (famImplAp f).wf b = true) :
    (famImplAp f).cmp a b = .eq ↔ (famImplAp f).eq a b = true := (famApLaws f).cmp_eq_iff a b ha hb

theorem addpath_cmp_swap (f : Fam) (a b : Nat × f.Val) (ha : (famImplAp f).wf a = true)
    (hb : (famImplAp f).wf b = true) :
    (famImplAp f).cmp b a = ((famImplAp f).cmp a b).swap := (famApLaws f).swap a b ha hb

theorem addpath_cmp_antisymm (f : Fam) (a b : Nat × f.Val) (ha : (famImplAp f).wf a = true)
    (hb : (famImplAp f).wf b = true) (h1 : (famImplAp f).cmp a b ≠ .gt) (h2 : (famImplAp f).cmp b a ≠ .gt) :
    (famImplAp f).cmp a b = .eq := (famApLaws f).antisymm a b ha hb h1 h2

theorem addpath_cmp_trans (f : Fam) (a b c : Nat × f.Val) (ha : (famImplAp f).wf a = true)
    (hb : (famImplAp f).wf b = true) (hc : (famImplAp f).wf c = true)
    (h1 : (famImplAp f).cmp a b ≠ .gt) (h2 : (famImplAp f).cmp b c ≠ .gt) :
    (famImplAp f).cmp a c ≠ .gt := (famApLaws f).trans_le a b c ha hb hc h1 h2

theorem addpath_cmp_connex (f : Fam) (a b : Nat × f.Val) (ha : (famImplAp f).wf a = true)
    (hb : (famImplAp f).wf b = true) :
    (famImplAp f).cmp a b ≠ .gt ∨ (famImplAp f).cmp b a ≠ .gt := (famApLaws f).connex a b ha hb

/-- see the note at `eq_hash`: a consequence of `==` being identity -/
theorem addpath_eq_hash (f : Fam) (a b : Nat × f.Val) (ha : (famImplAp f).wf a = true)
    (hb : (famImplAp f).wf b = true) (h : (famImplAp f).eq a b = true) :
    (famImplAp f).hashKey a = (famImplAp f).hashKey b := by
  rw [((famApLaws f).beq_iff a b ha hb).mp h]

/-! ### the `Nlri` enum: all 26 variants together, pairs of different variants included -/

theorem enum_cmp_eq_iff (a b : AnyNlri) (ha : anyWf a = true) (hb : anyWf b = true) :
    anyCmp a b = .eq ↔ anyEq a b = true := anyLaws.cmp_eq_iff a b ha hb

theorem enum_cmp_swap (a b : AnyNlri) (ha : anyWf a = true) (hb : anyWf b = true) :
    anyCmp b a = (anyCmp a b).swap := anyLaws.swap a b ha hb

theorem enum_cmp_antisymm (a b : AnyNlri) (ha : anyWf a = true) (hb : anyWf b = true)
    (h1 : anyCmp a b ≠ .gt) (h2 : anyCmp b a ≠ .gt) : anyCmp a b = .eq :=
  anyLaws.antisymm a b ha hb h1 h2

theorem enum_cmp_trans (a b c : AnyNlri) (ha : anyWf a = true) (hb : anyWf b = true) (hc : anyWf c = true)
    (h1 : anyCmp a b ≠ .gt) (h2 : anyCmp b c ≠ .gt) : anyCmp a c ≠ .gt :=
  anyLaws.trans_le a b c ha hb hc h1 h2

theorem enum_cmp_connex (a b : AnyNlri) (ha : anyWf a = true) (hb : anyWf b = true) :
    anyCmp a b ≠ .gt ∨ anyCmp b a ≠ .gt := anyLaws.connex a b ha hb

/-- see the note at `eq_hash`: a consequence of `==` being identity -/
theorem enum_eq_hash (a b : AnyNlri) (ha : anyWf a = true) (hb : anyWf b = true)
    (h : anyEq a b = true) : anyHashKey a = anyHashKey b := by
  rw [(anyLaws.beq_iff a b ha hb).mp h]

/-- values of different variants are never `==` and are ordered as their `NlriType`s are -/
theorem enum_cross_variant (a b : AnyNlri) (h : a.typeIdx ≠ b.typeIdx) :
    anyEq a b = false ∧ anyCmp a b = compare a.typeIdx b.typeIdx :=
  ⟨anyEq_of_ne a b h, anyCmp_of_ne a b h⟩

/-! ### the invariants are satisfiable by non-trivial values -/

example : (famImpl .v4u).wf ⟨false, 23, [10, 1, 2, 0]⟩ = true := by decide
example : (famImplAp .v6mpls).wf (7, ⟨⟨true, 8, [0x20, 0, 0, 0, 0, 0, 0, 0, 0, 0, 0, 0, 0, 0, 0, 0]⟩, [0, 0, 17]⟩) = true := by decide
example : (famImpl .v4fs).wf ⟨1, [3, 0x81, 6]⟩ = true := by decide
/-- the point the former `afi` hypothesis excluded (repair F31): an `Ipv4FlowSpecNlri`
holding `afi = Ipv6` is `!=` the one holding `afi = Ipv4` and now also orders after it -/
example : (famImpl .v4fs).wf ⟨2, [3, 0x81, 6]⟩ = true ∧
    (famImpl .v4fs).eq ⟨1, [3, 0x81, 6]⟩ ⟨2, [3, 0x81, 6]⟩ = false ∧
    (famImpl .v4fs).cmp ⟨1, [3, 0x81, 6]⟩ ⟨2, [3, 0x81, 6]⟩ = .lt := by decide
/-- label octets that are not a whole number of labels, and the non-normalised route type
`Unimplemented(2)` (258) next to `MacIpAdvertisement` (2): inside the theorems -/
example : (famImpl .v4mpls).wf ⟨⟨false, 8, [10, 0, 0, 0]⟩, [1, 2]⟩ = true := by decide
example : (famImpl .evpn).wf ⟨258, [1]⟩ = true ∧ (famImpl .evpn).eq ⟨258, [1]⟩ ⟨2, [1]⟩ = false ∧
    (famImpl .evpn).cmp ⟨2, [1]⟩ ⟨258, [1]⟩ = .lt := by decide
example : anyWf ⟨.evpn, some 3, ⟨2, [1, 2, 3]⟩⟩ = true := by decide

end Rc.Thm.C14
