/-
C14 – Equality, ordering and hashing of NLRI agree with one another.

Property theorems only; lemmas in `Rc/Lemmas/NlriOrd.lean`, model in
`Rc/Model/NlriOrd.lean`.  `famImpl f` is `==`/`cmp`/`Hash` of the plain NLRI
type of family `f`, `famImplAp f` of its ADD-PATH type (26 variants),
`anyEq`/`anyCmp`/`anyHashKey` those of the `Nlri` enum.  The hypothesis `wf`
is the invariant of the values that exist (a `Prefix` is a valid prefix, the
`afi` inside `IpvNFlowSpecNlri` is the family's, an EVPN route type is a u8).
-/
import Rc.Lemmas.NlriOrd

namespace Rc.Thm.C14
open Rc Rc.Nlri Rc.NlriOrd

/-! ### the 13 plain NLRI types -/

/-- two values compare `Equal` exactly when they are `==` -/
theorem cmp_eq_iff (f : Fam) (a b : f.Val) (ha : (famImpl f).wf a = true) (hb : (famImpl f).wf b = true) :
    (famImpl f).cmp a b = .eq ↔ (famImpl f).eq a b = true := (famLaws f).cmp_eq_iff a b ha hb

/-- `b.cmp(a)` is the reverse of `a.cmp(b)` -/
theorem cmp_swap (f : Fam) (a b : f.Val) (ha : (famImpl f).wf a = true) (hb : (famImpl f).wf b = true) :
    (famImpl f).cmp b a = ((famImpl f).cmp a b).swap := (famLaws f).swap a b ha hb

/-- antisymmetric: `a ≤ b` and `b ≤ a` only for `Equal` values -/
theorem cmp_antisymm (f : Fam) (a b : f.Val) (ha : (famImpl f).wf a = true) (hb : (famImpl f).wf b = true)
    (h1 : (famImpl f).cmp a b ≠ .gt) (h2 : (famImpl f).cmp b a ≠ .gt) : (famImpl f).cmp a b = .eq :=
  (famLaws f).antisymm a b ha hb h1 h2

/-- transitive -/
theorem cmp_trans (f : Fam) (a b c : f.Val) (ha : (famImpl f).wf a = true) (hb : (famImpl f).wf b = true)
    (hc : (famImpl f).wf c = true) (h1 : (famImpl f).cmp a b ≠ .gt) (h2 : (famImpl f).cmp b c ≠ .gt) :
    (famImpl f).cmp a c ≠ .gt := (famLaws f).trans_le a b c ha hb hc h1 h2

/-- connex: any two values are comparable -/
theorem cmp_connex (f : Fam) (a b : f.Val) (ha : (famImpl f).wf a = true) (hb : (famImpl f).wf b = true) :
    (famImpl f).cmp a b ≠ .gt ∨ (famImpl f).cmp b a ≠ .gt := (famLaws f).connex a b ha hb

/-- `==` values feed the same data to the hasher -/
theorem eq_hash (f : Fam) (a b : f.Val) (ha : (famImpl f).wf a = true) (hb : (famImpl f).wf b = true)
    (h : (famImpl f).eq a b = true) : (famImpl f).hashKey a = (famImpl f).hashKey b := by
  rw [((famLaws f).beq_iff a b ha hb).mp h]

/-! ### the 13 ADD-PATH types -/

/-- Two ADD-PATH NLRI are `==` exactly when the path ids are equal and the NLRI are `==`
(the clause F4 violated: the hand-written impls compared the path id only). -/
theorem addpath_eq_iff (f : Fam) (p q : Nat) (v w : f.Val) :
    (famImplAp f).eq (p, v) (q, w) = true ↔ p = q ∧ (famImpl f).eq v w = true := by
  unfold famImplAp
  split <;> simp [OrdImpl.addpathDerived, OrdImpl.addpathGeneric]

theorem addpath_cmp_eq_iff (f : Fam) (a b : Nat × f.Val) (ha : (famImplAp f).wf a = true)
    (hb : (famImplAp f).wf b = true) :
    (famImplAp f).cmp a b = .eq ↔ (famImplAp f).eq a b = true := (famApLaws f).cmp_eq_iff a b ha hb

theorem addpath_cmp_swap (f : Fam) (a b : Nat × f.Val) (ha : (famImplAp f).wf a = true)
    (hb : (famImplAp f).wf b = true) :
    (famImplAp f).cmp b a = ((famImplAp f).cmp a b).swap := (famApLaws f).swap a b ha hb

theorem addpath_cmp_antisymm (f : Fam) (a b : Nat × f.Val) (ha : (famImplAp f).wf a = true)
    (hb : (famImplAp f).wf b = true) (h1 : (famImplAp f).cmp a b ≠ .gt) (h2 : (famImplAp f).cmp b a ≠ .gt) :
    (famImplAp f).cmp a b = .eq := (famApLaws f).antisymm a b ha hb h1 h2

theorem addpath_cmp_trans (f : Fam) (a b c : Nat × f.Val) (ha : (famImplAp f).wf a = true)
    (hb : (famImplAp f).wf b = true) (hc : (famImplAp f).wf c = true)
    (h1 : (famImplAp f).cmp a b ≠ .gt) (h2 : (famImplAp f).cmp b c ≠ .gt) :
    (famImplAp f).cmp a c ≠ .gt := (famApLaws f).trans_le a b c ha hb hc h1 h2

theorem addpath_cmp_connex (f : Fam) (a b : Nat × f.Val) (ha : (famImplAp f).wf a = true)
    (hb : (famImplAp f).wf b = true) :
    (famImplAp f).cmp a b ≠ .gt ∨ (famImplAp f).cmp b a ≠ .gt := (famApLaws f).connex a b ha hb

theorem addpath_eq_hash (f : Fam) (a b : Nat × f.Val) (ha : (famImplAp f).wf a = true)
    (hb : (famImplAp f).wf b = true) (h : (famImplAp f).eq a b = true) :
    (famImplAp f).hashKey a = (famImplAp f).hashKey b := by
  rw [((famApLaws f).beq_iff a b ha hb).mp h]

/-! ### the `Nlri` enum: all 26 variants together, pairs of different variants included -/

theorem enum_cmp_eq_iff (a b : AnyNlri) (ha : anyWf a = true) (hb : anyWf b = true) :
    anyCmp a b = .eq ↔ anyEq a b = true := anyLaws.cmp_eq_iff a b ha hb

theorem enum_cmp_swap (a b : AnyNlri) (ha : anyWf a = true) (hb : anyWf b = true) :
    anyCmp b a = (anyCmp a b).swap := anyLaws.swap a b ha hb

theorem enum_cmp_antisymm (a b : AnyNlri) (ha : anyWf a = true) (hb : anyWf b = true)
    (h1 : anyCmp a b ≠ .gt) (h2 : anyCmp b a ≠ .gt) : anyCmp a b = .eq :=
  anyLaws.antisymm a b ha hb h1 h2

theorem enum_cmp_trans (a b c : AnyNlri) (ha : anyWf a = true) (hb : anyWf b = true) (hc : anyWf c = true)
    (h1 : anyCmp a b ≠ .gt) (h2 : anyCmp b c ≠ .gt) : anyCmp a c ≠ .gt :=
  anyLaws.trans_le a b c ha hb hc h1 h2

theorem enum_cmp_connex (a b : AnyNlri) (ha : anyWf a = true) (hb : anyWf b = true) :
    anyCmp a b ≠ .gt ∨ anyCmp b a ≠ .gt := anyLaws.connex a b ha hb

theorem enum_eq_hash (a b : AnyNlri) (ha : anyWf a = true) (hb : anyWf b = true)
    (h : anyEq a b = true) : anyHashKey a = anyHashKey b := by
  rw [(anyLaws.beq_iff a b ha hb).mp h]

/-- values of different variants are never `==` and are ordered as their `NlriType`s are -/
theorem enum_cross_variant (a b : AnyNlri) (h : a.typeIdx ≠ b.typeIdx) :
    anyEq a b = false ∧ anyCmp a b = compare a.typeIdx b.typeIdx :=
  ⟨anyEq_of_ne a b h, anyCmp_of_ne a b h⟩

/-! ### the invariants are satisfiable by non-trivial values -/

example : (famImpl .v4u).wf ⟨false, 23, [10, 1, 2, 0]⟩ = true := by decide
example : (famImplAp .v6mpls).wf (7, ⟨⟨true, 8, [0x20, 0, 0, 0, 0, 0, 0, 0, 0, 0, 0, 0, 0, 0, 0, 0]⟩, [0, 0, 17]⟩) = true := by decide
example : (famImpl .v4fs).wf ⟨1, [3, 0x81, 6]⟩ = true := by decide
example : anyWf ⟨.evpn, some 3, ⟨2, [1, 2, 3]⟩⟩ = true := by decide

end Rc.Thm.C14
