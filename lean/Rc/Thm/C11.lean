/-
C11 – best/backup selection returns the minimum and a true runner-up.

Property theorems only (helpers are private).  Models: Rc/Model/Select.lean
(generic in item type and comparison), Rc/Model/PathSel.lean (the route order).
Everything is proved for EVERY list, by induction, for ANY comparison that is a
strict weak order respecting content; the instance for `OrdRoute<SkipMed>` comes
from Thm/C10 `skipMed_weak_order` (`skipMed_statement`: the statement with no
hypothesis).

The property text does not restrict the strategy.  For `OrdRoute<Rfc4271>` the
statement is FALSE (`rfc4271_statement_fails`, known finding K11: the MED step
is not transitive, a preference cycle has no minimum).  Proved for it instead:
`rfc4271_unconditional` (the clauses that need no transitivity, on every
collection) and `rfc4271_best_backup_partial` (the whole statement on every
collection whose candidates are weakly ordered).  Order independence of the
backup and `generic_two_smallest` are NOT proved for Rfc4271.
-/
import Rc.Model.Select
import Rc.Model.PathSel
import Rc.Lemmas.Order
import Rc.Thm.C10

namespace Rc.Thm.C11
open Rc Rc.Select Rc.Order

variable {α κ : Type} [DecidableEq κ]

/-- The statement of the property for one presentation order `l`: `b` is a
candidate no candidate is preferred over; the backup is absent exactly when
every candidate has the content of `b`; otherwise it is a candidate whose
content differs from `b`'s and over which no candidate differing from `b` is
preferred. -/
def Spec (cmp : α → α → Ordering) (content : α → κ) (l : List α) (b : α) (k : Option α) : Prop :=
  b ∈ l ∧ (∀ c ∈ l, cmp c b ≠ .lt) ∧
    match k with
    | none => ∀ c ∈ l, content c = content b
    | some k => k ∈ l ∧ content k ≠ content b ∧ ∀ c ∈ l, content c ≠ content b → cmp c k ≠ .lt

/-- `cmp` depends on content only (for `OrdRoute`: `cmp` reads nothing but
`inner()`). -/
def RespectsContent (cmp : α → α → Ordering) (content : α → κ) : Prop :=
  ∀ a b, content a = content b → cmp a b = .eq

private def Inv (cmp : α → α → Ordering) (content : α → κ) (l : List α) (st : St α) : Prop :=
  match st.best with
  | none => l = [] ∧ st.backup = none
  | some b => Spec cmp content l b st.backup

private theorem step_inv {cmp : α → α → Ordering} {content : α → κ} (hw : WeakOrd cmp)
    (hc : RespectsContent cmp content) {l : List α} {st : St α} (c : α)
    (h : Inv cmp content l st) : Inv cmp content (l ++ [c]) (step cmp content st c) := by
  obtain ⟨best, backup⟩ := st
  cases best with
  | none =>
    obtain ⟨hl, hb⟩ := h
    simp only at hl hb
    subst hl hb
    simp only [step, Inv, Spec, List.nil_append, List.mem_singleton]
    exact ⟨trivial, fun x hx => by subst hx; simp [hw.refl], fun x hx => by subst hx; rfl⟩
  | some b =>
    obtain ⟨hbl, hmin, hk⟩ := h
    simp only [step]
    by_cases hcb : cmp c b = .lt
    · -- c is preferred over the current best
      simp only [hcb, if_true, Inv, Spec, List.mem_append, List.mem_singleton]
      refine ⟨.inr trivial, ?_, .inl hbl, ?_, ?_⟩
      · rintro x (hx | rfl)
        · intro hxc; exact hmin x hx (hw.lt_trans x c b hxc hcb)
        · simp [hw.refl]
      · intro e
        have := hc b c e
        rw [hw.eq_symm this] at hcb; cases hcb
      · rintro x (hx | rfl) hne
        · exact hmin x hx
        · exact absurd rfl hne
    · simp only [hcb, if_false]
      cases backup with
      | none =>
        simp only at hk
        by_cases hcc : content b = content c
        · simp only [hcc, ne_eq, not_true_eq_false, if_false, Inv, Spec, List.mem_append, List.mem_singleton]
          refine ⟨.inl hbl, ?_, ?_⟩
          · rintro x (hx | rfl)
            · exact hmin x hx
            · exact hcb
          · rintro x (hx | rfl)
            · rw [hk x hx, hcc]
            · rfl
        · simp only [ne_eq, hcc, not_false_eq_true, if_true, Inv, Spec, List.mem_append, List.mem_singleton]
          refine ⟨.inl hbl, ?_, .inr trivial, fun e => hcc e.symm, ?_⟩
          · rintro x (hx | rfl)
            · exact hmin x hx
            · exact hcb
          · rintro x (hx | rfl) hne
            · exact absurd (hk x hx) hne
            · simp [hw.refl]
      | some k =>
        obtain ⟨hkl, hkb, hkmin⟩ := hk
        have hbest : b ∈ l ++ [c] ∧ ∀ x ∈ l ++ [c], cmp x b ≠ .lt := by
          refine ⟨List.mem_append.2 (.inl hbl), ?_⟩
          intro x hx
          rcases List.mem_append.1 hx with hx | hx
          · exact hmin x hx
          · rw [List.mem_singleton] at hx; subst hx; exact hcb
        by_cases hck : cmp c k = .lt
        · by_cases hcc : content b = content c
          · dsimp only
            rw [if_pos hck, if_neg (fun hne => hne hcc)]
            simp only [Inv, Spec]
            refine ⟨hbest.1, hbest.2, List.mem_append.2 (.inl hkl), hkb, ?_⟩
            intro x hx hne
            rcases List.mem_append.1 hx with hx | hx
            · exact hkmin x hx hne
            · rw [List.mem_singleton] at hx; subst hx; exact absurd hcc.symm hne
          · dsimp only
            rw [if_pos hck, if_pos hcc]
            simp only [Inv, Spec]
            refine ⟨hbest.1, hbest.2, List.mem_append.2 (.inr (List.mem_singleton.2 rfl)), fun e => hcc e.symm, ?_⟩
            intro x hx hne
            rcases List.mem_append.1 hx with hx | hx
            · intro hxc; exact hkmin x hx hne (hw.lt_trans x c k hxc hck)
            · rw [List.mem_singleton] at hx; subst hx; simp [hw.refl]
        · dsimp only
          rw [if_neg hck]
          simp only [Inv, Spec]
          refine ⟨hbest.1, hbest.2, List.mem_append.2 (.inl hkl), hkb, ?_⟩
          intro x hx hne
          rcases List.mem_append.1 hx with hx | hx
          · exact hkmin x hx hne
          · rw [List.mem_singleton] at hx; subst hx; exact hck

private theorem foldl_inv {cmp : α → α → Ordering} {content : α → κ} (hw : WeakOrd cmp)
    (hc : RespectsContent cmp content) (l : List α) :
    ∀ (pre : List α) (st : St α), Inv cmp content pre st →
      Inv cmp content (pre ++ l) (l.foldl (step cmp content) st) := by
  induction l with
  | nil => intro pre st h; simpa using h
  | cons c t ih =>
    intro pre st h
    have := ih (pre ++ [c]) _ (step_inv hw hc c h)
    simpa [List.append_assoc] using this

private theorem run_inv {cmp : α → α → Ordering} {content : α → κ} (hw : WeakOrd cmp)
    (hc : RespectsContent cmp content) (l : List α) : Inv cmp content l (run cmp content l) := by
  have := foldl_inv hw hc l [] ⟨none, none⟩ ⟨rfl, rfl⟩
  simpa [run] using this

/-! ## the selection theorems (any strict weak order, any list) -/

/-- the hypotheses are satisfiable: items = (preference, tag), compared on the preference only -/
example : WeakOrd (fun (a b : Nat × Nat) => compare a.1 b.1) ∧
    RespectsContent (fun (a b : Nat × Nat) => compare a.1 b.1) (fun a => a) :=
  ⟨WeakOrd.ofNat fun (a : Nat × Nat) => a.1, fun a b e => by subst e; simp⟩

/-- ... and the F15 input: A = (1,0) best, B = (2,0) worse, C = (1,1) tied with A, different content -/
example : (run (fun (a b : Nat × Nat) => compare a.1 b.1) (fun a => a) [(1, 0), (2, 0), (1, 1)]).backup = some (1, 1) ∧
    (run (fun (a b : Nat × Nat) => compare a.1 b.1) (fun a => a) [(1, 0), (1, 1), (2, 0)]).backup = some (1, 1) := by decide

/-- Nothing is selected only from an empty collection. -/
theorem best_none_iff {cmp : α → α → Ordering} {content : α → κ} (hw : WeakOrd cmp)
    (hc : RespectsContent cmp content) (l : List α) : (run cmp content l).best = none ↔ l = [] := by
  have h := run_inv hw hc l
  unfold Inv at h
  constructor
  · intro e; rw [e] at h; exact h.1
  · intro e; subst e; rfl

/-- Clauses "the selected best route is one that no candidate is preferred
over", "the backup is absent exactly when every candidate has the same content
as the best; otherwise it is a candidate whose content differs from the best and
over which no candidate with content differing from the best is preferred" – the
whole `Spec`, for every list. -/
theorem best_backup_spec {cmp : α → α → Ordering} {content : α → κ} (hw : WeakOrd cmp)
    (hc : RespectsContent cmp content) (l : List α) {b : α} (hb : (run cmp content l).best = some b) :
    Spec cmp content l b (run cmp content l).backup := by
  have h := run_inv hw hc l
  unfold Inv at h
  rw [hb] at h; exact h

/-- `best_is_min`, spelled out. -/
theorem best_is_min {cmp : α → α → Ordering} {content : α → κ} (hw : WeakOrd cmp)
    (hc : RespectsContent cmp content) (l : List α) {b : α} (hb : (run cmp content l).best = some b) :
    b ∈ l ∧ ∀ c ∈ l, cmp c b ≠ .lt :=
  let h := best_backup_spec hw hc l hb; ⟨h.1, h.2.1⟩

/-- `backup_none_iff`, spelled out. -/
theorem backup_none_iff {cmp : α → α → Ordering} {content : α → κ} (hw : WeakOrd cmp)
    (hc : RespectsContent cmp content) (l : List α) {b : α} (hb : (run cmp content l).best = some b) :
    (run cmp content l).backup = none ↔ ∀ c ∈ l, content c = content b := by
  have h := best_backup_spec hw hc l hb
  unfold Spec at h
  cases hk : (run cmp content l).backup with
  | none => rw [hk] at h; simpa using h.2.2
  | some k =>
    rw [hk] at h
    simp only [reduceCtorEq, false_iff]
    intro hall; exact h.2.2.2.1 (hall k h.2.2.1)

/-- `backup_spec`, spelled out: a true runner-up. -/
theorem backup_spec {cmp : α → α → Ordering} {content : α → κ} (hw : WeakOrd cmp)
    (hc : RespectsContent cmp content) (l : List α) {b k : α} (hb : (run cmp content l).best = some b)
    (hk : (run cmp content l).backup = some k) :
    k ∈ l ∧ content k ≠ content b ∧ ∀ c ∈ l, content c ≠ content b → cmp c k ≠ .lt := by
  have h := best_backup_spec hw hc l hb
  unfold Spec at h
  rw [hk] at h; exact h.2.2

private theorem antisym_gt_iff {cmp : α → α → Ordering} (h : Antisym cmp) {a b : α} :
    cmp a b = .gt ↔ cmp b a = .lt := by
  rw [h a b]; cases cmp a b <;> simp [Ordering.swap]

private theorem step_best (cmp : α → α → Ordering) (content : α → κ) (hw : Antisym cmp) (st : St α) (c : α) :
    (step cmp content st c).best = some (match st.best with | none => c | some b => minBy cmp b c) := by
  obtain ⟨best, backup⟩ := st
  cases best with
  | none => rfl
  | some b =>
    simp only [step, minBy]
    by_cases hcb : cmp c b = .lt
    · have : cmp b c = .gt := (antisym_gt_iff hw).2 hcb
      simp [hcb, this]
    · have : cmp b c ≠ .gt := fun e => hcb ((antisym_gt_iff hw).1 e)
      simp only [hcb, if_false]
      cases backup with
      | none => cases hbc : cmp b c <;> simp_all <;> split <;> rfl
      | some k => cases hbc : cmp b c <;> simp_all <;> (repeat' split) <;> rfl

private theorem foldl_best (cmp : α → α → Ordering) (content : α → κ) (hw : Antisym cmp) (l : List α) :
    ∀ (st : St α) (b : α), st.best = some b →
      (l.foldl (step cmp content) st).best = some (l.foldl (minBy cmp) b) := by
  induction l with
  | nil => intro st b h; simpa using h
  | cons c t ih =>
    intro st b h
    simp only [List.foldl_cons]
    apply ih
    rw [step_best cmp content hw, h]

/-- Clause "... and it is the route the single-best helper returns":
`best_backup`'s best is `best()`'s result (the FIRST minimum), for every list and
every ANTISYMMETRIC comparison: no transitivity is needed, so this clause holds
for `OrdRoute<Rfc4271>` too (`rfc4271_unconditional`). -/
theorem best_eq_single_best {cmp : α → α → Ordering} {content : α → κ} (hw : Antisym cmp) (l : List α) :
    (run cmp content l).best = best cmp l := by
  cases l with
  | nil => rfl
  | cons x xs =>
    simp only [run, List.foldl_cons, best]
    exact foldl_best cmp content hw xs _ x rfl

/-- Clause "... so its preference class does not depend on the order in which
candidates are presented": any two results satisfying the statement on two
permutations of the same candidates agree on whether there is a backup, and
their backups are equally preferred. -/
theorem spec_class_perm_invariant {cmp : α → α → Ordering} {content : α → κ} (hw : WeakOrd cmp)
    (hc : RespectsContent cmp content) {l l' : List α} (hp : l.Perm l') {b b' : α} {k k' : Option α}
    (h : Spec cmp content l b k) (h' : Spec cmp content l' b' k') :
    (k = none ↔ k' = none) ∧ ∀ x y, k = some x → k' = some y → cmp x y = .eq := by
  have mem : ∀ x, x ∈ l ↔ x ∈ l' := fun x => hp.mem_iff
  -- the two bests are equally preferred
  have hbb : cmp b b' = .eq := by
    have h1 := h'.2.1 b ((mem b).1 h.1)
    have h2 := h.2.1 b' ((mem b').2 h'.1)
    cases e : cmp b b' with
    | lt => exact absurd e h1
    | eq => rfl
    | gt => exact absurd (hw.gt_iff.1 e) h2
  -- one direction of the class statement, to be used twice
  have key : ∀ {l l' : List α} {b b' x y : α}, (∀ z, z ∈ l ↔ z ∈ l') → cmp b b' = .eq →
      Spec cmp content l b (some x) → Spec cmp content l' b' (some y) → cmp x y ≠ .lt := by
    intro l l' b b' x y mem hbb h h' hxy
    obtain ⟨hbl, _, hxl, hxb, _⟩ := h
    obtain ⟨_, _, _, _, hymin⟩ := h'
    by_cases e : content x = content b'
    · -- x has the content of b': x ~ b' ~ b, and b differs from b' in content
      have hxb' : cmp x b' = .eq := hc x b' e
      have hne : content b ≠ content b' := fun e' => hxb (e.trans e'.symm)
      have hby := hymin b ((mem b).1 hbl) hne
      have hbx : cmp b x = .eq := hw.eq_trans b b' x hbb (hw.eq_symm hxb')
      exact hby (hw.eq_lt hbx hxy)
    · exact hymin x ((mem x).1 hxl) e hxy
  refine ⟨?_, ?_⟩
  · cases k with
    | none =>
      cases k' with
      | none => simp
      | some y =>
        exfalso
        obtain ⟨_, _, hall⟩ := h
        obtain ⟨hb'l, _, hyl, hyb, _⟩ := h'
        exact hyb ((hall y ((mem y).2 hyl)).trans (hall b' ((mem b').2 hb'l)).symm)
    | some x =>
      cases k' with
      | some y => simp
      | none =>
        exfalso
        obtain ⟨hbl, _, hxl, hxb, _⟩ := h
        obtain ⟨_, _, hall⟩ := h'
        exact hxb ((hall x ((mem x).1 hxl)).trans (hall b ((mem b).1 hbl)).symm)
  · intro x y hx hy
    subst hx hy
    have h1 := key mem hbb h h'
    have h2 := key (fun z => (mem z).symm) (hw.eq_symm hbb) h' h
    cases e : cmp x y with
    | lt => exact absurd e h1
    | eq => rfl
    | gt => exact absurd (hw.gt_iff.1 e) h2

/-- ... instantiated with what `_best_backup` computes: presenting the same
candidates in another order changes neither the presence of a backup nor its
preference class. -/
theorem backup_class_perm_invariant {cmp : α → α → Ordering} {content : α → κ} (hw : WeakOrd cmp)
    (hc : RespectsContent cmp content) {l l' : List α} (hp : l.Perm l') :
    ((run cmp content l).backup = none ↔ (run cmp content l').backup = none) ∧
    ∀ x y, (run cmp content l).backup = some x → (run cmp content l').backup = some y → cmp x y = .eq := by
  cases hb : (run cmp content l).best with
  | none =>
    have hl : l = [] := (best_none_iff hw hc l).1 hb
    subst hl
    have hl' : l' = [] := hp.symm.eq_nil
    subst hl'
    simp [run]
  | some b =>
    cases hb' : (run cmp content l').best with
    | none =>
      have hl' : l' = [] := (best_none_iff hw hc l').1 hb'
      subst hl'
      have hl : l = [] := hp.eq_nil
      subst hl
      simp [run] at hb
    | some b' =>
      exact spec_class_perm_invariant hw hc hp (best_backup_spec hw hc l hb) (best_backup_spec hw hc l' hb')

/-! ## the clauses that need no transitivity (any comparison respecting content) -/

/-- The part of the statement that speaks about content only: the best and the
backup are candidates, the backup is absent exactly when every candidate has
the content of the best, otherwise its content differs from the best's. -/
def ContentSpec (content : α → κ) (l : List α) (b : α) (k : Option α) : Prop :=
  b ∈ l ∧
    match k with
    | none => ∀ c ∈ l, content c = content b
    | some k => k ∈ l ∧ content k ≠ content b

private def CInv (content : α → κ) (l : List α) (st : St α) : Prop :=
  match st.best with
  | none => l = [] ∧ st.backup = none
  | some b => ContentSpec content l b st.backup

private theorem step_cinv {cmp : α → α → Ordering} {content : α → κ}
    (hc : RespectsContent cmp content) {l : List α} {st : St α} (c : α)
    (h : CInv content l st) : CInv content (l ++ [c]) (step cmp content st c) := by
  obtain ⟨best, backup⟩ := st
  cases best with
  | none =>
    obtain ⟨hl, hb⟩ := h
    simp only at hl hb
    subst hl hb
    simp only [step, CInv, ContentSpec, List.nil_append, List.mem_singleton]
    exact ⟨trivial, fun x hx => by subst hx; rfl⟩
  | some b =>
    obtain ⟨hbl, hk⟩ := h
    simp only [step]
    by_cases hcb : cmp c b = .lt
    · simp only [hcb, if_true, CInv, ContentSpec, List.mem_append, List.mem_singleton]
      refine ⟨.inr trivial, .inl hbl, ?_⟩
      intro e
      have := hc c b e.symm
      rw [this] at hcb; cases hcb
    · simp only [hcb, if_false]
      have hb' : b ∈ l ++ [c] := List.mem_append.2 (.inl hbl)
      have hc' : c ∈ l ++ [c] := List.mem_append.2 (.inr (List.mem_singleton.2 rfl))
      cases backup with
      | none =>
        simp only at hk
        by_cases hcc : content b = content c
        · dsimp only
          rw [if_neg (fun hne => hne hcc)]
          refine ⟨hb', ?_⟩
          intro x hx
          rcases List.mem_append.1 hx with hx | hx
          · exact hk x hx
          · rw [List.mem_singleton] at hx; subst hx; exact hcc.symm
        · dsimp only
          rw [if_pos hcc]
          exact ⟨hb', hc', fun e => hcc e.symm⟩
      | some k =>
        obtain ⟨hkl, hkb⟩ := hk
        have hk' : k ∈ l ++ [c] := List.mem_append.2 (.inl hkl)
        by_cases hck : cmp c k = .lt
        · by_cases hcc : content b = content c
          · dsimp only
            rw [if_pos hck, if_neg (fun hne => hne hcc)]
            exact ⟨hb', hk', hkb⟩
          · dsimp only
            rw [if_pos hck, if_pos hcc]
            exact ⟨hb', hc', fun e => hcc e.symm⟩
        · dsimp only
          rw [if_neg hck]
          exact ⟨hb', hk', hkb⟩

private theorem foldl_cinv {cmp : α → α → Ordering} {content : α → κ}
    (hc : RespectsContent cmp content) (l : List α) :
    ∀ (pre : List α) (st : St α), CInv content pre st →
      CInv content (pre ++ l) (l.foldl (step cmp content) st) := by
  induction l with
  | nil => intro pre st h; simpa using h
  | cons c t ih =>
    intro pre st h
    have := ih (pre ++ [c]) _ (step_cinv hc c h)
    simpa [List.append_assoc] using this

private theorem run_cinv {cmp : α → α → Ordering} {content : α → κ}
    (hc : RespectsContent cmp content) (l : List α) : CInv content l (run cmp content l) := by
  have := foldl_cinv hc l [] ⟨none, none⟩ ⟨rfl, rfl⟩
  simpa [run] using this

/-- Nothing is selected only from an empty collection – for ANY comparison. -/
theorem best_none_iff_any {cmp : α → α → Ordering} {content : α → κ}
    (hc : RespectsContent cmp content) (l : List α) : (run cmp content l).best = none ↔ l = [] := by
  have h := run_cinv hc l
  unfold CInv at h
  constructor
  · intro e; rw [e] at h; exact h.1
  · intro e; subst e; rfl

/-- Clauses "the backup is absent exactly when every candidate has the same
content as the best; otherwise it is a candidate whose content differs from the
best" hold for EVERY comparison under which equal content is equal preference –
transitive or not (so for `OrdRoute<Rfc4271>` too). -/
theorem content_clauses {cmp : α → α → Ordering} {content : α → κ}
    (hc : RespectsContent cmp content) (l : List α) {b : α} (hb : (run cmp content l).best = some b) :
    ContentSpec content l b (run cmp content l).backup := by
  have h := run_cinv hc l
  unfold CInv at h
  rw [hb] at h; exact h

/-- ... spelled out: no backup iff all contents equal the best's. -/
theorem backup_none_iff_any {cmp : α → α → Ordering} {content : α → κ}
    (hc : RespectsContent cmp content) (l : List α) {b : α} (hb : (run cmp content l).best = some b) :
    (run cmp content l).backup = none ↔ ∀ c ∈ l, content c = content b := by
  have h := content_clauses hc l hb
  unfold ContentSpec at h
  cases hk : (run cmp content l).backup with
  | none => rw [hk] at h; simpa using h.2
  | some k =>
    rw [hk] at h
    simp only [reduceCtorEq, false_iff]
    intro hall; exact h.2.2 (hall k h.2.1)

/-! ## `best_backup` / `best_backup_position` (the enumerated fold) -/

private def stMap {β γ : Type} (f : β → γ) (st : St β) : St γ := ⟨st.best.map f, st.backup.map f⟩

private theorem step_map {β : Type} (f : β → α) (cmp : α → α → Ordering) (content : α → κ) (st : St β) (c : β) :
    stMap f (step (fun x y => cmp (f x) (f y)) (fun x => content (f x)) st c)
      = step cmp content (stMap f st) (f c) := by
  obtain ⟨best, backup⟩ := st
  cases best with
  | none => rfl
  | some b =>
    cases backup with
    | none =>
      simp only [step, stMap, Option.map]
      by_cases h1 : cmp (f c) (f b) = .lt
      · simp [h1]
      · by_cases h2 : content (f b) = content (f c) <;> simp [h1, h2]
    | some k =>
      simp only [step, stMap, Option.map]
      by_cases h1 : cmp (f c) (f b) = .lt
      · simp [h1]
      · by_cases h3 : cmp (f c) (f k) = .lt <;> by_cases h2 : content (f b) = content (f c) <;> simp [h1, h2, h3]

/-- the fold commutes with any map of the items through which the comparison and the content factor -/
private theorem foldl_map {β : Type} (f : β → α) (cmp : α → α → Ordering) (content : α → κ) (m : List β) :
    ∀ st, stMap f (m.foldl (step (fun x y => cmp (f x) (f y)) (fun x => content (f x))) st)
      = (m.map f).foldl (step cmp content) (stMap f st) := by
  induction m with
  | nil => intro st; rfl
  | cons c t ih => intro st; simp only [List.foldl_cons, List.map_cons, ih, step_map]

/-- `best_backup` returns exactly the two slots of the fold over the items, so
every theorem above is a theorem about `best_backup`. -/
theorem bestBackup_eq_run (cmp : α → α → Ordering) (content : α → κ) (l : List α) :
    bestBackup cmp content l = ((run cmp content l).best, (run cmp content l).backup) := by
  have h := foldl_map Prod.fst cmp content l.zipIdx ⟨none, none⟩
  rw [List.zipIdx_map_fst] at h
  simp only [bestBackup, bestBackupIdx, run]
  have h1 := congrArg St.best h
  have h2 := congrArg St.backup h
  simp only [stMap, Option.map_none] at h1 h2
  rw [← h1, ← h2]

/-- "Positions agree with values": the indices `best_backup_position` returns
are the places of the routes `best_backup` returns – for every comparison under
which equal content is equal preference (no transitivity needed). -/
theorem position_agrees {cmp : α → α → Ordering} {content : α → κ}
    (hc : RespectsContent cmp content) (l : List α) :
    (bestBackup cmp content l).1 = (bestBackupPosition cmp content l).1.bind (l[·]?) ∧
    (bestBackup cmp content l).2 = (bestBackupPosition cmp content l).2.bind (l[·]?) := by
  have hc' : RespectsContent (fun (x y : α × Nat) => cmp x.1 y.1) (fun x => content x.1) := fun a b e => hc a.1 b.1 e
  have h := run_cinv hc' l.zipIdx
  unfold CInv at h
  simp only [bestBackup, bestBackupPosition, bestBackupIdx]
  cases hb : (run (fun (x y : α × Nat) => cmp x.1 y.1) (fun x => content x.1) l.zipIdx).best with
  | none =>
    rw [hb] at h
    simp [h.2]
  | some b =>
    rw [hb] at h
    obtain ⟨hbl, hk⟩ := h
    have eb := List.mem_zipIdx_iff_getElem?.1 hbl
    cases hkk : (run (fun (x y : α × Nat) => cmp x.1 y.1) (fun x => content x.1) l.zipIdx).backup with
    | none => simp [eb]
    | some k =>
      rw [hkk] at hk
      have ek := List.mem_zipIdx_iff_getElem?.1 hk.1
      simp [eb, ek]

/-! ## a weak order on the candidates suffices -/

/-- The whole statement for a comparison that is a strict weak order ON THE
CANDIDATES PRESENTED (the hypothesis speaks about members of `l` only): the form
in which the statement is available for a comparison that is not transitive on
all routes, such as `OrdRoute<Rfc4271>`. -/
theorem best_backup_spec_on {cmp : α → α → Ordering} {content : α → κ} (l : List α)
    (hw : WeakOrd (fun (x y : {x // x ∈ l}) => cmp x.1 y.1)) (hc : RespectsContent cmp content)
    {b : α} (hb : (run cmp content l).best = some b) : Spec cmp content l b (run cmp content l).backup := by
  have hc' : RespectsContent (fun (x y : {x // x ∈ l}) => cmp x.1 y.1) (fun x => content x.1) :=
    fun a b e => hc a.1 b.1 e
  have hm := foldl_map (Subtype.val : {x // x ∈ l} → α) cmp content l.attach ⟨none, none⟩
  rw [List.attach_map_subtype_val] at hm
  have h1 := congrArg St.best hm
  have h2 := congrArg St.backup hm
  simp only [stMap, Option.map_none] at h1 h2
  change Option.map Subtype.val (run (fun (x y : {x // x ∈ l}) => cmp x.1 y.1) (fun x => content x.1) l.attach).best
    = (run cmp content l).best at h1
  change Option.map Subtype.val (run (fun (x y : {x // x ∈ l}) => cmp x.1 y.1) (fun x => content x.1) l.attach).backup
    = (run cmp content l).backup at h2
  cases hb' : (run (fun (x y : {x // x ∈ l}) => cmp x.1 y.1) (fun x => content x.1) l.attach).best with
  | none => rw [hb', hb] at h1; cases h1
  | some b' =>
    have hs := best_backup_spec hw hc' l.attach hb'
    rw [hb', hb] at h1
    have ebb : b'.1 = b := by simpa using h1
    subst ebb
    rw [← h2]
    obtain ⟨_, hmin, hk⟩ := hs
    refine ⟨b'.2, fun c hcl => hmin ⟨c, hcl⟩ (List.mem_attach l _), ?_⟩
    cases hk' : (run (fun (x y : {x // x ∈ l}) => cmp x.1 y.1) (fun x => content x.1) l.attach).backup with
    | none =>
      rw [hk'] at hk
      exact fun c hcl => hk ⟨c, hcl⟩ (List.mem_attach l _)
    | some k' =>
      rw [hk'] at hk
      exact ⟨k'.2, hk.2.1, fun c hcl hne => hk.2.2 ⟨c, hcl⟩ (List.mem_attach l _) hne⟩

/-! ## the generic helper -/

private def GInv (cmp : α → α → Ordering) (l : List α) (st : St α) : Prop :=
  match st.best with
  | none => l = [] ∧ st.backup = none
  | some b => b ∈ l ∧ (∀ c ∈ l, c = b ∨ cmp b c = .lt) ∧
    match st.backup with
    | none => ∀ c ∈ l, c = b
    | some k => k ∈ l ∧ k ≠ b ∧ ∀ c ∈ l, c = b ∨ c = k ∨ cmp k c = .lt

private theorem stepG_inv {cmp : α → α → Ordering} (hw : WeakOrd cmp) {l : List α} {st : St α} (c : α)
    (hd : ∀ x ∈ l, cmp x c ≠ .eq) (h : GInv cmp l st) : GInv cmp (l ++ [c]) (stepG cmp st c) := by
  obtain ⟨best, backup⟩ := st
  cases best with
  | none =>
    obtain ⟨hl, hb⟩ := h
    simp only at hl hb
    subst hl hb
    simp only [stepG, GInv, List.nil_append, List.mem_singleton]
    exact ⟨trivial, fun x hx => .inl hx, fun x hx => hx⟩
  | some b =>
    obtain ⟨hbl, hmin, hk⟩ := h
    have hne_of_lt : ∀ {x y : α}, cmp x y = .lt → x ≠ y := by
      intro x y hxy e; subst e; rw [hw.refl] at hxy; cases hxy
    simp only [stepG]
    by_cases hcb : cmp c b = .lt
    · rw [if_pos hcb]
      simp only [GInv]
      refine ⟨List.mem_append.2 (.inr (List.mem_singleton.2 rfl)), ?_, List.mem_append.2 (.inl hbl),
        fun e => hne_of_lt hcb e.symm, ?_⟩
      · intro x hx
        rcases List.mem_append.1 hx with hx | hx
        · rcases hmin x hx with rfl | hbx
          · exact .inr hcb
          · exact .inr (hw.lt_trans c b x hcb hbx)
        · exact .inl (List.mem_singleton.1 hx)
      · intro x hx
        rcases List.mem_append.1 hx with hx | hx
        · rcases hmin x hx with rfl | hbx
          · exact .inr (.inl rfl)
          · exact .inr (.inr hbx)
        · exact .inl (List.mem_singleton.1 hx)
    · rw [if_neg hcb]
      -- distinct items: not less and not equal means greater
      have hbc : cmp b c = .lt := by
        have := hd b hbl
        cases e : cmp b c with
        | lt => rfl
        | eq => exact absurd e this
        | gt => exact absurd (hw.gt_iff.1 e) hcb
      have hbest : b ∈ l ++ [c] ∧ ∀ x ∈ l ++ [c], x = b ∨ cmp b x = .lt := by
        refine ⟨List.mem_append.2 (.inl hbl), ?_⟩
        intro x hx
        rcases List.mem_append.1 hx with hx | hx
        · exact hmin x hx
        · rw [List.mem_singleton.1 hx]; exact .inr hbc
      cases backup with
      | none =>
        simp only at hk
        simp only [GInv]
        refine ⟨hbest.1, hbest.2, List.mem_append.2 (.inr (List.mem_singleton.2 rfl)), fun e => hne_of_lt hbc e.symm, ?_⟩
        intro x hx
        rcases List.mem_append.1 hx with hx | hx
        · exact .inl (hk x hx)
        · exact .inr (.inl (List.mem_singleton.1 hx))
      | some k =>
        obtain ⟨hkl, hkb, hkmin⟩ := hk
        dsimp only
        by_cases hck : cmp c k = .lt
        · rw [if_pos hck]
          simp only [GInv]
          refine ⟨hbest.1, hbest.2, List.mem_append.2 (.inr (List.mem_singleton.2 rfl)), fun e => hne_of_lt hbc e.symm, ?_⟩
          intro x hx
          rcases List.mem_append.1 hx with hx | hx
          · rcases hkmin x hx with e | e | e
            · exact .inl e
            · subst e; exact .inr (.inr hck)
            · exact .inr (.inr (hw.lt_trans c k x hck e))
          · exact .inr (.inl (List.mem_singleton.1 hx))
        · rw [if_neg hck]
          have hkc : cmp k c = .lt := by
            have := hd k hkl
            cases e : cmp k c with
            | lt => rfl
            | eq => exact absurd e this
            | gt => exact absurd (hw.gt_iff.1 e) hck
          simp only [GInv]
          refine ⟨hbest.1, hbest.2, List.mem_append.2 (.inl hkl), hkb, ?_⟩
          intro x hx
          rcases List.mem_append.1 hx with hx | hx
          · exact hkmin x hx
          · rw [List.mem_singleton.1 hx]; exact .inr (.inr hkc)

private theorem foldlG_inv {cmp : α → α → Ordering} (hw : WeakOrd cmp) (l : List α) :
    ∀ (pre : List α) (st : St α), (pre ++ l).Pairwise (fun a b => cmp a b ≠ .eq) → GInv cmp pre st →
      GInv cmp (pre ++ l) (l.foldl (stepG cmp) st) := by
  induction l with
  | nil => intro pre st _ h; simpa using h
  | cons c t ih =>
    intro pre st hp h
    have hp' : ((pre ++ [c]) ++ t).Pairwise (fun a b => cmp a b ≠ .eq) := by simpa [List.append_assoc] using hp
    have hd : ∀ x ∈ pre, cmp x c ≠ .eq := by
      intro x hx
      have := (List.pairwise_append.1 hp).2.2 x hx c (List.mem_cons_self)
      exact this
    have := ih (pre ++ [c]) _ hp' (stepG_inv hw c hd h)
    simpa [List.append_assoc] using this

/-- Clause "the generic helper, given pairwise distinct items, returns the two
smallest in order": for every list no two of whose items compare `Equal`,
`best_backup_generic` returns nothing for the empty list; otherwise the
smallest item `b`; no backup exactly when there is no other item; otherwise the
backup `k` is another item, `b < k`, and every item other than `b` and `k` is
greater than `k`. -/
theorem generic_two_smallest {cmp : α → α → Ordering} (hw : WeakOrd cmp) (l : List α)
    (hd : l.Pairwise (fun a b => cmp a b ≠ .eq)) :
    match (generic cmp l).best, (generic cmp l).backup with
    | none, k => l = [] ∧ k = none
    | some b, none => b ∈ l ∧ ∀ c ∈ l, c = b
    | some b, some k => b ∈ l ∧ k ∈ l ∧ k ≠ b ∧ cmp b k = .lt ∧ (∀ c ∈ l, c = b ∨ cmp b c = .lt) ∧
        ∀ c ∈ l, c = b ∨ c = k ∨ cmp k c = .lt := by
  have h := foldlG_inv hw l [] ⟨none, none⟩ (by simpa using hd) ⟨rfl, rfl⟩
  simp only [List.nil_append] at h
  unfold GInv at h
  show (match (generic cmp l).best, (generic cmp l).backup with
    | none, k => l = [] ∧ k = none
    | some b, none => b ∈ l ∧ ∀ c ∈ l, c = b
    | some b, some k => b ∈ l ∧ k ∈ l ∧ k ≠ b ∧ cmp b k = .lt ∧ (∀ c ∈ l, c = b ∨ cmp b c = .lt) ∧
        ∀ c ∈ l, c = b ∨ c = k ∨ cmp k c = .lt)
  unfold generic
  cases hb : (List.foldl (stepG cmp) ⟨none, none⟩ l).best with
  | none => rw [hb] at h; exact h
  | some b =>
    rw [hb] at h
    cases hk : (List.foldl (stepG cmp) ⟨none, none⟩ l).backup with
    | none => rw [hk] at h; exact ⟨h.1, h.2.2⟩
    | some k =>
      rw [hk] at h
      obtain ⟨hbl, hmin, hkl, hkb, hkmin⟩ := h
      refine ⟨hbl, hkl, hkb, ?_, hmin, hkmin⟩
      rcases hmin k hkl with e | e
      · exact absurd e hkb
      · exact e

example : (generic (fun (a b : Nat) => compare a b) [5, 3, 9, 4]).best = some 3 ∧
    (generic (fun (a b : Nat) => compare a b) [5, 3, 9, 4]).backup = some 4 := by decide

/-! ## instances for `OrdRoute` -/

open Rc.PathSel Rc.Thm.C10

/-- route content = `inner()` = the whole record -/
abbrev routeContent (r : CRoute) : Route := r.1

private theorem skipMed_respects : RespectsContent (fun (a b : CRoute) => cmpP .skipMed a.1 b.1) routeContent := by
  intro a b e
  have : a = b := Subtype.ext e
  subst this
  exact skipMed_weak_order.refl a

/-- C11 for `OrdRoute<SkipMed>`: for every list of constructed routes, in every
order, `best_backup` returns a best that is a minimum and equals `best()`, and
a backup that satisfies the statement. -/
theorem skipMed_best_backup (l : List CRoute) :
    let c := fun (a b : CRoute) => cmpP .skipMed a.1 b.1
    (bestBackup c routeContent l).1 = best c l ∧
    match (bestBackup c routeContent l).1 with
    | none => l = []
    | some b => Spec c routeContent l b (bestBackup c routeContent l).2 := by
  intro c
  rw [bestBackup_eq_run]
  refine ⟨best_eq_single_best skipMed_weak_order.antisym l, ?_⟩
  cases hb : (run c routeContent l).best with
  | none => exact (best_none_iff skipMed_weak_order skipMed_respects l).1 hb
  | some b => exact best_backup_spec skipMed_weak_order skipMed_respects l hb

/-- ... and presenting the same routes in another order changes neither the
presence nor the preference class of the backup. -/
theorem skipMed_backup_order_independent {l l' : List CRoute} (hp : l.Perm l') :
    let c := fun (a b : CRoute) => cmpP .skipMed a.1 b.1
    ((bestBackup c routeContent l).2 = none ↔ (bestBackup c routeContent l').2 = none) ∧
    ∀ x y, (bestBackup c routeContent l).2 = some x → (bestBackup c routeContent l').2 = some y → c x y = .eq := by
  intro c
  rw [bestBackup_eq_run, bestBackup_eq_run]
  exact backup_class_perm_invariant skipMed_weak_order skipMed_respects hp

private def wit (nbr med id : Nat) : Route :=
  { ibgp := false, dop := none, localPref := none, path := Slot.val [Hop.asn nbr, Hop.asn 20], origin := Slot.val 0,
    med := some med, localAsn := 65000, originatorId := none, bgpId := id, clusterLen := none, peerV6 := false,
    peerAddr := 1, extra := 0 }

/-- The weak-order hypothesis cannot be dropped for `OrdRoute<Rfc4271>`: there
are three constructed routes every one of which has another one preferred over
it (A < C < B < A), so NO selection can return "a route no candidate is
preferred over" from them.  Nothing is silently weakened: for Rfc4271 the
theorems above apply to exactly those candidate sets on which the MED step
happens to be transitive. -/
theorem rfc4271_cycle_no_best :
    ∃ l : List CRoute, l ≠ [] ∧ ∀ x ∈ l, ∃ y ∈ l, cmpP .rfc4271 y.1 x.1 = .lt := by
  let a : CRoute := ⟨wit 10 20 1, by decide⟩
  let b : CRoute := ⟨wit 10 10 3, by decide⟩
  let c : CRoute := ⟨wit 30 0 2, by decide⟩
  refine ⟨[a, b, c], by simp, ?_⟩
  intro x hx
  simp only [List.mem_cons, List.mem_nil_iff, or_false] at hx
  rcases hx with rfl | rfl | rfl
  · exact ⟨b, by simp, by decide⟩
  · exact ⟨c, by simp, by decide⟩
  · exact ⟨a, by simp, by decide⟩


/-! ## the statement for a strategy, without hypotheses (known finding K11) -/

/-- The statement of C11 for the `Ord` of `OrdRoute<s>`, for EVERY collection of
constructed routes in every order, with no hypothesis about the order. -/
def SelectionStatement (s : Strat) : Prop :=
  ∀ l : List CRoute,
    match (bestBackup (fun (a b : CRoute) => cmpP s a.1 b.1) routeContent l).1 with
    | none => l = []
    | some b => Spec (fun (a b : CRoute) => cmpP s a.1 b.1) routeContent l b
        (bestBackup (fun (a b : CRoute) => cmpP s a.1 b.1) routeContent l).2

/-- It holds for `OrdRoute<SkipMed>`. -/
theorem skipMed_statement : SelectionStatement .skipMed := fun l => (skipMed_best_backup l).2

/-- It does NOT hold for `OrdRoute<Rfc4271>` (known finding K11): on the 3-cycle
A = (neighbour 10, MED 20, id 1), B = (neighbour 10, MED 10, id 3), C = (neighbour
30, MED 0, id 2) whatever is selected has a candidate preferred over it. -/
theorem rfc4271_statement_fails : ¬ SelectionStatement .rfc4271 := by
  intro h
  obtain ⟨l, hne, hcyc⟩ := rfc4271_cycle_no_best
  have hl := h l
  cases hb : (bestBackup (fun (a b : CRoute) => cmpP .rfc4271 a.1 b.1) routeContent l).1 with
  | none => rw [hb] at hl; exact hne hl
  | some b =>
    rw [hb] at hl
    obtain ⟨hbl, hmin, _⟩ := hl
    obtain ⟨y, hy, hlt⟩ := hcyc b hbl
    exact hmin y hy hlt

private theorem rfc4271_antisym : Antisym (fun (a b : CRoute) => cmpP .rfc4271 a.1 b.1) := by
  intro a b
  have h := rfc4271_antisymm a b
  rw [cmp_constructed _ b.2 a.2] at h
  exact Outcome.ok.inj h

private theorem rfc4271_respects : RespectsContent (fun (a b : CRoute) => cmpP .rfc4271 a.1 b.1) routeContent := by
  intro a b e
  have : a = b := Subtype.ext e
  subst this
  have h := rfc4271_antisym a a
  cases hc : cmpP .rfc4271 a.1 a.1 <;> simp [hc, Ordering.swap] at h ⊢

/-- What holds for `OrdRoute<Rfc4271>` on EVERY collection, cycles included (the
clauses that need no transitivity): the best of `best_backup` is the route
`best()` returns; nothing is selected only from an empty collection; best and
backup are candidates; the backup is absent exactly when every candidate has the
content of the best, otherwise its content differs from the best's. -/
theorem rfc4271_unconditional (l : List CRoute) :
    (bestBackup (fun (a b : CRoute) => cmpP .rfc4271 a.1 b.1) routeContent l).1
      = best (fun (a b : CRoute) => cmpP .rfc4271 a.1 b.1) l ∧
    match (bestBackup (fun (a b : CRoute) => cmpP .rfc4271 a.1 b.1) routeContent l).1 with
    | none => l = []
    | some b => ContentSpec routeContent l b
        (bestBackup (fun (a b : CRoute) => cmpP .rfc4271 a.1 b.1) routeContent l).2 := by
  rw [bestBackup_eq_run]
  refine ⟨best_eq_single_best rfc4271_antisym l, ?_⟩
  cases hb : (run (fun (a b : CRoute) => cmpP .rfc4271 a.1 b.1) routeContent l).best with
  | none => exact (best_none_iff_any rfc4271_respects l).1 hb
  | some b => exact content_clauses rfc4271_respects l hb

/-- The provable part of the statement for `OrdRoute<Rfc4271>`: it holds for
every collection ON WHICH the preference is a strict weak order (the exclusion
is exactly the hypothesis; it fails on the cycle, `rfc4271_statement_fails`).
Order independence of the backup's class is not proved for this strategy. -/
theorem rfc4271_best_backup_partial (l : List CRoute)
    (hw : WeakOrd (fun (x y : {x // x ∈ l}) => cmpP .rfc4271 x.1.1 y.1.1)) :
    match (bestBackup (fun (a b : CRoute) => cmpP .rfc4271 a.1 b.1) routeContent l).1 with
    | none => l = []
    | some b => Spec (fun (a b : CRoute) => cmpP .rfc4271 a.1 b.1) routeContent l b
        (bestBackup (fun (a b : CRoute) => cmpP .rfc4271 a.1 b.1) routeContent l).2 := by
  rw [bestBackup_eq_run]
  cases hb : (run (fun (a b : CRoute) => cmpP .rfc4271 a.1 b.1) routeContent l).best with
  | none => exact (best_none_iff_any rfc4271_respects l).1 hb
  | some b => exact best_backup_spec_on l hw rfc4271_respects hb

/-- the hypothesis is satisfiable where the MED step decides: A and B of the
cycle alone (same neighbour AS, B preferred by MED although its identifier is
higher) are weakly ordered -/
example : WeakOrd (fun (x y : {x // x ∈ ([⟨wit 10 20 1, by decide⟩, ⟨wit 10 10 3, by decide⟩] : List CRoute)}) =>
    cmpP .rfc4271 x.1.1 y.1.1) where
  swap x y := rfc4271_antisym x.1 y.1
  lt_trans := by
    rintro ⟨x, hx⟩ ⟨y, hy⟩ ⟨z, hz⟩
    simp only [List.mem_cons, List.mem_nil_iff, or_false] at hx hy hz
    rcases hx with rfl | rfl <;> rcases hy with rfl | rfl <;> rcases hz with rfl | rfl <;> (dsimp only; decide)
  eq_trans := by
    rintro ⟨x, hx⟩ ⟨y, hy⟩ ⟨z, hz⟩
    simp only [List.mem_cons, List.mem_nil_iff, or_false] at hx hy hz
    rcases hx with rfl | rfl <;> rcases hy with rfl | rfl <;> rcases hz with rfl | rfl <;> (dsimp only; decide)

end Rc.Thm.C11
