/-
C11 – best/backup selection returns the minimum and a true runner-up.

Property theorems only (helpers are private).  Models: Rc/Model/Select.lean
(generic in item type and comparison), Rc/Model/PathSel.lean (the route order).
Everything is proved for EVERY list, by induction, for ANY comparison that is a
strict weak order respecting content; the instance for `OrdRoute<SkipMed>` comes
from Thm/C10 `skipMed_weak_order`.
-/
import Rc.Model.Select
import Rc.Model.PathSel
import Rc.Lemmas.Order
import Rc.Thm.C10

namespace Rc.Thm.C11
open Rc Rc.Select Rc.Order

variable {α κ : Type} [DecidableEq κ]

/-- The statement of the property for one presentation order `l`: `b` is a
candidate no candidate is preferred over; the backup is absent exactly when
every candidate has the content of `b`; otherwise it is a candidate whose
content differs from `b`'s and over which no candidate differing from `b` is
preferred. -/
def Spec (cmp : α → α → Ordering) (content : α → κ) (l : List α) (b : α) (k : Option α) : Prop :=
  b ∈ l ∧ (∀ c ∈ l, cmp c b ≠ .lt) ∧
    match k with
    | none => ∀ c ∈ l, content c = content b
    | some k => k ∈ l ∧ content k ≠ content b ∧ ∀ c ∈ l, content c ≠ content b → cmp c k ≠ .lt

/-- `cmp` depends on content only (for `OrdRoute`: `cmp` reads nothing but
`inner()`). -/
def RespectsContent (cmp : α → α → Ordering) (content : α → κ) : Prop :=
  ∀ a b, content a = content b → cmp a b = .eq

private def Inv (cmp : α → α → Ordering) (content : α → κ) (l : List α) (st : St α) : Prop :=
  match st.best with
  | none => l = [] ∧ st.backup = none
  | some b => Spec cmp content l b st.backup

private theorem step_inv {cmp : α → α → Ordering} {content : α → κ} (hw : WeakOrd cmp)
    (hc : RespectsContent cmp content) {l : List α} {st : St α} (c : α)
    (h : Inv cmp content l st) : Inv cmp content (l ++ [c]) (step cmp content st c) := by
  obtain ⟨best, backup⟩ := st
  cases best with
  | none =>
    obtain ⟨hl, hb⟩ := h
    simp only at hl hb
    subst hl hb
    simp only [step, Inv, Spec, List.nil_append, List.mem_singleton]
    exact ⟨trivial, fun x hx => by subst hx; simp [hw.refl], fun x hx => by subst hx; rfl⟩
  | some b =>
    obtain ⟨hbl, hmin, hk⟩ := h
    simp only [step]
    by_cases hcb : cmp c b = .lt
    · -- c is preferred over the current best
      simp only [hcb, if_true, Inv, Spec, List.mem_append, List.mem_singleton]
      refine ⟨.inr trivial, ?_, .inl hbl, ?_, ?_⟩
      · rintro x (hx | rfl)
        · intro hxc; exact hmin x hx (hw.lt_trans x c b hxc hcb)
        · simp [hw.refl]
      · intro e
        have := hc b c e
        rw [hw.eq_symm this] at hcb; cases hcb
      · rintro x (hx | rfl) hne
        · exact hmin x hx
        · exact absurd rfl hne
    · simp only [hcb, if_false]
      cases backup with
      | none =>
        simp only at hk
        by_cases hcc : content b = content c
        · simp only [hcc, ne_eq, not_true_eq_false, if_false, Inv, Spec, List.mem_append, List.mem_singleton]
          refine ⟨.inl hbl, ?_, ?_⟩
          · rintro x (hx | rfl)
            · exact hmin x hx
            · exact hcb
          · rintro x (hx | rfl)
            · rw [hk x hx, hcc]
            · rfl
        · simp only [ne_eq, hcc, not_false_eq_true, if_true, Inv, Spec, List.mem_append, List.mem_singleton]
          refine ⟨.inl hbl, ?_, .inr trivial, fun e => hcc e.symm, ?_⟩
          · rintro x (hx | rfl)
            · exact hmin x hx
            · exact hcb
          · rintro x (hx | rfl) hne
            · exact absurd (hk x hx) hne
            · simp [hw.refl]
      | some k =>
        obtain ⟨hkl, hkb, hkmin⟩ := hk
        have hbest : b ∈ l ++ [c] ∧ ∀ x ∈ l ++ [c], cmp x b ≠ .lt := by
          refine ⟨List.mem_append.2 (.inl hbl), ?_⟩
          intro x hx
          rcases List.mem_append.1 hx with hx | hx
          · exact hmin x hx
          · rw [List.mem_singleton] at hx; subst hx; exact hcb
        by_cases hck : cmp c k = .lt
        · by_cases hcc : content b = content c
          · dsimp only
            rw [if_pos hck, if_neg (fun hne => hne hcc)]
            simp only [Inv, Spec]
            refine ⟨hbest.1, hbest.2, List.mem_append.2 (.inl hkl), hkb, ?_⟩
            intro x hx hne
            rcases List.mem_append.1 hx with hx | hx
            · exact hkmin x hx hne
            · rw [List.mem_singleton] at hx; subst hx; exact absurd hcc.symm hne
          · dsimp only
            rw [if_pos hck, if_pos hcc]
            simp only [Inv, Spec]
            refine ⟨hbest.1, hbest.2, List.mem_append.2 (.inr (List.mem_singleton.2 rfl)), fun e => hcc e.symm, ?_⟩
            intro x hx hne
            rcases List.mem_append.1 hx with hx | hx
            · intro hxc; exact hkmin x hx hne (hw.lt_trans x c k hxc hck)
            · rw [List.mem_singleton] at hx; subst hx; simp [hw.refl]
        · dsimp only
          rw [if_neg hck]
          simp only [Inv, Spec]
          refine ⟨hbest.1, hbest.2, List.mem_append.2 (.inl hkl), hkb, ?_⟩
          intro x hx hne
          rcases List.mem_append.1 hx with hx | hx
          · exact hkmin x hx hne
          · rw [List.mem_singleton] at hx; subst hx; exact hck

private theorem foldl_inv {cmp : α → α → Ordering} {content : α → κ} (hw : WeakOrd cmp)
    (hc : RespectsContent cmp content) (l : List α) :
    ∀ (pre : List α) (st : St α), Inv cmp content pre st →
      Inv cmp content (pre ++ l) (l.foldl (step cmp content) st) := by
  induction l with
  | nil => intro pre st h; simpa using h
  | cons c t ih =>
    intro pre st h
    have := ih (pre ++ [c]) _ (step_inv hw hc c h)
    simpa [List.append_assoc] using this

private theorem run_inv {cmp : α → α → Ordering} {content : α → κ} (hw : WeakOrd cmp)
    (hc : RespectsContent cmp content) (l : List α) : Inv cmp content l (run cmp content l) := by
  have := foldl_inv hw hc l [] ⟨none, none⟩ ⟨rfl, rfl⟩
  simpa [run] using this

/-! ## the selection theorems (any strict weak order, any list) -/

/-- the hypotheses are satisfiable: items = (preference, tag), compared on the preference only -/
example : WeakOrd (fun (a b : Nat × Nat) => compare a.1 b.1) ∧
    RespectsContent (fun (a b : Nat × Nat) => compare a.1 b.1) (fun a => a) :=
  ⟨WeakOrd.ofNat fun (a : Nat × Nat) => a.1, fun a b e => by subst e; simp⟩

/-- ... and the F15 input: A = (1,0) best, B = (2,0) worse, C = (1,1) tied with A, different content -/
example : (run (fun (a b : Nat × Nat) => compare a.1 b.1) (fun a => a) [(1, 0), (2, 0), (1, 1)]).backup = some (1, 1) ∧
    (run (fun (a b : Nat × Nat) => compare a.1 b.1) (fun a => a) [(1, 0), (1, 1), (2, 0)]).backup = some (1, 1) := by decide

/-- Nothing is selected only from an empty collection. -/
theorem best_none_iff {cmp : α → α → Ordering} {content : α → κ} (hw : WeakOrd cmp)
    (hc : RespectsContent cmp content) (l : List α) : (run cmp content l).best = none ↔ l = [] := by
  have h := run_inv hw hc l
  unfold Inv at h
  constructor
  · intro e; rw [e] at h; exact h.1
  · intro e; subst e; rfl

/-- Clauses "the selected best route is one that no candidate is preferred
over", "the backup is absent exactly when every candidate has the same content
as the best; otherwise it is a candidate whose content differs from the best and
over which no candidate with content differing from the best is preferred" – the
whole `Spec`, for every list. -/
theorem best_backup_spec {cmp : α → α → Ordering} {content : α → κ} (hw : WeakOrd cmp)
    (hc : RespectsContent cmp content) (l : List α) {b : α} (hb : (run cmp content l).best = some b) :
    Spec cmp content l b (run cmp content l).backup := by
  have h := run_inv hw hc l
  unfold Inv at h
  rw [hb] at h; exact h

/-- `best_is_min`, spelled out. -/
theorem best_is_min {cmp : α → α → Ordering} {content : α → κ} (hw : WeakOrd cmp)
    (hc : RespectsContent cmp content) (l : List α) {b : α} (hb : (run cmp content l).best = some b) :
    b ∈ l ∧ ∀ c ∈ l, cmp c b ≠ .lt :=
  let h := best_backup_spec hw hc l hb; ⟨h.1, h.2.1⟩

/-- `backup_none_iff`, spelled out. -/
theorem backup_none_iff {cmp : α → α → Ordering} {content : α → κ} (hw : WeakOrd cmp)
    (hc : RespectsContent cmp content) (l : List α) {b : α} (hb : (run cmp content l).best = some b) :
    (run cmp content l).backup = none ↔ ∀ c ∈ l, content c = content b := by
  have h := best_backup_spec hw hc l hb
  unfold Spec at h
  cases hk : (run cmp content l).backup with
  | none => rw [hk] at h; simpa using h.2.2
  | some k =>
    rw [hk] at h
    simp only [reduceCtorEq, false_iff]
    intro hall; exact h.2.2.2.1 (hall k h.2.2.1)

/-- `backup_spec`, spelled out: a true runner-up. -/
theorem backup_spec {cmp : α → α → Ordering} {content : α → κ} (hw : WeakOrd cmp)
    (hc : RespectsContent cmp content) (l : List α) {b k : α} (hb : (run cmp content l).best = some b)
    (hk : (run cmp content l).backup = some k) :
    k ∈ l ∧ content k ≠ content b ∧ ∀ c ∈ l, content c ≠ content b → cmp c k ≠ .lt := by
  have h := best_backup_spec hw hc l hb
  unfold Spec at h
  rw [hk] at h; exact h.2.2

private theorem step_best (cmp : α → α → Ordering) (content : α → κ) (hw : WeakOrd cmp) (st : St α) (c : α) :
    (step cmp content st c).best = some (match st.best with | none => c | some b => minBy cmp b c) := by
  obtain ⟨best, backup⟩ := st
  cases best with
  | none => rfl
  | some b =>
    simp only [step, minBy]
    by_cases hcb : cmp c b = .lt
    · have : cmp b c = .gt := hw.gt_iff.2 hcb
      simp [hcb, this]
    · have : cmp b c ≠ .gt := fun e => hcb (hw.gt_iff.1 e)
      simp only [hcb, if_false]
      cases backup with
      | none => cases hbc : cmp b c <;> simp_all <;> split <;> rfl
      | some k => cases hbc : cmp b c <;> simp_all <;> (repeat' split) <;> rfl

private theorem foldl_best (cmp : α → α → Ordering) (content : α → κ) (hw : WeakOrd cmp) (l : List α) :
    ∀ (st : St α) (b : α), st.best = some b →
      (l.foldl (step cmp content) st).best = some (l.foldl (minBy cmp) b) := by
  induction l with
  | nil => intro st b h; simpa using h
  | cons c t ih =>
    intro st b h
    simp only [List.foldl_cons]
    apply ih
    rw [step_best cmp content hw, h]

/-- Clause "... and it is the route the single-best helper returns":
`best_backup`'s best is `best()`'s result (the FIRST minimum), for every list. -/
theorem best_eq_single_best {cmp : α → α → Ordering} {content : α → κ} (hw : WeakOrd cmp) (l : List α) :
    (run cmp content l).best = best cmp l := by
  cases l with
  | nil => rfl
  | cons x xs =>
    simp only [run, List.foldl_cons, best]
    exact foldl_best cmp content hw xs _ x rfl

/-- Clause "... so its preference class does not depend on the order in which
candidates are presented": any two results satisfying the statement on two
permutations of the same candidates agree on whether there is a backup, and
their backups are equally preferred. -/
theorem spec_class_perm_invariant {cmp : α → α → Ordering} {content : α → κ} (hw : WeakOrd cmp)
    (hc : RespectsContent cmp content) {l l' : List α} (hp : l.Perm l') {b b' : α} {k k' : Option α}
    (h : Spec cmp content l b k) (h' : Spec cmp content l' b' k') :
    (k = none ↔ k' = none) ∧ ∀ x y, k = some x → k' = some y → cmp x y = .eq := by
  have mem : ∀ x, x ∈ l ↔ x ∈ l' := fun x => hp.mem_iff
  -- the two bests are equally preferred
  have hbb : cmp b b' = .eq := by
    have h1 := h'.2.1 b ((mem b).1 h.1)
    have h2 := h.2.1 b' ((mem b').2 h'.1)
    cases e : cmp b b' with
    | lt => exact absurd e h1
    | eq => rfl
    | gt => exact absurd (hw.gt_iff.1 e) h2
  -- one direction of the class statement, to be used twice
  have key : ∀ {l l' : List α} {b b' x y : α}, (∀ z, z ∈ l ↔ z ∈ l') → cmp b b' = .eq →
      Spec cmp content l b (some x) → Spec cmp content l' b' (some y) → cmp x y ≠ .lt := by
    intro l l' b b' x y mem hbb h h' hxy
    obtain ⟨hbl, _, hxl, hxb, _⟩ := h
    obtain ⟨_, _, _, _, hymin⟩ := h'
    by_cases e : content x = content b'
    · -- x has the content of b': x ~ b' ~ b, and b differs from b' in content
      have hxb' : cmp x b' = .eq := hc x b' e
      have hne : content b ≠ content b' := fun e' => hxb (e.trans e'.symm)
      have hby := hymin b ((mem b).1 hbl) hne
      have hbx : cmp b x = .eq := hw.eq_trans b b' x hbb (hw.eq_symm hxb')
      exact hby (hw.eq_lt hbx hxy)
    · exact hymin x ((mem x).1 hxl) e hxy
  refine ⟨?_, ?_⟩
  · cases k with
    | none =>
      cases k' with
      | none => simp
      | some y =>
        exfalso
        obtain ⟨_, _, hall⟩ := h
        obtain ⟨hb'l, _, hyl, hyb, _⟩ := h'
        exact hyb ((hall y ((mem y).2 hyl)).trans (hall b' ((mem b').2 hb'l)).symm)
    | some x =>
      cases k' with
      | some y => simp
      | none =>
        exfalso
        obtain ⟨hbl, _, hxl, hxb, _⟩ := h
        obtain ⟨_, _, hall⟩ := h'
        exact hxb ((hall x ((mem x).1 hxl)).trans (hall b ((mem b).1 hbl)).symm)
  · intro x y hx hy
    subst hx hy
    have h1 := key mem hbb h h'
    have h2 := key (fun z => (mem z).symm) (hw.eq_symm hbb) h' h
    cases e : cmp x y with
    | lt => exact absurd e h1
    | eq => rfl
    | gt => exact absurd (hw.gt_iff.1 e) h2

/-- ... instantiated with what `_best_backup` computes: presenting the same
candidates in another order changes neither the presence of a backup nor its
preference class. -/
theorem backup_class_perm_invariant {cmp : α → α → Ordering} {content : α → κ} (hw : WeakOrd cmp)
    (hc : RespectsContent cmp content) {l l' : List α} (hp : l.Perm l') :
    ((run cmp content l).backup = none ↔ (run cmp content l').backup = none) ∧
    ∀ x y, (run cmp content l).backup = some x → (run cmp content l').backup = some y → cmp x y = .eq := by
  cases hb : (run cmp content l).best with
  | none =>
    have hl : l = [] := (best_none_iff hw hc l).1 hb
    subst hl
    have hl' : l' = [] := hp.symm.eq_nil
    subst hl'
    simp [run]
  | some b =>
    cases hb' : (run cmp content l').best with
    | none =>
      have hl' : l' = [] := (best_none_iff hw hc l').1 hb'
      subst hl'
      have hl : l = [] := hp.eq_nil
      subst hl
      simp [run] at hb
    | some b' =>
      exact spec_class_perm_invariant hw hc hp (best_backup_spec hw hc l hb) (best_backup_spec hw hc l' hb')

/-! ## `best_backup` / `best_backup_position` (the enumerated fold) -/

private def stMap {β γ : Type} (f : β → γ) (st : St β) : St γ := ⟨st.best.map f, st.backup.map f⟩

private theorem step_fst (cmp : α → α → Ordering) (content : α → κ) (st : St (α × Nat)) (c : α × Nat) :
    stMap Prod.fst (step (fun x y => cmp x.1 y.1) (fun x => content x.1) st c)
      = step cmp content (stMap Prod.fst st) c.1 := by
  obtain ⟨best, backup⟩ := st
  cases best with
  | none => rfl
  | some b =>
    cases backup with
    | none =>
      simp only [step, stMap, Option.map]
      by_cases h1 : cmp c.1 b.1 = .lt
      · simp [h1]
      · by_cases h2 : content b.1 = content c.1 <;> simp [h1, h2]
    | some k =>
      simp only [step, stMap, Option.map]
      by_cases h1 : cmp c.1 b.1 = .lt
      · simp [h1]
      · by_cases h3 : cmp c.1 k.1 = .lt <;> by_cases h2 : content b.1 = content c.1 <;> simp [h1, h2, h3]

private theorem foldl_fst (cmp : α → α → Ordering) (content : α → κ) (m : List (α × Nat)) :
    ∀ st, stMap Prod.fst (m.foldl (step (fun x y => cmp x.1 y.1) (fun x => content x.1)) st)
      = (m.map Prod.fst).foldl (step cmp content) (stMap Prod.fst st) := by
  induction m with
  | nil => intro st; rfl
  | cons c t ih => intro st; simp only [List.foldl_cons, List.map_cons, ih, step_fst]

/-- `best_backup` returns exactly the two slots of the fold over the items, so
every theorem above is a theorem about `best_backup`. -/
theorem bestBackup_eq_run (cmp : α → α → Ordering) (content : α → κ) (l : List α) :
    bestBackup cmp content l = ((run cmp content l).best, (run cmp content l).backup) := by
  have h := foldl_fst cmp content l.zipIdx ⟨none, none⟩
  rw [List.zipIdx_map_fst] at h
  simp only [bestBackup, bestBackupIdx, run]
  have h1 := congrArg St.best h
  have h2 := congrArg St.backup h
  simp only [stMap, Option.map_none] at h1 h2
  rw [← h1, ← h2]

/-- "Positions agree with values": the indices `best_backup_position` returns
are the places of the routes `best_backup` returns. -/
theorem position_agrees {cmp : α → α → Ordering} {content : α → κ} (hw : WeakOrd cmp)
    (hc : RespectsContent cmp content) (l : List α) :
    (bestBackup cmp content l).1 = (bestBackupPosition cmp content l).1.bind (l[·]?) ∧
    (bestBackup cmp content l).2 = (bestBackupPosition cmp content l).2.bind (l[·]?) := by
  have hw' : WeakOrd (fun (x y : α × Nat) => cmp x.1 y.1) := hw.pullback Prod.fst
  have hc' : RespectsContent (fun (x y : α × Nat) => cmp x.1 y.1) (fun x => content x.1) := fun a b e => hc a.1 b.1 e
  have h := run_inv hw' hc' l.zipIdx
  unfold Inv at h
  simp only [bestBackup, bestBackupPosition, bestBackupIdx]
  cases hb : (run (fun (x y : α × Nat) => cmp x.1 y.1) (fun x => content x.1) l.zipIdx).best with
  | none =>
    rw [hb] at h
    simp [h.2]
  | some b =>
    rw [hb] at h
    obtain ⟨hbl, _, hk⟩ := h
    have eb := List.mem_zipIdx_iff_getElem?.1 hbl
    cases hkk : (run (fun (x y : α × Nat) => cmp x.1 y.1) (fun x => content x.1) l.zipIdx).backup with
    | none => simp [eb]
    | some k =>
      rw [hkk] at hk
      have ek := List.mem_zipIdx_iff_getElem?.1 hk.1
      simp [eb, ek]

/-! ## the generic helper -/

private def GInv (cmp : α → α → Ordering) (l : List α) (st : St α) : Prop :=
  match st.best with
  | none => l = [] ∧ st.backup = none
  | some b => b ∈ l ∧ (∀ c ∈ l, c = b ∨ cmp b c = .lt) ∧
    match st.backup with
    | none => ∀ c ∈ l, c = b
    | some k => k ∈ l ∧ k ≠ b ∧ ∀ c ∈ l, c = b ∨ c = k ∨ cmp k c = .lt

private theorem stepG_inv {cmp : α → α → Ordering} (hw : WeakOrd cmp) {l : List α} {st : St α} (c : α)
    (hd : ∀ x ∈ l, cmp x c ≠ .eq) (h : GInv cmp l st) : GInv cmp (l ++ [c]) (stepG cmp st c) := by
  obtain ⟨best, backup⟩ := st
  cases best with
  | none =>
    obtain ⟨hl, hb⟩ := h
    simp only at hl hb
    subst hl hb
    simp only [stepG, GInv, List.nil_append, List.mem_singleton]
    exact ⟨trivial, fun x hx => .inl hx, fun x hx => hx⟩
  | some b =>
    obtain ⟨hbl, hmin, hk⟩ := h
    have hne_of_lt : ∀ {x y : α}, cmp x y = .lt → x ≠ y := by
      intro x y hxy e; subst e; rw [hw.refl] at hxy; cases hxy
    simp only [stepG]
    by_cases hcb : cmp c b = .lt
    · rw [if_pos hcb]
      simp only [GInv]
      refine ⟨List.mem_append.2 (.inr (List.mem_singleton.2 rfl)), ?_, List.mem_append.2 (.inl hbl),
        fun e => hne_of_lt hcb e.symm, ?_⟩
      · intro x hx
        rcases List.mem_append.1 hx with hx | hx
        · rcases hmin x hx with rfl | hbx
          · exact .inr hcb
          · exact .inr (hw.lt_trans c b x hcb hbx)
        · exact .inl (List.mem_singleton.1 hx)
      · intro x hx
        rcases List.mem_append.1 hx with hx | hx
        · rcases hmin x hx with rfl | hbx
          · exact .inr (.inl rfl)
          · exact .inr (.inr hbx)
        · exact .inl (List.mem_singleton.1 hx)
    · rw [if_neg hcb]
      -- distinct items: not less and not equal means greater
      have hbc : cmp b c = .lt := by
        have := hd b hbl
        cases e : cmp b c with
        | lt => rfl
        | eq => exact absurd e this
        | gt => exact absurd (hw.gt_iff.1 e) hcb
      have hbest : b ∈ l ++ [c] ∧ ∀ x ∈ l ++ [c], x = b ∨ cmp b x = .lt := by
        refine ⟨List.mem_append.2 (.inl hbl), ?_⟩
        intro x hx
        rcases List.mem_append.1 hx with hx | hx
        · exact hmin x hx
        · rw [List.mem_singleton.1 hx]; exact .inr hbc
      cases backup with
      | none =>
        simp only at hk
        simp only [GInv]
        refine ⟨hbest.1, hbest.2, List.mem_append.2 (.inr (List.mem_singleton.2 rfl)), fun e => hne_of_lt hbc e.symm, ?_⟩
        intro x hx
        rcases List.mem_append.1 hx with hx | hx
        · exact .inl (hk x hx)
        · exact .inr (.inl (List.mem_singleton.1 hx))
      | some k =>
        obtain ⟨hkl, hkb, hkmin⟩ := hk
        dsimp only
        by_cases hck : cmp c k = .lt
        · rw [if_pos hck]
          simp only [GInv]
          refine ⟨hbest.1, hbest.2, List.mem_append.2 (.inr (List.mem_singleton.2 rfl)), fun e => hne_of_lt hbc e.symm, ?_⟩
          intro x hx
          rcases List.mem_append.1 hx with hx | hx
          · rcases hkmin x hx with e | e | e
            · exact .inl e
            · subst e; exact .inr (.inr hck)
            · exact .inr (.inr (hw.lt_trans c k x hck e))
          · exact .inr (.inl (List.mem_singleton.1 hx))
        · rw [if_neg hck]
          have hkc : cmp k c = .lt := by
            have := hd k hkl
            cases e : cmp k c with
            | lt => rfl
            | eq => exact absurd e this
            | gt => exact absurd (hw.gt_iff.1 e) hck
          simp only [GInv]
          refine ⟨hbest.1, hbest.2, List.mem_append.2 (.inl hkl), hkb, ?_⟩
          intro x hx
          rcases List.mem_append.1 hx with hx | hx
          · exact hkmin x hx
          · rw [List.mem_singleton.1 hx]; exact .inr (.inr hkc)

private theorem foldlG_inv {cmp : α → α → Ordering} (hw : WeakOrd cmp) (l : List α) :
    ∀ (pre : List α) (st : St α), (pre ++ l).Pairwise (fun a b => cmp a b ≠ .eq) → GInv cmp pre st →
      GInv cmp (pre ++ l) (l.foldl (stepG cmp) st) := by
  induction l with
  | nil => intro pre st _ h; simpa using h
  | cons c t ih =>
    intro pre st hp h
    have hp' : ((pre ++ [c]) ++ t).Pairwise (fun a b => cmp a b ≠ .eq) := by simpa [List.append_assoc] using hp
    have hd : ∀ x ∈ pre, cmp x c ≠ .eq := by
      intro x hx
      have := (List.pairwise_append.1 hp).2.2 x hx c (List.mem_cons_self)
      exact this
    have := ih (pre ++ [c]) _ hp' (stepG_inv hw c hd h)
    simpa [List.append_assoc] using this

/-- Clause "the generic helper, given pairwise distinct items, returns the two
smallest in order": for every list no two of whose items compare `Equal`,
`best_backup_generic` returns nothing for the empty list; otherwise the
smallest item `b`; no backup exactly when there is no other item; otherwise the
backup `k` is another item, `b < k`, and every item other than `b` and `k` is
greater than `k`. -/
theorem generic_two_smallest {cmp : α → α → Ordering} (hw : WeakOrd cmp) (l : List α)
    (hd : l.Pairwise (fun a b => cmp a b ≠ .eq)) :
    match (generic cmp l).best, (generic cmp l).backup with
    | none, k => l = [] ∧ k = none
    | some b, none => b ∈ l ∧ ∀ c ∈ l, c = b
    | some b, some k => b ∈ l ∧ k ∈ l ∧ k ≠ b ∧ cmp b k = .lt ∧ (∀ c ∈ l, c = b ∨ cmp b c = .lt) ∧
        ∀ c ∈ l, c = b ∨ c = k ∨ cmp k c = .lt := by
  have h := foldlG_inv hw l [] ⟨none, none⟩ (by simpa using hd) ⟨rfl, rfl⟩
  simp only [List.nil_append] at h
  unfold GInv at h
  show (match (generic cmp l).best, (generic cmp l).backup with
    | none, k => l = [] ∧ k = none
    | some b, none => b ∈ l ∧ ∀ c ∈ l, c = b
    | some b, some k => b ∈ l ∧ k ∈ l ∧ k ≠ b ∧ cmp b k = .lt ∧ (∀ c ∈ l, c = b ∨ cmp b c = .lt) ∧
        ∀ c ∈ l, c = b ∨ c = k ∨ cmp k c = .lt)
  unfold generic
  cases hb : (List.foldl (stepG cmp) ⟨none, none⟩ l).best with
  | none => rw [hb] at h; exact h
  | some b =>
    rw [hb] at h
    cases hk : (List.foldl (stepG cmp) ⟨none, none⟩ l).backup with
    | none => rw [hk] at h; exact ⟨h.1, h.2.2⟩
    | some k =>
      rw [hk] at h
      obtain ⟨hbl, hmin, hkl, hkb, hkmin⟩ := h
      refine ⟨hbl, hkl, hkb, ?_, hmin, hkmin⟩
      rcases hmin k hkl with e | e
      · exact absurd e hkb
      · exact e

example : (generic (fun (a b : Nat) => compare a b) [5, 3, 9, 4]).best = some 3 ∧
    (generic (fun (a b : Nat) => compare a b) [5, 3, 9, 4]).backup = some 4 := by decide

/-! ## instances for `OrdRoute` -/

open Rc.PathSel Rc.Thm.C10

/-- route content = `inner()` = the whole record -/
abbrev routeContent (r : CRoute) : Route := r.1

private theorem skipMed_respects : RespectsContent (fun (a b : CRoute) => cmpP .skipMed a.1 b.1) routeContent := by
  intro a b e
  have : a = b := Subtype.ext e
  subst this
  exact skipMed_weak_order.refl a

/-- C11 for `OrdRoute<SkipMed>`: for every list of constructed routes, in every
order, `best_backup` returns a best that is a minimum and equals `best()`, and
a backup that satisfies the statement. -/
theorem skipMed_best_backup (l : List CRoute) :
    let c := fun (a b : CRoute) => cmpP .skipMed a.1 b.1
    (bestBackup c routeContent l).1 = best c l ∧
    match (bestBackup c routeContent l).1 with
    | none => l = []
    | some b => Spec c routeContent l b (bestBackup c routeContent l).2 := by
  intro c
  rw [bestBackup_eq_run]
  refine ⟨best_eq_single_best skipMed_weak_order l, ?_⟩
  cases hb : (run c routeContent l).best with
  | none => exact (best_none_iff skipMed_weak_order skipMed_respects l).1 hb
  | some b => exact best_backup_spec skipMed_weak_order skipMed_respects l hb

/-- ... and presenting the same routes in another order changes neither the
presence nor the preference class of the backup. -/
theorem skipMed_backup_order_independent {l l' : List CRoute} (hp : l.Perm l') :
    let c := fun (a b : CRoute) => cmpP .skipMed a.1 b.1
    ((bestBackup c routeContent l).2 = none ↔ (bestBackup c routeContent l').2 = none) ∧
    ∀ x y, (bestBackup c routeContent l).2 = some x → (bestBackup c routeContent l').2 = some y → c x y = .eq := by
  intro c
  rw [bestBackup_eq_run, bestBackup_eq_run]
  exact backup_class_perm_invariant skipMed_weak_order skipMed_respects hp

private def wit (nbr med id : Nat) : Route :=
  { ibgp := false, dop := none, localPref := none, path := Slot.val [Hop.asn nbr, Hop.asn 20], origin := Slot.val 0,
    med := some med, localAsn := 65000, originatorId := none, bgpId := id, clusterLen := none, peerV6 := false,
    peerAddr := 1, extra := 0 }

/-- The weak-order hypothesis cannot be dropped for `OrdRoute<Rfc4271>`: there
are three constructed routes every one of which has another one preferred over
it (A < C < B < A), so NO selection can return "a route no candidate is
preferred over" from them.  Nothing is silently weakened: for Rfc4271 the
theorems above apply to exactly those candidate sets on which the MED step
happens to be transitive. -/
theorem rfc4271_cycle_no_best :
    ∃ l : List CRoute, l ≠ [] ∧ ∀ x ∈ l, ∃ y ∈ l, cmpP .rfc4271 y.1 x.1 = .lt := by
  let a : CRoute := ⟨wit 10 20 1, by decide⟩
  let b : CRoute := ⟨wit 10 10 3, by decide⟩
  let c : CRoute := ⟨wit 30 0 2, by decide⟩
  refine ⟨[a, b, c], by simp, ?_⟩
  intro x hx
  simp only [List.mem_cons, List.mem_nil_iff, or_false] at hx
  rcases hx with rfl | rfl | rfl
  · exact ⟨b, by simp, by decide⟩
  · exact ⟨c, by simp, by decide⟩
  · exact ⟨a, by simp, by decide⟩

end Rc.Thm.C11
