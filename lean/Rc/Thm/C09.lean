/-
C09 – BGP stream framing is chunking-invariant and survives bad length fields.

Theorems about the model in `Rc/Model/Framing.lean` (which mirrors routecore after the
fixes F11, F12, F23, F23b).  The per-type message decoders are an abstract function
(`dec` / `body`); wherever "no panic" is claimed, their totality is an explicit hypothesis
(`∀ b, body b ≠ .panic`) – that hypothesis is what C01..C03 are about.

The last section discharges the hypothesis: `Rc/Model/SessionDecode.lean` defines the real
`body` (`Message::from_octets` with the connection's `SessionConfig`, composed from the C02 and
C03 models, then the accessors `handle_msg` / `handle_event` call), `Rc/Lemmas/SessionDecode.lean`
proves it total from `Rc.Thm.C02.parse_total` and `Rc.Thm.C03.{open_decode_total,
open_accessors_total, notif_total, keepalive_total}`, and the `_concrete` theorems below are the
unconditional statements.
-/
import Rc.Model.Framing
import Rc.Lemmas.SessionDecode

namespace Rc.Thm.C09
open Rc Rc.Framing

variable {μ : Type}

/-! ### helper lemmas (private) -/

private theorem getD_append_left (a c : Bytes) (i : Nat) (h : i < a.length) :
    (a ++ c).getD i 0 = a.getD i 0 := by
  simp [List.getD, List.getElem?_append_left h]

private theorem lenField_append (a c : Bytes) (h : 18 ≤ a.length) :
    lenField (a ++ c) = lenField a := by
  unfold lenField
  rw [getD_append_left a c 16 (by omega), getD_append_left a c 17 (by omega)]

private theorem takeN_append_left (n : Nat) (a c : Bytes) (h : n ≤ a.length) :
    takeN n (a ++ c) = some (a.take n, a.drop n ++ c) := by
  unfold takeN
  have h1 : n ≤ a.length + c.length := by omega
  simp [h1, List.take_append_of_le_length h, List.drop_append_of_le_length h]

/-- map the rest buffer of a `parseFrame` result -/
private def extend (c : Bytes) : Outcome (Option (Frame μ × Bytes)) → Outcome (Option (Frame μ × Bytes))
  | .ok (some (f, r)) => .ok (some (f, r ++ c))
  | o => o

/-- Once `parse_frame` has decided (frame, error or panic) more bytes do not change the
decision: only the rest buffer grows. -/
private theorem parseFrame_append (dec : Bytes → Outcome μ) (buf c : Bytes)
    (h : parseFrame dec buf ≠ .ok none) :
    parseFrame dec (buf ++ c) = extend c (parseFrame dec buf) := by
  unfold parseFrame at h ⊢
  by_cases h18 : buf.length < 18
  · simp [h18] at h
  · have h18' : ¬ (buf ++ c).length < 18 := by simp; omega
    simp only [h18, h18', if_false] at h ⊢
    rw [lenField_append buf c (by omega)]
    by_cases hl : lenField buf < 19
    · simp [hl, extend]
    · simp only [hl, if_false] at h ⊢
      cases hs : checkedSub (lenField buf) 18 with
      | none => simp [extend]
      | some need =>
        simp only [hs] at h ⊢
        have hneed : need = lenField buf - 18 := by
          unfold checkedSub at hs; split at hs <;> simp at hs; omega
        by_cases hn : need ≤ buf.length - 18
        · have hn' : need ≤ (buf ++ c).length - 18 := by simp; omega
          have hle : lenField buf ≤ buf.length := by omega
          simp only [hn, hn', if_true] at h ⊢
          rw [takeN_append_left _ _ _ hle]
          have ht : takeN (lenField buf) buf = some (buf.take (lenField buf), buf.drop (lenField buf)) := by
            simp [takeN, hle]
          rw [ht]
          simp only
          cases dec (buf.take (lenField buf)) <;> simp [extend]
        · simp [hn] at h

private theorem drain_none {dec : Bytes → Outcome μ} {buf : Bytes}
    (h : parseFrame dec buf = .ok none) : drain dec buf = ([], .ok buf) := by
  rw [drain]; split <;> simp_all

private theorem drain_err {dec : Bytes → Outcome μ} {buf : Bytes}
    (h : parseFrame dec buf = .err) : drain dec buf = ([], .err) := by
  rw [drain]; split <;> simp_all

private theorem drain_panic {dec : Bytes → Outcome μ} {buf : Bytes}
    (h : parseFrame dec buf = .panic) : drain dec buf = ([], .panic) := by
  rw [drain]; split <;> simp_all

private theorem drain_some {dec : Bytes → Outcome μ} {buf : Bytes} {m : μ} {frame rest : Bytes}
    (h : parseFrame dec buf = .ok (some ((m, frame), rest))) :
    drain dec buf = ((m, frame) :: (drain dec rest).1, (drain dec rest).2) := by
  rw [drain]; split <;> simp_all

/-- continue a run: what `drain` leaves in the buffer gets `c` appended and is drained again -/
private def cont (dec : Bytes → Outcome μ) (c : Bytes) (r : Run μ) : Run μ :=
  match r.2 with
  | .ok rest => (r.1 ++ (drain dec (rest ++ c)).1, (drain dec (rest ++ c)).2)
  | _ => r

/-- KEY LEMMA: draining `buf ++ c` = draining `buf`, appending `c` to what is left, draining
again. -/
private theorem drain_append (dec : Bytes → Outcome μ) (c : Bytes) :
    ∀ (n : Nat) (buf : Bytes), buf.length ≤ n → drain dec (buf ++ c) = cont dec c (drain dec buf) := by
  intro n
  induction n with
  | zero =>
    intro buf hb
    have : parseFrame dec buf = .ok none := by unfold parseFrame; simp; omega
    rw [drain_none this]; simp [cont]
  | succ n ih =>
    intro buf hb
    cases hp : parseFrame dec buf with
    | err =>
      have := parseFrame_append dec buf c (by simp [hp])
      rw [hp] at this
      rw [drain_err hp, drain_err (by simpa [extend] using this)]; simp [cont]
    | panic =>
      have := parseFrame_append dec buf c (by simp [hp])
      rw [hp] at this
      rw [drain_panic hp, drain_panic (by simpa [extend] using this)]; simp [cont]
    | ok o =>
      cases o with
      | none => rw [drain_none hp]; simp [cont]
      | some fr =>
        obtain ⟨⟨m, frame⟩, rest⟩ := fr
        have hlt := parseFrame_rest_lt hp
        have := parseFrame_append dec buf c (by simp [hp])
        rw [hp] at this
        have h2 : parseFrame dec (buf ++ c) = .ok (some ((m, frame), rest ++ c)) := by
          simpa [extend] using this
        rw [drain_some hp, drain_some h2, ih rest (by omega)]
        generalize drain dec rest = r
        obtain ⟨fs, e⟩ := r
        cases e <;> simp [cont]

/-- what is left after a drain needs more bytes: draining it again yields nothing -/
private theorem drain_rest_stuck (dec : Bytes → Outcome μ) :
    ∀ (n : Nat) (buf rest : Bytes), buf.length ≤ n → (drain dec buf).2 = .ok rest →
      drain dec rest = ([], .ok rest) := by
  intro n
  induction n with
  | zero =>
    intro buf rest hb h
    have hp : parseFrame dec buf = .ok none := by unfold parseFrame; simp; omega
    rw [drain_none hp] at h
    simp at h; subst h
    exact drain_none hp
  | succ n ih =>
    intro buf rest hb h
    cases hp : parseFrame dec buf with
    | err => rw [drain_err hp] at h; simp at h
    | panic => rw [drain_panic hp] at h; simp at h
    | ok o =>
      cases o with
      | none =>
        rw [drain_none hp] at h; simp at h; subst h; exact drain_none hp
      | some fr =>
        obtain ⟨⟨m, frame⟩, r⟩ := fr
        have hlt := parseFrame_rest_lt hp
        rw [drain_some hp] at h
        exact ih r rest (by omega) h

private theorem foldl_feed_stopped (dec : Bytes → Outcome μ) (fs : List (Frame μ)) (e : Outcome Bytes)
    (he : ∀ b, e ≠ .ok b) (cs : List Bytes) : cs.foldl (feed dec) (fs, e) = (fs, e) := by
  induction cs with
  | nil => rfl
  | cons c cs ih =>
    simp only [List.foldl_cons]
    have : feed dec (fs, e) c = (fs, e) := by
      unfold feed
      cases e with
      | ok b => exact absurd rfl (he b)
      | err => rfl
      | panic => rfl
    rw [this, ih]

/-- generalised chunking invariance: from a buffer that needs more bytes -/
private theorem foldl_feed_eq (dec : Bytes → Outcome μ) :
    ∀ (cs : List Bytes) (fs : List (Frame μ)) (b : Bytes), drain dec b = ([], .ok b) →
      cs.foldl (feed dec) (fs, .ok b) =
        (fs ++ (drain dec (b ++ cs.flatten)).1, (drain dec (b ++ cs.flatten)).2) := by
  intro cs
  induction cs with
  | nil => intro fs b hb; simp [hb]
  | cons c cs ih =>
    intro fs b hb
    simp only [List.foldl_cons, List.flatten_cons]
    have hstep : feed dec (fs, .ok b) c = (fs ++ (drain dec (b ++ c)).1, (drain dec (b ++ c)).2) := by
      simp [feed]
    rw [hstep, ← List.append_assoc b c, drain_append dec cs.flatten _ (b ++ c) (Nat.le_refl _)]
    unfold cont
    cases hr : (drain dec (b ++ c)).2 with
    | ok r =>
      have hstuck := drain_rest_stuck dec _ (b ++ c) r (Nat.le_refl _) hr
      rw [ih _ r hstuck]
      simp [List.append_assoc]
    | err =>
      rw [foldl_feed_stopped dec _ _ (by simp) cs]; simp [hr]
    | panic =>
      rw [foldl_feed_stopped dec _ _ (by simp) cs]; simp [hr]

private theorem drain_nil (dec : Bytes → Outcome μ) : drain dec [] = ([], .ok []) :=
  drain_none (by simp [parseFrame])

/-! ### property theorems -/

/-- **Chunking invariance, general form** (clause 1 for *arbitrary* byte streams, well-formed
or not): however the peer's byte stream is split into socket reads, the frames handed to the
FSM, the bytes each one consumed, and the way the stream ends (bytes still buffered / error /
panic) are those of the unsplit stream. -/
theorem feedAll_eq_drain_flatten (dec : Bytes → Outcome μ) (chunks : List Bytes) :
    feedAll dec chunks = drain dec chunks.flatten := by
  unfold feedAll
  rw [foldl_feed_eq dec chunks [] [] (drain_nil dec)]
  simp

/-- Two chunkings of the same byte stream cannot be told apart. -/
theorem chunking_irrelevant (dec : Bytes → Outcome μ) (c₁ c₂ : List (Bytes))
    (h : c₁.flatten = c₂.flatten) : feedAll dec c₁ = feedAll dec c₂ := by
  rw [feedAll_eq_drain_flatten, feedAll_eq_drain_flatten, h]

/-- Prompt delivery: after the first `k` reads the session has extracted exactly what the
unsplit prefix of the stream yields – a frame is handed over in the read that completes it. -/
theorem prompt_delivery (dec : Bytes → Outcome μ) (chunks : List Bytes) (k : Nat) :
    feedAll dec (chunks.take k) = drain dec (chunks.take k).flatten :=
  feedAll_eq_drain_flatten dec _

/-- A message as the property means it: a frame of 19..65535 bytes whose length field says
its length, and which the message decoder accepts. -/
def WfFrame (dec : Bytes → Outcome μ) (v : μ) (m : Bytes) : Prop :=
  19 ≤ m.length ∧ lenField m = m.length ∧ dec m = .ok v

private theorem parseFrame_wf (dec : Bytes → Outcome μ) (v : μ) (m tail : Bytes)
    (h : WfFrame dec v m) : parseFrame dec (m ++ tail) = .ok (some ((v, m), tail)) := by
  obtain ⟨h19, hlen, hdec⟩ := h
  unfold parseFrame
  have h18 : ¬ (m ++ tail).length < 18 := by simp; omega
  simp only [h18, if_false]
  rw [lenField_append m tail (by omega), hlen]
  have : ¬ m.length < 19 := by omega
  simp only [this, if_false]
  have hs : checkedSub m.length 18 = some (m.length - 18) := by simp [checkedSub]; omega
  rw [hs]
  have hn : m.length - 18 ≤ (m ++ tail).length - 18 := by simp; omega
  simp only [hn, if_true, takeN_append m tail, hdec]

/-- the unsplit stream of well-formed messages is cut into exactly those messages -/
private theorem drain_msgs (dec : Bytes → Outcome μ) :
    ∀ (msgs : List (μ × Bytes)), (∀ p ∈ msgs, WfFrame dec p.1 p.2) →
      drain dec (msgs.map (·.2)).flatten = (msgs, .ok []) := by
  intro msgs
  induction msgs with
  | nil => intro _; simpa using drain_nil dec
  | cons p ps ih =>
    intro h
    obtain ⟨v, m⟩ := p
    have hp := parseFrame_wf dec v m (ps.map (·.2)).flatten (h (v, m) (by simp))
    simp only [List.map_cons, List.flatten_cons]
    rw [drain_some hp, ih (fun q hq => h q (by simp [hq]))]

/-- **Clause 1 of C09.** For every sequence of messages (each with the value `v` the decoder
gives it) and every way `chunks` of splitting their concatenation into reads – every split
point, one-byte reads, a header split across reads (an empty chunk is a push of nothing; a 0-byte socket read is EOF in
`read_frame` and is not a chunk) – the session extracts exactly
that sequence: each message once, in order, each consuming exactly its own bytes (the second
component of a frame is the byte string cut from the buffer), and nothing is left over. -/
theorem chunking_invariant (dec : Bytes → Outcome μ) (msgs : List (μ × Bytes)) (chunks : List Bytes)
    (hwf : ∀ p ∈ msgs, WfFrame dec p.1 p.2)
    (hsplit : chunks.flatten = (msgs.map (·.2)).flatten) :
    feedAll dec chunks = (msgs, .ok []) := by
  rw [feedAll_eq_drain_flatten, hsplit, drain_msgs dec msgs hwf]

/-- **Clause 2a.** A header whose length field is below the 19-byte minimum is an error as soon
as the 18 bytes carrying it are buffered – whatever the marker, the type, the decoder. (Before
fix F12 this was `.panic` for `len < 18`.) -/
theorem short_len_is_error (dec : Bytes → Outcome μ) (buf : Bytes)
    (h18 : 18 ≤ buf.length) (hlen : lenField buf < 19) : parseFrame dec buf = .err := by
  unfold parseFrame
  have : ¬ buf.length < 18 := by omega
  simp [this, hlen]

/-- ... and it ends the session: the run stops with `err`, no frame is delivered from that
buffer, and later reads change nothing. -/
theorem short_len_ends_session (dec : Bytes → Outcome μ) (buf : Bytes) (later : List Bytes)
    (h18 : 18 ≤ buf.length) (hlen : lenField buf < 19) :
    feedAll dec (buf :: later) = ([], .err) := by
  have hd : drain dec buf = ([], .err) := drain_err (short_len_is_error dec buf h18 hlen)
  unfold feedAll
  simp only [List.foldl_cons]
  have : feed dec ([], .ok []) buf = ([], .err) := by simp [feed, hd]
  rw [this, foldl_feed_stopped dec _ _ (by simp) later]

/-- **Clause 2b (as the code defines it).** The marker is validated by `Message::from_octets`
(`Header::parse` → `Marker::check`), i.e. on the frame *after* `parse_frame` has cut it: a
complete frame with a wrong marker is an error, for every `body` decoder. -/
theorem bad_marker_is_error (body : Bytes → Outcome WireMsg) (buf : Bytes)
    (hlen : 19 ≤ lenField buf) (hcomplete : lenField buf ≤ buf.length)
    (hmarker : buf.take 16 ≠ marker) :
    parseFrame (decodeMsg body) buf = .err := by
  unfold parseFrame
  have h1 : ¬ buf.length < 18 := by omega
  have h2 : ¬ lenField buf < 19 := by omega
  simp only [h1, h2, if_false]
  have hs : checkedSub (lenField buf) 18 = some (lenField buf - 18) := by simp [checkedSub]; omega
  rw [hs]
  have hn : lenField buf - 18 ≤ buf.length - 18 := by omega
  simp only [hn, if_true]
  have ht : takeN (lenField buf) buf = some (buf.take (lenField buf), buf.drop (lenField buf)) := by
    simp [takeN, hcomplete]
  have hdec : decodeMsg body (buf.take (lenField buf)) = .err := by
    unfold decodeMsg
    have hl : ¬ (buf.take (lenField buf)).length < 16 := by simp; omega
    have hm : (buf.take (lenField buf)).take 16 ≠ marker := by
      rw [List.take_take]
      have : min 16 (lenField buf) = 16 := by omega
      rw [this]; exact hmarker
    simp [hm]
  simp only [ht, hdec]

/-- The other half of "as the code defines it": while the frame announced by the length field
is incomplete, `parse_frame` answers "need more bytes" – a wrong marker is *not* noticed
before `len` bytes have arrived. -/
theorem bad_marker_waits_for_frame (dec : Bytes → Outcome μ) (buf : Bytes)
    (hlen : 19 ≤ lenField buf) (hincomplete : buf.length < lenField buf) :
    parseFrame dec buf = .ok none := by
  unfold parseFrame
  by_cases h1 : buf.length < 18
  · simp [h1]
  · have h2 : ¬ lenField buf < 19 := by omega
    simp only [h1, h2, if_false]
    have hs : checkedSub (lenField buf) 18 = some (lenField buf - 18) := by simp [checkedSub]; omega
    rw [hs]
    have hn : ¬ lenField buf - 18 ≤ buf.length - 18 := by omega
    simp [hn]

/-- the unsplit stream of well-formed messages followed by anything: the messages are cut off,
then the tail is drained -/
private theorem drain_msgs_then (dec : Bytes → Outcome μ) (tail : Bytes) :
    ∀ (msgs : List (μ × Bytes)), (∀ p ∈ msgs, WfFrame dec p.1 p.2) →
      drain dec ((msgs.map (·.2)).flatten ++ tail) = (msgs ++ (drain dec tail).1, (drain dec tail).2) := by
  intro msgs
  induction msgs with
  | nil => intro _; simp
  | cons p ps ih =>
    intro h
    obtain ⟨v, m⟩ := p
    have hp := parseFrame_wf dec v m ((ps.map (·.2)).flatten ++ tail) (h (v, m) (by simp))
    simp only [List.map_cons, List.flatten_cons, List.append_assoc]
    rw [drain_some hp, ih (fun q hq => h q (by simp [hq]))]
    simp

/-- **Clause 1, for a stream that does not consist of messages only.** Whatever follows a
sequence of messages on the wire (`tail`: garbage, a damaged header, a frame the decoder refuses,
half a message) and however the whole is split into reads: exactly the messages are extracted
first – each once, in order, each with exactly its bytes – and then the run goes on as the tail
alone would. -/
theorem messages_then_tail (dec : Bytes → Outcome μ) (msgs : List (μ × Bytes)) (tail : Bytes)
    (chunks : List Bytes) (hwf : ∀ p ∈ msgs, WfFrame dec p.1 p.2)
    (hsplit : chunks.flatten = (msgs.map (·.2)).flatten ++ tail) :
    feedAll dec chunks = (msgs ++ (drain dec tail).1, (drain dec tail).2) := by
  rw [feedAll_eq_drain_flatten, hsplit, drain_msgs_then dec tail msgs hwf]

/-- **What "a BGP message" means in clause 1 (disclosed narrowing).** `WfFrame` asks that the
decoder accepts the frame. A length-consistent frame the decoder REFUSES – with the real decoder:
a ROUTE-REFRESH (RFC 2918), any unknown type, any OPEN / UPDATE / NOTIFICATION / KEEPALIVE that
`Message::from_octets` rejects – ends the session with an error at that point, for every
chunking: the messages before it are delivered, it and everything after it are not. -/
theorem refused_frame_ends_session (dec : Bytes → Outcome μ) (msgs : List (μ × Bytes)) (m tail : Bytes)
    (chunks : List Bytes) (hwf : ∀ p ∈ msgs, WfFrame dec p.1 p.2)
    (h19 : 19 ≤ m.length) (hlen : lenField m = m.length) (hdec : dec m = .err)
    (hsplit : chunks.flatten = (msgs.map (·.2)).flatten ++ (m ++ tail)) :
    feedAll dec chunks = (msgs, .err) := by
  rw [messages_then_tail dec msgs (m ++ tail) chunks hwf hsplit]
  have hp : parseFrame dec (m ++ tail) = .err := by
    unfold parseFrame
    have h18 : ¬ (m ++ tail).length < 18 := by simp; omega
    simp only [h18, if_false]
    rw [lenField_append m tail (by omega), hlen]
    have : ¬ m.length < 19 := by omega
    simp only [this, if_false]
    have hs : checkedSub m.length 18 = some (m.length - 18) := by simp [checkedSub]; omega
    rw [hs]
    have hn : m.length - 18 ≤ (m ++ tail).length - 18 := by simp; omega
    simp only [hn, if_true, takeN_append m tail, hdec]
  rw [drain_err hp]; simp

/-- `Message::from_octets` refuses every frame whose type octet is not 1..4 – in particular a
ROUTE-REFRESH (type 5) – whatever the per-type decoders are. With `refused_frame_ends_session`:
a peer that sends a ROUTE-REFRESH ends the session with an error (the crate never advertises the
route-refresh capability). -/
theorem route_refresh_is_refused (body : Bytes → Outcome WireMsg) (f : Bytes)
    (ht : (f.getD 18 0).toNat ≠ 1 ∧ (f.getD 18 0).toNat ≠ 2 ∧ (f.getD 18 0).toNat ≠ 3 ∧ (f.getD 18 0).toNat ≠ 4) :
    decodeMsg body f = .err := by
  unfold decodeMsg
  split
  · rfl
  · split
    · rfl
    · split
      · rfl
      · split
        · rfl
        · rw [if_neg]
          rintro (h | h | h | h)
          · exact ht.1 h
          · exact ht.2.1 h
          · exact ht.2.2.1 h
          · exact ht.2.2.2 h

/-- **Clause 2b, for the code as it is, on a whole stream.** `s` is what the peer sends from a
frame boundary on: its 18 header octets are there, the length field is at least 19, the marker is
wrong. Then for EVERY chunking nothing from `s` is ever handed to the FSM, and the run ends in an
error exactly when the octets announced by the length field have arrived; until then the session
keeps waiting with all of `s` buffered (`bad_marker_waits_for_frame`). "Ends the session with an
error" is therefore proved in this form: the session can never get past the bad header, and it
fails – never panics – as soon as `lenField s` octets are there; it is NOT proved (and false for
the code, which validates the marker only in `Message::from_octets`) that the error is raised as
soon as the header is buffered. -/
theorem bad_marker_ends_session (body : Bytes → Outcome WireMsg) (msgs : List (WireMsg × Bytes))
    (s : Bytes) (chunks : List Bytes) (hwf : ∀ p ∈ msgs, WfFrame (decodeMsg body) p.1 p.2)
    (_h18 : 18 ≤ s.length) (hlen : 19 ≤ lenField s) (hmarker : s.take 16 ≠ marker)
    (hsplit : chunks.flatten = (msgs.map (·.2)).flatten ++ s) :
    feedAll (decodeMsg body) chunks = (msgs, if lenField s ≤ s.length then .err else .ok s) := by
  rw [messages_then_tail (decodeMsg body) msgs s chunks hwf hsplit]
  by_cases hc : lenField s ≤ s.length
  · rw [drain_err (bad_marker_is_error body s hlen hc hmarker)]; simp [hc]
  · rw [drain_none (bad_marker_waits_for_frame (decodeMsg body) s hlen (by omega))]; simp [hc]

/-- `parse_frame` itself has no reachable panic: the checked subtraction is guarded by the
`len < 19` test and the slice by the `remaining` test. Any panic is the decoder's. -/
theorem parseFrame_ne_panic (dec : Bytes → Outcome μ) (hdec : ∀ b, dec b ≠ .panic) (buf : Bytes) :
    parseFrame dec buf ≠ .panic := by
  unfold parseFrame
  by_cases h1 : buf.length < 18
  · simp [h1]
  · simp only [h1, if_false]
    by_cases h2 : lenField buf < 19
    · simp [h2]
    · simp only [h2, if_false]
      have hs : checkedSub (lenField buf) 18 = some (lenField buf - 18) := by simp [checkedSub]; omega
      rw [hs]
      by_cases hn : lenField buf - 18 ≤ buf.length - 18
      · have hle : lenField buf ≤ buf.length := by omega
        have ht : takeN (lenField buf) buf = some (buf.take (lenField buf), buf.drop (lenField buf)) := by
          simp [takeN, hle]
        simp only [hn, if_true, ht]
        cases hd : dec (buf.take (lenField buf)) with
        | ok m => simp
        | err => simp
        | panic => exact absurd hd (hdec _)
      · simp [hn]

private theorem drain_ne_panic (dec : Bytes → Outcome μ) (hdec : ∀ b, dec b ≠ .panic) :
    ∀ (n : Nat) (buf : Bytes), buf.length ≤ n → (drain dec buf).2 ≠ .panic := by
  intro n
  induction n with
  | zero =>
    intro buf hb
    have hp : parseFrame dec buf = .ok none := by unfold parseFrame; simp; omega
    rw [drain_none hp]; simp
  | succ n ih =>
    intro buf hb
    cases hp : parseFrame dec buf with
    | err => rw [drain_err hp]; simp
    | panic => exact absurd hp (parseFrame_ne_panic dec hdec buf)
    | ok o =>
      cases o with
      | none => rw [drain_none hp]; simp
      | some fr =>
        obtain ⟨⟨m, frame⟩, r⟩ := fr
        have hlt := parseFrame_rest_lt hp
        rw [drain_some hp]
        exact ih r (by omega)

/-- **Clause 4, framing side.** For every byte stream and every chunking, the frame extractor
does not panic (given a total decoder). -/
theorem feedAll_ne_panic (dec : Bytes → Outcome μ) (hdec : ∀ b, dec b ≠ .panic) (chunks : List Bytes) :
    (feedAll dec chunks).2 ≠ .panic := by
  rw [feedAll_eq_drain_flatten]
  exact drain_ne_panic dec hdec _ _ (Nat.le_refl _)

/-- `Message::from_octets` adds no panic of its own to the per-type decoders. -/
theorem decodeMsg_ne_panic (body : Bytes → Outcome WireMsg) (hbody : ∀ b, body b ≠ .panic) (f : Bytes) :
    decodeMsg body f ≠ .panic := by
  unfold decodeMsg
  split
  · simp
  · split
    · simp
    · split
      · simp
      · split
        · simp
        · simp only
          split
          · exact hbody f
          · simp

/-! ### the blocking reader -/

private theorem blit_length (buf : Bytes) (off : Nat) (d : Bytes) (h : off + d.length ≤ buf.length) :
    (blit buf off d).length = buf.length := by
  simp [blit]; omega

private theorem readExact_length (r : Reader) (buf : Bytes) (off n : Nat) (h : off + n ≤ buf.length) :
    (readExact r buf off n).2.2.length = buf.length := by
  unfold readExact
  split
  · rename_i hn
    apply blit_length; simp; omega
  · split
    · rename_i hn _
      apply blit_length; omega
    · rfl

/-- **Clause 3.** The blocking frame reader `read_message` returns a frame, `None` or an error
– never panics – for every reader content (hence for all 65536 values of the length field),
every reader kind and every content of the caller's 4096-byte buffer. (Before fix F11:
`.panic` for `len < 18` and for `len > 4096`.) -/
theorem read_message_total (r : Reader) (buf : Bytes) (hbuf : buf.length = 4096) :
    (readMessage r buf).1 ≠ .panic := by
  unfold readMessage
  have h0 : ¬ buf.length < 18 := by omega
  simp only [h0, if_false]
  have hl1 : (readExact r buf 0 18).2.2.length = 4096 := by
    rw [readExact_length r buf 0 18 (by omega), hbuf]
  generalize readExact r buf 0 18 = x at hl1 ⊢
  obtain ⟨ok1, r1, b1⟩ := x
  simp only at hl1 ⊢
  cases ok1 with
  | false => simp
  | true =>
    simp only [Bool.not_true, Bool.false_eq_true, if_false]
    by_cases ha : lenField b1 < 19
    · simp [ha]
    · by_cases hb : lenField b1 > 4096
      · simp [ha, hb]
      · have hc : 18 ≤ lenField b1 ∧ lenField b1 ≤ b1.length := by omega
        simp only [ha, hb, hc, if_false, and_self, not_true_eq_false]
        simp

/-- The reader's verdict on the length field, spelled out: below 19 or above 4096 is an error
once 18 bytes could be read. -/
theorem read_message_bad_len (r : Reader) (buf : Bytes) (hbuf : buf.length = 4096)
    (h18 : 18 ≤ r.data.length) (hlen : lenField r.data < 19 ∨ 4096 < lenField r.data) :
    (readMessage r buf).1 = .err := by
  unfold readMessage
  have h0 : ¬ buf.length < 18 := by omega
  simp only [h0, if_false]
  have hre : readExact r buf 0 18 = (true, { r with data := r.data.drop 18 }, blit buf 0 (r.data.take 18)) := by
    simp [readExact, h18]
  rw [hre]
  simp only [Bool.not_true, Bool.false_eq_true, if_false]
  have hlf : lenField (blit buf 0 (r.data.take 18)) = lenField r.data := by
    unfold lenField blit
    have e : ∀ i, i < 18 → (List.take 0 buf ++ List.take 18 r.data ++ List.drop (0 + (List.take 18 r.data).length) buf).getD i 0
        = r.data.getD i 0 := by
      intro i hi
      simp only [List.take_zero, List.nil_append]
      have hlen : (List.take 18 r.data).length = 18 := by simp; omega
      rw [getD_append_left _ _ i (by omega)]
      simp [List.getD, hi]
    rw [e 16 (by omega), e 17 (by omega)]
  rw [hlf]
  rcases hlen with h | h
  · simp [h]
  · have : ¬ lenField r.data < 19 := by omega
    simp [this, h]

private theorem readExact_ok (r : Reader) (buf : Bytes) (off n : Nat) (h : n ≤ r.data.length) :
    readExact r buf off n = (true, { r with data := r.data.drop n }, blit buf off (r.data.take n)) := by
  unfold readExact; rw [if_pos h]

private theorem lenField_take18 (f : Bytes) (h : 18 ≤ f.length) : lenField (f.take 18) = lenField f := by
  have : f = f.take 18 ++ f.drop 18 := (List.take_append_drop 18 f).symm
  conv => rhs; rw [this]
  rw [lenField_append _ _ (by simp; omega)]

/-- A well-formed frame at the head of the stream is returned exactly, and the reader is left
at the first byte after it – for both reader kinds. -/
theorem read_message_frame (pc : Bool) (frame tail buf : Bytes) (hbuf : buf.length = 4096)
    (h19 : 19 ≤ frame.length) (h4096 : frame.length ≤ 4096) (hlen : lenField frame = frame.length) :
    (readMessage { data := frame ++ tail, partialCopy := pc } buf).1 = .ok (some frame) ∧
    (readMessage { data := frame ++ tail, partialCopy := pc } buf).2.1.data = tail := by
  unfold readMessage
  have h0 : ¬ buf.length < 18 := by omega
  simp only [h0, if_false]
  rw [readExact_ok _ _ _ _ (by show 18 ≤ (frame ++ tail).length; simp; omega)]
  have htake : (frame ++ tail).take 18 = frame.take 18 := List.take_append_of_le_length (by omega)
  have hdrop : (frame ++ tail).drop 18 = frame.drop 18 ++ tail := List.drop_append_of_le_length (by omega)
  have hb1 : blit buf 0 (frame.take 18) = frame.take 18 ++ buf.drop 18 := by
    have : (List.take 18 frame).length = 18 := by simp; omega
    simp [blit, this]
  simp only [htake, hdrop, hb1, Bool.not_true, Bool.false_eq_true, if_false]
  have hlf : lenField (frame.take 18 ++ buf.drop 18) = frame.length := by
    rw [lenField_append _ _ (by simp; omega), lenField_take18 _ (by omega), hlen]
  have hl1 : (frame.take 18 ++ buf.drop 18).length = 4096 := by simp; omega
  have c1 : ¬ frame.length < 19 := by omega
  have c2 : ¬ frame.length > 4096 := by omega
  have c3 : 18 ≤ frame.length ∧ frame.length ≤ (frame.take 18 ++ buf.drop 18).length := by omega
  simp only [hlf, c1, c2, c3, if_false, and_self, not_true_eq_false]
  rw [readExact_ok _ _ _ _ (by show frame.length - 18 ≤ (frame.drop 18 ++ tail).length; simp)]
  have hdl : (frame.drop 18).length = frame.length - 18 := by simp
  have ht2 : (frame.drop 18 ++ tail).take (frame.length - 18) = frame.drop 18 := by
    rw [← hdl, List.take_left']
    rfl
  have hd2 : (frame.drop 18 ++ tail).drop (frame.length - 18) = tail := by
    rw [← hdl, List.drop_left']
    rfl
  have key : List.take frame.length (blit (frame.take 18 ++ buf.drop 18) 18 (frame.drop 18)) = frame := by
    unfold blit
    have htl : (frame.take 18).length = 18 := by simp; omega
    have e1 : (frame.take 18 ++ buf.drop 18).take 18 = frame.take 18 := by
      conv => lhs; arg 1; rw [← htl]
      exact List.take_left' rfl
    rw [e1, List.take_append_drop, List.take_append_of_le_length (Nat.le_refl _), List.take_length]
  simp only [ht2, hd2, key, and_self]

private theorem readExact_pc (r : Reader) (buf : Bytes) (off n : Nat) :
    (readExact r buf off n).2.1.partialCopy = r.partialCopy := by
  unfold readExact; split
  · rfl
  · split <;> rfl

/-- `read_message` keeps the reader kind and the size of the caller's buffer -/
private theorem readMessage_keeps (r : Reader) (buf : Bytes) (hbuf : buf.length = 4096) :
    (readMessage r buf).2.1.partialCopy = r.partialCopy ∧ (readMessage r buf).2.2.length = 4096 := by
  unfold readMessage
  have h0 : ¬ buf.length < 18 := by omega
  simp only [h0, if_false]
  have hl1 : (readExact r buf 0 18).2.2.length = 4096 := by
    rw [readExact_length r buf 0 18 (by omega), hbuf]
  have hp1 := readExact_pc r buf 0 18
  generalize readExact r buf 0 18 = x at hl1 hp1 ⊢
  obtain ⟨ok1, r1, b1⟩ := x
  simp only at hl1 hp1 ⊢
  cases ok1 with
  | false => simp [hp1, hl1]
  | true =>
    simp only [Bool.not_true, Bool.false_eq_true, if_false]
    by_cases ha : lenField b1 < 19
    · simp [ha, hp1, hl1]
    · by_cases hb : lenField b1 > 4096
      · simp [ha, hb, hp1, hl1]
      · have hc : 18 ≤ lenField b1 ∧ lenField b1 ≤ b1.length := by omega
        simp only [ha, hb, hc, if_false, and_self, not_true_eq_false]
        have hl2 := readExact_length r1 b1 18 (lenField b1 - 18) (by omega)
        have hp2 := readExact_pc r1 b1 18 (lenField b1 - 18)
        generalize readExact r1 b1 18 (lenField b1 - 18) = y at hl2 hp2 ⊢
        obtain ⟨ok2, r2, b2⟩ := y
        simp only at hl2 hp2 ⊢
        exact ⟨by rw [hp2, hp1], by rw [hl2, hl1]⟩

/-- The blocking reader on a whole stream: a sequence of well-formed frames of at most 4096
bytes is returned frame by frame, exactly and in order, followed by `Ok(None)` at the end of
the stream – for both reader kinds and whatever the buffer held before. -/
theorem read_messages_stream (pc : Bool) :
    ∀ (frames : List Bytes) (buf : Bytes) (n : Nat), buf.length = 4096 →
      (∀ f ∈ frames, 19 ≤ f.length ∧ f.length ≤ 4096 ∧ lenField f = f.length) →
      frames.length < n →
      readMessages n { data := frames.flatten, partialCopy := pc } buf
        = frames.map (fun f => .ok (some f)) ++ [.ok none] := by
  intro frames
  induction frames with
  | nil =>
    intro buf n hbuf _ hn
    cases n with
    | zero => omega
    | succ n =>
      have : readMessage { data := [], partialCopy := pc } buf
          = (.ok none, (readExact { data := [], partialCopy := pc } buf 0 18).2.1,
             (readExact { data := [], partialCopy := pc } buf 0 18).2.2) := by
        unfold readMessage
        have h0 : ¬ buf.length < 18 := by omega
        simp only [h0, if_false]
        have : (readExact { data := [], partialCopy := pc } buf 0 18).1 = false := by
          simp [readExact]; split <;> rfl
        generalize readExact { data := [], partialCopy := pc } buf 0 18 = x at this ⊢
        obtain ⟨a, b, c⟩ := x
        simp only at this; subst this
        simp
      simp only [List.flatten_nil, readMessages, this, List.map_nil, List.nil_append]
  | cons f fs ih =>
    intro buf n hbuf hwf hn
    cases n with
    | zero => simp at hn
    | succ n =>
      obtain ⟨h19, h4096, hlen⟩ := hwf f (by simp)
      have hf := read_message_frame pc f fs.flatten buf hbuf h19 h4096 hlen
      have hk := readMessage_keeps { data := f ++ fs.flatten, partialCopy := pc } buf hbuf
      simp only [List.flatten_cons, readMessages]
      generalize readMessage { data := f ++ fs.flatten, partialCopy := pc } buf = x at hf hk ⊢
      obtain ⟨o, r', b'⟩ := x
      simp only at hf hk
      obtain ⟨ho, hd⟩ := hf
      subst ho
      have hr' : r' = { data := fs.flatten, partialCopy := pc } := by
        cases r'; simp at hd hk ⊢; exact ⟨hd, hk.1⟩
      subst hr'
      simp only [List.map_cons, List.cons_append]
      rw [ih b' n hk.2 (fun g hg => hwf g (by simp [hg])) (by simp at hn; omega)]

/-! ### the FSM side -/

/-- **The transition table for wire-derived events has no `todo!()` arm and no failing
`unwrap`**: for every state (including `Unimplemented`), both values of "DelayOpenTimer
running" and every decoded message kind (OPEN with allowed / rejected AS and parsable /
unparsable ADD-PATH capability, UPDATE, NOTIFICATION with and without version error, KEEPALIVE,
ROUTE-REFRESH), while the connection the message was read from exists. Decided by evaluating all
7·2·9 entries. NOTE: no branch of `handleMsg` returns `.todo` at all (it holds by construction of the
transcription); the content of the theorem is "`acceptOpen`'s `unwrap` is not reached while a
connection exists", and what ties the table to `handle_msg` / `handle_event` is the exhaustive `hm`
correspondence (7·2·8 rows through `verif_handle_msg` on a real `Session`, panics caught).  With the
real decoder the ROUTE-REFRESH rows are dead (`route_refresh_is_refused`). (Before
fixes F23/F23b: `.todo` for OPEN in OpenConfirm, Established, and Connect with the timer
running – see `handleMsg`.) -/
theorem wire_events_never_todo :
    ∀ (st : St) (d : Bool) (m : WireMsg),
      ∃ ok s' outs, handleMsg { st := st, delayOpen := d, conn := true } m = .done ok s' outs := by
  intro st d m
  cases st <;> cases d <;> cases m <;>
    first
      | exact ⟨_, _, _, rfl⟩
      | (rename_i a b; cases a <;> cases b <;> exact ⟨_, _, _, rfl⟩)
      | (rename_i a; cases a <;> exact ⟨_, _, _, rfl⟩)

/-- A message that is illegal in the current state after the OPEN exchange is answered with the
NOTIFICATION "Finite State Machine Error" and the state's subcode, the connection is dropped
and the FSM goes to Idle (RFC 4271 §6.6, RFC 6608) – in particular a second OPEN (F23). -/
theorem illegal_message_is_fsm_error :
    (∀ d a b, handleMsg ⟨.openConfirm, d, true⟩ (.open a b) = .done true ⟨.idle, d, false⟩ [.notif 5 2]) ∧
    (∀ d a b, handleMsg ⟨.established, d, true⟩ (.open a b) = .done true ⟨.idle, d, false⟩ [.notif 5 3]) ∧
    (∀ d, handleMsg ⟨.openConfirm, d, true⟩ .update = .done true ⟨.idle, d, false⟩ [.notif 5 2]) ∧
    (∀ d, handleMsg ⟨.openSent, d, true⟩ .update = .done true ⟨.idle, d, false⟩ [.notif 5 1]) ∧
    (∀ d, handleMsg ⟨.openSent, d, true⟩ .keepalive = .done true ⟨.idle, d, false⟩ [.notif 5 1]) := by
  refine ⟨?_, ?_, ?_, ?_, ?_⟩ <;> intros <;> rfl

/-- **Clause 4, one tick.** Whatever bytes are buffered and whatever the state, the message
branch of `Session::tick` does not panic – provided the per-type decoders are total
(assumption discharged by C01..C03) and the connection being read exists. -/
theorem wire_cannot_panic_session (body : Bytes → Outcome WireMsg) (hbody : ∀ b, body b ≠ .panic)
    (st : St) (d : Bool) (buf : Bytes) :
    tickMsg body { st := st, delayOpen := d, conn := true } buf ≠ .panic := by
  unfold tickMsg
  have hp := parseFrame_ne_panic (decodeMsg body) (decodeMsg_ne_panic body hbody) buf
  cases h : parseFrame (decodeMsg body) buf with
  | panic => exact absurd h hp
  | err => simp
  | ok o =>
    cases o with
    | none => simp only; split <;> simp
    | some fr =>
      obtain ⟨⟨m, f⟩, rest⟩ := fr
      obtain ⟨ok, s', outs, hh⟩ := wire_events_never_todo st d m
      simp only [hh]
      cases ok <;> simp

/-- **Clause 4, whole stream.** No byte stream from the peer panics the session task: for every
initial state and every buffer content, no tick of the run is a panic (`sessionRun` stops
reading when the connection is dropped, as `tick` does). -/
theorem session_run_never_panics (body : Bytes → Outcome WireMsg) (hbody : ∀ b, body b ≠ .panic) :
    ∀ (n : Nat) (st : St) (d : Bool) (buf : Bytes),
      Tick.panic ∉ (sessionRun body n { st := st, delayOpen := d, conn := true } buf).1 := by
  intro n
  induction n with
  | zero => intro st d buf; simp [sessionRun]
  | succ n ih =>
    intro st d buf
    have hne := wire_cannot_panic_session body hbody st d buf
    unfold sessionRun
    cases ht : tickMsg body { st := st, delayOpen := d, conn := true } buf with
    | panic => exact absurd ht hne
    | readErr => simp
    | eof => simp
    | handled ok s' outs rest =>
      cases ok with
      | false => simp
      | true =>
        simp only
        split
        · rename_i hc
          obtain ⟨st', d', c'⟩ := s'
          simp only at hc
          subst hc
          simp only [List.mem_cons, reduceCtorEq, false_or]
          exact ih st' d' rest
        · simp

/-! ### non-vacuity -/

/-- a KEEPALIVE and a 21-byte NOTIFICATION -/
def exKeepalive : Bytes := marker ++ [0, 19, 4]
def exNotification : Bytes := marker ++ [0, 21, 3, 6, 2]
def exBody (f : Bytes) : Outcome WireMsg :=
  if (f.getD 18 0).toNat = 4 then .ok .keepalive else .ok (.notification false)

/-- the hypotheses of `chunking_invariant` are satisfiable: two real messages, split in the
middle of the first header, inside the second length field, with an empty read in between -/
example :
    let msgs := [(WireMsg.keepalive, exKeepalive), (WireMsg.notification false, exNotification)]
    let chunks : List Bytes := [exKeepalive.take 7, exKeepalive.drop 7 ++ exNotification.take 17, [],
                                exNotification.drop 17]
    (∀ p ∈ msgs, WfFrame (decodeMsg exBody) p.1 p.2) ∧
    chunks.flatten = (msgs.map (·.2)).flatten ∧
    feedAll (decodeMsg exBody) chunks = (msgs, .ok []) := by
  refine ⟨?_, by decide, ?_⟩
  · intro p hp
    simp only [List.mem_cons, List.mem_nil_iff, or_false] at hp
    rcases hp with rfl | rfl <;> refine ⟨by decide, by decide, by decide⟩
  · apply chunking_invariant
    · intro p hp
      simp only [List.mem_cons, List.mem_nil_iff, or_false] at hp
      rcases hp with rfl | rfl <;> refine ⟨by decide, by decide, by decide⟩
    · decide

/-- `refused_frame_ends_session` / `route_refresh_is_refused` on KEEPALIVE ‖ ROUTE-REFRESH ‖ KEEPALIVE, cut
inside the ROUTE-REFRESH: the KEEPALIVE before it is delivered, then the session ends with an error -/
example :
    feedAll (decodeMsg exBody) [exKeepalive ++ marker, [0, 23, 5, 0, 1, 0, 1] ++ exKeepalive]
      = ([(.keepalive, exKeepalive)], .err) := by
  apply refused_frame_ends_session (decodeMsg exBody) [(.keepalive, exKeepalive)]
    (marker ++ [0, 23, 5, 0, 1, 0, 1]) exKeepalive
  · intro p hp
    simp only [List.mem_cons, List.mem_nil_iff, or_false] at hp
    subst hp; exact ⟨by decide, by decide, by decide⟩
  · decide
  · decide
  · exact route_refresh_is_refused exBody _ (by decide)
  · decide

/-- `bad_marker_ends_session`: hypotheses satisfiable in both branches (marker 00.., length 0xffff,
18 octets buffered: the session waits; marker 00.., length 19, 19 octets: error) -/
example : feedAll (decodeMsg exBody) [List.replicate 16 0, [255, 255]]
      = ([], .ok (List.replicate 16 0 ++ [255, 255])) := by
  have h := bad_marker_ends_session exBody [] (List.replicate 16 0 ++ [255, 255])
    [List.replicate 16 0, [255, 255]] (by simp) (by decide) (by decide) (by decide) (by decide)
  rw [h]; decide
example : feedAll (decodeMsg exBody) [List.replicate 16 0, [0, 19, 4]] = ([], .err) := by
  have h := bad_marker_ends_session exBody [] (List.replicate 16 0 ++ [0, 19, 4])
    [List.replicate 16 0, [0, 19, 4]] (by simp) (by decide) (by decide) (by decide) (by decide)
  rw [h]; decide

/-- `short_len_is_error`, `bad_marker_is_error`: hypotheses satisfiable -/
example : 18 ≤ (marker ++ [0, 5]).length ∧ lenField (marker ++ [0, 5]) < 19 := by decide
example : 19 ≤ lenField (List.replicate 16 0 ++ [0, 19, 4]) ∧
    lenField (List.replicate 16 0 ++ [0, 19, 4]) ≤ (List.replicate 16 0 ++ [0, 19, 4]).length ∧
    (List.replicate 16 (0 : UInt8) ++ [0, 19, 4]).take 16 ≠ marker := by decide

/-! ### the decoder-totality hypothesis discharged (composition with C02 and C03) -/

section concrete
open Rc.SessionDecode

/-- **The per-type decoders are total.** For every session configuration (ASN width, ADD-PATH
table, admissible remote AS) and every byte string: `Message::from_octets(bytes, Some(&config))`
followed by the accessors `Session::handle_msg` / `handle_event` call on its result (`my_asn`,
`addpath_families_vec`, `holdtime`, `identifier()[0..4]`, `four_octet_capable`, `details()`)
returns a value or an error and never panics.  This is the hypothesis `hbody` of the theorems
above, proved from C02 `parse_total` and C03 `open_decode_total` / `open_accessors_total` /
`notif_total` / `keepalive_total`. -/
theorem session_decoders_total (sc : SessCfg) (f : Bytes) : sessionBody sc f ≠ .panic :=
  sessionBody_ne_panic sc f

/-- The framing model's own header step (marker, length ≥ 19, type 1..4) and `Header::parse` +
type dispatch as C03 models them are the same function of the frame: putting the concrete
decoder behind `decodeMsg` changes nothing. -/
theorem frame_decoder_is_message_from_octets (sc : SessCfg) (f : Bytes) :
    decodeMsg (sessionBody sc) f = sessionBody sc f :=
  decodeMsg_sessionBody sc f

/-- **Clause 4, framing side, unconditional**: every session configuration, every byte stream,
every chunking. -/
theorem feedAll_ne_panic_concrete (sc : SessCfg) (chunks : List Bytes) :
    (feedAll (decodeMsg (sessionBody sc)) chunks).2 ≠ .panic :=
  feedAll_ne_panic _ (decodeMsg_ne_panic _ (session_decoders_total sc)) chunks

/-- **Clause 4, one tick, unconditional**: for every state, every session configuration and every
byte buffer the message branch of `Session::tick` does not panic. -/
theorem wire_cannot_panic_session_concrete (sc : SessCfg) (st : St) (d : Bool) (buf : Bytes) :
    tickMsg (sessionBody sc) { st := st, delayOpen := d, conn := true } buf ≠ .panic :=
  wire_cannot_panic_session _ (session_decoders_total sc) st d buf

/-- **Clause 4, whole stream, unconditional**: no byte stream from the peer panics the session
task, whatever the state it starts in and whatever the session configuration. -/
theorem session_run_never_panics_concrete (sc : SessCfg) (n : Nat) (st : St) (d : Bool) (buf : Bytes) :
    Tick.panic ∉ (sessionRun (sessionBody sc) n { st := st, delayOpen := d, conn := true } buf).1 :=
  session_run_never_panics _ (session_decoders_total sc) n st d buf

/-- `sessionRunV` with a constant schedule is `sessionRun` -/
theorem sessionRunV_const (body : Bytes → Outcome WireMsg) :
    ∀ (n : Nat) (s : Sess) (buf : Bytes), sessionRunV (fun _ => body) n s buf = sessionRun body n s buf := by
  intro n
  induction n with
  | zero => intro s buf; rfl
  | succ n ih =>
    intro s buf
    unfold sessionRunV sessionRun
    cases tickMsg body s buf with
    | handled ok s' outs rest => cases ok <;> simp [ih]
    | _ => rfl

/-- **Clause 4 with a configuration that changes during the session.** The OPEN-accepting arms
rewrite `Connection::session_config` (`set_four_octet_asns`, `add_famdir`), so later frames are
decoded under another configuration than earlier ones.  Whatever configuration is in force at
each tick (`scAt`: an arbitrary schedule), no tick of the run is a panic. -/
theorem session_run_never_panics_any_config (scAt : Nat → SessCfg) :
    ∀ (n : Nat) (st : St) (d : Bool) (buf : Bytes),
      Tick.panic ∉ (sessionRunV (fun k => sessionBody (scAt k)) n
        { st := st, delayOpen := d, conn := true } buf).1 := by
  intro n
  induction n with
  | zero => intro st d buf; simp [sessionRunV]
  | succ n ih =>
    intro st d buf
    have hne := wire_cannot_panic_session_concrete (scAt n) st d buf
    unfold sessionRunV
    cases ht : tickMsg (sessionBody (scAt n)) { st := st, delayOpen := d, conn := true } buf with
    | panic => exact absurd ht hne
    | readErr => simp
    | eof => simp
    | handled ok s' outs rest =>
      cases ok with
      | false => simp
      | true =>
        simp only
        split
        · rename_i hc
          obtain ⟨st', d', c'⟩ := s'
          simp only at hc
          subst hc
          simp only [List.mem_cons, reduceCtorEq, false_or]
          exact ih st' d' rest
        · simp

/-- a 4-octet OPEN (AS 65002, hold 90, id 10.0.0.2, capabilities MP 1/1, 4-octet AS 65002,
ADD-PATH 1/1 both directions) -/
def exOpen : Bytes :=
  marker ++ [0, 55, 1, 4, 0xfd, 0xea, 0, 90, 10, 0, 0, 2, 26, 2, 24,
    1, 4, 0, 1, 0, 1, 65, 4, 0, 0, 0xfd, 0xea, 69, 4, 0, 1, 1, 3,
    73, 4, 1, 0x41, 1, 0x42]
/-- a minimal UPDATE (no withdrawals, no attributes, no NLRI) -/
def exUpdate : Bytes := marker ++ [0, 23, 2, 0, 0, 0, 0]
def exCfg : SessCfg := ⟨modern, fun a => a == 65002⟩

/-- non-vacuity of the concrete decoder: real frames of every kind decode to the `WireMsg` the
FSM model expects (computed by the kernel from the composed C02/C03 models); a version-error
NOTIFICATION is recognised; a foreign AS is refused; a broken ADD-PATH direction is an OPEN
error; ROUTE-REFRESH, a short OPEN and a bad marker are errors. -/
example :
    sessionBody exCfg exKeepalive = .ok .keepalive ∧
    sessionBody exCfg exNotification = .ok (.notification false) ∧
    sessionBody exCfg (marker ++ [0, 23, 3, 2, 1, 0, 4]) = .ok (.notification true) ∧
    sessionBody exCfg exUpdate = .ok .update ∧
    sessionBody exCfg exOpen = .ok (.open true true) ∧
    sessionBody ⟨modern, fun a => a == 65003⟩ exOpen = .ok (.open false true) ∧
    sessionBody exCfg (exOpen.set 48 0) = .ok (.open true false) ∧
    sessionBody exCfg (marker ++ [0, 23, 5, 0, 1, 0, 1]) = .err ∧
    sessionBody exCfg (exOpen.take 40) = .err ∧
    sessionBody exCfg ((0 : UInt8) :: exKeepalive.drop 1) = .err := by
  refine ⟨by decide, by decide, by decide, by decide, by decide, by decide, by decide, by decide,
    by decide, by decide⟩

end concrete

end Rc.Thm.C09
