/-
C17 – Attribute map and route workshop store and return what was put in.
Theorems about the model `Rc/Model/PaMap.lean`.
-/
import Rc.Model.PaMap

namespace Rc.Thm.C17
open Rc Rc.PaMap

/-! ### the invariant: a map is a list strictly ascending in the type code -/

/-- `BTreeMap` shape: strictly ascending codes (hence at most one attribute per code,
iteration in code order) -/
def Sorted (m : Map) : Prop := m.Pairwise (fun a b => a.code < b.code)

private theorem lookup_ins_self (a : Attr) (m : Map) : lookup a.code (ins a m) = some a := by
  induction m with
  | nil => simp [ins, lookup]
  | cons b m ih =>
    unfold ins
    split
    · simp [lookup]
    · split
      · simp [lookup]
      · rename_i h1 h2
        simp only [lookup]
        have : b.code ≠ a.code := fun h => h2 h.symm
        simp [this, ih]

private theorem lookup_ins_other (a : Attr) (m : Map) (c : Nat) (h : c ≠ a.code) :
    lookup c (ins a m) = lookup c m := by
  induction m with
  | nil => simp [ins, lookup]; intro h'; exact absurd h'.symm h
  | cons b m ih =>
    unfold ins
    split
    · simp only [lookup]
      have : a.code ≠ c := fun h' => h h'.symm
      simp [this]
    · split
      · rename_i h1 h2
        simp only [lookup]
        have h3 : a.code ≠ c := fun h' => h h'.symm
        have h4 : b.code ≠ c := fun h' => h3 (h2.trans h')
        simp [h3, h4]
      · simp only [lookup, ih]

private theorem mem_ins (a x : Attr) (m : Map) : x ∈ ins a m → x = a ∨ x ∈ m := by
  induction m with
  | nil => simp [ins]
  | cons b m ih =>
    unfold ins
    split
    · intro h; simpa using h
    · split
      · intro h
        rcases List.mem_cons.mp h with h | h
        · exact Or.inl h
        · exact Or.inr (List.mem_cons_of_mem _ h)
      · intro h
        rcases List.mem_cons.mp h with h | h
        · exact Or.inr (by simp [h])
        · rcases ih h with h | h
          · exact Or.inl h
          · exact Or.inr (List.mem_cons_of_mem _ h)

private theorem sorted_ins (a : Attr) (m : Map) (hs : Sorted m) : Sorted (ins a m) := by
  induction m with
  | nil => simp [ins, Sorted]
  | cons b m ih =>
    unfold Sorted at hs ⊢
    rw [List.pairwise_cons] at hs
    unfold ins
    split
    · rename_i h1
      rw [List.pairwise_cons]
      refine ⟨?_, List.pairwise_cons.mpr hs⟩
      intro x hx
      rcases List.mem_cons.mp hx with hx | hx
      · simpa [hx] using h1
      · exact Nat.lt_trans h1 (hs.1 x hx)
    · split
      · rename_i h1 h2
        rw [List.pairwise_cons]
        refine ⟨?_, hs.2⟩
        intro x hx
        rw [h2]; exact hs.1 x hx
      · rename_i h1 h2
        rw [List.pairwise_cons]
        refine ⟨?_, ih hs.2⟩
        intro x hx
        rcases mem_ins a x m hx with hx | hx
        · subst hx; omega
        · exact hs.1 x hx

private theorem lookup_none_of_lt (c : Nat) (m : Map) (h : ∀ x ∈ m, c < x.code) : lookup c m = none := by
  induction m with
  | nil => rfl
  | cons b m ih =>
    simp only [lookup]
    have := h b (by simp)
    have hb : b.code ≠ c := by omega
    simp [hb]
    exact ih (fun x hx => h x (by simp [hx]))

private theorem lookup_del_self (c : Nat) (m : Map) (hs : Sorted m) : lookup c (del c m) = none := by
  induction m with
  | nil => rfl
  | cons b m ih =>
    unfold Sorted at hs
    rw [List.pairwise_cons] at hs
    unfold del
    split
    · rename_i h1
      exact lookup_none_of_lt c m (fun x hx => h1 ▸ hs.1 x hx)
    · rename_i h1
      simp only [lookup, h1]
      simpa using ih hs.2

private theorem lookup_del_other (c c' : Nat) (m : Map) (h : c' ≠ c) :
    lookup c' (del c m) = lookup c' m := by
  induction m with
  | nil => rfl
  | cons b m ih =>
    unfold del
    split
    · rename_i h1
      simp only [lookup]
      have : b.code ≠ c' := fun h' => h (h'.symm.trans h1)
      simp [this]
    · simp only [lookup, ih]

private theorem del_sublist (c : Nat) (m : Map) : (del c m).Sublist m := by
  induction m with
  | nil => exact List.Sublist.refl _
  | cons b m ih =>
    unfold del
    split
    · exact List.sublist_cons_self b m
    · exact List.Sublist.cons_cons b ih

private theorem sorted_del (c : Nat) (m : Map) (hs : Sorted m) : Sorted (del c m) :=
  List.Pairwise.sublist (del_sublist c m) hs

private theorem lookup_mem {c : Nat} {m : Map} {a : Attr} (h : lookup c m = some a) : a ∈ m ∧ a.code = c := by
  induction m with
  | nil => simp [lookup] at h
  | cons b m ih =>
    simp only [lookup] at h
    split at h
    · rename_i h1
      simp at h; subst h; simp [h1]
    · have := ih h; simp [this]

private theorem mem_lookup {m : Map} {a : Attr} (hs : Sorted m) (h : a ∈ m) : lookup a.code m = some a := by
  induction m with
  | nil => simp at h
  | cons b m ih =>
    unfold Sorted at hs
    rw [List.pairwise_cons] at hs
    simp only [lookup]
    rcases List.mem_cons.mp h with h | h
    · subst h; simp
    · have := hs.1 a h
      have hb : b.code ≠ a.code := by omega
      simp [hb]
      exact ih hs.2 h


/-! ### attributes the request lines can denote -/

/-- a typed variant carries its type's `FLAGS` constant (and so has a recognised code) -/
def AttrOk (a : Attr) : Prop := a.kind = .typed → typeFlags a.code = some a.flags

/-- the invariant of every `PaMap` an operation sequence can produce -/
def Inv (m : Map) : Prop := Sorted m ∧ ∀ a ∈ m, AttrOk a

theorem mkTyped_ok {c : Nat} {v : Bytes} {a : Attr} (h : mkTyped c v = some a) :
    a.kind = .typed ∧ a.code = c ∧ AttrOk a := by
  unfold mkTyped at h
  split at h
  · simp at h; subst h; simp [AttrOk]; assumption
  · simp at h

/-- whatever a request line names is a well-formed attribute -/
theorem spec_ok {s : Spec} {a : Attr} (h : s.attr = some a) : AttrOk a := by
  cases s with
  | typed c v => exact (mkTyped_ok h).2.2
  | unimpl c f v =>
    simp only [Spec.attr] at h; split at h
    · simp at h; subst h; intro hk; simp at hk
    · simp at h
  | invalid c f v =>
    simp only [Spec.attr] at h; split at h
    · simp at h; subst h; intro hk; simp at hk
    · simp at h

example : (Spec.typed 4 [0, 0, 0, 7]).attr = some ⟨.typed, 4, 0x80, [0, 0, 0, 7]⟩ := by decide

/-! ### map laws -/

/-- **get_set**: after setting a typed attribute, getting that type returns it – on any map -/
theorem get_set (a : Attr) (m : Map) (ht : a.kind = .typed) : get a.code (set a m).1 = some a := by
  simp [PaMap.get, PaMap.set, lookup_ins_self, fromAttr, ht]

/-- setting one type does not disturb the others -/
theorem get_set_other (a : Attr) (m : Map) (c : Nat) (h : c ≠ a.code) :
    get c (set a m).1 = get c m := by
  simp [PaMap.get, PaMap.set, lookup_ins_other _ _ _ h]

/-- **set_returns_replaced**: `set` reports the typed value that was stored under that type
(`None` if there was none, or if the entry was an `Invalid`/`Unimplemented` attribute, which
`Option<A>` cannot express) -/
theorem set_returns_previous (a : Attr) (m : Map) : (set a m).2 = get a.code m := rfl

/-- **set_returns_replaced**, history form: the second of two sets of one kind returns the first value -/
theorem set_returns_replaced (a b : Attr) (m : Map) (ht : a.kind = .typed) (hc : b.code = a.code) :
    (set b (set a m).1).2 = some a := by
  rw [set_returns_previous, hc]; exact get_set a m ht

/-- **remove_get**: removing returns what `get` would have returned and leaves the type absent
(no entry of any variant remains under that code) -/
theorem remove_get (c : Nat) (m : Map) (hs : Sorted m) :
    (remove c m).2 = get c m ∧ lookup c (remove c m).1 = none ∧ get c (remove c m).1 = none := by
  refine ⟨rfl, lookup_del_self c m hs, ?_⟩
  simp [PaMap.get, remove, lookup_del_self c m hs]

/-- removing after a set returns the value set -/
theorem remove_set (a : Attr) (m : Map) (ht : a.kind = .typed) :
    (remove a.code (set a m).1).2 = some a := get_set a m ht

/-- removing one type does not disturb the others -/
theorem remove_other (c c' : Nat) (m : Map) (h : c' ≠ c) : lookup c' (remove c m).1 = lookup c' m :=
  lookup_del_other c c' m h

/-- `add_attribute` stores any variant under its own code and returns the entry replaced -/
theorem add_attribute_spec (a : Attr) (m : Map) :
    lookup a.code (addAttribute a m).1 = some a ∧ (addAttribute a m).2 = lookup a.code m
      ∧ ∀ c, c ≠ a.code → lookup c (addAttribute a m).1 = lookup c m :=
  ⟨lookup_ins_self a m, rfl, fun c h => lookup_ins_other a m c h⟩

/-- `set_from_enum` is `set` for typed variants and a no-op returning `None` for
`Unimplemented` / `Invalid` -/
theorem set_from_enum_spec (a : Attr) (m : Map) :
    (a.kind = .typed → setFromEnum a m = set a m) ∧ (a.kind ≠ .typed → setFromEnum a m = (m, none)) := by
  constructor <;> intro h <;> cases hk : a.kind <;> simp_all [setFromEnum]

/-- an `Invalid` or `Unimplemented` attribute stored under a typed code hides from the typed `get` -/
theorem get_hidden (a : Attr) (m : Map) (h : a.kind ≠ .typed) : get a.code (addAttribute a m).1 = none := by
  simp [PaMap.get, addAttribute, lookup_ins_self, fromAttr, h]

private theorem foldl_ins_lookup (o : Map) (ho : Sorted o) (m : Map) (c : Nat) :
    lookup c (o.foldl (fun acc a => ins a acc) m) = (lookup c o).or (lookup c m) := by
  induction o generalizing m with
  | nil => simp [lookup]
  | cons b o ih =>
    unfold Sorted at ho
    rw [List.pairwise_cons] at ho
    simp only [List.foldl_cons]
    rw [ih ho.2]
    simp only [lookup]
    by_cases hc : b.code = c
    · subst hc
      rw [lookup_none_of_lt b.code o ho.1, lookup_ins_self]; simp
    · have : c ≠ b.code := fun h => hc h.symm
      rw [lookup_ins_other b m c this]; simp [hc]

/-- **merge_upsert**: afterwards every code of `other` carries `other`'s attribute, all other
codes are unchanged, and `other` is empty -/
theorem merge_upsert_spec (m o : Map) (ho : Sorted o) (c : Nat) :
    lookup c (mergeUpsert m o).1 = (lookup c o).or (lookup c m) ∧ (mergeUpsert m o).2 = [] :=
  ⟨foldl_ins_lookup o ho m c, rfl⟩

/-! ### byte length -/

private theorem foldl_add (f : Attr → Nat) (m : Map) (init : Nat) :
    m.foldl (fun s a => s + f a) init = init + (m.map f).sum := by
  induction m generalizing init with
  | nil => simp
  | cons b m ih => simp [ih]; omega

/-- **bytes_len_sum**: the map's byte length is the sum of its attributes' `compose_len` -/
theorem bytes_len_sum (m : Map) : bytesLen m = (m.map composeLen).sum := by
  simp [bytesLen, foldl_add]

private theorem lenBytes_length (ext : Bool) (n : Nat) : (lenBytes ext n).length = if ext then 2 else 1 := by
  cases ext <;> simp [lenBytes]

/-- `compose_len` is the number of bytes `compose` writes, for all three families of variants
(for `Unimplemented` since the repair of F7, property C07: the length field is sized by the
value, not by the received EXTENDED_LEN flag) -/
theorem compose_length (a : Attr) : (compose a).length = composeLen a := by
  unfold compose composeLen
  cases hk : a.kind <;> simp [lenBytes_length] <;> split <;> omega

/-- **bytes_len_sum** against the bytes actually written, for every map -/
theorem bytes_len_composed (m : Map) :
    bytesLen m = (m.map fun a => (compose a).length).sum := by
  rw [bytes_len_sum]
  congr 1
  apply List.map_congr_left
  intro a _
  exact (compose_length a).symm

private theorem sum_ins (a : Attr) (m : Map) (hs : Sorted m) :
    ((ins a m).map composeLen).sum + ((lookup a.code m).map composeLen).getD 0
      = (m.map composeLen).sum + composeLen a := by
  induction m with
  | nil => simp [ins, lookup]
  | cons b m ih =>
    unfold Sorted at hs
    rw [List.pairwise_cons] at hs
    unfold ins
    split
    · rename_i h1
      have hb : b.code ≠ a.code := by omega
      have : lookup a.code m = none :=
        lookup_none_of_lt a.code m (fun x hx => Nat.lt_trans h1 (hs.1 x hx))
      simp [lookup, hb, this]; omega
    · split
      · rename_i h1 h2
        simp [lookup, h2.symm]; omega
      · rename_i h1 h2
        have hb : b.code ≠ a.code := fun h => h2 h.symm
        have := ih hs.2
        simp [lookup, hb] at this ⊢; omega

/-- how `set` / `add_attribute` move the byte length: the new attribute's length comes in,
the replaced one's goes out -/
theorem bytes_len_ins (a : Attr) (m : Map) (hs : Sorted m) :
    bytesLen (ins a m) + ((lookup a.code m).map composeLen).getD 0 = bytesLen m + composeLen a := by
  rw [bytes_len_sum, bytes_len_sum]; exact sum_ins a m hs


/-! ### the invariant over operation histories -/

private theorem inv_ins {a : Attr} {m : Map} (hm : Inv m) (ha : AttrOk a) : Inv (ins a m) :=
  ⟨sorted_ins a m hm.1, fun x hx => by
    rcases mem_ins a x m hx with h | h
    · exact h ▸ ha
    · exact hm.2 x h⟩

private theorem inv_del {c : Nat} {m : Map} (hm : Inv m) : Inv (del c m) :=
  ⟨sorted_del c m hm.1, fun x hx => hm.2 x ((del_sublist c m).subset hx)⟩

private theorem inv_filter {p : Attr → Bool} {m : Map} (hm : Inv m) : Inv (m.filter p) :=
  ⟨List.Pairwise.filter p hm.1, fun x hx => hm.2 x (List.mem_filter.mp hx).1⟩

private theorem inv_foldl_ins (o m : Map) (ho : ∀ a ∈ o, AttrOk a) (hm : Inv m) :
    Inv (o.foldl (fun acc a => ins a acc) m) := by
  induction o generalizing m with
  | nil => exact hm
  | cons b o ih =>
    simp only [List.foldl_cons]
    exact ih (ins b m) (fun a ha => ho a (by simp [ha])) (inv_ins hm (ho b (by simp)))

theorem ownedOf_ok (w : Wire) : AttrOk (ownedOf w) := by
  unfold ownedOf
  split
  · rename_i f hf
    split <;> simp [AttrOk, hf]
  · intro h; simp at h

private theorem inv_fromWire (ws : List Wire) (m : Map) (hm : Inv m) : Inv (fromWire ws m) := by
  induction ws generalizing m with
  | nil => exact hm
  | cons w ws ih =>
    unfold fromWire
    split
    · exact ih m hm
    · split
      · exact ih m hm
      · exact ih _ (inv_ins hm (ownedOf_ok w))

theorem inv_empty : Inv [] := ⟨List.Pairwise.nil, fun _ h => by simp at h⟩

theorem inv_fromUpdate (u : Update) : Inv (fromUpdate u) := inv_fromWire u.attrs [] inv_empty

/-- the attributes an operation carries are ones a request line can denote -/
def OpWf : Op → Prop
  | .set a => a.kind = .typed ∧ AttrOk a
  | .setFromEnum a => AttrOk a
  | .add a => AttrOk a
  | _ => True

private theorem inv_step (s : St) (o : Op) (ho : OpWf o) (ha : Inv s.a) (hb : Inv s.b) :
    Inv (step s o).a ∧ Inv (step s o).b := by
  cases o with
  | set x => exact ⟨inv_ins ha ho.2, hb⟩
  | setFromEnum x =>
    refine ⟨?_, hb⟩
    simp only [step, setFromEnum]
    cases hk : x.kind
    · exact inv_ins ha ho
    · exact ha
    · exact ha
  | add x => exact ⟨inv_ins ha ho, hb⟩
  | get c => exact ⟨ha, hb⟩
  | remove c => exact ⟨inv_del ha, hb⟩
  | rnt => exact ⟨inv_filter ha, hb⟩
  | swap => exact ⟨hb, ha⟩
  | merge => exact ⟨inv_foldl_ins s.b s.a hb.2 ha, inv_empty⟩
  | fromUpdate u => exact ⟨inv_fromUpdate u, hb⟩
  | mergeUpdate u => exact ⟨inv_foldl_ins _ s.a (inv_fromUpdate u).2 ha, hb⟩

/-- **invariant**: after any sequence of set / set_from_enum / add / get / remove /
remove_non_transitives / merge / from_update operations both maps are strictly ascending in the
type code and every typed entry carries its type's flags -/
theorem inv_run (ops : List Op) (h : ∀ o ∈ ops, OpWf o) (s : St) (ha : Inv s.a) (hb : Inv s.b) :
    Inv (run s ops).a ∧ Inv (run s ops).b := by
  induction ops generalizing s with
  | nil => exact ⟨ha, hb⟩
  | cons o ops ih =>
    have := inv_step s o (h o (by simp)) ha hb
    exact ih (fun o' ho' => h o' (by simp [ho'])) (step s o) this.1 this.2

/-- strictly ascending codes leave room for at most one attribute per code -/
theorem sorted_at_most_one (m : Map) (hs : Sorted m) (c : Nat) :
    (m.filter (fun a => a.code = c)).length ≤ 1 := by
  induction m with
  | nil => simp
  | cons b m ih =>
    unfold Sorted at hs
    rw [List.pairwise_cons] at hs
    by_cases hb : b.code = c
    · have : m.filter (fun a => decide (a.code = c)) = [] := by
        rw [List.filter_eq_nil_iff]
        intro x hx
        have := hs.1 x hx
        simp; omega
      simp [hb, this]
    · simp [hb]; exact ih hs.2

/-- **at_most_one_per_code**: in every map reachable from the empty maps by any operation
sequence, every type code occurs at most once -/
theorem at_most_one_per_code (ops : List Op) (h : ∀ o ∈ ops, OpWf o) (c : Nat) :
    ((run ⟨[], []⟩ ops).a.filter (fun a => a.code = c)).length ≤ 1 :=
  sorted_at_most_one _ (inv_run ops h ⟨[], []⟩ inv_empty inv_empty).1.1 c

example : OpWf (.set ⟨.typed, 1, 0x40, [0]⟩) := ⟨rfl, fun _ => by decide⟩

/-- the laws above, read on a reachable map: get-after-set, remove-leaves-absent, byte length -/
theorem reachable_laws (ops : List Op) (h : ∀ o ∈ ops, OpWf o) (a : Attr) (ht : a.kind = .typed) :
    let m := (run ⟨[], []⟩ ops).a
    get a.code (set a m).1 = some a
      ∧ get a.code (remove a.code (set a m).1).1 = none
      ∧ bytesLen (set a m).1 + ((lookup a.code m).map composeLen).getD 0 = bytesLen m + composeLen a := by
  intro m
  have hm : Inv m := (inv_run ops h ⟨[], []⟩ inv_empty inv_empty).1
  exact ⟨get_set a m ht, (remove_get a.code _ (sorted_ins a m hm.1)).2.2, bytes_len_ins a m hm.1⟩

/-! ### stripping non-transitive attributes -/

/-- the property's notion: a recognised (typed) attribute is transitive when its *type* is,
an unrecognised or invalid one when the flags it carries say so -/
def transitiveOf (a : Attr) : Bool :=
  match a.kind with
  | .typed => (typeFlags a.code).any isTransitive
  | _ => isTransitive a.flags

/-- **non_transitive_stripped_iff**: `remove_non_transitives` leaves exactly the attributes whose
type (for unrecognised attributes: whose received flags) is transitive -/
theorem non_transitive_stripped_iff (m : Map) (hm : Inv m) (a : Attr) :
    a ∈ removeNonTransitives m ↔ a ∈ m ∧ transitiveOf a = true := by
  unfold removeNonTransitives
  rw [List.mem_filter]
  constructor
  · rintro ⟨h1, h2⟩
    refine ⟨h1, ?_⟩
    unfold transitiveOf
    cases hk : a.kind
    · simp [hm.2 a h1 hk]; exact h2
    · exact h2
    · exact h2
  · rintro ⟨h1, h2⟩
    refine ⟨h1, ?_⟩
    unfold transitiveOf at h2
    cases hk : a.kind <;> simp only [hk] at h2
    · simpa [hm.2 a h1 hk, defaultFlags] using h2
    · exact h2
    · exact h2

/-- what was received with a recognised code is judged by the type even when its value was
invalid; what was not recognised is judged by the flags it was received with -/
theorem ownedOf_transitive (w : Wire) :
    transitiveOf (ownedOf w) =
      match typeFlags w.code with
      | some f => isTransitive f
      | none => isTransitive w.flags := by
  unfold ownedOf
  split
  · rename_i f hf
    split <;> simp [transitiveOf, hf]
  · rename_i hf
    simp [transitiveOf, hf]

/-- the well-known / optional-transitive types stay, MED, ORIGINATOR_ID and CLUSTER_LIST go -/
example : ([1, 2, 3, 5, 6, 7, 8, 16, 17, 18, 20, 21, 25, 32, 35, 128, 255].all fun c => (typeFlags c).any isTransitive)
    ∧ ([4, 9, 10].all fun c => !(typeFlags c).any isTransitive) := by decide


/-! ### maps built from an UPDATE -/

private theorem lookup_fromWire (ws : List Wire) (m : Map) (c : Nat) :
    lookup c (fromWire ws m) =
      (lookup c m).or (if c = 14 ∨ c = 15 then none else (firstWire c ws).map ownedOf) := by
  induction ws generalizing m with
  | nil => simp [fromWire, firstWire]
  | cons w ws ih =>
    unfold fromWire
    split
    · rename_i h14
      rw [ih m]
      by_cases hc : c = 14 ∨ c = 15
      · simp [hc]
      · have : w.code ≠ c := by rintro rfl; exact hc h14
        simp [hc, firstWire, this]
    · rename_i h14
      split
      · rename_i a ha
        rw [ih m]
        by_cases hwc : w.code = c
        · subst hwc; simp [ha]
        · simp [firstWire, hwc]
      · rename_i hn
        rw [ih]
        by_cases hwc : w.code = c
        · subst hwc
          have e : (ownedOf w).code = w.code := by
            unfold ownedOf; split
            · split <;> rfl
            · rfl
          have := lookup_ins_self (ownedOf w) m
          rw [e] at this
          simp [this, hn, h14, firstWire]
        · have e : (ownedOf w).code = w.code := by
            unfold ownedOf; split
            · split <;> rfl
            · rfl
          have hne : c ≠ (ownedOf w).code := by rw [e]; exact fun h => hwc h.symm
          rw [lookup_ins_other _ _ _ hne]
          simp [firstWire, hwc]

/-- the entry a map built from an UPDATE holds under code `c`: nothing for MP_REACH_NLRI (14)
and MP_UNREACH_NLRI (15), otherwise the first attribute of the message with that code -/
theorem from_update_lookup (u : Update) (c : Nat) :
    lookup c (fromUpdate u) =
      if c = 14 ∨ c = 15 then none else (firstWire c u.attrs).map ownedOf := by
  simp [fromUpdate, lookup_fromWire, lookup]

private theorem firstWire_isSome (c : Nat) (ws : List Wire) :
    (firstWire c ws).isSome ↔ ∃ w ∈ ws, w.code = c := by
  induction ws with
  | nil => simp [firstWire]
  | cons w ws ih =>
    simp only [firstWire]
    split
    · rename_i h; simp; exact Or.inl h
    · rename_i h
      rw [ih]; simp [h]

/-- **from_update_all_but_mp**: a map built from an UPDATE has an entry for exactly the type
codes of the message's path attributes other than the two multiprotocol NLRI attributes -/
theorem from_update_all_but_mp (u : Update) (c : Nat) :
    (lookup c (fromUpdate u)).isSome ↔ (c ≠ 14 ∧ c ≠ 15 ∧ ∃ w ∈ u.attrs, w.code = c) := by
  rw [from_update_lookup]
  by_cases hc : c = 14 ∨ c = 15
  · simp [hc]; intro h1 h2; exact absurd hc (by simp [h1, h2])
  · have h1 : c ≠ 14 := fun h => hc (Or.inl h)
    have h2 : c ≠ 15 := fun h => hc (Or.inr h)
    simp only [hc, if_false, Option.isSome_map, firstWire_isSome]
    simp [h1, h2]

example : lookup 14 (fromUpdate ⟨[⟨0x80, 14, [0, 2, 1], true⟩, ⟨0x40, 1, [0], true⟩], []⟩) = none
    ∧ lookup 1 (fromUpdate ⟨[⟨0x80, 14, [0, 2, 1], true⟩, ⟨0x40, 1, [0], true⟩], []⟩) = some ⟨.typed, 1, 0x40, [0]⟩ := by
  decide

private theorem ownedGet_eq (c : Nat) (ws : List Wire) :
    ownedGet c ws = ((firstWire c ws).map ownedOf).bind (fromAttr c) := by
  induction ws with
  | nil => simp [ownedGet, firstWire]
  | cons w ws ih =>
    simp only [ownedGet, firstWire]
    split
    · simp
    · exact ih

private theorem fromAttr_ownedOf_mp (w : Wire) (c : Nat) (hc : c = 14 ∨ c = 15) :
    fromAttr c (ownedOf w) = none := by
  unfold fromAttr
  have e : (ownedOf w).code = w.code := by
    unfold ownedOf; split
    · split <;> rfl
    · rfl
  by_cases hw : w.code = c
  · have : typeFlags w.code = none := by
      rcases hc with h | h <;> (rw [hw, h]; decide)
    have hk : (ownedOf w).kind = .unimpl := by
      unfold ownedOf; rw [this]
    simp [hk]
  · simp [e, hw]

/-- **owned_get_agrees**: for every typed kind, `OwnedPathAttributes::get` on the message's
attribute bytes and `PaMap::get` on the map built from the same message return the same value -/
theorem owned_get_agrees (u : Update) (c : Nat) : ownedGet c u.attrs = get c (fromUpdate u) := by
  rw [ownedGet_eq, PaMap.get, from_update_lookup]
  by_cases hc : c = 14 ∨ c = 15
  · simp only [hc, if_true, Option.bind_none]
    cases h : firstWire c u.attrs with
    | none => rfl
    | some w => simp [fromAttr_ownedOf_mp w c hc]
  · simp [hc]

/-- a typed entry of a map built from an UPDATE is a message attribute that `validate`d; an
`Invalid` one carries the type's flags, an `Unimplemented` one the received flags -/
theorem ownedOf_flags (w : Wire) :
    ((ownedOf w).kind = .unimpl → (ownedOf w).flags = w.flags ∧ typeFlags w.code = none)
    ∧ ((ownedOf w).kind ≠ .unimpl → typeFlags w.code = some (ownedOf w).flags) := by
  unfold ownedOf
  split
  · rename_i f hf
    split <;> simp [hf]
  · rename_i hf
    simp [hf]

/-! ### the workshop -/

/-- **get_after_set (scalar kinds)**: `get_attr` returns what the preceding `set_attr` of the
same kind stored, whatever the workshop held before -/
theorem workshop_get_after_set (w : Workshop) (a : Attr) (ht : a.kind = .typed) :
    (w.setAttr a).getAttr a.code = some a := get_set a w.attrs ht

/-- a set of another kind does not change the answer -/
theorem workshop_get_after_set_other (w : Workshop) (a : Attr) (c : Nat) (h : c ≠ a.code) :
    (w.setAttr a).getAttr c = w.getAttr c := get_set_other a w.attrs c h

/-- all thirteen `impl_workshop!` kinds are typed kinds of the map -/
example : ([1, 2, 4, 5, 7, 8, 9, 10, 16, 21, 25, 32, 35].all fun c => isWorkshopScalar c && (typeFlags c).isSome) := by
  decide

private theorem chunk_flatten (f n : Nat) (hn : 0 < n) (cs : List Community)
    (h : ∀ c ∈ cs, c.flavour = f ∧ c.raw.length = n) (fuel : Nat) (hf : cs.length ≤ fuel) :
    chunk f n fuel (cs.map (·.raw)).flatten = cs := by
  induction cs generalizing fuel with
  | nil => cases fuel <;> simp [chunk]
  | cons c cs ih =>
    have hc := h c (by simp)
    cases fuel with
    | zero => simp at hf
    | succ fuel =>
      have hne : (c.raw ++ (cs.map (·.raw)).flatten) ≠ [] := by
        intro h0
        have := congrArg List.length h0
        rw [List.length_append, List.length_nil] at this
        have := hc.2
        omega
      simp only [List.map_cons, List.flatten_cons]
      rw [chunk]
      · have ht : (c.raw ++ (cs.map (·.raw)).flatten).take n = c.raw := by
          rw [← hc.2]; simp
        have hd : (c.raw ++ (cs.map (·.raw)).flatten).drop n = (cs.map (·.raw)).flatten := by
          rw [← hc.2]; simp
        rw [ht, hd, ih (fun x hx => h x (by simp [hx])) fuel (Nat.le_of_succ_le_succ hf)]
        cases c; simp at hc ⊢; exact hc.1.symm
      · exact hne

private theorem flatten_length (n : Nat) (cs : List Community) (h : ∀ c ∈ cs, c.raw.length = n) :
    (cs.map (·.raw)).flatten.length = cs.length * n := by
  induction cs with
  | nil => simp
  | cons c cs ih =>
    simp [ih (fun x hx => h x (by simp [hx])), h c (by simp)]
    rw [Nat.add_mul]; omega

private theorem flavourSize_pos (f : Nat) : 0 < flavourSize f := by
  unfold flavourSize; split <;> (try split) <;> (try split) <;> omega

private theorem retrieve_store_same (f : Nat) (cs : List Community) (m : Map) (hs : Sorted m)
    (hw : ∀ c ∈ cs, c.wf = true) :
    retrieveFlavour f (storeFlavour f cs m) = ofFlavour f cs := by
  have hall : ∀ c ∈ ofFlavour f cs, c.flavour = f ∧ c.raw.length = flavourSize f := by
    intro c hc
    have := List.mem_filter.mp hc
    have h1 : c.flavour = f := by simpa using this.2
    have h2 := hw c this.1
    simp [Community.wf] at h2
    exact ⟨h1, h1 ▸ h2.2⟩
  unfold retrieveFlavour storeFlavour
  by_cases he : ofFlavour f cs = []
  · simp [he, PaMap.get, lookup_del_self _ m hs]
  · simp only [he, if_false]
    have := lookup_ins_self ⟨.typed, flavourCode f, flavourFlags, ((ofFlavour f cs).map (·.raw)).flatten⟩ m
    simp only at this
    simp only [PaMap.get, this, Option.bind_some, fromAttr, and_self, if_true]
    apply chunk_flatten f (flavourSize f) (flavourSize_pos f) _ hall
    rw [flatten_length (flavourSize f) _ (fun c hc => (hall c hc).2)]
    have := flavourSize_pos f
    exact Nat.le_mul_of_pos_right _ this

private theorem retrieve_store_other (f g : Nat) (cs : List Community) (m : Map)
    (h : flavourCode g ≠ flavourCode f) :
    retrieveFlavour g (storeFlavour f cs m) = retrieveFlavour g m := by
  unfold retrieveFlavour storeFlavour
  by_cases he : ofFlavour f cs = []
  · simp only [he, if_true, PaMap.get, lookup_del_other _ _ m h]
  · simp only [he, if_false, PaMap.get]
    rw [lookup_ins_other _ m (flavourCode g) (by simpa using h)]

private theorem sorted_storeFlavour (f : Nat) (cs : List Community) (m : Map) (hs : Sorted m) :
    Sorted (storeFlavour f cs m) := by
  unfold storeFlavour
  by_cases he : ofFlavour f cs = []
  · simp only [he, if_true]; exact sorted_del _ m hs
  · simp only [he, if_false]; exact sorted_ins _ m hs

/-- the order `retrieve` really returns: all standard communities, then all extended, then
all IPv6-extended, then all large ones, each flavour in the order given -/
def groupedByFlavour (cs : List Community) : List Community :=
  ofFlavour 0 cs ++ ofFlavour 1 cs ++ ofFlavour 2 cs ++ ofFlavour 3 cs

/-- **get_after_set (community lists)**: after `set_attr(cs)` a `get_attr::<Vec<Community>>()`
returns exactly `cs`, grouped by flavour – whatever the workshop's map held before (other
communities, `Invalid` attributes under the community codes, anything reachable) -/
theorem workshop_communities_get_after_set (w : Workshop) (hs : Sorted w.attrs) (cs : List Community)
    (hw : ∀ c ∈ cs, c.wf = true) :
    (w.setCommunities cs).getCommunities = some (groupedByFlavour cs) := by
  simp only [Workshop.getCommunities, Workshop.setCommunities, retrieveCommunities, storeCommunities,
    groupedByFlavour]
  have s0 := sorted_storeFlavour 0 cs _ hs
  have s1 := sorted_storeFlavour 1 cs _ s0
  have s2 := sorted_storeFlavour 2 cs _ s1
  rw [retrieve_store_same 3 cs _ s2 hw,
    retrieve_store_other 3 2 cs _ (by decide),
    retrieve_store_same 2 cs _ s1 hw,
    retrieve_store_other 3 1 cs _ (by decide),
    retrieve_store_other 2 1 cs _ (by decide),
    retrieve_store_same 1 cs _ s0 hw,
    retrieve_store_other 3 0 cs _ (by decide),
    retrieve_store_other 2 0 cs _ (by decide),
    retrieve_store_other 1 0 cs _ (by decide),
    retrieve_store_same 0 cs _ hs hw]

/-- grouping loses and invents nothing: a community list of the four flavours is a permutation
of what `get` returns (same members with multiplicity, per flavour in order) -/
theorem grouped_filter (cs : List Community) (f : Nat) (hf : f < 4) :
    ofFlavour f (groupedByFlavour cs) = ofFlavour f cs := by
  have key : ∀ g, ofFlavour f (ofFlavour g cs) = if g = f then ofFlavour f cs else [] := by
    intro g
    unfold ofFlavour
    rw [List.filter_filter]
    split
    · rename_i h; subst h; congr 1; funext c; simp
    · rename_i h
      rw [List.filter_eq_nil_iff]
      intro c _; simp; intro h1 h2; exact h (h2 ▸ h1 ▸ rfl)
  unfold groupedByFlavour
  have : ∀ l₁ l₂ : List Community, ofFlavour f (l₁ ++ l₂) = ofFlavour f l₁ ++ ofFlavour f l₂ := by
    intro l₁ l₂; simp [ofFlavour]
  rw [this, this, this, key, key, key, key]
  have : f = 0 ∨ f = 1 ∨ f = 2 ∨ f = 3 := by omega
  rcases this with h | h | h | h <;> subst h <;> simp

example : groupedByFlavour [⟨3, [1]⟩, ⟨0, [2]⟩, ⟨1, [3]⟩, ⟨0, [4]⟩] = [⟨0, [2]⟩, ⟨0, [4]⟩, ⟨1, [3]⟩, ⟨3, [1]⟩] := by
  decide

/-- the invariant holds along every workshop history, so the hypothesis of
`workshop_communities_get_after_set` is met by every reachable workshop -/
def WOpWf : WOp → Prop
  | .set a => a.kind = .typed ∧ AttrOk a
  | .add a => AttrOk a
  | _ => True

private theorem inv_storeFlavour (f : Nat) (cs : List Community) (m : Map) (hm : Inv m) :
    Inv (storeFlavour f cs m) := by
  unfold storeFlavour
  by_cases he : ofFlavour f cs = []
  · simp only [he, if_true]; exact inv_del hm
  · simp only [he, if_false]
    apply inv_ins hm
    intro _
    simp only [flavourCode, flavourFlags]
    split
    · decide
    · split
      · decide
      · split <;> decide

theorem workshop_inv_run (ops : List WOp) (h : ∀ o ∈ ops, WOpWf o) (w : Workshop) (hw : Inv w.attrs) :
    Inv (wrun w ops).attrs := by
  induction ops generalizing w with
  | nil => exact hw
  | cons o ops ih =>
    apply ih (fun o' ho' => h o' (by simp [ho'])) (wstep w o)
    have ho := h o (by simp)
    cases o with
    | set a => exact inv_ins hw ho.2
    | setCommunities cs =>
      exact inv_storeFlavour 3 cs _ (inv_storeFlavour 2 cs _ (inv_storeFlavour 1 cs _ (inv_storeFlavour 0 cs _ hw)))
    | setNexthop nh => exact hw
    | add a => exact inv_ins hw ho
    | remove c => exact inv_del hw
    | fromUpdate v4u u =>
      simp only [wstep]
      cases hf : Workshop.fromUpdate v4u u with
      | none => exact hw
      | some w' =>
        simp only
        unfold Workshop.fromUpdate at hf
        split at hf
        · split at hf
          · simp at hf; subst hf; exact inv_del (inv_fromUpdate u)
          · simp at hf
        · split at hf
          · simp at hf; subst hf; exact inv_del (inv_fromUpdate u)
          · simp at hf

/-- **get_after_set (community lists)** along any history -/
theorem workshop_communities_reachable (ops : List WOp) (h : ∀ o ∈ ops, WOpWf o) (cs : List Community)
    (hw : ∀ c ∈ cs, c.wf = true) :
    ((wrun Workshop.new ops).setCommunities cs).getCommunities = some (groupedByFlavour cs) :=
  workshop_communities_get_after_set _ (workshop_inv_run ops h Workshop.new inv_empty).1 cs hw

/-- the next hop of the NLRI a workshop is built for: the NEXT_HOP attribute for a conventional
IPv4-unicast NLRI, the next hop field of MP_REACH_NLRI otherwise -/
def nlriNextHop (v4u : Bool) (u : Update) : Option NextHop :=
  if v4u = true ∧ u.nlri ≠ [] then conventionalNextHop u else mpNextHop u

/-- **from_update_nexthop**: a workshop built from an UPDATE carries that NLRI's next hop, has no
NEXT_HOP attribute (no entry of any variant under code 3), and otherwise holds the map built from
the UPDATE; it is built exactly when the NLRI has a next hop in the message -/
theorem from_update_nexthop (v4u : Bool) (u : Update) :
    match Workshop.fromUpdate v4u u with
    | some w => w.nexthop = nlriNextHop v4u u ∧ w.nexthop.isSome ∧ lookup 3 w.attrs = none
        ∧ ∀ c, c ≠ 3 → lookup c w.attrs = lookup c (fromUpdate u)
    | none => nlriNextHop v4u u = none := by
  have hs := (inv_fromUpdate u).1
  unfold Workshop.fromUpdate nlriNextHop
  by_cases hc : (v4u = true ∧ u.nlri ≠ [])
  · rw [if_pos hc, if_pos hc]
    cases hn : conventionalNextHop u with
    | none => rfl
    | some nh =>
      dsimp only
      exact ⟨rfl, rfl, lookup_del_self 3 _ hs, fun c h => lookup_del_other 3 c _ h⟩
  · rw [if_neg hc, if_neg hc]
    cases hn : mpNextHop u with
    | none => rfl
    | some nh =>
      dsimp only
      exact ⟨rfl, rfl, lookup_del_self 3 _ hs, fun c h => lookup_del_other 3 c _ h⟩

/-- the conventional next hop is the value of the message's first NEXT_HOP attribute -/
example : conventionalNextHop ⟨[⟨0x40, 1, [0], true⟩, ⟨0x40, 3, [10, 255, 0, 101], true⟩], [32, 10, 10, 10, 2]⟩
    = some ⟨0, [10, 255, 0, 101]⟩ := by decide

/-- `set_nexthop` returns the next hop it replaces -/
theorem set_nexthop_spec (w : Workshop) (nh : NextHop) :
    (w.setNexthop nh).1.nexthop = some nh ∧ (w.setNexthop nh).2 = w.nexthop
      ∧ (w.setNexthop nh).1.attrs = w.attrs := ⟨rfl, rfl, rfl⟩


/-! ### the same laws read along histories -/

/-- **non_transitive_stripped_iff** for every map an operation sequence can produce -/
theorem non_transitive_reachable (ops : List Op) (h : ∀ o ∈ ops, OpWf o) (a : Attr) :
    a ∈ removeNonTransitives (run ⟨[], []⟩ ops).a ↔ a ∈ (run ⟨[], []⟩ ops).a ∧ transitiveOf a = true :=
  non_transitive_stripped_iff _ (inv_run ops h ⟨[], []⟩ inv_empty inv_empty).1 a

/-- **merge_upsert** for every pair of maps an operation sequence can produce -/
theorem merge_reachable (ops : List Op) (h : ∀ o ∈ ops, OpWf o) (c : Nat) :
    let s := run ⟨[], []⟩ ops
    lookup c (mergeUpsert s.a s.b).1 = (lookup c s.b).or (lookup c s.a) :=
  (merge_upsert_spec _ _ (inv_run ops h ⟨[], []⟩ inv_empty inv_empty).2.1 c).1

/-- **remove_get** for every map an operation sequence can produce -/
theorem remove_reachable (ops : List Op) (h : ∀ o ∈ ops, OpWf o) (c : Nat) :
    let m := (run ⟨[], []⟩ ops).a
    (remove c m).2 = get c m ∧ lookup c (remove c m).1 = none ∧ get c (remove c m).1 = none :=
  remove_get c _ (inv_run ops h ⟨[], []⟩ inv_empty inv_empty).1.1

/-- a history that exercises set, replace, foreign variants, merge and stripping (non-vacuity
of the hypotheses above) -/
example :
    let ops : List Op := [.set ⟨.typed, 4, 0x80, [0, 0, 0, 1]⟩, .add ⟨.unimpl, 99, 0xC0, [7]⟩, .swap,
      .set ⟨.typed, 4, 0x80, [0, 0, 0, 2]⟩, .add ⟨.invalid, 1, 0x40, [9, 9]⟩, .merge, .rnt]
    (∀ o ∈ ops, OpWf o) ∧ (run ⟨[], []⟩ ops).a = [⟨.invalid, 1, 0x40, [9, 9]⟩, ⟨.unimpl, 99, 0xC0, [7]⟩] := by
  refine ⟨?_, by decide⟩
  intro o ho
  simp at ho
  rcases ho with rfl | rfl | rfl | rfl | rfl | rfl | rfl <;> simp [OpWf, AttrOk] <;> decide

/-! ## sessions: AS number width, ADD-PATH, MP next-hop forms

Every theorem above that speaks of an `Update` (`from_update_all_but_mp`,
`owned_get_agrees`, `non_transitive_stripped_iff`, `inv_run`, `from_update_nexthop` …)
is quantified over all `Update` values, so over attributes received in a session
of either AS number width (`Wire.four`); ADD-PATH only decides which octet
strings `parseUpdate` accepts.  What follows pins down where the width enters. -/

/-- in a four-octet session the typed reading is the plain one -/
theorem typedValueW_four (c : Nat) (v : Bytes) : typedValueW true c v = typedValue c v := by
  simp [typedValueW]

/-- the AS number width of the session matters for AS_PATH and AGGREGATOR only
(AS4_PATH, AS4_AGGREGATOR and the 16 other kinds are read alike in both) -/
theorem typedValueW_width_free (four : Bool) (c : Nat) (v : Bytes) (h2 : c ≠ 2) (h7 : c ≠ 7) :
    typedValueW four c v = typedValue c v := by
  cases four <;> simp [typedValueW, h2, h7]

/-- an AGGREGATOR a two-octet session accepts has six octets; the owned value is
the eight-octet form with the AS number zero-extended – a value the four-octet
rule accepts unchanged, so what `get` returns composes and re-parses -/
theorem two_octet_aggregator (v w : Bytes) (h : typedValueW false 7 v = some w) :
    v.length = 6 ∧ w = [0, 0] ++ v ∧ typedValue 7 w = some w := by
  simp only [typedValueW, Bool.false_eq_true, if_false] at h
  simp only [show (7 : Nat) ≠ 2 by decide, if_false, if_true] at h
  split at h
  · rename_i hl
    cases h
    refine ⟨hl, rfl, ?_⟩
    simp [typedValue, hl]
  · cases h

/-- every attribute of an accepted UPDATE carries the width of the session it was
parsed in (`PduParseInfo` inside `EncodedPathAttribute`) -/
theorem parseWire_width (four : Bool) : ∀ (fuel : Nat) (bs : Bytes) (ws : List Wire),
    parseWire four fuel bs = some ws → ∀ w ∈ ws, w.four = four
  | _, [], ws, h => by
    cases ‹Nat› <;> (simp [parseWire] at h; subst h; simp)
  | 0, _ :: _, ws, h => by simp [parseWire] at h
  | fuel + 1, [_], ws, h => by simp [parseWire] at h
  | fuel + 1, f :: c :: r, ws, h => by
    simp only [parseWire] at h
    split at h
    · rename_i len r' _
      split at h
      · rename_i v rest _
        cases hr : parseWire four fuel rest with
        | none => simp [hr] at h
        | some l =>
          simp only [hr, Option.some.injEq] at h
          subst h
          intro w hw
          rcases List.mem_cons.mp hw with rfl | hw
          · rfl
          · exact parseWire_width four fuel rest l hr w hw
      · cases h
    · cases h

/-- (AFI, SAFI, next hop length, `NextHop` variant tag) of the forms RFC 4760 3,
2545 3, 8277, 4364 4.3.2, 4659 3.2.1, 4684, 4761 and 7432 define -/
def nhForms : List (Nat × Nat × Nat × Nat) :=
  [(1, 1, 4, 0), (1, 2, 4, 0), (1, 132, 4, 0), (25, 65, 4, 0), (25, 70, 4, 0), (2, 1, 16, 1), (2, 1, 32, 2), (2, 2, 16, 1),
   (1, 4, 4, 0), (1, 4, 16, 1), (2, 4, 4, 0), (2, 4, 16, 1), (1, 128, 12, 3), (2, 128, 24, 4)]

/-- *"one built from an UPDATE carries that NLRI's next hop"* for every family:
`mp_next_hop` reads each of the 14 forms as the variant and octets sent
(with `from_update_nexthop`: that is the next hop the workshop then holds) -/
theorem mp_next_hop_forms : ∀ q ∈ nhForms, ∀ (raw rest : Bytes), raw.length = q.2.2.1 →
    parseNextHop q.1 q.2.1 (UInt8.ofNat q.2.2.1 :: (raw ++ rest)) = some ⟨q.2.2.2, raw⟩ := by
  intro q hq raw rest hl
  have ht : takeN q.2.2.1 (raw ++ rest) = some (raw, rest) := by rw [← hl]; exact takeN_append _ _
  simp only [nhForms, List.mem_cons, List.mem_nil_iff, or_false] at hq
  rcases hq with rfl | rfl | rfl | rfl | rfl | rfl | rfl | rfl | rfl | rfl | rfl | rfl | rfl | rfl <;>
    (simp only at ht; simp [parseNextHop, ht])

/-- FlowSpec has no next hop (RFC 8955 4): `NextHop::Empty` whatever the length octet -/
theorem flowspec_next_hop (afi : Nat) (h : afi = 1 ∨ afi = 2) (l : UInt8) (r : Bytes) :
    parseNextHop afi 133 (l :: r) = some ⟨5, []⟩ := by
  rcases h with rfl | rfl <;> simp [parseNextHop]


end Rc.Thm.C17
