/-
C03 – OPEN, NOTIFICATION, KEEPALIVE, ROUTE-REFRESH decode faithfully and
totally; builders round-trip; header-length mismatch is rejected.

Property theorems only (helpers are in Rc/Lemmas).  All statements are about
the models in Rc/Model/Open.lean and Rc/Model/Notif.lean.
-/
import Rc.Model.Open
import Rc.Model.Notif
import Rc.Lemmas.Header
import Rc.Lemmas.OpenTotal
import Rc.Lemmas.OpenEnc
import Rc.Lemmas.OpenRfc

namespace Rc.Thm.C03
open Rc Rc.Open

/-! ## KEEPALIVE -/

/-- A KEEPALIVE is accepted iff it is exactly the 19-byte header with length
field 19 (the type byte is not looked at by `KeepaliveMessage::check`). -/
theorem keepalive_iff_19 (bs : Bytes) :
    Notif.kaFromOctets bs = .ok bs ↔ ∃ t, bs = header 19 t := by
  constructor
  · intro h
    unfold Notif.kaFromOctets at h
    cases hc : headerCheck bs with
    | none => simp [hc] at h
    | some r =>
      simp only [hc] at h
      obtain ⟨t, hb, _, hl⟩ := headerCheck_some hc
      cases r with
      | nil => exact ⟨t, by simpa [hl] using hb⟩
      | cons x xs => simp at h
  · rintro ⟨t, rfl⟩
    have := headerCheck_header 19 t [] (by simp) (by omega)
    simp only [List.append_nil] at this
    simp [Notif.kaFromOctets, this]

/-- the builder's KEEPALIVE is accepted -/
theorem keepalive_builder_roundtrip : Notif.kaFromOctets Notif.kaBuild = .ok Notif.kaBuild :=
  (keepalive_iff_19 _).mpr ⟨4, rfl⟩

theorem keepalive_total (bs : Bytes) : Notif.kaFromOctets bs ≠ .panic := by
  unfold Notif.kaFromOctets
  cases headerCheck bs with
  | none => simp
  | some r => simp only; split <;> simp

/-! ## header length mismatch -/

/-- the length field of a message as written in bytes 16 and 17 -/
def lengthField (bs : Bytes) : Option Nat := (rd16 (bs.drop 16)).map (·.1)

private theorem lengthField_of_check {bs r : Bytes} (h : headerCheck bs = some r) :
    lengthField bs = some bs.length := by
  obtain ⟨t, hb, hlt, _⟩ := headerCheck_some h
  have e : bs.drop 16 = be16 bs.length ++ (t :: r) := by
    conv => lhs; rw [hb]
    simp only [header, List.append_assoc]
    rw [show (16 : Nat) = marker.length from rfl, List.drop_left]
    simp
  simp [lengthField, e, rd16_be16 _ hlt]

/-- An OPEN whose header length field disagrees with the number of bytes
supplied is rejected (never accepted, never a panic). -/
theorem open_length_mismatch_rejected (bs : Bytes) (h : lengthField bs ≠ some bs.length) :
    fromOctets bs = .err := by
  unfold fromOctets openCheck
  cases hc : headerCheck bs with
  | none => rfl
  | some r => exact absurd (lengthField_of_check hc) h

/-- A KEEPALIVE whose header length field disagrees with the number of bytes
supplied is rejected. -/
theorem keepalive_length_mismatch_rejected (bs : Bytes) (h : lengthField bs ≠ some bs.length) :
    Notif.kaFromOctets bs = .err := by
  unfold Notif.kaFromOctets
  cases hc : headerCheck bs with
  | none => rfl
  | some r => exact absurd (lengthField_of_check hc) h

/-- ... and so is a NOTIFICATION (since the F10 fix). -/
theorem notif_length_mismatch_rejected (bs : Bytes) (h : lengthField bs ≠ some bs.length) :
    Notif.fromOctets bs = .err := by
  unfold Notif.fromOctets Notif.notifCheck
  cases hc : headerCheck bs with
  | none => rfl
  | some r => exact absurd (lengthField_of_check hc) h

example : lengthField (header 20 4) = some 20 ∧ (header 20 4).length = 19 := by decide

/-! ## NOTIFICATION -/

/-- wire form of a NOTIFICATION with code `c`, subcode `s`, data `d` -/
def encNotif (c s : UInt8) (d : Bytes) : Bytes := header (21 + d.length) 3 ++ [c, s] ++ d

/-- the same with an arbitrary type byte (`from_octets` does not look at it) -/
def encNotifT (t c s : UInt8) (d : Bytes) : Bytes := header (21 + d.length) t ++ [c, s] ++ d

private theorem encNotif_check (t c s : UInt8) (d : Bytes) (h : 21 + d.length < 65536) :
    headerCheck (encNotifT t c s d) = some (c :: s :: d) := by
  have := headerCheck_header (21 + d.length) t (c :: s :: d) (by simp; omega) h
  simpa [encNotifT] using this

private theorem drop21 (n : Nat) (t a b : UInt8) (r : Bytes) :
    List.drop 21 (header n t ++ a :: b :: r) = r := by
  have hl : (header n t ++ [a, b]).length = 21 := by simp [header_length]
  rw [show header n t ++ a :: b :: r = (header n t ++ [a, b]) ++ r by simp, ← hl, List.drop_left]

private theorem idx_header_append (n : Nat) (t : UInt8) (r : Bytes) (i : Nat) :
    idx (header n t ++ r) (19 + i) = idx r i := by
  unfold idx
  rw [List.getElem?_append_right (by simp [header_length])]
  simp [header_length]

private theorem notif_decode_encodeT (t c s : UInt8) (d : Bytes) (h : 21 + d.length < 65536) :
    let m := encNotifT t c s d
    Notif.fromOctets m = .ok m ∧ Notif.code m = .ok c ∧ Notif.detailsRaw m = .ok (Notif.rawOf c s) ∧
    Notif.data m = .ok (if d = [] then none else some d) ∧ Notif.length m = .ok (21 + d.length) := by
  intro m
  have hc := encNotif_check t c s d h
  have hm : m = header (21 + d.length) t ++ (c :: s :: d) := by simp [m, encNotifT]
  have hlen : m.length = 21 + d.length := by simp [hm, header_length]; omega
  refine ⟨?_, ?_, ?_, ?_, ?_⟩
  · simp [Notif.fromOctets, Notif.notifCheck, m, hc]
  · have := idx_header_append (21 + d.length) t (c :: s :: d) 0
    simpa [Notif.code, hm, idx] using this
  · have h0 := idx_header_append (21 + d.length) t (c :: s :: d) 0
    have h1 := idx_header_append (21 + d.length) t (c :: s :: d) 1
    simp only [Nat.add_zero] at h0
    simp only [Notif.detailsRaw, hm, h0, h1]
    simp [idx]
  · unfold Notif.data
    cases d with
    | nil => simp [hlen]
    | cons x xs =>
      have : List.drop 21 m = x :: xs := by rw [hm]; exact drop21 _ _ _ _ _
      simp [hlen, this]
  · have hs : slice m 0 19 = .ok (header (21 + d.length) t) := by
      unfold slice
      simp [hm, header_length]
    simp only [Notif.length, Open.length, hs, Outcome.bind_ok]
    have e : header (21 + d.length) t = marker ++ (be16 (21 + d.length) ++ [t]) := by simp [header]
    have i16 : idx (header (21 + d.length) t) 16 = .ok (UInt8.ofNat ((21 + d.length) / 256)) := by
      unfold idx; rw [e, List.getElem?_append_right (by simp)]; simp [be16]
    have i17 : idx (header (21 + d.length) t) 17 = .ok (UInt8.ofNat (21 + d.length)) := by
      unfold idx; rw [e, List.getElem?_append_right (by simp)]; simp [be16]
    simp only [i16, i17, Outcome.bind_ok, Outcome.pure_eq]
    congr 1
    simp [UInt8.toNat_ofNat']; omega

/-- The property's NOTIFICATION clause at full strength: every code, subcode and data (up to the
65535-byte limit of the length field) is accepted and code, SUBCODE and data are reported exactly
(`details().raw()` = (code, subcode)).  False of the code as it is – `notif_decode_statement_fails`:
`Details::Reserved` and `Details::HoldTimerExpired` have no field for the subcode, so for codes 0
and 4 `details()` drops it (known finding K1, filed under C18 and C03). -/
def NotifDecodeStatement : Prop :=
  ∀ (c s : UInt8) (d : Bytes), 21 + d.length < 65536 →
    let m := encNotif c s d
    Notif.fromOctets m = .ok m ∧ Notif.code m = .ok c ∧ Notif.detailsRaw m = .ok (c, s) ∧
    Notif.data m = .ok (if d = [] then none else some d) ∧ Notif.length m = .ok (21 + d.length)

/-- what the decoder does report, for every NOTIFICATION: `rawOf` = (code, subcode) except that
codes 0 and 4 lose the subcode -/
theorem notif_decode_encode_raw (c s : UInt8) (d : Bytes) (h : 21 + d.length < 65536) :
    let m := encNotif c s d
    Notif.fromOctets m = .ok m ∧ Notif.code m = .ok c ∧ Notif.detailsRaw m = .ok (Notif.rawOf c s) ∧
    Notif.data m = .ok (if d = [] then none else some d) ∧ Notif.length m = .ok (21 + d.length) :=
  notif_decode_encodeT 3 c s d h

/-- witness: Hold Timer Expired (4) with subcode 7 is reported as subcode 0 -/
theorem notif_decode_statement_fails : ¬ NotifDecodeStatement := by
  intro h
  have h1 := (h 4 7 [] (by decide)).2.2.1
  have h2 := (notif_decode_encode_raw 4 7 [] (by decide)).2.2.1
  rw [h2] at h1
  revert h1
  decide

/-- decode ∘ encode for NOTIFICATION with exactly the exclusion of K1: for every code other than
0 and 4 – and for 0 and 4 when the subcode is 0, the only value RFC 4271 uses with them – code,
subcode and data are reported exactly; acceptance, code, data and length hold for every
NOTIFICATION whatsoever. -/
theorem notif_decode_encode_partial (c s : UInt8) (d : Bytes) (h : 21 + d.length < 65536)
    (hk : (c.toNat ≠ 0 ∧ c.toNat ≠ 4) ∨ s = 0) :
    let m := encNotif c s d
    Notif.fromOctets m = .ok m ∧ Notif.code m = .ok c ∧ Notif.detailsRaw m = .ok (c, s) ∧
    Notif.data m = .ok (if d = [] then none else some d) ∧ Notif.length m = .ok (21 + d.length) := by
  have := notif_decode_encode_raw c s d h
  have e : Notif.rawOf c s = (c, s) := by
    unfold Notif.rawOf
    rcases hk with hk | hk
    · have : ¬ (c.toNat = 0 ∨ c.toNat = 4) := by omega
      simp [this]
    · subst hk; split <;> rfl
  rw [e] at this
  exact this

example : (21 + ([1, 2, 3] : Bytes).length < 65536) := by decide

/-- A NOTIFICATION produced by `NotificationBuilder` decodes back to the
values it was built from.  The builder is given a `Details` value; the model takes (code,
subcode) and forms the `Details` as the harness's `details_of` does, so for codes 0 and 4
(`Details::Reserved`, `Details::HoldTimerExpired`: no subcode field) what it was built from is
(code, 0) = `rawOf`; `Details::Unimplemented(c, s)` with c ≤ 7 is not in this domain. -/
theorem notif_builder_roundtrip (c s : UInt8) (d : Option Bytes) (bs : Bytes)
    (h : Notif.build c s d = .ok bs) :
    Notif.fromOctets bs = .ok bs ∧ Notif.code bs = .ok c ∧
    Notif.detailsRaw bs = .ok (Notif.rawOf c s) ∧
    Notif.data bs = .ok (if d.getD [] = [] then none else some (d.getD [])) := by
  unfold Notif.build at h
  have hraw : Notif.rawOf c (Notif.rawOf c s).2 = Notif.rawOf c s := by
    unfold Notif.rawOf; split <;> simp_all
  have hc1 : (Notif.rawOf c s).1 = c := by unfold Notif.rawOf; split <;> rfl
  split at h
  · simp at h
  · split at h
    · simp at h
    · rename_i h1 h2
      simp only [Outcome.ok.injEq] at h
      have e : encNotif c (Notif.rawOf c s).2 (d.getD []) = bs := by
        rw [← h, hc1]; simp [encNotif]
      have := notif_decode_encode_raw c (Notif.rawOf c s).2 (d.getD []) (by omega)
      simp only [e, hraw] at this
      exact ⟨this.1, this.2.1, this.2.2.1, this.2.2.2.1⟩

/-- The builder refuses (returns an error, does not panic or wrap) exactly when
the message would not fit the 16-bit length field. -/
theorem notif_builder_total (c s : UInt8) (d : Option Bytes) :
    Notif.build c s d ≠ .panic ∧
    (Notif.build c s d = .err ↔ 21 + (d.getD []).length > 65535) := by
  unfold Notif.build
  constructor
  · split
    · simp
    · split <;> simp
  · split
    · simp; omega
    · split
      · simp; omega
      · simp; omega

/-- No byte string panics NOTIFICATION decoding, and no accessor of an accepted
NOTIFICATION panics. -/
theorem notif_total (bs : Bytes) :
    Notif.fromOctets bs ≠ .panic ∧
    (∀ m, Notif.fromOctets bs = .ok m →
      Notif.code m ≠ .panic ∧ Notif.detailsRaw m ≠ .panic ∧ Notif.data m ≠ .panic ∧
      Notif.length m ≠ .panic) := by
  unfold Notif.fromOctets Notif.notifCheck
  cases hc : headerCheck bs with
  | none => simp
  | some r =>
    by_cases h2 : 2 ≤ r.length
    · simp only [h2, if_true]
      refine ⟨by simp, ?_⟩
      intro m hm
      simp at hm; subst hm
      obtain ⟨t, hb, hlt, hl⟩ := headerCheck_some hc
      match r, h2 with
      | c :: s :: d, _ =>
        have e : encNotifT t c s d = bs := by
          conv => rhs; rw [hb]
          simp [encNotifT]; simp at hl; rw [hl]; congr 1; omega
        have := notif_decode_encodeT t c s d (by simp at hl; omega)
        simp only [e] at this
        obtain ⟨_, h1, h2, h3, h4⟩ := this
        simp [h1, h2, h3, h4]
    · simp [h2]

/-! ## ROUTE-REFRESH -/

/-- decode ∘ encode for ROUTE-REFRESH: AFI, SAFI and subtype are reported exactly -/
theorem rr_decode_encode (x : Notif.RouteRefresh) (ha : x.afi < 65536) (hs : x.safi < 256)
    (ht : x.subtype < 256) : Notif.rrFromOctets (Notif.rrEncode x) = .ok x := by
  unfold Notif.rrFromOctets Notif.rrEncode
  have := headerParse_header 23 5 (be16 x.afi ++ [UInt8.ofNat x.subtype, UInt8.ofNat x.safi]) (by omega)
  simp only [List.append_assoc] at this ⊢
  rw [this]
  simp [be16, UInt8.toNat_ofNat']
  cases x; simp_all; omega

example : (⟨2, 128, 1⟩ : Notif.RouteRefresh).afi < 65536 := by decide

theorem rr_total (bs : Bytes) : Notif.rrFromOctets bs ≠ .panic := by
  unfold Notif.rrFromOctets
  cases headerParse bs with
  | none => simp
  | some p =>
    obtain ⟨len, t, r⟩ := p
    simp only
    split
    · simp
    · split <;> simp

/-- a ROUTE-REFRESH is only accepted when it is 23 bytes long and says so -/
theorem rr_accepted_length (bs : Bytes) (x : Notif.RouteRefresh) (h : Notif.rrFromOctets bs = .ok x) :
    bs.length = 23 ∧ lengthField bs = some 23 := by
  unfold Notif.rrFromOctets at h
  cases hp : headerParse bs with
  | none => simp [hp] at h
  | some p =>
    obtain ⟨len, t, r⟩ := p
    simp only [hp] at h
    split at h
    · simp at h
    · rename_i hc
      have hc' : len = 23 ∧ r.length = 4 := by omega
      unfold headerParse at hp
      cases h16 : takeN 16 bs with
      | none => simp [h16] at hp
      | some q =>
        obtain ⟨m, r1⟩ := q
        simp only [h16] at hp
        have ⟨hml, hb⟩ := takeN_length h16
        split at hp
        · simp at hp
        · cases h2 : rd16 r1 with
          | none => simp [h2] at hp
          | some q2 =>
            obtain ⟨l2, r2⟩ := q2
            simp only [h2] at hp
            cases r2 with
            | nil => simp at hp
            | cons t' r3 =>
              simp at hp
              obtain ⟨rfl, rfl, rfl⟩ := hp
              match r1, h2 with
              | a :: b :: r1', h2 =>
                simp [rd16] at h2
                obtain ⟨h2a, h2b⟩ := h2
                subst h2b
                constructor
                · rw [hb]; simp; omega
                · simp [lengthField, hb, hml, rd16]; omega

/-! ## OPEN: totality -/

/-- No byte string panics `OpenMessage::from_octets`. -/
theorem open_decode_total (bs : Bytes) : fromOctets bs ≠ .panic := by
  unfold fromOctets
  have := openCheck_ne_panic bs
  split
  · simp
  · simp
  · rename_i h; exact absurd h this

/-- No accessor or iterator of an accepted OPEN panics: header length, version,
AS field, hold time, identifier, opt-parm length, the parameter iterator, the
capability iterator (all items consumed), `my_asn`, `four_octet_capable`,
`multiprotocol_ids`, `addpath_families_vec`, `get_software_version`. -/
theorem open_accessors_total (bs m : Bytes) (h : fromOctets bs = .ok m) :
    length m ≠ .panic ∧ version m ≠ .panic ∧ asn2 m ≠ .panic ∧ holdtime m ≠ .panic ∧
    identifier m ≠ .panic ∧ optParmLen m ≠ .panic ∧
    (parameters m >>= collect) ≠ .panic ∧ (capabilities m >>= collect) ≠ .panic ∧
    myAsn m ≠ .panic ∧ fourOctetCapable m ≠ .panic ∧ multiprotocolIds m ≠ .panic ∧
    addpathFamiliesVec m ≠ .panic ∧ softwareVersion m ≠ .panic := by
  unfold fromOctets at h
  cases hc : openCheck bs with
  | err => simp [hc] at h
  | panic => simp [hc] at h
  | ok u =>
    simp only [hc, Outcome.ok.injEq] at h
    subst h
    obtain ⟨t, f9, opl, ps, hb, hf9, hps, hlt, hpc⟩ := openCheck_ok hc
    have hlen : bs.length = 29 + ps.length := by
      have := congrArg List.length hb
      simp [header_length, hf9] at this; omega
    have hpre : (header bs.length t ++ f9).length = 28 := by simp [header_length, hf9]
    have hparams := parameters_of_layout (header bs.length t ++ f9) opl ps hpre hps
    rw [← hb] at hparams
    have ⟨pi1, pi2⟩ := paramsCheck_iter ps.length ps hpc (Nat.le_refl _)
    cases hpi : paramsIter ps.length ps with
    | mk pl pp =>
      rw [hpi] at hparams pi1 pi2
      have hpp : pp = false := pi1
      subst hpp
      have ⟨fc1, fc2⟩ := flatCaps_good pl pi2
      cases hfc : flatCaps pl false with
      | mk cl cp =>
        rw [hfc] at fc1 fc2
        have hcp : cp = false := fc1
        subst hcp
        have hcaps : capabilities bs = .ok (cl, false) := by
          simp [capabilities, hparams, hfc]
        have i (k : Nat) (hk : k < 29) : idx bs k = .ok bs[k] := idx_of_lt (by omega)
        refine ⟨?_, ?_, ?_, ?_, ?_, ?_, ?_, ?_, ?_, ?_, ?_, ?_, ?_⟩
        · have hs := slice_of_le (bs := bs) (a := 0) (b := 19) (by omega)
          simp only [length, hs, Outcome.bind_ok]
          have hl19 : ((List.drop 0 bs).take (19 - 0)).length = 19 := by simp; omega
          rw [idx_of_lt (by omega), idx_of_lt (by omega)]
          simp
        · simp [version, i 19 (by omega)]
        · simp [asn2, i 20 (by omega), i 21 (by omega)]
        · simp [holdtime, i 22 (by omega), i 23 (by omega)]
        · simp [identifier, slice_of_le (bs := bs) (a := 24) (b := 28) (by omega)]
        · simp [optParmLen, i 28 (by omega)]
        · simp [hparams, collect]
        · simp [hcaps, collect]
        · simp only [myAsn, hcaps, Outcome.bind_ok, lazyFind_noPanic]
          cases hf : cl.find? (fun c => c.code.toNat == 65) with
          | none => simp [asn2, i 20 (by omega), i 21 (by omega)]
          | some c =>
            have hmem := List.mem_of_find?_eq_some hf
            have hp := List.find?_some hf
            have h65 : c.code.toNat = 65 := by simpa using hp
            obtain ⟨n, hn⟩ := be32val_of_len ((fc2 c hmem).1 h65)
            simp [hn]
        · simp only [fourOctetCapable, hcaps, Outcome.bind_ok, lazyFind_noPanic]
          cases cl.find? (fun c => c.code.toNat == 65) <;> simp
        · obtain ⟨l, hl⟩ := mpLoop_ok cl fc2
          simp [multiprotocolIds, hcaps, hl]
        · simp only [addpathFamiliesVec, hcaps]
          exact apLoop_ne_panic cl
        · simp only [softwareVersion, hcaps, Outcome.bind_ok, lazyFind_noPanic]
          cases cl.find? (fun c => c.code.toNat == 75) <;> simp

/-- `Message::from_octets` (without a session configuration) never panics, and
the accessors of what it returns do not either. -/
theorem message_total (bs : Bytes) :
    Notif.msgFromOctets bs ≠ .panic ∧
    ∀ k m, Notif.msgFromOctets bs = .ok (k, m) → Open.length m ≠ .panic ∧ Notif.msgType m ≠ .panic := by
  unfold Notif.msgFromOctets
  cases hp : headerParse bs with
  | none => simp
  | some p =>
    obtain ⟨len, t, r⟩ := p
    have h19 : 19 ≤ bs.length := by
      unfold headerParse at hp
      cases h16 : takeN 16 bs with
      | none => simp [h16] at hp
      | some q =>
        obtain ⟨m, r1⟩ := q
        have ⟨hm, hb⟩ := takeN_length h16
        simp only [h16] at hp
        split at hp
        · simp at hp
        · cases h2 : rd16 r1 with
          | none => simp [h2] at hp
          | some q2 =>
            obtain ⟨l2, r2⟩ := q2
            simp only [h2] at hp
            match r1, h2 with
            | a :: b :: r1', h2 =>
              simp [rd16] at h2
              cases r2 with
              | nil => simp at hp
              | cons t' r3 => rw [hb, h2.2]; simp; omega
    have acc (m : Bytes) (hm : m = bs) : Open.length m ≠ .panic ∧ Notif.msgType m ≠ .panic := by
      subst hm
      have hs := slice_of_le (bs := m) (a := 0) (b := 19) (by omega)
      have hl19 : ((List.drop 0 m).take (19 - 0)).length = 19 := by simp; omega
      constructor
      · simp only [Open.length, hs, Outcome.bind_ok]
        rw [idx_of_lt (by omega), idx_of_lt (by omega)]; simp
      · simp only [Notif.msgType, hs, Outcome.bind_ok]
        rw [idx_of_lt (by omega)]; simp
    simp only
    split
    · have := open_decode_total bs
      cases ho : Open.fromOctets bs with
      | ok m =>
        refine ⟨by simp, ?_⟩
        intro k m' hk; simp at hk
        have : m = bs := by
          unfold Open.fromOctets at ho; split at ho <;> simp at ho; exact ho.symm
        exact acc m' (by rw [← hk.2, this])
      | err => simp
      | panic => exact absurd ho this
    · simp
    · have := (notif_total bs).1
      cases ho : Notif.fromOctets bs with
      | ok m =>
        refine ⟨by simp, ?_⟩
        intro k m' hk; simp at hk
        have : m = bs := by
          unfold Notif.fromOctets at ho; split at ho <;> simp at ho; exact ho.symm
        exact acc m' (by rw [← hk.2, this])
      | err => simp
      | panic => exact absurd ho this
    · have := keepalive_total bs
      cases ho : Notif.kaFromOctets bs with
      | ok m =>
        refine ⟨by simp, ?_⟩
        intro k m' hk; simp at hk
        have : m = bs := by
          unfold Notif.kaFromOctets at ho; split at ho
          · simp at ho
          · split at ho <;> simp at ho; exact ho.symm
        exact acc m' (by rw [← hk.2, this])
      | err => simp
      | panic => exact absurd ho this
    · simp

/-! ## OPEN: decode ∘ encode -/

/-- Well-formed OPEN contents: 16-bit AS and hold time, 4-byte identifier,
every optional parameter fits its one-octet length, every capability is one the
decoder accepts standing alone (`WfCap`: one-octet length and the content rule
of its type, e.g. MultiProtocol/FourOctetAsn of length 4; any value for unknown
codes), and all parameters together fit the one-octet Opt Parm Len. -/
def WfOpen (f : Fields) (l : List PSpec) : Prop :=
  f.asn2 < 65536 ∧ f.ht < 65536 ∧ f.id.length = 4 ∧ (∀ p ∈ l, WfPSpec p) ∧
  (encParams (l.map PSpec.toParam)).length ≤ 255

/-- decode ∘ encode for OPEN, for all field values, all lists of optional
parameters (Capabilities parameters with one or many capabilities each, and
non-capability parameters) and all well-formed capabilities of known and
unknown codes: the message is accepted and every accessor reports exactly what
was encoded; `my_asn` gives the first 4-octet capability precedence over the
2-octet field. -/
theorem open_decode_encode (f : Fields) (l : List PSpec) (hw : WfOpen f l) :
    let m := encOpen f (l.map PSpec.toParam)
    fromOctets m = .ok m ∧
    length m = .ok (29 + (encParams (l.map PSpec.toParam)).length) ∧
    version m = .ok f.ver ∧ asn2 m = .ok f.asn2 ∧ holdtime m = .ok f.ht ∧
    identifier m = .ok f.id ∧
    optParmLen m = .ok (UInt8.ofNat (encParams (l.map PSpec.toParam)).length) ∧
    (parameters m >>= collect) = .ok (l.map PSpec.toParam) ∧
    (capabilities m >>= collect) = .ok (allCaps l) ∧
    myAsn m = (match (allCaps l).find? (fun c => c.code.toNat == 65) with
               | some c => be32val c.value
               | none => .ok f.asn2) ∧
    fourOctetCapable m = .ok ((allCaps l).any (fun c => c.code.toNat == 65)) ∧
    multiprotocolIds m = .ok (mpSpec (allCaps l)) ∧
    addpathFamiliesVec m = apLoop (allCaps l) false ∧
    softwareVersion m = .ok (((allCaps l).find? (fun c => c.code.toNat == 75)).map (·.value)) := by
  intro m
  obtain ⟨ha, hh, hid, hps, hlen⟩ := hw
  generalize hP : encParams (l.map PSpec.toParam) = P at *
  match hidv : f.id, hid with
  | [i0, i1, i2, i3], _ =>
    let f9 : Bytes := [f.ver] ++ be16 f.asn2 ++ be16 f.ht ++ [i0, i1, i2, i3]
    let opl := UInt8.ofNat P.length
    have hopl : P.length = opl.toNat := (toNat_ofNat_le255 hlen).symm
    have hm : m = (header (29 + P.length) 1 ++ f9 ++ [opl]) ++ P := by
      simp [m, encOpen, encOpenRaw, hP, hidv, f9, opl]
    have hm2 : m = header (29 + P.length) 1 ++ (f9 ++ opl :: P) := by rw [hm]; simp
    have ⟨pi, pc⟩ := params_enc l hps P.length (by rw [hP]; exact Nat.le_refl _)
    rw [hP] at pi pc
    have hcheck := openCheck_layout 1 f9 opl P (by simp [f9, be16]) hopl pc
    have hparams := parameters_of_layout (header (29 + P.length) 1 ++ f9) opl P
      (by simp [header_length, f9, be16]) hopl
    rw [← hm] at hcheck hparams
    rw [pi] at hparams
    have hcaps : capabilities m = .ok (allCaps l, false) := by
      simp [capabilities, hparams, flatCaps_enc l hps]
    have hgood : ∀ c ∈ allCaps l, GoodCap c := by
      have := flatCaps_good (l.map PSpec.toParam) (by
        have := (paramsCheck_iter P.length P pc (Nat.le_refl _)).2
        rw [pi] at this; exact this)
      rw [flatCaps_enc l hps] at this
      exact this.2
    have ix (k : Nat) : idx m (19 + k) = idx (f9 ++ opl :: P) k := by
      rw [hm2]; exact idx_header_append' _ _ _ _
    refine ⟨?_, ?_, ?_, ?_, ?_, ?_, ?_, ?_, ?_, ?_, ?_, ?_, ?_, ?_⟩
    · simp [fromOctets, hcheck]
    · rw [hm2]; exact length_header _ (by omega) _ _
    · have h0 : idx m 19 = idx (f9 ++ opl :: P) 0 := ix 0
      rw [version, h0]; simp [f9, idx, be16]
    · have h1 : idx m 20 = idx (f9 ++ opl :: P) 1 := ix 1
      have h2 : idx m 21 = idx (f9 ++ opl :: P) 2 := ix 2
      simp only [asn2, h1, h2]
      simp [f9, idx, be16, UInt8.toNat_ofNat']; omega
    · have h1 : idx m 22 = idx (f9 ++ opl :: P) 3 := ix 3
      have h2 : idx m 23 = idx (f9 ++ opl :: P) 4 := ix 4
      simp only [holdtime, h1, h2]
      simp [f9, idx, be16, UInt8.toNat_ofNat']; omega
    · unfold identifier slice
      have hl : m.length = 29 + P.length := by rw [hm]; simp [header_length, f9, be16]; omega
      simp only [hl, show (24 ≤ 28 ∧ 28 ≤ 29 + P.length) from by omega, if_true, Outcome.ok.injEq]
      have e24 : m = (header (29 + P.length) 1 ++ ([f.ver] ++ be16 f.asn2 ++ be16 f.ht)) ++
          (i0 :: i1 :: i2 :: i3 :: opl :: P) := by rw [hm2]; simp [f9]
      rw [e24, List.drop_left' (by simp [header_length, be16])]
      simp
    · have h9 : idx m 28 = idx (f9 ++ opl :: P) 9 := ix 9
      rw [optParmLen, h9]; simp [f9, idx, be16, opl]
    · simp [hparams, collect]
    · simp [hcaps, collect]
    · simp only [myAsn, hcaps, Outcome.bind_ok, lazyFind_noPanic]
      cases hf : (allCaps l).find? (fun c => c.code.toNat == 65) with
      | none =>
        have h1 : idx m 20 = idx (f9 ++ opl :: P) 1 := ix 1
        have h2 : idx m 21 = idx (f9 ++ opl :: P) 2 := ix 2
        simp only [asn2, h1, h2]
        simp [f9, idx, be16, UInt8.toNat_ofNat']; omega
      | some c => simp
    · simp only [fourOctetCapable, hcaps, Outcome.bind_ok, lazyFind_noPanic]
      cases hf : (allCaps l).find? (fun c => c.code.toNat == 65) with
      | none =>
        have : (allCaps l).any (fun c => c.code.toNat == 65) = false := by
          rw [List.find?_eq_none] at hf
          simpa [List.any_eq_false] using hf
        simp [this]
      | some c =>
        have hmem := List.mem_of_find?_eq_some hf
        have hp := List.find?_some hf
        have : (allCaps l).any (fun c => c.code.toNat == 65) = true :=
          List.any_eq_true.mpr ⟨c, hmem, hp⟩
        simp [this]
    · simp [multiprotocolIds, hcaps, mpLoop_spec _ hgood]
    · simp [addpathFamiliesVec, hcaps]
    · simp only [softwareVersion, hcaps, Outcome.bind_ok, lazyFind_noPanic]
      cases (allCaps l).find? (fun c => c.code.toNat == 75) <;> simp

/-- an example satisfying `WfOpen`: a 4-octet capability and a MultiProtocol
capability in one parameter, an ADD-PATH capability with two families in a
second one, an unknown capability, and a non-capability parameter -/
example : WfOpen ⟨4, 23456, 90, [10, 0, 0, 1]⟩
    [.caps [⟨65, [0, 1, 0, 0]⟩, ⟨1, [0, 2, 0, 1]⟩], .other 1 [2, 5],
     .caps [⟨69, [0, 1, 1, 3, 0, 2, 1, 1]⟩, ⟨200, [1, 2, 3]⟩]] := by
  refine ⟨by decide, by decide, by decide, ?_, by decide⟩
  intro p hp
  simp at hp
  rcases hp with rfl | rfl | rfl
  · refine ⟨?_, by decide⟩
    intro c hc; simp at hc; rcases hc with rfl | rfl <;> decide
  · exact ⟨by decide, by decide⟩
  · refine ⟨?_, by decide⟩
    intro c hc; simp at hc; rcases hc with rfl | rfl <;> decide

/-- the ADD-PATH family list is reported entry by entry: a capability list
whose ADD-PATH capabilities carry `es₁, es₂, …` yields their concatenation -/
theorem addpath_list_reported (cs : List Cap) (l : List (Nat × Nat × Nat))
    (h : apSpec cs = some l) : apLoop cs false = .ok l := apLoop_ok_spec cs l h

/-- ... and an ADD-PATH capability value built from entries (AFI, SAFI,
direction 1..3) decodes to exactly those entries, for every list length. -/
theorem addpath_value_roundtrip (es : List (Nat × Nat × Nat)) (h : ∀ e ∈ es, WfApEntry e) :
    apValue (es.flatMap encApEntry) = some es := apValue_enc es h

/-- some capability forms that are `WfCap` for all parameters: MultiProtocol,
4-octet AS, the zero-length ones, and every unknown code with any value that
fits the length octet -/
theorem wfCap_examples :
    (∀ a b r s : UInt8, WfCap ⟨1, [a, b, r, s]⟩) ∧
    (∀ a b c d : UInt8, WfCap ⟨65, [a, b, c, d]⟩) ∧
    WfCap ⟨2, []⟩ ∧ WfCap ⟨6, []⟩ ∧ WfCap ⟨70, []⟩ ∧ WfCap ⟨128, []⟩ ∧
    (∀ (v : Bytes), v.length ≤ 255 → WfCap ⟨200, v⟩ ∧ WfCap ⟨0, v⟩ ∧ WfCap ⟨66, v⟩) := by
  refine ⟨?_, ?_, by decide, by decide, by decide, by decide, ?_⟩
  · intro a b r s; exact ⟨by simp, by simp [capContent]⟩
  · intro a b c d; exact ⟨by simp, by simp [capContent]⟩
  · intro v hv
    refine ⟨⟨hv, ?_⟩, ⟨hv, ?_⟩, ⟨hv, ?_⟩⟩ <;> simp [capContent]

/-! ## the same through `Message::from_octets` (the dispatch on the header's type octet) -/

/-- The clause "for every well-formed OPEN, NOTIFICATION, KEEPALIVE and ROUTE-REFRESH message
decoding succeeds", read at `Message::from_octets`.  False of the code as it is for
ROUTE-REFRESH: the arm for type 5 returns `Err(ParseError::Unsupported)` although
`Message::RouteRefresh` and `RouteRefreshMessage::from_octets` exist (known finding K13;
repairing it changes what a live session does with a received ROUTE-REFRESH, see DESIGN 14.3). -/
def MsgRouteRefreshStatement : Prop :=
  ∀ x : Notif.RouteRefresh, x.afi < 65536 → x.safi < 256 → x.subtype < 256 →
    Notif.msgFromOctets (Notif.rrEncode x) ≠ .err

theorem msg_routerefresh_statement_fails : ¬ MsgRouteRefreshStatement := by
  intro h
  exact h ⟨1, 1, 0⟩ (by decide) (by decide) (by decide) (by decide)

/-- the provable part: a well-formed OPEN (any `WfOpen`, hence any RFC-formed one), every
NOTIFICATION and the KEEPALIVE are dispatched to their decoders and accepted as what they are -/
theorem message_dispatch_partial :
    (∀ (f : Fields) (l : List PSpec), WfOpen f l →
      Notif.msgFromOctets (encOpen f (l.map PSpec.toParam)) = .ok (.open, encOpen f (l.map PSpec.toParam))) ∧
    (∀ (c s : UInt8) (d : Bytes), 21 + d.length < 65536 →
      Notif.msgFromOctets (encNotif c s d) = .ok (.notification, encNotif c s d)) ∧
    Notif.msgFromOctets Notif.kaBuild = .ok (.keepalive, Notif.kaBuild) := by
  refine ⟨?_, ?_, ?_⟩
  · intro f l hw
    have h := (open_decode_encode f l hw).1
    have hlen : 29 + (encParams (l.map PSpec.toParam)).length < 65536 := by have := hw.2.2.2.2; omega
    unfold Notif.msgFromOctets
    have hp : headerParse (encOpen f (l.map PSpec.toParam)) =
        some (29 + (encParams (l.map PSpec.toParam)).length, 1,
          [f.ver] ++ be16 f.asn2 ++ be16 f.ht ++ f.id ++
            [UInt8.ofNat (encParams (l.map PSpec.toParam)).length] ++ encParams (l.map PSpec.toParam)) := by
      have := headerParse_header (29 + (encParams (l.map PSpec.toParam)).length) 1
        ([f.ver] ++ be16 f.asn2 ++ be16 f.ht ++ f.id ++
            [UInt8.ofNat (encParams (l.map PSpec.toParam)).length] ++ encParams (l.map PSpec.toParam)) hlen
      simpa [encOpen, encOpenRaw] using this
    rw [hp]
    simp only [show (1 : UInt8).toNat = 1 from rfl]
    rw [h]
  · intro c s d hd
    have h := (notif_decode_encode_raw c s d hd).1
    unfold Notif.msgFromOctets
    have hp : headerParse (encNotif c s d) = some (21 + d.length, 3, [c, s] ++ d) := by
      have := headerParse_header (21 + d.length) 3 ([c, s] ++ d) hd
      simpa [encNotif] using this
    rw [hp]
    simp only [show (3 : UInt8).toNat = 3 from rfl]
    rw [h]
  · decide

/-! ### well-formed = as the capability's defining document says (audit finding H1)

`WfCap` above is the decoder's own content rule.  `RfcCap` (Rc/Lemmas/OpenRfc.lean) is written
from the RFCs / drafts that define the capabilities (value forms of all 21 content-checked codes;
any value for code 0 and unknown codes); `rfcCap_wf` proves every RFC-formed capability is one the
decoder accepts, so the decode-after-encode theorem holds for every RFC-formed OPEN. -/

/-- an OPEN whose fields fit their widths, whose parameters fit the one-octet lengths, and whose
capabilities all have the form their defining document prescribes -/
def RfcOpen (f : Fields) (l : List PSpec) : Prop :=
  f.asn2 < 65536 ∧ f.ht < 65536 ∧ f.id.length = 4 ∧
  (∀ p ∈ l, match p with
    | .caps cs => (∀ c ∈ cs, c.value.length ≤ 255 ∧ RfcCap c.code.toNat c.value = true) ∧
                  (encCaps cs).length ≤ 255
    | .other t v => t.toNat ≠ 2 ∧ v.length ≤ 255) ∧
  (encParams (l.map PSpec.toParam)).length ≤ 255

theorem rfcOpen_wf (f : Fields) (l : List PSpec) (h : RfcOpen f l) : WfOpen f l := by
  obtain ⟨h1, h2, h3, h4, h5⟩ := h
  refine ⟨h1, h2, h3, ?_, h5⟩
  intro p hp
  have := h4 p hp
  cases p with
  | caps cs => exact ⟨fun c hc => rfcCap_wf c (this.1 c hc).1 (this.1 c hc).2, this.2⟩
  | other t v => exact this

/-- **decode ∘ encode for every RFC-formed OPEN** (the property's first clause with "well-formed"
read off the RFCs, not off the decoder): accepted, and every accessor reports what was encoded. -/
theorem open_decode_encode_rfc (f : Fields) (l : List PSpec) (hw : RfcOpen f l) :
    let m := encOpen f (l.map PSpec.toParam)
    fromOctets m = .ok m ∧
    version m = .ok f.ver ∧ asn2 m = .ok f.asn2 ∧ holdtime m = .ok f.ht ∧
    identifier m = .ok f.id ∧
    (parameters m >>= collect) = .ok (l.map PSpec.toParam) ∧
    (capabilities m >>= collect) = .ok (allCaps l) ∧
    myAsn m = (match (allCaps l).find? (fun c => c.code.toNat == 65) with
               | some c => be32val c.value
               | none => .ok f.asn2) ∧
    fourOctetCapable m = .ok ((allCaps l).any (fun c => c.code.toNat == 65)) ∧
    multiprotocolIds m = .ok (mpSpec (allCaps l)) ∧
    addpathFamiliesVec m = apLoop (allCaps l) false := by
  intro m
  have h := open_decode_encode f l (rfcOpen_wf f l hw)
  exact ⟨h.1, h.2.2.1, h.2.2.2.1, h.2.2.2.2.1, h.2.2.2.2.2.1, h.2.2.2.2.2.2.2.1, h.2.2.2.2.2.2.2.2.1,
    h.2.2.2.2.2.2.2.2.2.1, h.2.2.2.2.2.2.2.2.2.2.1, h.2.2.2.2.2.2.2.2.2.2.2.1, h.2.2.2.2.2.2.2.2.2.2.2.2.1⟩

/-- **the ADD-PATH family list, end to end**: an RFC-formed OPEN reports, as
`addpath_families_vec()`, exactly the (AFI, SAFI, Send/Receive) tuples of all its ADD-PATH
capabilities in wire order (`apAll`/`apEntries`: the RFC 7911 reading, 4 octets per tuple, written
without the decoder's `chunks`/`try_from` steps). -/
theorem addpath_end_to_end (f : Fields) (l : List PSpec) (hw : RfcOpen f l) :
    addpathFamiliesVec (encOpen f (l.map PSpec.toParam)) = .ok (apAll (allCaps l)) := by
  have h := (open_decode_encode_rfc f l hw).2.2.2.2.2.2.2.2.2.2
  rw [h]
  apply apLoop_ok_spec
  apply apSpec_of_form
  intro c hc h69
  simp only [allCaps, List.mem_flatMap] at hc
  obtain ⟨p, hp, hcp⟩ := hc
  have := hw.2.2.2.1 p hp
  cases p with
  | caps cs =>
    have hr := (this.1 c hcp).2
    simp only [RfcCap, h69, Bool.and_eq_true] at hr
    exact hr.2
  | other t v => simp [PSpec.capList] at hcp

/-- an RFC-formed OPEN with a Paths-Limit capability in its draft form (AFI 16388 = BGP-LS,
SAFI 71, limit 10 – rejected before the fix), a graceful-restart, an ORF capability with two
blocks, host name, software version and an ADD-PATH capability -/
example : RfcOpen ⟨4, 23456, 90, [10, 0, 0, 1]⟩
    [.caps [⟨76, [0x40, 4, 71, 0, 10]⟩, ⟨64, [0x40, 120, 0, 1, 1, 0x80]⟩],
     .caps [⟨3, [0, 1, 0, 1, 1, 64, 3, 0, 2, 0, 1, 0]⟩, ⟨73, [1, 97, 2, 98, 99]⟩, ⟨75, [2, 118, 49]⟩,
            ⟨69, [0, 1, 1, 3, 0, 2, 1, 1]⟩]] := by
  refine ⟨by decide, by decide, by decide, ?_, by decide⟩
  intro p hp
  simp at hp
  rcases hp with rfl | rfl
  · refine ⟨?_, by decide⟩
    intro c hc; simp at hc; rcases hc with rfl | rfl <;> decide
  · refine ⟨?_, by decide⟩
    intro c hc; simp at hc; rcases hc with rfl | rfl | rfl | rfl <;> decide

/-! ## OpenBuilder -/

/-- total number of capability bytes `finish` has to fit into the one-octet lengths -/
def capBytes (b : Builder) : Nat :=
  (b.caps.map List.length).sum + (if b.addpath.isEmpty then 0 else 2 + 4 * b.addpath.length)

/-- what a user may give to `OpenBuilder`: a 4-byte identifier, a 16-bit hold
time, capabilities that are well-formed TLVs, ADD-PATH entries with direction 1..3 -/
def WfBuilder (b : Builder) (cs : List Cap) : Prop :=
  b.id.length = 4 ∧ b.ht < 65536 ∧ b.caps = cs.map encCap ∧ (∀ c ∈ cs, WfCap c) ∧
  (∀ e ∈ b.addpath, WfApEntry e)

/-- the capabilities the built OPEN must carry: those added, then one ADD-PATH
capability with all `add_addpath` entries -/
def builderCaps (b : Builder) (cs : List Cap) : List Cap :=
  cs ++ (if b.addpath.isEmpty then [] else [⟨69, b.addpath.flatMap encApEntry⟩])

def builderParams (b : Builder) (cs : List Cap) : List PSpec :=
  if (builderCaps b cs).isEmpty then [] else [.caps (builderCaps b cs)]

def builderFields (b : Builder) : Fields := ⟨4, if b.asn < 65536 then b.asn else 23456, b.ht, b.id⟩

/-- The full round-trip statement for `OpenBuilder`: whatever well-formed
values it is given, `finish` produces (without panicking) the OPEN that encodes
exactly those values. -/
def OpenBuilderStatement : Prop :=
  ∀ (b : Builder) (cs : List Cap), WfBuilder b cs →
    finish b = .ok (encOpen (builderFields b) ((builderParams b cs).map PSpec.toParam))

private theorem sumU8_ok (l : List Bytes) (acc : Nat) (h : acc + (l.map List.length).sum ≤ 255) :
    sumU8 l acc = .ok (acc + (l.map List.length).sum) := by
  induction l generalizing acc with
  | nil => simp [sumU8]
  | cons c l ih =>
    simp only [List.map_cons, List.sum_cons] at h
    unfold sumU8
    have : c.length % 256 = c.length := by omega
    simp only [this, show acc + c.length ≤ 255 from by omega, if_true]
    rw [ih _ (by omega)]
    simp [Nat.add_assoc]

private theorem flatMap_id_map_encCap (cs : List Cap) : (cs.map encCap).flatMap id = encCaps cs := by
  simp [encCaps, List.flatMap_map]

/-- **Known finding K4**: the full statement is false – with 254 capability
bytes (one unknown capability with a 252-byte value) `finish` panics on its
`u8` additions. -/
theorem open_builder_statement_fails : ¬ OpenBuilderStatement := by
  intro h
  have hv : (List.replicate 252 (0 : UInt8)).length = 252 := List.length_replicate
  generalize List.replicate 252 (0 : UInt8) = v at hv
  have hw : WfBuilder ⟨1, 90, [1, 2, 3, 4], [encCap ⟨200, v⟩], []⟩ [⟨200, v⟩] := by
    refine ⟨by simp, by simp, by simp, ?_, by simp⟩
    intro c hc; simp at hc; subst hc
    exact (wfCap_examples.2.2.2.2.2.2 _ (by omega)).1
  have := h _ _ hw
  have hl : (encCap ⟨200, v⟩).length = 254 := by rw [encCap_length]; simp [hv]
  have hp : finish ⟨1, 90, [1, 2, 3, 4], [encCap ⟨200, v⟩], []⟩ = .panic := by
    simp [finish, sumU8, hl]
  rw [hp] at this
  cases this

/-- The proved part: up to 253 capability bytes the builder produces exactly the
encoding of its inputs, which is a well-formed OPEN, so by `open_decode_encode`
it decodes back to the values it was built from (AS number with AS_TRANS
substitution, hold time, identifier, every capability added in order, then the
ADD-PATH capability with all families). -/
theorem open_builder_roundtrip_partial (b : Builder) (cs : List Cap) (hw : WfBuilder b cs)
    (hb : capBytes b ≤ 253) :
    finish b = .ok (encOpen (builderFields b) ((builderParams b cs).map PSpec.toParam)) ∧
    WfOpen (builderFields b) (builderParams b cs) := by
  obtain ⟨hid, hht, hcaps, hwf, hap⟩ := hw
  -- the ADD-PATH capability bytes are the encoding of the ADD-PATH capability
  have hapn : ¬ b.addpath.isEmpty → 4 * b.addpath.length ≤ 251 := by
    intro hne; simp [capBytes, hne] at hb; omega
  have haplen : (b.addpath.flatMap encApEntry).length = 4 * b.addpath.length := by
    induction b.addpath with
    | nil => simp
    | cons e es ih => simp [encApEntry, ih]; omega
  have hapenc : ¬ b.addpath.isEmpty →
      addpathCapBytes b.addpath = encCap ⟨69, b.addpath.flatMap encApEntry⟩ := by
    intro hne
    have := hapn hne
    simp only [addpathCapBytes, encCap, haplen]
    rw [if_pos (by omega)]
    simp only [List.cons_append, List.nil_append, List.cons.injEq, true_and]
    rfl
  have hapwf : ¬ b.addpath.isEmpty → WfCap ⟨69, b.addpath.flatMap encApEntry⟩ := by
    intro hne
    have hn := hapn hne
    refine ⟨by simp only [haplen]; omega, ?_⟩
    match hbp : b.addpath, hne with
    | (a, s, d) :: es, _ =>
      have hd := (hap (a, s, d) (by simp [hbp])).2.2.2
      simp only at hd
      simp [capContent, encApEntry, be16, UInt8.toNat_ofNat']
      omega
  -- all capability TLVs the builder writes
  have hall : (if b.addpath.isEmpty then b.caps else b.caps ++ [addpathCapBytes b.addpath]) =
      (builderCaps b cs).map encCap := by
    by_cases he : b.addpath.isEmpty
    · simp [builderCaps, he, hcaps]
    · simp [builderCaps, he, hcaps, hapenc he]
  have hallwf : ∀ c ∈ builderCaps b cs, WfCap c := by
    intro c hc
    simp only [builderCaps, List.mem_append] at hc
    rcases hc with hc | hc
    · exact hwf c hc
    · by_cases he : b.addpath.isEmpty
      · simp [he] at hc
      · simp [he] at hc; subst hc; exact hapwf he
  have hsum : (((builderCaps b cs).map encCap).map List.length).sum = capBytes b := by
    by_cases he : b.addpath.isEmpty
    · simp [builderCaps, capBytes, he, hcaps]
    · simp [builderCaps, capBytes, he, hcaps, encCap_length, haplen]
  have hlenc : (encCaps (builderCaps b cs)).length = capBytes b := by
    rw [← hsum, ← flatMap_id_map_encCap]; simp [List.length_flatMap]
  constructor
  · unfold finish
    simp only [hall]
    rw [sumU8_ok _ 0 (by rw [hsum]; omega)]
    simp only [Nat.zero_add, hsum]
    by_cases h0 : capBytes b = 0
    · have hnil : builderCaps b cs = [] := by
        cases hbc : builderCaps b cs with
        | nil => rfl
        | cons c r =>
          rw [hbc] at hlenc
          simp [encCaps, encCap_length] at hlenc; omega
      simp [h0, hnil, builderParams, encOpen, encOpenRaw, encParams, builderFields]
    · have hne : builderCaps b cs ≠ [] := by
        intro hnil; rw [hnil] at hlenc; simp [encCaps] at hlenc; omega
      have hpos : capBytes b > 0 := by omega
      have hnp : ¬ (capBytes b > 0 ∧ capBytes b + 2 > 255) := by omega
      simp only [hnp, if_false, hpos, if_true, flatMap_id_map_encCap]
      have hemp : (builderCaps b cs).isEmpty = false := by
        cases hbc : builderCaps b cs with
        | nil => exact absurd hbc hne
        | cons _ _ => rfl
      simp [builderParams, hemp, encOpen, encOpenRaw, encParams, encParam, PSpec.toParam,
        builderFields, hlenc, show capBytes b + 2 > 0 from by omega]
      rw [if_neg (by omega)]
      have e1 : capBytes b + 1 + 1 = capBytes b + 2 := by omega
      have e2 : UInt8.ofNat (capBytes b) + 1 + 1 = UInt8.ofNat (capBytes b) + 2 := by
        rw [UInt8.add_assoc]; rfl
      rw [e1, e2]
  · refine ⟨?_, hht, hid, ?_, ?_⟩
    · simp only [builderFields]; split <;> omega
    · intro p hp
      simp only [builderParams] at hp
      split at hp
      · simp at hp
      · simp at hp; subst hp
        exact ⟨hallwf, by rw [hlenc]; omega⟩
    · simp only [builderParams]
      split
      · simp [encParams]
      · simp [encParams, encParam, PSpec.toParam, hlenc]; omega

example : WfBuilder ⟨65536, 90, [10, 0, 0, 1], [fourOctetCapBytes 65536, mpCapBytes 2 1], [(1, 1, 3)]⟩
    [⟨65, be32 65536⟩, ⟨1, [0, 2, 0, 1]⟩] ∧
    capBytes ⟨65536, 90, [10, 0, 0, 1], [fourOctetCapBytes 65536, mpCapBytes 2 1], [(1, 1, 3)]⟩ ≤ 253 := by
  refine ⟨⟨by decide, by decide, by decide, ?_, ?_⟩, by decide⟩
  · intro c hc; simp at hc; rcases hc with rfl | rfl <;> decide
  · intro e he; simp at he; subst he; decide

end Rc.Thm.C03
