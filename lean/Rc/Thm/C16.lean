/-
C16 – MRT table-dump iteration conserves entries; parallel equals sequential;
BGP4MP message iteration is in order and truncation-safe.

Property theorems only.  The model (Rc/Model/Mrt.lean) mirrors src/mrt.rs;
`encFile` / `encRecs` are the reference encoder for TABLE_DUMP_V2 / BGP4MP
files; `WfFile` / `WfRec` (Rc/Lemmas/Mrt.lean) say that a content description
is encodable per RFC 6396 (field ranges, address lengths, prefix host bits
zero, every peer index is in range; a RIB table may have any number of entries,
ZERO included – RFC 6396 4.3.2 allows Entry Count 0; `RibEntryIterator` passes
such a table over since the repair F34).
Path attributes and embedded BGP messages are arbitrary byte strings.
-/
import Rc.Lemmas.Mrt
import Rc.Lemmas.IterProto

namespace Rc.Thm.C16
open Rc Rc.Mrt

set_option linter.unusedSimpArgs false

/-! ## what a file contains -/

/-- the peer index table as parsed values -/
def peersOf (f : FileSpec) : List PeerEntry := f.peers.map PeerSpec.entry

/-- the (family, peer index, peer, prefix, attributes) entries of a file, in
file order, **peers resolved through the file's index table** -/
def entriesOf (f : FileSpec) : List RibItem :=
  f.tables.flatMap fun t => t.entries.map (ribItem (peersOf f) t)

/-- the (family, header) items of a file's RIB tables -/
def tablesOf (f : FileSpec) : List (Bool × RibEntryHeader) := f.tables.map fun t => (t.v6, t.hdr)

/-- (prefix, peer index, attributes): what `SingleEntryIterator` /
`rib_entries_mt` yield for an entry -/
def triple : RibItem → SingleItem
  | (_, idx, _, pfx, attrs) => (pfx, idx, attrs)

/-! ## examples: the hypotheses are satisfiable by non-trivial content -/

/-- two peers (IPv4/2-octet AS, IPv6/4-octet AS), an IPv4 /21 table with two
entries and an IPv6 /33 table with one -/
def demoFile : FileSpec :=
  { ts := 1727740800, collector := 0xc0000201, view := [0x72, 0x72, 0x63],
    peers := [⟨0x0a000001, [10, 0, 0, 1], 64512, false⟩,
              ⟨0x0a000002, [0x20, 1, 0xd, 0xb8, 0, 0, 0, 0, 0, 0, 0, 0, 0, 0, 0, 1], 4200000001, true⟩],
    tables := [⟨1727740800, 0, false, 21, [192, 0, 8], [⟨1, 5, [0x40, 1, 1, 0]⟩, ⟨0, 6, []⟩]⟩,
               ⟨1727740800, 1, true, 33, [0x20, 1, 0xd, 0xb8, 0x80], [⟨1, 7, [0x40, 1, 1, 2]⟩]⟩] }

example : WfFile demoFile := by decide

/-- the same file with tables WITHOUT entries (Entry Count 0) in front of, between and after the
others: inside `WfFile`, so every TABLE_DUMP_V2 theorem below speaks about it (before the repair
F34 `rib_entries()` panicked on it while `tables()` and `rib_entries_mt()` did not) -/
def demoFileEmptyTables : FileSpec :=
  { demoFile with tables :=
      [⟨1, 9, false, 8, [10], []⟩] ++ demoFile.tables.take 1 ++ [⟨2, 10, true, 0, [], []⟩, ⟨3, 11, false, 0, [], []⟩]
        ++ demoFile.tables.drop 1 ++ [⟨4, 12, true, 128, List.replicate 16 255, []⟩] }

example : WfFile demoFileEmptyTables := by decide

/-- a STATE_CHANGE_AS4 over IPv6 with extended timestamp and a MESSAGE (2-octet
AS, IPv4) carrying a KEEPALIVE -/
def demoRecs : List RecSpec :=
  [⟨1727740800, true, 999999,
      .stateChange true 4200000001 64512 3 true (List.replicate 16 1) (List.replicate 16 2) 5 6⟩,
   ⟨1727740801, false, 0,
      .message false 64512 64513 0 false [10, 0, 0, 1] [10, 0, 0, 2]
        (List.replicate 16 0xff ++ [0, 19, 4])⟩]

example : ∀ r ∈ demoRecs, WfRec r := by decide

/-! ## TABLE_DUMP_V2 -/

/-- The peer index table of a well-formed file is read back exactly
(`MrtFile::pi`, and the index every iterator resolves peers through). -/
theorem peer_index_eq (f : FileSpec) (h : WfFile f) : peerIndex (encFile f) = .ok (peersOf f) := by
  exact peerIndex_of_parts (extract_encFile f h)

/-- Clause "the sequential RIB iterator yields exactly the entries the file
contains, with peers resolved through the file's peer index table":
`MrtFile::rib_entries` driven to exhaustion, including the `current_table`
hand-over between tables, for every well-formed file (any number of peers,
tables, entries; any attribute bytes). -/
theorem rib_entries_eq (f : FileSpec) (h : WfFile f) : ribEntries (encFile f) = .ok (entriesOf f) := by
  rw [ribEntries_of_parts (extract_encFile f h)]
  have hts : ∀ t ∈ f.tables, WfTable (f.peers.map PeerSpec.entry).length t := by
    simpa using h.2.2.2.2.2.2
  have hle := totalEntries_le f.tables
  have hfuel : (encTables f.tables).length + 1
      = ((encTables f.tables).length + 1 - totalEntries f.tables) + totalEntries f.tables := by omega
  rw [hfuel]
  exact drain_rib_tables _ f.tables hts none _ (by omega)

/-- Clause "the per-table iterator": `MrtFile::tables` yields the peer index
and, in file order, one (family, prefix, entries) header per RIB table. -/
theorem tables_eq (f : FileSpec) (h : WfFile f) : tables (encFile f) = .ok (peersOf f, tablesOf f) := by
  refine tables_of_parts (extract_encFile f h) ?_
  exact drain_tables f.peers.length f.tables h.2.2.2.2.2.2 _
    (by have := length_le_flatMap encTable f.tables (fun t _ => encTable_length_pos t)
        simp only [encTables]; omega)

/-- Clause "the per-table iterators yield exactly the entries": for every RIB
table of a well-formed file `SingleEntryIterator` yields that table's
(prefix, peer index, attributes) entries in order. -/
theorem single_eq (f : FileSpec) (h : WfFile f) (t : TableSpec) (ht : t ∈ f.tables) :
    single t.hdr = .ok (t.entries.map fun e => (t.pfx, e.peerIdx, e.attrs)) :=
  single_hdr f.peers.length t (h.2.2.2.2.2.2 t ht)

private theorem flatMap_congr' {α β} {f g : α → List β} (l : List α) (h : ∀ x ∈ l, f x = g x) :
    l.flatMap f = l.flatMap g := by
  induction l with
  | nil => rfl
  | cons x xs ih =>
    simp only [List.flatMap_cons, h x (by simp), ih (fun y hy => h y (by simp [hy]))]

/-- per-table iteration as a whole: tables, then each table's single-entry
iterator, conserves the file's entries – the same entries, in the same order,
as the sequential iterator. -/
theorem tables_single_eq (f : FileSpec) (h : WfFile f) :
    mtRun (tablesOf f) = .ok ((entriesOf f).map triple) := by
  have hg : ∀ th ∈ tablesOf f, single th.2 = .ok
      ((fun th : Bool × RibEntryHeader => match single th.2 with | .ok l => l | _ => []) th) := by
    intro th hth
    obtain ⟨t, ht, rfl⟩ := List.mem_map.1 hth
    simp [single_eq f h t ht]
  rw [mtRun_ok _ _ hg]
  congr 1
  simp only [tablesOf, entriesOf, List.flatMap_map, List.map_flatMap, List.map_map]
  apply flatMap_congr'
  intro t ht
  simp [single_eq f h t ht, triple, ribItem, Function.comp_def]

/-- Clause "the parallel iterator yields the same multiset under every thread
schedule".  `rib_entries_mt` is `tables.par_bridge().map(SingleEntryIterator::new)
.flat_map_iter(..)`: whatever the schedule, the tables of the (fused)
`TableDumpIterator` reach the workers in *some* order and each is flat-mapped
sequentially.  For **every** permutation `ts'` of the file's tables, running
the single-entry iterators over `ts'` succeeds (no panic) and the result is a
permutation of the sequential iterator's entries.  [partial: that rayon's
`par_bridge` + `flat_map_iter` deliver every table exactly once is rayon's
contract – executed under pools of 1..16 threads, not modelled.] -/
theorem mt_multiset (f : FileSpec) (h : WfFile f) :
    ∃ ts, tables (encFile f) = .ok (peersOf f, ts) ∧
      ∀ ts', ts'.Perm ts → ∃ es, mtRun ts' = .ok es ∧ es.Perm ((entriesOf f).map triple) := by
  refine ⟨tablesOf f, tables_eq f h, ?_⟩
  intro ts' hp
  let g : Bool × RibEntryHeader → List SingleItem :=
    fun th => match single th.2 with | .ok l => l | _ => []
  have hok : ∀ th ∈ tablesOf f, single th.2 = .ok (g th) := by
    intro th hth
    obtain ⟨t, ht, rfl⟩ := List.mem_map.1 hth
    simp [g, single_eq f h t ht]
  have hok' : ∀ th ∈ ts', single th.2 = .ok (g th) := fun th hth => hok th (hp.mem_iff.1 hth)
  refine ⟨ts'.flatMap g, mtRun_ok ts' g hok', ?_⟩
  have hseq : mtRun (tablesOf f) = .ok ((tablesOf f).flatMap g) := mtRun_ok _ g hok
  rw [tables_single_eq f h] at hseq
  injection hseq with hseq
  rw [hseq]
  exact List.Perm.flatMap_right g hp

/-- the schedule that takes the tables in file order (e.g. a one-thread pool):
`rib_entries_mt` equals the sequential iterator entry for entry. -/
theorem mt_file_order_eq (f : FileSpec) (h : WfFile f) :
    ribEntriesMtSeq (encFile f) = .ok ((entriesOf f).map triple) := by
  rw [ribEntriesMtSeq_of_parts (tables_eq f h)]
  exact tables_single_eq f h

/-! ## the attribute blocks, octet for octet, whatever their length

`RibEntry` (src/mrt.rs:339) exposes the BGP attributes of an entry as a `Parser`
over the block (`pub attributes`), and the three iterators copy that block into a
`Vec<u8>`: NO accessor of `src/mrt.rs` parses the attributes (no typed iterator, no
RFC 6396 4.3.4 reading of four-octet AS numbers or of the abbreviated
MP_REACH_NLRI).  "The entries the file contains" is therefore, for the attribute
part, a statement about octets – made explicit here for blocks of EVERY length the
two-octet Attribute Length field can announce, far beyond the 4096 octets a BGP
message is limited to. -/

/-- the attribute block of a yielded entry -/
def RibItem.attrs : RibItem → Bytes
  | (_, _, _, _, a) => a

/-- **rib_entry_attributes_bytes** (a projection of `rib_entries_eq` / `mt_file_order_eq` to the
attribute component – no new content, stated for reference). For every well-formed file the attribute
blocks the sequential iterator, the per-table iterators and the parallel
iterator (in file order) yield are, entry by entry and octet for octet, the
blocks of the file – of any length from 0 to 65535. -/
theorem rib_entry_attributes_bytes (f : FileSpec) (h : WfFile f) :
    (∃ items, ribEntries (encFile f) = .ok items ∧
      items.map RibItem.attrs = f.tables.flatMap fun t => t.entries.map (·.attrs)) ∧
    (∃ items, ribEntriesMtSeq (encFile f) = .ok items ∧
      items.map (·.2.2) = f.tables.flatMap fun t => t.entries.map (·.attrs)) := by
  refine ⟨⟨_, rib_entries_eq f h, ?_⟩, ⟨_, mt_file_order_eq f h, ?_⟩⟩
  · simp [entriesOf, List.map_flatMap, ribItem, RibItem.attrs, Function.comp_def]
  · simp [entriesOf, List.map_flatMap, ribItem, triple, Function.comp_def]

/-- a file with one peer and one IPv4 /8 table holding one entry with the attribute block `a` -/
def oneEntryFile (a : Bytes) : FileSpec :=
  { ts := 1, collector := 2, view := [],
    peers := [⟨0x0a000001, [10, 0, 0, 1], 64512, false⟩],
    tables := [⟨1, 0, false, 8, [10], [⟨0, 5, a⟩]⟩] }

/-- **attr_block_any_length.** The envelope is exactly the Attribute Length
field's range: for EVERY block of at most 65535 octets (4097, 40000, 65535, ...)
the one-entry file is well formed, and `rib_entries()` yields that block,
unchanged.  (A longer block cannot be announced by a two-octet field:
`WfEntry` demands `attrs.length < 65536` and nothing else of the block.) -/
theorem attr_block_any_length (a : Bytes) (ha : a.length ≤ 65535) :
    WfFile (oneEntryFile a) ∧
      ribEntries (encFile (oneEntryFile a)) =
        .ok [(false, 0, ⟨0x0a000001, [10, 0, 0, 1], 64512⟩, ⟨false, 8, [10]⟩, a)] := by
  have hw : WfFile (oneEntryFile a) := by
    refine ⟨?_, ?_, ?_, ?_, ?_, ?_, ?_⟩
    · show (oneEntryFile []).ts < _; decide
    · show (oneEntryFile []).collector < _; decide
    · show (oneEntryFile []).view.length < _; decide
    · show (oneEntryFile []).peers.length < _; decide
    · show ∀ p ∈ (oneEntryFile []).peers, WfPeer p; decide
    · show (encPeerTableBody (oneEntryFile [])).length < _; decide
    · intro t ht
      simp only [oneEntryFile, List.mem_cons, List.not_mem_nil, or_false] at ht
      subst ht
      refine ⟨?_, ?_, ?_, ?_, ?_, ?_, ?_, ?_⟩
      · simp
      · simp
      · simp
      · simp
      · dsimp only; decide
      · simp
      · intro e he
        simp only [List.mem_cons, List.not_mem_nil, or_false] at he
        subst he
        refine ⟨?_, ?_, ?_, ?_⟩
        · simp [oneEntryFile]
        · simp
        · simp
        · dsimp only; omega
      · simp only [encTableBody, encEntries, encEntry, List.flatMap_cons, List.flatMap_nil, List.length_append,
          List.length_cons, be32_length, be16_length, List.length_nil]
        omega
  refine ⟨hw, ?_⟩
  rw [rib_entries_eq _ hw]
  rfl

/-- the hypotheses are met at the boundary and far above a BGP message's size -/
example : (List.replicate 65535 (0x5a : UInt8)).length ≤ 65535 := by rw [List.length_replicate]; exact Nat.le_refl _
example : (List.replicate 4097 (0 : UInt8)).length ≤ 65535 := by rw [List.length_replicate]; omega

/-- (a restatement of the definition of `WfEntry` with `≤ 65535` for `< 65536`, for reference;
`attr_block_any_length` is the theorem with content) the Attribute Length field is the whole story: an entry is well formed for a
file with `np` peers iff its indices and time fit their fields and its block
fits the two-octet length – no other demand is made of the attribute octets -/
theorem wfEntry_iff (np : Nat) (e : EntrySpec) :
    WfEntry np e ↔ (e.peerIdx < np ∧ e.peerIdx < 65536 ∧ e.origTime < 4294967296 ∧ e.attrs.length ≤ 65535) := by
  unfold WfEntry; omega

/-! ## BGP4MP -/

/-- the records wholly inside the first `k` octets of `encRecs rs` -/
def wholeInside : List RecSpec → Nat → List RecSpec
  | [], _ => []
  | r :: rs, k => if (encRec r).length ≤ k then r :: wholeInside rs (k - (encRec r).length) else []

private theorem wholeInside_length_le (rs : List RecSpec) (k : Nat) :
    (wholeInside rs k).length ≤ ((encRecs rs).take k).length := by
  induction rs generalizing k with
  | nil => simp [wholeInside]
  | cons r rs ih =>
    unfold wholeInside
    split
    · rename_i hk
      have := ih (k - (encRec r).length)
      have h1 := encRec_length_pos r
      simp only [encRecs_cons, List.length_cons, List.length_take, List.length_append] at this ⊢
      omega
    · simp

private theorem wholeInside_all (rs : List RecSpec) (k : Nat) (hk : (encRecs rs).length ≤ k) :
    wholeInside rs k = rs := by
  induction rs generalizing k with
  | nil => rfl
  | cons r rs ih =>
    simp only [encRecs_cons, List.length_append] at hk
    unfold wholeInside
    rw [if_pos (by omega), ih _ (by omega)]

/-- the yielded records are always an initial segment of the file's records -/
theorem wholeInside_prefix (rs : List RecSpec) (k : Nat) : wholeInside rs k <+: rs := by
  induction rs generalizing k with
  | nil => simp [wholeInside]
  | cons r rs ih =>
    unfold wholeInside
    split
    · exact List.cons_prefix_cons.2 ⟨rfl, ih _⟩
    · exact List.nil_prefix

private theorem msgsRun_take (rs : List RecSpec) (h : ∀ r ∈ rs, WfRec r) (k fuel : Nat)
    (hf : (wholeInside rs k).length < fuel) :
    msgsRun fuel ((encRecs rs).take k) = .ok ((wholeInside rs k).map (·.body), []) := by
  induction rs generalizing k fuel with
  | nil =>
    obtain ⟨n, rfl⟩ : ∃ n, fuel = n + 1 := ⟨fuel - 1, by omega⟩
    exact msgsRun_none n (by simp [encRecs, msgPoll])
  | cons r rs ih =>
    obtain ⟨n, rfl⟩ : ∃ n, fuel = n + 1 := ⟨fuel - 1, by omega⟩
    have hr := h r (by simp)
    rw [encRecs_cons]
    by_cases hk : (encRec r).length ≤ k
    · have hw : wholeInside (r :: rs) k = r :: wholeInside rs (k - (encRec r).length) := by
        simp [wholeInside, hk]
      rw [hw] at hf ⊢
      rw [take_append_ge _ _ hk, List.map_cons]
      exact msgsRun_some n (msgPoll_encRec r _ _ hr)
        (ih (fun q hq => h q (by simp [hq])) _ n (by simp at hf; omega))
    · have hw : wholeInside (r :: rs) k = [] := by simp [wholeInside, hk]
      rw [hw, List.take_append_of_le_length (by omega)]
      exact msgsRun_none n (msgPoll_fuse _ (parse_take_encRec r hr k (by omega)))

/-- Clause "on truncated input the message iterator stops without panicking
after the last complete record": for **every** truncation point `k` of a
well-formed BGP4MP / BGP4MP_ET file, `MrtFile::messages` yields exactly the
records wholly inside the first `k` octets (in order, byte for byte) and then
ends – whether the cut falls in a timestamp, type, subtype, length or
microsecond field or inside a record body. -/
theorem truncation (rs : List RecSpec) (h : ∀ r ∈ rs, WfRec r) (k : Nat) :
    messages ((encRecs rs).take k) = .ok ((wholeInside rs k).map (·.body)) := by
  unfold messages
  rw [msgsRun_take rs h k _ (by have := wholeInside_length_le rs k; omega)]

/-- … and in particular never panics. -/
theorem truncation_no_panic (rs : List RecSpec) (h : ∀ r ∈ rs, WfRec r) (k : Nat) :
    messages ((encRecs rs).take k) ≠ .panic := by
  rw [truncation rs h k]; intro h; cases h

/-- Clause "for every well-formed BGP4MP file the message iterator yields the
records in order with their embedded BGP messages byte for byte": all four
implemented subtypes (STATE_CHANGE, MESSAGE, MESSAGE_AS4, STATE_CHANGE_AS4),
BGP4MP and BGP4MP_ET, IPv4 and IPv6 peers, arbitrary message bytes. -/
theorem bgp4mp_in_order (rs : List RecSpec) (h : ∀ r ∈ rs, WfRec r) :
    messages (encRecs rs) = .ok (rs.map (·.body)) := by
  have := truncation rs h (encRecs rs).length
  rwa [List.take_length, wholeInside_all rs _ (Nat.le_refl _)] at this

/-- The skip rule as coded (`continue` in `UpdateIterator::next`): in a file
that mixes well-formed BGP4MP records with records the iterator passes over –
`Skippable`: the record frames correctly and is either not BGP4MP (every
TABLE_DUMP_V2 record: `skippable_td2`) or its body does not parse (e.g. an
unsupported AFI: `skippable_bad_body`) – the BGP4MP records still come out in
order, byte for byte, and nothing else does. -/
theorem bgp4mp_skip_rule (ss : List Seg) (h : ∀ s ∈ ss, s.Wf) :
    messages (encSegs ss) = .ok (bodiesOf ss) := by
  unfold messages
  have hle : (bodiesOf ss).length ≤ ss.length := by
    induction ss with
    | nil => simp [bodiesOf]
    | cons s ss ih =>
      have := ih (fun q hq => h q (by simp [hq]))
      cases s <;> simp [bodiesOf] <;> omega
  have hlen := length_le_flatMap Seg.enc ss (fun s hs => Seg.enc_length_pos s (h s hs))
  rw [msgsRun_segs ss.length ss (Nat.le_refl _) h _ (by simp only [encSegs]; omega)]

/-- a RIB table record, and a MESSAGE record that announces AFI 25 (L2VPN),
between two well-formed records: both are skippable -/
example : Skippable (encTable (demoFile.tables.headD ⟨0, 0, false, 0, [], []⟩)) :=
  skippable_td2 _ _ _ (by decide) (by decide) (by decide)

example : Skippable (encRecord 7 16 1 (be16 1 ++ be16 2 ++ be16 0 ++ be16 25 ++ [1, 2, 3, 4, 5, 6, 7, 8])) :=
  skippable_bad_body _ _ _ (by decide) (by decide) (by decide) (by decide)

/-- "it stops": `UpdateIterator` is fused.  For **every** byte string (well
formed, truncated or garbage): once `next` has returned `None`, every further
call returns `None` again (and does not panic) – the parser is at its end.
(Before the repair `fix: UpdateIterator really fuses …` a header error left
the parser in the middle of the broken record and the next call resumed
there: a truncated well-formed file could then yield a bogus record or panic
in `length - 4`.) -/
theorem messages_fused (bs : Bytes) (n : Nat) (l : List Bgp4Mp) (e : Bytes)
    (h : msgsRun n bs = .ok (l, e)) : ∀ fuel, msgPoll (fuel + 1) e = .ok (none, e) := by
  have hpoll : ∀ (f : Nat) (s s' : Bytes), msgPoll f s = .ok (none, s') → s' = [] := by
    intro f
    induction f with
    | zero => intro s s' h; simp [msgPoll] at h
    | succ f ih =>
      intro s s' h
      unfold msgPoll at h
      split at h
      · rename_i he
        simp at h; rw [← h]; exact List.isEmpty_iff.1 he
      · split at h
        · simp at h
        · simp at h; first | exact h | exact h.symm
        · split at h
          · split at h
            · simp at h
            · exact ih _ _ h
            · simp at h
          · exact ih _ _ h
  have hend : e = [] := by
    induction n generalizing bs l e with
    | zero => simp [msgsRun] at h
    | succ n ih =>
      unfold msgsRun at h
      split at h
      · rename_i s' hp
        simp at h
        rw [← h.2]; exact hpoll _ _ _ hp
      · rename_i a s' hp
        split at h
        · rename_i as e' hr
          simp at h
          rw [← h.2]; exact ih _ _ _ hr
        · simp at h
        · simp at h
      · simp at h
      · simp at h
  subst hend
  intro fuel
  simp [msgPoll]

/-- `CommonHeader::parse`: the extended-timestamp length adjustment `length - 4`
is the only arithmetic that can fail, and it fails (panics under overflow
checks) exactly for a complete BGP4MP_ET header whose length field is below 4;
no well-formed or truncated well-formed record reaches it (see `truncation`). -/
theorem et_length_underflow_panics (ts sub len mus : Nat) (rest : Bytes) (hts : ts < 4294967296)
    (hsub : sub < 65536) (hlen : len < 4) (hmus : mus < 4294967296) :
    CommonHeader.parse (be32 ts ++ (be16 17 ++ (be16 sub ++ (be32 len ++ (be32 mus ++ rest))))) = .panic := by
  have : len < 4294967296 := by omega
  simp [CommonHeader.parse, rd32_be32, rd16_be16, *]

/-! ## how the iterators are consumed does not matter

`rib_entries_eq`, `tables_eq`, `single_eq` are about the iterators driven by `next()` until `None`
(`drain`).  Rust code may also consume them through `count()`, `last()`, `nth(k)`, `skip(k)`,
`step_by(k)`, `fold`, or some `next()` calls followed by any of these (`by_ref().take(j)`, `peekable`).
As long as the types implement `next` only, these are the default methods of `Iterator`, functions of
the `next()` sequence (Rc/Lemmas/IterProto.lean): instantiated below for `ribNext` (with the
`current_table` hand-over in its state), `tableNext` and `singleNext` on every well-formed file.  What
a Rust type OVERRIDES (`count`, `size_hint`, `nth` ..) is outside the model; "the overrides agree with
the defaults" is checked on the real code by the harness (harness/src/common.rs `iter_protocol`, reply
token `proto`). -/

/-- a run of `drain` that returns `ok l` is the `next()` sequence `l` of Rc/Lemmas/IterProto.lean
(nothing panicked on the way: `okNext next` and `next` agree on every state of the run) -/
private theorem ends_of_drain {σ α : Type} (next : σ → Outcome (Option (α × σ))) :
    ∀ (f : Nat) (s : σ) (l : List α), drain next f s = .ok l → IterProto.Ends (IterProto.okNext next) s l := by
  intro f
  induction f with
  | zero => intro s l h; simp [drain] at h
  | succ f ih =>
    intro s l h
    unfold drain at h
    cases hn : next s with
    | ok r =>
      cases r with
      | none =>
        simp only [hn, Outcome.ok.injEq] at h; subst h
        exact IterProto.Ends.nil (by simp [IterProto.okNext, hn])
      | some p =>
        obtain ⟨a, s'⟩ := p
        simp only [hn] at h
        cases hd : drain next f s' with
        | ok as =>
          simp only [hd, Outcome.ok.injEq] at h; subst h
          exact IterProto.Ends.cons (s' := s') (by simp [IterProto.okNext, hn]) (ih s' as hd)
        | err => simp [hd] at h
        | panic => simp [hd] at h
    | err => simp [hn] at h
    | panic => simp [hn] at h

/-- **rib_iterator_protocol.**  On every well-formed file every consumption the default methods allow
of `MrtFile::rib_entries()` - `count()`, `last()`, `collect()`, any `fold`, `nth(k)`, `skip(k)`,
`step_by(k + 1)`, and each of these after `by_ref().take(j)` - observes exactly the entries the file
contains (`entriesOf f`, the list of `rib_entries_eq`).  (First conjunct: the state `rib_entries()`
starts in - the peer index read, the parser at the first RIB record, no current table.) -/
theorem rib_iterator_protocol (f : FileSpec) (h : WfFile f) :
    extractPeerIndexTable (encFile f) = .ok (peersOf f, encTables f.tables) ∧
      IterProto.Protocol (IterProto.okNext (ribNext (peersOf f))) ⟨encTables f.tables, none, none⟩ (entriesOf f) := by
  have hx := extract_encFile f h
  have he := rib_entries_eq f h
  rw [ribEntries_of_parts hx] at he
  exact ⟨hx, IterProto.protocol_of_ends (ends_of_drain _ _ _ _ he)⟩

/-- **rib_count_after_partial** ("iteration conserves entries" for `next()`* then `count()`): after any
`j` calls of `next()` - wherever that leaves the iterator, inside a table (`current_table` is `Some`)
or between two - the `j` entries seen are the first `j` of the file and `count()` of the rest is the
number of entries of the file minus `j`. -/
theorem rib_count_after_partial (f : FileSpec) (h : WfFile f) (j : Nat) (hj : j ≤ (entriesOf f).length) :
    (IterProto.advance (IterProto.okNext (ribNext (peersOf f))) j ⟨encTables f.tables, none, none⟩).1
        = (entriesOf f).take j ∧
      ∃ fuel, IterProto.count (IterProto.okNext (ribNext (peersOf f))) fuel
        (IterProto.advance (IterProto.okNext (ribNext (peersOf f))) j ⟨encTables f.tables, none, none⟩).2
          = some ((entriesOf f).length - j) := by
  have hr := (rib_iterator_protocol f h).2.rest j hj
  obtain ⟨fuel, hc⟩ := (IterProto.protocol_of_ends hr.2).count
  exact ⟨hr.1, fuel, by simpa using hc⟩

/-- **tables_iterator_protocol.**  The same for `MrtFile::tables()` (the iterator over the RIB records
behind `tables_eq`) .. -/
theorem tables_iterator_protocol (f : FileSpec) (h : WfFile f) :
    IterProto.Protocol (IterProto.okNext tableNext) (encTables f.tables) (tablesOf f) :=
  IterProto.protocol_of_ends (ends_of_drain _ _ _ _
    (drain_tables f.peers.length f.tables h.2.2.2.2.2.2 (f.tables.length + 1) (by omega)))

/-- .. and for the `SingleEntryIterator` of every table of a well-formed file. -/
theorem single_iterator_protocol (f : FileSpec) (h : WfFile f) (t : TableSpec) (ht : t ∈ f.tables) :
    IterProto.Protocol (IterProto.okNext (singleNext t.hdr.pfx)) t.hdr.entries
      (t.entries.map fun e => (t.pfx, e.peerIdx, e.attrs)) := by
  have he := single_eq f h t ht
  unfold single at he
  exact IterProto.protocol_of_ends (ends_of_drain _ _ _ _ he)

/-- the hypotheses are satisfiable by `demoFile` (tables of several entries and of one), see
`example : WfFile demoFile` above -/
example := rib_count_after_partial demoFile (by decide) 1

end Rc.Thm.C16
