/-
C15 – BMP messages decode faithfully and malformed ones cannot panic the monitor.

Property theorems only (helper lemmas: Rc/Lemmas/Bmp.lean, Rc/Lemmas/OpenParse.lean,
Rc/Lemmas/OpenBridge.lean, Rc/Lemmas/BmpEmbedded.lean).
The model (Rc/Model/Bmp.lean) mirrors src/bmp/message.rs after the repairs
listed in known_findings.jsonl (`fixed` entries); `Outcome.panic` stands for
every slice/index/unwrap/overflow that could fire.
-/
import Rc.Lemmas.BmpBytes
import Rc.Lemmas.OpenParse
import Rc.Lemmas.BmpEmbedded

namespace Rc.Thm.C15
open Rc Rc.Bmp

/-- the embedded-message decoders as modelled in Rc/Model/OpenParse.lean -/
def deps : Deps := { openParse := Rc.OpenParse.openParse, notifParse := Rc.OpenParse.notifParse }

/-- `OpenMessage::parse` / `NotificationMessage::parse` never panic and never
claim more bytes than they were given – for every byte string. -/
theorem embedded_decoders_total : deps.Total :=
  ⟨Rc.OpenParse.openParse_np, Rc.OpenParse.notifParse_np, Rc.OpenParse.openParse_le⟩

/-! ## totality: "for every byte string decoding returns a message or an error without panicking" -/

theorem decode_total (bs : Bytes) : fromOctets deps bs ≠ .panic := by
  unfold fromOctets
  split
  · simp
  · rename_i h
    rw [idx_ok (bs := bs) (i := 5) (by omega)]
    dsimp only
    split
    · simp
    · have := checkKind_np deps embedded_decoders_total
      np_auto

private theorem kind_check {bs : Bytes} {k : MsgKind} (h : fromOctets deps bs = .ok k) :
    6 ≤ bs.length ∧ checkKind deps k bs = .ok () := by
  unfold fromOctets at h
  split at h
  · simp at h
  · rename_i hl
    refine ⟨by omega, ?_⟩
    rw [idx_ok (bs := bs) (i := 5) (by omega)] at h
    dsimp only at h
    split at h
    · simp at h
    · rename_i k' hk
      cases hc : checkKind deps k' bs with
      | ok u => simp only [hc] at h; simp at h; subst h; exact hc
      | err => simp [hc] at h
      | panic => simp [hc] at h

/-- an accepted message has the 6 header octets; with a per-peer header, 48 -/
theorem accepted_length {bs : Bytes} {k : MsgKind} (h : fromOctets deps bs = .ok k) :
    6 ≤ bs.length ∧ (k ≠ .initiation → k ≠ .termination → 48 ≤ bs.length) :=
  ⟨(kind_check h).1, checkKind_pph_len (kind_check h).2⟩

/-! ## "on an accepted message no accessor or iterator panics or fails to terminate" -/

/-- common header accessors (version, length, type) and `Debug` -/
theorem common_header_total {bs : Bytes} {k : MsgKind} (h : fromOctets deps bs = .ok k) :
    chVersion bs ≠ .panic ∧ chLength bs ≠ .panic ∧ chMsgType bs ≠ .panic ∧ debugLen bs ≠ .panic :=
  common_accessors_np (accepted_length h).1

/-- every per-peer-header accessor, on every message kind that has one -/
theorem per_peer_header_total {bs : Bytes} {k : MsgKind} (h : fromOctets deps bs = .ok k)
    (h1 : k ≠ .initiation) (h2 : k ≠ .termination) : ∃ p, pph bs = .ok p :=
  pph_ok ((accepted_length h).2 h1 h2)

/-- RouteMonitoring: the embedded UPDATE is handed to the UPDATE decoder (C01/C02) without panicking -/
theorem route_monitoring_total {bs : Bytes} (h : fromOctets deps bs = .ok .routeMonitoring) :
    rmUpdateBytes bs = .ok (bs.drop 48) := by
  have := (accepted_length h).2 (by simp) (by simp)
  simp [rmUpdateBytes, COFF, this]

/-- StatisticsReport: `stats_count` and the `stats()` iterator never panic, and
the iterator yields exactly `stats_count` items (so it terminates). -/
theorem statistics_total {bs : Bytes} (h : fromOctets deps bs = .ok .statisticsReport) :
    ∃ n l, statsCount bs = .ok n ∧ stats bs = .ok l ∧ l.length = n :=
  stats_of_check (kind_check h).2

/-- InitiationMessage: the Information TLV iterator never panics and terminates -/
theorem initiation_tlvs_total {bs : Bytes} (h : fromOctets deps bs = .ok .initiation) :
    ∃ l, initiationTlvs bs = .ok l := by
  have hc := (kind_check h).2
  simp only [checkKind, initiationCheck] at hc
  cases h1 : commonCheck bs with
  | ok p =>
    obtain ⟨rfl, hl⟩ := commonCheck_ok h1
    simp only [h1] at hc
    unfold initiationTlvs
    rw [sliceFrom_ok (by omega)]
    exact infoTlvIter_of_tlvLoop _ _ (by omega) hc
  | err => simp [h1] at hc
  | panic => simp [h1] at hc

/-- TerminationMessage: the Information iterator never panics and terminates -/
theorem termination_info_total {bs : Bytes} (h : fromOctets deps bs = .ok .termination) :
    ∃ l, terminationInfo bs = .ok l := by
  have hc := (kind_check h).2
  simp only [checkKind, terminationCheck, initiationCheck] at hc
  cases h1 : commonCheck bs with
  | ok p =>
    obtain ⟨rfl, hl⟩ := commonCheck_ok h1
    simp only [h1] at hc
    unfold terminationInfo
    rw [sliceFrom_ok (by omega)]
    exact termIter_of_tlvLoop _ _ (by omega) hc
  | err => simp [h1] at hc
  | panic => simp [h1] at hc

/-- PeerDownNotification: `reason`, `fsm` and `notification` never panic -/
theorem peer_down_total {bs : Bytes} (h : fromOctets deps bs = .ok .peerDown) :
    (∃ r, peerDownReason bs = .ok r) ∧ (∃ f, peerDownFsm bs = .ok f) ∧ (∃ n, peerDownNotification deps bs = .ok n) := by
  have hc := (kind_check h).2
  simp only [checkKind, peerDownCheck] at hc
  obtain ⟨-, hl, hc⟩ := bothCheck_prefix_len hc
  cases h2 : cU8 bs 48 with
  | ok x =>
    obtain ⟨reason, p2⟩ := x
    obtain ⟨rfl, hl2, rfl⟩ := cU8_ok h2
    simp only [h2] at hc
    have hr : peerDownReason bs = .ok (if beAt bs 48 1 ≤ 5 then beAt bs 48 1 else 6) := by
      simp [peerDownReason, COFF, idx_ok (bs := bs) (i := 48) (by omega)]
    refine ⟨⟨_, hr⟩, ?_, ?_⟩
    · unfold peerDownFsm
      rw [hr]
      dsimp only
      by_cases hreason : beAt bs 48 1 = 2
      · have h13 : ¬ (beAt bs 48 1 = 1 ∨ beAt bs 48 1 = 3) := by omega
        simp only [hreason, if_true] at hc
        simp at hc
        cases h3 : cAdvance 2 bs (48 + 1) with
        | ok p3 =>
          have := cAdvance_ok h3
          simp only [hreason]
          rw [rdBE_ok (by simp [COFF]; omega)]
          exact ⟨_, rfl⟩
        | err => simp [h3] at hc
        | panic => simp [h3] at hc
      · have : ¬ ((if beAt bs 48 1 ≤ 5 then beAt bs 48 1 else 6) = 2) := by
          split <;> omega
        simp only [this, if_false]
        exact ⟨_, rfl⟩
    · unfold peerDownNotification
      rw [hr]
      dsimp only
      rw [sliceFrom_ok (by simp [COFF]; omega)]
      dsimp only
      by_cases hA : ((if beAt bs 48 1 ≤ 5 then beAt bs 48 1 else 6) = 1 ∨ (if beAt bs 48 1 ≤ 5 then beAt bs 48 1 else 6) = 3)
      · by_cases hB : COFF + 1 = bs.length
        · simp only [hA, hB, if_true]; exact ⟨_, rfl⟩
        · simp only [hA, hB, if_true, if_false]
          have h13 : beAt bs 48 1 = 1 ∨ beAt bs 48 1 = 3 := by
            split at hA <;> omega
          have hlt : ¬ 48 + 1 ≥ bs.length := by simp [COFF] at hB; omega
          simp only [h13, if_true, hlt, if_false] at hc
          cases hn : deps.notifParse (List.drop (48 + 1) bs) with
          | ok k => simp only [COFF, hn]; exact ⟨_, rfl⟩
          | err => simp [hn] at hc
          | panic => simp [hn] at hc
      · simp only [hA, if_false]; exact ⟨_, rfl⟩
  | err => simp [h2] at hc
  | panic => simp [h2] at hc

/-- PeerUpNotification: local address and ports, both embedded OPENs and the
Information TLV iterator never panic -/
theorem peer_up_total {bs : Bytes} (h : fromOctets deps bs = .ok .peerUp) :
    ∃ u, peerUp deps bs = .ok u := by
  have hc := (kind_check h).2
  simp only [checkKind, peerUpCheck] at hc
  obtain ⟨-, hl, hc⟩ := bothCheck_prefix_len hc
  cases h2 : cAdvance 20 bs 48 with
    | ok p2 =>
      obtain ⟨rfl, hl2⟩ := cAdvance_ok h2
      simp only [h2] at hc
      cases h3 : deps.openParse (bs.drop (48 + 20)) with
      | ok n1 =>
        simp only [h3] at hc
        have hle1 := embedded_decoders_total.open_le _ _ h3
        simp at hle1
        cases h4 : deps.openParse (bs.drop (48 + 20 + n1)) with
        | ok n2 =>
          simp only [h4] at hc
          have hle2 := embedded_decoders_total.open_le _ _ h4
          simp at hle2
          obtain ⟨l, hlv⟩ := infoTlvIter_of_tlvLoop (bs := bs) _ (48 + 20 + n1 + n2) (by omega) hc
          have hs : openSentLen deps bs = .ok n1 := by
            simp [openSentLen, COFF, hl2, h3]
          have hsent : openSent deps bs = .ok ((bs.drop (48 + 20)).take n1) := by
            simp [openSent, hs, COFF]
          have hrl : openRcvdLen deps bs = .ok (48 + 20 + n1, n2) := by
            unfold openRcvdLen
            rw [hsent]
            dsimp only
            have : ((bs.drop (48 + 20)).take n1).length = n1 := by simp; omega
            simp only [COFF, this]
            have hle : 48 + 20 + n1 ≤ bs.length := by omega
            simp only [hle, if_true, h4]
          have hrcvd : openRcvd deps bs = .ok ((bs.drop (48 + 20 + n1)).take n2) := by
            simp [openRcvd, hrl]
          have htl : peerUpTlvs deps bs = .ok l := by
            unfold peerUpTlvs
            rw [hs]
            dsimp only
            simp only [COFF, h4]
            rw [sliceFrom_ok (by omega)]
            exact hlv
          unfold peerUp
          rw [slice_ok (by simp [COFF]) (by simp [COFF]; omega), rdBE_ok (by simp [COFF]; omega),
            rdBE_ok (by simp [COFF]; omega)]
          dsimp only
          rw [hsent, hrcvd, htl, slice_ok (a := COFF + 12) (by simp [COFF]) (by simp [COFF]; omega),
            slice_ok (a := COFF) (b := COFF + 16) (by simp [COFF]) (by simp [COFF]; omega)]
          by_cases hv : ((List.take (COFF + 12 - COFF) (List.drop COFF bs)).all fun x => x == 0) = true
          · simp only [hv, if_true]; exact ⟨_, rfl⟩
          · simp only [hv]; exact ⟨_, rfl⟩
        | err => simp [h4] at hc
        | panic => simp [h4] at hc
      | err => simp [h3] at hc
      | panic => simp [h3] at hc
    | err => simp [h2] at hc
    | panic => simp [h2] at hc

/-! ## the embedded BGP messages, through the models that own them (C03, C01/C02) -/

/-- **One model of the capability rules.**  The content rules of `Capability::parse` as written
for the BMP parse path (`Rc.OpenParse.capContent`: cursor + absolute positions) and as written
for `from_octets` / `check` / the accessors (`Rc.Open.capContent`, C03: remaining bytes) accept
exactly the same capabilities: for every capability code, length octet, buffer and position. -/
theorem capability_rules_agree (typ len start : Nat) (d : Bytes) (hp : start + 2 ≤ d.length) :
    (∃ c', Rc.OpenParse.capContent typ len start ⟨d, start + 2⟩ = .ok c') ↔
      Rc.Open.capContent typ len (d.drop (start + 2)) = .ok () :=
  Rc.OpenBridge.capContent_agree typ len start d hp

/-- … and so do the two models of `Capability::parse` as a whole: each accepts what the other
accepts, as the same capability, leaving the parser at the same place. -/
theorem capability_parse_agree (d : Bytes) (p : Nat) (hp : p ≤ d.length) :
    (∀ c', Rc.OpenParse.capParse ⟨d, p⟩ = .ok c' →
      ∃ cap, Rc.Open.parseCap (d.drop p) = .ok (cap, d.drop (p + 2 + cap.value.length)) ∧
        c' = ⟨d, p + 2 + cap.value.length⟩ ∧ p + 2 + cap.value.length ≤ d.length) ∧
    (∀ cap r, Rc.Open.parseCap (d.drop p) = .ok (cap, r) →
      Rc.OpenParse.capParse ⟨d, p⟩ = .ok ⟨d, p + 2 + cap.value.length⟩ ∧
        r = d.drop (p + 2 + cap.value.length)) :=
  Rc.OpenBridge.capParse_agree d p hp

/-- **An OPEN accepted by `OpenMessage::parse` is one `OpenMessage::from_octets` accepts**: the
`n` octets `parse` returns (from a buffer that may go on: the rest of the PeerUp) pass
`OpenMessage::check` on their own.  Everything C03 proves of a checked OPEN therefore holds of
the OPENs a PeerUp hands out. -/
theorem embedded_open_is_checked (bs : Bytes) (n : Nat) (h : deps.openParse bs = .ok n) :
    n ≤ bs.length ∧ Rc.Open.fromOctets (bs.take n) = .ok (bs.take n) :=
  ⟨(Rc.OpenBridge.openParse_check bs n h).1, parsed_open_from_octets h⟩

/-- **The two decoders of an OPEN accept the same messages**: `OpenMessage::parse` at the start of
`bs` accepts and returns `n` octets exactly when the first `n` octets of `bs` pass
`OpenMessage::check` (so `from_octets` accepts them).  The parse path (optional parameters read on
the whole buffer with the `opt_param_len` accounting, `Header::parse`, final length comparison)
and the check path (parser limited to the optional-parameters field, `Header::check`,
"trailing bytes") are two descriptions of one set of messages. -/
theorem embedded_open_iff_checked (bs : Bytes) (n : Nat) :
    deps.openParse bs = .ok n ↔ n ≤ bs.length ∧ Rc.Open.openCheck (bs.take n) = .ok () :=
  Rc.OpenBridge.openParse_iff_check bs n

/-- non-vacuity: a 55-octet OPEN (capabilities MP 1/1, 4-octet AS, ADD-PATH, FQDN) followed by other
octets is accepted by the parse-path model, which consumes exactly the OPEN -/
example :
    deps.openParse (Rc.Open.marker ++ [0, 55, 1, 4, 0xfd, 0xea, 0, 90, 10, 0, 0, 2, 26, 2, 24,
      1, 4, 0, 1, 0, 1, 65, 4, 0, 0, 0xfd, 0xea, 69, 4, 0, 1, 1, 3, 73, 4, 1, 0x41, 1, 0x42] ++ [9, 9, 9]) = .ok 55 := by
  decide

/-- **The PeerUp configuration accessors are total.**  On every accepted PeerUp,
`bgp_open_sent_rcvd()` and what `session_config`, `pph_session_config`, `supported_protocols`
read off the two OPENs – `my_asn`, `four_octet_capable`, `addpath_families_vec` (through
`addpath_intersection`), the MultiProtocol capability values, `capabilities()`, `parameters()`,
`get_software_version`, `holdtime`, `identifier`, `version` – return values: none panics (C03
`open_accessors_total`, carried over by `embedded_open_is_checked`); an `Err` of
`addpath_families_vec` is a value (`addpath = none`: the intersection is then empty). -/
theorem peer_up_config_total {bs : Bytes} (h : fromOctets deps bs = .ok .peerUp) :
    ∃ c, peerUpConfig deps bs = .ok c := by
  obtain ⟨u, hu⟩ := peer_up_total h
  have hs : ∃ s, openSent deps bs = .ok s := by
    unfold peerUp at hu
    repeat' (first | split at hu | dsimp only at hu)
    all_goals first | (simp at hu; done) | exact ⟨_, by assumption⟩
  have hr : ∃ r, openRcvd deps bs = .ok r := by
    unfold peerUp at hu
    repeat' (first | split at hu | dsimp only at hu)
    all_goals first | (simp at hu; done) | exact ⟨_, by assumption⟩
  obtain ⟨s, hs⟩ := hs
  obtain ⟨r, hr⟩ := hr
  obtain ⟨n1, hp1, rfl⟩ := openSent_inv hs
  obtain ⟨off, n2, hp2, rfl⟩ := openRcvd_inv hr
  obtain ⟨c1, e1⟩ := Rc.OpenNoErr.openCfg_ok _ (parsed_open_from_octets hp1)
  obtain ⟨c2, e2⟩ := Rc.OpenNoErr.openCfg_ok _ (parsed_open_from_octets hp2)
  exact ⟨(c1, c2), by simp [peerUpConfig, hs, hr, e1, e2]⟩

private theorem upd_header_body {bs body : Bytes} {hl : Nat} {ty : UInt8}
    (h : Rc.Upd.headerParse bs = .ok (hl, ty, body)) : body = bs.drop 19 := by
  unfold Rc.Upd.headerParse at h
  cases h16 : takeN 16 bs with
  | none => simp [h16] at h
  | some q =>
    obtain ⟨m, r0⟩ := q
    obtain ⟨hm, hb⟩ := takeN_length h16
    simp only [h16] at h
    split at h
    · simp at h
    · match r0, h with
      | a :: b :: t :: r, h =>
        simp [rd16] at h
        rw [hb, ← h.2.2]
        simp [List.drop_append, hm]
      | [a, b], h => simp [rd16] at h
      | [a], h => simp [rd16] at h
      | [], h => simp [rd16] at h

/-- **The embedded UPDATE decodes exactly as it would on its own.**  For an accepted
RouteMonitoring message and every session configuration, `bgp_update(config)`
(`UpdateMessage::parse` on a parser over the whole BMP message advanced by 48) (1) is
`UpdateMessage::parse` of the octets after the per-peer header – it never panics (the
`expect` cannot fire, and C02 `parse_total`) –, and (2) succeeds / fails exactly when
`UpdateMessage::from_octets` on those octets does, with the same sections and parse info
(`f.msg = m`); the one difference is which octets the value keeps: `from_octets` all of them
(`f.octets`), `parse` the `length − 19` octets after the 19-octet header
(`m.body = (f.octets.drop 19).take (hl − 19)`, `hl` the UPDATE's length field), the section
ranges being shifted by those 19. -/
theorem route_monitoring_update_same {bs : Bytes} (h : fromOctets deps bs = .ok .routeMonitoring)
    (cfg : Rc.Upd.Cfg) :
    rmUpdate cfg bs = Rc.Upd.parseUpdate cfg (bs.drop 48) ∧
    rmUpdate cfg bs ≠ .panic ∧
    (∀ m, rmUpdate cfg bs = .ok m ↔ updFromOctets cfg (bs.drop 48) = .ok ⟨bs.drop 48, m⟩) ∧
    (rmUpdate cfg bs = .err ↔ updFromOctets cfg (bs.drop 48) = .err) ∧
    (∀ m, rmUpdate cfg bs = .ok m →
      ∃ hl ty body, Rc.Upd.headerParse (bs.drop 48) = .ok (hl, ty, body) ∧ 19 ≤ hl ∧
        m.body = ((bs.drop 48).drop 19).take (hl - 19)) := by
  have e : rmUpdate cfg bs = Rc.Upd.parseUpdate cfg (bs.drop 48) := by
    simp [rmUpdate, route_monitoring_total h]
  have hnp := Rc.Thm.C02.parse_total cfg (bs.drop 48)
  refine ⟨e, by rw [e]; exact hnp, ?_, ?_, ?_⟩
  · intro m
    rw [e]
    unfold updFromOctets
    cases Rc.Upd.parseUpdate cfg (bs.drop 48) <;> simp
  · rw [e]
    unfold updFromOctets
    cases Rc.Upd.parseUpdate cfg (bs.drop 48) <;> simp
  · intro m hm
    rw [e] at hm
    obtain ⟨hl, ty, body, _, _, _, _, _, _, _, _, _, hh, h19, _, _, _, _, _, _, _, _, _, _, _, hbody, _⟩ :=
      Rc.Upd.parseUpdate_ok hm
    exact ⟨hl, ty, body, hh, h19, by rw [hbody, upd_header_body hh]⟩

/-! ## faithfulness: "decoding succeeds and reports the encoded fields"

Reference encoders: `encPph`, `encStat`, `encTlv` (Rc/Model/Bmp.lean), `encTerm`
(Rc/Lemmas/BmpBytes.lean). The well-formedness predicates say only that each
field fits its wire width. -/

/-- per-peer header: every field (type, flags, distinguisher, IPv4/IPv6
address chosen by the V flag, AS, BGP id, timestamp seconds and microseconds)
is reported as encoded, whatever precedes (the 6-byte common header) and
follows it -/
theorem per_peer_header_roundtrip (hdr rest : Bytes) (p : Pph) (hh : hdr.length = 6) (hp : WfPph p) :
    pph (hdr ++ encPph p ++ rest) = .ok p := pph_enc hdr rest p hh hp

example : WfPph ⟨1, 0x80, [1,2,3,4,5,6,7,8], true, List.replicate 16 7, 65551, [10,0,0,1], 1700000000, 999999⟩ := by
  simp [WfPph]

/-- statistics report: `stats_count` is the encoded count and `stats()`
yields exactly the encoded statistics, in order – for every list length and
every mix of the 18 defined types and unknown ones -/
theorem statistics_roundtrip (hdr rest : Bytes) (ss : List Stat) (hh : hdr.length = 48)
    (hn : ss.length < 4294967296) (h : ∀ s ∈ ss, WfStat s) :
    statsCount (hdr ++ be32 ss.length ++ ss.flatMap encStat ++ rest) = .ok ss.length ∧
    stats (hdr ++ be32 ss.length ++ ss.flatMap encStat ++ rest) = .ok ss := stats_enc hdr rest ss hh hn h

example : ∀ s ∈ [Stat.u32 0 5, Stat.u64 7 (2^40), Stat.afiSafi 9 1 1 77, Stat.unimplemented 99 3, Stat.unimplemented 0 5], WfStat s := by
  simp [WfStat, isU32Stat, isU64Stat, isAfiSafiStat]

/-- initiation message: the Information TLV iterator yields exactly the encoded TLVs -/
theorem initiation_roundtrip (hdr : Bytes) (ts : List (Nat × Nat × Bytes)) (hh : hdr.length = 6)
    (h : ∀ t ∈ ts, WfTlv t) :
    initiationTlvs (hdr ++ ts.flatMap encTlv) = .ok ts := by
  unfold initiationTlvs
  rw [sliceFrom_ok (by simp [hh])]
  dsimp only
  have := infoTlvIter_enc hdr ts ((hdr ++ ts.flatMap encTlv).length + 1) ?_ h
  · rw [hh] at this; exact this
  · have : ts.length ≤ (ts.flatMap encTlv).length :=
      length_le_flatMap encTlv ts (fun x => by simp [encTlv, List.length_append]; omega)
    simp only [List.length_append]; omega

/-- termination message: the Information iterator yields exactly the encoded
strings and reason codes -/
theorem termination_roundtrip (hdr : Bytes) (ts : List TermInfo) (hh : hdr.length = 6)
    (h : ∀ t ∈ ts, WfTerm t) :
    terminationInfo (hdr ++ ts.flatMap encTerm) = .ok ts := by
  unfold terminationInfo
  rw [sliceFrom_ok (by simp [hh])]
  dsimp only
  have := termIter_enc hdr ts ((hdr ++ ts.flatMap encTerm).length + 1) ?_ h
  · rw [hh] at this; exact this
  · have : ts.length ≤ (ts.flatMap encTerm).length :=
      length_le_flatMap encTerm ts (fun x => by cases x <;> simp [encTerm, List.length_append] <;> omega)
    simp only [List.length_append]; omega

example : ∀ t ∈ [TermInfo.customString [104, 105], TermInfo.reason 3], WfTerm t := by simp [WfTerm]

/-- peer down: reason, FSM code and the embedded NOTIFICATION (byte for byte)
are what follows the 48 header bytes; the NOTIFICATION is the message
its own header delimits (`notifParse payload = ok k`) -/
theorem peer_down_roundtrip (hdr payload : Bytes) (reason : Nat) (hh : hdr.length = 48) (hr : reason < 256) :
    peerDownReason (hdr ++ [UInt8.ofNat reason] ++ payload) = .ok (if reason ≤ 5 then reason else 6) ∧
    (reason = 2 → 2 ≤ payload.length →
      peerDownFsm (hdr ++ [UInt8.ofNat reason] ++ payload) = .ok (some (beAt payload 0 2))) ∧
    ((reason = 1 ∨ reason = 3) → payload ≠ [] → ∀ k, deps.notifParse payload = .ok k →
      peerDownNotification deps (hdr ++ [UInt8.ofNat reason] ++ payload) = .ok (some (payload.take k))) := by
  have hreason : peerDownReason (hdr ++ [UInt8.ofNat reason] ++ payload) = .ok (if reason ≤ 5 then reason else 6) := by
    unfold peerDownReason
    have := idx_shift hdr ([UInt8.ofNat reason] ++ payload) 0
    simp only [hh, Nat.add_zero] at this
    simp only [List.append_assoc, COFF]
    rw [this]
    simp [idx, beAt, beNat, UInt8.toNat_ofNat', Nat.mod_eq_of_lt hr]
  refine ⟨hreason, ?_, ?_⟩
  · intro h2 hl
    unfold peerDownFsm
    rw [hreason]
    subst h2
    dsimp only
    have := rdBE_shift (hdr ++ [UInt8.ofNat 2]) payload 0 2
    simp only [List.length_append, hh, List.length_singleton, Nat.add_zero] at this
    simp only [COFF]
    rw [this]
    simp [rdBE, hl]
  · intro h13 hne k hk
    unfold peerDownNotification
    rw [hreason]
    dsimp only
    have h1 : ((if reason ≤ 5 then reason else 6) = 1 ∨ (if reason ≤ 5 then reason else 6) = 3) := by
      rcases h13 with h | h <;> simp [h]
    have h2 : ¬ COFF + 1 = (hdr ++ [UInt8.ofNat reason] ++ payload).length := by
      have : payload.length ≠ 0 := by simpa using hne
      simp [List.length_append, hh, COFF]; omega
    simp only [h1, h2, if_true, if_false]
    rw [sliceFrom_ok (by simp [List.length_append, hh, COFF]; omega)]
    dsimp only
    have : List.drop (COFF + 1) (hdr ++ [UInt8.ofNat reason] ++ payload) = payload := by
      have : COFF + 1 = (hdr ++ [UInt8.ofNat reason]).length := by simp [hh, COFF]
      rw [this, List.drop_left']
      rfl
    rw [this, hk]

end Rc.Thm.C15
