/-
C15 – BMP messages decode faithfully and malformed ones cannot panic the monitor.

Property theorems only (helper lemmas: Rc/Lemmas/Bmp.lean, Rc/Lemmas/OpenParse.lean,
Rc/Lemmas/OpenBridge.lean, Rc/Lemmas/BmpEmbedded.lean).
The model (Rc/Model/Bmp.lean) mirrors src/bmp/message.rs after the repairs
listed in known_findings.jsonl (`fixed` entries); `Outcome.panic` stands for
every slice/index/unwrap/overflow that could fire.
-/
import Rc.Lemmas.BmpBytes
import Rc.Lemmas.BmpAccept
import Rc.Lemmas.OpenParse
import Rc.Lemmas.BmpEmbedded

namespace Rc.Thm.C15
open Rc Rc.Bmp

/-- the embedded-message decoders as modelled in Rc/Model/OpenParse.lean -/
def deps : Deps := { openParse := Rc.OpenParse.openParse, notifParse := Rc.OpenParse.notifParse }

/-- `OpenMessage::parse` / `NotificationMessage::parse` never panic and never
claim more bytes than they were given – for every byte string. -/
theorem embedded_decoders_total : deps.Total :=
  ⟨Rc.OpenParse.openParse_np, Rc.OpenParse.notifParse_np, Rc.OpenParse.openParse_le⟩

/-! ## totality: "for every byte string decoding returns a message or an error without panicking" -/

theorem decode_total (bs : Bytes) : fromOctets deps bs ≠ .panic := by
  unfold fromOctets
  split
  · simp
  · rename_i h
    rw [idx_ok (bs := bs) (i := 5) (by omega)]
    dsimp only
    split
    · simp
    · have := checkKind_np deps embedded_decoders_total
      np_auto

private theorem kind_check {bs : Bytes} {k : MsgKind} (h : fromOctets deps bs = .ok k) :
    6 ≤ bs.length ∧ checkKind deps k bs = .ok () := by
  unfold fromOctets at h
  split at h
  · simp at h
  · rename_i hl
    refine ⟨by omega, ?_⟩
    rw [idx_ok (bs := bs) (i := 5) (by omega)] at h
    dsimp only at h
    split at h
    · simp at h
    · rename_i k' hk
      cases hc : checkKind deps k' bs with
      | ok u => simp only [hc] at h; simp at h; subst h; exact hc
      | err => simp [hc] at h
      | panic => simp [hc] at h

/-- an accepted message has the 6 header octets; with a per-peer header, 48 -/
theorem accepted_length {bs : Bytes} {k : MsgKind} (h : fromOctets deps bs = .ok k) :
    6 ≤ bs.length ∧ (k ≠ .initiation → k ≠ .termination → 48 ≤ bs.length) :=
  ⟨(kind_check h).1, checkKind_pph_len (kind_check h).2⟩

/-! ## "on an accepted message no accessor or iterator panics or fails to terminate" -/

/-- common header accessors (version, length, type) and `Debug` -/
theorem common_header_total {bs : Bytes} {k : MsgKind} (h : fromOctets deps bs = .ok k) :
    chVersion bs ≠ .panic ∧ chLength bs ≠ .panic ∧ chMsgType bs ≠ .panic ∧ debugLen bs ≠ .panic :=
  common_accessors_np (accepted_length h).1

/-- every per-peer-header accessor, on every message kind that has one -/
theorem per_peer_header_total {bs : Bytes} {k : MsgKind} (h : fromOctets deps bs = .ok k)
    (h1 : k ≠ .initiation) (h2 : k ≠ .termination) : ∃ p, pph bs = .ok p :=
  pph_ok ((accepted_length h).2 h1 h2)

/-- RouteMonitoring: the embedded UPDATE is handed to the UPDATE decoder (C01/C02) without panicking -/
theorem route_monitoring_total {bs : Bytes} (h : fromOctets deps bs = .ok .routeMonitoring) :
    rmUpdateBytes bs = .ok (bs.drop 48) := by
  have := (accepted_length h).2 (by simp) (by simp)
  simp [rmUpdateBytes, COFF, this]

/-- StatisticsReport: `stats_count` and the `stats()` iterator never panic, and
the iterator yields exactly `stats_count` items (so it terminates). -/
theorem statistics_total {bs : Bytes} (h : fromOctets deps bs = .ok .statisticsReport) :
    ∃ n l, statsCount bs = .ok n ∧ stats bs = .ok l ∧ l.length = n :=
  stats_of_check (kind_check h).2

/-- InitiationMessage: the Information TLV iterator never panics and terminates -/
theorem initiation_tlvs_total {bs : Bytes} (h : fromOctets deps bs = .ok .initiation) :
    ∃ l, initiationTlvs bs = .ok l := by
  have hc := (kind_check h).2
  simp only [checkKind, initiationCheck] at hc
  cases h1 : commonCheck bs with
  | ok p =>
    obtain ⟨rfl, hl⟩ := commonCheck_ok h1
    simp only [h1] at hc
    unfold initiationTlvs
    rw [sliceFrom_ok (by omega)]
    exact infoTlvIter_of_tlvLoop _ _ (by omega) hc
  | err => simp [h1] at hc
  | panic => simp [h1] at hc

/-- TerminationMessage: the Information iterator never panics and terminates -/
theorem termination_info_total {bs : Bytes} (h : fromOctets deps bs = .ok .termination) :
    ∃ l, terminationInfo bs = .ok l := by
  have hc := (kind_check h).2
  simp only [checkKind, terminationCheck, initiationCheck] at hc
  cases h1 : commonCheck bs with
  | ok p =>
    obtain ⟨rfl, hl⟩ := commonCheck_ok h1
    simp only [h1] at hc
    unfold terminationInfo
    rw [sliceFrom_ok (by omega)]
    exact termIter_of_tlvLoop _ _ (by omega) hc
  | err => simp [h1] at hc
  | panic => simp [h1] at hc

/-- PeerDownNotification: `reason`, `fsm` and `notification` never panic -/
theorem peer_down_total {bs : Bytes} (h : fromOctets deps bs = .ok .peerDown) :
    (∃ r, peerDownReason bs = .ok r) ∧ (∃ f, peerDownFsm bs = .ok f) ∧ (∃ n, peerDownNotification deps bs = .ok n) := by
  have hc := (kind_check h).2
  simp only [checkKind, peerDownCheck] at hc
  obtain ⟨-, hl, hc⟩ := bothCheck_prefix_len hc
  cases h2 : cU8 bs 48 with
  | ok x =>
    obtain ⟨reason, p2⟩ := x
    obtain ⟨rfl, hl2, rfl⟩ := cU8_ok h2
    simp only [h2] at hc
    have hr : peerDownReason bs = .ok (if beAt bs 48 1 ≤ 5 then beAt bs 48 1 else 6) := by
      simp [peerDownReason, COFF, idx_ok (bs := bs) (i := 48) (by omega)]
    refine ⟨⟨_, hr⟩, ?_, ?_⟩
    · unfold peerDownFsm
      rw [hr]
      dsimp only
      by_cases hreason : beAt bs 48 1 = 2
      · have h13 : ¬ (beAt bs 48 1 = 1 ∨ beAt bs 48 1 = 3) := by omega
        simp only [hreason, if_true] at hc
        simp at hc
        cases h3 : cAdvance 2 bs (48 + 1) with
        | ok p3 =>
          have := cAdvance_ok h3
          simp only [hreason]
          rw [rdBE_ok (by simp [COFF]; omega)]
          exact ⟨_, rfl⟩
        | err => simp [h3] at hc
        | panic => simp [h3] at hc
      · have : ¬ ((if beAt bs 48 1 ≤ 5 then beAt bs 48 1 else 6) = 2) := by
          split <;> omega
        simp only [this, if_false]
        exact ⟨_, rfl⟩
    · unfold peerDownNotification
      rw [hr]
      dsimp only
      rw [sliceFrom_ok (by simp [COFF]; omega)]
      dsimp only
      by_cases hA : ((if beAt bs 48 1 ≤ 5 then beAt bs 48 1 else 6) = 1 ∨ (if beAt bs 48 1 ≤ 5 then beAt bs 48 1 else 6) = 3)
      · by_cases hB : COFF + 1 = bs.length
        · simp only [hA, hB, if_true]; exact ⟨_, rfl⟩
        · simp only [hA, hB, if_true, if_false]
          have h13 : beAt bs 48 1 = 1 ∨ beAt bs 48 1 = 3 := by
            split at hA <;> omega
          have hlt : ¬ 48 + 1 ≥ bs.length := by simp [COFF] at hB; omega
          simp only [h13, if_true, hlt, if_false] at hc
          cases hn : deps.notifParse (List.drop (48 + 1) bs) with
          | ok k => simp only [COFF, hn]; exact ⟨_, rfl⟩
          | err => simp [hn] at hc
          | panic => simp [hn] at hc
      · simp only [hA, if_false]; exact ⟨_, rfl⟩
  | err => simp [h2] at hc
  | panic => simp [h2] at hc

/-- PeerUpNotification: local address and ports, both embedded OPENs and the
Information TLV iterator never panic -/
theorem peer_up_total {bs : Bytes} (h : fromOctets deps bs = .ok .peerUp) :
    ∃ u, peerUp deps bs = .ok u := by
  have hc := (kind_check h).2
  simp only [checkKind, peerUpCheck] at hc
  obtain ⟨-, hl, hc⟩ := bothCheck_prefix_len hc
  cases h2 : cAdvance 20 bs 48 with
    | ok p2 =>
      obtain ⟨rfl, hl2⟩ := cAdvance_ok h2
      simp only [h2] at hc
      cases h3 : deps.openParse (bs.drop (48 + 20)) with
      | ok n1 =>
        simp only [h3] at hc
        have hle1 := embedded_decoders_total.open_le _ _ h3
        simp at hle1
        cases h4 : deps.openParse (bs.drop (48 + 20 + n1)) with
        | ok n2 =>
          simp only [h4] at hc
          have hle2 := embedded_decoders_total.open_le _ _ h4
          simp at hle2
          obtain ⟨l, hlv⟩ := infoTlvIter_of_tlvLoop (bs := bs) _ (48 + 20 + n1 + n2) (by omega) hc
          have hs : openSentLen deps bs = .ok n1 := by
            simp [openSentLen, COFF, hl2, h3]
          have hsent : openSent deps bs = .ok ((bs.drop (48 + 20)).take n1) := by
            simp [openSent, hs, COFF]
          have hrl : openRcvdLen deps bs = .ok (48 + 20 + n1, n2) := by
            unfold openRcvdLen
            rw [hsent]
            dsimp only
            have : ((bs.drop (48 + 20)).take n1).length = n1 := by simp; omega
            simp only [COFF, this]
            have hle : 48 + 20 + n1 ≤ bs.length := by omega
            simp only [hle, if_true, h4]
          have hrcvd : openRcvd deps bs = .ok ((bs.drop (48 + 20 + n1)).take n2) := by
            simp [openRcvd, hrl]
          have htl : peerUpTlvs deps bs = .ok l := by
            unfold peerUpTlvs
            rw [hs]
            dsimp only
            simp only [COFF, h4]
            rw [sliceFrom_ok (by omega)]
            exact hlv
          unfold peerUp
          rw [slice_ok (by simp [COFF]) (by simp [COFF]; omega), rdBE_ok (by simp [COFF]; omega),
            rdBE_ok (by simp [COFF]; omega)]
          dsimp only
          rw [hsent, hrcvd, htl, slice_ok (a := COFF + 12) (by simp [COFF]) (by simp [COFF]; omega),
            slice_ok (a := COFF) (b := COFF + 16) (by simp [COFF]) (by simp [COFF]; omega)]
          by_cases hv : ((List.take (COFF + 12 - COFF) (List.drop COFF bs)).all fun x => x == 0) = true
          · simp only [hv, if_true]; exact ⟨_, rfl⟩
          · simp only [hv]; exact ⟨_, rfl⟩
        | err => simp [h4] at hc
        | panic => simp [h4] at hc
      | err => simp [h3] at hc
      | panic => simp [h3] at hc
    | err => simp [h2] at hc
    | panic => simp [h2] at hc

/-! ## the embedded BGP messages, through the models that own them (C03, C01/C02) -/

/-- **One model of the capability rules.**  The content rules of `Capability::parse` as written
for the BMP parse path (`Rc.OpenParse.capContent`: cursor + absolute positions) and as written
for `from_octets` / `check` / the accessors (`Rc.Open.capContent`, C03: remaining bytes) accept
exactly the same capabilities: for every capability code, length octet, buffer and position. -/
theorem capability_rules_agree (typ len start : Nat) (d : Bytes) (hp : start + 2 ≤ d.length) :
    (∃ c', Rc.OpenParse.capContent typ len start ⟨d, start + 2⟩ = .ok c') ↔
      Rc.Open.capContent typ len (d.drop (start + 2)) = .ok () :=
  Rc.OpenBridge.capContent_agree typ len start d hp

/-- … and so do the two models of `Capability::parse` as a whole: each accepts what the other
accepts, as the same capability, leaving the parser at the same place. -/
theorem capability_parse_agree (d : Bytes) (p : Nat) (hp : p ≤ d.length) :
    (∀ c', Rc.OpenParse.capParse ⟨d, p⟩ = .ok c' →
      ∃ cap, Rc.Open.parseCap (d.drop p) = .ok (cap, d.drop (p + 2 + cap.value.length)) ∧
        c' = ⟨d, p + 2 + cap.value.length⟩ ∧ p + 2 + cap.value.length ≤ d.length) ∧
    (∀ cap r, Rc.Open.parseCap (d.drop p) = .ok (cap, r) →
      Rc.OpenParse.capParse ⟨d, p⟩ = .ok ⟨d, p + 2 + cap.value.length⟩ ∧
        r = d.drop (p + 2 + cap.value.length)) :=
  Rc.OpenBridge.capParse_agree d p hp

/-- **An OPEN accepted by `OpenMessage::parse` is one `OpenMessage::from_octets` accepts**: the
`n` octets `parse` returns (from a buffer that may go on: the rest of the PeerUp) pass
`OpenMessage::check` on their own.  Everything C03 proves of a checked OPEN therefore holds of
the OPENs a PeerUp hands out. -/
theorem embedded_open_is_checked (bs : Bytes) (n : Nat) (h : deps.openParse bs = .ok n) :
    n ≤ bs.length ∧ Rc.Open.fromOctets (bs.take n) = .ok (bs.take n) :=
  ⟨(Rc.OpenBridge.openParse_check bs n h).1, parsed_open_from_octets h⟩

/-- **The two decoders of an OPEN accept the same messages**: `OpenMessage::parse` at the start of
`bs` accepts and returns `n` octets exactly when the first `n` octets of `bs` pass
`OpenMessage::check` (so `from_octets` accepts them).  The parse path (optional parameters read on
the whole buffer with the `opt_param_len` accounting, `Header::parse`, final length comparison)
and the check path (parser limited to the optional-parameters field, `Header::check`,
"trailing bytes") are two descriptions of one set of messages. -/
theorem embedded_open_iff_checked (bs : Bytes) (n : Nat) :
    deps.openParse bs = .ok n ↔ n ≤ bs.length ∧ Rc.Open.openCheck (bs.take n) = .ok () :=
  Rc.OpenBridge.openParse_iff_check bs n

/-- non-vacuity: a 55-octet OPEN (capabilities MP 1/1, 4-octet AS, ADD-PATH, FQDN) followed by other
octets is accepted by the parse-path model, which consumes exactly the OPEN -/
example :
    deps.openParse (Rc.Open.marker ++ [0, 55, 1, 4, 0xfd, 0xea, 0, 90, 10, 0, 0, 2, 26, 2, 24,
      1, 4, 0, 1, 0, 1, 65, 4, 0, 0, 0xfd, 0xea, 69, 4, 0, 1, 1, 3, 73, 4, 1, 0x41, 1, 0x42] ++ [9, 9, 9]) = .ok 55 := by
  decide

/-- **The PeerUp configuration accessors are total.**  On every accepted PeerUp,
`bgp_open_sent_rcvd()` and what `session_config`, `pph_session_config`, `supported_protocols`
read off the two OPENs – `my_asn`, `four_octet_capable`, `addpath_families_vec` (through
`addpath_intersection`), the MultiProtocol capability values, `capabilities()`, `parameters()`,
`get_software_version`, `holdtime`, `identifier`, `version` – return values: none panics (C03
`open_accessors_total`, carried over by `embedded_open_is_checked`); an `Err` of
`addpath_families_vec` is a value (`addpath = none`: the intersection is then empty). -/
theorem peer_up_config_total {bs : Bytes} (h : fromOctets deps bs = .ok .peerUp) :
    ∃ c, peerUpConfig deps bs = .ok c := by
  obtain ⟨u, hu⟩ := peer_up_total h
  have hs : ∃ s, openSent deps bs = .ok s := by
    unfold peerUp at hu
    repeat' (first | split at hu | dsimp only at hu)
    all_goals first | (simp at hu; done) | exact ⟨_, by assumption⟩
  have hr : ∃ r, openRcvd deps bs = .ok r := by
    unfold peerUp at hu
    repeat' (first | split at hu | dsimp only at hu)
    all_goals first | (simp at hu; done) | exact ⟨_, by assumption⟩
  obtain ⟨s, hs⟩ := hs
  obtain ⟨r, hr⟩ := hr
  obtain ⟨n1, hp1, rfl⟩ := openSent_inv hs
  obtain ⟨off, n2, hp2, rfl⟩ := openRcvd_inv hr
  obtain ⟨c1, e1⟩ := Rc.OpenNoErr.openCfg_ok _ (parsed_open_from_octets hp1)
  obtain ⟨c2, e2⟩ := Rc.OpenNoErr.openCfg_ok _ (parsed_open_from_octets hp2)
  exact ⟨(c1, c2), by simp [peerUpConfig, hs, hr, e1, e2]⟩

private theorem upd_header_body {bs body : Bytes} {hl : Nat} {ty : UInt8}
    (h : Rc.Upd.headerParse bs = .ok (hl, ty, body)) : body = bs.drop 19 := by
  unfold Rc.Upd.headerParse at h
  cases h16 : takeN 16 bs with
  | none => simp [h16] at h
  | some q =>
    obtain ⟨m, r0⟩ := q
    obtain ⟨hm, hb⟩ := takeN_length h16
    simp only [h16] at h
    split at h
    · simp at h
    · match r0, h with
      | a :: b :: t :: r, h =>
        simp [rd16] at h
        rw [hb, ← h.2.2]
        simp [List.drop_append, hm]
      | [a, b], h => simp [rd16] at h
      | [a], h => simp [rd16] at h
      | [], h => simp [rd16] at h

/-- **The embedded UPDATE decodes exactly as it would on its own.**  (What carries content here:
conjunct 2 - no panic, from C02 `parse_total` - and conjunct 5 - which octets the value keeps.
Conjuncts 1, 3 and 4 hold BY CONSTRUCTION of the model: `rmUpdate` and `updFromOctets` are both
defined through `Rc.Upd.parseUpdate` on the octets after the per-peer header, which encodes the
ASSUMPTION that `UpdateMessage::parse` is position-relative (tools/props/C15.json, assumptions); the
clause itself is decided on the real code by the harness: `bgp_update()` against
`UpdateMessage::from_octets` on the same octets, token `same=1`, judged by the oracle.)  For an accepted
RouteMonitoring message and every session configuration, `bgp_update(config)`
(`UpdateMessage::parse` on a parser over the whole BMP message advanced by 48) (1) is
`UpdateMessage::parse` of the octets after the per-peer header – it never panics (the
`expect` cannot fire, and C02 `parse_total`) –, and (2) succeeds / fails exactly when
`UpdateMessage::from_octets` on those octets does, with the same sections and parse info
(`f.msg = m`); the one difference is which octets the value keeps: `from_octets` all of them
(`f.octets`), `parse` the `length − 19` octets after the 19-octet header
(`m.body = (f.octets.drop 19).take (hl − 19)`, `hl` the UPDATE's length field), the section
ranges being shifted by those 19. -/
theorem route_monitoring_update_same {bs : Bytes} (h : fromOctets deps bs = .ok .routeMonitoring)
    (cfg : Rc.Upd.Cfg) :
    rmUpdate cfg bs = Rc.Upd.parseUpdate cfg (bs.drop 48) ∧
    rmUpdate cfg bs ≠ .panic ∧
    (∀ m, rmUpdate cfg bs = .ok m ↔ updFromOctets cfg (bs.drop 48) = .ok ⟨bs.drop 48, m⟩) ∧
    (rmUpdate cfg bs = .err ↔ updFromOctets cfg (bs.drop 48) = .err) ∧
    (∀ m, rmUpdate cfg bs = .ok m →
      ∃ hl ty body, Rc.Upd.headerParse (bs.drop 48) = .ok (hl, ty, body) ∧ 19 ≤ hl ∧
        m.body = ((bs.drop 48).drop 19).take (hl - 19)) := by
  have e : rmUpdate cfg bs = Rc.Upd.parseUpdate cfg (bs.drop 48) := by
    simp [rmUpdate, route_monitoring_total h]
  have hnp := Rc.Thm.C02.parse_total cfg (bs.drop 48)
  refine ⟨e, by rw [e]; exact hnp, ?_, ?_, ?_⟩
  · intro m
    rw [e]
    unfold updFromOctets
    cases Rc.Upd.parseUpdate cfg (bs.drop 48) <;> simp
  · rw [e]
    unfold updFromOctets
    cases Rc.Upd.parseUpdate cfg (bs.drop 48) <;> simp
  · intro m hm
    rw [e] at hm
    obtain ⟨hl, ty, body, _, _, _, _, _, _, _, _, _, hh, h19, _, _, _, _, _, _, _, _, _, _, _, hbody, _⟩ :=
      Rc.Upd.parseUpdate_ok hm
    exact ⟨hl, ty, body, hh, h19, by rw [hbody, upd_header_body hh]⟩

/-! ## faithfulness: "decoding succeeds and reports the encoded fields"

Reference encoders: `encPph`, `encStat`, `encTlv` (Rc/Model/Bmp.lean), `encTerm`
(Rc/Lemmas/BmpBytes.lean). The well-formedness predicates say only that each
field fits its wire width. -/

/-- per-peer header: every field (type, flags, distinguisher, IPv4/IPv6
address chosen by the V flag, AS, BGP id, timestamp seconds and microseconds)
is reported as encoded, whatever precedes (the 6-byte common header) and
follows it -/
theorem per_peer_header_roundtrip (hdr rest : Bytes) (p : Pph) (hh : hdr.length = 6) (hp : WfPph p) :
    pph (hdr ++ encPph p ++ rest) = .ok p := pph_enc hdr rest p hh hp

example : WfPph ⟨1, 0x80, [1,2,3,4,5,6,7,8], true, List.replicate 16 7, 65551, [10,0,0,1], 1700000000, 999999⟩ := by
  simp [WfPph]

/-- statistics report: `stats_count` is the encoded count and `stats()`
yields exactly the encoded statistics, in order – for every list length and
every mix of the 18 defined types and unknown ones -/
theorem statistics_roundtrip (hdr rest : Bytes) (ss : List Stat) (hh : hdr.length = 48)
    (hn : ss.length < 4294967296) (h : ∀ s ∈ ss, WfStat s) :
    statsCount (hdr ++ be32 ss.length ++ ss.flatMap encStat ++ rest) = .ok ss.length ∧
    stats (hdr ++ be32 ss.length ++ ss.flatMap encStat ++ rest) = .ok ss := stats_enc hdr rest ss hh hn h

example : ∀ s ∈ [Stat.u32 0 5, Stat.u64 7 (2^40), Stat.afiSafi 9 1 1 77, Stat.unimplemented 99 3, Stat.unimplemented 0 5], WfStat s := by
  simp [WfStat, isU32Stat, isU64Stat, isAfiSafiStat]

/-- initiation message: the Information TLV iterator yields exactly the encoded TLVs -/
theorem initiation_roundtrip (hdr : Bytes) (ts : List (Nat × Nat × Bytes)) (hh : hdr.length = 6)
    (h : ∀ t ∈ ts, WfTlv t) :
    initiationTlvs (hdr ++ ts.flatMap encTlv) = .ok ts := by
  unfold initiationTlvs
  rw [sliceFrom_ok (by simp [hh])]
  dsimp only
  have := infoTlvIter_enc hdr ts ((hdr ++ ts.flatMap encTlv).length + 1) ?_ h
  · rw [hh] at this; exact this
  · have : ts.length ≤ (ts.flatMap encTlv).length :=
      length_le_flatMap encTlv ts (fun x => by simp [encTlv, List.length_append]; omega)
    simp only [List.length_append]; omega

/-- termination message: the Information iterator yields exactly the encoded
strings and reason codes -/
theorem termination_roundtrip (hdr : Bytes) (ts : List TermInfo) (hh : hdr.length = 6)
    (h : ∀ t ∈ ts, WfTerm t) :
    terminationInfo (hdr ++ ts.flatMap encTerm) = .ok ts := by
  unfold terminationInfo
  rw [sliceFrom_ok (by simp [hh])]
  dsimp only
  have := termIter_enc hdr ts ((hdr ++ ts.flatMap encTerm).length + 1) ?_ h
  · rw [hh] at this; exact this
  · have : ts.length ≤ (ts.flatMap encTerm).length :=
      length_le_flatMap encTerm ts (fun x => by cases x <;> simp [encTerm, List.length_append] <;> omega)
    simp only [List.length_append]; omega

example : ∀ t ∈ [TermInfo.customString [104, 105], TermInfo.reason 3], WfTerm t := by simp [WfTerm]

/-- peer down: reason, FSM code and the embedded NOTIFICATION (byte for byte)
are what follows the 48 header bytes; the NOTIFICATION is the message
its own header delimits (`notifParse payload = ok k`) -/
theorem peer_down_roundtrip (hdr payload : Bytes) (reason : Nat) (hh : hdr.length = 48) (hr : reason < 256) :
    peerDownReason (hdr ++ [UInt8.ofNat reason] ++ payload) = .ok (if reason ≤ 5 then reason else 6) ∧
    (reason = 2 → 2 ≤ payload.length →
      peerDownFsm (hdr ++ [UInt8.ofNat reason] ++ payload) = .ok (some (beAt payload 0 2))) ∧
    ((reason = 1 ∨ reason = 3) → payload ≠ [] → ∀ k, deps.notifParse payload = .ok k →
      peerDownNotification deps (hdr ++ [UInt8.ofNat reason] ++ payload) = .ok (some (payload.take k))) := by
  have hreason : peerDownReason (hdr ++ [UInt8.ofNat reason] ++ payload) = .ok (if reason ≤ 5 then reason else 6) := by
    unfold peerDownReason
    have := idx_shift hdr ([UInt8.ofNat reason] ++ payload) 0
    simp only [hh, Nat.add_zero] at this
    simp only [List.append_assoc, COFF]
    rw [this]
    simp [idx, beAt, beNat, UInt8.toNat_ofNat', Nat.mod_eq_of_lt hr]
  refine ⟨hreason, ?_, ?_⟩
  · intro h2 hl
    unfold peerDownFsm
    rw [hreason]
    subst h2
    dsimp only
    have := rdBE_shift (hdr ++ [UInt8.ofNat 2]) payload 0 2
    simp only [List.length_append, hh, List.length_singleton, Nat.add_zero] at this
    simp only [COFF]
    rw [this]
    simp [rdBE, hl]
  · intro h13 hne k hk
    unfold peerDownNotification
    rw [hreason]
    dsimp only
    have h1 : ((if reason ≤ 5 then reason else 6) = 1 ∨ (if reason ≤ 5 then reason else 6) = 3) := by
      rcases h13 with h | h <;> simp [h]
    have h2 : ¬ COFF + 1 = (hdr ++ [UInt8.ofNat reason] ++ payload).length := by
      have : payload.length ≠ 0 := by simpa using hne
      simp [List.length_append, hh, COFF]; omega
    simp only [h1, h2, if_true, if_false]
    rw [sliceFrom_ok (by simp [List.length_append, hh, COFF]; omega)]
    dsimp only
    have : List.drop (COFF + 1) (hdr ++ [UInt8.ofNat reason] ++ payload) = payload := by
      have : COFF + 1 = (hdr ++ [UInt8.ofNat reason]).length := by simp [hh, COFF]
      rw [this, List.drop_left']
      rfl
    rw [this, hk]

/-! ## acceptance: "for every well-formed BMP message of each type decoding SUCCEEDS"

A well-formed message is `encMsg typ body` = `encCommon (6 + body.length) typ ++ body` with the body of
its type built by the reference encoders.  The theorems below hold for every value `len` of the
header's length field (`Message::from_octets` does not compare it with the octets it is given), so in
particular for the message's own length.  `WfPph` / `WfStat` / `WfTlv` / `WfTerm` say only that every
field fits its wire width; the per-peer header's peer type is one of the four defined ones (0..3:
`PerPeerHeader::check` refuses others). -/

private theorem fromOctets_enc (len typ : Nat) (k : MsgKind) (rest : Bytes) (hk : kindOf typ = some k)
    (hc : checkKind deps k (encCommon len typ ++ rest) = .ok ()) :
    fromOctets deps (encCommon len typ ++ rest) = .ok k := by
  have ht : typ ≤ 6 := by
    unfold kindOf at hk
    split at hk <;> first | omega | simp at hk
  unfold fromOctets
  have hl : ¬ (encCommon len typ ++ rest).length < 6 := by simp [encCommon, List.length_append]; omega
  simp only [hl, if_false]
  have h5 : idx (encCommon len typ ++ rest) 5 = .ok typ := by
    have := idx_shift ([3] ++ be32 len) (UInt8.ofNat typ :: rest) 0
    simp only [List.length_append, List.length_singleton, be32_length, Nat.add_zero] at this
    have e : ([3] ++ be32 len ++ UInt8.ofNat typ :: rest) = encCommon len typ ++ rest := by simp [encCommon]
    rw [e] at this
    rw [this]
    simp [idx, beAt, beNat, UInt8.toNat_ofNat']
    omega
  rw [h5]
  simp only [hk, hc]

/-- **common header**: version, message length and message type are reported as encoded -/
theorem common_header_roundtrip (len typ : Nat) (rest : Bytes) (hl : len < 4294967296) (ht : typ < 256) :
    chVersion (encCommon len typ ++ rest) = .ok 3 ∧ chLength (encCommon len typ ++ rest) = .ok len ∧
    chMsgType (encCommon len typ ++ rest) = .ok typ := by
  refine ⟨?_, ?_, ?_⟩
  · simp [chVersion, idx, encCommon, beAt, beNat]
  · unfold chLength
    have := rdBE_mid [3] (be32 len) ([UInt8.ofNat typ] ++ rest) 1 4 rfl (by simp)
    have e : [3] ++ (be32 len ++ ([UInt8.ofNat typ] ++ rest)) = encCommon len typ ++ rest := by simp [encCommon]
    rw [e] at this
    rw [this, beNat_be32 _ hl]
  · unfold chMsgType
    have := idx_shift ([3] ++ be32 len) (UInt8.ofNat typ :: rest) 0
    simp only [List.length_append, List.length_singleton, be32_length, Nat.add_zero] at this
    have e : ([3] ++ be32 len ++ UInt8.ofNat typ :: rest) = encCommon len typ ++ rest := by simp [encCommon]
    rw [e] at this
    rw [this]
    simp [idx, beAt, beNat, UInt8.toNat_ofNat']
    omega

/-- **Route Monitoring** (type 0): accepted whatever follows the per-peer header; the octets handed to
the UPDATE decoder are exactly the embedded UPDATE -/
theorem route_monitoring_accepted (len : Nat) (p : Pph) (hp : WfPph p) (hpt : p.peerType ≤ 3) (upd : Bytes) :
    fromOctets deps (encCommon len 0 ++ (encPph p ++ upd)) = .ok .routeMonitoring ∧
    rmUpdateBytes (encCommon len 0 ++ (encPph p ++ upd)) = .ok upd := by
  refine ⟨fromOctets_enc len 0 _ _ rfl ?_, ?_⟩
  · simp only [checkKind, routeMonitoringCheck, bothCheck_enc len 0 (by omega) p hp hpt]
  · have hl := encPph_length p hp
    unfold rmUpdateBytes
    have : COFF ≤ (encCommon len 0 ++ (encPph p ++ upd)).length := by
      simp [COFF, List.length_append, encCommon_length, hl]; omega
    simp only [this, if_true]
    rw [← List.append_assoc, drop_mid _ _ COFF (by simp [COFF, List.length_append, encCommon_length, hl])]

/-- **Route Mirroring** (type 6): accepted whatever follows the per-peer header -/
theorem route_mirroring_accepted (len : Nat) (p : Pph) (hp : WfPph p) (hpt : p.peerType ≤ 3) (body : Bytes) :
    fromOctets deps (encCommon len 6 ++ (encPph p ++ body)) = .ok .routeMirroring :=
  fromOctets_enc len 6 _ _ rfl (by
    simp only [checkKind, routeMirroringCheck, routeMonitoringCheck, bothCheck_enc len 6 (by omega) p hp hpt])

/-- **Statistics Report** (type 1): accepted for every list of statistics (every defined type and
unknown ones, any number below 2^32); `statistics_roundtrip` (with `hdr` = the two headers) says what
the iterator then yields -/
theorem statistics_accepted (len : Nat) (p : Pph) (hp : WfPph p) (hpt : p.peerType ≤ 3) (ss : List Stat)
    (hn : ss.length < 4294967296) (h : ∀ s ∈ ss, WfStat s) :
    fromOctets deps (encCommon len 1 ++ (encPph p ++ (be32 ss.length ++ ss.flatMap encStat)))
      = .ok .statisticsReport := by
  refine fromOctets_enc len 1 _ _ rfl ?_
  have hl := encPph_length p hp
  simp only [checkKind, statsCheck, bothCheck_enc len 1 (by omega) p hp hpt]
  have hpre : (encCommon len 1 ++ encPph p).length = 48 := by simp [List.length_append, encCommon_length, hl]
  have h1 := cU32_at (encCommon len 1 ++ encPph p) ss.length hn (ss.flatMap encStat)
  rw [hpre] at h1
  simp only [List.append_assoc] at h1
  rw [h1]
  dsimp only
  have h2 := statsLoop_enc encStat ss (fun s hs => framed_stat s (h s hs)) (encCommon len 1 ++ encPph p ++ be32 ss.length) []
  simp only [List.length_append, encCommon_length, hl, be32_length, List.append_nil, List.append_assoc] at h2
  exact h2

/-- **Initiation** (type 4): accepted for every list of Information TLVs (`initiation_roundtrip`
says what the iterator yields) -/
theorem initiation_accepted (len : Nat) (ts : List (Nat × Nat × Bytes)) (h : ∀ t ∈ ts, WfTlv t) :
    fromOctets deps (encCommon len 4 ++ ts.flatMap encTlv) = .ok .initiation := by
  refine fromOctets_enc len 4 _ _ rfl ?_
  simp only [checkKind, initiationCheck, commonCheck_enc len 4 (by omega)]
  have := tlvCheck_enc encTlv ts (fun t ht => framed_tlv t (h t ht)) (fun t _ => encTlv_pos t) (encCommon len 4)
  rwa [encCommon_length] at this

/-- **Termination** (type 5): accepted for every list of strings and reason codes
(`termination_roundtrip` says what the iterator yields) -/
theorem termination_accepted (len : Nat) (ts : List TermInfo) (h : ∀ t ∈ ts, WfTerm t) :
    fromOctets deps (encCommon len 5 ++ ts.flatMap encTerm) = .ok .termination := by
  refine fromOctets_enc len 5 _ _ rfl ?_
  simp only [checkKind, terminationCheck, initiationCheck, commonCheck_enc len 5 (by omega)]
  have := tlvCheck_enc encTerm ts (fun t ht => framed_term t (h t ht)) (fun t _ => encTerm_pos t) (encCommon len 5)
  rwa [encCommon_length] at this

/-- **Peer Down** (type 2): accepted with reason 1 / 3 followed by nothing or by a NOTIFICATION the
NOTIFICATION decoder accepts, with reason 2 followed by (at least) the two octets of the FSM code, and
with every other reason octet whatever follows (`peer_down_roundtrip` says what the accessors report) -/
theorem peer_down_accepted (len : Nat) (p : Pph) (hp : WfPph p) (hpt : p.peerType ≤ 3) (reason : Nat)
    (hr : reason < 256) (payload : Bytes)
    (h13 : reason = 1 ∨ reason = 3 → payload = [] ∨ ∃ k, deps.notifParse payload = .ok k)
    (h2 : reason = 2 → 2 ≤ payload.length) :
    fromOctets deps (encCommon len 2 ++ (encPph p ++ (UInt8.ofNat reason :: payload))) = .ok .peerDown := by
  refine fromOctets_enc len 2 _ _ rfl ?_
  have hl := encPph_length p hp
  simp only [checkKind, peerDownCheck, bothCheck_enc len 2 (by omega) p hp hpt]
  have hpre : (encCommon len 2 ++ encPph p).length = 48 := by simp [List.length_append, encCommon_length, hl]
  have h1 := cU8_at (encCommon len 2 ++ encPph p) (UInt8.ofNat reason) payload
  rw [hpre] at h1
  simp only [List.append_assoc] at h1
  rw [h1]
  have hrn : (UInt8.ofNat reason).toNat = reason := by simp [UInt8.toNat_ofNat']; omega
  simp only [hrn]
  have hlen : (encCommon len 2 ++ (encPph p ++ UInt8.ofNat reason :: payload)).length = 49 + payload.length := by
    simp [List.length_append, encCommon_length, hl]; omega
  have hdrop : (encCommon len 2 ++ (encPph p ++ UInt8.ofNat reason :: payload)).drop (48 + 1) = payload := by
    have := drop_mid (encCommon len 2 ++ encPph p ++ [UInt8.ofNat reason]) payload 49
      (by simp [List.length_append, encCommon_length, hl])
    simpa [List.append_assoc] using this
  by_cases c13 : reason = 1 ∨ reason = 3
  · simp only [c13, if_true, hlen, hdrop]
    rcases h13 c13 with h | ⟨k, hk⟩
    · subst h; simp
    · by_cases he : 48 + 1 ≥ 49 + payload.length
      · simp [he]
      · simp only [he, if_false, hk]
  · simp only [c13, if_false]
    by_cases c2 : reason = 2
    · subst c2
      simp only [if_true]
      rw [cAdvance_le (by rw [hlen]; have := h2 rfl; omega)]
    · simp only [c2, if_false]

/-- **Peer Up** (type 3): a message whose body is the 16-octet local-address field (`z` its first 12
octets, `a4` its last 4), the two ports, two OPEN messages each of which `OpenMessage::check`
accepts (C03: `Rc.Open.openCheck`) and Information TLVs is ACCEPTED, and the accessors report:
the ports; the sent OPEN and the received OPEN **byte for byte**; the TLVs in order; the local
address as IPv4 `a4` when the first 12 octets are zero (RFC 7854: an IPv4 address is carried in the
last 4 octets, the rest zero-filled) and as the 16 octets `z ++ a4` (IPv6) otherwise.  (As coded,
message.rs `local_address`: the family is taken from the zero test, not from the per-peer header's
V flag, so an IPv6 local address inside ::/96 is reported as the IPv4 address of its last four
octets.) -/
theorem peer_up_accepted_roundtrip (len : Nat) (p : Pph) (hp : WfPph p) (hpt : p.peerType ≤ 3)
    (z a4 : Bytes) (hz : z.length = 12) (ha : a4.length = 4) (lp rp : Nat) (hlp : lp < 65536) (hrp : rp < 65536)
    (sent rcvd : Bytes) (hs : Rc.Open.openCheck sent = .ok ()) (hr : Rc.Open.openCheck rcvd = .ok ())
    (tlvs : List (Nat × Nat × Bytes)) (ht : ∀ t ∈ tlvs, WfTlv t) :
    fromOctets deps (encCommon len 3 ++ (encPph p ++ encPeerUpBody z a4 lp rp sent rcvd tlvs)) = .ok .peerUp ∧
    peerUp deps (encCommon len 3 ++ (encPph p ++ encPeerUpBody z a4 lp rp sent rcvd tlvs))
      = .ok ⟨!(z.all (· == 0)), if z.all (· == 0) then a4 else z ++ a4, lp, rp, sent, rcvd, tlvs⟩ := by
  have hl := encPph_length p hp
  generalize hH : encCommon len 3 ++ encPph p = H
  have hHl : H.length = 48 := by rw [← hH]; simp [List.length_append, encCommon_length, hl]
  have hbs : encCommon len 3 ++ (encPph p ++ encPeerUpBody z a4 lp rp sent rcvd tlvs)
      = H ++ encPeerUpBody z a4 lp rp sent rcvd tlvs := by rw [← hH, List.append_assoc]
  -- the OPEN decoder on the octets from each OPEN's start on
  have hps : deps.openParse (sent ++ (rcvd ++ tlvs.flatMap encTlv)) = .ok sent.length := by
    rw [embedded_open_iff_checked]
    exact ⟨by simp [List.length_append], by simpa using hs⟩
  have hpr : deps.openParse (rcvd ++ tlvs.flatMap encTlv) = .ok rcvd.length := by
    rw [embedded_open_iff_checked]
    exact ⟨by simp [List.length_append], by simpa using hr⟩
  have hd68 : (H ++ encPeerUpBody z a4 lp rp sent rcvd tlvs).drop (48 + 20) = sent ++ (rcvd ++ tlvs.flatMap encTlv) := by
    have := drop_mid (H ++ z ++ a4 ++ be16 lp ++ be16 rp) (sent ++ (rcvd ++ tlvs.flatMap encTlv)) (48 + 20)
      (by simp [List.length_append, hHl, hz, ha])
    simpa [encPeerUpBody, List.append_assoc] using this
  have hd68s : (H ++ encPeerUpBody z a4 lp rp sent rcvd tlvs).drop (48 + 20 + sent.length) = rcvd ++ tlvs.flatMap encTlv := by
    have := drop_mid (H ++ z ++ a4 ++ be16 lp ++ be16 rp ++ sent) (rcvd ++ tlvs.flatMap encTlv) (48 + 20 + sent.length)
      (by simp [List.length_append, hHl, hz, ha]; omega)
    simpa [encPeerUpBody, List.append_assoc] using this
  have hlen : (H ++ encPeerUpBody z a4 lp rp sent rcvd tlvs).length
      = 48 + 20 + sent.length + rcvd.length + (tlvs.flatMap encTlv).length := by
    simp [encPeerUpBody, List.length_append, hHl, hz, ha]; omega
  have htl := tlvCheck_enc encTlv tlvs (fun t h => framed_tlv t (ht t h)) (fun t _ => encTlv_pos t)
    (H ++ z ++ a4 ++ be16 lp ++ be16 rp ++ sent ++ rcvd)
  have hpl : (H ++ z ++ a4 ++ be16 lp ++ be16 rp ++ sent ++ rcvd).length = 48 + 20 + sent.length + rcvd.length := by
    simp [List.length_append, hHl, hz, ha]; omega
  have hbs2 : H ++ z ++ a4 ++ be16 lp ++ be16 rp ++ sent ++ rcvd ++ tlvs.flatMap encTlv
      = H ++ encPeerUpBody z a4 lp rp sent rcvd tlvs := by simp [encPeerUpBody, List.append_assoc]
  rw [hpl, hbs2] at htl
  have hiter := infoTlvIter_enc (H ++ z ++ a4 ++ be16 lp ++ be16 rp ++ sent ++ rcvd) tlvs
    ((H ++ encPeerUpBody z a4 lp rp sent rcvd tlvs).length + 1)
    (by
      have : tlvs.length ≤ (tlvs.flatMap encTlv).length := length_le_flatMap encTlv tlvs (fun x => encTlv_pos x)
      rw [hlen]; omega) ht
  rw [hpl, hbs2] at hiter
  rw [hbs]
  constructor
  · have hb := bothCheck_enc len 3 (by omega) p hp hpt (encPeerUpBody z a4 lp rp sent rcvd tlvs)
    rw [hbs] at hb
    have := fromOctets_enc len 3 .peerUp (encPph p ++ encPeerUpBody z a4 lp rp sent rcvd tlvs) rfl (by
      rw [hbs]
      simp only [checkKind, peerUpCheck, hb]
      rw [cAdvance_le (by rw [hlen]; omega)]
      simp only [hd68, hps, hd68s, hpr]
      exact htl)
    rwa [hbs] at this
  · have hsl : openSentLen deps (H ++ encPeerUpBody z a4 lp rp sent rcvd tlvs) = .ok sent.length := by
      unfold openSentLen
      have : COFF + 20 ≤ (H ++ encPeerUpBody z a4 lp rp sent rcvd tlvs).length := by rw [hlen]; simp [COFF]; omega
      simp only [this, if_true]
      simp only [COFF, hd68, hps]
    have hsent : openSent deps (H ++ encPeerUpBody z a4 lp rp sent rcvd tlvs) = .ok sent := by
      unfold openSent
      rw [hsl]
      simp only [COFF, hd68]
      simp
    have hrl : openRcvdLen deps (H ++ encPeerUpBody z a4 lp rp sent rcvd tlvs)
        = .ok (48 + 20 + sent.length, rcvd.length) := by
      unfold openRcvdLen
      rw [hsent]
      have : COFF + 20 + sent.length ≤ (H ++ encPeerUpBody z a4 lp rp sent rcvd tlvs).length := by
        rw [hlen]; simp [COFF]; omega
      simp only [this, if_true]
      simp only [COFF, hd68s, hpr]
    have hrcvd : openRcvd deps (H ++ encPeerUpBody z a4 lp rp sent rcvd tlvs) = .ok rcvd := by
      unfold openRcvd
      rw [hrl]
      simp only [hd68s]
      simp
    have htlv : peerUpTlvs deps (H ++ encPeerUpBody z a4 lp rp sent rcvd tlvs) = .ok tlvs := by
      unfold peerUpTlvs
      rw [hsl]
      simp only [COFF, hd68s, hpr]
      rw [sliceFrom_ok (by rw [hlen]; omega)]
      exact hiter
    have hz12 : slice (H ++ encPeerUpBody z a4 lp rp sent rcvd tlvs) COFF (COFF + 12) = .ok z := by
      simpa [encPeerUpBody] using slice_mid H z (a4 ++ (be16 lp ++ (be16 rp ++ (sent ++ (rcvd ++ tlvs.flatMap encTlv))))) COFF (COFF + 12)
        (by simp [COFF, hHl]) (by simp [hz])
    have ha4 : slice (H ++ encPeerUpBody z a4 lp rp sent rcvd tlvs) (COFF + 12) (COFF + 16) = .ok a4 := by
      have := slice_mid (H ++ z) a4 (be16 lp ++ (be16 rp ++ (sent ++ (rcvd ++ tlvs.flatMap encTlv)))) (COFF + 12) (COFF + 16)
        (by simp [COFF, List.length_append, hHl, hz]) (by simp [ha])
      simpa [encPeerUpBody, List.append_assoc] using this
    have ha16 : slice (H ++ encPeerUpBody z a4 lp rp sent rcvd tlvs) COFF (COFF + 16) = .ok (z ++ a4) := by
      have := slice_mid H (z ++ a4) (be16 lp ++ (be16 rp ++ (sent ++ (rcvd ++ tlvs.flatMap encTlv)))) COFF (COFF + 16)
        (by simp [COFF, hHl]) (by simp [List.length_append, hz, ha])
      simpa [encPeerUpBody, List.append_assoc] using this
    have hlp' : rdBE (H ++ encPeerUpBody z a4 lp rp sent rcvd tlvs) (COFF + 16) 2 = .ok lp := by
      have := rdBE_mid (H ++ z ++ a4) (be16 lp) (be16 rp ++ (sent ++ (rcvd ++ tlvs.flatMap encTlv))) (COFF + 16) 2
        (by simp [COFF, List.length_append, hHl, hz, ha]) (by simp)
      rw [beNat_be16 _ hlp] at this
      simpa [encPeerUpBody, List.append_assoc] using this
    have hrp' : rdBE (H ++ encPeerUpBody z a4 lp rp sent rcvd tlvs) (COFF + 18) 2 = .ok rp := by
      have := rdBE_mid (H ++ z ++ a4 ++ be16 lp) (be16 rp) (sent ++ (rcvd ++ tlvs.flatMap encTlv)) (COFF + 18) 2
        (by simp [COFF, List.length_append, hHl, hz, ha]) (by simp)
      rw [beNat_be16 _ hrp] at this
      simpa [encPeerUpBody, List.append_assoc] using this
    unfold peerUp
    rw [hz12, hlp', hrp']
    dsimp only
    rw [hsent, hrcvd, htlv]
    by_cases hv : (z.all fun x => x == 0) = true
    · simp only [hv, if_true, ha4]
    · simp only [hv, ha16]
      simp

/-- non-vacuity: a minimal OPEN and the 55-octet OPEN with four capabilities of the example above
satisfy the hypothesis on the embedded OPENs -/
example : Rc.Open.openCheck (Rc.Open.marker ++ [0, 29, 1, 4, 0xfd, 0xea, 0, 90, 10, 0, 0, 2, 0]) = .ok () ∧
    Rc.Open.openCheck (Rc.Open.marker ++ [0, 55, 1, 4, 0xfd, 0xea, 0, 90, 10, 0, 0, 2, 26, 2, 24,
      1, 4, 0, 1, 0, 1, 65, 4, 0, 0, 0xfd, 0xea, 69, 4, 0, 1, 1, 3, 73, 4, 1, 0x41, 1, 0x42]) = .ok () := by
  decide

end Rc.Thm.C15
