/-
C19 – Communities keep their raw value through every representation.

Property theorems only; the supporting lemmas (numeral printers/parsers, the
generated `wellknown!` table's side conditions, byte/slice arithmetic) are in
Rc/Lemmas/Community.lean.  Every statement is for ALL raw values of the
flavour's length – in particular `std_text` covers all 2^32 standard
communities by proof, not by enumeration.  The table facts the proofs need
(`tableRoundTrip_ok`, `keysOK_ok`) are decided by the kernel on the table
regenerated from the current source on every run.
-/
import Rc.Model.Community
import Rc.Lemmas.Community

namespace Rc.Thm.C19
open Rc Rc.Community Rc.Lemmas.Community

/-! ## raw bytes -/

/-- raw round trip: a 4/8/12/20-byte value becomes a community (of the flavour its length selects)
whose raw bytes are that value -/
theorem raw_id (raw : Bytes) (h : raw.length = 4 ∨ raw.length = 8 ∨ raw.length = 12 ∨ raw.length = 20) :
    (Comm.ofRaw raw).map Comm.raw = some raw := by
  unfold Comm.ofRaw
  rcases h with h | h | h | h <;> simp [h, Comm.raw]

/-- the flavour is the length -/
theorem raw_flavour (raw : Bytes) :
    (raw.length = 4 → Comm.ofRaw raw = some (.standard raw)) ∧ (raw.length = 8 → Comm.ofRaw raw = some (.extended raw)) ∧
    (raw.length = 12 → Comm.ofRaw raw = some (.large raw)) ∧ (raw.length = 20 → Comm.ofRaw raw = some (.ipv6Extended raw)) := by
  unfold Comm.ofRaw
  refine ⟨?_, ?_, ?_, ?_⟩ <;> intro h <;> simp [h]

/-! ## text forms, per flavour -/

/-- EVERY standard community (well-known names, unrecognised well-known values printed as
`0xFFFFnnnn`, and `ASn:tag` for everything else, the reserved range included): `Display` does not
panic and `StandardCommunity::from_str` of the text is the community. -/
theorem std_text (raw : Bytes) (h : raw.length = 4) : (displayStd raw >>= parseStd) = .ok raw := by
  match raw, h with
  | [b0, b1, b2, b3], _ =>
    have h0 := b0.toNat_lt; have h1 := b1.toNat_lt; have h2 := b2.toNat_lt; have h3 := b3.toNat_lt
    have hu : stdU32 [b0, b1, b2, b3] = ((b0.toNat * 256 + b1.toNat) * 256 + b2.toNat) * 256 + b3.toNat := by
      simp [stdU32, beVal]
    have hbe : beBytes 4 (stdU32 [b0, b1, b2, b3]) = [b0, b1, b2, b3] := beBytes_beVal 4 [b0, b1, b2, b3] rfl
    unfold displayStd toWellknown Wk.tryFromU32
    by_cases hw : b0.toNat = 255 ∧ b1.toNat = 255
    · -- well-known range
      have hc : ¬ (stdU32 [b0, b1, b2, b3] / 65536 % 65536 ≠ 0xFFFF) := by rw [hu]; omega
      rw [if_neg hc]
      simp only [Outcome.bind_ok]
      unfold Wk.fromU16
      cases hf : findRowIdx (fun r => r.value == 0xFFFF0000 + stdU32 [b0, b1, b2, b3] % 65536 % 65536) wkRows 0 with
      | some i =>
        obtain ⟨row, hrow, hp, _⟩ := findRowIdx_some hf
        simp only [Nat.sub_zero] at hrow
        obtain ⟨w, hw1, hw2⟩ := wk_named_roundtrip i row hrow
        simp only [Wk.display, hrow]
        unfold parseStd
        rw [hw1]
        simp only
        have : row.value = stdU32 [b0, b1, b2, b3] := by
          have := beq_iff_eq.mp hp
          rw [this, hu]; omega
        rw [hw2, this, hbe]
      | none =>
        simp only
        have e : Wk.display (.unrecognized (stdU32 [b0, b1, b2, b3] % 65536 % 65536)) =
            '0' :: 'x' :: [b0, b1, b2, b3].flatMap hex2U := by
          have e2 : UInt8.ofNat (stdU32 [b0, b1, b2, b3] % 65536 % 65536 / 256) = b2 := by
            rw [hu]
            have : (((b0.toNat * 256 + b1.toNat) * 256 + b2.toNat) * 256 + b3.toNat) % 65536 % 65536 / 256 = b2.toNat := by omega
            rw [this]; simp
          have e3 : UInt8.ofNat (stdU32 [b0, b1, b2, b3] % 65536 % 65536 % 256) = b3 := by
            rw [hu]
            have : (((b0.toNat * 256 + b1.toNat) * 256 + b2.toNat) * 256 + b3.toNat) % 65536 % 65536 % 256 = b3.toNat := by omega
            rw [this]; simp
          have e0 : hex2U b0 = ['F', 'F'] := by simp [hex2U, hw.1]; decide
          have e1 : hex2U b1 = ['F', 'F'] := by simp [hex2U, hw.2]; decide
          simp only [Wk.display, e2, e3, List.flatMap_cons, List.flatMap_nil, e0, e1]
          simp
        rw [e]
        unfold parseStd
        rw [wk_parse_none _ (Or.inr rfl)]
        have hcol : ':' ∉ ('0' :: 'x' :: [b0, b1, b2, b3].flatMap hex2U) := by
          simp only [List.mem_cons, not_or]
          exact ⟨by decide, by decide, colon_not_mem_flatMap_hex2U _⟩
        rw [splitOnce_none _ _ hcol]
        simp only [stripPrefix, if_true]
        have hlen : ¬ ([b0, b1, b2, b3].flatMap hex2U).length > 8 := by rw [length_flatMap_hex2U]; simp
        rw [if_neg hlen]
        unfold parseHexU32
        rw [parseHex_flatMap_hex2U]
        have hlt : beVal [b0, b1, b2, b3] < 4294967296 := by have := beVal_lt [b0, b1, b2, b3]; simpa using this
        rw [if_pos hlt]
        exact congrArg Outcome.ok (beBytes_beVal 4 [b0, b1, b2, b3] rfl)
    · -- AS:tag
      have hc : stdU32 [b0, b1, b2, b3] / 65536 % 65536 ≠ 0xFFFF := by rw [hu]; omega
      rw [if_pos hc]
      have hnw : isWellknown [b0, b1, b2, b3] = false := by
        simp only [isWellknown, byteAt, List.getD_cons_zero, List.getD_cons_succ]
        rw [show (0xFF : UInt8) = UInt8.ofNat 255 from rfl, u8_eq_iff _ _ (by omega), u8_eq_iff _ _ (by omega)]
        simp only [Bool.and_eq_false_iff, decide_eq_false_iff_not]
        omega
      simp only [stdAsn, stdTag, hnw, Bool.not_false, if_true, byteAt, List.getD_cons_zero, List.getD_cons_succ,
        Outcome.bind_ok]
      have et : ['A', 'S'] ++ showDec (b0.toNat * 256 + b1.toNat) ++ [':'] ++ showDec (b2.toNat * 256 + b3.toNat) =
          ('A' :: 'S' :: showDec (b0.toNat * 256 + b1.toNat)) ++ ':' :: showDec (b2.toNat * 256 + b3.toNat) := by simp
      rw [et]
      unfold parseStd
      rw [wk_parse_none _ (Or.inl (by simp))]
      have hcol : ':' ∉ ('A' :: 'S' :: showDec (b0.toNat * 256 + b1.toNat)) := by
        simp only [List.mem_cons, not_or]
        exact ⟨by decide, by decide, not_mem_showDec colon_not_dec _⟩
      rw [splitOnce_append _ _ _ hcol]
      simp only [stripAs_AS, parseDecU16_showDec _ (show b0.toNat * 256 + b1.toNat < 65536 by omega),
        parseDecU16_showDec _ (show b2.toNat * 256 + b3.toNat < 65536 by omega), beBytes2]
      rfl

example : (displayStd [0xFF, 0xFF, 0xFF, 0x01] >>= parseStd) = .ok [0xFF, 0xFF, 0xFF, 0x01] := std_text _ rfl

/-- every large community: `g:l1:l2` parses back -/
theorem large_text (raw : Bytes) (h : raw.length = 12) : parseLarge (displayLarge raw) = .ok raw := by
  have hg : lrgGlobal raw < 4294967296 := by
    have := beVal_lt (slice raw 0 4); rw [slice_length raw 0 4 (by omega)] at this; exact this
  have h1 : lrgLocal1 raw < 4294967296 := by
    have := beVal_lt (slice raw 4 8); rw [slice_length raw 4 8 (by omega)] at this; exact this
  have h2 : lrgLocal2 raw < 4294967296 := by
    have := beVal_lt (slice raw 8 12); rw [slice_length raw 8 12 (by omega)] at this; exact this
  have e : displayLarge raw = showDec (lrgGlobal raw) ++ ':' :: (showDec (lrgLocal1 raw) ++ ':' :: showDec (lrgLocal2 raw)) := by
    simp [displayLarge]
  rw [e]
  unfold parseLarge
  rw [splitOnce_append _ _ _ (not_mem_showDec colon_not_dec _)]
  simp only [stripAs_showDec, parseDecU32_showDec _ hg]
  rw [splitOnce_append _ _ _ (not_mem_showDec colon_not_dec _)]
  simp only [parseDecU32_showDec _ h1, parseDecU32_showDec _ h2]
  unfold lrgGlobal lrgLocal1 lrgLocal2
  rw [beBytes_beVal 4 _ (slice_length raw 0 4 (by omega)), beBytes_beVal 4 _ (slice_length raw 4 8 (by omega)),
    beBytes_beVal 4 _ (slice_length raw 8 12 (by omega)), slice_append _ _ _ _ (by omega) (by omega),
    slice_append _ _ _ _ (by omega) (by omega), slice_all raw 12 h]

/-- every extended community of the statement's class – everything that prints as `0x…`, and route
target / route origin with a two-octet AS (type 0x00), an IPv4 address (0x01) or a four-octet AS
above 65535 (0x02).  Excluded are exactly: non-transitive opaque route target `[0x43, 0x02]` (prints
`rt:` + unpadded hex) and four-octet-AS rt/ro whose AS is ≤ 65535 (prints like the two-octet form). -/
theorem ext_text (raw : Bytes) (h : raw.length = 8)
    (hc : ¬ ((byteAt raw 0).toNat = 0x43 ∧ (byteAt raw 1).toNat = 2) ∧
      ¬ ((byteAt raw 0).toNat = 2 ∧ ((byteAt raw 1).toNat = 2 ∨ (byteAt raw 1).toNat = 3) ∧ beVal (slice raw 2 6) ≤ 65535)) :
    (displayExt raw >>= parseExt) = .ok raw := by
  obtain ⟨t, hd, hp, _⟩ := ext_text_form raw h hc
  rw [hd]; exact hp

example : (displayExt [0x80, 5, 1, 2, 3, 4, 5, 6] >>= parseExt) = .ok [0x80, 5, 1, 2, 3, 4, 5, 6] :=
  ext_text _ rfl (by decide)
example : (displayExt [2, 3, 0, 1, 0, 0, 0, 7] >>= parseExt) = .ok [2, 3, 0, 1, 0, 0, 0, 7] :=
  ext_text _ rfl (by decide)

/-- the two exclusions are necessary: these texts parse, but not to the community that printed them -/
theorem ext_text_excluded_as4_small :
    (displayExt [2, 2, 0, 0, 0, 5, 0, 7] >>= parseExt) = .ok [0, 2, 0, 5, 0, 0, 0, 7] := by decide +kernel
theorem ext_text_excluded_opaque_rt :
    (displayExt [0x43, 2, 1, 2, 3, 4, 5, 6] >>= parseExt) = .err := by decide +kernel

/-- every IPv6 extended community that prints in hexadecimal (all but type 0x00 / sub-type 0x02,
whose `rt:<ipv6>:<n>` text the code itself does not parse) -/
theorem v6_text (raw : Bytes) (h : raw.length = 20)
    (hc : ¬ ((byteAt raw 0).toNat = 0x00 ∧ (byteAt raw 1).toNat = 0x02)) :
    (displayV6 raw).map parseV6 = some (.ok raw) := by
  unfold displayV6
  rw [if_neg hc]
  simp only [Option.map_some, Option.some.injEq]
  have ht : raw.take 20 = raw := by rw [List.take_of_length_le (by omega)]
  have l1 := slice_length raw 0 8 (by omega)
  have l2 := slice_length raw 8 16 (by omega)
  have l3 := slice_length raw 16 20 (by omega)
  have hsplit : raw = slice raw 0 8 ++ (slice raw 8 16 ++ slice raw 16 20) := by
    rw [slice_append _ _ _ _ (by omega) (by omega), slice_append _ _ _ _ (by omega) (by omega), slice_all raw 20 h]
  have hb1 : beVal (slice raw 0 8) < 18446744073709551616 := by have := beVal_lt (slice raw 0 8); rw [l1] at this; exact this
  have hb2 : beVal (slice raw 8 16) < 18446744073709551616 := by have := beVal_lt (slice raw 8 16); rw [l2] at this; exact this
  have hb3 : beVal (slice raw 16 20) < 4294967296 := by have := beVal_lt (slice raw 16 20); rw [l3] at this; exact this
  rw [ht]
  unfold parseV6
  simp only [List.cons_append, List.nil_append, stripPrefix, if_true]
  have hlen : ¬ byteLen (raw.flatMap hex2L) ≠ 40 := by rw [byteLen_flatMap_hex2L, h]; simp
  rw [if_neg hlen]
  have e : raw.flatMap hex2L = (slice raw 0 8).flatMap hex2L ++ ((slice raw 8 16).flatMap hex2L ++ (slice raw 16 20).flatMap hex2L) := by
    rw [← List.flatMap_append, ← List.flatMap_append, ← hsplit]
  rw [e]
  have s1 : splitAtByte ((slice raw 0 8).flatMap hex2L ++ ((slice raw 8 16).flatMap hex2L ++ (slice raw 16 20).flatMap hex2L)) 16 =
      some ((slice raw 0 8).flatMap hex2L, (slice raw 8 16).flatMap hex2L ++ (slice raw 16 20).flatMap hex2L) := by
    have := splitAtByte_hex2L (slice raw 0 8) ((slice raw 8 16).flatMap hex2L ++ (slice raw 16 20).flatMap hex2L)
    rw [l1] at this; exact this
  have s2 : splitAtByte ((slice raw 8 16).flatMap hex2L ++ (slice raw 16 20).flatMap hex2L) 16 =
      some ((slice raw 8 16).flatMap hex2L, (slice raw 16 20).flatMap hex2L) := by
    have := splitAtByte_hex2L (slice raw 8 16) ((slice raw 16 20).flatMap hex2L)
    rw [l2] at this; exact this
  rw [s1]
  simp only
  unfold parseHexU64 parseHexU32
  rw [parseHexL_of_len _ _ (by omega), if_pos hb1]
  simp only
  rw [s2]
  simp only
  rw [parseHexL_of_len _ _ (by omega), if_pos hb2]
  simp only
  rw [parseHexL_of_len _ _ (by omega), if_pos hb3]
  simp only
  rw [beBytes_beVal 8 _ l1, beBytes_beVal 8 _ l2, beBytes_beVal 4 _ l3, List.append_assoc, ← hsplit]

example : (displayV6 (List.replicate 12 0 ++ [0xFF, 0xFF, 0, 1, 0, 0, 0, 1])).map parseV6 =
    some (.ok (List.replicate 12 0 ++ [0xFF, 0xFF, 0, 1, 0, 0, 0, 1])) := v6_text _ rfl (by decide)

/-! ## text forms through `Community::from_str` (Standard, then Large, then Extended, then IPv6 Extended) -/

/-- standard communities come back as `Community::Standard` -/
theorem enum_text_std (raw : Bytes) (h : raw.length = 4) :
    (displayStd raw >>= parseAny) = .ok (.standard raw) := by
  have := std_text raw h
  cases hd : displayStd raw with
  | ok t => rw [hd] at this; simp only [Outcome.bind_ok] at this ⊢; unfold parseAny; rw [this]
  | err => rw [hd] at this; cases this
  | panic => rw [hd] at this; cases this

/-- large communities: the standard parser rejects `a:b:c`, the large one returns the value -/
theorem enum_text_large (raw : Bytes) (h : raw.length = 12) :
    parseAny (displayLarge raw) = .ok (.large raw) := by
  have hl := large_text raw h
  have e : displayLarge raw = showDec (lrgGlobal raw) ++ ':' :: (showDec (lrgLocal1 raw) ++ ':' :: showDec (lrgLocal2 raw)) := by
    simp [displayLarge]
  unfold parseAny
  rw [hl, e, parseStd_large]

/-- extended communities of the class: neither the standard nor the large parser accepts the text
(this is what fix F21b made true for hex texts with leading zero bytes) -/
theorem enum_text_ext (raw : Bytes) (h : raw.length = 8)
    (hc : ¬ ((byteAt raw 0).toNat = 0x43 ∧ (byteAt raw 1).toNat = 2) ∧
      ¬ ((byteAt raw 0).toNat = 2 ∧ ((byteAt raw 1).toNat = 2 ∨ (byteAt raw 1).toNat = 3) ∧ beVal (slice raw 2 6) ≤ 65535)) :
    (displayExt raw >>= parseAny) = .ok (.extended raw) := by
  obtain ⟨t, hd, hp, hf⟩ := ext_text_form raw h hc
  rw [hd]
  simp only [Outcome.bind_ok]
  unfold parseAny
  rcases hf with ⟨c, tail, hc', rfl⟩ | ⟨H, rfl, hcol, hlen⟩
  · have hne : c ≠ ':' := by rcases hc' with rfl | rfl <;> decide
    rw [parseStd_tagged c tail hne, parseLarge_tagged c tail hne, hp]
  · rw [parseStd_hex_long H hcol (by omega), parseLarge_hex H hcol, hp]

example : (displayExt [0, 0, 0, 0, 0xFF, 0xFF, 0, 1] >>= parseAny) = .ok (.extended [0, 0, 0, 0, 0xFF, 0xFF, 0, 1]) :=
  enum_text_ext _ rfl (by decide)

/-- IPv6 extended communities that print in hexadecimal: 40 digits are too long for the standard
and the extended parser, and the large parser rejects `x` -/
theorem enum_text_v6 (raw : Bytes) (h : raw.length = 20)
    (hc : ¬ ((byteAt raw 0).toNat = 0x00 ∧ (byteAt raw 1).toNat = 0x02)) :
    (displayV6 raw).map parseAny = some (.ok (.ipv6Extended raw)) := by
  have hv := v6_text raw h hc
  unfold displayV6 at hv ⊢
  rw [if_neg hc] at hv ⊢
  simp only [Option.map_some, Option.some.injEq] at hv ⊢
  have hcol : ':' ∉ (raw.take 20).flatMap hex2L := colon_not_mem_flatMap_hex2L _
  have hlen : ((raw.take 20).flatMap hex2L).length = 40 := by rw [length_flatMap_hex2L, List.length_take]; omega
  unfold parseAny
  simp only [List.cons_append, List.nil_append] at hv ⊢
  rw [parseStd_hex_long _ hcol (by omega), parseLarge_hex _ hcol, parseExt_hex_long _ hcol (by omega), hv]

/-! ## well-known names -/

/-- every name, alias and variant identifier of the `wellknown!` table parses to a well-known
community with that row's value (table regenerated from source; decided by the kernel) -/
theorem wk_names_parse (row : WkRow) (hrow : row ∈ wkRows) (nm : Text) (hnm : nm ∈ row.names ++ [row.var]) :
    ∃ w, Wk.parse nm = some w ∧ parseStd nm = .ok (beBytes 4 row.value) := by
  have hk := namesParse_ok
  unfold namesParse at hk
  rw [List.all_eq_true] at hk
  have hk := hk row hrow
  rw [List.all_eq_true] at hk
  have := hk nm hnm
  cases hp : Wk.parse nm with
  | none => rw [hp] at this; simp at this
  | some w =>
    rw [hp] at this
    have hv : w.toU32 = row.value := by simpa using this
    exact ⟨w, rfl, by unfold parseStd; rw [hp]; simp only [hv]⟩

/-- names are matched case-insensitively: a text and its lower-case form parse alike -/
theorem wk_parse_case_insensitive (s : Text) : Wk.parse (lower s) = Wk.parse s := by
  unfold Wk.parse; rw [lower_idem]

/-- `Display` never panics on a community built from raw bytes (the `unwrap`s in it are guarded) -/
theorem display_no_panic (raw : Bytes) : displayExt raw ≠ .panic ∧ (raw.length = 4 → displayStd raw ≠ .panic) := by
  refine ⟨displayExt_no_panic raw, fun h hp => ?_⟩
  have := std_text raw h
  rw [hp] at this; cases this

/-! ## classification and accessors -/

/-- every standard community is in exactly one of well-known / reserved / private -/
theorem partition (raw : Bytes) :
    (isWellknown raw = true ∧ isReserved raw = false ∧ isPrivate raw = false) ∨
    (isWellknown raw = false ∧ isReserved raw = true ∧ isPrivate raw = false) ∨
    (isWellknown raw = false ∧ isReserved raw = false ∧ isPrivate raw = true) := by
  unfold isWellknown isReserved isPrivate
  generalize byteAt raw 0 = x
  generalize byteAt raw 1 = y
  rw [show (0xFF : UInt8) = UInt8.ofNat 255 from rfl, show (0x00 : UInt8) = UInt8.ofNat 0 from rfl]
  simp only [u8_eq_iff _ _ (show 255 < 256 by omega), u8_eq_iff _ _ (show 0 < 256 by omega)]
  by_cases h1 : x.toNat = 255 <;> by_cases h2 : y.toNat = 255 <;> by_cases h3 : x.toNat = 0 <;> by_cases h4 : y.toNat = 0 <;>
    simp [h1, h2, h3, h4] <;> omega

/-- `asn()` / `tag()` decompose a non-well-known value exactly (and are `None` on well-known ones) -/
theorem asn_tag_decompose (raw : Bytes) (h : raw.length = 4) :
    (isWellknown raw = true → stdAsn raw = none ∧ stdTag raw = none) ∧
    (isWellknown raw = false → ∃ a t, stdAsn raw = some a ∧ stdTag raw = some t ∧ a < 65536 ∧ t < 65536 ∧
      a * 65536 + t = stdU32 raw ∧ beBytes 2 a ++ beBytes 2 t = raw) := by
  match raw, h with
  | [b0, b1, b2, b3], _ =>
    have h0 := b0.toNat_lt; have h1 := b1.toNat_lt; have h2 := b2.toNat_lt; have h3 := b3.toNat_lt
    constructor
    · intro hw; simp [stdAsn, stdTag, hw]
    · intro hw
      refine ⟨b0.toNat * 256 + b1.toNat, b2.toNat * 256 + b3.toNat, ?_, ?_, by omega, by omega, ?_, ?_⟩
      · simp [stdAsn, hw, byteAt]
      · simp [stdTag, hw, byteAt]
      · simp [stdU32, beVal]; omega
      · simp [beBytes2]

/-- type and sub-type octet carried by what `types()` reports -/
def typeCode : ExtType → Nat
  | .transitiveTwoOctetSpecific => 0x00 | .transitiveIp4Specific => 0x01
  | .transitiveFourOctetSpecific => 0x02 | .transitiveOpaque => 0x03
  | .nonTransitiveTwoOctetSpecific => 0x40 | .nonTransitiveIp4Specific => 0x41
  | .nonTransitiveFourOctetSpecific => 0x42 | .nonTransitiveOpaque => 0x43
  | .otherType t => t
def subCode : ExtSub → Nat
  | .routeTarget => 2 | .routeOrigin => 3 | .otherSubType s => s
def namedTransitive : ExtType → Option Bool
  | .transitiveTwoOctetSpecific | .transitiveIp4Specific | .transitiveFourOctetSpecific | .transitiveOpaque => some true
  | .nonTransitiveTwoOctetSpecific | .nonTransitiveIp4Specific | .nonTransitiveFourOctetSpecific
  | .nonTransitiveOpaque => some false
  | .otherType _ => none

private theorem trans_bit : ∀ n, n < 256 → (n / 64 % 2 == 0) = (n &&& 0x40 == 0) := by decide +kernel

/-- type, sub-type and transitivity follow the first two octets: the reported type carries octet 0,
the reported sub-type carries octet 1 (this is what fix F21a made true in the catch-all arm),
`OtherType` is used only for unnamed type octets, `is_transitive` is bit 0x40 of octet 0 and agrees
with the name of every named type. -/
theorem ext_types_spec (raw : Bytes) :
    typeCode (extTypes raw).1 = (byteAt raw 0).toNat ∧
    subCode (extTypes raw).2 = (byteAt raw 1).toNat ∧
    (∀ t, (extTypes raw).1 = .otherType t → t ∉ [0x00, 0x01, 0x02, 0x03, 0x40, 0x41, 0x42, 0x43]) ∧
    extIsTransitive raw = ((byteAt raw 0).toNat &&& 0x40 == 0) ∧
    (∀ tr, namedTransitive (extTypes raw).1 = some tr → tr = extIsTransitive raw) := by
  have hx := (byteAt raw 0).toNat_lt
  refine ⟨?_, ?_, ?_, trans_bit _ hx, ?_⟩
  · unfold extTypes; simp only; repeat' split
    all_goals simp_all [typeCode]
  · unfold extTypes; simp only; repeat' split
    all_goals simp_all [subCode]
  · unfold extTypes; simp only; repeat' split
    all_goals (intro t ht; first | (simp at ht; done) | (simp at ht; subst ht; simp; omega))
  · unfold extTypes extIsTransitive; simp only; repeat' split
    all_goals (intro tr htr; first | (simp [namedTransitive] at htr; done) | (simp [namedTransitive] at htr; subst htr; simp_all; done) | (simp [namedTransitive] at htr; subst htr; simp_all; omega))

/-- nothing beyond the first two octets influences `types()` -/
theorem ext_types_two_octets (r1 r2 : Bytes) (h0 : byteAt r1 0 = byteAt r2 0) (h1 : byteAt r1 1 = byteAt r2 1) :
    extTypes r1 = extTypes r2 := by
  unfold extTypes; rw [h0, h1]

end Rc.Thm.C19
