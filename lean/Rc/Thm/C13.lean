/-
C13 – AS path conversions preserve hops and emit valid wire form; 2/4-octet
paths equate.

Property theorems only; the model is Rc/Model/AsPath.lean (src/bgp/aspath.rs as
coded), helper lemmas are in Rc/Lemmas/AsPath.lean.  Everything is for hop
paths / byte strings of every length: the 255 and 510 boundaries are instances.

Two decidable predicates on hop paths:

* `WfHopsG h` – **every hop path the public API can build, minus K2**:
  `Hop::Asn(a)` with `a < 2^32`; `Hop::Segment`s of any type 1..4 in either
  width whose ASNs fit their width, **with at most 255 ASNs**. That covers
  `Segment::new_set / new_confed_sequence / new_confed_set`, segments cut out of
  a checked wire path of either width (`AsPath::segments()` + `octets_into`,
  `to_hop_path`), and a non-empty AS_SEQUENCE put into the hop path as ONE
  `Hop::Segment` (`From<Vec<Segment>> for HopPath`, `append(Hop::Segment(..))`).
  The only API-buildable hop paths outside it hold a `Segment::new_*` segment of
  more than 255 ASNs: known finding K2, witnessed by `compose_total_fails`.
  The valid-wire-form, two-octet-failure and no-panic clauses are proved under
  `WfHopsG`.
* `WfHops h` – the hop paths of the property's quantifier ("over ASNs, AS_SETs
  and confederation segments"): as above but an AS_SEQUENCE-typed segment hop
  is empty (what `to_hop_path` leaves of an empty AS_SEQUENCE). For these the
  hops read back are the hop path itself (`hops_compose`); for a `WfHopsG` path
  they are its *flat* hop sequence `flat b h`, in which an AS_SEQUENCE segment
  hop stands for its ASNs (`hops_compose_flat`; `flat` is idempotent and keeps
  the AS numbers and the path-selection count: `flat_idem`, `hopCountSel_flat`).
-/
import Rc.Lemmas.AsPath

namespace Rc.Thm.C13
open Rc Rc.AsPath

/-! ## conversion to wire format -/

/-- *"conversion to wire format yields a valid AS_PATH (segment counts fit one
octet, sequences longer than 255 are split)"*: `to_as_path` succeeds, the bytes
pass `AsPath::check`, every segment read back has a type 1..4 and at most 255
ASNs, and the segments carry exactly the AS numbers of the hop path, in order. -/
theorem compose_valid (h : HopPath) (wf : WfHopsG h = true) :
    ∃ (w : Bytes) (ss : List Seg), compose true h = .ok w ∧ check true w = .ok () ∧
      segments true w = .ok ss ∧ (∀ s ∈ ss, s.asns.length ≤ 255 ∧ 1 ≤ s.ty ∧ s.ty ≤ 4) ∧
      ss.flatMap (·.asns) = asnsOf h := by
  obtain ⟨w, ss, a, b, c, d, e, _⟩ := compose_readG h wf
  exact ⟨w, ss, a, b, c, d, e⟩

example : WfHops [.asn 1, .seg ⟨1, true, [2, 3]⟩, .asn 70000, .seg ⟨3, true, []⟩] = true := by decide
example : WfHopsG [.seg ⟨2, true, [1, 2]⟩, .asn 7, .seg ⟨1, false, [65535]⟩] = true := by decide

/-- *"... whose hop sequence is the original"*, for the hop paths of the
quantifier (`WfHops`): reading the emitted path back with `hops()` (or
`AsPath::new` + `to_hop_path`) gives the hop path, each segment hop now stored
four-octet wide. -/
theorem hops_compose (h : HopPath) (wf : WfHops h = true) :
    ∃ w : Bytes, compose true h = .ok w ∧ hops true w = .ok (h.map (Hop.norm true)) ∧
      toHopPath true w = .ok (h.map (Hop.norm true)) := by
  obtain ⟨w, ss, a, b, _, _, _, f⟩ := compose_read h wf
  exact ⟨w, a, f, by simp [toHopPath, b, f]⟩

/-- the same for *every* API-buildable hop path (`WfHopsG`), where an
AS_SEQUENCE-typed segment hop may hold ASNs: the hops read back are the flat hop
sequence of the original (such a segment hop stands for its ASNs). For the hop
paths of the quantifier the flat sequence is the path itself (`flat_of_wfHops`). -/
theorem hops_compose_flat (h : HopPath) (wf : WfHopsG h = true) :
    ∃ w : Bytes, compose true h = .ok w ∧ check true w = .ok () ∧
      hops true w = .ok (flat true h) :=
  compose_flat h wf

example : WfHopsG [.asn 1, .seg ⟨2, true, [7, 8]⟩, .seg ⟨2, false, []⟩] = true := by decide

/-- the flat hop sequence is a normal form: flattening is idempotent, the result
is a hop path of the quantifier (`WfHops`, four-octet segment hops), it converts
to a wire path with the *same hops*, and a hop path is its own flat sequence
exactly when it holds no non-empty AS_SEQUENCE segment hop and only four-octet
segment hops. -/
theorem flat_normal_form (h : HopPath) (wf : WfHopsG h = true) :
    flat true (flat true h) = flat true h ∧
      WfHops (flat true h) = true ∧ AllFour (flat true h) = true ∧
      (∃ w w' : Bytes, compose true h = .ok w ∧ compose true (flat true h) = .ok w' ∧
        hops true w = .ok (flat true h) ∧ hops true w' = .ok (flat true h)) ∧
      (flat true h = h ↔ (WfHops h = true ∧ AllFour h = true)) := by
  obtain ⟨f1, f2⟩ := wfHops_flat h wf
  obtain ⟨w, a, _, c⟩ := compose_flat h wf
  obtain ⟨w', a', _, c'⟩ := compose_flat (flat true h) (wfHopsG_of_wfHops _ f1)
  rw [flat_idem] at c'
  exact ⟨flat_idem true h, f1, f2, ⟨w, w', a, a', c, c'⟩, flat_eq_self_iff h wf⟩

/-- for hop paths built with `Segment::new_set / new_confed_*` the hops read
back are *identical* to the original. -/
theorem hops_compose_exact (h : HopPath) (wf : WfHops h = true) (h4 : AllFour h = true) :
    ∃ w : Bytes, compose true h = .ok w ∧ hops true w = .ok h := by
  obtain ⟨w, a, b, _⟩ := hops_compose h wf
  refine ⟨w, a, ?_⟩
  have := map_norm_allFour h h4
  rw [b, this]

example : AllFour [.asn 1, .seg ⟨1, true, [2, 3]⟩] = true := by decide

/-! ## wire -> hops -> wire -/

/-- *"converting a valid wire path to hops and back preserves its hop
sequence"*, for both widths: the hop path of a checked wire path is well
formed, `to_as_path` succeeds on it, the result is a checked four-octet path
and its hops are the original hops (segment hops four-octet wide). -/
theorem wire_roundtrip (four : Bool) (w : Bytes) (hc : check four w = .ok ()) :
    ∃ (h : HopPath) (w' : Bytes), toHopPath four w = .ok h ∧ WfHops h = true ∧
      compose true h = .ok w' ∧ check true w' = .ok () ∧
      hops true w' = .ok (h.map (Hop.norm true)) := by
  obtain ⟨ss, hss, _, _, _, hh⟩ := wire_view four w hc
  have wf := wfHops_hopsOfSegs four ss hss
  obtain ⟨w', _, a, b, _, _, _, f⟩ := compose_read (hopsOfSegs ss) wf
  exact ⟨hopsOfSegs ss, w', hh, wf, a, b, f⟩

/-- for a four-octet wire path the hops read back are identical. -/
theorem wire_roundtrip_four (w : Bytes) (hc : check true w = .ok ()) :
    ∃ (h : HopPath) (w' : Bytes), toHopPath true w = .ok h ∧ compose true h = .ok w' ∧
      hops true w' = .ok h := by
  obtain ⟨ss, hss, _, _, _, hh⟩ := wire_view true w hc
  have wf := wfHops_hopsOfSegs true ss hss
  have h4 := allFour_hopsOfSegs ss (fun s hs => (hss s hs).2)
  obtain ⟨w', a, b⟩ := hops_compose_exact (hopsOfSegs ss) wf h4
  exact ⟨hopsOfSegs ss, w', hh, a, b⟩

/-! ## prepend -/

/-- *"prepending n copies of an AS yields exactly those n hops followed by the
original ones"*, for every n and both widths of the original path. -/
theorem prepend_n (four : Bool) (w : Bytes) (a n : Nat) (hc : check four w = .ok ())
    (ha : a < 4294967296) :
    ∃ (h : HopPath) (w' : Bytes), hops four w = .ok h ∧ prepend four w a n = .ok w' ∧
      check true w' = .ok () ∧
      hops true w' = .ok (List.replicate n (Hop.asn a) ++ h.map (Hop.norm true)) := by
  obtain ⟨ss, hss, _, _, hh, _⟩ := wire_view four w hc
  have wf0 := wfHops_hopsOfSegs four ss hss
  have wf : WfHops (List.replicate n (Hop.asn a) ++ hopsOfSegs ss) = true := by
    simp only [WfHops, List.all_append, Bool.and_eq_true] at wf0 ⊢
    refine ⟨?_, wf0⟩
    simp only [List.all_eq_true]
    intro x hx
    obtain ⟨_, rfl⟩ := List.mem_replicate.mp hx
    simpa [Hop.wf] using ha
  obtain ⟨w', _, c1, c2, _, _, _, c6⟩ := compose_read _ wf
  refine ⟨hopsOfSegs ss, w', hh, ?_, c2, ?_⟩
  · simp [prepend, hh, c1]
  · rw [c6]; simp [Hop.norm]

/-! ## two-octet conversion -/

/-- *"conversion to 2-octet form fails exactly when some AS number exceeds
65535"*. -/
theorem to16_fails_iff (h : HopPath) (wf : WfHopsG h = true) :
    compose false h = .err ↔ ∃ a ∈ asnsOf h, a > 65535 := by
  obtain ⟨ss, _, c2, _⟩ := compose_specG h wf
  rw [c2]
  by_cases hex : ∃ a ∈ asnsOf h, a > 65535
  · have hs : ¬ allSmall (asnsOf h) = true := by
      intro hs
      obtain ⟨a, ha, hgt⟩ := hex
      have := (List.all_eq_true.mp hs) a ha
      simp only [decide_eq_true_eq] at this; omega
    simp [hs, hex]
  · have hs : allSmall (asnsOf h) = true := by
      simp only [allSmall, List.all_eq_true, decide_eq_true_eq]
      intro a ha
      exact Nat.le_of_not_gt (fun hgt => hex ⟨a, ha, hgt⟩)
    simp [hs, hex]

/-- when no AS number exceeds 65535 the two-octet conversion succeeds, yields a
checked two-octet path with the original (flat) hops, and that path *compares
equal to and hashes like* the four-octet conversion of the same hop path. -/
theorem to16_ok (h : HopPath) (wf : WfHopsG h = true) (hs : allSmall (asnsOf h) = true) :
    ∃ (w16 w32 : Bytes), compose false h = .ok w16 ∧ compose true h = .ok w32 ∧
      check false w16 = .ok () ∧ hops false w16 = .ok (flat false h) ∧
      pathEq false w16 true w32 = .ok true ∧
      (∃ k, hashKey false w16 = .ok k ∧ hashKey true w32 = .ok k) := by
  obtain ⟨ss, c1, c2, c3, c4, c5, _⟩ := compose_specG h wf
  have c4 := c4 hs
  have s16 := segments_enc false ss c4
  have s32 := segments_enc true ss c3
  have hlen : ∀ b, ∀ s ∈ ss.map (Seg.setFour b), s.asns.length ≤ 255 := by
    intro b s hs
    obtain ⟨t, ht, rfl⟩ := List.mem_map.mp hs
    exact (Seg.wireOk_iff.mp (c3 t ht)).2.2.1
  have hsem : (ss.map (Seg.setFour false)).map Seg.sem = (ss.map (Seg.setFour true)).map Seg.sem := by
    simp [Function.comp_def]
  refine ⟨encSegs false ss, encSegs true ss, by simp [c2, hs], c1, check_enc false ss c4, ?_, ?_, ?_⟩
  · simp [hops, s16, c5 false]
  · simp [pathEq, s16, s32, segsEq_eq, hsem]
  · refine ⟨(ss.map (Seg.setFour true)).flatMap Seg.hashWrites, ?_, ?_⟩
    · simp only [hashKey, s16]
      rw [segsHashKey_eq _ (hlen false), flatMap_hashWrites_sem hsem]
    · simp only [hashKey, s32]
      rw [segsHashKey_eq _ (hlen true)]

/-! ## equality and hashing across widths -/

/-- `==` on two checked paths (any widths) decides equality of their segment
lists as (type, ASNs) – the width of the encoding is immaterial. -/
theorem pathEq_spec (f1 f2 : Bool) (b1 b2 : Bytes) (h1 : check f1 b1 = .ok ())
    (h2 : check f2 b2 = .ok ()) :
    ∃ s1 s2, segments f1 b1 = .ok s1 ∧ segments f2 b2 = .ok s2 ∧
      pathEq f1 b1 f2 b2 = .ok (decide (s1.map Seg.sem = s2.map Seg.sem)) := by
  obtain ⟨s1, _, _, g1, _⟩ := wire_view f1 b1 h1
  obtain ⟨s2, _, _, g2, _⟩ := wire_view f2 b2 h2
  refine ⟨s1, s2, g1, g2, ?_⟩
  unfold pathEq
  split
  · rename_i hc
    simp only [Bool.and_eq_true, beq_iff_eq] at hc
    obtain ⟨rfl, rfl⟩ := hc
    rw [g1] at g2
    cases g2
    simp
  · simp [g1, g2, segsEq_eq]

/-- *"A 2-octet path and the 4-octet path with the same segments compare equal
and hash equal"*: for every list of segments that has a two-octet form. -/
theorem eq16_32 (ss : List Seg) (hw : ∀ s ∈ ss, s.wireOk false = true) :
    pathEq false (encSegs false ss) true (encSegs true ss) = .ok true ∧
      pathEq true (encSegs true ss) false (encSegs false ss) = .ok true ∧
      ∃ k, hashKey false (encSegs false ss) = .ok k ∧ hashKey true (encSegs true ss) = .ok k := by
  have hw4 : ∀ s ∈ ss, s.wireOk true = true := fun s hs => wireOk_false_true (hw s hs)
  have s16 := segments_enc false ss hw
  have s32 := segments_enc true ss hw4
  have hlen : ∀ b, ∀ s ∈ ss.map (Seg.setFour b), s.asns.length ≤ 255 := by
    intro b s hs
    obtain ⟨t, ht, rfl⟩ := List.mem_map.mp hs
    exact (Seg.wireOk_iff.mp (hw4 t ht)).2.2.1
  have hsem : (ss.map (Seg.setFour false)).map Seg.sem = (ss.map (Seg.setFour true)).map Seg.sem := by
    simp [Function.comp_def]
  refine ⟨by simp [pathEq, s16, s32, segsEq_eq, hsem], by simp [pathEq, s16, s32, segsEq_eq, hsem],
    (ss.map (Seg.setFour true)).flatMap Seg.hashWrites, ?_, ?_⟩
  · simp only [hashKey, s16]
    rw [segsHashKey_eq _ (hlen false), flatMap_hashWrites_sem hsem]
  · simp only [hashKey, s32]
    rw [segsHashKey_eq _ (hlen true)]

example : (⟨2, false, [1, 65535]⟩ : Seg).wireOk false = true := by decide

/-- `Eq`/`Hash` consistency for all checked paths of any widths: paths that
compare equal feed the hasher the same sequence of writes. -/
theorem eq_implies_hash_eq (f1 f2 : Bool) (b1 b2 : Bytes) (h1 : check f1 b1 = .ok ())
    (h2 : check f2 b2 = .ok ()) (he : pathEq f1 b1 f2 b2 = .ok true) :
    ∃ k, hashKey f1 b1 = .ok k ∧ hashKey f2 b2 = .ok k := by
  obtain ⟨s1, hs1, _, g1, _⟩ := wire_view f1 b1 h1
  obtain ⟨s2, hs2, _, g2, _⟩ := wire_view f2 b2 h2
  obtain ⟨t1, t2, e1, e2, e3⟩ := pathEq_spec f1 f2 b1 b2 h1 h2
  rw [g1] at e1; rw [g2] at e2; cases e1; cases e2
  rw [he] at e3
  have hsem : s1.map Seg.sem = s2.map Seg.sem := by
    have := Outcome.ok.inj e3
    exact of_decide_eq_true this.symm
  have l1 : ∀ s ∈ s1, s.asns.length ≤ 255 := fun s hs => (Seg.wireOk_iff.mp (hs1 s hs).1).2.2.1
  have l2 : ∀ s ∈ s2, s.asns.length ≤ 255 := fun s hs => (Seg.wireOk_iff.mp (hs2 s hs).1).2.2.1
  refine ⟨s2.flatMap Seg.hashWrites, ?_, ?_⟩
  · simp only [hashKey, g1]; rw [segsHashKey_eq _ l1, flatMap_hashWrites_sem hsem]
  · simp only [hashKey, g2]; rw [segsHashKey_eq _ l2]

/-- the same one level up, on hop paths (derived `PartialEq`/`Hash` of `HopPath`
over the hand-written ones of `Hop` and `Segment`): hop paths that compare equal
– segment hops may be stored in different widths – feed the hasher the same
sequence of writes. (Segment hops of at most 255 ASNs: beyond that
`Segment::hash` panics in `asn_count`, K2.) -/
theorem hopPath_eq_implies_hash_eq (h k : HopPath) (he : hopPathEq h k = true)
    (hh : h.all Hop.lenOk = true) (hk : k.all Hop.lenOk = true) :
    ∃ key, hopPathHashKey h = .ok key ∧ hopPathHashKey k = .ok key := by
  obtain ⟨hl, key, a, b⟩ := hopPathEq_hops h k he hh hk
  exact ⟨HW.len k.length :: key, by simp [hopPathHashKey, a, hl], by simp [hopPathHashKey, b]⟩

/-- a hop path and the same hop path with its segment hops re-stored in another
width compare equal (`Hop::eq` → `Segment::eq` is width-blind). -/
theorem hopPath_eq_width (b : Bool) (h : HopPath) : hopPathEq (h.map (Hop.norm b)) h = true := by
  induction h with
  | nil => rfl
  | cons x r ih =>
    cases x with
    | asn n => simp [hopPathEq, hopEq, Hop.norm, ih]
    | seg s => simp [hopPathEq, hopEq, Hop.norm, segEq, Seg.setFour, ih]

/-! ## path-selection hop count -/

/-- the sequence AS numbers one hop stands for: a `Hop::Asn` is one, an
AS_SEQUENCE held as one `Hop::Segment` is as many as it contains -/
def seqAsnCount : Hop → Nat
  | .asn _ => 1
  | .seg s => if s.ty = 2 then s.asns.length else 0

def isAsSet : Hop → Bool
  | .asn _ => false
  | .seg s => s.ty == 1

/-- *"The path-selection hop count equals the number of sequence AS numbers
plus the number of AS_SETs, ignoring confederation segments"* – for EVERY hop
path, no hypothesis (the code as repaired by F26: an AS_SEQUENCE held as one
segment hop counts for each of its ASNs). -/
theorem hopCountSel_spec (h : HopPath) :
    hopCountSel h = (h.map seqAsnCount).sum + (h.filter isAsSet).length := by
  rw [hopCountSel_eq]
  induction h with
  | nil => rfl
  | cons x r ih =>
    simp only [List.map_cons, List.sum_cons, List.filter_cons, ih]
    cases x with
    | asn n => simp [selOf, seqAsnCount, isAsSet]; omega
    | seg s =>
      by_cases h1 : s.ty = 1
      · simp [selOf, seqAsnCount, isAsSet, h1]; omega
      · by_cases h2 : s.ty = 2
        · simp [selOf, seqAsnCount, isAsSet, h2]; omega
        · simp [selOf, seqAsnCount, isAsSet, h1, h2]

/-- the same count read off the wire: for every checked wire path (either
width), the path-selection hop count of its hop path is the number of ASNs in
its AS_SEQUENCE segments plus the number of its AS_SET segments; confederation
segments contribute nothing. -/
theorem hopCountSel_wire (four : Bool) (w : Bytes) (hc : check four w = .ok ()) :
    ∃ (ss : List Seg) (h : HopPath), segments four w = .ok ss ∧ toHopPath four w = .ok h ∧
      hopCountSel h = (ss.map segSel).sum := by
  obtain ⟨ss, _, _, hseg, _, hh⟩ := wire_view four w hc
  exact ⟨ss, hopsOfSegs ss, hseg, hh, hopCountSel_hopsOfSegs ss⟩

/-- ... and it does not depend on how the hop path holds its AS_SEQUENCEs: a
hop path and its flat hop sequence (what is read back after a trip over the
wire) have the same count. -/
theorem hopCountSel_flat_eq (b : Bool) (h : HopPath) : hopCountSel (flat b h) = hopCountSel h :=
  hopCountSel_flat b h

example : hopCountSel [.seg ⟨2, true, [10, 20]⟩, .asn 7, .seg ⟨1, true, [1, 2, 3]⟩, .seg ⟨3, true, [9]⟩] = 4 := by
  decide

/-! ## known finding K2: long non-sequence segments -/

/-- the full statement one would like: `to_as_path` never panics on a hop path
whose segments were made by `Segment::new_set / new_confed_*` from `u32` ASNs. -/
def ComposeTotalStatement : Prop :=
  ∀ (ty : Nat) (as : List Nat), (ty = 1 ∨ ty = 3 ∨ ty = 4) → (∀ a ∈ as, a < 4294967296) →
    compose true [Hop.seg ⟨ty, true, as⟩] ≠ .panic

/-- K2, for every such segment: a segment hop with more than 255 ASNs panics
both conversions (`Segment::asn_count`'s checked `u8`). -/
theorem compose_long_segment_panics (wide : Bool) (s : Seg) (hl : 255 < s.asns.length) :
    compose wide [Hop.seg s] = .panic := by
  have : ¬ s.asns.length ≤ 255 := by omega
  simp [compose, composeLoop, spanAsns, emitRun, Seg.compose, u8Expect, this]

/-- K2: an AS_SET of 256 ASNs panics `to_as_path`. -/
theorem compose_total_fails : ¬ ComposeTotalStatement := by
  intro h
  exact h 1 (List.replicate 256 0) (Or.inl rfl)
    (by intro a ha; have := (List.mem_replicate.mp ha).2; omega)
    (compose_long_segment_panics true _
      (by show 255 < (List.replicate 256 0).length; rw [List.length_replicate]; omega))

/-- ... and with exactly that exclusion (`WfHopsG`: at most 255 ASNs per segment
hop) neither conversion panics, for every API-buildable hop path. -/
theorem compose_total_partial (h : HopPath) (wf : WfHopsG h = true) :
    compose true h ≠ .panic ∧ compose false h ≠ .panic := by
  obtain ⟨ss, c1, c2, _⟩ := compose_specG h wf
  rw [c1, c2]
  refine ⟨by simp, ?_⟩
  split <;> simp

end Rc.Thm.C13
