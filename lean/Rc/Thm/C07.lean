/-
C07 – Re-encoding a received UPDATE preserves its attributes and NLRI.

Property theorems only.  Model: Rc/Model/Reenc.lean (the owned
`Unimplemented` / `Invalid` arms of `PathAttribute::compose` / `compose_len`
after the repairs F7 and F8, the three re-encoding routes, the NLRI re-add after
the repair of K7), on top of Rc/Model/Attr.lean (C04) and Rc/Model/Nlri.lean
(C05).  Lemmas: Rc/Lemmas/Reenc.lean.  The first part is for a four-octet
session; the last section treats two-octet sessions (`reencode_two_octet_partial`,
`two_octet_fails` = known finding K9, `two_octet_widened_*`).  ADD-PATH does not
touch the attributes; the NLRI clause `reencode_nlri` covers it.

"Accepted" enters as `decAll true n sec = .ok ds`: the attribute section parses
(that is what `UpdateMessage::parse` checks of it, besides the MP length rules).
-/
import Rc.Lemmas.Reenc
import Rc.Lemmas.Nlri

namespace Rc.Thm.C07
open Rc Rc.AsPath Rc.Attr Rc.Reenc

/-! ## the independent reading of an attribute section -/

/-- flags, code, value of every attribute: the header walk alone, no type
knowledge (`none` = the octets are not a sequence of complete attributes) -/
def splitAll : Nat → Bytes → Option (List (UInt8 × UInt8 × Bytes))
  | 0, bs => if bs.isEmpty then some [] else none
  | f + 1, bs =>
    if bs.isEmpty then some [] else
      match splitAttr bs with
      | some (fl, tc, v, r) =>
        match splitAll f r with
        | some l => some ((fl, tc, v) :: l)
        | none => none
      | none => none

/-- attribute by attribute: the walk finds what `WireOk` prescribes -/
def WireAll : List Decoded → List (UInt8 × UInt8 × Bytes) → Prop
  | [], [] => True
  | d :: ds, w :: ws => WireOk d w.1 w.2.1 w.2.2 ∧ WireAll ds ws
  | _, _ => False

/-! ## helper facts (private) -/

private theorem decAll_nil (g : Nat) : decAll true g [] = .ok [] := by cases g <;> simp [decAll]
private theorem splitAll_nil (g : Nat) : splitAll g [] = some [] := by cases g <;> simp [splitAll]

/-- everything `reencode_one` says about one owned attribute -/
private def Good (d : Decoded) : Prop :=
  ∃ e, encOwned d = .ok e ∧ lenOwned d = .ok e.length ∧ 3 ≤ e.length ∧
    ∀ r', decAttr true (e ++ r') = .ok (.ok (renorm d), r') ∧
      ∃ fl tc v, splitAttr (e ++ r') = some (fl, tc, v, r') ∧ WireOk d fl tc v

/-- every attribute of a section that parses converts to an owned attribute
(`to_owned` cannot fail in a four-octet session) that re-encodes well -/
private theorem owned_good : ∀ (f : Nat) (bs : Bytes) (ds : List (Outcome Decoded)), bs.length ≤ f →
    decAll true f bs = .ok ds → (∀ d, Outcome.ok d ∈ ds → FitsD d) →
    ∃ owned, allOk ds = .ok owned ∧ ds = owned.map .ok ∧ ∀ d ∈ owned, Good d
  | 0, bs, ds, hf, h, _ => by
    have : bs = [] := List.eq_nil_of_length_eq_zero (by omega)
    subst this
    simp only [decAll, List.isEmpty_nil, if_true, Outcome.ok.injEq] at h
    subst h
    exact ⟨[], rfl, rfl, by simp⟩
  | f + 1, bs, ds, hf, h, hfit => by
    unfold decAll at h
    by_cases he : bs.isEmpty = true
    · simp only [he, if_true, Outcome.ok.injEq] at h
      subst h
      exact ⟨[], rfl, rfl, by simp⟩
    · simp only [he, Bool.false_eq_true, if_false] at h
      cases hd : decAttr true bs with
      | err => simp [hd] at h
      | panic => simp [hd] at h
      | ok p =>
        obtain ⟨od, r⟩ := p
        simp only [hd] at h
        cases hr : decAll true f r with
        | err => simp [hr] at h
        | panic => simp [hr] at h
        | ok l =>
          simp only [hr, Outcome.ok.injEq] at h
          subst h
          obtain ⟨fl, tc, v, hs, _⟩ := decAttr_cases hd
          obtain ⟨_, hlen, _, _⟩ := splitAttr_spec hs
          have hrl : r.length ≤ f := by split at hlen <;> omega
          obtain ⟨d, rfl, hone⟩ := reencode_one hd
          have hg : Good d := hone (hfit d (by simp))
          obtain ⟨owned, i1, i2, i3⟩ := owned_good f r l hrl hr (fun x hx => hfit x (by simp [hx]))
          refine ⟨d :: owned, by simp [allOk, i1], by simp [i2], ?_⟩
          intro x hx
          rcases List.mem_cons.mp hx with rfl | hx
          · exact hg
          · exact i3 x hx

/-- composing any list of such attributes and decoding the result -/
private theorem enc_list_spec : ∀ (m : List Decoded), (∀ d ∈ m, Good d) →
    ∃ out, encList m = .ok out ∧ lenList m = .ok out.length ∧
      (∀ g, out.length ≤ g → decAll true g out = .ok (m.map fun d => .ok (renorm d))) ∧
      (∀ g, out.length ≤ g → ∃ ws, splitAll g out = some ws ∧ WireAll m ws)
  | [], _ => ⟨[], rfl, rfl, fun g _ => decAll_nil g, fun g _ => ⟨[], splitAll_nil g, trivial⟩⟩
  | d :: owned, hgood => by
    obtain ⟨e, e1, e2, e3, e4⟩ := hgood d (by simp)
    obtain ⟨out, i2, i3, i4, i5⟩ := enc_list_spec owned (fun x hx => hgood x (by simp [hx]))
    refine ⟨e ++ out, by simp [encList, e1, i2], by simp [lenList, e2, i3], fun g hg => ?_, fun g hg => ?_⟩
    · have hl : (e ++ out).length = e.length + out.length := List.length_append
      match g, hg with
      | 0, hg => omega
      | g + 1, hg =>
        have hne : (e ++ out).isEmpty = false := by
          cases hxy : e ++ out with
          | nil => rw [hxy] at hl; simp only [List.length_nil] at hl; omega
          | cons _ _ => rfl
        unfold decAll
        simp only [hne, Bool.false_eq_true, if_false, (e4 out).1, i4 g (by omega), List.map_cons]
    · have hl : (e ++ out).length = e.length + out.length := List.length_append
      match g, hg with
      | 0, hg => omega
      | g + 1, hg =>
        have hne : (e ++ out).isEmpty = false := by
          cases hxy : e ++ out with
          | nil => rw [hxy] at hl; simp only [List.length_nil] at hl; omega
          | cons _ _ => rfl
        obtain ⟨fl', tc', v', hsp, hw⟩ := (e4 out).2
        obtain ⟨ws, hws, hwa⟩ := i5 g (by omega)
        refine ⟨(fl', tc', v') :: ws, ?_, hw, hwa⟩
        unfold splitAll
        simp only [hne, Bool.false_eq_true, if_false, hsp, hws]

/-! ## re-encoding the attributes -/

/-- *"converting its path attributes to the owned representation and composing
them again – directly – succeeds and yields bytes that decode to the same
attributes: the same type codes and values, the canonical flags for recognised
types, and for unrecognised types the received optional and transitive flags
plus the partial bit"*.

For every attribute section that parses (any number of attributes of any kind,
any flags, any order, repeated or not): every `to_owned()` succeeds, composing
the owned attributes succeeds, and decoding the octets written gives the same
owned attributes again, one for one, in order (`renorm` only replaces the flags
octet an `Unimplemented` attribute carries by the one that was written).  An
independent header walk over the octets written finds for each attribute
(`WireOk`): its type code; for a typed attribute the octets `compose_value`
writes (the received value octets for 18 of the 20 kinds, `typed_value_kept`;
the same hops for the two AS path kinds, C13) and the canonical flags of the
type plus EXTENDED_LEN exactly above 255 octets; for an `Unimplemented` or
`Invalid` attribute the received value octets and the flags octet `rawFlags`
(`flags_rule`).  `compose_len` summed is the number of octets written.

`hfit`: the AS paths re-compose into at most 65535 octets; `paths_fit` shows
this for every section of at most 43690 octets, whence `reencode_attrs`. -/
theorem reencode_attrs_of_fit (sec : Bytes) (ds : List (Outcome Decoded))
    (hacc : decAll true sec.length sec = .ok ds) (hfit : ∀ d, Outcome.ok d ∈ ds → FitsD d) :
    ∃ owned out, ownedList sec = .ok owned ∧ direct sec = .ok out ∧ lenList owned = .ok out.length ∧
      decAll true out.length out = .ok (owned.map fun d => .ok (renorm d)) ∧
      ∃ ws, splitAll out.length out = some ws ∧ WireAll owned ws := by
  obtain ⟨owned, i1, _, hgood⟩ := owned_good sec.length sec ds (Nat.le_refl _) hacc hfit
  obtain ⟨out, i2, i3, i4, i5⟩ := enc_list_spec owned hgood
  refine ⟨owned, out, by simp [ownedList, hacc, i1], by simp [direct, ownedList, hacc, i1, i2], i3,
    i4 _ (Nat.le_refl _), i5 _ (Nat.le_refl _)⟩

/-- the flags octet written for an attribute the library does not recognise
(`f` = the flags received) or recognises as malformed (`f` = the canonical flags
of its type): optional and transitive bits as in `f`, the partial bit set,
EXTENDED_LEN set exactly when the value is longer than 255 octets, the four
unused low bits as in `f`. -/
theorem flags_rule (f n : Nat) (hf : f < 256) :
    rawFlags f n / 128 % 2 = f / 128 % 2 ∧ rawFlags f n / 64 % 2 = f / 64 % 2 ∧
      rawFlags f n / 32 % 2 = 1 ∧ rawFlags f n / 16 % 2 = (if n > 255 then 1 else 0) ∧
      rawFlags f n % 16 = f % 16 :=
  (rawFlags_bits f n hf).2

/-- *"the same ... values"* for the 18 typed kinds that are not AS paths: the
value octets composed are the value octets received. (For AS_PATH / AS4_PATH
the hops are the same, `Rc.Thm.C04.roundtrip` / C13; adjacent AS_SEQUENCE
segments may be merged.) -/
theorem typed_value_kept (c : Nat) (v : Bytes) (hv : validate c true v = some true) (h2 : c ≠ 2) (h17 : c ≠ 17) :
    ∃ a, parseValue c true v = .ok a ∧ a.code = c ∧ composeValue a = .ok v := by
  obtain ⟨a, h1, _, h3, h4, _⟩ := typed_spec c v hv
  exact ⟨a, h1, h3, h4 ⟨h2, h17⟩⟩

/-! ## attributes not recognised, or recognised as malformed -/

/-- *"Attributes the library does not recognise, or recognises as malformed,
keep their value bytes unchanged whatever their length or length encoding on
input"*: for every flags octet (so for either length encoding), every type code
and every value of 0..65535 octets that fits the encoding: if the attribute is
not a well-formed one of a recognised type, it becomes an `Unimplemented` or
`Invalid` owned attribute whose re-encoding, read back by the header walk
alone, has the same type code and exactly the same value octets. -/
theorem raw_preserved (fl tc : UInt8) (v r r' : Bytes) (hfit : Rc.Thm.C04.rawFits fl v = true)
    (hnt : validate tc.toNat true v ≠ some true) :
    ∃ d e fl', decAttr true (Rc.Thm.C04.rawAttr fl tc v ++ r) = .ok (.ok d, r) ∧ (∀ a, d ≠ .typed a) ∧
      encOwned d = .ok e ∧ splitAttr (e ++ r') = some (fl', tc, v, r') := by
  have hs := splitAttr_raw' fl tc v r hfit
  have key : ∀ d, decAttr true (Rc.Thm.C04.rawAttr fl tc v ++ r) = .ok (.ok d, r) → (∀ a, d ≠ .typed a) →
      (∀ x : UInt8 × UInt8 × Bytes, WireOk d x.1 x.2.1 x.2.2 → x.2.1 = tc ∧ x.2.2 = v) →
      ∃ d e fl', decAttr true (Rc.Thm.C04.rawAttr fl tc v ++ r) = .ok (.ok d, r) ∧ (∀ a, d ≠ .typed a) ∧
        encOwned d = .ok e ∧ splitAttr (e ++ r') = some (fl', tc, v, r') := by
    intro d hd hn hw
    obtain ⟨d', hd', hone⟩ := reencode_one hd
    cases hd'
    have hf : FitsD d := by
      cases d with
      | typed a => exact absurd rfl (hn a)
      | unimplemented _ _ _ => trivial
      | invalid _ _ _ => trivial
    obtain ⟨e, e1, _, _, e4⟩ := hone hf
    obtain ⟨fl', tc', v', hsp, hwo⟩ := (e4 r').2
    obtain ⟨rfl, rfl⟩ := hw (fl', tc', v') hwo
    exact ⟨d, e, fl', hd, hn, e1, hsp⟩
  cases hv : validate tc.toNat true v with
  | none =>
    refine key (.unimplemented fl.toNat tc.toNat v) (by simp [decAttr, parseWire, hs, hv, toOwned])
      (fun a => by simp) ?_
    rintro ⟨x1, x2, x3⟩ ⟨h1, h2, _⟩
    exact ⟨UInt8.toNat_inj.mp h1, h2⟩
  | some b =>
    cases b with
    | true => exact absurd hv hnt
    | false =>
      refine key (.invalid ((canonicalFlags tc.toNat).getD 0) tc.toNat v)
        (by simp [decAttr, parseWire, hs, hv, toOwned]) (fun a => by simp) ?_
      rintro ⟨x1, x2, x3⟩ ⟨h1, h2, _⟩
      exact ⟨UInt8.toNat_inj.mp h1, h2⟩

example : Rc.Thm.C04.rawFits 0xD0 [0xAA, 0xBB] = true ∧ validate 99 true [0xAA, 0xBB] ≠ some true := by decide

/-- *the F7 / F8 clause*: for the `Unimplemented` and `Invalid` arms `compose_len`
is the number of octets `compose` writes – for every flags value, code and value
of any length (also beyond what the length field can express). -/
theorem len_eq (f c : Nat) (v : Bytes) :
    (∃ e, encOwned (.unimplemented f c v) = .ok e ∧ lenOwned (.unimplemented f c v) = .ok e.length) ∧
    (∃ e, encOwned (.invalid f c v) = .ok e ∧ lenOwned (.invalid f c v) = .ok e.length) := by
  constructor <;> exact ⟨_, rfl, by simp [lenOwned, rawHeader_length]⟩

/-! ## the three routes -/

/-- what `PaMap::from_update_pdu` keeps of the owned attributes, one by one -/
def mapStep (m : List Decoded) (d : Decoded) : List Decoded :=
  if codeOf d = 14 ∨ codeOf d = 15 then m else insFirst d m

private theorem fromPdu_ok : ∀ (owned m : List Decoded),
    fromPdu (owned.map .ok) m = .ok (owned.foldl mapStep m)
  | [], m => rfl
  | d :: r, m => by
    simp only [List.map_cons, fromPdu, List.foldl_cons, mapStep]
    split <;> exact fromPdu_ok r _

private theorem mem_insFirst {d x : Decoded} : ∀ {m : List Decoded}, x ∈ insFirst d m → x = d ∨ x ∈ m
  | [], h => by simp [insFirst] at h; exact Or.inl h
  | b :: m, h => by
    unfold insFirst at h
    split at h
    · rcases List.mem_cons.mp h with rfl | h
      · exact Or.inl rfl
      · exact Or.inr h
    · split at h
      · exact Or.inr h
      · rcases List.mem_cons.mp h with rfl | h
        · exact Or.inr (by simp)
        · rcases mem_insFirst h with rfl | h
          · exact Or.inl rfl
          · exact Or.inr (by simp [h])

private theorem codeOf_insFirst {d x : Decoded} {m : List Decoded} (h : x ∈ insFirst d m) :
    codeOf x = codeOf d ∨ x ∈ m := by
  rcases mem_insFirst h with rfl | h
  · exact Or.inl rfl
  · exact Or.inr h

private theorem mem_fold : ∀ (owned m : List Decoded) (x : Decoded), x ∈ owned.foldl mapStep m →
    (x ∈ m ∨ (x ∈ owned ∧ codeOf x ≠ 14 ∧ codeOf x ≠ 15))
  | [], m, x, h => Or.inl h
  | d :: r, m, x, h => by
    simp only [List.foldl_cons] at h
    rcases mem_fold r _ x h with h | h
    · unfold mapStep at h
      split at h
      · exact Or.inl h
      · rename_i hmp
        rcases mem_insFirst h with rfl | h
        · exact Or.inr ⟨by simp, by omega, by omega⟩
        · exact Or.inl h
    · exact Or.inr ⟨by simp [h.1], h.2⟩

/-- strictly ascending type codes: at most one attribute per code, in the order
a `BTreeMap<u8, _>` iterates -/
def Ascending (m : List Decoded) : Prop := m.Pairwise (fun a b => codeOf a < codeOf b)

private theorem insFirst_ascending {d : Decoded} : ∀ {m : List Decoded}, Ascending m → Ascending (insFirst d m)
  | [], _ => by simp [insFirst, Ascending]
  | b :: m, h => by
    unfold Ascending at h ⊢
    rw [List.pairwise_cons] at h
    unfold insFirst
    split
    · rename_i hlt
      rw [List.pairwise_cons]
      refine ⟨fun x hx => ?_, List.pairwise_cons.mpr h⟩
      rcases List.mem_cons.mp hx with rfl | hx
      · exact hlt
      · exact Nat.lt_trans hlt (h.1 x hx)
    · split
      · exact List.pairwise_cons.mpr h
      · rename_i h1 h2
        rw [List.pairwise_cons]
        refine ⟨fun x hx => ?_, insFirst_ascending h.2⟩
        rcases codeOf_insFirst hx with hc | hx
        · rw [hc]; omega
        · exact h.1 x hx

private theorem fold_ascending : ∀ (owned m : List Decoded), Ascending m → Ascending (owned.foldl mapStep m)
  | [], _, h => h
  | d :: r, m, h => by
    simp only [List.foldl_cons]
    apply fold_ascending r
    unfold mapStep
    split
    · exact h
    · exact insFirst_ascending h

/-- *"directly, through the attribute map, or through a builder seeded from the
message"*: the three routes agree.  For a section that parses, with `owned` the
attributes the direct route composes:

* `PaMap::from_update_pdu` succeeds; the map holds exactly the owned attributes
  other than MP_REACH_NLRI / MP_UNREACH_NLRI, kept by `mapStep` (the first of
  repeated attributes), in strictly ascending type code;
* composing the map succeeds, `bytes_len()` is the number of octets written,
  and the octets decode to the map's attributes one for one, with the same
  flags / code / value reading (`WireAll`) as on the direct route;
* whenever the builder route returns a PDU it is: marker, length, type 2, no
  withdrawn routes, the attribute length, then exactly the octets of the map
  route – and both length fields are the true lengths. -/
theorem three_routes_agree_of_fit (sec : Bytes) (ds : List (Outcome Decoded))
    (hacc : decAll true sec.length sec = .ok ds) (hfit : ∀ d, Outcome.ok d ∈ ds → FitsD d) :
    ∃ owned m out, ownedList sec = .ok owned ∧ mapOf sec = .ok m ∧ m = owned.foldl mapStep [] ∧
      (∀ x ∈ m, x ∈ owned ∧ codeOf x ≠ 14 ∧ codeOf x ≠ 15) ∧ Ascending m ∧
      viaMap sec = .ok out ∧ lenList m = .ok out.length ∧
      decAll true out.length out = .ok (m.map fun d => .ok (renorm d)) ∧
      (∃ ws, splitAll out.length out = some ws ∧ WireAll m ws) ∧
      (∀ pdu, viaBuilder sec = .ok pdu →
        pdu = List.replicate 16 (0xff : UInt8) ++ be16 (23 + out.length) ++ [2] ++ be16 0 ++ be16 out.length ++ out ∧
          23 + out.length ≤ 4096 ∧ pdu.length = 23 + out.length) := by
  obtain ⟨owned, i1, i2, hgood⟩ := owned_good sec.length sec ds (Nat.le_refl _) hacc hfit
  have hm : mapOf sec = .ok (owned.foldl mapStep []) := by
    simp only [mapOf, hacc, i2]; exact fromPdu_ok owned []
  have hmem : ∀ x ∈ owned.foldl mapStep [], x ∈ owned ∧ codeOf x ≠ 14 ∧ codeOf x ≠ 15 := by
    intro x hx
    rcases mem_fold owned [] x hx with h | h
    · simp at h
    · exact h
  obtain ⟨out, o1, o2, o3, o4⟩ := enc_list_spec (owned.foldl mapStep []) (fun d hd => hgood d (hmem d hd).1)
  refine ⟨owned, _, out, by simp [ownedList, hacc, i1], hm, rfl, hmem,
    fold_ascending owned [] (by simp [Ascending]), by simp [viaMap, hm, o1], o2, o3 _ (Nat.le_refl _),
    o4 _ (Nat.le_refl _), ?_⟩
  intro pdu hb
  simp only [viaBuilder, hm, finishAttrs, o2, o1] at hb
  split at hb
  · cases hb
  · rename_i hsz
    split at hb
    · simp only [Outcome.ok.injEq] at hb
      subst hb
      refine ⟨by simp [Nat.add_comm], by simp [MAX_PDU] at hsz; omega, by simp; omega⟩
    · cases hb
    · cases hb

/-! ## the NLRI re-added -/

private theorem decAllFuel_wf {α} (c : Rc.Nlri.Codec α) (hwf : ∀ bs n r, c.dec bs = .ok (n, r) → c.wf n = true) :
    ∀ (f : Nat) (bs : Bytes) (ns : List α) (e : Bool), Rc.Nlri.decAllFuel c f bs = .ok (ns, e) →
      ∀ n ∈ ns, c.wf n = true
  | _, [], ns, e, h => by
    simp only [Rc.Nlri.decAllFuel, Outcome.ok.injEq, Prod.mk.injEq] at h
    obtain ⟨rfl, _⟩ := h; simp
  | 0, _ :: _, ns, e, h => by
    simp only [Rc.Nlri.decAllFuel, Outcome.ok.injEq, Prod.mk.injEq] at h
    obtain ⟨rfl, _⟩ := h; simp
  | f + 1, b :: bs, ns, e, h => by
    simp only [Rc.Nlri.decAllFuel] at h
    cases hd : c.dec (b :: bs) with
    | ok p =>
      obtain ⟨n, r⟩ := p
      simp only [hd] at h
      cases hr : Rc.Nlri.decAllFuel c f r with
      | ok q =>
        obtain ⟨ns', e'⟩ := q
        simp only [hr, Outcome.ok.injEq, Prod.mk.injEq] at h
        obtain ⟨rfl, _⟩ := h
        intro x hx
        rcases List.mem_cons.mp hx with rfl | hx
        · exact hwf _ _ _ hd
        · exact decAllFuel_wf c hwf f r ns' e' hr x hx
      | err => simp [hr] at h
      | panic => simp [hr] at h
    | err =>
      simp only [hd, Outcome.ok.injEq, Prod.mk.injEq] at h
      obtain ⟨rfl, _⟩ := h; simp
    | panic => simp [hd] at h

/-- *"when the message's NLRI are re-added the result also carries the same
announcements and withdrawals"* – for each of the 13 families, without and with
ADD-PATH path identifiers, and every octet string `bs` found in an NLRI section:
the NLRI the typed iterator yields before its first error (all of them when the
section is well formed) are composed without panic, and the octets written
decode to exactly that list and end cleanly.  (From the C05 laws
`dec_wf` / `roundtrip_exact`.) -/
theorem reencode_nlri (f : Rc.Nlri.Fam) (bs : Bytes) :
    (∀ ns, readd (Rc.Nlri.codec f) bs = .ok ns →
      ∃ out, recompose (Rc.Nlri.codec f) bs = .ok out ∧ Rc.Nlri.decAll (Rc.Nlri.codec f) out = .ok (ns, true) ∧
        readd (Rc.Nlri.codec f) out = .ok ns) ∧
    (∀ ns, readd (Rc.Nlri.codecAp f) bs = .ok ns →
      ∃ out, recompose (Rc.Nlri.codecAp f) bs = .ok out ∧ Rc.Nlri.decAll (Rc.Nlri.codecAp f) out = .ok (ns, true) ∧
        readd (Rc.Nlri.codecAp f) out = .ok ns) := by
  have gen : ∀ {α} (c : Rc.Nlri.Codec α), c.Laws → (∀ bs n r, c.dec bs = .ok (n, r) → c.wf n = true) →
      ∀ ns, readd c bs = .ok ns →
        ∃ out, recompose c bs = .ok out ∧ Rc.Nlri.decAll c out = .ok (ns, true) ∧ readd c out = .ok ns := by
    intro α c laws hwf ns h
    unfold readd at h
    cases hd : Rc.Nlri.decAll c bs with
    | ok p =>
      obtain ⟨ns', e⟩ := p
      simp only [hd, Outcome.ok.injEq] at h
      subst h
      have hw := decAllFuel_wf c hwf bs.length bs ns' e hd
      obtain ⟨out, h1, h2⟩ := laws.list_roundtrip ns' hw
      exact ⟨out, by simp [recompose, readd, hd, h1], h2, by simp [readd, h2]⟩
    | err => simp [hd] at h
    | panic => simp [hd] at h
  exact ⟨gen _ (Rc.Nlri.codec_laws f) (Rc.Nlri.codec_dec_wf f),
    gen _ (Rc.Nlri.codecAp_laws f) (Rc.Nlri.codecAp_dec_wf f)⟩


/-! ## sections of at most 43690 octets (every UPDATE of at most 4096 octets) -/

private theorem decAll_mem : ∀ (f : Nat) (bs : Bytes) (ds : List (Outcome Decoded)), decAll true f bs = .ok ds →
    ∀ od ∈ ds, ∃ bs' r, decAttr true bs' = .ok (od, r) ∧ bs'.length ≤ bs.length
  | 0, bs, ds, h, od, hm => by
    unfold decAll at h
    split at h
    · cases h; simp at hm
    · cases h
  | f + 1, bs, ds, h, od, hm => by
    unfold decAll at h
    by_cases he : bs.isEmpty = true
    · simp only [he, if_true, Outcome.ok.injEq] at h
      subst h; simp at hm
    · simp only [he, Bool.false_eq_true, if_false] at h
      cases hd : decAttr true bs with
      | err => simp [hd] at h
      | panic => simp [hd] at h
      | ok p =>
        obtain ⟨od0, r⟩ := p
        simp only [hd] at h
        cases hr : decAll true f r with
        | err => simp [hr] at h
        | panic => simp [hr] at h
        | ok l =>
          simp only [hr, Outcome.ok.injEq] at h
          subst h
          rcases List.mem_cons.mp hm with rfl | hm
          · exact ⟨bs, r, hd, Nat.le_refl _⟩
          · obtain ⟨fl, tc, v, hs, _⟩ := decAttr_cases hd
            obtain ⟨_, hlen, _, _⟩ := splitAttr_spec hs
            obtain ⟨bs', r', h1, h2⟩ := decAll_mem f r l hr od hm
            exact ⟨bs', r', h1, by split at hlen <;> omega⟩

/-- in a section of at most 43690 octets every AS_PATH / AS4_PATH re-composes
into a value the two-octet length field can express: re-composing a received
path never takes more than one and a half times its octets
(`path_recompose_len`). -/
theorem paths_fit (sec : Bytes) (ds : List (Outcome Decoded)) (hacc : decAll true sec.length sec = .ok ds)
    (hlen : sec.length ≤ 43690) : ∀ d, Outcome.ok d ∈ ds → FitsD d := by
  intro d hd
  obtain ⟨bs', r, hdec, hle⟩ := decAll_mem sec.length sec ds hacc _ hd
  obtain ⟨fl, tc, v, hs, hcase⟩ := decAttr_cases hdec
  obtain ⟨_, hl, _, _⟩ := splitAttr_spec hs
  have hvl : v.length ≤ 43690 := by split at hl <;> omega
  rcases hcase with ⟨hv, ho⟩ | ⟨_, ho⟩ | ⟨_, ho⟩
  · obtain ⟨a, hp, _, hcode, _, h2, h17⟩ := typed_spec tc.toNat v hv
    simp only [hp, Outcome.ok.injEq] at ho
    subst ho
    intro hc w hw
    rw [hcode] at hc
    rcases hc with hc | hc
    · obtain ⟨h, rfl, pv⟩ := h2 hc
      have := path_recompose_len v h pv w (by simpa [composeValue] using hw)
      omega
    · obtain ⟨h, rfl, pv⟩ := h17 hc
      have := path_recompose_len v h pv w (by simpa [composeValue] using hw)
      omega
  · cases ho; trivial
  · cases ho; trivial

/-- `reencode_attrs_of_fit` for every attribute section of at most 43690 octets
that parses – in particular for the attributes of every accepted UPDATE of at
most 4096 octets (RFC 4271) – with no further hypothesis. -/
theorem reencode_attrs (sec : Bytes) (ds : List (Outcome Decoded))
    (hacc : decAll true sec.length sec = .ok ds) (hlen : sec.length ≤ 43690) :
    ∃ owned out, ownedList sec = .ok owned ∧ direct sec = .ok out ∧ lenList owned = .ok out.length ∧
      decAll true out.length out = .ok (owned.map fun d => .ok (renorm d)) ∧
      ∃ ws, splitAll out.length out = some ws ∧ WireAll owned ws :=
  reencode_attrs_of_fit sec ds hacc (paths_fit sec ds hacc hlen)

/-- `three_routes_agree_of_fit` under the same size bound, no further hypothesis. -/
theorem three_routes_agree (sec : Bytes) (ds : List (Outcome Decoded))
    (hacc : decAll true sec.length sec = .ok ds) (hlen : sec.length ≤ 43690) :
    ∃ owned m out, ownedList sec = .ok owned ∧ mapOf sec = .ok m ∧ m = owned.foldl mapStep [] ∧
      (∀ x ∈ m, x ∈ owned ∧ codeOf x ≠ 14 ∧ codeOf x ≠ 15) ∧ Ascending m ∧
      viaMap sec = .ok out ∧ lenList m = .ok out.length ∧
      decAll true out.length out = .ok (m.map fun d => .ok (renorm d)) ∧
      (∃ ws, splitAll out.length out = some ws ∧ WireAll m ws) ∧
      (∀ pdu, viaBuilder sec = .ok pdu →
        pdu = List.replicate 16 (0xff : UInt8) ++ be16 (23 + out.length) ++ [2] ++ be16 0 ++ be16 out.length ++ out ∧
          23 + out.length ≤ 4096 ∧ pdu.length = 23 + out.length) :=
  three_routes_agree_of_fit sec ds hacc (paths_fit sec ds hacc hlen)

/-! ## the builder route succeeds (audit C07-F1) -/

private theorem attrsWalk_of_decAll : ∀ (f : Nat) (bs : Bytes) (l : List (Outcome Decoded)),
    decAll true f bs = .ok l → attrsWalk f bs = .ok ()
  | 0, bs, l, h => by
    unfold decAll at h; unfold attrsWalk
    split at h <;> simp_all
  | f + 1, bs, l, h => by
    unfold decAll at h; unfold attrsWalk
    split at h
    · simp_all
    · rename_i hne
      simp only [hne]
      unfold decAttr at h
      cases hp : parseWire true bs with
      | ok p =>
        obtain ⟨w, r⟩ := p
        simp only [hp] at h ⊢
        cases hr : decAll true f r with
        | ok l' => exact attrsWalk_of_decAll f r l' hr
        | err => simp [hr] at h
        | panic => simp [hr] at h
      | err => simp [hp] at h
      | panic => simp [hp] at h

private theorem mpPeek_ok : ∀ (g f : Nat) (bs : Bytes) (ws : List (UInt8 × UInt8 × Bytes)),
    splitAll f bs = some ws → (∀ w ∈ ws, w.2.1.toNat ≠ 14 ∧ w.2.1.toNat ≠ 15) → mpPeek g bs = .ok ()
  | 0, _, _, _, _, _ => rfl
  | g + 1, f, bs, ws, hs, hc => by
    unfold mpPeek
    cases hsp : splitAttr bs with
    | none => rfl
    | some q =>
      obtain ⟨fl, tc, v, r⟩ := q
      have hne : bs.isEmpty = false := by
        cases bs with
        | nil => simp [splitAttr] at hsp
        | cons _ _ => rfl
      cases f with
      | zero => unfold splitAll at hs; simp [hne] at hs
      | succ f =>
        unfold splitAll at hs
        simp only [hne, Bool.false_eq_true, if_false, hsp] at hs
        cases hr : splitAll f r with
        | none => simp [hr] at hs
        | some l =>
          simp only [hr, Option.some.injEq] at hs
          subst hs
          have h1 := hc (fl, tc, v) (by simp)
          simp only [h1.1, h1.2, if_false]
          exact mpPeek_ok g f r l hr (fun w hw => hc w (by simp [hw]))

private theorem wireAll_noMp : ∀ (m : List Decoded) (ws : List (UInt8 × UInt8 × Bytes)), WireAll m ws →
    (∀ x ∈ m, codeOf x ≠ 14 ∧ codeOf x ≠ 15) → ∀ w ∈ ws, w.2.1.toNat ≠ 14 ∧ w.2.1.toNat ≠ 15
  | [], [], _, _ => by simp
  | [], _ :: _, h, _ => by simp [WireAll] at h
  | _ :: _, [], h, _ => by simp [WireAll] at h
  | d :: ds, w :: ws, h, hc => by
    intro x hx
    simp only [WireAll] at h
    rcases List.mem_cons.mp hx with rfl | hx
    · have := hc d (by simp)
      rw [h.1.1]; exact this
    · exact wireAll_noMp ds ws h.2 (fun y hy => hc y (by simp [hy])) x hx

/-- `UpdateMessage::from_octets` accepts what `finish` wrote for a builder that holds
attributes only: a well-framed attribute section without MP_REACH_NLRI / MP_UNREACH_NLRI,
no withdrawn routes, no conventional NLRI, true length fields. -/
private theorem parsePdu_attrs_only (out : Bytes) (l : List (Outcome Decoded)) (ws : List (UInt8 × UInt8 × Bytes))
    (hdec : decAll true out.length out = .ok l) (hsp : splitAll out.length out = some ws)
    (hc : ∀ w ∈ ws, w.2.1.toNat ≠ 14 ∧ w.2.1.toNat ≠ 15) (hsz : 23 + out.length ≤ 4096) :
    ∃ p, parsePdu (List.replicate 16 (0xff : UInt8) ++ be16 (16 + 2 + 1 + 2 + (2 + out.length)) ++ [2] ++ be16 0 ++
      be16 out.length ++ out) = .ok p := by
  have hL : 16 + 2 + 1 + 2 + (2 + out.length) = 23 + out.length := by omega
  rw [hL]
  have h19 : takeN 19 (List.replicate 16 (0xff : UInt8) ++ be16 (23 + out.length) ++ [2] ++ be16 0 ++ be16 out.length ++ out)
      = some (List.replicate 16 (0xff : UInt8) ++ be16 (23 + out.length) ++ [2], be16 0 ++ be16 out.length ++ out) := by
    have := takeN_append (List.replicate 16 (0xff : UInt8) ++ be16 (23 + out.length) ++ [2]) (be16 0 ++ be16 out.length ++ out)
    simpa [List.append_assoc] using this
  have hwalk : attrSection out = .ok () := by
    unfold attrSection
    rw [attrsWalk_of_decAll _ _ _ hdec]
    exact mpPeek_ok _ _ _ _ hsp hc
  have hhdr : rd16 ((List.replicate 16 (0xff : UInt8) ++ be16 (23 + out.length) ++ [2]).drop 16) = some (23 + out.length, [2]) := by
    have : (List.replicate 16 (0xff : UInt8) ++ be16 (23 + out.length) ++ [2]).drop 16 = be16 (23 + out.length) ++ [2] := by
      simp [List.drop_append]
    rw [this]; exact rd16_be16 _ (by omega) _
  have htake16 : (List.replicate 16 (0xff : UInt8) ++ be16 (23 + out.length) ++ [2]).take 16 = List.replicate 16 (255 : UInt8) := by
    simp [List.take_append]
  have hconv : convOk [] = .ok () := rfl
  unfold parsePdu
  simp only [h19, htake16, hhdr, ne_eq, not_true_eq_false, if_false]
  have h0 : rd16 (be16 0 ++ be16 out.length ++ out) = some (0, be16 out.length ++ out) := by
    have := rd16_be16 0 (by omega) (be16 out.length ++ out)
    simpa [List.append_assoc] using this
  have hn : rd16 (be16 out.length ++ out) = some (out.length, out) := rd16_be16 _ (by omega) _
  have ht0 : takeN 0 (be16 out.length ++ out) = some ([], be16 out.length ++ out) := by
    simpa using takeN_append [] (be16 out.length ++ out)
  have htn : takeN out.length out = some (out, []) := by
    simpa using takeN_append out []
  have hlt : ¬ (23 + out.length < 19) := by omega
  have hann : ¬ (23 + out.length - 19 < 2 + 0 + 2 + out.length) := by omega
  have hk : 23 + out.length - 19 - (2 + 0 + 2 + out.length) = 0 := by omega
  have ht00 : takeN 0 ([] : Bytes) = some ([], []) := by simpa using takeN_append [] ([] : Bytes)
  simp only [hlt, if_false, h0, ht0, Nat.lt_irrefl, hn, htn, hann, hk, ht00, hconv]
  by_cases hz : out.length > 0
  · simp [hz, hwalk]
  · simp [hz]

/-- *"through a builder seeded from the message - succeeds"* (audit C07-F1): for a
section that parses and whose attributes other than MP_REACH_NLRI / MP_UNREACH_NLRI
re-encode to at most 4073 octets - in particular for the attributes of every accepted
UPDATE of at most 4096 octets whose re-encoding is not longer than what was received -
`UpdateBuilder::from_update_message` + `into_message` return a PDU (and
`three_routes_agree` says which).  `_partial`: above that size `into_message` returns
`PduTooLarge` (`builder_route_too_large`): `UpdateMessage::from_octets` accepts UPDATEs
of up to 65535 octets, the builder writes at most `MAX_PDU` = 4096 - so the clause as
the property states it (`BuilderRouteStatement`) is false: `builder_route_fails`, known
finding K12. -/
theorem builder_route_succeeds_partial (sec : Bytes) (ds : List (Outcome Decoded))
    (hacc : decAll true sec.length sec = .ok ds) (hlen : sec.length ≤ 43690)
    (out : Bytes) (hout : viaMap sec = .ok out) (hsz : 23 + out.length ≤ 4096) :
    ∃ pdu, viaBuilder sec = .ok pdu := by
  obtain ⟨owned, m, out', _, hm, _, hmem, _, hvm, hl, hdec, ⟨ws, hws, hwa⟩, _⟩ := three_routes_agree sec ds hacc hlen
  have : out' = out := by rw [hvm] at hout; cases hout; rfl
  subst this
  have hc := wireAll_noMp m ws hwa (fun x hx => (hmem x hx).2)
  obtain ⟨p, hp⟩ := parsePdu_attrs_only out' _ ws hdec hws hc hsz
  have henc : encList m = .ok out' := by simpa [viaMap, hm] using hvm
  have hns : ¬ (16 + 2 + 1 + 2 + (2 + out'.length) > MAX_PDU) := by simp [MAX_PDU]; omega
  simp only [viaBuilder, hm, finishAttrs, hl, henc, hns, if_false, hp]
  exact ⟨_, rfl⟩

/-- ... and exactly then: a map that re-encodes to more than 4073 octets makes
`into_message` return an error (`PduTooLarge`), never a panic and never a PDU. -/
theorem builder_route_too_large (sec : Bytes) (ds : List (Outcome Decoded))
    (hacc : decAll true sec.length sec = .ok ds) (hlen : sec.length ≤ 43690)
    (out : Bytes) (hout : viaMap sec = .ok out) (hsz : 4096 < 23 + out.length) :
    viaBuilder sec = .err := by
  obtain ⟨owned, m, out', _, hm, _, _, _, hvm, hl, _, _, _⟩ := three_routes_agree sec ds hacc hlen
  have : out' = out := by rw [hvm] at hout; cases hout; rfl
  subst this
  simp only [viaBuilder, hm, finishAttrs, hl]
  have hns : 16 + 2 + 1 + 2 + (2 + out'.length) > MAX_PDU := by simp [MAX_PDU]; omega
  simp only [hns, if_true]

/-- the clause as the property states it: for EVERY attribute section that parses (here
even restricted to the sizes the other theorems cover) the builder route succeeds -/
def BuilderRouteStatement : Prop :=
  ∀ (sec : Bytes) (ds : List (Outcome Decoded)), decAll true sec.length sec = .ok ds → sec.length ≤ 43690 →
    ∃ pdu, viaBuilder sec = .ok pdu

/-- the witness of K12: one unrecognised attribute (type 99, flags 0xD0) with a 4080-octet
value.  The PDU around it has 4107 octets and is accepted (`k12_accepted`) -/
def k12Section : Bytes := [0xD0, 99, 0x0F, 0xF0] ++ List.replicate 4080 0xAA

theorem k12_accepted : (parsePdu (mkPdu [] k12Section [])).isOk = true := by decide +kernel

/-- known finding K12: the builder route fails (`PduTooLarge`) on that accepted UPDATE -/
theorem builder_route_fails : ¬ BuilderRouteStatement := by
  intro h
  have hd : decAll true k12Section.length k12Section =
      .ok [.ok (.unimplemented 0xD0 99 (List.replicate 4080 0xAA))] := by decide +kernel
  obtain ⟨pdu, hp⟩ := h k12Section _ hd (by decide +kernel)
  have : viaBuilder k12Section = .err := by decide +kernel
  rw [this] at hp
  cases hp

/-- a section with an unrecognised attribute (EXTENDED_LEN on two octets), a
malformed ORIGIN and a well-formed MED satisfies the hypotheses -/
example : ∃ ds, decAll true 16 [0xD0, 99, 0, 2, 0xAA, 0xBB, 0x40, 1, 0, 0x80, 4, 4, 0, 0, 0, 7] = .ok ds := ⟨_, rfl⟩

/-! ## two-octet sessions (`SessionConfig::legacy()`)

`pdu.path_attributes()` reads AS_PATH and AGGREGATOR two octets wide there;
`PathAttribute::compose` knows no session and writes them four octets wide.
So the property holds in such a session exactly as far as the section holds
neither (`reencode_two_octet_partial`), fails otherwise (`two_octet_fails`:
known finding K9, request lines `re2w`), and what the code does instead is
proved as `two_octet_widened_path` / `_aggregator`: the octets written are the
four-octet form of the same path / aggregator. -/

/-- no AS_PATH and no AGGREGATOR, over the header walk of the section -/
def widthFree : Nat → Bytes → Bool
  | 0, _ => true
  | f + 1, bs =>
    match splitAttr bs with
    | none => true
    | some (_, tc, _, r) => tc.toNat != 2 && tc.toNat != 7 && widthFree f r


/-! ### helper facts (private) -/

private theorem validate_width (c : Nat) (v : Bytes) (h2 : c ≠ 2) (h7 : c ≠ 7) :
    validate c false v = validate c true v := by
  unfold validate; simp [h2, h7]

private theorem parseValue_width (c : Nat) (v : Bytes) (h2 : c ≠ 2) (h7 : c ≠ 7) :
    parseValue c false v = parseValue c true v := by
  unfold parseValue; simp [h2, h7]

private theorem decAttr_width {bs : Bytes} {fl tc : UInt8} {v r : Bytes} (hs : splitAttr bs = some (fl, tc, v, r))
    (h2 : tc.toNat ≠ 2) (h7 : tc.toNat ≠ 7) :
    decAttr false bs = decAttr true bs ∧ ∃ od, decAttr true bs = .ok (od, r) := by
  simp only [decAttr, parseWire, hs, validate_width _ v h2 h7]
  cases hv : validate tc.toNat true v with
  | none => simp [toOwned]
  | some b => cases b <;> simp [toOwned, parseValue_width _ v h2 h7]

private theorem decAll_width : ∀ (f : Nat) (bs : Bytes), widthFree f bs = true → decAll false f bs = decAll true f bs
  | 0, bs, _ => by simp [decAll]
  | f + 1, bs, h => by
    unfold decAll
    by_cases he : bs.isEmpty = true
    · simp [he]
    · simp only [he, Bool.false_eq_true, if_false]
      cases hs : splitAttr bs with
      | none => simp [decAttr, parseWire, hs]
      | some q =>
        obtain ⟨fl, tc, v, r⟩ := q
        unfold widthFree at h
        simp only [hs, Bool.and_eq_true, bne_iff_ne, ne_eq] at h
        obtain ⟨e1, od, e2⟩ := decAttr_width hs h.1.1 h.1.2
        rw [e1, e2]
        simp only [decAll_width f r h.2]

/-- the codes of what a width-free section decodes to -/
private theorem codes_of_free : ∀ (f : Nat) (bs : Bytes) (ds : List (Outcome Decoded)), bs.length ≤ f → widthFree f bs = true →
    decAll true f bs = .ok ds → ∀ d, Outcome.ok d ∈ ds → codeOf d ≠ 2 ∧ codeOf d ≠ 7
  | 0, bs, ds, _, _, h, d, hd => by
    unfold decAll at h
    split at h
    · cases h; simp at hd
    · cases h
  | f + 1, bs, ds, hf, hw, h, d, hd => by
    unfold decAll at h
    by_cases he : bs.isEmpty = true
    · simp only [he, if_true, Outcome.ok.injEq] at h
      subst h; simp at hd
    · simp only [he, Bool.false_eq_true, if_false] at h
      cases hdec : decAttr true bs with
      | err => simp [hdec] at h
      | panic => simp [hdec] at h
      | ok p =>
        obtain ⟨od0, r⟩ := p
        simp only [hdec] at h
        cases hr : decAll true f r with
        | err => simp [hr] at h
        | panic => simp [hr] at h
        | ok l =>
          simp only [hr, Outcome.ok.injEq] at h
          subst h
          obtain ⟨fl, tc, v, hs, hcase⟩ := decAttr_cases hdec
          obtain ⟨_, hlen, _, _⟩ := splitAttr_spec hs
          unfold widthFree at hw
          simp only [hs, Bool.and_eq_true, bne_iff_ne, ne_eq] at hw
          rcases List.mem_cons.mp hd with hd | hd
          · subst hd
            rcases hcase with ⟨hv, ho⟩ | ⟨_, ho⟩ | ⟨_, ho⟩
            · obtain ⟨a, hp, _, hcode, _⟩ := typed_spec tc.toNat v hv
              simp only [hp, Outcome.ok.injEq] at ho
              subst ho
              simp only [codeOf, hcode]; exact hw.1
            · cases ho; exact hw.1
            · cases ho; exact hw.1
          · exact codes_of_free f r l (by split at hlen <;> omega) hw.2 hr d hd

private theorem free_of_walk : ∀ (f : Nat) (bs : Bytes) (ws : List (UInt8 × UInt8 × Bytes)), splitAll f bs = some ws →
    (∀ w ∈ ws, w.2.1.toNat ≠ 2 ∧ w.2.1.toNat ≠ 7) → widthFree f bs = true
  | 0, _, _, _, _ => rfl
  | f + 1, bs, ws, h, hc => by
    unfold splitAll at h
    unfold widthFree
    by_cases he : bs.isEmpty = true
    · have : bs = [] := by simpa using he
      subst this; simp [splitAttr]
    · simp only [he, Bool.false_eq_true, if_false] at h
      cases hs : splitAttr bs with
      | none => rfl
      | some q =>
        obtain ⟨fl, tc, v, r⟩ := q
        simp only [hs] at h
        cases hr : splitAll f r with
        | none => simp [hr] at h
        | some l =>
          simp only [hr, Option.some.injEq] at h
          subst h
          have h1 := hc (fl, tc, v) (by simp)
          simp only [Bool.and_eq_true, bne_iff_ne, ne_eq]
          exact ⟨⟨h1.1, h1.2⟩, free_of_walk f r l hr (fun w hw => hc w (by simp [hw]))⟩

private theorem wireAll_codes : ∀ (owned : List Decoded) (ws : List (UInt8 × UInt8 × Bytes)), WireAll owned ws →
    (∀ d ∈ owned, codeOf d ≠ 2 ∧ codeOf d ≠ 7) → ∀ w ∈ ws, w.2.1.toNat ≠ 2 ∧ w.2.1.toNat ≠ 7
  | [], [], _, _ => by simp
  | [], _ :: _, h, _ => by simp [WireAll] at h
  | _ :: _, [], h, _ => by simp [WireAll] at h
  | d :: ds, w :: ws, h, hc => by
    simp only [WireAll] at h
    intro x hx
    rcases List.mem_cons.mp hx with rfl | hx
    · have := hc d (by simp)
      rw [h.1.1]; exact this
    · exact wireAll_codes ds ws h.2 (fun d hd => hc d (by simp [hd])) x hx


private theorem allOk_map : ∀ (ds : List (Outcome Decoded)) (owned : List Decoded), allOk ds = .ok owned →
    ds = owned.map .ok
  | [], owned, h => by simp [allOk] at h; subst h; rfl
  | .ok d :: xs, owned, h => by
    simp only [allOk] at h
    cases hx : allOk xs with
    | ok l => simp only [hx, Outcome.ok.injEq] at h; subst h; simp [allOk_map xs l hx]
    | err => simp [hx] at h
    | panic => simp [hx] at h
  | .err :: _, _, h => by simp [allOk] at h
  | .panic :: _, _, h => by simp [allOk] at h

/-- *the property in a two-octet session, for sections without AS_PATH and
AGGREGATOR* (AS4_PATH, AS4_AGGREGATOR and everything else included – after the
repair F30 AS4_PATH is read four octets wide in every session): every
`to_owned()` succeeds, composing succeeds, `compose_len` summed is the number of
octets written, and **the same two-octet session** decodes the octets written to
the same owned attributes, one for one; the independent header walk finds the
codes, flags and values `WireOk` prescribes; the map route and the builder route
agree with the direct one as in `three_routes_agree`. -/
theorem reencode_two_octet_partial (sec : Bytes) (ds : List (Outcome Decoded))
    (hfree : widthFree sec.length sec = true)
    (hacc : decAll false sec.length sec = .ok ds) (hlen : sec.length ≤ 43690) :
    ∃ owned out, ownedListW false sec = .ok owned ∧ directW false sec = .ok out ∧ lenList owned = .ok out.length ∧
      decAll false out.length out = .ok (owned.map fun d => .ok (renorm d)) ∧
      (∃ ws, splitAll out.length out = some ws ∧ WireAll owned ws) ∧
      ownedListW false sec = ownedList sec ∧ directW false sec = direct sec ∧ mapOfW false sec = mapOf sec ∧
      viaMapW false sec = viaMap sec ∧ viaBuilderW false sec = viaBuilder sec := by
  have hw := decAll_width sec.length sec hfree
  have hacc4 : decAll true sec.length sec = .ok ds := by rw [← hw]; exact hacc
  obtain ⟨owned, out, i1, i2, i3, i4, ws, i5, i6⟩ := reencode_attrs sec ds hacc4 hlen
  have e1 : ownedListW false sec = ownedList sec := by simp [ownedListW, ownedList, hw]
  have e2 : directW false sec = direct sec := by simp [directW, direct, e1]
  have e3 : mapOfW false sec = mapOf sec := by simp [mapOfW, mapOf, hw]
  have e4 : viaMapW false sec = viaMap sec := by simp [viaMapW, viaMap, e3]
  have e5 : viaBuilderW false sec = viaBuilder sec := by simp [viaBuilderW, viaBuilder, e3]
  -- the octets written hold no AS_PATH / AGGREGATOR either: the same session reads them the same way
  have hds : ds = owned.map .ok := by
    simp only [ownedList, hacc4] at i1
    exact allOk_map ds owned i1
  have hcodes : ∀ d ∈ owned, codeOf d ≠ 2 ∧ codeOf d ≠ 7 := fun d hd =>
    codes_of_free sec.length sec ds (Nat.le_refl _) hfree hacc4 d (by rw [hds]; exact List.mem_map.mpr ⟨d, hd, rfl⟩)
  have hfo : widthFree out.length out = true :=
    free_of_walk out.length out ws i5 (wireAll_codes owned ws i6 hcodes)
  refine ⟨owned, out, by rw [e1]; exact i1, by rw [e2]; exact i2, i3, ?_, ⟨ws, i5, i6⟩, e1, e2, e3, e4, e5⟩
  rw [decAll_width out.length out hfo]; exact i4

/-- an ORIGIN, an AS4_PATH with one AS, an AS4_AGGREGATOR and an unrecognised
attribute satisfy the hypotheses -/
example : widthFree 27 [0x40, 1, 1, 0, 0xC0, 17, 6, 2, 1, 0, 1, 0xfd, 0xe8, 0xC0, 18, 8, 0, 1, 0xfd, 0xe8, 10, 0, 0, 1, 0xC0, 99, 0] = true ∧
    ∃ ds, decAll false 27 [0x40, 1, 1, 0, 0xC0, 17, 6, 2, 1, 0, 1, 0xfd, 0xe8, 0xC0, 18, 8, 0, 1, 0xfd, 0xe8, 10, 0, 0, 1, 0xC0, 99, 0] = .ok ds :=
  ⟨rfl, _, rfl⟩

/-- the statement one would like for every section a two-octet session accepts -/
def TwoOctetStatement : Prop :=
  ∀ (sec : Bytes) (ds : List (Outcome Decoded)), decAll false sec.length sec = .ok ds → sec.length ≤ 43690 →
    ∃ owned out, ownedListW false sec = .ok owned ∧ directW false sec = .ok out ∧
      decAll false out.length out = .ok (owned.map fun d => .ok (renorm d))

/-- K9: AS_PATH `AS_SEQUENCE(65000)` received two octets wide is written as
`02 01 00 00 fd e8`; the two-octet session reads that as a malformed AS_PATH
(an `Invalid` attribute), not as the path received. -/
theorem two_octet_fails : ¬ TwoOctetStatement := by
  intro h
  obtain ⟨owned, out, h1, h2, h3⟩ := h [0x40, 2, 4, 2, 1, 0xfd, 0xe8] _ rfl (by decide)
  have e1 : ownedListW false [0x40, 2, 4, 2, 1, 0xfd, 0xe8] = .ok [.typed (.asPath [.asn 65000])] := rfl
  have e2 : directW false [0x40, 2, 4, 2, 1, 0xfd, 0xe8] = .ok [0x40, 2, 6, 2, 1, 0, 0, 0xfd, 0xe8] := rfl
  rw [e1] at h1; cases h1
  rw [e2] at h2; cases h2
  have e3 : decAll false 9 [0x40, 2, 6, 2, 1, 0, 0, 0xfd, 0xe8] = .ok [.ok (.invalid 0x40 2 [2, 1, 0, 0, 0xfd, 0xe8])] := rfl
  simp only [List.length_cons, List.length_nil] at h3
  rw [e3] at h3
  simp [renorm] at h3

/-- *what the code does with an AS_PATH of a two-octet session*: the value is
read two octets wide into a hop path `h`; composing writes `w`, which is a
well-formed **four-octet** AS_PATH whose hops are those of `h` (`Hop.norm true`
only marks segment hops as read from a four-octet path, which `==` on `HopPath`
does not see, C13). So a four-octet reader of the re-encoding sees the path
that was received. -/
theorem two_octet_widened_path (v : Bytes) (hv : validate 2 false v = some true) :
    ∃ h w, parseValue 2 false v = .ok (.asPath h) ∧ composeValue (.asPath h) = .ok w ∧
      validate 2 true w = some true ∧ parseValue 2 true w = .ok (.asPath (h.map (Hop.norm true))) := by
  have hp : pathValid false v = true := by simpa [validate] using hv
  have hc : check false v = .ok () := by
    unfold pathValid at hp
    cases hcv : check false v with
    | ok u => cases u; rfl
    | err => simp [hcv] at hp
    | panic => simp [hcv] at hp
  obtain ⟨ss, hss, _, _, hh, _⟩ := wire_view false v hc
  have hwf : WfHops (hopsOfSegs ss) = true := wfHops_hopsOfSegs false ss hss
  obtain ⟨w, c1, _, c3, c4⟩ := value_spec (.asPath (hopsOfSegs ss)) (by simpa [WfAttrW] using hwf)
  exact ⟨hopsOfSegs ss, w, by simp [parseValue, parsePath, hc, hh], c1, by simpa [TypedAttr.code] using c3,
    by simpa [TypedAttr.code, TypedAttr.norm] using c4⟩

example : validate 2 false [2, 2, 0xfd, 0xe8, 0, 1, 1, 1, 0, 7] = some true := rfl

/-- the same for AGGREGATOR: six octets (two-octet AS, IPv4 address) are read,
eight are written, and a four-octet reader finds the same AS number and
address. -/
theorem two_octet_widened_aggregator (v : Bytes) (hv : validate 7 false v = some true) :
    ∃ asn addr w, asn < 65536 ∧ parseValue 7 false v = .ok (.aggregator asn addr) ∧
      composeValue (.aggregator asn addr) = .ok w ∧ w.length = 8 ∧
      validate 7 true w = some true ∧ parseValue 7 true w = .ok (.aggregator asn addr) := by
  have hl : v.length = 6 := by simpa [validate] using hv
  match v, hl with
  | [a, b, c, d, e, f], _ =>
    have h16 : rd16 [a, b, c, d, e, f] = some (a.toNat * 256 + b.toNat, [c, d, e, f]) := rfl
    obtain ⟨addr, r, h32⟩ := rd32_some (v := [c, d, e, f]) (by simp)
    have haddr := (rd32_spec h32)
    have hasn : a.toNat * 256 + b.toNat < 65536 := by have := a.toNat_lt; have := b.toNat_lt; omega
    obtain ⟨w, c1, c2, c3, c4⟩ := value_spec (.aggregator (a.toNat * 256 + b.toNat) addr)
      (by simp only [WfAttrW, u32ok, Bool.and_eq_true, decide_eq_true_eq]; exact ⟨by omega, by omega⟩)
    refine ⟨_, addr, w, hasn, by simp [parseValue, h16, h32], c1, ?_, by simpa [TypedAttr.code] using c3,
      by simpa [TypedAttr.code, TypedAttr.norm] using c4⟩
    simp only [composeValue, Outcome.ok.injEq] at c1
    subst c1; simp


end Rc.Thm.C07
