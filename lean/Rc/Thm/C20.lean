/-
C20 – A session timer never fires early, nor after it was stopped.

Theorems about `Rc/Model/Timer.lean` (the timer bookkeeping of src/bgp/fsm/timers.rs after fix
F17, observed after each operation has settled). They hold for every operation history – no
depth bound – that satisfies the property's precondition (`run … = some …`: no tick falls due
while the previous one is still un-awaited) and for every interval > 0.
-/
import Rc.Model.Timer

namespace Rc.Thm.C20
open Rc Rc.Timer

/-- "the later of the last start and the last reset" (0 when neither happened yet) -/
def armedAt (lastStart lastReset : Option Nat) : Nat := max (lastStart.getD 0) (lastReset.getD 0)

/-- The invariant of the repaired timer. -/
private structure Inv (s : State) : Prop where
  ipos : 0 < s.interval
  ls : s.lastStart.getD 0 ≤ s.now
  lr : s.lastReset.getD 0 ≤ s.now
  task : ∀ n, s.task = some n → s.now < n ∧ armedAt s.lastStart s.lastReset + s.interval ≤ n
  queue : ∀ v, s.queue = some v → armedAt s.lastStart s.lastReset + s.interval ≤ v ∧ v ≤ s.now
  stopped : s.stopped = true ↔ s.task = none
  qtask : s.task = none → s.queue = none
  started : ∀ n, s.task = some n → s.everStarted = true ∧ ∃ t, s.lastStart = some t

/-- what the property demands of one observation, given the ghost variables before the await -/
private def GoodObs (s : State) : Obs → Prop
  | .tick v t => armedAt s.lastStart s.lastReset + s.interval ≤ v ∧ v ≤ t ∧ s.stopped = false ∧
      ∃ ts, s.lastStart = some ts
  | .timeout _ => True

private theorem inv_init (i : Nat) (h : 0 < i) : Inv (init i) := by
  constructor <;> simp [init]
  exact h

private theorem inv_start (s : State) (h : Inv s) : Inv (start true s) := by
  have := h.ipos; have := h.lr
  constructor <;> simp [start, armedAt] <;> omega

private theorem inv_stop (s : State) (h : Inv s) : Inv (stop true s) := by
  have := h.ipos; have := h.lr; have := h.ls
  constructor <;> simp [stop] <;> omega

private theorem inv_reset (s : State) (h : Inv s) : Inv (reset true s) := by
  have hi := h.ipos; have hls := h.ls
  unfold reset
  cases he : s.everStarted with
  | true =>
    simp only [if_true]
    cases ht : s.task with
    | none =>
      have hst := h.stopped
      constructor <;> simp_all
    | some m =>
      have hst := h.stopped
      have hs := h.started m ht
      constructor <;> simp_all [armedAt] <;> omega
  | false =>
    simp only [Bool.false_eq_true, if_false]
    have hnt : s.task = none := by
      cases ht : s.task with
      | none => rfl
      | some n => have := (h.started n ht).1; simp_all
    have hq := h.qtask hnt
    have hst := h.stopped
    constructor <;> simp_all

private theorem stopped_false {s : State} (h : Inv s) {n : Nat} (ht : s.task = some n) :
    s.stopped = false := by
  cases hb : s.stopped with
  | false => rfl
  | true => have := h.stopped.mp hb; simp [ht] at this

/-- the clock moves to `t` without reaching the task's deadline -/
private theorem inv_wait (s : State) (t : Nat) (h : Inv s) (hnow : s.now ≤ t)
    (hnext : ∀ n, s.task = some n → t < n) : Inv { s with now := t } := by
  have hi := h.ipos; have hls := h.ls; have hlr := h.lr
  refine ⟨hi, by simp; omega, by simp; omega, ?_, ?_, ?_, ?_, ?_⟩
  · intro n hn; simp at hn; have := h.task n hn; have := hnext n hn; simp; omega
  · intro v hv; simp at hv; have := h.queue v hv; simp; omega
  · simpa using h.stopped
  · simpa using h.qtask
  · intro n hn; simpa using h.started n hn

/-- the task's deadline is reached: the clock is there, the tick is queued, the interval re-arms -/
private theorem inv_fire (s : State) (next t : Nat) (h : Inv s) (ht : s.task = some next)
    (_hq : s.queue = none) (hle : next ≤ t) (hlt : t < next + s.interval) :
    Inv { s with now := t, queue := some next, task := some (next + s.interval) } := by
  have hi := h.ipos; have hls := h.ls; have hlr := h.lr
  have hT := h.task next ht
  have hS := h.started next ht
  have hsf := stopped_false h ht
  refine ⟨hi, by simp; omega, by simp; omega, ?_, ?_, ?_, ?_, ?_⟩
  · intro n hn; simp at hn; subst hn; simp; omega
  · intro v hv; simp at hv; subst hv; simp; omega
  · simp [hsf]
  · simp
  · intro n hn; simpa using hS

private theorem inv_dequeue (s : State) (h : Inv s) : Inv { s with queue := none } := by
  refine ⟨h.ipos, h.ls, h.lr, h.task, by simp, h.stopped, by simp, h.started⟩

private theorem inv_advance (s s' : State) (d : Nat) (h : Inv s) (hs : advance s d = some s') : Inv s' := by
  unfold advance at hs
  cases ht : s.task with
  | none =>
    simp [ht] at hs; subst hs
    have := inv_wait s (s.now + d) h (by omega) (by intro n hn; simp [ht] at hn)
    simpa [ht] using this
  | some next =>
    simp only [ht] at hs
    split at hs
    · simp at hs; subst hs
      have := inv_wait s (s.now + d) h (by omega) (by intro n hn; simp [ht] at hn; omega)
      simpa [ht] using this
    · split at hs
      · simp at hs
      · rename_i hq
        split at hs
        · simp at hs
        · simp at hs; subst hs
          have hq' : s.queue = none := by cases hqq : s.queue <;> simp_all
          exact inv_fire s next (s.now + d) h ht hq' (by omega) (by omega)

private theorem good_queued (s : State) (v : Nat) (h : Inv s) (hq : s.queue = some v) :
    GoodObs s (.tick v s.now) := by
  have hQ := h.queue v hq
  have hnt : s.task ≠ none := fun hn => by have := h.qtask hn; simp_all
  cases ht : s.task with
  | none => exact absurd ht hnt
  | some n => exact ⟨hQ.1, hQ.2, stopped_false h ht, (h.started n ht).2⟩

private theorem inv_await (s : State) (d : Nat) (h : Inv s) :
    Inv (await s d).1 ∧ GoodObs s (await s d).2 := by
  have hi := h.ipos
  unfold await
  cases hq : s.queue with
  | some v =>
    simp only
    have := inv_dequeue s h
    exact ⟨this, good_queued s v h hq⟩
  | none =>
    cases ht : s.task with
    | none =>
      simp only
      have := inv_wait s (s.now + d) h (by omega) (by intro n hn; simp [ht] at hn)
      exact ⟨by simpa [ht, hq] using this, by simp [GoodObs]⟩
    | some next =>
      have hT := h.task next ht
      simp only
      by_cases h1 : next < s.now + d
      · -- the clock auto-advances to the deadline, the task sends, tick() receives
        simp only [h1, if_true]
        have hf := inv_fire s next next h ht hq (Nat.le_refl _) (by omega)
        have hd := inv_dequeue _ hf
        refine ⟨by simpa [hq] using hd, ?_⟩
        exact ⟨hT.2, Nat.le_refl _, stopped_false h ht, (h.started next ht).2⟩
      · by_cases h2 : next = s.now + d
        · simp only [h2, if_true]
          have hf := inv_fire s next next h ht hq (Nat.le_refl _) (by omega)
          exact ⟨by simpa [h2] using hf, by simp [GoodObs]⟩
        · simp only [h1, h2, if_false]
          have := inv_wait s (s.now + d) h (by omega) (by intro n hn; simp [ht] at hn; omega)
          exact ⟨by simpa [ht, hq] using this, by simp [GoodObs]⟩

private theorem inv_step (s s' : State) (op : Op) (o : Option Obs) (h : Inv s)
    (hs : step true s op = some (s', o)) : Inv s' ∧ ∀ ob, o = some ob → GoodObs s ob := by
  cases op with
  | start => simp [step] at hs; obtain ⟨rfl, rfl⟩ := hs; exact ⟨inv_start s h, by simp⟩
  | stop => simp [step] at hs; obtain ⟨rfl, rfl⟩ := hs; exact ⟨inv_stop s h, by simp⟩
  | reset => simp [step] at hs; obtain ⟨rfl, rfl⟩ := hs; exact ⟨inv_reset s h, by simp⟩
  | advance d =>
    simp [step] at hs
    obtain ⟨a, ha, rfl, rfl⟩ := hs
    exact ⟨inv_advance s a d h ha, by simp⟩
  | await d =>
    simp [step] at hs
    obtain ⟨rfl, rfl⟩ := hs
    have := inv_await s d h
    exact ⟨this.1, by intro ob hob; simp at hob; subst hob; exact this.2⟩

/-- what the property demands of a recorded event -/
private def GoodEvent (e : Event) : Prop :=
  ∀ v t, e.obs = .tick v t →
    armedAt e.lastStart e.lastReset + e.interval ≤ v ∧ v ≤ t ∧ e.stopped = false ∧
      ∃ ts, e.lastStart = some ts

private theorem run_good : ∀ (ops : List Op) (s s' : State) (evs : List Event), Inv s →
    run true s ops = some (s', evs) → ∀ e ∈ evs, GoodEvent e := by
  intro ops
  induction ops with
  | nil => intro s s' evs _ hr; simp [run] at hr; obtain ⟨_, rfl⟩ := hr; simp
  | cons op ops ih =>
    intro s s' evs hinv hr
    unfold run at hr
    cases hst : step true s op with
    | none => simp [hst] at hr
    | some p =>
      obtain ⟨s1, o⟩ := p
      simp only [hst] at hr
      have hstep := inv_step s s1 op o hinv hst
      cases hrun : run true s1 ops with
      | none => simp [hrun] at hr
      | some q =>
        obtain ⟨s2, evs2⟩ := q
        simp only [hrun] at hr
        simp at hr
        obtain ⟨_, rfl⟩ := hr
        intro e he
        simp only [List.mem_append] at he
        rcases he with he | he
        · cases o with
          | none => simp at he
          | some ob =>
            simp at he; subst he
            have hg := hstep.2 ob rfl
            intro v t hvt
            simp only at hvt; subst hvt
            simpa [GoodObs] using hg
        · exact ih s1 s2 evs2 hstep.1 hrun e he

private theorem run_inv : ∀ (ops : List Op) (s s' : State) (evs : List Event), Inv s →
    run true s ops = some (s', evs) → Inv s' := by
  intro ops
  induction ops with
  | nil => intro s s' evs h hr; simp [run] at hr; obtain ⟨rfl, _⟩ := hr; exact h
  | cons op ops ih =>
    intro s s' evs hinv hr
    unfold run at hr
    cases hst : step true s op with
    | none => simp [hst] at hr
    | some p =>
      obtain ⟨s1, o⟩ := p
      simp only [hst] at hr
      have hstep := inv_step s s1 op o hinv hst
      cases hrun : run true s1 ops with
      | none => simp [hrun] at hr
      | some q =>
        obtain ⟨s2, evs2⟩ := q
        simp only [hrun] at hr
        simp at hr
        obtain ⟨rfl, _⟩ := hr
        exact ih s1 s2 evs2 hstep.1 hrun

/-! ### property theorems -/

/-- **No early tick.** In every operation history over {start, reset, stop, advance, await}
that satisfies the precondition (`run` succeeds), for every interval `i > 0`: a tick observed
at clock `t` satisfies `t ≥ max(lastStart, lastReset) + i`, where `lastStart` / `lastReset` are
the times of the last `start` / `reset` calls before that await. The Instant `v` the tick
carries obeys the same bound (the tick was *generated* no earlier than that, not merely
received late). -/
theorem no_early_tick (i : Nat) (hi : 0 < i) (ops : List Op) (s : State) (evs : List Event)
    (hrun : run true (init i) ops = some (s, evs)) :
    ∀ e ∈ evs, ∀ v t, e.obs = .tick v t →
      armedAt e.lastStart e.lastReset + e.interval ≤ t ∧
      armedAt e.lastStart e.lastReset + e.interval ≤ v ∧ v ≤ t := by
  intro e he v t hvt
  have := run_good ops (init i) s evs (inv_init i hi) hrun e he v t hvt
  omega

/-- **No tick after stop.** Under the same hypotheses: when a tick is observed, the last of the
`start` / `stop_and_reset` calls before it was a `start` (`stopped = false`; initially the timer
counts as stopped), and a full interval has elapsed since that start. Hence after a stop no
await observes a tick limit the timer has been started again and one interval has passed. -/
theorem no_tick_after_stop (i : Nat) (hi : 0 < i) (ops : List Op) (s : State) (evs : List Event)
    (hrun : run true (init i) ops = some (s, evs)) :
    ∀ e ∈ evs, ∀ v t, e.obs = .tick v t →
      e.stopped = false ∧ ∃ ts, e.lastStart = some ts ∧ ts + e.interval ≤ t := by
  intro e he v t hvt
  have h := run_good ops (init i) s evs (inv_init i hi) hrun e he v t hvt
  obtain ⟨h1, h2, h3, ts, h4⟩ := h
  refine ⟨h3, ts, h4, ?_⟩
  simp only [armedAt, h4, Option.getD_some] at h1
  omega

private theorem advance_interval {s s' : State} {d : Nat} (h : advance s d = some s') :
    s'.interval = s.interval := by
  unfold advance at h
  split at h
  · simp at h; subst h; rfl
  · split at h
    · simp at h; subst h; rfl
    · split at h
      · simp at h
      · split at h
        · simp at h
        · simp at h; subst h; rfl

private theorem await_interval (s : State) (d : Nat) : (await s d).1.interval = s.interval := by
  unfold await
  split
  · rfl
  · split
    · split
      · rfl
      · split <;> rfl
    · rfl

/-- The `interval` recorded in an event is the timer's: the bound above is about `i`. -/
theorem event_interval (i : Nat) (drain : Bool) : ∀ (ops : List Op) (s0 s : State) (evs : List Event),
    s0.interval = i → run drain s0 ops = some (s, evs) → s.interval = i ∧ ∀ e ∈ evs, e.interval = i := by
  intro ops
  induction ops with
  | nil => intro s0 s evs h0 hr; simp [run] at hr; obtain ⟨rfl, rfl⟩ := hr; simp [h0]
  | cons op ops ih =>
    intro s0 s evs h0 hr
    unfold run at hr
    cases hst : step drain s0 op with
    | none => simp [hst] at hr
    | some p =>
      obtain ⟨s1, o⟩ := p
      simp only [hst] at hr
      have h1 : s1.interval = i := by
        cases op with
        | start => simp [step, start] at hst; obtain ⟨rfl, _⟩ := hst; simpa using h0
        | stop => simp [step, stop] at hst; obtain ⟨rfl, _⟩ := hst; simpa using h0
        | reset =>
          simp [step, reset] at hst; obtain ⟨rfl, _⟩ := hst
          split <;> simpa using h0
        | advance d =>
          simp [step] at hst
          obtain ⟨a, ha, rfl, _⟩ := hst
          rw [advance_interval ha]; exact h0
        | await d =>
          simp [step] at hst; obtain ⟨rfl, _⟩ := hst
          rw [await_interval]; exact h0
      cases hrun : run drain s1 ops with
      | none => simp [hrun] at hr
      | some q =>
        obtain ⟨s2, evs2⟩ := q
        simp only [hrun] at hr
        simp at hr
        obtain ⟨rfl, rfl⟩ := hr
        have := ih s1 s2 evs2 h1 hrun
        refine ⟨this.1, ?_⟩
        intro e he
        simp only [List.mem_append] at he
        rcases he with he | he
        · cases o with
          | none => simp at he
          | some ob => simp at he; subst he; simpa using h0
        · exact this.2 e he

/-! ### non-vacuity, and the defect F17 as a theorem about the unrepaired model -/

/-- A 9-operation history (interval 8 s) that satisfies the precondition and in which two ticks
are observed: start; ¼ interval passes; await (tick at 8 s); reset at 8 s; one interval passes;
await (queued tick, generated at 16 s); stop; two intervals pass; await (nothing). -/
def exHistory : List Op :=
  [.start, .advance 2000, .await 9000, .reset, .advance 8000, .await 1000, .stop, .advance 16000, .await 9000]

example : (run true (init 8000) exHistory).map (fun r => r.2.map (·.obs)) =
    some [.tick 8000 8000, .tick 16000 16000, .timeout 41000] := by decide

/-- F17: in the model of the code *before* the fix (`drain = false`) the statement of
`no_tick_after_stop` is false – `start; advance i; stop; await` observes a tick while stopped –
and so is `no_early_tick` – `start; advance i; reset; advance i/2; await` observes a tick half
an interval after the reset. Both histories satisfy the precondition. -/
theorem unrepaired_timer_ticks_after_stop :
    ∃ evs s, run false (init 10000) [.start, .advance 10000, .stop, .await 20000] = some (s, evs) ∧
      ∃ e ∈ evs, e.obs = .tick 10000 10000 ∧ e.stopped = true := by
  refine ⟨_, _, rfl, _, List.mem_singleton.mpr rfl, rfl, rfl⟩

theorem unrepaired_timer_ticks_early :
    ∃ evs s, run false (init 10000) [.start, .advance 10000, .reset, .advance 5000, .await 1] = some (s, evs) ∧
      ∃ e ∈ evs, e.obs = .tick 10000 15000 ∧ e.lastReset = some 10000 := by
  refine ⟨_, _, rfl, _, List.mem_singleton.mpr rfl, rfl, rfl⟩

end Rc.Thm.C20
