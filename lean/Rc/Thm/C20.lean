/-
C20 – A session timer never fires early, nor after it was stopped.

Theorems about `Rc/Model/Timer.lean` (src/bgp/fsm/timers.rs after fix F17: the `Timer` struct and the
interval task it spawns, small-step, observed after each operation has settled).

* REFINEMENT (`timer_refines_spec`): for EVERY operation history – inside the property's precondition or
  not, every interval, also 0 – what the awaits and probes of the modelled timer observe is what the
  abstract specification `Rc.Timer.spec` says (a stream of due times handed out in order, never early,
  nothing lost or merged; stop / start discard what is outstanding; reset re-arms one interval from now).
* SAFETY (`no_early_tick`, `no_tick_after_stop`): corollaries, under the precondition.
* LIVENESS under the controlled clock (`tick_exactly_at_deadline`, `kth_tick_at_k_intervals`).
* the corner cases `reset` of a stopped timer, `start` of a running one, `stop` twice, interval 0.
-/
import Rc.Model.Timer

namespace Rc.Thm.C20
open Rc Rc.Timer

/-- "the later of the last start and the last reset" (0 when neither happened yet) -/
def armedAt (lastStart lastReset : Option Nat) : Nat := max (lastStart.getD 0) (lastReset.getD 0)

/-! ### the representation of a specification state by the timer and its task -/

/-- the interval task, as a function of the specification state: it waits for the first tick that is not
yet due, or is blocked sending the second-oldest outstanding tick -/
def shapeT (a : Spec) : Task :=
  match a.due with
  | none => .dead
  | some t =>
    match a.stale with
    | some _ => if t ≤ a.now then .sending t (t + a.i) else .waiting t
    | none =>
      if a.now < t then .waiting t
      else if a.now < t + a.i then .waiting (t + a.i)
      else .sending (t + a.i) (t + a.i + a.i)

/-- the capacity-1 tick channel holds the oldest outstanding tick -/
def shapeQ (a : Spec) : Option Nat :=
  match a.due with
  | none => none
  | some t =>
    match a.stale with
    | some v => some v
    | none => if a.now < t then none else some t

/-- well-formed specification states: a running timer has a positive interval (`interval(0)` kills the
task), a stopped one has nothing left over -/
structure SInv (a : Spec) : Prop where
  pos : ∀ t, a.due = some t → 0 < a.i
  stale : a.due = none → a.stale = none

/-- the model state that represents a specification state (`es` = `everStarted`) -/
def rep (a : Spec) (es : Bool) : State :=
  { interval := a.i, now := a.now, task := shapeT a, queue := shapeQ a, resetPending := false,
    everStarted := es, lastStart := a.lastStart, lastReset := a.lastReset, stopped := a.stopped }

/-- `everStarted` after an operation -/
def esAfter (es : Bool) : Op → Bool
  | .start => true
  | .advThen _ .start => true
  | .burst2 c1 c2 => es || c1 == .start || c2 == .start
  | .burst3 c1 c2 c3 => es || c1 == .start || c2 == .start || c3 == .start
  | _ => es

local macro "tmr" : tactic => `(tactic|
  (simp [rep, shapeT, shapeQ, stepT, Spec.step, Spec.call, Spec.calls, Spec.await, Spec.out2, call, callStart, callStop,
     callReset, Timer.await, clock, settle, pollLoop, esAfter, alive, breaks, breaksAt, Spec.breaks,
     Spec.breaksAt, *] <;> grind))

local macro "tmr_ops" op:ident : tactic => `(tactic|
  (cases $op:ident with
   | advThen d c => cases c <;> tmr
   | burst2 c1 c2 => cases c1 <;> cases c2 <;> tmr
   | burst3 c1 c2 c3 => cases c1 <;> cases c2 <;> cases c3 <;> tmr
   | _ => tmr))

/-- the six settled forms of the timer, one tactic per form -/
local macro "tmr_forms" a:ident op:ident : tactic => `(tactic|
  (obtain ⟨p1, p2⟩ := ‹SInv $a›
   rcases $a:ident with ⟨ai, anow, adue, astale, als, alr, ast⟩
   simp only at p1 p2
   cases adue with
   | none =>
     have := p2 rfl; subst this
     tmr_ops $op
   | some t =>
     have hp := p1 t rfl
     have hne : ai ≠ 0 := by omega
     cases astale with
     | some v =>
       by_cases hc : t ≤ anow
       · tmr_ops $op
       · tmr_ops $op
     | none =>
       by_cases hc : anow < t
       · tmr_ops $op
       · by_cases hc2 : anow < t + ai
         · tmr_ops $op
         · tmr_ops $op))

/-- one operation of the timer and its task is one operation of the specification: state -/
private theorem sim_state (a : Spec) (es : Bool) (op : Op) (hI : SInv a) (he : ∀ t, a.due = some t → es = true) :
    (stepT true (rep a es) op).1 = rep (a.step op).1 (esAfter es op) := by
  have he' : a.due.isSome = true → es = true := by
    intro h; cases hd : a.due with
    | none => simp [hd] at h
    | some t => exact he t hd
  clear he
  tmr_forms a op

/-- … observation -/
private theorem sim_obs (a : Spec) (es : Bool) (op : Op) (hI : SInv a) :
    (stepT true (rep a es) op).2 = (a.step op).2 := by
  tmr_forms a op

/-- … the precondition -/
private theorem sim_breaks (a : Spec) (es : Bool) (op : Op) (hI : SInv a) :
    breaks (rep a es) op = a.breaks op := by
  tmr_forms a op

private theorem sinv_step (a : Spec) (op : Op) (hI : SInv a) : SInv (a.step op).1 := by
  obtain ⟨p1, p2⟩ := hI
  rcases a with ⟨ai, anow, adue, astale, als, alr, ast⟩
  simp only at p1 p2
  constructor <;>
  (cases op with
   | advThen d c =>
     cases c <;> cases adue <;> cases astale <;>
     simp_all [Spec.step, Spec.call, Spec.out2] <;> grind
   | burst2 c1 c2 =>
     cases c1 <;> cases c2 <;> cases adue <;> cases astale <;>
     simp_all [Spec.step, Spec.call, Spec.calls, Spec.out2] <;> grind
   | burst3 c1 c2 c3 =>
     cases c1 <;> cases c2 <;> cases c3 <;> cases adue <;> cases astale <;>
     simp_all [Spec.step, Spec.call, Spec.calls, Spec.out2] <;> grind
   | _ =>
     cases adue <;> cases astale <;>
     simp_all [Spec.step, Spec.call, Spec.await, Spec.out2] <;> grind)

private theorem es_step (a : Spec) (es : Bool) (op : Op) (hI : SInv a) (he : ∀ t, a.due = some t → es = true) :
    ∀ t, (a.step op).1.due = some t → esAfter es op = true := by
  obtain ⟨p1, p2⟩ := hI
  rcases a with ⟨ai, anow, adue, astale, als, alr, ast⟩
  simp only at p1 p2 he
  cases op with
  | advThen d c =>
    cases c <;> cases adue <;> cases astale <;>
    simp_all [Spec.step, Spec.call, Spec.out2, esAfter] <;> grind
  | burst2 c1 c2 =>
    cases c1 <;> cases c2 <;> cases adue <;> cases astale <;>
    simp_all [Spec.step, Spec.call, Spec.calls, Spec.out2, esAfter] <;> grind
  | burst3 c1 c2 c3 =>
    cases c1 <;> cases c2 <;> cases c3 <;> cases adue <;> cases astale <;>
    simp_all [Spec.step, Spec.call, Spec.calls, Spec.out2, esAfter] <;> grind
  | _ =>
    cases adue <;> cases astale <;>
    simp_all [Spec.step, Spec.call, Spec.await, Spec.out2, esAfter] <;> grind


private theorem eventsOf_rep (a : Spec) (es : Bool) (o : Option Obs) : eventsOf (rep a es) o = a.eventsOf o := by
  cases o <;> rfl

/-- histories: the total run of the model from a represented state is the run of the specification -/
private theorem runT_rep : ∀ (ops : List Op) (a : Spec) (es : Bool), SInv a → (∀ t, a.due = some t → es = true) →
    (runT true (rep a es) ops).2 = (a.run ops).2 ∧
    ∃ es', (runT true (rep a es) ops).1 = rep (a.run ops).1 es' := by
  intro ops
  induction ops with
  | nil => intro a es _ _; exact ⟨rfl, es, rfl⟩
  | cons op ops ih =>
    intro a es hI he
    have h1 := sim_state a es op hI he
    have h2 := sim_obs a es op hI
    have ih' := ih (a.step op).1 (esAfter es op) (sinv_step a op hI) (es_step a es op hI he)
    simp only [runT, Spec.run, h1, h2, eventsOf_rep]
    exact ⟨by rw [ih'.1], ih'.2⟩

private theorem sinv_init (i : Nat) : SInv (Spec.init i) := by
  constructor <;> simp [Spec.init]

private theorem rep_init (i : Nat) : rep (Spec.init i) false = init i := rfl

/-! ### the refinement theorem -/

/-- **Refinement (normal form).** For every interval `i` (0 included) and EVERY operation history over
{start, reset, stop, advance, await, advance-then-call-before-the-task-ran, two / three calls back to back
(`burst2`, `burst3`), probe} – whether or not it keeps the property's precondition – every await and probe of
the modelled `Timer` (struct + spawned interval task + both channels) observes exactly what `spec` prescribes,
and with the same ghost variables (time of the last start / reset, stopped flag).

What this is and is not: `Spec` is the QUOTIENT of the model's settled reachable states (`rep` is injective on
well-formed states and every settled state is a `rep`, `timer_state_refines_spec`), i.e. a normal form of the
model, written after the code: it carries the code's accidents (`stale`: the tick in a blocked `send` survives
`reset`; `Spec.calls` collapsing `reset, reset`; `await` answering timeout when the tick is due exactly when the
patience ends).  The theorem is a bisimulation between the model and that normal form - it makes the model
easy to reason about, it is NOT a comparison with an independently written specification, and outside the
property's precondition it adds no assurance about the code (there `Spec` = model = transcription of the code,
tied by the correspondence run only).  What is written from the property, independently of model and code, is
`GoodEvent` below with `no_early_tick` / `no_tick_after_stop`.  The histories are lists of `Op` - the
compositions the harness executes (every op ends settled, at most three calls back to back, an await or a
burst never starts un-settled) - not arbitrary schedules of the primitive steps call / clock / settle. -/
theorem timer_refines_spec (i : Nat) (ops : List Op) :
    (runT true (init i) ops).2 = ((Spec.init i).run ops).2 ∧
    (runT true (init i) ops).2.map (·.obs) = spec i ops := by
  have h := (runT_rep ops (Spec.init i) false (sinv_init i) (by simp [Spec.init])).1
  rw [rep_init] at h
  exact ⟨h, by rw [h]; rfl⟩

/-- … and the state the timer is left in is the representation of the specification's state. -/
theorem timer_state_refines_spec (i : Nat) (ops : List Op) :
    ∃ es, (runT true (init i) ops).1 = rep ((Spec.init i).run ops).1 es := by
  have h := (runT_rep ops (Spec.init i) false (sinv_init i) (by simp [Spec.init])).2
  rw [rep_init] at h
  exact h

example : spec 10000 [.start, .advance 30000, .probe, .await 0, .reset, .await 1, .await 9998, .await 1] =
    [.probe true true 1, .tick 10000 30000, .tick 30000 30000, .timeout 39998, .timeout 39999] := by decide

/-! ### the precondition -/

/-- the history keeps the property's precondition (decided on the specification) -/
def keeps : Spec → List Op → Bool
  | _, [] => true
  | a, op :: ops => !a.breaks op && keeps (a.step op).1 ops

/-- a history that `run` accepts keeps the precondition, and `run` is the total run -/
private theorem run_rep : ∀ (ops : List Op) (a : Spec) (es : Bool) (s : State) (evs : List Event), SInv a →
    (∀ t, a.due = some t → es = true) → run true (rep a es) ops = some (s, evs) →
    keeps a ops = true ∧ evs = (a.run ops).2 := by
  intro ops
  induction ops with
  | nil => intro a es s evs _ _ h; simp [run] at h; simp [keeps, Spec.run, h.2]
  | cons op ops ih =>
    intro a es s evs hI he h
    have hb := sim_breaks a es op hI
    unfold run step at h
    cases hbr : breaks (rep a es) op with
    | true => simp [hbr] at h
    | false =>
      simp only [hbr] at h
      have h1 := sim_state a es op hI he
      have h2 := sim_obs a es op hI
      cases hr : run true (stepT true (rep a es) op).1 ops with
      | none => simp [hr] at h
      | some q =>
        obtain ⟨s2, evs2⟩ := q
        simp [hr] at h
        rw [h1] at hr
        have ih' := ih (a.step op).1 (esAfter es op) s2 evs2 (sinv_step a op hI) (es_step a es op hI he) hr
        refine ⟨?_, ?_⟩
        · simp [keeps, ← hb, hbr, ih'.1]
        · rw [← h.2, ih'.2, h2, eventsOf_rep]; simp [Spec.run]

/-- the invariant of the specification inside the precondition: nothing stale, at most one tick outstanding -/
private structure PInv (a : Spec) : Prop where
  ipos : 0 < a.i
  nostale : a.stale = none
  ls : a.lastStart.getD 0 ≤ a.now
  lr : a.lastReset.getD 0 ≤ a.now
  due : ∀ t, a.due = some t → armedAt a.lastStart a.lastReset + a.i ≤ t ∧ a.now < t + a.i ∧
          a.stopped = false ∧ ∃ ts, a.lastStart = some ts

/-- what the property demands of a recorded event -/
private def GoodEvent (e : Event) : Prop :=
  ∀ v t, e.obs = .tick v t →
    armedAt e.lastStart e.lastReset + e.interval ≤ v ∧ v ≤ t ∧ e.stopped = false ∧
      ∃ ts, e.lastStart = some ts

/-- a settled call keeps the invariant (inside the precondition at most one tick is outstanding, so a `reset`
leaves nothing stale) … -/
private theorem pinv_call (a : Spec) (c : Call) (h : PInv a) : PInv (a.call 0 c) := by
  obtain ⟨q1, q2, q3, q4, q5⟩ := h
  rcases a with ⟨ai, anow, adue, astale, als, alr, ast⟩
  simp only at q1 q2 q3 q4 q5
  subst q2
  cases adue with
  | none =>
    cases c <;> refine ⟨?_, ?_, ?_, ?_, ?_⟩ <;> simp_all [Spec.call, armedAt] <;> grind
  | some t =>
    obtain ⟨q6, q7, q8, ts, q9⟩ := q5 t rfl
    subst q8 q9
    cases c <;> refine ⟨?_, ?_, ?_, ?_, ?_⟩ <;> simp_all [Spec.call, Spec.out2, armedAt] <;> grind

/-- … and so do calls made back to back. -/
private theorem pinv_calls : ∀ (cs : List Call) (a : Spec), PInv a → PInv (a.calls cs) := by
  intro cs a
  fun_induction Spec.calls a cs with
  | case1 a => exact id
  | case2 a rest ih => exact ih
  | case3 a c rest _ ih => exact fun h => ih (pinv_call a c h)

private theorem pinv_step (a : Spec) (op : Op) (h : PInv a) (hb : a.breaks op = false) :
    PInv (a.step op).1 ∧ ∀ e ∈ a.eventsOf (a.step op).2, GoodEvent e := by
  obtain ⟨q1, q2, q3, q4, q5⟩ := h
  rcases a with ⟨ai, anow, adue, astale, als, alr, ast⟩
  simp only at q1 q2 q3 q4 q5
  subst q2
  cases adue with
  | none =>
    cases op with
    | advThen d c =>
      cases c <;> refine ⟨⟨?_, ?_, ?_, ?_, ?_⟩, ?_⟩ <;>
      simp_all [Spec.step, Spec.call, Spec.eventsOf, GoodEvent, armedAt] <;> grind
    | burst2 c1 c2 => exact ⟨pinv_calls _ _ ⟨q1, rfl, q3, q4, q5⟩, by simp [Spec.step, Spec.eventsOf]⟩
    | burst3 c1 c2 c3 => exact ⟨pinv_calls _ _ ⟨q1, rfl, q3, q4, q5⟩, by simp [Spec.step, Spec.eventsOf]⟩
    | _ =>
      refine ⟨⟨?_, ?_, ?_, ?_, ?_⟩, ?_⟩ <;>
      simp_all [Spec.step, Spec.call, Spec.await, Spec.out2, Spec.eventsOf, GoodEvent, armedAt] <;> grind
  | some t =>
    have q := q5 t rfl
    obtain ⟨q6, q7, q8, ts, q9⟩ := q
    subst q8 q9
    cases op with
    | advThen d c =>
      cases c <;> refine ⟨⟨?_, ?_, ?_, ?_, ?_⟩, ?_⟩ <;>
      simp_all [Spec.step, Spec.call, Spec.out2, Spec.eventsOf, GoodEvent, armedAt, Spec.breaks, Spec.breaksAt] <;> grind
    | burst2 c1 c2 => exact ⟨pinv_calls _ _ ⟨q1, rfl, q3, q4, q5⟩, by simp [Spec.step, Spec.eventsOf]⟩
    | burst3 c1 c2 c3 => exact ⟨pinv_calls _ _ ⟨q1, rfl, q3, q4, q5⟩, by simp [Spec.step, Spec.eventsOf]⟩
    | _ =>
      refine ⟨⟨?_, ?_, ?_, ?_, ?_⟩, ?_⟩ <;>
      simp_all [Spec.step, Spec.call, Spec.await, Spec.out2, Spec.eventsOf, GoodEvent, armedAt, Spec.breaks, Spec.breaksAt] <;> grind

private theorem keeps_good : ∀ (ops : List Op) (a : Spec), PInv a → keeps a ops = true →
    ∀ e ∈ (a.run ops).2, GoodEvent e := by
  intro ops
  induction ops with
  | nil => intro a _ _ e he; simp [Spec.run] at he
  | cons op ops ih =>
    intro a h hk e he
    simp only [keeps, Bool.and_eq_true, Bool.not_eq_true'] at hk
    have hs := pinv_step a op h hk.1
    simp only [Spec.run, List.mem_append] at he
    rcases he with he | he
    · exact hs.2 e he
    · exact ih (a.step op).1 hs.1 hk.2 e he

private theorem pinv_init (i : Nat) (hi : 0 < i) : PInv (Spec.init i) := by
  constructor <;> simp [Spec.init]; exact hi

private theorem run_good (i : Nat) (hi : 0 < i) (ops : List Op) (s : State) (evs : List Event)
    (hrun : run true (init i) ops = some (s, evs)) : ∀ e ∈ evs, GoodEvent e := by
  rw [← rep_init] at hrun
  have h := run_rep ops (Spec.init i) false s evs (sinv_init i) (by simp [Spec.init]) hrun
  intro e he
  rw [h.2] at he
  exact keeps_good ops (Spec.init i) (pinv_init i hi) h.1 e he


/-! ### property theorems (safety): corollaries of the refinement -/

/-- **No early tick.** In every operation history that satisfies the precondition (`run` succeeds), for
every interval `i > 0`: a tick observed at clock `t` satisfies `t ≥ max(lastStart, lastReset) + i`, where
`lastStart` / `lastReset` are the times of the last `start` / `reset` calls before that await. The
Instant `v` the tick carries obeys the same bound (the tick was *generated* no earlier than that, not
merely received late). -/
theorem no_early_tick (i : Nat) (hi : 0 < i) (ops : List Op) (s : State) (evs : List Event)
    (hrun : run true (init i) ops = some (s, evs)) :
    ∀ e ∈ evs, ∀ v t, e.obs = .tick v t →
      armedAt e.lastStart e.lastReset + e.interval ≤ t ∧
      armedAt e.lastStart e.lastReset + e.interval ≤ v ∧ v ≤ t := by
  intro e he v t hvt
  have := run_good i hi ops s evs hrun e he v t hvt
  omega

/-- **No tick after stop.** Under the same hypotheses: when a tick is observed, the last of the
`start` / `stop_and_reset` calls before it was a `start` (`stopped = false`; initially the timer
counts as stopped), and a full interval has elapsed since that start. Hence after a stop no
await observes a tick until the timer has been started again and one interval has passed. -/
theorem no_tick_after_stop (i : Nat) (hi : 0 < i) (ops : List Op) (s : State) (evs : List Event)
    (hrun : run true (init i) ops = some (s, evs)) :
    ∀ e ∈ evs, ∀ v t, e.obs = .tick v t →
      e.stopped = false ∧ ∃ ts, e.lastStart = some ts ∧ ts + e.interval ≤ t := by
  intro e he v t hvt
  have h := run_good i hi ops s evs hrun e he v t hvt
  obtain ⟨h1, h2, h3, ts, h4⟩ := h
  refine ⟨h3, ts, h4, ?_⟩
  simp only [armedAt, h4, Option.getD_some] at h1
  omega

private theorem stepT_interval (drain : Bool) (s : State) (op : Op) : (stepT drain s op).1.interval = s.interval := by
  cases op with
  | advThen d c =>
    cases c <;> simp [stepT, call, callStart, callStop, callReset, clock, settle, pollLoop] <;> grind
  | burst2 c1 c2 =>
    cases c1 <;> cases c2 <;> simp [stepT, call, callStart, callStop, callReset, settle, pollLoop] <;> grind
  | burst3 c1 c2 c3 =>
    cases c1 <;> cases c2 <;> cases c3 <;> simp [stepT, call, callStart, callStop, callReset, settle, pollLoop] <;> grind
  | _ => simp [stepT, callStart, callStop, callReset, clock, settle, pollLoop, Timer.await] <;> grind

/-- The `interval` recorded in an event is the timer's: the bound above is about `i`. -/
theorem event_interval (i : Nat) (drain : Bool) : ∀ (ops : List Op) (s0 s : State) (evs : List Event),
    s0.interval = i → run drain s0 ops = some (s, evs) → s.interval = i ∧ ∀ e ∈ evs, e.interval = i := by
  intro ops
  induction ops with
  | nil => intro s0 s evs h0 hr; simp [run] at hr; obtain ⟨rfl, rfl⟩ := hr; simp [h0]
  | cons op ops ih =>
    intro s0 s evs h0 hr
    unfold run step at hr
    cases hb : breaks s0 op with
    | true => simp [hb] at hr
    | false =>
      simp only [hb] at hr
      cases hrun : run drain (stepT drain s0 op).1 ops with
      | none => simp [hrun] at hr
      | some q =>
        obtain ⟨s2, evs2⟩ := q
        simp [hrun] at hr
        obtain ⟨rfl, rfl⟩ := hr
        have := ih _ s2 evs2 (by rw [stepT_interval]; exact h0) hrun
        refine ⟨this.1, ?_⟩
        intro e he
        simp only [List.mem_append] at he
        rcases he with he | he
        · cases ho : (stepT drain s0 op).2 with
          | none => simp [ho, eventsOf] at he
          | some ob => simp [ho, eventsOf] at he; subst he; simpa using h0
        · exact this.2 e he

/-- a history inside the precondition is observed the same by `run` and by the total `runT` -/
theorem run_is_runT (drain : Bool) : ∀ (ops : List Op) (s0 s : State) (evs : List Event),
    run drain s0 ops = some (s, evs) → runT drain s0 ops = (s, evs) := by
  intro ops
  induction ops with
  | nil => intro s0 s evs hr; simp [run] at hr; simp [runT, hr]
  | cons op ops ih =>
    intro s0 s evs hr
    unfold run step at hr
    cases hb : breaks s0 op with
    | true => simp [hb] at hr
    | false =>
      simp only [hb] at hr
      cases hrun : run drain (stepT drain s0 op).1 ops with
      | none => simp [hrun] at hr
      | some q =>
        obtain ⟨s2, evs2⟩ := q
        simp [hrun] at hr
        have := ih _ s2 evs2 hrun
        simp [runT, this, hr]

/-! ### liveness under the controlled clock -/

/-- the timer has just been armed: its task waits for `now + interval`, nothing is queued -/
def JustArmed (s : State) : Prop :=
  0 < s.interval ∧ s.task = .waiting (s.now + s.interval) ∧ s.queue = none ∧ s.resetPending = false

/-- `start` arms the timer whatever state it was in - running, blocked on a full channel, stopped:
**start on a running timer re-arms** (the old task and its schedule are gone, what was queued is
drained), and the later of last start / last reset is now. -/
theorem start_rearms (s : State) (hi : 0 < s.interval) :
    JustArmed (stepT true s .start).1 ∧ (stepT true s .start).1.now = s.now ∧
    (stepT true s .start).1.lastStart = some s.now ∧ (stepT true s .start).1.stopped = false ∧
    alive (stepT true s .start).1 = 1 := by
  have : s.interval ≠ 0 := by omega
  have h2 : ¬ (s.now + s.interval ≤ s.now) := by omega
  simp [JustArmed, stepT, callStart, settle, pollLoop, alive, this, h2]
  omega

/-- `reset` of a running timer with at most one tick outstanding (the task is not blocked in `send`)
arms it as well. -/
theorem reset_rearms (s : State) (hi : 0 < s.interval) (he : s.everStarted = true) (next : Nat)
    (ht : s.task = .waiting next) :
    JustArmed (stepT true s .reset).1 ∧ (stepT true s .reset).1.now = s.now ∧
    (stepT true s .reset).1.lastReset = some s.now := by
  simp [JustArmed, stepT, callReset, settle, pollLoop, he, ht]
  omega

/-- **A tick exactly at the deadline.** The timer was armed at `T` (`JustArmed`; by `start_rearms` /
`reset_rearms` that is the later of the last start and the last reset). The clock is advanced by `d`
(less than two intervals: the precondition) and the tick is then awaited for longer than what is
left of the interval: the await DOES observe a tick, the tick carries exactly `T + interval`, and it is
observed at that very instant when the await began before it (`d < interval`), else at once. -/
theorem tick_exactly_at_deadline (s : State) (h : JustArmed s) (d e : Nat) (hd : d < 2 * s.interval)
    (he : s.interval < d + e) :
    let s1 := (stepT true s (.advance d)).1
    (stepT true s1 (.await e)).2 = some (.tick (s.now + s.interval) (max (s.now + s.interval) (s.now + d))) ∧
    breaks s (.advance d) = false := by
  obtain ⟨h0, h1, h2, h3⟩ := h
  rcases s with ⟨i, now, task, queue, rp, es, ls, lr, st⟩
  simp only at h0 h1 h2 h3 hd he
  subst h1 h2 h3
  by_cases hc : now + i ≤ now + d
  · simp [stepT, clock, settle, pollLoop, Timer.await, breaks, breaksAt, hc]
    grind
  · simp [stepT, clock, settle, pollLoop, Timer.await, breaks, breaksAt, hc]
    grind

/-- an await longer than the interval on a just-armed timer: a tick exactly one interval later, and the
timer is just-armed again at that instant -/
private theorem await_justArmed (s : State) (h : JustArmed s) (e : Nat) (he : s.interval < e) :
    (stepT true s (.await e)).2 = some (.tick (s.now + s.interval) (s.now + s.interval)) ∧
    JustArmed (stepT true s (.await e)).1 ∧ (stepT true s (.await e)).1.now = s.now + s.interval ∧
    (stepT true s (.await e)).1.interval = s.interval := by
  obtain ⟨h0, h1, h2, h3⟩ := h
  rcases s with ⟨i, now, task, queue, rp, es, ls, lr, st⟩
  simp only at h0 h1 h2 h3 he
  subst h1 h2 h3
  have : now + i < now + e := by omega
  simp [stepT, Timer.await, JustArmed, this]
  omega

/-- the observations of a run -/
def obsOf (r : State × List Event) : List Obs := r.2.map (·.obs)

/-- **Periodicity.** A timer armed at `T` that is only awaited (each await longer than the interval, no
start / stop / reset in between) ticks at exactly `T + i, T + 2i, .., T + n·i`: the `k`-th tick carries
`T + k·i` and is observed at that instant. -/
theorem kth_tick_at_k_intervals (e : Nat) : ∀ (n : Nat) (s : State), JustArmed s → s.interval < e →
    obsOf (runT true s (List.replicate n (.await e))) =
      (List.range n).map (fun k => .tick (s.now + (k + 1) * s.interval) (s.now + (k + 1) * s.interval)) := by
  intro n
  induction n with
  | zero => intro s _ _; simp [obsOf, runT]
  | succ n ih =>
    intro s h he
    have ha := await_justArmed s h e he
    have ih' := ih (stepT true s (.await e)).1 ha.2.1 (by rw [ha.2.2.2]; exact he)
    simp only [List.replicate_succ, runT, obsOf, ha.1, eventsOf, List.map_cons, List.singleton_append]
    simp only [obsOf] at ih'
    rw [ih', List.range_succ_eq_map, List.map_cons, List.map_map, ha.2.2.1, ha.2.2.2]
    simp only [Nat.zero_add, Nat.one_mul, List.cons.injEq, true_and]
    apply List.map_congr_left
    intro k _
    simp only [Function.comp, Nat.succ_eq_add_one]
    have : (k + 1 + 1) * s.interval = s.interval + (k + 1) * s.interval := by
      rw [Nat.add_mul (k + 1) 1]; omega
    rw [this]; simp only [Nat.add_assoc]

/-- the hypotheses are satisfiable: five ticks, 8 s apart, after a restart at 3 s -/
example : obsOf (runT true (init 8000) ([.start, .advance 3000, .start] ++ List.replicate 5 (.await 9000))) =
    [.tick 11000 11000, .tick 19000 19000, .tick 27000 27000, .tick 35000 35000, .tick 43000 43000] := by decide

/-! ### corner cases -/

/-- the timer is silent: no task, nothing queued -/
def Silent (s : State) : Prop := s.task = .dead ∧ s.queue = none

/-- an operation that does not start the timer -/
def notStart : Op → Bool
  | .start => false
  | .advThen _ .start => false
  | .burst2 c1 c2 => c1 != .start && c2 != .start
  | .burst3 c1 c2 c3 => c1 != .start && c2 != .start && c3 != .start
  | _ => true

private theorem silent_step (s : State) (op : Op) (h : Silent s) (hn : notStart op = true) :
    Silent (stepT true s op).1 ∧ ∀ v t, (stepT true s op).2 ≠ some (.tick v t) := by
  obtain ⟨h1, h2⟩ := h
  cases op with
  | advThen d c =>
    cases c <;> simp_all [Silent, stepT, call, callStop, callReset, clock, settle, notStart] <;> grind
  | burst2 c1 c2 =>
    cases c1 <;> cases c2 <;> simp_all [Silent, stepT, call, callStop, callReset, settle, notStart] <;> grind
  | burst3 c1 c2 c3 =>
    cases c1 <;> cases c2 <;> cases c3 <;> simp_all [Silent, stepT, call, callStop, callReset, settle, notStart] <;> grind
  | _ => simp_all [Silent, stepT, callStop, callReset, clock, settle, Timer.await, notStart] <;> grind

/-- **`reset` on a stopped timer does not arm it** (it only logs a warning), and more generally a timer
that is not running - never started, or stopped - stays silent under every history without a `start`:
resets, stops, advances and awaits observe no tick. -/
theorem silent_until_start : ∀ (ops : List Op) (s : State), Silent s → ops.all notStart = true →
    ∀ e ∈ (runT true s ops).2, ∀ v t, e.obs ≠ .tick v t := by
  intro ops
  induction ops with
  | nil => intro s _ _ e he; simp [runT] at he
  | cons op ops ih =>
    intro s h hn e he
    simp only [List.all_cons, Bool.and_eq_true] at hn
    have hs := silent_step s op h hn.1
    simp only [runT, List.mem_append] at he
    rcases he with he | he
    · cases ho : (stepT true s op).2 with
      | none => simp [ho, eventsOf] at he
      | some ob =>
        simp [ho, eventsOf] at he; subst he
        intro v t hvt; simp only at hvt; subst hvt
        exact hs.2 v t ho
    · exact ih _ hs.1 hn.2 e he

/-- `stop_and_reset` leaves the timer silent, in every state (running, blocked, already stopped) …
(this, `stop_twice` and `start_rearms` are one unfolding of the model's definitions: sanity lemmas about the
transcription, no evidence about the code by themselves; with `silent_until_start` they are why the oracle may
judge "no tick while stopped" on EVERY history and resume full judging at a start / stop, c20.rs `oracle`) -/
theorem stop_silences (s : State) : Silent (stepT true s .stop).1 ∧ (stepT true s .stop).1.stopped = true ∧
    alive (stepT true s .stop).1 = 0 := by
  simp [Silent, stepT, callStop, settle, alive]

/-- … and **stopping twice is stopping once** (the second call only logs a warning). -/
theorem stop_twice (s : State) : (stepT true (stepT true s .stop).1 .stop).1 = (stepT true s .stop).1 := by
  simp [stepT, callStop, settle]

/-- `reset` of a timer that is not running changes nothing but the ghost "time of the last reset". -/
theorem reset_stopped_noop (s : State) (h : Silent s) (hr : s.resetPending = false) :
    (stepT true s .reset).1 = { s with lastReset := some s.now } := by
  obtain ⟨h1, h2⟩ := h
  rcases s with ⟨i, now, task, queue, rp, es, ls, lr, st⟩
  simp only at h1 h2 hr
  subst h1 h2 hr
  cases es <;> simp [stepT, callReset, settle]

/-- **Interval 0 never ticks.** `Session::new` creates such timers (keepalive for hold times 0..2, all of
them for hold time 0). `start` spawns a task that panics in `tokio::time::interval(0)`; `is_running()` is
true, no tick is ever observed, in any history. -/
theorem interval_zero_never_ticks (ops : List Op) :
    ∀ e ∈ (runT true (init 0) ops).2, ∀ v t, e.obs ≠ .tick v t := by
  have h := (timer_refines_spec 0 ops).1
  rw [h]
  -- on the specification: with i = 0 nothing is ever due
  have key : ∀ (ops : List Op) (a : Spec), a.i = 0 → a.due = none → a.stale = none →
      ∀ e ∈ (a.run ops).2, ∀ v t, e.obs ≠ .tick v t := by
    intro ops
    induction ops with
    | nil => intro a _ _ _ e he; simp [Spec.run] at he
    | cons op ops ih =>
      intro a h0 h1 h2 e he
      rcases a with ⟨ai, anow, adue, astale, als, alr, ast⟩
      simp only at h0 h1 h2
      subst h0 h1 h2
      simp only [Spec.run, List.mem_append] at he
      rcases he with he | he
      · cases op with
        | advThen d c => cases c <;> simp [Spec.step, Spec.eventsOf] at he
        | burst2 c1 c2 => simp [Spec.step, Spec.eventsOf] at he
        | burst3 c1 c2 c3 => simp [Spec.step, Spec.eventsOf] at he
        | _ => simp [Spec.step, Spec.eventsOf, Spec.await] at he <;> (subst he; simp)
      · refine ih _ ?_ ?_ ?_ e he <;>
        (cases op with
         | advThen d c => cases c <;> simp [Spec.step, Spec.call]
         | burst2 c1 c2 => cases c1 <;> cases c2 <;> simp [Spec.step, Spec.call, Spec.calls]
         | burst3 c1 c2 c3 => cases c1 <;> cases c2 <;> cases c3 <;> simp [Spec.step, Spec.call, Spec.calls]
         | _ => simp [Spec.step, Spec.call, Spec.await])
  exact key ops (Spec.init 0) rfl rfl rfl

/-- … while `is_running()` says yes: `start; probe` on an interval-0 timer. -/
example : spec 0 [.start, .probe, .advance 5000, .await 5000, .probe] =
    [.probe true false 0, .timeout 10000, .probe true false 0] := by decide

/-! ### non-vacuity, and the defect F17 as a theorem about the unrepaired model -/

/-- A 9-operation history (interval 8 s) that satisfies the precondition and in which two ticks
are observed: start; ¼ interval passes; await (tick at 8 s); reset at 8 s; one interval passes;
await (queued tick, generated at 16 s); stop; two intervals pass; await (nothing). -/
def exHistory : List Op :=
  [.start, .advance 2000, .await 9000, .reset, .advance 8000, .await 1000, .stop, .advance 16000, .await 9000]

example : (run true (init 8000) exHistory).map (fun r => r.2.map (·.obs)) =
    some [.tick 8000 8000, .tick 16000 16000, .timeout 41000] := by decide

/-- F17: in the model of the code *before* the fix (`drain = false`) the statement of
`no_tick_after_stop` is false – `start; advance i; stop; await` observes a tick while stopped –
and so is `no_early_tick` – `start; advance i; reset; advance i/2; await` observes a tick half
an interval after the reset. Both histories satisfy the precondition. -/
theorem unrepaired_timer_ticks_after_stop :
    ∃ evs s, run false (init 10000) [.start, .advance 10000, .stop, .await 20000] = some (s, evs) ∧
      ∃ e ∈ evs, e.obs = .tick 10000 10000 ∧ e.stopped = true := by
  refine ⟨_, _, rfl, _, List.mem_singleton.mpr rfl, rfl, rfl⟩

theorem unrepaired_timer_ticks_early :
    ∃ evs s, run false (init 10000) [.start, .advance 10000, .reset, .advance 5000, .await 1] = some (s, evs) ∧
      ∃ e ∈ evs, e.obs = .tick 10000 15000 ∧ e.lastReset = some 10000 := by
  refine ⟨_, _, rfl, _, List.mem_singleton.mpr rfl, rfl, rfl⟩

end Rc.Thm.C20
