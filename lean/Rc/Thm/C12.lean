/-
C12 – the negotiated parse configuration matches the capabilities both sides
sent.  Property theorems only; all statements are about Rc/Model/Negotiate.lean.
-/
import Rc.Model.Negotiate
import Rc.Thm.C03

namespace Rc.Thm.C12
open Rc Rc.Negotiate

/-- an OPEN advertises "receive (or both)" / "send (or both)" for a family -/
def advRecv (d : Option Dir) : Prop := d = some .recv ∨ d = some .both
def advSend (d : Option Dir) : Prop := d = some .send ∨ d = some .both

instance (d : Option Dir) : Decidable (advRecv d) := by unfold advRecv; exact inferInstance
instance (d : Option Dir) : Decidable (advSend d) := by unfold advSend; exact inferInstance

/-- no family occurs twice in an ADD-PATH list -/
def NoDupFam : FamList → Prop
  | [] => True
  | (g, _) :: r => lookup r g = none ∧ NoDupFam r

def rxOf (d : Option Dir) : Bool := match d with | some .recv | some .both => true | _ => false
def txOf (d : Option Dir) : Bool := match d with | some .send | some .both => true | _ => false

/-- what negotiation yields for one family from the two advertised directions -/
def mergeOpt (a b : Option Dir) : Option Dir := a.bind fun x => b.bind (merge x)

/-! ## the per-family core: all 16 combinations of {absent, receive, send, both}² -/

/-- receive is enabled exactly when we advertise receive (or both) and the peer send (or both) -/
theorem core_rx (a b : Option Dir) : rxOf (mergeOpt a b) = true ↔ advRecv a ∧ advSend b := by
  rcases a with _ | a <;> rcases b with _ | b <;> (try cases a) <;> (try cases b) <;> decide

/-- sending symmetrically -/
theorem core_tx (a b : Option Dir) : txOf (mergeOpt a b) = true ↔ advSend a ∧ advRecv b := by
  rcases a with _ | a <;> rcases b with _ | b <;> (try cases a) <;> (try cases b) <;> decide

/-- swapping the two sides swaps send and receive -/
theorem core_swap (a b : Option Dir) : rxOf (mergeOpt a b) = txOf (mergeOpt b a) := by
  rcases a with _ | a <;> rcases b with _ | b <;> (try cases a) <;> (try cases b) <;> decide

/-- `AddpathFamDir::merge` is the per-family core restricted to equal families -/
theorem famDirMerge_spec (f g : Fam) (a b : Dir) :
    famDirMerge (f, a) (g, b) = if f = g then (mergeOpt (some a) (some b)).map fun d => (f, d) else none := by
  unfold famDirMerge mergeOpt
  by_cases h : f = g <;> simp [h]

/-! ## lists -/

private theorem get_addAll (c : Config) (l : FamList) (f : Fam) (h : NoDupFam l) :
    (c.addAll l).get f = match lookup l f with | some d => some d | none => c.get f := by
  induction l generalizing c with
  | nil => simp [Config.addAll, lookup]
  | cons e r ih =>
    obtain ⟨g, d⟩ := e
    obtain ⟨h1, h2⟩ := h
    simp only [Config.addAll, lookup]
    rw [ih _ h2]
    by_cases hg : g = f
    · subst hg; simp [h1, Config.insert, Config.get]
    · have hg' : ¬ f = g := fun e => hg e.symm
      simp [hg, hg', Config.insert, Config.get]

private theorem lookup_intersection (mine other : FamList) (f : Fam) (h : NoDupFam mine) :
    lookup (intersection mine other) f = mergeOpt (lookup mine f) (lookup other f) := by
  induction mine with
  | nil => simp [intersection, lookup, mergeOpt]
  | cons e r ih =>
    obtain ⟨g, d⟩ := e
    obtain ⟨h1, h2⟩ := h
    have ih' := ih h2
    unfold intersection
    by_cases hg : g = f
    · subst hg
      cases hm : (lookup other g).bind (merge d) with
      | some m => simp [lookup, mergeOpt, hm]
      | none => simp [lookup, mergeOpt, hm, ih', h1]
    · cases hm : (lookup other g).bind (merge d) with
      | some m => simp [lookup, hg, ih']
      | none => simp [lookup, hg, ih']

private theorem nodup_intersection (mine other : FamList) (h : NoDupFam mine) :
    NoDupFam (intersection mine other) := by
  induction mine with
  | nil => simp [intersection, NoDupFam]
  | cons e r ih =>
    obtain ⟨g, d⟩ := e
    obtain ⟨h1, h2⟩ := h
    unfold intersection
    cases hm : (lookup other g).bind (merge d) with
    | some m =>
      refine ⟨?_, ih h2⟩
      rw [lookup_intersection r other g h2, h1]; rfl
    | none => exact ih h2

private theorem get_helper (loc peer : OpenInfo) (f : Fam) (h : NoDupFam loc.ap) :
    (helper loc peer).get f = mergeOpt (lookup loc.ap f) (lookup peer.ap f) := by
  unfold helper
  rw [get_addAll _ _ _ (nodup_intersection _ _ h), lookup_intersection _ _ _ h]
  cases mergeOpt (lookup loc.ap f) (lookup peer.ap f) <;> simp [Config.new, Config.get]

/-- **rx_iff** – the configuration derived by the helper enables ADD-PATH
reception for a family exactly when the local OPEN advertised receive (or
both) and the peer's OPEN send (or both) for it.  (`lookup` is the first entry
for the family; the local list must not name a family twice – with duplicates
the later insert wins, see `first_match_rule`.) -/
theorem rx_iff (loc peer : OpenInfo) (f : Fam) (h : NoDupFam loc.ap) :
    (helper loc peer).rx f = true ↔ advRecv (lookup loc.ap f) ∧ advSend (lookup peer.ap f) := by
  have := core_rx (lookup loc.ap f) (lookup peer.ap f)
  rw [← this, ← get_helper loc peer f h]
  exact Iff.rfl

/-- **tx_iff** – and sending symmetrically -/
theorem tx_iff (loc peer : OpenInfo) (f : Fam) (h : NoDupFam loc.ap) :
    (helper loc peer).tx f = true ↔ advSend (lookup loc.ap f) ∧ advRecv (lookup peer.ap f) := by
  have := core_tx (lookup loc.ap f) (lookup peer.ap f)
  rw [← this, ← get_helper loc peer f h]
  exact Iff.rfl

/-- **swap** – swapping the two OPENs swaps send and receive, for every family -/
theorem swap (a b : OpenInfo) (f : Fam) (ha : NoDupFam a.ap) (hb : NoDupFam b.ap) :
    (helper a b).rx f = (helper b a).tx f := by
  have h1 : (helper a b).rx f = rxOf (mergeOpt (lookup a.ap f) (lookup b.ap f)) := by
    rw [← get_helper a b f ha]; rfl
  have h2 : (helper b a).tx f = txOf (mergeOpt (lookup b.ap f) (lookup a.ap f)) := by
    rw [← get_helper b a f hb]; rfl
  rw [h1, h2]; exact core_swap _ _

/-- With a family named twice in the peer's OPEN its *first* entry counts
(`Iterator::find`), whatever follows. -/
theorem first_match_rule (loc : OpenInfo) (pfour : Bool) (g : Fam) (d : Dir) (rest : FamList)
    (h : NoDupFam loc.ap) :
    (helper loc ⟨pfour, (g, d) :: rest⟩).get g = mergeOpt (lookup loc.ap g) (some d) := by
  rw [get_helper _ _ _ h]; simp [lookup]

private theorem four_addAll (c : Config) (l : FamList) : (c.addAll l).four = c.four := by
  induction l generalizing c with
  | nil => rfl
  | cons e r ih => obtain ⟨g, d⟩ := e; simp [Config.addAll, ih, Config.insert]

/-- **four_octet_iff** – four-octet AS decoding is enabled exactly when both
OPENs carry the capability (helper and BMP `session_config`); for
`pph_session_config` it is what the per-peer header's A flag dictates, and the
second component reports exactly a disagreement between the two. -/
theorem four_octet_iff (a b : OpenInfo) (legacy : Bool) :
    ((helper a b).four = true ↔ a.four = true ∧ b.four = true) ∧
    ((bmpConfig a b).four = true ↔ a.four = true ∧ b.four = true) ∧
    ((pphConfig a b legacy).1.four = true ↔ legacy = false) ∧
    ((pphConfig a b legacy).2 = true ↔ ¬ ((legacy = false) ↔ (a.four = true ∧ b.four = true))) := by
  simp only [helper, bmpConfig, pphConfig, four_addAll, Config.new]
  cases a.four <;> cases b.four <;> cases legacy <;> simp

/-! ## the three derivations agree -/

/-- the live session's list IS the helper's intersection for the OPEN the session sends -/
private theorem liveList_eq (cf : List Fam) (l : FamList) :
    liveList cf l = intersection (cf.map (·, Dir.both)) l := by
  induction cf with
  | nil => simp [liveList, intersection]
  | cons g r ih =>
    have ih' : List.filterMap (fun g => ((lookup l g).bind (merge .both)).map fun m => (g, m)) r =
        intersection (r.map (·, Dir.both)) l := ih
    simp only [liveList, List.map_cons, List.filterMap_cons, intersection]
    cases hm : (lookup l g).bind (merge .both) with
    | some m => simp only [Option.map_some]; exact congrArg _ ih'
    | none => simp only [Option.map_none]; exact ih'

/-- **three_agree** – "holds identically for the intersection helper, the BMP peer-up derivation
and the live session": for the OPEN a live session sends (`liveLocal cf`: four-octet capability,
SendReceive for each configured family – any list of configured families, repetitions allowed)
and ANY peer OPEN (any ADD-PATH list, families named twice included: all three take the peer's
first entry, since the first-match fix of the session), the three derivations produce the same
configuration: the same direction for every family and the same four-octet flag.  (That the OPEN
really sent is `liveLocal cf` is tied by the correspondence fields `sent4=`/`sentap=`; with 59 or
more configured families `send_open` panics in `OpenBuilder::finish`, known finding K4, and no
OPEN is sent at all.) -/
theorem three_agree (cf : List Fam) (peer : OpenInfo) (f : Fam) :
    (liveConfig cf peer).get f = (helper (liveLocal cf) peer).get f ∧
    (bmpConfig (liveLocal cf) peer).get f = (helper (liveLocal cf) peer).get f ∧
    (liveConfig cf peer).four = (helper (liveLocal cf) peer).four ∧
    (bmpConfig (liveLocal cf) peer).four = (helper (liveLocal cf) peer).four := by
  refine ⟨?_, rfl, ?_, rfl⟩
  · simp [liveConfig, helper, liveLocal, liveList_eq]
  · simp [liveConfig, helper, four_addAll, Config.new, liveLocal]

/-- the same as one equation between configurations (family map and flag) -/
theorem live_eq_helper (cf : List Fam) (peer : OpenInfo) :
    (liveConfig cf peer).fams = (helper (liveLocal cf) peer).fams ∧
    (liveConfig cf peer).four = (helper (liveLocal cf) peer).four := by
  constructor
  · simp [liveConfig, helper, liveLocal, liveList_eq]
  · simp [liveConfig, helper, four_addAll, Config.new, liveLocal]

private theorem get_addAll_fm (F : Fam → Option Dir) (cf : List Fam) (c : Config) (f : Fam) :
    (c.addAll (cf.filterMap fun g => (F g).map fun m => (g, m))).get f =
      if cf.contains f then (match F f with | some d => some d | none => c.get f) else c.get f := by
  induction cf generalizing c with
  | nil => simp [Config.addAll]
  | cons g r ih =>
    simp only [List.filterMap_cons]
    cases hF : F g with
    | none =>
      simp only [Option.map_none]
      rw [ih]
      by_cases hg : g = f
      · subst hg; simp [hF]
      · have : ¬ f = g := fun e => hg e.symm
        simp [this]
    | some m =>
      simp only [Option.map_some, Config.addAll]
      rw [ih]
      by_cases hg : g = f
      · subst hg; simp [hF, Config.insert, Config.get]
      · have : ¬ f = g := fun e => hg e.symm
        simp [this, Config.insert, Config.get]

/-- what the live session stores for a family: SendReceive merged with the peer's first entry
for it if the family is configured, nothing otherwise – for ANY configuration list and peer list -/
theorem live_get (cf : List Fam) (peer : OpenInfo) (f : Fam) :
    (liveConfig cf peer).get f =
      if cf.contains f then mergeOpt (some .both) (lookup peer.ap f) else none := by
  unfold liveConfig liveList
  rw [get_addAll_fm (fun g => (lookup peer.ap g).bind (merge .both))]
  by_cases hcf : f ∈ cf
  · simp only [List.contains_iff_mem, hcf, if_true, mergeOpt, Option.bind_some]
    cases (lookup peer.ap f).bind (merge .both) <;> simp [Config.new, Config.get]
  · simp [hcf, Config.new, Config.get]

/-- the live session's reception flag, spelled out: rx for a family iff it is
configured locally and the peer advertised send (or both) in its first entry for the family -/
theorem live_rx_iff (cf : List Fam) (peer : OpenInfo) (f : Fam) :
    (liveConfig cf peer).rx f = true ↔ cf.contains f = true ∧ advSend (lookup peer.ap f) := by
  have h1 : (liveConfig cf peer).rx f =
      rxOf (mergeOpt (if cf.contains f then some .both else none) (lookup peer.ap f)) := by
    unfold Config.rx; rw [live_get]
    by_cases hcf : f ∈ cf
    · simp only [List.contains_iff_mem, hcf, if_true, mergeOpt, Option.bind_some]
      generalize (lookup peer.ap f).bind (merge Dir.both) = o
      cases o with | none => rfl | some d => cases d <;> rfl
    · simp [hcf, rxOf, mergeOpt]
  rw [h1, core_rx]
  by_cases hcf : f ∈ cf <;> simp [hcf, advRecv]

/-- sending, for the live session -/
theorem live_tx_iff (cf : List Fam) (peer : OpenInfo) (f : Fam) :
    (liveConfig cf peer).tx f = true ↔ cf.contains f = true ∧ advRecv (lookup peer.ap f) := by
  have h1 : (liveConfig cf peer).tx f =
      txOf (mergeOpt (if cf.contains f then some .both else none) (lookup peer.ap f)) := by
    unfold Config.tx; rw [live_get]
    by_cases hcf : f ∈ cf
    · simp only [List.contains_iff_mem, hcf, if_true, mergeOpt, Option.bind_some]
      generalize (lookup peer.ap f).bind (merge Dir.both) = o
      cases o with | none => rfl | some d => cases d <;> rfl
    · simp [hcf, txOf, mergeOpt]
  rw [h1, core_tx]
  by_cases hcf : f ∈ cf <;> simp [hcf, advSend]

/-! ## the BMP derivations, at the generality of the helper (C12-F4)

`session_config` and `pph_session_config` run the same `addpath_intersection` on (sent, rcvd);
the model terms coincide, so every ADD-PATH statement about `helper` is one about them. -/

theorem bmp_eq_helper (sent rcvd : OpenInfo) : bmpConfig sent rcvd = helper sent rcvd := rfl

theorem pph_fams_eq_helper (sent rcvd : OpenInfo) (legacy : Bool) (f : Fam) :
    (pphConfig sent rcvd legacy).1.get f = (helper sent rcvd).get f := by
  have h : ∀ (c₁ c₂ : Config) (l : FamList), c₁.fams = c₂.fams →
      (c₁.addAll l).fams = (c₂.addAll l).fams := by
    intro c₁ c₂ l
    induction l generalizing c₁ c₂ with
    | nil => intro h; simpa [Config.addAll] using h
    | cons e r ih =>
      intro h0; obtain ⟨g, d⟩ := e
      simp only [Config.addAll]
      apply ih
      simp [Config.insert, h0]
  simp only [pphConfig, helper, Config.get]
  rw [h (Config.new (!legacy)) (Config.new (sent.four && rcvd.four)) _ rfl]

/-- rx / tx / swap for both BMP derivations, any sent and received OPEN -/
theorem bmp_rx_tx_iff (sent rcvd : OpenInfo) (legacy : Bool) (f : Fam) (h : NoDupFam sent.ap) :
    ((bmpConfig sent rcvd).rx f = true ↔ advRecv (lookup sent.ap f) ∧ advSend (lookup rcvd.ap f)) ∧
    ((bmpConfig sent rcvd).tx f = true ↔ advSend (lookup sent.ap f) ∧ advRecv (lookup rcvd.ap f)) ∧
    ((pphConfig sent rcvd legacy).1.rx f = true ↔ advRecv (lookup sent.ap f) ∧ advSend (lookup rcvd.ap f)) ∧
    ((pphConfig sent rcvd legacy).1.tx f = true ↔ advSend (lookup sent.ap f) ∧ advRecv (lookup rcvd.ap f)) := by
  refine ⟨rx_iff sent rcvd f h, tx_iff sent rcvd f h, ?_, ?_⟩
  · have := rx_iff sent rcvd f h
    unfold Config.rx at this ⊢
    rwa [pph_fams_eq_helper]
  · have := tx_iff sent rcvd f h
    unfold Config.tx at this ⊢
    rwa [pph_fams_eq_helper]

theorem bmp_swap (a b : OpenInfo) (l₁ l₂ : Bool) (f : Fam) (ha : NoDupFam a.ap) (hb : NoDupFam b.ap) :
    (bmpConfig a b).rx f = (bmpConfig b a).tx f ∧
    (pphConfig a b l₁).1.rx f = (pphConfig b a l₂).1.tx f := by
  refine ⟨swap a b f ha hb, ?_⟩
  have := swap a b f ha hb
  unfold Config.rx Config.tx at this ⊢
  rwa [pph_fams_eq_helper, pph_fams_eq_helper]

/-! ## OPENs whose ADD-PATH capabilities do not all read (C12-F1)

`OpenMessage::from_octets` accepts an ADD-PATH capability whose later tuples carry a direction
outside 1..3 or whose length is not a multiple of four; `addpath_families_vec` then fails.  The
property's "for every pair of OPEN messages" is read over pairs whose ADD-PATH capabilities are
well-formed (RFC 7911); for the others the code's behaviour is mirrored and stated here. -/

/-- on OPENs that read, the `…E` functions are the ones the theorems above speak about -/
theorem readable_same (a b : OpenInfo) (cf : List Fam) (legacy : Bool) :
    helperE ⟨a.four, some a.ap⟩ ⟨b.four, some b.ap⟩ = helper a b ∧
    bmpConfigE ⟨a.four, some a.ap⟩ ⟨b.four, some b.ap⟩ = bmpConfig a b ∧
    pphConfigE ⟨a.four, some a.ap⟩ ⟨b.four, some b.ap⟩ legacy = pphConfig a b legacy ∧
    liveConfigE cf ⟨b.four, some b.ap⟩ = some (liveConfig cf b) :=
  ⟨rfl, rfl, rfl, rfl⟩

/-- if either OPEN's ADD-PATH list is unreadable, helper and both BMP derivations enable
ADD-PATH for no family (the four-octet flag is derived as usual), and the live session refuses
the peer's OPEN -/
theorem unreadable_no_addpath (a b : OpenRd) (legacy : Bool) (cf : List Fam) (f : Fam)
    (h : a.ap = none ∨ b.ap = none) :
    (helperE a b).get f = none ∧ (bmpConfigE a b).get f = none ∧
    (pphConfigE a b legacy).1.get f = none ∧
    (helperE a b).four = (a.four && b.four) ∧
    (b.ap = none → liveConfigE cf b = none) := by
  have hi : intersectionE a.ap b.ap = [] := by
    rcases h with h | h
    · simp [intersectionE, h]
    · cases ha : a.ap <;> simp [intersectionE, h]
  refine ⟨?_, ?_, ?_, ?_, ?_⟩
  · simp [helperE, hi, Config.addAll, Config.new, Config.get]
  · simp [bmpConfigE, hi, Config.addAll, Config.new, Config.get]
  · simp [pphConfigE, hi, Config.addAll, Config.new, Config.get]
  · simp [helperE, hi, Config.addAll, Config.new]
  · intro hb; simp [liveConfigE, hb]

/-- **second_connection_agrees** – "holds identically", applied to the second connection of one
Session object: whatever the first OPEN exchange negotiated (any first peer OPEN that was
accepted), the configuration of the second connection is the one helper and BMP derive from the
second pair of OPENs alone. -/
theorem second_connection_agrees (cf : List Fam) (peer1 : OpenRd) (peer2 : OpenInfo) (c : Config)
    (h : liveSecond cf peer1 ⟨peer2.four, some peer2.ap⟩ = some c) (f : Fam) :
    c.get f = (helper (liveLocal cf) peer2).get f ∧ c.get f = (bmpConfig (liveLocal cf) peer2).get f ∧
    c.four = (helper (liveLocal cf) peer2).four := by
  unfold liveSecond at h
  cases h1 : liveConfigE cf peer1 with
  | none => rw [h1] at h; simp at h
  | some c1 =>
    rw [h1] at h
    have h2 : liveConfig cf peer2 = c := by
      simpa [liveConfigE] using h
    subst h2
    have := three_agree cf peer2 f
    exact ⟨this.1, this.1, this.2.2.1⟩

/-! ## the OPEN a live session sends (C12-F3)

`Session::send_open` (session.rs:379) builds its OPEN with `OpenBuilder`: four-octet capability,
one multiprotocol capability per configured protocol, `add_addpath(fam, SendReceive)` per
configured ADD-PATH family.  Through the C03 model of `OpenBuilder::finish` and the C03
decode-after-encode theorem: as long as the capability bytes fit (`capBytes ≤ 253`, i.e. up to 58
families with two protocols) the OPEN sent carries the four-octet capability and reads back as
exactly `liveLocal cf`.  Beyond that `finish` overflows (known finding K4) and `send_open` panics. -/

open Rc.Open in
/-- the builder as `send_open` fills it -/
def sentBuilder (asn ht : Nat) (id : Bytes) (mps cf : List Fam) : Builder :=
  ⟨asn, ht, id, fourOctetCapBytes asn :: mps.map (fun f => mpCapBytes f.1 f.2),
   cf.map fun f => (f.1, f.2, 3)⟩

open Rc.Open Rc.Thm.C03 in
private theorem apSpec_skip (cs : List Cap) (h : ∀ c ∈ cs, c.code.toNat ≠ 69) (tail : List Cap) :
    apSpec (cs ++ tail) = apSpec tail := by
  induction cs with
  | nil => rfl
  | cons c cs ih =>
    have h1 := h c (by simp)
    simp only [List.cons_append, apSpec, h1, if_false]
    exact ih (fun c' hc' => h c' (by simp [hc']))

open Rc.Open Rc.Thm.C03 in
/-- **sent_open_is_liveLocal** – for every AS number, hold time, identifier, protocol list and
ADD-PATH family list that fit: `finish` succeeds and the OPEN it yields has the four-octet
capability and the ADD-PATH list `cf × SendReceive` – the `liveLocal cf` of `three_agree`. -/
theorem sent_open_is_liveLocal (asn ht : Nat) (id : Bytes) (mps cf : List Fam)
    (hid : id.length = 4) (hht : ht < 65536)
    (hcf : ∀ f ∈ cf, f.1 < 65536 ∧ f.2 < 256)
    (hb : capBytes (sentBuilder asn ht id mps cf) ≤ 253) :
    ∃ bs, finish (sentBuilder asn ht id mps cf) = .ok bs ∧
      fourOctetCapable bs = .ok true ∧
      addpathFamiliesVec bs = .ok (cf.map fun f => (f.1, f.2, (Dir.both).code)) := by
  let cs : List Cap := ⟨65, be32 asn⟩ :: mps.map (fun f => ⟨1, be16 f.1 ++ [0x00, UInt8.ofNat f.2]⟩)
  have hcaps : (sentBuilder asn ht id mps cf).caps = cs.map encCap := by
    simp only [sentBuilder, cs, List.map_cons, List.map_map]
    congr 1
  have hwfc : ∀ c ∈ cs, WfCap c := by
    intro c hc
    simp only [cs, List.mem_cons, List.mem_map] at hc
    rcases hc with rfl | ⟨f, _, rfl⟩
    · exact wfCap_examples.2.1 _ _ _ _
    · exact wfCap_examples.1 _ _ _ _
  have hape : ∀ e ∈ (sentBuilder asn ht id mps cf).addpath, WfApEntry e := by
    intro e he
    simp only [sentBuilder, List.mem_map] at he
    obtain ⟨f, hf, rfl⟩ := he
    exact ⟨(hcf f hf).1, (hcf f hf).2, by simp, by simp⟩
  have hw : WfBuilder (sentBuilder asn ht id mps cf) cs := ⟨hid, hht, hcaps, hwfc, hape⟩
  obtain ⟨hfin, hwo⟩ := open_builder_roundtrip_partial _ cs hw hb
  refine ⟨_, hfin, ?_, ?_⟩
  · have := (open_decode_encode _ _ hwo).2.2.2.2.2.2.2.2.2.2.1
    rw [this]
    simp [builderParams, builderCaps, allCaps, PSpec.capList, cs]
  · have := (open_decode_encode _ _ hwo).2.2.2.2.2.2.2.2.2.2.2.2.1
    rw [this]
    apply apLoop_ok_spec
    have hno : ∀ c ∈ cs, c.code.toNat ≠ 69 := by
      intro c hc
      simp only [cs, List.mem_cons, List.mem_map] at hc
      rcases hc with rfl | ⟨f, _, rfl⟩ <;> simp
    by_cases hemp : cf = []
    · subst hemp
      have : allCaps (builderParams (sentBuilder asn ht id mps []) cs) = cs ++ [] := by
        simp [builderParams, builderCaps, allCaps, PSpec.capList, sentBuilder, cs]
      rw [this, apSpec_skip cs hno]; rfl
    · have hne : ¬ (sentBuilder asn ht id mps cf).addpath.isEmpty := by
        simp [sentBuilder, hemp]
      have : allCaps (builderParams (sentBuilder asn ht id mps cf) cs) =
          cs ++ [⟨69, (sentBuilder asn ht id mps cf).addpath.flatMap encApEntry⟩] := by
        simp [builderParams, builderCaps, allCaps, PSpec.capList, hne, cs]
      rw [this, apSpec_skip cs hno]
      have hv := apValue_enc _ hape
      simp only [apSpec, show (69 : UInt8).toNat = 69 from rfl, if_true, hv]
      simp [sentBuilder, Dir.code]

/-- the harness's configuration (AS 65001, protocols 1/1 and 2/1) with two ADD-PATH families fits -/
example : Rc.Thm.C03.capBytes (sentBuilder 65001 90 [10, 0, 0, 1] [(1, 1), (2, 1)] [(1, 1), (2, 1)]) ≤ 253 := by
  decide

example : NoDupFam [((1, 1), .both), ((2, 1), .send), ((1, 2), .recv)] := by simp [NoDupFam, lookup]

end Rc.Thm.C12
