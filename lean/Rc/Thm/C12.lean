/-
C12 – the negotiated parse configuration matches the capabilities both sides
sent.  Property theorems only; all statements are about Rc/Model/Negotiate.lean.
-/
import Rc.Model.Negotiate

namespace Rc.Thm.C12
open Rc Rc.Negotiate

/-- an OPEN advertises "receive (or both)" / "send (or both)" for a family -/
def advRecv (d : Option Dir) : Prop := d = some .recv ∨ d = some .both
def advSend (d : Option Dir) : Prop := d = some .send ∨ d = some .both

instance (d : Option Dir) : Decidable (advRecv d) := by unfold advRecv; exact inferInstance
instance (d : Option Dir) : Decidable (advSend d) := by unfold advSend; exact inferInstance

/-- no family occurs twice in an ADD-PATH list -/
def NoDupFam : FamList → Prop
  | [] => True
  | (g, _) :: r => lookup r g = none ∧ NoDupFam r

def rxOf (d : Option Dir) : Bool := match d with | some .recv | some .both => true | _ => false
def txOf (d : Option Dir) : Bool := match d with | some .send | some .both => true | _ => false

/-- what negotiation yields for one family from the two advertised directions -/
def mergeOpt (a b : Option Dir) : Option Dir := a.bind fun x => b.bind (merge x)

/-! ## the per-family core: all 16 combinations of {absent, receive, send, both}² -/

/-- receive is enabled exactly when we advertise receive (or both) and the peer send (or both) -/
theorem core_rx (a b : Option Dir) : rxOf (mergeOpt a b) = true ↔ advRecv a ∧ advSend b := by
  rcases a with _ | a <;> rcases b with _ | b <;> (try cases a) <;> (try cases b) <;> decide

/-- sending symmetrically -/
theorem core_tx (a b : Option Dir) : txOf (mergeOpt a b) = true ↔ advSend a ∧ advRecv b := by
  rcases a with _ | a <;> rcases b with _ | b <;> (try cases a) <;> (try cases b) <;> decide

/-- swapping the two sides swaps send and receive -/
theorem core_swap (a b : Option Dir) : rxOf (mergeOpt a b) = txOf (mergeOpt b a) := by
  rcases a with _ | a <;> rcases b with _ | b <;> (try cases a) <;> (try cases b) <;> decide

/-! ## lists -/

private theorem get_addAll (c : Config) (l : FamList) (f : Fam) (h : NoDupFam l) :
    (c.addAll l).get f = match lookup l f with | some d => some d | none => c.get f := by
  induction l generalizing c with
  | nil => simp [Config.addAll, lookup]
  | cons e r ih =>
    obtain ⟨g, d⟩ := e
    obtain ⟨h1, h2⟩ := h
    simp only [Config.addAll, lookup]
    rw [ih _ h2]
    by_cases hg : g = f
    · subst hg; simp [h1, Config.insert, Config.get]
    · have hg' : ¬ f = g := fun e => hg e.symm
      simp [hg, hg', Config.insert, Config.get]

private theorem lookup_intersection (mine other : FamList) (f : Fam) (h : NoDupFam mine) :
    lookup (intersection mine other) f = mergeOpt (lookup mine f) (lookup other f) := by
  induction mine with
  | nil => simp [intersection, lookup, mergeOpt]
  | cons e r ih =>
    obtain ⟨g, d⟩ := e
    obtain ⟨h1, h2⟩ := h
    have ih' := ih h2
    unfold intersection
    by_cases hg : g = f
    · subst hg
      cases hm : (lookup other g).bind (merge d) with
      | some m => simp [lookup, mergeOpt, hm]
      | none => simp [lookup, mergeOpt, hm, ih', h1]
    · cases hm : (lookup other g).bind (merge d) with
      | some m => simp [lookup, hg, ih']
      | none => simp [lookup, hg, ih']

private theorem nodup_intersection (mine other : FamList) (h : NoDupFam mine) :
    NoDupFam (intersection mine other) := by
  induction mine with
  | nil => simp [intersection, NoDupFam]
  | cons e r ih =>
    obtain ⟨g, d⟩ := e
    obtain ⟨h1, h2⟩ := h
    unfold intersection
    cases hm : (lookup other g).bind (merge d) with
    | some m =>
      refine ⟨?_, ih h2⟩
      rw [lookup_intersection r other g h2, h1]; rfl
    | none => exact ih h2

private theorem get_helper (loc peer : OpenInfo) (f : Fam) (h : NoDupFam loc.ap) :
    (helper loc peer).get f = mergeOpt (lookup loc.ap f) (lookup peer.ap f) := by
  unfold helper
  rw [get_addAll _ _ _ (nodup_intersection _ _ h), lookup_intersection _ _ _ h]
  cases mergeOpt (lookup loc.ap f) (lookup peer.ap f) <;> simp [Config.new, Config.get]

/-- **rx_iff** – the configuration derived by the helper enables ADD-PATH
reception for a family exactly when the local OPEN advertised receive (or
both) and the peer's OPEN send (or both) for it.  (`lookup` is the first entry
for the family; the local list must not name a family twice – with duplicates
the later insert wins, see `first_match_rule`.) -/
theorem rx_iff (loc peer : OpenInfo) (f : Fam) (h : NoDupFam loc.ap) :
    (helper loc peer).rx f = true ↔ advRecv (lookup loc.ap f) ∧ advSend (lookup peer.ap f) := by
  have := core_rx (lookup loc.ap f) (lookup peer.ap f)
  rw [← this, ← get_helper loc peer f h]
  exact Iff.rfl

/-- **tx_iff** – and sending symmetrically -/
theorem tx_iff (loc peer : OpenInfo) (f : Fam) (h : NoDupFam loc.ap) :
    (helper loc peer).tx f = true ↔ advSend (lookup loc.ap f) ∧ advRecv (lookup peer.ap f) := by
  have := core_tx (lookup loc.ap f) (lookup peer.ap f)
  rw [← this, ← get_helper loc peer f h]
  exact Iff.rfl

/-- **swap** – swapping the two OPENs swaps send and receive, for every family -/
theorem swap (a b : OpenInfo) (f : Fam) (ha : NoDupFam a.ap) (hb : NoDupFam b.ap) :
    (helper a b).rx f = (helper b a).tx f := by
  have h1 : (helper a b).rx f = rxOf (mergeOpt (lookup a.ap f) (lookup b.ap f)) := by
    rw [← get_helper a b f ha]; rfl
  have h2 : (helper b a).tx f = txOf (mergeOpt (lookup b.ap f) (lookup a.ap f)) := by
    rw [← get_helper b a f hb]; rfl
  rw [h1, h2]; exact core_swap _ _

/-- With a family named twice in the peer's OPEN its *first* entry counts
(`Iterator::find`), whatever follows. -/
theorem first_match_rule (loc : OpenInfo) (pfour : Bool) (g : Fam) (d : Dir) (rest : FamList)
    (h : NoDupFam loc.ap) :
    (helper loc ⟨pfour, (g, d) :: rest⟩).get g = mergeOpt (lookup loc.ap g) (some d) := by
  rw [get_helper _ _ _ h]; simp [lookup]

private theorem four_addAll (c : Config) (l : FamList) : (c.addAll l).four = c.four := by
  induction l generalizing c with
  | nil => rfl
  | cons e r ih => obtain ⟨g, d⟩ := e; simp [Config.addAll, ih, Config.insert]

/-- **four_octet_iff** – four-octet AS decoding is enabled exactly when both
OPENs carry the capability (helper and BMP `session_config`); for
`pph_session_config` it is what the per-peer header's A flag dictates, and the
second component reports exactly a disagreement between the two. -/
theorem four_octet_iff (a b : OpenInfo) (legacy : Bool) :
    ((helper a b).four = true ↔ a.four = true ∧ b.four = true) ∧
    ((bmpConfig a b).four = true ↔ a.four = true ∧ b.four = true) ∧
    ((pphConfig a b legacy).1.four = true ↔ legacy = false) ∧
    ((pphConfig a b legacy).2 = true ↔ ¬ ((legacy = false) ↔ (a.four = true ∧ b.four = true))) := by
  simp only [helper, bmpConfig, pphConfig, four_addAll, Config.new]
  cases a.four <;> cases b.four <;> cases legacy <;> simp

/-! ## the three derivations agree -/

private theorem lookup_liveLocal (cf : List Fam) (f : Fam) :
    lookup (cf.map (·, Dir.both)) f = if cf.contains f then some .both else none := by
  induction cf with
  | nil => simp [lookup]
  | cons g r ih =>
    simp only [List.map_cons, lookup, ih]
    by_cases hg : g = f
    · subst hg; simp
    · have : ¬ f = g := fun e => hg e.symm
      simp [hg, this]

private theorem lookup_liveList (cf : List Fam) (l : FamList) (f : Fam) (h : NoDupFam l) :
    lookup (liveList cf l) f =
      if cf.contains f then mergeOpt (some .both) (lookup l f) else none := by
  induction l with
  | nil => simp [liveList, lookup, mergeOpt]
  | cons e r ih =>
    obtain ⟨g, d⟩ := e
    obtain ⟨h1, h2⟩ := h
    have ih' := ih h2
    unfold liveList
    by_cases hc : cf.contains g
    · have hc' : g ∈ cf := by simpa using hc
      simp only [hc, if_true]
      by_cases hg : g = f
      · subst hg
        cases hm : merge .both d with
        | some m => simp [lookup, mergeOpt, hm, hc']
        | none => simp [lookup, mergeOpt, hm, hc', ih', h1]
      · cases hm : merge .both d with
        | some m => simp [lookup, hg, ih']
        | none => simp [lookup, hg, ih']
    · have hc' : g ∉ cf := by simpa using hc
      simp only [hc]
      by_cases hg : g = f
      · subst hg; simp [ih', hc']
      · simp [lookup, hg, ih']

private theorem nodup_liveList (cf : List Fam) (l : FamList) (h : NoDupFam l) :
    NoDupFam (liveList cf l) := by
  induction l with
  | nil => simp [liveList, NoDupFam]
  | cons e r ih =>
    obtain ⟨g, d⟩ := e
    obtain ⟨h1, h2⟩ := h
    unfold liveList
    by_cases hc : cf.contains g
    · simp only [hc, if_true]
      cases hm : merge .both d with
      | some m =>
        refine ⟨?_, ih h2⟩
        rw [lookup_liveList cf r g h2, h1]; simp [mergeOpt]
      | none => exact ih h2
    · simp only [hc]; exact ih h2

/-- no configured family twice -/
def NoDupCfg (cf : List Fam) : Prop := NoDupFam (cf.map (·, Dir.both))

/-- **three_agree** – for the OPEN a live session sends (`liveLocal`: four-octet
capability, SendReceive for each configured family) and any peer OPEN without
duplicate families, the live session, the intersection helper and the BMP
PeerUp derivation produce the same configuration: the same direction for
every family and the same four-octet flag. -/
theorem three_agree (cf : List Fam) (peer : OpenInfo) (hc : NoDupCfg cf) (hp : NoDupFam peer.ap)
    (f : Fam) :
    (liveConfig cf peer).get f = (helper (liveLocal cf) peer).get f ∧
    (bmpConfig (liveLocal cf) peer).get f = (helper (liveLocal cf) peer).get f ∧
    (liveConfig cf peer).four = (helper (liveLocal cf) peer).four ∧
    (bmpConfig (liveLocal cf) peer).four = (helper (liveLocal cf) peer).four := by
  refine ⟨?_, rfl, ?_, rfl⟩
  · have hc' : NoDupFam (liveLocal cf).ap := hc
    rw [get_helper _ _ _ hc']
    unfold liveConfig
    rw [get_addAll _ _ _ (nodup_liveList cf peer.ap hp), lookup_liveList cf peer.ap f hp]
    simp only [liveLocal, lookup_liveLocal]
    by_cases hcf : cf.contains f
    · simp only [hcf, if_true]
      cases mergeOpt (some Dir.both) (lookup peer.ap f) <;> simp [Config.new, Config.get]
    · have hcf' : f ∉ cf := by simpa using hcf
      simp [hcf', mergeOpt, Config.new, Config.get]
  · simp [liveConfig, helper, four_addAll, Config.new, liveLocal]

/-- the live session's reception flag, spelled out: rx for a family iff it is
configured locally and the peer advertised send (or both) -/
theorem live_rx_iff (cf : List Fam) (peer : OpenInfo) (hc : NoDupCfg cf) (hp : NoDupFam peer.ap)
    (f : Fam) :
    (liveConfig cf peer).rx f = true ↔ cf.contains f = true ∧ advSend (lookup peer.ap f) := by
  have h1 : (liveConfig cf peer).rx f = (helper (liveLocal cf) peer).rx f := by
    unfold Config.rx; rw [(three_agree cf peer hc hp f).1]
  have hc' : NoDupFam (liveLocal cf).ap := hc
  rw [h1, rx_iff _ _ _ hc']
  simp only [liveLocal, lookup_liveLocal]
  by_cases hcf : f ∈ cf <;> simp [hcf, advRecv]

example : NoDupFam [((1, 1), .both), ((2, 1), .send), ((1, 2), .recv)] := by simp [NoDupFam, lookup]
example : NoDupCfg [(1, 1), (2, 1)] := by simp [NoDupCfg, NoDupFam, lookup]

end Rc.Thm.C12
