/-
C08 – the session FSM follows RFC 4271 section 8.2.2; UPDATEs reach the
application only when Established.

This file holds the specification (the RFC's transition table, transcribed
paragraph by paragraph, independent of the structure of the code) and the
property theorems about the model `Rc.Fsm` (Rc/Model/Fsm.lean).  The model is
tied to `src/bgp/fsm/session.rs` by the exhaustive correspondence run of
`./check C08`.
-/
import Rc.Model.Fsm
import Rc.Model.Timer

namespace Rc.Thm.C08
open Rc Rc.Fsm

/-! ## Specification: RFC 4271, sections 8.1 (events) and 8.2.2 (transitions) -/

/-- RFC 4271 section 8.1.2-8.1.5: the number of the event an implementation event is.
An OPEN "received with errors" is Event 22 (8.1.5); the errors the session can judge
are the peer AS (6.2, Bad Peer AS) and a capability that does not parse. -/
def rfcEvent : Kind → Nat
  | .manualStart => 1            -- Event 1: ManualStart
  | .manualStop => 2             -- Event 2: ManualStop
  | .automaticStart => 3         -- Event 3: AutomaticStart
  | .manualStartPassive => 4     -- Event 4: ManualStart_with_PassiveTcpEstablishment
  | .automaticStartPassive => 5  -- Event 5: AutomaticStart_with_PassiveTcpEstablishment
  | .connectRetryTimerExpires => 9   -- Event 9
  | .holdTimerExpires => 10          -- Event 10
  | .keepaliveTimerExpires => 11     -- Event 11
  | .delayOpenTimerExpires => 12     -- Event 12
  | .tcpCrAcked => 16                -- Event 16: Tcp_CR_Acked
  | .tcpConnectionConfirmed => 17    -- Event 17
  | .tcpConnectionFails => 18        -- Event 18
  | .bgpOpen asOk capsOk => if asOk && capsOk then 19 else 22        -- Event 19: BGPOpen / Event 22: BGPOpenMsgErr
  | .bgpHeaderErr => 21              -- Event 21
  | .bgpOpenMsgErr => 22             -- Event 22
  | .notifMsgVerErr => 24            -- Event 24
  | .notifMsg => 25                  -- Event 25
  | .keepaliveMsg => 26              -- Event 26: KeepAliveMsg
  | .updateMsg => 27                 -- Event 27
  | .updateMsgErr => 28              -- Event 28
  | .bgpOpenDelay asOk capsOk => if asOk && capsOk then 20 else 22   -- Event 20: BGPOpen with DelayOpenTimer running

/-- "The start events (Events 1, 3-7) are ignored in the … state." -/
def isStartEvent (n : Nat) : Bool := n == 1 || (3 ≤ n && n ≤ 7)

/-- RFC 4271 section 8.2.2, next state per (state, event number).  `delayOpen` is the
DelayOpen attribute, `dopRunning` "the DelayOpenTimer is running".  The function is total in
fact (it never returns `none`; the `Option` is kept for the callers): where the RFC mentions
connection collision detection (section 6.8: Event 19 in OpenConfirm / Established) the row is
fixed to the one next state the RFC names there, Idle. -/
def rfcTable (delayOpen dopRunning : Bool) : State → Nat → Option State
  /- Idle state: "In response to a ManualStart event (Event 1) or an AutomaticStart event
     (Event 3), the local system … changes its state to Connect."  "In response to a
     ManualStart_with_PassiveTcpEstablishment event (Event 4) or AutomaticStart_with_
     PassiveTcpEstablishment event (Event 5) … changes its state to Active."  "The
     ManualStop event (Event 2) and AutomaticStop (Event 8) event are ignored in the Idle
     state."  "Any other event (Events 9-12, 15-28) received in the Idle state does not
     cause change in the state of the local system." -/
  | .idle, n =>
    if n == 1 || n == 3 then some .connect
    else if n == 4 || n == 5 then some .active
    else some .idle
  /- Connect state -/
  | .connect, n =>
    if isStartEvent n then some .connect          -- "The start events (Events 1, 3-7) are ignored in the Connect state."
    else if n == 2 then some .idle                -- ManualStop: "… changes its state to Idle."
    else if n == 9 then some .connect             -- ConnectRetryTimer_Expires: "… stays in the Connect state."
    else if n == 12 then some .openSent           -- DelayOpenTimer_Expires: "sends an OPEN … changes its state to OpenSent."
    else if n == 14 || n == 15 then some .connect -- TcpConnection_Valid / Tcp_CR_Invalid: "stays in the Connect state."
    else if n == 16 || n == 17 then               -- Tcp_CR_Acked / TcpConnectionConfirmed:
      (if delayOpen then some .connect            --   DelayOpen TRUE: "stays in the Connect state."
       else some .openSent)                       --   DelayOpen FALSE: "changes its state to OpenSent."
    else if n == 18 then                          -- TcpConnectionFails:
      (if dopRunning then some .active            --   DelayOpenTimer running: "changes its state to Active."
       else some .idle)                           --   not running: "changes its state to Idle."
    else if n == 20 then some .openConfirm        -- OPEN with DelayOpenTimer running: "changes its state to OpenConfirm."
    else if n == 21 || n == 22 then some .idle    -- BGPHeaderErr / BGPOpenMsgErr: "changes its state to Idle."
    else if n == 24 then some .idle               -- NotifMsgVerErr: (both sub-cases) "changes its state to Idle."
    else some .idle                               -- "any other events (Events 8, 10-11, 13, 19, 23, 25-28) … changes its state to Idle."
  /- Active state -/
  | .active, n =>
    if isStartEvent n then some .active           -- "The start events (Events 1, 3-7) are ignored in the Active state."
    else if n == 2 then some .idle                -- ManualStop: "changes its state to Idle."
    else if n == 9 then some .connect             -- ConnectRetryTimer_Expires: "… changes its state to Connect."
    else if n == 12 then some .openSent           -- DelayOpenTimer_Expires: "changes its state to OpenSent."
    else if n == 14 || n == 15 then some .active  -- TcpConnection_Valid / Tcp_CR_Invalid: "stays in the Active state."
    else if n == 16 || n == 17 then               -- Tcp_CR_Acked / TcpConnectionConfirmed:
      (if delayOpen then some .active             --   "stays in the Active state."
       else some .openSent)                       --   "changes its state to OpenSent."
    else if n == 18 then some .idle               -- TcpConnectionFails: "changes its state to Idle."
    else if n == 20 then some .openConfirm        -- OPEN with DelayOpenTimer running: "changes its state to OpenConfirm."
    else if n == 21 || n == 22 then some .idle    -- "changes its state to Idle."
    else if n == 24 then some .idle               -- NotifMsgVerErr: "changes its state to Idle."
    else some .idle                               -- "any other event (Events 8, 10-11, 13, 19, 23, 25-28) … Idle."
  /- OpenSent state -/
  | .openSent, n =>
    if isStartEvent n then some .openSent         -- "The start events (Events 1, 3-7) are ignored in the OpenSent state."
    else if n == 2 || n == 8 then some .idle      -- ManualStop / AutomaticStop: "sends the NOTIFICATION with a Cease … Idle."
    else if n == 10 then some .idle               -- HoldTimer_Expires: "sends a NOTIFICATION message with the error code Hold Timer Expired … Idle."
    else if n == 14 || n == 16 || n == 17 then some .openSent  -- "a second TCP connection may be in progress … tracked"
    else if n == 15 then some .openSent           -- "A TCP Connection Request for an Invalid port (Tcp_CR_Invalid (Event 15)) is ignored."
    else if n == 18 then some .active             -- TcpConnectionFails: "changes its state to Active."
    else if n == 19 then some .openConfirm        -- BGPOpen: "sends a KEEPALIVE message … changes its state to OpenConfirm."
    else if n == 21 || n == 22 then some .idle    -- "sends a NOTIFICATION message with the appropriate error code … Idle."
    else if n == 23 then some .idle               -- OpenCollisionDump
    else if n == 24 then some .idle               -- NotifMsgVerErr
    else some .idle                               -- "any other event (Events 9, 11-13, 20, 25-28) … sends the NOTIFICATION with the Error Code Finite State Machine Error … Idle."
  /- OpenConfirm state -/
  | .openConfirm, n =>
    if isStartEvent n then some .openConfirm      -- "Any start event (Events 1, 3-7) is ignored in the OpenConfirm state."
    else if n == 2 || n == 8 then some .idle      -- ManualStop / AutomaticStop: "sends the NOTIFICATION message with a Cease … Idle."
    else if n == 10 then some .idle               -- HoldTimer_Expires: "sends the NOTIFICATION message with the Error Code Hold Timer Expired … Idle."
    else if n == 11 then some .openConfirm        -- KeepaliveTimer_Expires: "sends a KEEPALIVE … remains in the OpenConfirmed state."
    else if n == 14 || n == 16 || n == 17 then some .openConfirm -- "the local system needs to track the second connection."
    else if n == 15 then some .openConfirm        -- "… (Event 15) is ignored."
    else if n == 18 || n == 25 then some .idle    -- TcpConnectionFails or NOTIFICATION: "changes its state to Idle."
    else if n == 24 then some .idle               -- NotifMsgVerErr
    else if n == 19 then some .idle               -- BGPOpen: "the collision detect function is processed per Section 6.8 … If this connection is to be dropped … changes its state to Idle" – the only next state the RFC names for Event 19 here; the implementation tracks a single connection and always drops it
    else if n == 21 || n == 22 then some .idle    -- "sends a NOTIFICATION message with the appropriate error code … Idle."
    else if n == 23 then some .idle               -- OpenCollisionDump
    else if n == 26 then some .established        -- KeepAliveMsg: "restarts the HoldTimer and changes its state to Established."
    else some .idle                               -- "any other event (Events 9, 12-13, 20, 27-28) … sends a NOTIFICATION with a code of Finite State Machine Error … Idle."
  /- Established state -/
  | .established, n =>
    if isStartEvent n then some .established      -- "Any Start event (Events 1, 3-7) is ignored in the Established state."
    else if n == 2 || n == 8 then some .idle      -- ManualStop / AutomaticStop: "sends the NOTIFICATION message with a Cease … Idle."
    else if n == 10 then some .idle               -- HoldTimer_Expires: "sends a NOTIFICATION message with the Error Code Hold Timer Expired … Idle."
    else if n == 11 then some .established        -- KeepaliveTimer_Expires: "sends a KEEPALIVE message, and restarts its KeepaliveTimer"
    else if n == 14 || n == 15 then some .established  -- tracked / ignored
    else if n == 16 || n == 17 then some .established  -- "the second connection SHALL be tracked until it sends an OPEN message."
    else if n == 19 then some .idle               -- valid OPEN: collision detection (CollisionDetectEstablishedState, section 6.8); when the established connection is closed: Idle – the only next state the RFC names for Event 19 here
    else if n == 23 then some .idle               -- OpenCollisionDump
    else if n == 24 || n == 25 || n == 18 then some .idle -- NotifMsgVerErr / NotifMsg / TcpConnectionFails: "changes its state to Idle."
    else if n == 26 then some .established        -- KeepAliveMsg: "restarts its HoldTimer … remains in the Established state."
    else if n == 27 then some .established        -- UpdateMsg: "processes the message … remains in the Established state."
    else if n == 28 then some .idle               -- UpdateMsgErr: "sends a NOTIFICATION message with an Update error … Idle."
    else some .idle                               -- "any other event (Events 9, 12-13, 20-22) … sends a NOTIFICATION message with the Error Code Finite State Machine Error … Idle."

/-- The next state the RFC prescribes for an implementation state / event kind. -/
def rfcNext (st : State) (k : Kind) (c : Ctx) : Option State :=
  rfcTable c.delayOpen c.dopRunning st (rfcEvent k)

/-- The "any other event" lists of the three states that follow the sending of an OPEN:
the events the RFC answers with a Finite State Machine Error NOTIFICATION. -/
def rfcForbidden : State → Nat → Bool
  | .openSent, n => n == 9 || n == 11 || n == 12 || n == 13 || n == 20 || (25 ≤ n && n ≤ 28)   -- "(Events 9, 11-13, 20, 25-28)"
  | .openConfirm, n => n == 9 || n == 12 || n == 13 || n == 20 || n == 27 || n == 28           -- "(Events 9, 12-13, 20, 27-28)"
  | .established, n => n == 9 || n == 12 || n == 13 || (20 ≤ n && n ≤ 22)                      -- "(Events 9, 12-13, 20-22)"
  | _, _ => false

/-- NOTIFICATION subcode of a Finite State Machine Error per state (RFC 6608). -/
def fsmSubcode : State → Nat
  | .openSent => 1 | .openConfirm => 2 | .established => 3 | _ => 0

/-- The NOTIFICATION the RFC names in OpenSent / OpenConfirm / Established:
`(error code, required subcode if the property fixes one)`.
ManualStop → Cease (6); HoldTimer_Expires → Hold Timer Expired (4); a forbidden event →
Finite State Machine Error (5) with the state's subcode. -/
def rfcNotif (st : State) (k : Kind) : Option (Nat × Option Nat) :=
  match st with
  | .openSent | .openConfirm | .established =>
    if rfcEvent k == 2 then some (6, none)
    else if rfcEvent k == 10 then some (4, none)
    else if rfcForbidden st (rfcEvent k) then some (5, some (fsmSubcode st))
    else none
  | _ => none

/-- K5, the recorded deviation: (Active, ConnectRetryTimer_Expires) with a configuration
that is not an exact address stays Active ("this is not described in 4271",
session.rs:835); with an exact address the arm is `todo!()`. -/
def isK5 (c : Ctx) (st : State) (k : Kind) : Bool :=
  st == .active && k == .connectRetryTimerExpires && !c.isExact

/-! ## finite enumeration (core Lean has no `Fintype`) -/

def allStates : List State := [.idle, .connect, .active, .openSent, .openConfirm, .established]

def allKinds : List Kind :=
  [.manualStart, .manualStop, .automaticStart, .manualStartPassive, .automaticStartPassive,
   .connectRetryTimerExpires, .holdTimerExpires, .keepaliveTimerExpires, .delayOpenTimerExpires,
   .tcpCrAcked, .tcpConnectionConfirmed, .tcpConnectionFails,
   .bgpOpen false false, .bgpOpen false true, .bgpOpen true false, .bgpOpen true true,
   .bgpHeaderErr, .bgpOpenMsgErr, .notifMsgVerErr, .notifMsg, .keepaliveMsg, .updateMsg, .updateMsgErr,
   .bgpOpenDelay false false, .bgpOpenDelay false true, .bgpOpenDelay true false, .bgpOpenDelay true true]

def allBools : List Bool := [false, true]

def allCtxs : List Ctx :=
  allBools.flatMap fun a => allBools.flatMap fun b => allBools.flatMap fun c =>
  allBools.flatMap fun d => allBools.map fun e => ⟨a, b, c, d, e⟩

private theorem mem_allStates (s : State) : s ∈ allStates := by cases s <;> decide

private theorem mem_allKinds (k : Kind) : k ∈ allKinds := by
  cases k with
  | bgpOpen a b => cases a <;> cases b <;> decide
  | bgpOpenDelay a b => cases a <;> cases b <;> decide
  | _ => decide

private theorem mem_allCtxs (c : Ctx) : c ∈ allCtxs := by
  obtain ⟨a, b, c, d, e⟩ := c
  cases a <;> cases b <;> cases c <;> cases d <;> cases e <;> decide

/-- a boolean table over every (context, state, event kind) -/
def checkAll (p : Ctx → State → Kind → Bool) : Bool :=
  allCtxs.all fun c => allStates.all fun s => allKinds.all fun k => p c s k

private theorem checkAll_sound {p : Ctx → State → Kind → Bool} (h : checkAll p = true)
    (c : Ctx) (s : State) (k : Kind) : p c s k = true := by
  unfold checkAll at h
  rw [List.all_eq_true] at h
  have h1 := h c (mem_allCtxs c)
  rw [List.all_eq_true] at h1
  have h2 := h1 s (mem_allStates s)
  rw [List.all_eq_true] at h2
  exact h2 k (mem_allKinds k)

/-! ## what an action list does to the state, the connection and the PDUs sent -/

/-- the state after an arm: the last `set_state` -/
def finalState : State → List Act → State
  | st, [] => st
  | _, .setState s :: rest => finalState s rest
  | st, _ :: rest => finalState st rest

/-- the arm releases the connection (`disconnect` / `drop_connection`) -/
def drops : List Act → Bool
  | [] => false
  | .disconnect _ :: _ => true
  | .dropConn :: _ => true
  | _ :: rest => drops rest

/-- the NOTIFICATIONs an arm sends -/
def notifsOf : List Act → List (Nat × Nat)
  | [] => []
  | .disconnect r :: rest => r.notif :: notifsOf rest
  | _ :: rest => notifsOf rest

private theorem exec_state (cfg : Cfg) (o : OpenInfo) (s : St) (acts : List Act) :
    (exec cfg o s acts).1.state = finalState s.state acts := by
  induction acts generalizing s with
  | nil => rfl
  | cons a rest ih =>
    cases a <;> simp [exec, execAct, finalState, ih]

private theorem exec_conn (cfg : Cfg) (o : OpenInfo) (s : St) (acts : List Act) :
    (exec cfg o s acts).1.conn = (s.conn && !drops acts) := by
  induction acts generalizing s with
  | nil => simp [exec, drops]
  | cons a rest ih =>
    cases a <;> simp [exec, execAct, drops, ih]

private theorem exec_notifs (cfg : Cfg) (o : OpenInfo) (s : St) (acts : List Act) (p : Nat × Nat)
    (h : p ∈ notifsOf acts) : Out.pduNotification p.1 p.2 ∈ (exec cfg o s acts).2 := by
  induction acts generalizing s with
  | nil => simp [notifsOf] at h
  | cons a rest ih =>
    cases a <;> simp [exec, execAct, notifsOf] at h ⊢ <;> try (exact ih _ h)
    rcases h with h | h
    · left; subst h; simp
    · right; exact ih _ h

private theorem exec_no_appUpdate (cfg : Cfg) (o : OpenInfo) (s : St) (acts : List Act) (n : Nat) :
    Out.appUpdate n ∉ (exec cfg o s acts).2 := by
  induction acts generalizing s with
  | nil => simp [exec]
  | cons a rest ih =>
    cases a <;> simp [exec, execAct, ih]

/-! ## "the events the implementation handles" -/

/-- The `todo!()` arms of `handle_event`, written out. -/
def isTodoArm (c : Ctx) : State → Kind → Bool
  | .idle, .manualStart | .idle, .automaticStart => true
  | .connect, .connectRetryTimerExpires => true
  | .connect, .tcpConnectionFails => c.dopRunning
  | .connect, .bgpHeaderErr | .connect, .bgpOpenMsgErr => true
  | .active, .connectRetryTimerExpires => c.isExact
  | .active, .bgpHeaderErr | .active, .bgpOpenMsgErr => c.notifWithoutOpen
  | .openSent, .tcpCrAcked | .openSent, .tcpConnectionConfirmed => true
  | .openConfirm, .tcpCrAcked | .openConfirm, .tcpConnectionConfirmed => true
  | .established, .tcpCrAcked | .established, .tcpConnectionConfirmed => true
  | _, _ => false

/-- The one other way an arm does not complete: an acceptable OPEN processed while no
connection is attached (`self.connection.as_ref().unwrap()`); frames only arrive over a
connection, so no received message gets there. -/
def isPanicArm (c : Ctx) : State → Kind → Bool
  | .openSent, .bgpOpen true true => !c.conn
  | .active, .bgpOpenDelay true true => !c.conn
  | .connect, .bgpOpenDelay true true => !c.conn
  | _, _ => false

/-- The `todo!()` arms are exactly the listed ones. -/
theorem todo_arms (c : Ctx) (st : State) (k : Kind) : arm c st k = .todo ↔ isTodoArm c st k = true := by
  have h := checkAll_sound (p := fun c st k => decide (arm c st k = .todo) == isTodoArm c st k)
    (by decide +kernel) c st k
  simp only [beq_iff_eq] at h
  rw [← h]; simp

/-- The panicking arms are exactly the listed ones. -/
theorem panic_arms (c : Ctx) (st : State) (k : Kind) : arm c st k = .panic ↔ isPanicArm c st k = true := by
  have h := checkAll_sound (p := fun c st k => decide (arm c st k = .panic) == isPanicArm c st k)
    (by decide +kernel) c st k
  simp only [beq_iff_eq] at h
  rw [← h]; simp

/-- An input is handled in a state when its arm is neither `todo!()` nor the `unwrap`. -/
def handles (c : Ctx) (st : State) (k : Kind) : Bool := !isTodoArm c st k && !isPanicArm c st k

/-- Every handled (state, event) has an arm that runs to completion. -/
theorem handled_runs (c : Ctx) (st : State) (k : Kind) (h : handles c st k = true) :
    ∃ acts ok, arm c st k = .run acts ok := by
  cases ha : arm c st k with
  | todo => have := (todo_arms c st k).1 ha; simp [handles, this] at h
  | panic => have := (panic_arms c st k).1 ha; simp [handles, this] at h
  | run acts ok => exact ⟨acts, ok, rfl⟩

example : handles ⟨false, true, false, false, true⟩ .openSent (.bgpOpen true true) = true := by decide

/-! ## clause 1 + 2 on the transition table -/

/-- table form of clause 1: the arm's final state is the RFC's next state (K5 aside) -/
def armNextOk (c : Ctx) (st : State) (k : Kind) : Bool :=
  match arm c st k with
  | .run acts _ => isK5 c st k || rfcNext st k c == some (finalState st acts)
  | _ => true

/-- table form of clause 2: where the RFC names a NOTIFICATION the arm sends it and
releases the connection -/
def armNotifOk (c : Ctx) (st : State) (k : Kind) : Bool :=
  match arm c st k, rfcNotif st k with
  | .run acts _, some (code, sub) =>
    drops acts && (notifsOf acts).any fun p => p.1 == code && (match sub with | some sc => p.2 == sc | none => true)
  | _, _ => true

private theorem armNextOk_all : checkAll armNextOk = true := by decide +kernel
private theorem armNotifOk_all : checkAll armNotifOk = true := by decide +kernel

/-- the RFC's NOTIFICATION requirement on what a step emitted and on the connection -/
def NotifConforms (st : State) (k : Kind) (s' : St) (outs : List Out) : Prop :=
  ∀ code sub, rfcNotif st k = some (code, sub) →
    s'.conn = false ∧ ∃ sc, Out.pduNotification code sc ∈ outs ∧ (∀ x, sub = some x → sc = x)

/-- **Clause 2, one step, no exclusion**: in OpenSent / OpenConfirm / Established a
forbidden event, a hold-timer expiry or a manual stop emits the NOTIFICATION the RFC names
and releases the connection. -/
theorem step_notif_conforms (cfg : Cfg) (s : St) (e : Event) (s' : St) (ok : Bool) (outs : List Out)
    (h : step cfg s e = .next s' ok outs) : NotifConforms s.state (kindOf cfg e) s' outs := by
  unfold step at h
  have h2 := checkAll_sound armNotifOk_all (ctxOf cfg s) s.state (kindOf cfg e)
  unfold armNotifOk at h2
  cases ha : arm (ctxOf cfg s) s.state (kindOf cfg e) with
  | todo => simp [ha] at h
  | panic => simp [ha] at h
  | run acts okk =>
    simp only [ha] at h h2
    injection h with hs hok houts
    intro code sub hn
    rw [hn] at h2
    simp only [Bool.and_eq_true, List.any_eq_true] at h2
    obtain ⟨hd, p, hp, hpc⟩ := h2
    constructor
    · rw [← hs, exec_conn, hd]; simp
    · refine ⟨p.2, ?_, ?_⟩
      · have := exec_notifs cfg (openOf e) s acts p hp
        rw [houts] at this
        simp only [beq_iff_eq] at hpc
        rw [← hpc.1]; exact this
      · intro x hx
        subst hx
        simpa using hpc.2

/-- **Clause 1 and 2, one step** (`Session::handle_event`), for every configuration, every
session state (all timer flags, any retry counter, any negotiated configuration) and every
event (any OPEN contents): if the arm is handled, the next state is the one RFC 4271 8.2.2
prescribes, and in OpenSent / OpenConfirm / Established a forbidden event, a hold-timer
expiry or a manual stop emits the NOTIFICATION the RFC names (FSM error with the state's
subcode, Hold Timer Expired, Cease) and releases the connection.  `_partial`: the recorded
deviation K5 is excluded by hypothesis (see `step_conforms_fails`). -/
theorem step_conforms_partial (cfg : Cfg) (s : St) (e : Event) (s' : St) (ok : Bool) (outs : List Out)
    (h : step cfg s e = .next s' ok outs)
    (hk : isK5 (ctxOf cfg s) s.state (kindOf cfg e) = false) :
    rfcNext s.state (kindOf cfg e) (ctxOf cfg s) = some s'.state ∧
    NotifConforms s.state (kindOf cfg e) s' outs := by
  refine ⟨?_, step_notif_conforms cfg s e s' ok outs h⟩
  unfold step at h
  have h1 := checkAll_sound armNextOk_all (ctxOf cfg s) s.state (kindOf cfg e)
  unfold armNextOk at h1
  cases ha : arm (ctxOf cfg s) s.state (kindOf cfg e) with
  | todo => simp [ha] at h
  | panic => simp [ha] at h
  | run acts okk =>
    simp only [ha] at h h1
    injection h with hs hok houts
    rw [hk] at h1
    simp only [Bool.false_or, beq_iff_eq] at h1
    rw [h1, ← hs, exec_state]

example : isK5 (ctxOf ⟨false, true, true, true, [], 90, [65001]⟩ St.fresh) St.fresh.state
    (kindOf ⟨false, true, true, true, [], 90, [65001]⟩ .manualStop) = false := by decide

/-- The full statement of clause 1 (no exclusion). -/
def StepConformsStatement : Prop :=
  ∀ (cfg : Cfg) (s : St) (e : Event) (s' : St) (ok : Bool) (outs : List Out),
    step cfg s e = .next s' ok outs → rfcNext s.state (kindOf cfg e) (ctxOf cfg s) = some s'.state

/-- K5 witness: in Active, with a configuration that is not an exact address, an expiry of
the ConnectRetryTimer leaves the session Active where the RFC prescribes Connect. -/
theorem step_conforms_fails : ¬ StepConformsStatement := by
  intro h
  have := h ⟨false, true, true, false, [], 90, [65001]⟩ ⟨.active, true, false, false, false, 0, true, none⟩
    .connectRetryTimerExpires ⟨.active, true, false, false, false, 0, true, none⟩ true [] (by decide)
  revert this
  decide

/-- K5 is the only handled arm whose next state differs from the RFC's. -/
theorem k5_is_the_only_deviation (c : Ctx) (st : State) (k : Kind) (acts : List Act) (ok : Bool)
    (h : arm c st k = .run acts ok) (hne : rfcNext st k c ≠ some (finalState st acts)) :
    st = .active ∧ k = .connectRetryTimerExpires ∧ c.isExact = false := by
  have h1 := checkAll_sound armNextOk_all c st k
  unfold armNextOk at h1
  simp only [h, Bool.or_eq_true, beq_iff_eq] at h1
  rcases h1 with h1 | h1
  · simp only [isK5, Bool.and_eq_true, beq_iff_eq, Bool.not_eq_true'] at h1
    exact ⟨h1.1.1, h1.1.2, h1.2⟩
  · exact absurd h1 hne

/-! ## inputs: received messages and the public event functions -/

/-- The event `handle_msg` / `manual_start` / `connection_established` feeds to the FSM. -/
def eventOfInput (cfg : Cfg) (s : St) : Input → Option Event
  | .ev e => some e
  | .msgOpen o => some (openEvent s o)
  | .msgKeepalive => some .keepaliveMsg
  | .msgUpdate _ => some .updateMsg
  | .msgNotification code sub => some (notifEvent code sub)
  | .msgRouteRefresh => none
  | .apiStart => some (startEvent cfg)
  | .apiConn => some .tcpConnectionConfirmed
  | .attach => none

/-- Specification (RFC 4271 8.1.5, 8.1.2): the RFC event number a received message is.
OPEN → 19 (20 while the DelayOpenTimer runs) when acceptable, else 22; KEEPALIVE → 26;
UPDATE → 27; NOTIFICATION → 24 when it carries OPEN Message Error / Unsupported Version
Number, else 25; ROUTE-REFRESH is not an FSM event. -/
def rfcEventOfInput (cfg : Cfg) (s : St) : Input → Option Nat
  | .ev e => some (rfcEvent (kindOf cfg e))
  | .msgOpen o => some (if asAllowed cfg o && apOk o.ap then (if s.dop then 20 else 19) else 22)
  | .msgKeepalive => some 26
  | .msgUpdate _ => some 27
  | .msgNotification code sub => some (if code == 2 && sub == 1 then 24 else 25)
  | .msgRouteRefresh => none
  | .apiStart => some (if cfg.passive then 4 else 1)
  | .apiConn => some 17
  | .attach => none

/-- The RFC's next state for an input (a non-event leaves the state alone). -/
def rfcNextInput (cfg : Cfg) (s : St) (i : Input) : Option State :=
  match rfcEventOfInput cfg s i with
  | some n => rfcTable cfg.delayOpen s.dop s.state n
  | none => some s.state

/-- `handle_msg` raises the event the RFC defines for the message. -/
theorem handle_msg_raises_rfc_event (cfg : Cfg) (s : St) (i : Input) :
    rfcEventOfInput cfg s i = (eventOfInput cfg s i).map fun e => rfcEvent (kindOf cfg e) := by
  cases i with
  | msgOpen o =>
    simp only [rfcEventOfInput, eventOfInput, Option.map, openEvent]
    cases s.dop <;> simp [kindOf, rfcEvent]
  | msgNotification code sub =>
    simp only [rfcEventOfInput, eventOfInput, Option.map, notifEvent]
    cases (code == 2 && sub == 1) <;> simp [kindOf, rfcEvent]
  | apiStart =>
    simp only [rfcEventOfInput, eventOfInput, Option.map, startEvent]
    cases cfg.passive <;> simp [kindOf, rfcEvent]
  | _ => simp [rfcEventOfInput, eventOfInput, kindOf, rfcEvent]

/-- the state component of `handleInput` is that of `step` on the raised event -/
private theorem handleInput_step (cfg : Cfg) (s s' : St) (i : Input) (ok : Bool) (outs : List Out)
    (h : handleInput cfg s i = .next s' ok outs) :
    (∃ e ok' outs', eventOfInput cfg s i = some e ∧ step cfg s e = .next s' ok' outs' ∧
        ∀ x ∈ outs', x ∈ outs) ∨
    (eventOfInput cfg s i = none ∧ s'.state = s.state) := by
  cases i with
  | ev e => exact .inl ⟨e, ok, outs, rfl, h, fun _ hx => hx⟩
  | msgOpen o => exact .inl ⟨_, ok, outs, rfl, h, fun _ hx => hx⟩
  | msgKeepalive => exact .inl ⟨_, ok, outs, rfl, h, fun _ hx => hx⟩
  | msgUpdate n =>
    left
    simp only [handleInput] at h
    cases hs : step cfg s .updateMsg with
    | todo => simp [hs] at h
    | panic => simp [hs] at h
    | next s2 ok2 outs2 =>
      cases ok2 <;> simp [hs] at h
      · exact ⟨_, _, _, rfl, by rw [hs, h.1], fun x hx => by rw [← h.2.2]; exact hx⟩
      · exact ⟨_, _, _, rfl, by rw [hs, h.1], fun x hx => by rw [← h.2.2]; simp [hx]⟩
  | msgNotification code sub =>
    left
    simp only [handleInput] at h
    cases hs : step cfg s (notifEvent code sub) with
    | todo => simp [hs] at h
    | panic => simp [hs] at h
    | next s2 ok2 outs2 =>
      simp [hs] at h
      exact ⟨_, _, _, rfl, by rw [hs, h.1], fun x hx => by rw [← h.2.2]; simp [hx]⟩
  | msgRouteRefresh =>
    right
    simp only [handleInput] at h
    injection h with h1
    exact ⟨rfl, by rw [← h1]⟩
  | attach =>
    right
    simp only [handleInput] at h
    injection h with h1
    exact ⟨rfl, by rw [← h1]⟩
  | apiStart =>
    left
    simp only [handleInput] at h
    cases hs : step cfg s (startEvent cfg) with
    | todo => simp [hs] at h
    | panic => simp [hs] at h
    | next s2 ok2 outs2 =>
      simp [hs] at h
      exact ⟨_, _, _, rfl, by rw [hs, h.1], fun x hx => by rw [← h.2.2]; exact hx⟩
  | apiConn =>
    left
    simp only [handleInput] at h
    cases hs : step cfg s .tcpConnectionConfirmed with
    | todo => simp [hs] at h
    | panic => simp [hs] at h
    | next s2 ok2 outs2 =>
      simp [hs] at h
      exact ⟨_, _, _, rfl, by rw [hs, h.1], fun x hx => by rw [← h.2.2]; exact hx⟩

/-- K5 on inputs. -/
def isK5Input (cfg : Cfg) (s : St) (i : Input) : Bool :=
  match eventOfInput cfg s i with
  | some e => isK5 (ctxOf cfg s) s.state (kindOf cfg e)
  | none => false

/-- **Clause 1 for every kind of input** (injected event, received OPEN / KEEPALIVE /
UPDATE / NOTIFICATION / ROUTE-REFRESH, `manual_start`, `connection_established`). -/
theorem input_conforms_partial (cfg : Cfg) (s s' : St) (i : Input) (ok : Bool) (outs : List Out)
    (h : handleInput cfg s i = .next s' ok outs) (hk : isK5Input cfg s i = false) :
    rfcNextInput cfg s i = some s'.state := by
  have hev := handle_msg_raises_rfc_event cfg s i
  rcases handleInput_step cfg s s' i ok outs h with ⟨e, ok', outs', he, hs, _⟩ | ⟨he, hs⟩
  · have hk' : isK5 (ctxOf cfg s) s.state (kindOf cfg e) = false := by
      simpa [isK5Input, he] using hk
    have := (step_conforms_partial cfg s e s' ok' outs' hs hk').1
    simp only [rfcNextInput, hev, he, Option.map]
    simpa [rfcNext, ctxOf] using this
  · simp [rfcNextInput, hev, he, hs]

/-- **Clause 2 for every kind of input**: a forbidden *message* (e.g. an UPDATE received in
OpenSent), a hold-timer expiry or a manual stop in OpenSent / OpenConfirm / Established
emits the NOTIFICATION the RFC names and releases the connection. -/
theorem input_notif_conforms (cfg : Cfg) (s s' : St) (i : Input) (ok : Bool) (outs : List Out)
    (h : handleInput cfg s i = .next s' ok outs) (e : Event) (he : eventOfInput cfg s i = some e) :
    NotifConforms s.state (kindOf cfg e) s' outs := by
  rcases handleInput_step cfg s s' i ok outs h with ⟨e', ok', outs', he', hs, hsub⟩ | ⟨he', _⟩
  · rw [he] at he'
    injection he' with he'
    subst he'
    intro code sub hn
    obtain ⟨hc, sc, hm, hx⟩ := step_notif_conforms cfg s e s' ok' outs' hs code sub hn
    exact ⟨hc, sc, hsub _ hm, hx⟩
  · rw [he] at he'; cases he'

/-! ## histories -/

/-- the transitions of a history: (state before, input, state after); the history ends at
the first input that is not handled -/
def transitions (cfg : Cfg) : St → List Input → List (St × Input × St)
  | _, [] => []
  | s, i :: rest =>
    match handleInput cfg s i with
    | .next s' _ _ => (s, i, s') :: transitions cfg s' rest
    | _ => []

/-- no input of the history hits a `todo!()` arm (or the `unwrap`) -/
def allHandled (cfg : Cfg) : St → List Input → Bool
  | _, [] => true
  | s, i :: rest =>
    match handleInput cfg s i with
    | .next s' _ _ => allHandled cfg s' rest
    | _ => false

/-- under `allHandled` the transitions cover the whole history -/
theorem allHandled_covers (cfg : Cfg) (s : St) (ins : List Input) (h : allHandled cfg s ins = true) :
    (transitions cfg s ins).length = ins.length := by
  induction ins generalizing s with
  | nil => rfl
  | cons i rest ih =>
    unfold allHandled at h
    unfold transitions
    cases hi : handleInput cfg s i with
    | todo => simp [hi] at h
    | panic => simp [hi] at h
    | next s' ok outs =>
      simp only [hi] at h ⊢
      simp [ih s' h]

/-- what the driver prints (`runHist`) and what the theorems speak about (`transitions`)
are the same run: the states after each handled step coincide -/
theorem runHist_transitions (cfg : Cfg) (s : St) (ins : List Input) :
    (runHist cfg s ins).filterMap (fun r => match r with | .next s' _ _ => some s' | _ => none)
      = (transitions cfg s ins).map (fun t => t.2.2) := by
  induction ins generalizing s with
  | nil => rfl
  | cons i rest ih =>
    unfold runHist transitions
    cases hi : handleInput cfg s i with
    | todo => simp
    | panic => simp
    | next s' ok outs => simp [ih s']

/-- **Clause 1 for every history** (any length, any inputs, from any session state): every
transition of the history goes to the state RFC 4271 8.2.2 prescribes – by induction over
the history, no depth bound.  `_partial`: transitions that are the recorded deviation K5
are excluded. -/
theorem trace_conforms_partial (cfg : Cfg) (s : St) (ins : List Input) :
    ∀ t ∈ transitions cfg s ins, isK5Input cfg t.1 t.2.1 = false →
      rfcNextInput cfg t.1 t.2.1 = some t.2.2.state := by
  induction ins generalizing s with
  | nil => intro t ht; simp [transitions] at ht
  | cons i rest ih =>
    intro t ht hk
    unfold transitions at ht
    cases hi : handleInput cfg s i with
    | todo => simp [hi] at ht
    | panic => simp [hi] at ht
    | next s' ok outs =>
      simp only [hi, List.mem_cons] at ht
      rcases ht with ht | ht
      · subst ht
        exact input_conforms_partial cfg s s' i ok outs hi hk
      · exact ih s' t ht hk

example : allHandled ⟨false, true, true, false, [4], 90, [65001]⟩ St.fresh
    [.apiStart, .apiConn, .msgOpen ⟨65001, 30, [(4, 3)]⟩, .msgKeepalive, .msgUpdate 2,
     .ev .keepaliveTimerExpires, .msgNotification 6 2] = true := by decide

/-! ## clause 3: Established only after an accepted OPEN from an allowed AS, then a KEEPALIVE -/

/-- the input is an OPEN (injected or received) from an AS the configuration allows -/
def isOpenFromAllowed (cfg : Cfg) : Input → Bool
  | .ev (.bgpOpen o) | .ev (.bgpOpenDelay o) | .msgOpen o => asAllowed cfg o
  | _ => false

/-- the input is a KEEPALIVE (injected or received) -/
def isKeepaliveInput : Input → Bool
  | .ev .keepaliveMsg | .msgKeepalive => true
  | _ => false

private def kindIsAllowedOpen : Kind → Bool
  | .bgpOpen a _ | .bgpOpenDelay a _ => a
  | _ => false

private theorem allowedOpen_input (cfg : Cfg) (s : St) (i : Input) (e : Event)
    (he : eventOfInput cfg s i = some e) (hk : kindIsAllowedOpen (kindOf cfg e) = true) :
    isOpenFromAllowed cfg i = true := by
  cases i with
  | ev e0 =>
    simp only [eventOfInput, Option.some.injEq] at he; subst he
    cases e0 <;> simp_all [kindOf, kindIsAllowedOpen, isOpenFromAllowed]
  | msgOpen o =>
    simp only [eventOfInput, Option.some.injEq, openEvent] at he; subst he
    cases hd : s.dop <;> simp_all [kindOf, kindIsAllowedOpen, isOpenFromAllowed]
  | msgKeepalive => simp only [eventOfInput, Option.some.injEq] at he; subst he; simp [kindOf, kindIsAllowedOpen] at hk
  | msgUpdate n => simp only [eventOfInput, Option.some.injEq] at he; subst he; simp [kindOf, kindIsAllowedOpen] at hk
  | msgNotification c sc =>
    simp only [eventOfInput, Option.some.injEq, notifEvent] at he; subst he
    cases hc : (c == 2 && sc == 1) <;> simp [hc, kindOf, kindIsAllowedOpen] at hk
  | msgRouteRefresh => simp [eventOfInput] at he
  | attach => simp [eventOfInput] at he
  | apiStart =>
    simp only [eventOfInput, Option.some.injEq, startEvent] at he; subst he
    cases hc : cfg.passive <;> simp [hc, kindOf, kindIsAllowedOpen] at hk
  | apiConn => simp only [eventOfInput, Option.some.injEq] at he; subst he; simp [kindOf, kindIsAllowedOpen] at hk

private theorem keepalive_input (cfg : Cfg) (s : St) (i : Input) (e : Event)
    (he : eventOfInput cfg s i = some e) (hk : kindOf cfg e = .keepaliveMsg) :
    isKeepaliveInput i = true := by
  cases i with
  | ev e0 =>
    simp only [eventOfInput, Option.some.injEq] at he; subst he
    cases e0 <;> simp_all [kindOf, isKeepaliveInput]
  | msgOpen o =>
    simp only [eventOfInput, Option.some.injEq, openEvent] at he; subst he
    cases hd : s.dop <;> simp [hd, kindOf] at hk
  | msgKeepalive => rfl
  | msgUpdate n => simp only [eventOfInput, Option.some.injEq] at he; subst he; simp [kindOf] at hk
  | msgNotification c sc =>
    simp only [eventOfInput, Option.some.injEq, notifEvent] at he; subst he
    cases hc : (c == 2 && sc == 1) <;> simp [hc, kindOf] at hk
  | msgRouteRefresh => simp [eventOfInput] at he
  | attach => simp [eventOfInput] at he
  | apiStart =>
    simp only [eventOfInput, Option.some.injEq, startEvent] at he; subst he
    cases hc : cfg.passive <;> simp [hc, kindOf] at hk
  | apiConn => simp only [eventOfInput, Option.some.injEq] at he; subst he; simp [kindOf] at hk

private def armEntersOk (c : Ctx) (st : State) (k : Kind) : Bool :=
  match arm c st k with
  | .run acts _ =>
    (finalState st acts != .openConfirm || st == .openConfirm || kindIsAllowedOpen k) &&
    (finalState st acts != .established || st == .established || (st == .openConfirm && k == .keepaliveMsg))
  | _ => true

private theorem armEntersOk_all : checkAll armEntersOk = true := by decide +kernel

/-- **OpenConfirm is entered only by an OPEN from an allowed AS** (one step). -/
theorem openConfirm_entered_by_allowed_open (cfg : Cfg) (s s' : St) (i : Input) (ok : Bool) (outs : List Out)
    (h : handleInput cfg s i = .next s' ok outs) (h' : s'.state = .openConfirm) (hs : s.state ≠ .openConfirm) :
    isOpenFromAllowed cfg i = true := by
  rcases handleInput_step cfg s s' i ok outs h with ⟨e, ok', outs', he, hst, _⟩ | ⟨_, hst⟩
  · have ht := checkAll_sound armEntersOk_all (ctxOf cfg s) s.state (kindOf cfg e)
    unfold armEntersOk at ht
    unfold step at hst
    cases ha : arm (ctxOf cfg s) s.state (kindOf cfg e) with
    | todo => simp [ha] at hst
    | panic => simp [ha] at hst
    | run acts okk =>
      simp only [ha] at hst ht
      injection hst with h1
      have hf : finalState s.state acts = .openConfirm := by rw [← exec_state cfg (openOf e) s acts, h1, h']
      simp only [hf, bne_self_eq_false, Bool.false_or, Bool.and_eq_true, Bool.or_eq_true, beq_iff_eq] at ht
      have hko : kindIsAllowedOpen (kindOf cfg e) = true := by
        rcases ht.1 with h2 | h2
        · exact absurd h2 hs
        · exact h2
      exact allowedOpen_input cfg s i e he hko
  · rw [hst] at h'; exact absurd h' hs

/-- **Established is entered only from OpenConfirm, by a KEEPALIVE** (one step). -/
theorem established_entered_by_keepalive (cfg : Cfg) (s s' : St) (i : Input) (ok : Bool) (outs : List Out)
    (h : handleInput cfg s i = .next s' ok outs) (h' : s'.state = .established) (hs : s.state ≠ .established) :
    s.state = .openConfirm ∧ isKeepaliveInput i = true := by
  rcases handleInput_step cfg s s' i ok outs h with ⟨e, ok', outs', he, hst, _⟩ | ⟨_, hst⟩
  · have ht := checkAll_sound armEntersOk_all (ctxOf cfg s) s.state (kindOf cfg e)
    unfold armEntersOk at ht
    unfold step at hst
    cases ha : arm (ctxOf cfg s) s.state (kindOf cfg e) with
    | todo => simp [ha] at hst
    | panic => simp [ha] at hst
    | run acts okk =>
      simp only [ha] at hst ht
      injection hst with h1
      have hf : finalState s.state acts = .established := by rw [← exec_state cfg (openOf e) s acts, h1, h']
      simp only [hf, bne_self_eq_false, Bool.false_or, Bool.and_eq_true, Bool.or_eq_true, beq_iff_eq] at ht
      have hk : s.state = .openConfirm ∧ kindOf cfg e = .keepaliveMsg := by
        rcases ht.2 with h2 | h2
        · exact absurd h2 hs
        · exact h2
      refine ⟨hk.1, ?_⟩
      have hk2 := hk.2
      exact keepalive_input cfg s i e he hk2
  · rw [hst] at h'; exact absurd h' hs

/-- Ghost history of a session: what has been seen since the session was last outside
OpenConfirm / Established. -/
structure Ghost where
  /-- the current OpenConfirm/Established episode began with an OPEN from an allowed AS -/
  openAccepted : Bool
  /-- … and Established was then entered from OpenConfirm by a KEEPALIVE -/
  keepaliveAfter : Bool
  deriving DecidableEq, Repr

/-- update of the ghost history by one transition; it looks only at the input and at the
states before and after -/
def ghostStep (cfg : Cfg) (g : Ghost) (before : State) (i : Input) (after : State) : Ghost :=
  if after = .openConfirm then
    (if before = .openConfirm then g else ⟨isOpenFromAllowed cfg i, false⟩)
  else if after = .established then
    (if before = .established then g
     else ⟨g.openAccepted && before == .openConfirm, isKeepaliveInput i && before == .openConfirm⟩)
  else ⟨false, false⟩

/-- the ghost history along a history of inputs -/
def ghostRun (cfg : Cfg) : St → Ghost → List Input → St × Ghost
  | s, g, [] => (s, g)
  | s, g, i :: rest =>
    match handleInput cfg s i with
    | .next s' _ _ => ghostRun cfg s' (ghostStep cfg g s.state i s'.state) rest
    | _ => (s, g)

private def GhostInv (s : St) (g : Ghost) : Prop :=
  (s.state = .openConfirm → g.openAccepted = true) ∧
  (s.state = .established → g.openAccepted = true ∧ g.keepaliveAfter = true)

private theorem ghostInv_step (cfg : Cfg) (s s' : St) (g : Ghost) (i : Input) (ok : Bool) (outs : List Out)
    (h : handleInput cfg s i = .next s' ok outs) (hinv : GhostInv s g) :
    GhostInv s' (ghostStep cfg g s.state i s'.state) := by
  unfold ghostStep
  by_cases h1 : s'.state = .openConfirm
  · simp only [h1, if_true]
    by_cases h2 : s.state = .openConfirm
    · simp only [h2, if_true]
      exact ⟨fun _ => hinv.1 h2, fun hc => by simp [h1] at hc⟩
    · simp only [h2, if_false]
      have := openConfirm_entered_by_allowed_open cfg s s' i ok outs h h1 h2
      exact ⟨fun _ => this, fun hc => by simp [h1] at hc⟩
  · simp only [h1, if_false]
    by_cases h3 : s'.state = .established
    · simp only [h3, if_true]
      by_cases h4 : s.state = .established
      · simp only [h4, if_true]
        exact ⟨fun hc => by simp [h3] at hc, fun _ => hinv.2 h4⟩
      · simp only [h4, if_false]
        have := established_entered_by_keepalive cfg s s' i ok outs h h3 h4
        refine ⟨fun hc => by simp [h3] at hc, fun _ => ?_⟩
        simp [this.1, this.2, hinv.1 this.1]
    · simp only [h3, if_false]
      exact ⟨fun hc => absurd hc h1, fun hc => absurd hc h3⟩

/-- **Clause 3**: for every history (any length) started outside OpenConfirm / Established,
whenever the session is Established its ghost history says: an OPEN from an allowed AS was
accepted (it took the session into OpenConfirm), the session stayed in OpenConfirm, and a
KEEPALIVE then took it to Established.  Invariant by induction over the history. -/
theorem established_only_after_open_keepalive (cfg : Cfg) (s0 : St) (ins : List Input)
    (h0 : s0.state ≠ .openConfirm ∧ s0.state ≠ .established) :
    let r := ghostRun cfg s0 ⟨false, false⟩ ins
    r.1.state = .established → r.2.openAccepted = true ∧ r.2.keepaliveAfter = true := by
  have key : ∀ (ins : List Input) (s : St) (g : Ghost), GhostInv s g →
      GhostInv (ghostRun cfg s g ins).1 (ghostRun cfg s g ins).2 := by
    intro ins
    induction ins with
    | nil => intro s g hi; exact hi
    | cons i rest ih =>
      intro s g hi
      unfold ghostRun
      cases hh : handleInput cfg s i with
      | todo => exact hi
      | panic => exact hi
      | next s' ok outs => exact ih s' _ (ghostInv_step cfg s s' g i ok outs hh hi)
  have hinv0 : GhostInv s0 ⟨false, false⟩ := ⟨fun h => absurd h h0.1, fun h => absurd h h0.2⟩
  intro r
  exact (key ins s0 _ hinv0).2

example : (ghostRun ⟨false, true, true, false, [], 90, [65001]⟩ St.fresh ⟨false, false⟩
    [.apiStart, .apiConn, .msgOpen ⟨65001, 30, []⟩, .msgKeepalive]).1.state = .established := by decide

/-! ## clause 4: an UPDATE reaches the application iff Established -/

/-- **Clause 4**: a received UPDATE is handed to the application if and only if the session
is Established when it is processed (and it is that UPDATE). -/
theorem update_to_app_iff_established (cfg : Cfg) (s s' : St) (n : Nat) (ok : Bool) (outs : List Out)
    (h : handleInput cfg s (.msgUpdate n) = .next s' ok outs) :
    (Out.appUpdate n ∈ outs ↔ s.state = .established) ∧ (∀ m, Out.appUpdate m ∈ outs → m = n) := by
  simp only [handleInput] at h
  unfold step at h
  cases ha : arm (ctxOf cfg s) s.state (kindOf cfg .updateMsg) with
  | todo => simp [ha] at h
  | panic => simp [ha] at h
  | run acts okk =>
    have hno := exec_no_appUpdate cfg (openOf .updateMsg) s acts
    cases okk <;> simp only [ha] at h
    · -- `handle_event(UpdateMsg)` never returns `Err`
      exfalso
      have := checkAll_sound (p := fun c st k => match arm c st k with
        | .run _ false => k != .updateMsg | _ => true) (by decide +kernel)
        (ctxOf cfg s) s.state (kindOf cfg .updateMsg)
      rw [ha] at this
      simp [kindOf] at this
    · injection h with _ _ h3
      rw [← h3]
      by_cases he : s.state = .established
      · simp [he, hno]
      · simp [he, hno]

/-- No other input hands an UPDATE to the application. -/
theorem no_update_without_update (cfg : Cfg) (s s' : St) (i : Input) (ok : Bool) (outs : List Out)
    (h : handleInput cfg s i = .next s' ok outs) (hi : ∀ n, i ≠ .msgUpdate n) :
    ∀ m, Out.appUpdate m ∉ outs := by
  have stepNo : ∀ e s2 ok2 outs2, step cfg s e = .next s2 ok2 outs2 → ∀ m, Out.appUpdate m ∉ outs2 := by
    intro e s2 ok2 outs2 hs m
    unfold step at hs
    cases ha : arm (ctxOf cfg s) s.state (kindOf cfg e) with
    | todo => simp [ha] at hs
    | panic => simp [ha] at hs
    | run acts okk =>
      simp only [ha] at hs
      injection hs with _ _ h3
      rw [← h3]; exact exec_no_appUpdate cfg (openOf e) s acts m
  intro m
  cases i with
  | ev e => exact stepNo e s' ok outs h m
  | msgOpen o => exact stepNo _ s' ok outs h m
  | msgKeepalive => exact stepNo _ s' ok outs h m
  | msgUpdate n => exact absurd rfl (hi n)
  | msgNotification code sub =>
    simp only [handleInput] at h
    cases hs : step cfg s (notifEvent code sub) with
    | todo => simp [hs] at h
    | panic => simp [hs] at h
    | next s2 ok2 outs2 =>
      simp [hs] at h
      rw [← h.2.2]
      simp [stepNo _ s2 ok2 outs2 hs m]
  | msgRouteRefresh =>
    simp only [handleInput] at h
    injection h with _ _ h3
    rw [← h3]; simp
  | attach =>
    simp only [handleInput] at h
    injection h with _ _ h3
    rw [← h3]; simp
  | apiStart =>
    simp only [handleInput] at h
    cases hs : step cfg s (startEvent cfg) with
    | todo => simp [hs] at h
    | panic => simp [hs] at h
    | next s2 ok2 outs2 =>
      simp [hs] at h
      rw [← h.2.2]; exact stepNo _ s2 ok2 outs2 hs m
  | apiConn =>
    simp only [handleInput] at h
    cases hs : step cfg s .tcpConnectionConfirmed with
    | todo => simp [hs] at h
    | panic => simp [hs] at h
    | next s2 ok2 outs2 =>
      simp [hs] at h
      rw [← h.2.2]; exact stepNo _ s2 ok2 outs2 hs m

/-! ## `Session::tick`: frames read from the socket, connection loss (partial) -/

/-- The RFC's next state for what `tick` processes: a frame is its message's event; the
peer closing the connection is TcpConnectionFails (Event 18). -/
def rfcNextTick (cfg : Cfg) (s : St) : TickInput → Option State
  | .frame m => rfcNextInput cfg s m
  | .direct i => rfcNextInput cfg s i
  | .closed => rfcTable cfg.delayOpen s.dop s.state 18
  | .readErr => rfcTable cfg.delayOpen s.dop s.state 21        -- a malformed frame is BGPHeaderErr (Event 21); a close
                                                               -- in mid-frame (Event 18) has the same RFC next state except from OpenSent;
                                                               -- both are K8 and excluded from `tick_conforms_partial`
  | .cmdDisconnect => rfcTable cfg.delayOpen s.dop s.state 2   -- a stop command is ManualStop (Event 2)
  | .cmdKeepalive => some s.state                              -- no FSM event
  | .cmdDisconnectWith _ => rfcTable cfg.delayOpen s.dop s.state 2   -- a stop command, whatever reason it names

/-- K8, the recorded deviation of `tick` itself: it sets `State::Connect` when `handle_msg`
returned `Err`, when the connection was closed and when `read_frame` failed (malformed frame, peer
closing in the middle of a frame: no BgpHeaderErr / TcpConnectionFails event is raised, no
NOTIFICATION sent) (session.rs:284-322). -/
def isK8 (t : TickInput) (ok : Bool) : Bool :=
  match t with
  | .closed => true
  | .readErr => true
  | .frame _ => !ok
  | _ => false

def inputOfTick : TickInput → Option Input
  | .frame m => some m
  | .direct i => some i
  | _ => none

/-- The full statement for `tick` (no exclusion). -/
def TickConformsStatement : Prop :=
  ∀ (cfg : Cfg) (s : St) (t : TickInput) (s' : St) (ok : Bool) (outs : List Out),
    tickStep cfg s t = .res (.next s' ok outs) → rfcNextTick cfg s t = some s'.state

/-- K8 witness: an OPEN from a foreign AS read by `tick` in OpenSent ends in Connect; the
RFC prescribes Idle (and the arm of `handle_event` had gone there). -/
theorem tick_conforms_fails : ¬ TickConformsStatement := by
  intro h
  have := h ⟨false, true, true, true, [], 90, [65001]⟩ ⟨.openSent, true, false, false, false, 0, true, none⟩
    (.frame (.msgOpen ⟨65002, 90, []⟩))
    ⟨.connect, false, false, false, false, 0, false, none⟩ false [.pduNotification 2 2] (by decide)
  revert this
  decide

/-- **Clause 1 through `tick`**: a frame that `handle_msg` processed with `Ok` leaves the
session in the state the RFC prescribes.  `_partial`: K8 (and K5) excluded by hypothesis;
the `select!` between frames, commands and timers is not modelled. -/
theorem tick_conforms_partial (cfg : Cfg) (s s' : St) (t : TickInput) (ok : Bool) (outs : List Out)
    (h : tickStep cfg s t = .res (.next s' ok outs)) (hk8 : isK8 t ok = false)
    (hk5 : ∀ i, inputOfTick t = some i → isK5Input cfg s i = false) :
    rfcNextTick cfg s t = some s'.state := by
  cases t with
  | closed => simp [isK8] at hk8
  | readErr => simp [isK8] at hk8
  | cmdKeepalive =>
    simp only [tickStep] at h
    injection h with h
    injection h with h1
    simp [rfcNextTick, ← h1]
  | cmdDisconnect =>
    -- ManualStop leads to Idle from every state, and so does the command
    simp only [tickStep] at h
    injection h with h
    injection h with h1
    rw [← h1, exec_state]
    simp only [rfcNextTick, cmdDisconnectActs, finalState]
    cases s.state <;> rfl
  | cmdDisconnectWith r =>
    -- the same tail after `disconnect(reason)`: Idle from every state, whatever the reason
    simp only [tickStep] at h
    injection h with h
    injection h with h1
    rw [← h1, exec_state]
    simp only [rfcNextTick, cmdDisconnectTail, finalState]
    cases s.state <;> rfl
  | direct i =>
    simp only [tickStep] at h
    injection h with h
    exact input_conforms_partial cfg s s' i ok outs h (hk5 i rfl)
  | frame m =>
    simp only [isK8, Bool.not_eq_false'] at hk8
    subst hk8
    simp only [tickStep] at h
    cases hc : s.conn with
    | false => simp [hc] at h
    | true =>
      simp only [hc, Bool.not_true, Bool.false_eq_true, if_false] at h
      cases hh : handleInput cfg s m with
      | todo => simp [hh] at h
      | panic => simp [hh] at h
      | next s2 ok2 outs2 =>
        cases ok2 with
        | false => simp [hh] at h
        | true =>
          simp only [hh] at h
          injection h with h
          injection h with h1 h2 h3
          subst h1
          exact input_conforms_partial cfg s s2 m true outs2 hh (hk5 m rfl)

/-! ## clause 2 through `Session::tick` (the stop path production code has) -/

/-- **Clause 2 for `Command::Disconnect(Shutdown)`**, the application's stop command handled
inline by `Session::tick` (no `ManualStop` event is raised by production code): in EVERY state
and for every session the command sends the Cease NOTIFICATION (6/2, Administrative Shutdown),
releases the connection and leaves the FSM in Idle. -/
theorem cmd_disconnect_cease (cfg : Cfg) (s s' : St) (ok : Bool) (outs : List Out)
    (h : tickStep cfg s .cmdDisconnect = .res (.next s' ok outs)) :
    s'.conn = false ∧ Out.pduNotification 6 2 ∈ outs ∧ s'.state = .idle ∧ ok = true := by
  simp only [tickStep] at h
  injection h with h
  injection h with h1 h2 h3
  refine ⟨?_, ?_, ?_, h2.symm⟩
  · rw [← h1, exec_conn]; simp [cmdDisconnectActs, drops]
  · rw [← h3]
    exact exec_notifs cfg defaultOpen s cmdDisconnectActs (6, 2) (by simp [cmdDisconnectActs, notifsOf, Reason.notif])
  · rw [← h1, exec_state]; simp [cmdDisconnectActs, finalState]

/-- **Clause 2 for `Command::Disconnect(reason)` with the other reasons that carry a NOTIFICATION**
(ConnectionRejected, Reconfiguration, Deconfigured: Cease 6/5, 6/6, 6/3; HoldTimerExpired: 4/0 - and the
reasons the arms of `handle_event` use, which the command channel accepts too): in EVERY state the
NOTIFICATION of the reason is sent, the connection is released and the FSM is left in Idle.

A SANITY LEMMA about the model, not independent evidence for clause 2: `tickStep .. (.cmdDisconnectWith (some r))`
is by definition `execAct (.disconnect r)`, whose output is `Reason.notif r`, and the conclusion uses the same
table.  WHICH code / subcode belongs to which reason (`Reason.notif`, `cmd_disconnect_admin_is_cease` = `rfl` on
that table) is the model's transcription of session.rs:184-194, pinned by the `t .. cDr / cDc / cDd / cDh / cDo`
correspondence lines; the oracle accepts any Cease subcode for a stop. -/
theorem cmd_disconnect_with_notifies (cfg : Cfg) (s s' : St) (r : Reason) (ok : Bool) (outs : List Out)
    (h : tickStep cfg s (.cmdDisconnectWith (some r)) = .res (.next s' ok outs)) :
    s'.conn = false ∧ Out.pduNotification r.notif.1 r.notif.2 ∈ outs ∧ s'.state = .idle ∧ ok = true := by
  simp only [tickStep] at h
  injection h with h
  injection h with h1 h2 h3
  refine ⟨?_, ?_, ?_, h2.symm⟩
  · rw [← h1, exec_conn]; simp [execAct]
  · rw [← h3]; simp [execAct]
  · rw [← h1, exec_state]; simp [cmdDisconnectTail, finalState]

/-- the three administrative reasons are Cease NOTIFICATIONs (RFC 4486 subcodes 5, 6, 3) -/
theorem cmd_disconnect_admin_is_cease :
    Reason.rejected.notif = (6, 5) ∧ Reason.reconfiguration.notif = (6, 6) ∧ Reason.deconfigured.notif = (6, 3) :=
  ⟨rfl, rfl, rfl⟩

/-- `Command::Disconnect(DisconnectReason::Other)`: the code as it is sends NO NOTIFICATION (session.rs
`DisconnectReason::Other => { //todo!(); debug!(..) }`); the connection is still released and the FSM left in
Idle.  (Whether an unspecific stop should send a Cease is not decided by the property, which names the
manual stop; the oracle abstains on this step, the model agreement pins the behaviour.) -/
theorem cmd_disconnect_other_silent (cfg : Cfg) (s s' : St) (ok : Bool) (outs : List Out)
    (h : tickStep cfg s (.cmdDisconnectWith none) = .res (.next s' ok outs)) :
    s'.conn = false ∧ outs = [] ∧ s'.state = .idle ∧ ok = true := by
  simp only [tickStep] at h
  injection h with h
  injection h with h1 h2 h3
  refine ⟨?_, ?_, ?_, h2.symm⟩
  · rw [← h1, exec_conn]; simp
  · rw [← h3]; simp [exec, execAct, cmdDisconnectTail]
  · rw [← h1, exec_state]; simp [cmdDisconnectTail, finalState]

example : tickStep ⟨false, true, true, true, [], 90, [65001]⟩ ⟨.established, false, true, true, false, 0, true, none⟩
    (.cmdDisconnectWith (some .reconfiguration))
    = .res (.next ⟨.idle, false, false, false, false, 0, false, none⟩ true [.pduNotification 6 6]) := by decide

/-- ... in the RFC's words: the stop command satisfies what 8.2.2 asks of ManualStop (Event 2) in
the states that follow the sending of an OPEN. -/
theorem cmd_disconnect_notif_conforms (cfg : Cfg) (s s' : St) (ok : Bool) (outs : List Out)
    (h : tickStep cfg s .cmdDisconnect = .res (.next s' ok outs)) :
    NotifConforms s.state .manualStop s' outs := by
  obtain ⟨hc, hn, _, _⟩ := cmd_disconnect_cease cfg s s' ok outs h
  intro code sub hr
  have h62 : code = 6 ∧ sub = none := by
    unfold rfcNotif at hr
    cases hst : s.state <;> simp [hst, rfcEvent] at hr <;> exact ⟨hr.1.symm, hr.2.symm⟩
  obtain ⟨rfl, rfl⟩ := h62
  exact ⟨hc, 2, hn, by intro x hx; cases hx⟩

/-- **Clause 2 for everything `tick` processes**: a frame read from the socket (or an input fed
directly) whose event the RFC answers with a NOTIFICATION in OpenSent / OpenConfirm /
Established – a forbidden message, a hold-timer expiry, a stop – emits that NOTIFICATION and
releases the connection, also when `tick` then overrides the state (K8 concerns the state
only). No exclusion; `s` is any session state, so this holds at every position of every history
(`runTick` is `tickStep` iterated). -/
theorem tick_notif_conforms (cfg : Cfg) (s s' : St) (t : TickInput) (ok : Bool) (outs : List Out)
    (h : tickStep cfg s t = .res (.next s' ok outs)) (i : Input) (hi : inputOfTick t = some i)
    (e : Event) (he : eventOfInput cfg s i = some e) :
    NotifConforms s.state (kindOf cfg e) s' outs := by
  cases t with
  | closed => simp [inputOfTick] at hi
  | readErr => simp [inputOfTick] at hi
  | cmdKeepalive => simp [inputOfTick] at hi
  | cmdDisconnect => simp [inputOfTick] at hi
  | cmdDisconnectWith r => simp [inputOfTick] at hi
  | direct j =>
    simp only [inputOfTick, Option.some.injEq] at hi
    subst hi
    simp only [tickStep] at h
    injection h with h
    exact input_notif_conforms cfg s s' j ok outs h e he
  | frame m =>
    simp only [inputOfTick, Option.some.injEq] at hi
    subst hi
    simp only [tickStep] at h
    cases hc : s.conn with
    | false => simp [hc] at h
    | true =>
      simp only [hc, Bool.not_true, Bool.false_eq_true, if_false] at h
      cases hh : handleInput cfg s m with
      | todo => simp [hh] at h
      | panic => simp [hh] at h
      | next s2 ok2 outs2 =>
        have hn := input_notif_conforms cfg s s2 m ok2 outs2 hh e he
        cases ok2 with
        | true =>
          simp only [hh] at h
          injection h with h
          injection h with h1 h2 h3
          subst h1; subst h3; exact hn
        | false =>
          simp only [hh] at h
          injection h with h
          injection h with h1 h2 h3
          subst h3
          intro code sub hr
          obtain ⟨hcn, sc, hm, hx⟩ := hn code sub hr
          refine ⟨?_, sc, hm, hx⟩
          rw [← h1]; exact hcn

example : tickStep ⟨false, true, true, true, [], 90, [65001]⟩ ⟨.established, false, true, true, false, 0, true, none⟩ .cmdDisconnect
    = .res (.next ⟨.idle, false, false, false, false, 0, false, none⟩ true [.pduNotification 6 2]) := by decide

/-! ## the outgoing PDU queue: `send_pdu` is a `try_send` (known finding K14) -/

/-- everything a step sends reaches the queue when there is room for its PDUs -/
theorem accepted_all (room : Nat) (outs : List Out) (h : pduCount outs ≤ room) :
    accepted room outs = outs := by
  induction outs generalizing room with
  | nil => rfl
  | cons o rest ih =>
    unfold accepted
    cases hp : o.isPdu with
    | false =>
      simp only [Bool.false_eq_true, if_false]
      rw [ih room (by simpa [pduCount, List.filter, hp] using h)]
    | true =>
      simp only [if_true]
      have hc : pduCount rest + 1 ≤ room := by simpa [pduCount, List.filter, hp] using h
      cases room with
      | zero => omega
      | succ r => simp only; rw [ih r (by omega)]

/-- what goes to the application channel (`send().await`) does not depend on the outgoing queue:
clauses 3 and 4 are not affected by K14 -/
theorem accepted_keeps_app (room : Nat) (outs : List Out) (o : Out) (ho : o.isPdu = false) :
    o ∈ accepted room outs ↔ o ∈ outs := by
  induction outs generalizing room with
  | nil => simp [accepted]
  | cons x rest ih =>
    unfold accepted
    cases hx : x.isPdu with
    | false => simp [ih room]
    | true =>
      have hne : o ≠ x := by intro h; rw [h, hx] at ho; cases ho
      cases room with
      | zero => simp [ih 0, hne]
      | succ r => simp [ih r, hne]

/-- The full statement of clause 2 at the point where the PDU leaves the session: the
NOTIFICATION the RFC names is in the outgoing queue after the step, whatever room the
application left in it. -/
def NotifQueuedStatement : Prop :=
  ∀ (cfg : Cfg) (s : St) (e : Event) (s' : St) (ok : Bool) (outs : List Out) (room : Nat),
    step cfg s e = .next s' ok outs → NotifConforms s.state (kindOf cfg e) s' (accepted room outs)

/-- K14 witness: Established, HoldTimer_Expires, no free slot in `pdu_out`: the session goes to
Idle and releases the connection, the Hold Timer Expired NOTIFICATION is dropped by `try_send`
(request `h d0n1p1x1a0h90 6:01101 q0 e6`). -/
theorem notif_queued_fails : ¬ NotifQueuedStatement := by
  intro h
  have := h ⟨false, true, true, true, [], 90, [65001]⟩ ⟨.established, false, true, true, false, 0, true, none⟩
    .holdTimerExpires ⟨.idle, false, false, false, false, 1, false, none⟩ true [.pduNotification 4 0] 0 (by decide)
    4 none (by decide)
  obtain ⟨_, sc, hm, _⟩ := this
  simp [accepted, Out.isPdu] at hm

/-- **Clause 2 at the outgoing queue**, `_partial`: with room for the PDUs of the step (in every
arm the NOTIFICATION is the first PDU sent, so one free slot suffices for it) the NOTIFICATION
the RFC names is queued and the connection released. Excluded: a full queue (K14,
`notif_queued_fails`). -/
theorem notif_queued_partial (cfg : Cfg) (s : St) (e : Event) (s' : St) (ok : Bool) (outs : List Out)
    (room : Nat) (h : step cfg s e = .next s' ok outs) (hroom : pduCount outs ≤ room) :
    NotifConforms s.state (kindOf cfg e) s' (accepted room outs) := by
  rw [accepted_all room outs hroom]
  exact step_notif_conforms cfg s e s' ok outs h

example : pduCount [Out.pduNotification 4 0] ≤ 1 := by decide

/-! ## the timer branches of `Session::tick`: `Clock` and `tickTimer` -/

/-- the three timers `Session::tick` polls -/
inductive Tmr where
  | ka | hold | dop
  deriving DecidableEq, Repr

/-- the expiry event `tick` raises for a timer (session.rs:326-334) -/
def Tmr.event : Tmr → Event
  | .ka => .keepaliveTimerExpires
  | .hold => .holdTimerExpires
  | .dop => .delayOpenTimerExpires

/-- the timer's next tick on the clock -/
def clockGet (c : Clock) : Tmr → Option Nat
  | .ka => c.ka
  | .hold => c.hold
  | .dop => c.dop

/-- the timer's running flag in the session state (`Timer::is_running`) -/
def running (s : St) : Tmr → Bool
  | .ka => s.ka
  | .hold => s.hold
  | .dop => s.dop

/-- The clock is consistent with the session state: a timer has a next tick only if it is running. -/
def ClockOk (s : St) (c : Clock) : Prop :=
  ∀ x t, clockGet c x = some t → running s x = true

private theorem dueAt_some {now i t : Nat} (h : dueAt now i = some t) : now < t := by
  unfold dueAt at h; split at h <;> simp at h; omega

private theorem clockAct_now (cfg : Cfg) (s : St) (c : Clock) (a : Act) : (clockAct cfg s c a).now = c.now := by
  cases a <;> simp [clockAct] <;> split <;> rfl

private theorem clockExec_now (cfg : Cfg) (o : OpenInfo) : ∀ (acts : List Act) (s : St) (c : Clock),
    (clockExec cfg o s c acts).now = c.now := by
  intro acts
  induction acts with
  | nil => intro s c; rfl
  | cons a rest ih => intro s c; simp [clockExec, ih, clockAct_now]

private theorem clockAct_ok (cfg : Cfg) (o : OpenInfo) (s : St) (c : Clock) (a : Act) (h : ClockOk s c) :
    ClockOk (execAct cfg o s a).1 (clockAct cfg s c a) := by
  have hka := h .ka; have hhold := h .hold; have hdop := h .dop
  simp only [clockGet, running] at hka hhold hdop
  intro x t hx
  cases a <;> cases x <;> simp [clockAct, execAct, clockGet, running, dueAt] at hx ⊢ <;> grind

private theorem clockExec_ok (cfg : Cfg) (o : OpenInfo) : ∀ (acts : List Act) (s : St) (c : Clock), ClockOk s c →
    ClockOk (exec cfg o s acts).1 (clockExec cfg o s c acts) := by
  intro acts
  induction acts with
  | nil => intro s c h; exact h
  | cons a rest ih =>
    intro s c h
    simp only [exec, clockExec]
    exact ih _ _ (clockAct_ok cfg o s c a h)

private theorem step_exec (cfg : Cfg) (s s' : St) (e : Event) (ok : Bool) (outs : List Out)
    (hs : step cfg s e = .next s' ok outs) : s' = (exec cfg (openOf e) s (actsOfEvent cfg s e)).1 := by
  simp only [step, actsOfEvent] at hs ⊢
  split at hs <;> simp_all

/-- the state after an input is the state after the statements of the arm of the event it raises -/
private theorem handleInput_exec (cfg : Cfg) (s s' : St) (i : Input) (ok : Bool) (outs : List Out)
    (h : handleInput cfg s i = .next s' ok outs) :
    match inputEvent cfg s i with
    | some e => s' = (exec cfg (openOf e) s (actsOfEvent cfg s e)).1
    | none => s'.ka = s.ka ∧ s'.hold = s.hold ∧ s'.dop = s.dop ∧ s'.state = s.state := by
  have key : ∀ e ok1 outs1, step cfg s e = .next s' ok1 outs1 → s' = (exec cfg (openOf e) s (actsOfEvent cfg s e)).1 :=
    fun e ok1 outs1 hs => step_exec cfg s s' e ok1 outs1 hs
  cases i with
  | ev e => exact key e ok outs h
  | msgOpen o => exact key _ ok outs h
  | msgKeepalive => exact key _ ok outs h
  | msgUpdate n =>
    simp only [handleInput] at h
    cases hs : step cfg s .updateMsg with
    | todo => simp [hs] at h
    | panic => simp [hs] at h
    | next s2 ok2 outs2 =>
      cases ok2 <;> simp [hs] at h <;> exact key _ _ _ (by rw [hs, h.1])
  | msgNotification code sub =>
    simp only [handleInput] at h
    cases hs : step cfg s (notifEvent code sub) with
    | todo => simp [hs] at h
    | panic => simp [hs] at h
    | next s2 ok2 outs2 => simp [hs] at h; exact key _ _ _ (by rw [hs, h.1])
  | msgRouteRefresh => simp only [handleInput] at h; injection h with h1; subst h1; simp [inputEvent]
  | attach => simp only [handleInput] at h; injection h with h1; subst h1; simp [inputEvent]
  | apiStart =>
    simp only [handleInput] at h
    cases hs : step cfg s (startEvent cfg) with
    | todo => simp [hs] at h
    | panic => simp [hs] at h
    | next s2 ok2 outs2 => simp [hs] at h; exact key _ _ _ (by rw [hs, h.1])
  | apiConn =>
    simp only [handleInput] at h
    cases hs : step cfg s .tcpConnectionConfirmed with
    | todo => simp [hs] at h
    | panic => simp [hs] at h
    | next s2 ok2 outs2 => simp [hs] at h; exact key _ _ _ (by rw [hs, h.1])

/-- `ClockOk` is kept by every input the session handles … -/
theorem clockOk_input (cfg : Cfg) (s s' : St) (c : Clock) (i : Input) (ok : Bool) (outs : List Out)
    (hc : ClockOk s c) (h : handleInput cfg s i = .next s' ok outs) : ClockOk s' (clockInput cfg s c i) := by
  have hx := handleInput_exec cfg s s' i ok outs h
  unfold clockInput
  cases he : inputEvent cfg s i with
  | some e => simp only [he] at hx ⊢; rw [hx]; exact clockExec_ok cfg _ _ s c hc
  | none =>
    simp only [he] at hx ⊢
    intro x t hxt
    have := hc x t hxt
    cases x <;> simp_all [running]

/-- … and holds for the clock of a session whose timers were started at time 0. -/
theorem clockOk_ofSt (cfg : Cfg) (s : St) : ClockOk s (Clock.ofSt cfg s) := by
  intro x t hx
  cases x <;> simp [Clock.ofSt, clockGet, running, dueAt] at hx ⊢ <;> grind


/-- the candidates `tickTimer` chooses from -/
def cands (c : Clock) : List (Nat × Event) :=
  (match c.ka with | some t => [(t, Event.keepaliveTimerExpires)] | none => []) ++
  (match c.hold with | some t => [(t, Event.holdTimerExpires)] | none => []) ++
  (match c.dop with | some t => [(t, Event.delayOpenTimerExpires)] | none => [])

private theorem mem_cands (c : Clock) (t : Nat) (e : Event) :
    (t, e) ∈ cands c ↔ ∃ x, e = x.event ∧ clockGet c x = some t := by
  constructor
  · intro h
    simp only [cands, List.mem_append] at h
    rcases h with (h | h) | h
    · cases hk : c.ka with
      | none => simp [hk] at h
      | some t' => simp [hk] at h; obtain ⟨rfl, rfl⟩ := h; exact ⟨.ka, rfl, by simp [clockGet, hk]⟩
    · cases hk : c.hold with
      | none => simp [hk] at h
      | some t' => simp [hk] at h; obtain ⟨rfl, rfl⟩ := h; exact ⟨.hold, rfl, by simp [clockGet, hk]⟩
    · cases hk : c.dop with
      | none => simp [hk] at h
      | some t' => simp [hk] at h; obtain ⟨rfl, rfl⟩ := h; exact ⟨.dop, rfl, by simp [clockGet, hk]⟩
  · rintro ⟨x, rfl, hx⟩
    cases x <;> simp [clockGet] at hx <;> simp [cands, Tmr.event, hx]

private theorem foldMin (l : List (Nat × Event)) : ∀ (b : Nat × Event),
    let r := l.foldl (fun (b : Nat × Event) x => if x.1 < b.1 then x else b) b
    (r = b ∨ r ∈ l) ∧ r.1 ≤ b.1 ∧ ∀ x ∈ l, r.1 ≤ x.1 := by
  induction l with
  | nil => intro b; simp
  | cons a rest ih =>
    intro b
    simp only [List.foldl_cons]
    by_cases hab : a.1 < b.1
    · simp only [hab, if_true]
      obtain ⟨h1, h2, h3⟩ := ih a
      refine ⟨?_, by omega, ?_⟩
      · rcases h1 with h1 | h1
        · right; rw [h1]; simp
        · right; exact List.mem_cons_of_mem _ h1
      · intro x hx
        rcases List.mem_cons.mp hx with rfl | hx
        · exact h2
        · exact h3 x hx
    · simp only [hab, if_false]
      obtain ⟨h1, h2, h3⟩ := ih b
      refine ⟨?_, h2, ?_⟩
      · rcases h1 with h1 | h1
        · left; exact h1
        · right; exact List.mem_cons_of_mem _ h1
      · intro x hx
        rcases List.mem_cons.mp hx with rfl | hx
        · omega
        · exact h3 x hx

private theorem le_one_unique {α : Type} (l : List α) (h : l.length ≤ 1) (a b : α) (ha : a ∈ l) (hb : b ∈ l) : a = b := by
  match l, h with
  | [], _ => simp at ha
  | [x], _ => simp at ha hb; rw [ha, hb]
  | _ :: _ :: _, h => simp at h

/-- `tickTimer` unfolded: the minimum of the candidates, a tie when another tick is queued by then -/
private theorem tickTimer_def (cfg : Cfg) (s : St) (c : Clock) :
    tickTimer cfg s c =
      match cands c with
      | [] => .idle
      | (t0, e0) :: rest =>
        let best := rest.foldl (fun (b : Nat × Event) x => if x.1 < b.1 then x else b) (t0, e0)
        let horizon := max c.now best.1
        if ((cands c).filter fun x => decide (x.1 ≤ horizon)).length > 1 then .tie
        else
          let m := best.1
          let c1 : Clock := match best.2 with
            | .keepaliveTimerExpires => { c with now := horizon, ka := dueAt m (kaInterval cfg) }
            | .holdTimerExpires => { c with now := horizon, hold := dueAt m (holdInterval cfg) }
            | _ => { c with now := horizon, dop := dueAt m dopInterval }
          .fired best.2 (step cfg s best.2) (clockExec cfg defaultOpen s c1 (actsOfEvent cfg s best.2)) := rfl

/-- **(ii) the event raised is that of the timer whose tick comes first**, the clock moves to that tick (or
stays, when the tick was queued while the session was not polled), and no other timer has a tick by then
(else: `tie`). -/
theorem tickTimer_fired (cfg : Cfg) (s : St) (c : Clock) (e : Event) (r : StepResult) (c' : Clock)
    (h : tickTimer cfg s c = .fired e r c') :
    ∃ x t, e = x.event ∧ clockGet c x = some t ∧
      (∀ y t', y ≠ x → clockGet c y = some t' → t ≤ t' ∧ max c.now t < t') ∧
      c'.now = max c.now t ∧ r = step cfg s e := by
  rw [tickTimer_def] at h
  cases hc : cands c with
  | nil => rw [hc] at h; simp at h
  | cons p rest =>
    obtain ⟨t0, e0⟩ := p
    rw [hc] at h; simp only at h; rw [← hc] at h
    have hm := foldMin rest (t0, e0)
    simp only at hm h
    generalize hb : rest.foldl (fun (b : Nat × Event) x => if x.1 < b.1 then x else b) (t0, e0) = best at hm h
    obtain ⟨bt, be⟩ := best
    split at h
    · cases h
    · rename_i hlen
      injection h with h1 h2 h3
      have hmem : (bt, be) ∈ cands c := by
        rw [hc]; rcases hm.1 with h | h
        · rw [h]; simp
        · exact List.mem_cons_of_mem _ h
      obtain ⟨x, hx1, hx2⟩ := (mem_cands c bt be).mp hmem
      refine ⟨x, bt, by rw [← h1]; exact hx1, hx2, ?_, ?_, by rw [← h2, ← h1]⟩
      · intro y t' hy hyt
        have hymem : (t', y.event) ∈ cands c := (mem_cands c t' y.event).mpr ⟨y, rfl, hyt⟩
        have hle : bt ≤ t' := by
          rw [hc] at hymem
          rcases List.mem_cons.mp hymem with h | h
          · have := hm.2.1; simp only [] at this; injection h with h _; omega
          · exact hm.2.2 _ h
        refine ⟨hle, ?_⟩
        rcases Nat.lt_or_ge (max c.now bt) t' with hlt | hge
        · exact hlt
        · exfalso
          have hf1 : (bt, be) ∈ (cands c).filter fun x => decide (x.1 ≤ max c.now bt) := by
            simp [List.mem_filter, hmem]; omega
          have hf2 : (t', y.event) ∈ (cands c).filter fun x => decide (x.1 ≤ max c.now bt) := by
            simp [List.mem_filter, hymem]; omega
          have := le_one_unique _ (by simp only [gt_iff_lt, Nat.not_lt] at hlen; exact hlen) _ _ hf1 hf2
          injection this with _ h5
          rw [hx1] at h5
          cases x <;> cases y <;> simp [Tmr.event] at h5 hy
      · rw [← h3, clockExec_now]
        simp only at *
        split <;> rfl

private theorem filter_two (c : Clock) (m : Nat) (h : ((cands c).filter fun x => decide (x.1 ≤ m)).length > 1) :
    ∃ x y tx ty, x ≠ y ∧ clockGet c x = some tx ∧ clockGet c y = some ty ∧ tx ≤ m ∧ ty ≤ m := by
  rcases c with ⟨now, ka, hold, dop⟩
  cases ka with
  | none =>
    cases hold with
    | none => cases dop <;> simp [cands, List.filter] at h <;> (split at h <;> simp at h)
    | some b =>
      cases dop with
      | none => simp [cands, List.filter] at h; split at h <;> simp at h
      | some d =>
        cases h1 : decide (b ≤ m) <;> cases h2 : decide (d ≤ m) <;> simp [cands, List.filter, h1, h2] at h
        exact ⟨.hold, .dop, b, d, by decide, rfl, rfl, of_decide_eq_true h1, of_decide_eq_true h2⟩
  | some a =>
    cases hold with
    | none =>
      cases dop with
      | none => simp [cands, List.filter] at h; split at h <;> simp at h
      | some d =>
        cases h1 : decide (a ≤ m) <;> cases h2 : decide (d ≤ m) <;> simp [cands, List.filter, h1, h2] at h
        exact ⟨.ka, .dop, a, d, by decide, rfl, rfl, of_decide_eq_true h1, of_decide_eq_true h2⟩
    | some b =>
      cases dop with
      | none =>
        cases h1 : decide (a ≤ m) <;> cases h2 : decide (b ≤ m) <;> simp [cands, List.filter, h1, h2] at h
        exact ⟨.ka, .hold, a, b, by decide, rfl, rfl, of_decide_eq_true h1, of_decide_eq_true h2⟩
      | some d =>
        cases h1 : decide (a ≤ m) <;> cases h2 : decide (b ≤ m) <;> cases h3 : decide (d ≤ m) <;>
          simp [cands, List.filter, h1, h2, h3] at h
        · exact ⟨.hold, .dop, b, d, by decide, rfl, rfl, of_decide_eq_true h2, of_decide_eq_true h3⟩
        · exact ⟨.ka, .dop, a, d, by decide, rfl, rfl, of_decide_eq_true h1, of_decide_eq_true h3⟩
        · exact ⟨.ka, .hold, a, b, by decide, rfl, rfl, of_decide_eq_true h1, of_decide_eq_true h2⟩
        · exact ⟨.ka, .hold, a, b, by decide, rfl, rfl, of_decide_eq_true h1, of_decide_eq_true h2⟩

/-- `tie` only when two timers have a tick by the time the first one is taken: due at the same earliest
instant, or both queued while the session was not polled -/
theorem tickTimer_tie (cfg : Cfg) (s : St) (c : Clock) (h : tickTimer cfg s c = .tie) :
    ∃ x y tx ty, x ≠ y ∧ clockGet c x = some tx ∧ clockGet c y = some ty ∧
      ∃ m, (∀ z t', clockGet c z = some t' → m ≤ t') ∧ tx ≤ max c.now m ∧ ty ≤ max c.now m := by
  rw [tickTimer_def] at h
  cases hc : cands c with
  | nil => rw [hc] at h; simp at h
  | cons p rest =>
    obtain ⟨t0, e0⟩ := p
    rw [hc] at h; simp only at h; rw [← hc] at h
    have hm := foldMin rest (t0, e0)
    simp only at hm
    generalize hb : rest.foldl (fun (b : Nat × Event) x => if x.1 < b.1 then x else b) (t0, e0) = best at hm h
    split at h
    · rename_i hlen
      obtain ⟨x, y, tx, ty, hxy, hx, hy, h1, h2⟩ := filter_two c _ hlen
      refine ⟨x, y, tx, ty, hxy, hx, hy, best.1, ?_, h1, h2⟩
      intro z t' hz
      have hzm : (t', z.event) ∈ cands c := (mem_cands c t' z.event).mpr ⟨z, rfl, hz⟩
      rw [hc] at hzm
      rcases List.mem_cons.mp hzm with h | h
      · injection h with h _; have := hm.2.1; omega
      · exact hm.2.2 _ h
    · cases h

/-- `idle` exactly when none of the three timers has a next tick -/
theorem tickTimer_idle_iff (cfg : Cfg) (s : St) (c : Clock) :
    tickTimer cfg s c = .idle ↔ ∀ x, clockGet c x = none := by
  rw [tickTimer_def]
  constructor
  · intro h x
    cases hc : cands c with
    | nil =>
      cases hx : clockGet c x with
      | none => rfl
      | some t =>
        have := (mem_cands c t x.event).mpr ⟨x, rfl, hx⟩
        rw [hc] at this; simp at this
    | cons p rest =>
      rw [hc] at h; simp only at h
      split at h <;> cases h
  · intro h
    have h1 := h .ka; have h2 := h .hold; have h3 := h .dop
    simp only [clockGet] at h1 h2 h3
    simp [cands, h1, h2, h3]


/-- **(i) `tick` raises the expiry event of a timer only if that timer is running** in the session state
(for every clock that is consistent with the state: `clockOk_ofSt`, `clockOk_input`, `clockOk_tick`, `clockOk_wait`). -/
theorem timer_event_only_if_running (cfg : Cfg) (s : St) (c : Clock) (e : Event) (r : StepResult) (c' : Clock)
    (hc : ClockOk s c) (h : tickTimer cfg s c = .fired e r c') :
    ∃ x, e = x.event ∧ running s x = true := by
  obtain ⟨x, t, he, hx, _⟩ := tickTimer_fired cfg s c e r c' h
  exact ⟨x, he, hc x t hx⟩

/-- `ClockOk` is kept by a timer firing through `tick` … -/
theorem clockOk_tick (cfg : Cfg) (s s' : St) (c c' : Clock) (e : Event) (ok : Bool) (outs : List Out)
    (hc : ClockOk s c) (h : tickTimer cfg s c = .fired e (.next s' ok outs) c') : ClockOk s' c' := by
  obtain ⟨x, t, he, hx, _, _, hr⟩ := tickTimer_fired cfg s c e _ c' h
  have hrun := hc x t hx
  rw [tickTimer_def] at h
  cases hcs : cands c with
  | nil => rw [hcs] at h; simp at h
  | cons p rest =>
    obtain ⟨t0, e0⟩ := p
    rw [hcs] at h; simp only at h; rw [← hcs] at h
    split at h
    · cases h
    · injection h with h1 h2 h3
      have hs' := step_exec cfg s s' e ok outs hr.symm
      have hopen : openOf e = defaultOpen := by rw [he]; cases x <;> rfl
      rw [hs', hopen, ← h3, ← h1]
      apply clockExec_ok
      rw [h1, he]
      intro y ty hy
      cases x <;> cases y <;> simp [Tmr.event, clockGet, running] at hy hrun ⊢ <;>
        first
        | exact hrun
        | exact hc .ka ty hy
        | exact hc .hold ty hy
        | exact hc .dop ty hy

/-- … and by time passing. -/
theorem clockOk_wait (s : St) (c : Clock) (d : Nat) (hc : ClockOk s c) : ClockOk s (clockWait c d) := by
  intro x t hx
  cases x <;> exact hc _ t (by simpa [clockWait, clockGet] using hx)

/-! ### the hold timer needs silence; the keepalive timer sends KEEPALIVEs -/

/-- the peer is heard from in the sense of the HoldTimer (RFC 4271 8.2.2): a KEEPALIVE in OpenConfirm or
Established, an UPDATE in Established -/
def hears (st : State) : Input → Bool
  | .msgKeepalive | .ev .keepaliveMsg => st == .openConfirm || st == .established
  | .msgUpdate _ | .ev .updateMsg => st == .established
  | _ => false

/-- a step of a timed history: an input is handled, `tick()` lets a timer fire, or time passes un-polled -/
inductive TStep where
  | input (i : Input)
  | tick
  | wait (d : Nat)
  deriving DecidableEq, Repr

/-- session, clock, and the ghost "when the peer was last heard from" -/
structure Timed where
  s : St
  c : Clock
  heard : Nat
  deriving Repr

/-- a timer expiry as the history records it: the clock, the event, the ghost before it -/
structure Expiry where
  at_ : Nat
  event : Event
  heard : Nat
  state : State
  deriving Repr

/-- One step; `none`: the history ends (todo!/panic arm, no timer will tick, a `select!` tie, or an input that
resets the hold timer while two of its ticks are outstanding, `Rc.Fsm.staleInput` - the one place where the
session leaves the C20 precondition in a way `Clock` cannot follow: the second tick survives the reset.  The
driver and c08.rs refuse exactly these lines).  Any amount of time may pass un-polled (`wait`). -/
def timedStep (cfg : Cfg) (x : Timed) : TStep → Option (Timed × List Expiry)
  | .input i =>
    if staleInput cfg x.s x.c i then none else
    match handleInput cfg x.s i with
    | .next s' _ _ =>
      some ({ s := s', c := clockInput cfg x.s x.c i, heard := if hears x.s.state i then x.c.now else x.heard }, [])
    | _ => none
  | .tick =>
    match tickTimer cfg x.s x.c with
    | .fired e (.next s' _ _) c' => some ({ x with s := s', c := c' }, [⟨c'.now, e, x.heard, x.s.state⟩])
    | _ => none
  | .wait d => some ({ x with c := clockWait x.c d }, [])

def timedRun (cfg : Cfg) : Timed → List TStep → List Expiry
  | _, [] => []
  | x, st :: rest =>
    match timedStep cfg x st with
    | some (x', evs) => evs ++ timedRun cfg x' rest
    | none => []

/-- the invariant: the hold timer's next tick is at least a hold time after the peer was last heard from -/
private def HoldInv (cfg : Cfg) (x : Timed) : Prop :=
  ClockOk x.s x.c ∧ x.heard ≤ x.c.now ∧ ∀ t, x.c.hold = some t → x.heard + holdInterval cfg ≤ t

private theorem clockAct_hold (cfg : Cfg) (s : St) (c : Clock) (a : Act) (L : Nat) (hL : L ≤ c.now)
    (h : ∀ t, c.hold = some t → L + holdInterval cfg ≤ t) :
    ∀ t, (clockAct cfg s c a).hold = some t → L + holdInterval cfg ≤ t := by
  intro t ht
  cases a <;> simp [clockAct, dueAt] at ht <;> grind

private theorem clockExec_hold (cfg : Cfg) (o : OpenInfo) (L : Nat) : ∀ (acts : List Act) (s : St) (c : Clock),
    L ≤ c.now → (∀ t, c.hold = some t → L + holdInterval cfg ≤ t) →
    ∀ t, (clockExec cfg o s c acts).hold = some t → L + holdInterval cfg ≤ t := by
  intro acts
  induction acts with
  | nil => intro s c _ h; exact h
  | cons a rest ih =>
    intro s c hL h
    simp only [clockExec]
    exact ih _ _ (by rw [clockAct_now]; exact hL) (clockAct_hold cfg s c a L hL h)

/-- in the states and for the inputs of `hears` the arm restarts the hold timer: afterwards its next tick (if it
runs at all) is a full hold time away -/
private theorem hears_rearms (cfg : Cfg) (s : St) (c : Clock) (i : Input) (hc : ClockOk s c) (hh : hears s.state i = true) :
    ∀ t, (clockInput cfg s c i).hold = some t → c.now + holdInterval cfg ≤ t := by
  have hnone : s.hold = false → c.hold = none := by
    intro hf
    cases hch : c.hold with
    | none => rfl
    | some t => have := hc .hold t (by simp [clockGet, hch]); simp [running, hf] at this
  intro t ht
  rcases s with ⟨st, crt, hold, ka, dop, cnt, conn, neg⟩
  simp only at hh hnone
  cases st <;> cases i <;> (try (rename_i e; cases e)) <;> simp [hears] at hh <;>
    simp [clockInput, inputEvent, actsOfEvent, arm, clockExec, clockAct, kindOf, dueAt] at ht <;>
    (cases hold <;> simp at ht hnone <;> grind)


/-! ### where `Clock` stops being exact: a reset with two hold-timer ticks outstanding -/

/-- the only arms of `handle_event` that call `hold_timer.reset()` -/
private theorem arm_resets (ctx : Ctx) (st : State) (k : Kind) (acts : List Act) (ok : Bool)
    (h : arm ctx st k = .run acts ok) (hm : Act.resetHold ∈ acts) :
    (st = .openConfirm ∧ k = .keepaliveMsg ∧ acts = [.resetHold, .setState .established]) ∨
    (st = .established ∧ (k = .keepaliveMsg ∨ k = .updateMsg) ∧ acts = [.resetHold]) := by
  cases st <;> cases k <;> simp [arm, openTail] at h <;> (repeat' split at h) <;> simp_all <;>
    (obtain ⟨rfl, _⟩ := h; simp at hm)

private theorem staleExec_no_reset (cfg : Cfg) (o : OpenInfo) : ∀ (acts : List Act) (s : St) (c : Clock),
    Act.resetHold ∉ acts → staleExec cfg o s c acts = false := by
  intro acts
  induction acts with
  | nil => intro s c _; rfl
  | cons a rest ih =>
    intro s c h
    simp only [List.mem_cons, not_or] at h
    simp only [staleExec, ih _ _ h.2, Bool.or_false]
    cases a <;> simp at h ⊢

private theorem holdTwoDue_iff (cfg : Cfg) (c : Clock) :
    holdTwoDue cfg c = true ↔ ∃ t, c.hold = some t ∧ t + holdInterval cfg ≤ c.now := by
  unfold holdTwoDue; cases c.hold <;> simp

/-- **What the timed lines refuse** (`Rc.Fsm.staleInput`, used by `timedStep` and by the driver), said without
the arm table: the input is one that restarts the HoldTimer (`hears`: KEEPALIVE in OpenConfirm / Established,
UPDATE in Established), the hold timer runs, and its next tick was due a whole hold time ago or more - two of
its ticks are outstanding (`Rc.Timer.Spec.out2`), the second survives `Timer::reset` as `Spec.stale`.  This is
the condition c08.rs re-computes from its own bookkeeping (`reset_with_two_ticks`). -/
theorem staleInput_iff (cfg : Cfg) (s : St) (c : Clock) (i : Input) :
    staleInput cfg s c i = true ↔
      hears s.state i = true ∧ s.hold = true ∧ ∃ t, c.hold = some t ∧ t + holdInterval cfg ≤ c.now := by
  rw [← holdTwoDue_iff]
  constructor
  · intro h
    unfold staleInput at h
    cases hie : inputEvent cfg s i with
    | none => simp [hie] at h
    | some e =>
      simp only [hie] at h
      have hmem : Act.resetHold ∈ actsOfEvent cfg s e := by
        apply Classical.byContradiction; intro hn
        rw [staleExec_no_reset cfg _ _ s c hn] at h; cases h
      unfold actsOfEvent at hmem h
      cases harm : arm (ctxOf cfg s) s.state (kindOf cfg e) with
      | todo => simp [harm] at hmem
      | panic => simp [harm] at hmem
      | run acts ok =>
        simp only [harm] at hmem h
        rcases arm_resets _ _ _ _ _ harm hmem with ⟨hst, hk, rfl⟩ | ⟨hst, hk, rfl⟩
        · have he : e = .keepaliveMsg := by cases e <;> simp [kindOf] at hk ⊢
          subst he
          have hh : hears s.state i = true := by
            cases i <;> simp [inputEvent, openEvent, notifEvent, startEvent] at hie <;> (try split at hie) <;> simp_all [hears]
          simpa [staleExec, hh] using h
        · have he : e = .keepaliveMsg ∨ e = .updateMsg := by cases e <;> simp [kindOf] at hk ⊢
          have hh : hears s.state i = true := by
            rcases he with rfl | rfl <;>
            cases i <;> simp [inputEvent, openEvent, notifEvent, startEvent] at hie <;> (try split at hie) <;> simp_all [hears]
          simpa [staleExec, hh] using h
  · rintro ⟨hh, hhold, h2⟩
    rcases s with ⟨st, crt, hold, ka, dop, cnt, conn, neg⟩
    simp only at hh hhold
    subst hhold
    cases st <;> cases i <;> (try (rename_i e; cases e)) <;> simp [hears] at hh <;>
      simp [staleInput, inputEvent, actsOfEvent, arm, kindOf, staleExec, h2]

/-- the events `tick()` raises for its three timers never reset the hold timer: a `T` step cannot be such a place
(the driver checks `staleInput` on inputs only) -/
theorem timer_events_never_reset_hold (cfg : Cfg) (s : St) (c : Clock) (x : Tmr) :
    Act.resetHold ∉ actsOfEvent cfg s x.event ∧
      staleExec cfg defaultOpen s c (actsOfEvent cfg s x.event) = false := by
  have h : Act.resetHold ∉ actsOfEvent cfg s x.event := by
    intro hm
    unfold actsOfEvent at hm
    cases harm : arm (ctxOf cfg s) s.state (kindOf cfg x.event) with
    | todo => simp [harm] at hm
    | panic => simp [harm] at hm
    | run acts ok =>
      simp only [harm] at hm
      rcases arm_resets _ _ _ _ _ harm hm with ⟨_, hk, _⟩ | ⟨_, hk, _⟩ <;> cases x <;> simp [Tmr.event, kindOf] at hk
  exact ⟨h, staleExec_no_reset cfg _ _ s c h⟩

/-- non-vacuity of the refusal: local hold 3 s, established, hold timer armed at 0 s (next tick due at 3 s); at
6 s the ticks of 3 s and 6 s are outstanding: an UPDATE then is refused, at 5 s it is not -/
example :
    let cfg : Cfg := ⟨false, true, true, true, [], 3, [65001]⟩
    let s : St := ⟨.established, false, true, true, false, 0, true, none⟩
    staleInput cfg s ⟨6, none, some 3, none⟩ (.msgUpdate 1) = true ∧
      staleInput cfg s ⟨5, none, some 3, none⟩ (.msgUpdate 1) = false := by decide

private theorem holdInv_step (cfg : Cfg) (x x' : Timed) (st : TStep) (evs : List Expiry) (hI : HoldInv cfg x)
    (h : timedStep cfg x st = some (x', evs)) :
    HoldInv cfg x' ∧ ∀ ex ∈ evs, ex.event = .holdTimerExpires → ex.heard + holdInterval cfg ≤ ex.at_ := by
  obtain ⟨hok, hle, hhold⟩ := hI
  cases st with
  | input i =>
    simp only [timedStep] at h
    split at h
    · cases h
    cases hh : handleInput cfg x.s i with
    | todo => simp [hh] at h
    | panic => simp [hh] at h
    | next s' ok outs =>
      simp [hh] at h
      obtain ⟨rfl, rfl⟩ := h
      have hnow : (clockInput cfg x.s x.c i).now = x.c.now := by
        unfold clockInput; split
        · exact clockExec_now _ _ _ _ _
        · rfl
      refine ⟨⟨clockOk_input cfg x.s s' x.c i ok outs hok hh, ?_, ?_⟩, by simp⟩
      · simp only [hnow]; split <;> omega
      · cases hr : hears x.s.state i with
        | true => simp only [if_true]; exact hears_rearms cfg x.s x.c i hok hr
        | false =>
          simp only [Bool.false_eq_true, if_false]
          unfold clockInput
          split
          · exact clockExec_hold cfg _ x.heard _ _ _ hle hhold
          · exact hhold
  | tick =>
    simp only [timedStep] at h
    cases ht : tickTimer cfg x.s x.c with
    | idle => simp [ht] at h
    | tie => simp [ht] at h
    | fired e r c' =>
      cases r with
      | todo => simp [ht] at h
      | panic => simp [ht] at h
      | next s' ok outs =>
        simp [ht] at h
        obtain ⟨rfl, rfl⟩ := h
        obtain ⟨y, t, he, hy, hmin, hnow, _⟩ := tickTimer_fired cfg x.s x.c e _ c' ht
        have hok' := clockOk_tick cfg x.s s' x.c c' e ok outs hok ht
        -- the clock after: c' = clockExec .. c1, c1 = c re-armed for y at max now t
        have hc'hold : ∀ t', c'.hold = some t' → x.heard + holdInterval cfg ≤ t' := by
          rw [tickTimer_def] at ht
          cases hcs : cands x.c with
          | nil => rw [hcs] at ht; simp at ht
          | cons p rest =>
            obtain ⟨t0, e0⟩ := p
            rw [hcs] at ht; simp only at ht; rw [← hcs] at ht
            have hm := foldMin rest (t0, e0)
            simp only at hm
            generalize hb : rest.foldl (fun (b : Nat × Event) z => if z.1 < b.1 then z else b) (t0, e0) = best at hm ht
            obtain ⟨bt, be⟩ := best
            split at ht
            · cases ht
            · injection ht with h1 h2 h3
              simp only at h1 h3
              have hbmem : (bt, be) ∈ cands x.c := by
                rw [hcs]; rcases hm.1 with h | h
                · rw [h]; simp
                · exact List.mem_cons_of_mem _ h
              rw [← h3]
              apply clockExec_hold
              · subst h1; cases y <;> simp [he, Tmr.event] <;> omega
              · intro t' ht'
                subst h1
                rw [he] at ht' hbmem
                cases y <;> simp [Tmr.event] at ht' hbmem
                · exact hhold t' ht'
                · -- the hold timer itself: re-armed one interval after its deadline
                  obtain ⟨z, hz1, hz2⟩ := (mem_cands x.c bt _).mp hbmem
                  cases z <;> simp [Tmr.event] at hz1
                  simp [clockGet] at hz2
                  have := hhold bt hz2
                  simp [dueAt] at ht'
                  omega
                · exact hhold t' ht'
        refine ⟨⟨hok', by show x.heard ≤ c'.now; rw [hnow]; omega, hc'hold⟩, ?_⟩
        intro ex hex hev
        simp at hex; subst hex
        simp only at hev ⊢
        rw [he] at hev
        cases y <;> simp [Tmr.event] at hev
        simp [clockGet] at hy
        have := hhold t hy
        omega
  | wait d =>
    simp only [timedStep] at h
    simp at h; obtain ⟨rfl, rfl⟩ := h
    exact ⟨⟨clockOk_wait x.s x.c d hok, by simp [clockWait]; omega, by simpa [clockWait] using hhold⟩, by simp⟩

/-- **(iii) The hold timer expires only after silence.** In every timed history of a session - inputs handled at
the current clock, `tick()` letting timers fire, ANY amount of time passing un-polled; the history ends at a reset
of the hold timer with two of its ticks outstanding (`staleInput_iff`) - that starts with a clock consistent with the session state (e.g. `Clock.ofSt`), whenever
`tick()` raises HoldTimer_Expires at clock `T`, at least the configured hold time has elapsed since the
peer was last heard from: the last KEEPALIVE received in OpenConfirm / Established or UPDATE received in
Established (`hears`; 0 = the start of the history when there was none).

Weaker than what c08.rs's hold-timer oracle demands in two respects (both documented as durations outside the
property): (a) the ghost is NOT moved when an OPEN is accepted (the hold timer is started there): for a session
that never receives a KEEPALIVE the theorem bounds the expiry by `history start + hold`, the oracle by
`OPEN accepted + hold`; (b) the theorem speaks of the LOCAL hold time (the interval `Session::new` gives the
timer), the oracle of the NEGOTIATED one (<= local) read from the implementation's record. -/
theorem hold_expiry_needs_silence (cfg : Cfg) : ∀ (steps : List TStep) (x : Timed),
    ClockOk x.s x.c → x.heard ≤ x.c.now → (∀ t, x.c.hold = some t → x.heard + holdInterval cfg ≤ t) →
    ∀ ex ∈ timedRun cfg x steps, ex.event = .holdTimerExpires → ex.heard + holdInterval cfg ≤ ex.at_ := by
  intro steps
  induction steps with
  | nil => intro x _ _ _ ex hex; simp [timedRun] at hex
  | cons st rest ih =>
    intro x h1 h2 h3 ex hex
    simp only [timedRun] at hex
    cases hs : timedStep cfg x st with
    | none => simp [hs] at hex
    | some p =>
      obtain ⟨x', evs⟩ := p
      simp only [hs, List.mem_append] at hex
      have := holdInv_step cfg x x' st evs ⟨h1, h2, h3⟩ hs
      rcases hex with hex | hex
      · exact this.2 ex hex
      · exact ih x' this.1.1 this.1.2.1 this.1.2.2 ex hex

/-- the hypotheses hold for a session whose timers were started at time 0 -/
theorem hold_expiry_needs_silence_ofSt (cfg : Cfg) (s : St) (steps : List TStep) :
    ∀ ex ∈ timedRun cfg ⟨s, Clock.ofSt cfg s, 0⟩ steps, ex.event = .holdTimerExpires →
      ex.heard + holdInterval cfg ≤ ex.at_ := by
  apply hold_expiry_needs_silence cfg steps _ (clockOk_ofSt cfg s) (by simp [Clock.ofSt])
  intro t ht
  simp [Clock.ofSt, dueAt] at ht
  obtain ⟨_, _, rfl⟩ := ht
  simp

/-- non-vacuity: hold time 10 s, established at 0 s; the keepalive timer fires at 3 and 6 s, a KEEPALIVE is
heard at 6 s, 1 s passes, an UPDATE is heard at 7 s; the hold timer expires at 17 s -/
example :
    (timedRun ⟨false, true, true, true, [], 10, [65001]⟩ ⟨⟨.established, false, true, true, false, 0, true, none⟩,
        ⟨0, some 3, some 10, none⟩, 0⟩
      [.tick, .tick, .input .msgKeepalive, .wait 1, .input (.msgUpdate 1), .tick, .tick, .tick, .tick]).map
      (fun ex => (ex.at_, ex.event, ex.heard)) =
    [(3, .keepaliveTimerExpires, 0), (6, .keepaliveTimerExpires, 0), (9, .keepaliveTimerExpires, 7),
     (12, .keepaliveTimerExpires, 7), (15, .keepaliveTimerExpires, 7), (17, .holdTimerExpires, 7)] := by decide

/-- **The keepalive timer sends KEEPALIVEs** (RFC 4271 8.2.2, Event 11 in OpenConfirm and Established): when
`tick()` raises KeepaliveTimer_Expires there, a KEEPALIVE is sent, nothing else changes, and the timer's next
tick is one keepalive interval after the one taken. -/
theorem keepalive_timer_sends_keepalive (cfg : Cfg) (s : St) (c : Clock) (r : StepResult) (c' : Clock)
    (hs : s.state = .openConfirm ∨ s.state = .established)
    (h : tickTimer cfg s c = .fired .keepaliveTimerExpires r c') :
    r = .next s true [.pduKeepalive] ∧ ∃ t, c.ka = some t ∧ c'.ka = dueAt t (kaInterval cfg) ∧
      c'.hold = c.hold ∧ c'.dop = c.dop := by
  obtain ⟨y, t, he, hy, _, _, hr⟩ := tickTimer_fired cfg s c _ r c' h
  cases y <;> simp [Tmr.event] at he
  simp [clockGet] at hy
  have hstep : step cfg s .keepaliveTimerExpires = .next s true [.pduKeepalive] := by
    rcases s with ⟨st, crt, hold, ka, dop, cnt, conn, neg⟩
    simp only at hs
    rcases hs with rfl | rfl <;> simp [step, arm, kindOf, exec, execAct]
  refine ⟨by rw [hr, hstep], t, hy, ?_⟩
  rw [tickTimer_def] at h
  cases hcs : cands c with
  | nil => rw [hcs] at h; simp at h
  | cons p rest =>
    obtain ⟨t0, e0⟩ := p
    rw [hcs] at h; simp only at h; rw [← hcs] at h
    have hm := foldMin rest (t0, e0)
    simp only at hm
    generalize hb : rest.foldl (fun (b : Nat × Event) z => if z.1 < b.1 then z else b) (t0, e0) = best at hm h
    obtain ⟨bt, be⟩ := best
    split at h
    · cases h
    · injection h with h1 h2 h3
      simp only at h1 h3
      subst h1
      have hbmem : (bt, Event.keepaliveTimerExpires) ∈ cands c := by
        rw [hcs]; rcases hm.1 with h | h
        · rw [h]; simp
        · exact List.mem_cons_of_mem _ h
      obtain ⟨z, hz1, hz2⟩ := (mem_cands c bt _).mp hbmem
      cases z <;> simp [Tmr.event] at hz1
      simp [clockGet, hy] at hz2
      subst hz2
      have hacts : actsOfEvent cfg s .keepaliveTimerExpires = [.sendKeepalive] := by
        rcases s with ⟨st, crt, hold, ka, dop, cnt, conn, neg⟩
        simp only at hs
        rcases hs with rfl | rfl <;> simp [actsOfEvent, arm, kindOf]
      rw [← h3, hacts]
      simp [clockExec, clockAct]


/-! ### `Clock` and the C20 timer specification

Each of the three `Clock` entries is the `due` field of a state of the abstract timer specification of C20
(`Rc.Timer.Spec`, Rc/Model/Timer.lean; seconds here, milliseconds there) with nothing stale: `EntrySpec`.  The
theorems below are about the MODEL's functions: the statements of the arms that touch a timer (`clockAct` /
`execAct` of `startKa/startHold/startDop`, `resetHold`, `disconnect`, `stopDop`), time passing (`clockWait`) and
the re-arming `tickTimer` does when it takes a tick (`tickClock`, `tickTimer_clock`) move the entry and the
running flag exactly as `Spec.call .start / .reset / .stop`, `Spec.step (.advance d)` and `Spec.await` move
`due` and `stopped`.  `reset` includes its guard (`s.hold`; `reset()` of a stopped timer does nothing in both)
and says when `Clock` loses track: the specification gets a `stale` tick exactly when
`s.hold && holdTwoDue cfg c` - the condition of `staleInput_iff`, where `timedStep` and the driver stop.
NOT proved: that a whole `timedRun` is simulated by three `Spec` runs (the per-operation facts are not chained
over `clockExec` / `clockInput`; `ClockExact` is shown for `Clock.ofSt` and every single statement, not for
`tickTimer`); `Clock` stays tied to the code by the `T` / `W` correspondence lines. -/

/-- the interval `Session::new` gives the timer (hold = the local hold time, keepalive = hold / 3, delay-open 10 s) -/
def Tmr.interval (cfg : Cfg) : Tmr → Nat
  | .ka => kaInterval cfg
  | .hold => holdInterval cfg
  | .dop => dopInterval

/-- the statement of an arm that is `<timer>.start()` -/
def Tmr.startAct : Tmr → Act
  | .ka => .startKa
  | .hold => .startHold
  | .dop => .startDop

/-- the clock has a next tick for exactly the timers that run with a non-zero interval (`ClockOk` is one half) -/
def ClockExact (cfg : Cfg) (s : St) (c : Clock) : Prop :=
  ∀ x, (clockGet c x).isSome = (running s x && decide (Tmr.interval cfg x ≠ 0))

/-- `a` is the C20 specification state the entry of timer `x` stands for: same interval, same clock, `due` = the
entry, nothing stale, `stopped` = the session's running flag negated (`Timer::is_running`) -/
def EntrySpec (cfg : Cfg) (s : St) (c : Clock) (x : Tmr) (a : Rc.Timer.Spec) : Prop :=
  a.i = Tmr.interval cfg x ∧ a.now = c.now ∧ a.due = clockGet c x ∧ a.stale = none ∧ a.stopped = !running s x

/-- `ClockExact` holds for the clock of a session whose timers were started at time 0 … -/
theorem clockExact_ofSt (cfg : Cfg) (s : St) : ClockExact cfg s (Clock.ofSt cfg s) := by
  intro x
  cases x <;> simp [Clock.ofSt, clockGet, running, dueAt, Tmr.interval] <;> grind

/-- … and is kept by every statement of an arm -/
theorem clockExact_act (cfg : Cfg) (o : OpenInfo) (s : St) (c : Clock) (a : Act) (h : ClockExact cfg s c) :
    ClockExact cfg (execAct cfg o s a).1 (clockAct cfg s c a) := by
  have hka := h .ka; have hhold := h .hold; have hdop := h .dop
  simp only [clockGet, running, Tmr.interval] at hka hhold hdop
  intro x
  cases a <;> cases x <;> simp [clockAct, execAct, clockGet, running, dueAt, Tmr.interval] at hka hhold hdop ⊢ <;> grind

/-- `startKa / startHold / startDop` (`clockAct` on the clock, `execAct` on the running flag) = `Spec.call .start` -/
theorem clock_start_is_timer_spec (cfg : Cfg) (o : OpenInfo) (s : St) (c : Clock) (x : Tmr) (a : Rc.Timer.Spec)
    (h : EntrySpec cfg s c x a) :
    EntrySpec cfg (execAct cfg o s (Tmr.startAct x)).1 (clockAct cfg s c (Tmr.startAct x)) x (a.call 0 .start) := by
  obtain ⟨h1, h2, h3, h4, h5⟩ := h
  cases x <;> simp [EntrySpec, Tmr.startAct, clockAct, execAct, clockGet, running, Rc.Timer.Spec.call, dueAt, h1, h2, Tmr.interval]

/-- `disconnect` (keepalive and hold timers) and `stopDop` = `Spec.call .stop` -/
theorem clock_stop_is_timer_spec (cfg : Cfg) (o : OpenInfo) (s : St) (c : Clock) (x : Tmr) (r : Reason) (a : Rc.Timer.Spec)
    (h : EntrySpec cfg s c x a) :
    let act : Act := match x with | .dop => .stopDop | _ => .disconnect r
    EntrySpec cfg (execAct cfg o s act).1 (clockAct cfg s c act) x (a.call 0 .stop) := by
  obtain ⟨h1, h2, h3, h4, h5⟩ := h
  cases x <;> simp [EntrySpec, clockAct, execAct, clockGet, running, Rc.Timer.Spec.call, h1, h2, Tmr.interval]

/-- `resetHold`, guard included = `Spec.call .reset`; the specification keeps a stale tick exactly when the hold timer
runs with two ticks outstanding (then, and only then, `EntrySpec` is lost) -/
theorem clock_reset_is_timer_spec (cfg : Cfg) (o : OpenInfo) (s : St) (c : Clock) (a : Rc.Timer.Spec)
    (h : EntrySpec cfg s c .hold a) (hex : ClockExact cfg s c) :
    let a' := a.call 0 .reset
    let c' := clockAct cfg s c .resetHold
    a'.i = holdInterval cfg ∧ a'.now = c'.now ∧ a'.due = c'.hold ∧ a'.stopped = !(execAct cfg o s .resetHold).1.hold ∧
      a'.stale.isSome = (s.hold && holdTwoDue cfg c) := by
  obtain ⟨h1, h2, h3, h4, h5⟩ := h
  have hh := hex .hold
  simp only [clockGet, running, Tmr.interval] at h1 h3 h5 hh
  cases hd : c.hold with
  | none =>
    rw [hd] at h3 hh
    cases hs : s.hold <;> simp [hs] at hh <;>
      simp [Rc.Timer.Spec.call, clockAct, execAct, h1, h2, h3, h4, h5, hd, hs, holdTwoDue, dueAt]
    have := of_decide_eq_false hh; omega
  | some t =>
    rw [hd] at h3 hh
    simp at hh
    have hi : ¬ holdInterval cfg = 0 := of_decide_eq_true hh.2
    simp [Rc.Timer.Spec.call, Rc.Timer.Spec.out2, clockAct, execAct, h1, h2, h3, h4, h5, hd, hh.1, holdTwoDue, dueAt, hi]
    by_cases h6 : t + holdInterval cfg ≤ c.now
    · have : t ≤ c.now := by omega
      simp [h6, this]
    · simp [h6]; split <;> rfl

/-- the clock after `tick()` took the tick due at `t` of timer `x` (before the arm of its event runs): the paused clock is
at the tick or past it, the timer's next tick one interval after the one taken -/
def tickClock (cfg : Cfg) (c : Clock) (x : Tmr) (t : Nat) : Clock :=
  match x with
  | .ka => { c with now := max c.now t, ka := dueAt t (kaInterval cfg) }
  | .hold => { c with now := max c.now t, hold := dueAt t (holdInterval cfg) }
  | .dop => { c with now := max c.now t, dop := dueAt t dopInterval }

/-- taking a tick = `Spec.await` (any patience `d` that reaches the tick): same re-arming, and the observation is the
tick due at `t`, handed out at `max now t` -/
theorem clock_tick_is_timer_spec (cfg : Cfg) (s : St) (c : Clock) (x : Tmr) (t d : Nat) (a : Rc.Timer.Spec)
    (h : EntrySpec cfg s c x a) (hex : ClockExact cfg s c) (ht : clockGet c x = some t) (hlt : t < c.now + d) :
    EntrySpec cfg s (tickClock cfg c x t) x (a.await d).1 ∧ (a.await d).2 = .tick t (max c.now t) := by
  obtain ⟨h1, h2, h3, h4, h5⟩ := h
  have hh := hex x
  rw [ht] at hh h3
  simp at hh
  have hi : ¬ Tmr.interval cfg x = 0 := hh.2
  by_cases hle : t ≤ c.now
  · have hm : max c.now t = c.now := by omega
    cases x <;> simp [Tmr.interval] at hi <;>
      simp [EntrySpec, tickClock, Rc.Timer.Spec.await, clockGet, running, dueAt, h1, h2, h3, h4, h5, hle, hm, hi, Tmr.interval]
  · have hm : max c.now t = t := by omega
    cases x <;> simp [Tmr.interval] at hi <;>
      simp [EntrySpec, tickClock, Rc.Timer.Spec.await, clockGet, running, dueAt, h1, h2, h3, h4, h5, hle, hlt, hm, hi, Tmr.interval]


/-- non-vacuity: an established session with local hold 10 s whose timers were started at 0 s; its hold entry is the
specification state of a 10 s timer started at 0 -/
example :
    let cfg : Cfg := ⟨false, true, true, true, [], 10, [65001]⟩
    let s : St := ⟨.established, false, true, true, false, 0, true, none⟩
    EntrySpec cfg s (Clock.ofSt cfg s) .hold ((Rc.Timer.Spec.init 10).call 0 .start) ∧
      (Clock.ofSt cfg s).hold = some 10 := by
  simp [EntrySpec, Clock.ofSt, Rc.Timer.Spec.init, Rc.Timer.Spec.call, Tmr.interval, holdInterval, clockGet, running, dueAt]

/-- time passing un-polled is the specification's `advance` -/
theorem clock_wait_is_timer_spec (cfg : Cfg) (s : St) (c : Clock) (x : Tmr) (d : Nat) (a : Rc.Timer.Spec)
    (h : EntrySpec cfg s c x a) : EntrySpec cfg s (clockWait c d) x (a.step (.advance d)).1 := by
  obtain ⟨h1, h2, h3, h4, h5⟩ := h
  cases x <;> simp [EntrySpec, clockWait, Rc.Timer.Spec.step, clockGet, h1, h2, h3, h4, h5]

/-- `tickTimer` re-arms the timer whose tick it takes with `tickClock`, then runs the arm of its event -/
theorem tickTimer_clock (cfg : Cfg) (s : St) (c : Clock) (e : Event) (r : StepResult) (c' : Clock)
    (h : tickTimer cfg s c = .fired e r c') :
    ∃ x t, e = x.event ∧ clockGet c x = some t ∧
      c' = clockExec cfg defaultOpen s (tickClock cfg c x t) (actsOfEvent cfg s e) := by
  obtain ⟨y, t, he, hy, _, _, _⟩ := tickTimer_fired cfg s c e r c' h
  refine ⟨y, t, he, hy, ?_⟩
  rw [tickTimer_def] at h
  cases hcs : cands c with
  | nil => rw [hcs] at h; simp at h
  | cons p rest =>
    obtain ⟨t0, e0⟩ := p
    rw [hcs] at h; simp only at h; rw [← hcs] at h
    have hm := foldMin rest (t0, e0)
    simp only at hm
    generalize hb : rest.foldl (fun (b : Nat × Event) z => if z.1 < b.1 then z else b) (t0, e0) = best at hm h
    obtain ⟨bt, be⟩ := best
    split at h
    · cases h
    · injection h with h1 h2 h3
      simp only at h1 h3
      subst h1
      have hbmem : (bt, be) ∈ cands c := by
        rw [hcs]; rcases hm.1 with h | h
        · rw [h]; simp
        · exact List.mem_cons_of_mem _ h
      obtain ⟨z, hz1, hz2⟩ := (mem_cands c bt _).mp hbmem
      have hzy : z = y := by rw [he] at hz1; cases z <;> cases y <;> simp [Tmr.event] at hz1 <;> rfl
      subst hzy
      rw [hy] at hz2; injection hz2 with hz2; subst hz2
      rw [← h3, he]
      cases z <;> simp [Tmr.event, tickClock]

end Rc.Thm.C08
